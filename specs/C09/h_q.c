/* C09 harnesses: one per unit (selected by goto-cc --function). Pointer arguments are shaped by the is_fresh clauses of the contract. */
#ifdef CV_HAS_sqv_emplace
void h_sqv_emplace(void) { SQV *p; sqv_emplace(p); __CPROVER_assert(0, "SENTINEL reachable"); }
#endif
#ifdef CV_HAS_sqv_pop
void h_sqv_pop(void) { SQV *p; sqv_pop(p); __CPROVER_assert(0, "SENTINEL reachable"); }
#endif
#ifdef CV_HAS_sqv_size
void h_sqv_size(void) { SQV *p; sqv_size(p); __CPROVER_assert(0, "SENTINEL reachable"); }
#endif
#ifdef CV_HAS_sqv_empty
void h_sqv_empty(void) { SQV *p; sqv_empty(p); __CPROVER_assert(0, "SENTINEL reachable"); }
#endif
#ifdef CV_HAS_qi_ctor
void h_qi_ctor(void) { QI *q; qi_ctor(q); __CPROVER_assert(0, "SENTINEL reachable"); }
#endif
#ifdef CV_HAS_qi_push
void h_qi_push(void) { SPB *r; QI *q; cv_i32 *v; qi_push(r, q, v); __CPROVER_assert(0, "SENTINEL reachable"); }
#endif
#ifdef CV_HAS_qi_pop
void h_qi_pop(void) { FUTI *r; QI *q; qi_pop(r, q); __CPROVER_assert(0, "SENTINEL reachable"); }
#endif
#ifdef CV_HAS_qi_unblock_pop
void h_qi_unblock_pop(void) { SPB *r; QI *q; EXCP *e; qi_unblock_pop(r, q, e); __CPROVER_assert(0, "SENTINEL reachable"); }
#endif
#ifdef CV_HAS_qi_size
void h_qi_size(void) { QI *q; qi_size(q); __CPROVER_assert(0, "SENTINEL reachable"); }
#endif
#ifdef CV_HAS_qi_empty
void h_qi_empty(void) { QI *q; qi_empty(q); __CPROVER_assert(0, "SENTINEL reachable"); }
#endif
#ifdef CV_HAS_qi_dtor
void h_qi_dtor(void) { QI *q; qi_dtor(q); __CPROVER_assert(0, "SENTINEL reachable"); }
#endif
#ifdef CV_HAS_qv_ctor
void h_qv_ctor(void) { QV *q; qv_ctor(q); __CPROVER_assert(0, "SENTINEL reachable"); }
#endif
#ifdef CV_HAS_qv_push
void h_qv_push(void) { SPB *r; QV *q; qv_push(r, q); __CPROVER_assert(0, "SENTINEL reachable"); }
#endif
#ifdef CV_HAS_qv_pop
void h_qv_pop(void) { FUTV *r; QV *q; qv_pop(r, q); __CPROVER_assert(0, "SENTINEL reachable"); }
#endif
#ifdef CV_HAS_qv_unblock_pop
void h_qv_unblock_pop(void) { SPB *r; QV *q; EXCP *e; qv_unblock_pop(r, q, e); __CPROVER_assert(0, "SENTINEL reachable"); }
#endif
#ifdef CV_HAS_qv_size
void h_qv_size(void) { QV *q; qv_size(q); __CPROVER_assert(0, "SENTINEL reachable"); }
#endif
#ifdef CV_HAS_qv_empty
void h_qv_empty(void) { QV *q; qv_empty(q); __CPROVER_assert(0, "SENTINEL reachable"); }
#endif
#ifdef CV_HAS_qv_dtor
void h_qv_dtor(void) { QV *q; qv_dtor(q); __CPROVER_assert(0, "SENTINEL reachable"); }
#endif
