/* C09 harnesses for the move-only payload units. */
#ifdef CV_HAS_qm_push
void h_qm_push(void) { SPB *r; QM *q; MO *v; qm_push(r, q, v); __CPROVER_assert(0, "SENTINEL reachable"); }
#endif
#ifdef CV_HAS_qm_pop
void h_qm_pop(void) { FUTM *r; QM *q; qm_pop(r, q); __CPROVER_assert(0, "SENTINEL reachable"); }
#endif
#ifdef CV_HAS_qm_dtor
void h_qm_dtor(void) { QM *q; qm_dtor(q); __CPROVER_assert(0, "SENTINEL reachable"); }
#endif
