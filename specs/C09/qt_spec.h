/* C09 - cocls::queue<thr_item>::push<int>(int&&) (emplace-style push) for an item type whose CONSTRUCTOR MAY THROW (drivers/c09_thr_item.h;
 * thr_item::fail is a nondet input).  Clauses of the property statement that only such a type can distinguish - they must hold whenever push
 * RETURNS OR THROWS:
 *   T1  "waiting pops are served in arrival order": the waiting pops that remain are exactly the previous ones minus at most the OLDEST, in
 *       unchanged order (front position advanced by at most one, tail position unchanged, the tracked arbitrary waiter unchanged);
 *       push never (re-)inserts a waiter (a re-inserted waiter would be behind younger ones)
 *   T2  "each item delivered to exactly one pop / never lost": nothing is stored in the item sequence while a pop is waiting (object invariant
 *       on exit, and the item sequence is untouched whenever a pop was waiting); one critical section (a waiter is never outside W and later back)
 *   T3  a waiter that was taken out of W is COMPLETED exactly once, outside the lock - with the item, or, if the item could not be constructed,
 *       with the constructor's exception: never dropped (broken promise) and never left pending.  (A push that leaves W completely untouched and
 *       reports the failure to the producer would satisfy the statement as well; both are admitted.)
 *   T4  nobody waits: the item is appended at the tail (tag = argument), or - constructor threw - the exception reaches the producer and Q, W are
 *       unchanged; no promise is touched
 * Containers / promise<thr_item>: lib/model_awq_thr.c (the models run the real translated thr_item constructor). */
#ifdef CV_MODEL_THR
#define QT_MODEL    LOCK_STATE, gh_pr, TQ_STATE, WQ_STATE, THR_STATE, *THR_BUILT, cv_exc_pending, cv_exc_obj, cv_exc_tinfo, cv_caught_n, __CPROVER_object_whole(cv_caught_obj), __CPROVER_object_whole(cv_caught_ti)
#define TINV9       (!(TQ_LEN > 0 && WQ_LEN > 0))
#define QT_PRE(q)   (cv_exc_pending == 0 && cv_caught_n == 0 && __CPROVER_is_fresh(q, sizeof(*(q))) && LOCK_IDLE && gh_q_mx == (void *)&(q)->_mx && gh_q_lock_required == 1 && \
                     PR_LOG_CLEAN && TQ_INV && WQ_INV && WQ_CLEAN && TINV9 && THR_CLEAN && *THR_BUILT < (1u << 30))
#define TW_NONEMPTY0 (OLD(wq_head) < OLD(wq_tail))
#define TQ_SAME     (tq_head == OLD(tq_head) && tq_tail == OLD(tq_tail) && tq_trk == OLD(tq_trk))
#define TW_SAME     (wq_head == OLD(wq_head) && wq_tail == OLD(wq_tail) && wq_trk == OLD(wq_trk))
#define THR_FAILS   (OLD(*THR_FAIL) != 0)
#define THROWN      (cv_exc_pending != 0)
#endif

#ifdef CV_HAS_qt_push
void qt_push(SPB *ret, QT *this_, cv_i32 *args)
__CPROVER_requires(QT_PRE(this_) && __CPROVER_is_fresh(ret, sizeof(*ret)) && __CPROVER_is_fresh(args, sizeof(*args)))
__CPROVER_assigns(__CPROVER_object_whole(ret), QT_MODEL)
/* ---- whenever push returns or throws */
__CPROVER_ensures(ONE_CS && TQ_INV && WQ_INV && PR_HYGIENE && gh_pr.fresh_n == 0 && cv_caught_n == 0)
__CPROVER_ensures(TINV9)                                                                                          /* T2: never an item stored while a pop waits */
__CPROVER_ensures(wq_tail == OLD(wq_tail) && gh_thr.wq_emplaced == 0)                                             /* T1: no waiter is (re-)inserted */
__CPROVER_ensures((wq_head == OLD(wq_head) || (TW_NONEMPTY0 && wq_head == OLD(wq_head) + 1)) && wq_trk == OLD(wq_trk))   /* T1: at most the OLDEST waiter left, order of the others unchanged */
__CPROVER_ensures(!THR_FAILS ==> !THROWN)                                                                         /* push itself never throws */
/* ---- a pop is waiting */
__CPROVER_ensures(TW_NONEMPTY0 ==> TQ_SAME)                                                                       /* T2 */
/* T3: the oldest waiter is taken and completed exactly once, outside the lock (or - only if the constructor threw - W is untouched and the producer gets the exception) */
__CPROVER_ensures(TW_NONEMPTY0 ==> ((wq_head == OLD(wq_head) + 1 && gh_pr.n == 1 && gh_pr.locked[0] == 0 && gh_pr.kind[0] != PR_DROP && !THROWN && ret->value == 1) ||
                                    (THR_FAILS && wq_head == OLD(wq_head) && gh_pr.n == 0 && THROWN)))
__CPROVER_ensures((TW_NONEMPTY0 && gh_pr.n == 1 && gh_WK == OLD(wq_head)) ==> gh_pr.id[0] == OLD(wq_trk))       /* ... and it IS the oldest one */
__CPROVER_ensures((TW_NONEMPTY0 && !THR_FAILS) ==> (gh_pr.n == 1 && gh_pr.kind[0] == PR_VALUE && gh_pr.val[0] == OLD(*args) && gh_thr.n_deliv == 1 && gh_thr.deliv.tag == OLD(*args)))
__CPROVER_ensures((TW_NONEMPTY0 && THR_FAILS && gh_pr.n == 1) ==> (gh_pr.kind[0] == PR_EXC && gh_pr.exc[0] != 0 && gh_pr.exc[0] == gh_thr.exc_obj && gh_thr.exc_tag == OLD(*args) && gh_thr.n_deliv == 0))
/* ---- nobody waits (T4) */
__CPROVER_ensures(!TW_NONEMPTY0 ==> (TW_SAME && gh_pr.n == 0 && gh_thr.n_deliv == 0 && tq_head == OLD(tq_head)))
__CPROVER_ensures((!TW_NONEMPTY0 && !THR_FAILS) ==> (tq_tail == OLD(tq_tail) + 1 && ret->value == 0))
__CPROVER_ensures((!TW_NONEMPTY0 && !THR_FAILS && gh_TK == OLD(tq_tail)) ==> tq_trk == OLD(*args))
__CPROVER_ensures((!TW_NONEMPTY0 && !THR_FAILS && gh_TK != OLD(tq_tail)) ==> tq_trk == OLD(tq_trk))
__CPROVER_ensures((!TW_NONEMPTY0 && THR_FAILS) ==> (THROWN && cv_exc_tinfo == (void *)THR_TI && TQ_SAME))        /* the producer gets thr_error, the queue is unchanged */
;
#endif
