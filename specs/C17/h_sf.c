/* C17 - harnesses of the contract units (one per unit, selected by goto-cc --function). Pointer arguments are left
 * uninitialised and shaped by the contract's requires (__CPROVER_is_fresh / __CPROVER_pointer_equals).
 * Every SENTINEL must be reachable (= FAIL): one per case of the contract, so that no case is verified vacuously. */
#define SENT(c, txt) do { if (c) __CPROVER_assert(0, "SENTINEL reachable: " txt); } while (0)
#ifdef CV_HAS_sf_ctor_default
void h_ctor_default(void)   { SF *p; sf_ctor_default(p); SENT(1, "after shared_future()"); }
#endif
#ifdef CV_HAS_tr_charge
void h_charge(void)         { TRACER *t; SPFI *ptr; tr_charge(t, ptr);
                              SENT(gh_pend0, "charge on a pending future"); SENT(!gh_pend0, "charge on a resolved future"); }
#endif
#ifdef CV_HAS_tr_invoke
void h_tracer_resume(void)  { SPV *ret; AWT *x; cv_i8 *ctx; tr_invoke(ret, x, ctx);
                              SENT(gh_c0 == 1, "tracer holds the last reference"); SENT(gh_c0 > 1, "handles still alive when the tracer is resumed");
                              SENT(gh_c0 == 1 && gh_exc0, "tracer releases a state that holds an exception"); }
#endif
#ifdef CV_HAS_sf_dtor
void h_dtor(void)           { SF *p; sf_dtor(p);
                              SENT(gh_cb0 == 0, "~shared_future of an empty handle"); SENT(gh_cb0 != 0 && gh_pend0, "~shared_future while pending");
                              SENT(gh_cb0 != 0 && !gh_pend0 && gh_c0 > 1, "~shared_future, resolved, other handles remain");
                              SENT(gh_cb0 != 0 && gh_c0 == 1, "~shared_future of the last owner");
                              SENT(gh_cb0 != 0 && gh_c0 == 1 && gh_exc0, "~shared_future of the last owner, stored exception"); SENT(gh_cb0 != 0 && gh_c0 > 1 && gh_exc0, "~shared_future, stored exception, copies remain"); }
#endif
#ifdef CV_HAS_sf_copy_ctor
void h_copy_ctor(void)      { SF *p, *q; sf_copy_ctor(p, q); SENT(gh_cb0 == 0, "copy of an empty handle"); SENT(gh_cb0 != 0, "copy of a non-empty handle"); }
#endif
#ifdef CV_HAS_sf_copy_assign
void h_copy_assign(void)    { SF *p, *q; sf_copy_assign(p, q);
                              SENT(gh_alias, "assignment between two handles of the same state");
                              SENT(!gh_alias && gh_cb0 == 0 && gh_cb1 == 0, "empty = empty"); SENT(!gh_alias && gh_cb0 == 0 && gh_cb1 != 0, "empty = non-empty");
                              SENT(!gh_alias && gh_cb0 != 0 && gh_cb1 == 0 && gh_c0 == 1, "last owner = empty"); SENT(!gh_alias && gh_cb0 != 0 && gh_cb1 != 0 && gh_c0 > 1, "non-empty = other state, old state survives");
                              SENT(!gh_alias && gh_cb0 != 0 && gh_cb1 != 0 && gh_c0 == 1, "last owner = other state");
                              SENT(!gh_alias && gh_cb0 != 0 && gh_c0 == 1 && gh_exc0, "last owner of a state with a stored exception = ..."); }
#endif
#ifdef CV_HAS_sf_ctor_pfn
void h_ctor_promise(void)   { SF *p; PFN *fn; sf_ctor_pfn(p, fn);
                              SENT(gh_env_choice == 0, "ctor(Fn(promise)), promise kept"); SENT(gh_env_choice == 1, "ctor(Fn(promise)), resolved inside"); SENT(gh_env_choice == 2, "ctor(Fn(promise)), promise dropped inside"); }
#endif
#ifdef CV_HAS_sf_ctor_ffn
void h_ctor_future(void)    { SF *p; FFN *fn; sf_ctor_ffn(p, fn);
                              SENT(gh_env_choice == 0, "ctor(Fn()->future), pending"); SENT(gh_env_choice == 1, "ctor(Fn()->future), ready with value"); SENT(gh_env_choice == 2, "ctor(Fn()->future), ready without value"); }
#endif
#ifdef CV_HAS_sf_init_if_needed
void h_init_if_needed(void) { SF *p; sf_init_if_needed(p); SENT(gh_cb0 == 0, "init_if_needed on an empty handle"); SENT(gh_cb0 != 0, "init_if_needed on an initialised handle"); }
#endif
#ifdef CV_HAS_sf_get_promise
void h_get_promise(void)    { PROMISE *r; SF *p; sf_get_promise(r, p); SENT(1, "after get_promise"); }
#endif
#ifdef CV_HAS_sf_ready
void h_ready(void)          { SF *p; cv_i1 r = sf_ready(p); SENT(gh_cb0 == 0, "ready() on an empty handle"); SENT(gh_cb0 != 0 && r, "ready() true"); SENT(gh_cb0 != 0 && !r, "ready() false"); }
#endif
#ifdef CV_HAS_sf_value
void h_value(void)          { SF *p; sf_value(p); SENT(gh_cb0 == 0, "value() on an empty handle"); SENT(gh_cb0 != 0 && cv_exc_pending == 0, "value() returns the value"); SENT(gh_cb0 != 0 && cv_exc_pending != 0 && !gh_exc0, "value() throws"); SENT(gh_exc0, "value() rethrows the stored exception"); }
#endif
#ifdef CV_HAS_sf_wait
void h_wait(void)           { SF *p; sf_wait(p); SENT(1, "after wait"); }
#endif
#ifdef CV_HAS_sf_co_await
void h_co_await(void)       { COAW *r; SF *p; sf_co_await(r, p); SENT(1, "after operator co_await"); }
#endif
#if defined(CV_HAS_sf_shift) && defined(SHIFT_ON_EMPTY)
void h_shift_on_empty(void) { SF *p; FFN *fn; sf_shift(p, fn); SENT(1, "after operator<< on an empty handle"); }
#endif
#if defined(CV_HAS_sf_shift) && !defined(SHIFT_ON_EMPTY)
void h_shift(void)          { SF *p; FFN *fn; sf_shift(p, fn);
                              SENT(gh_env_choice == 0, "operator<<, the new operation is pending"); SENT(gh_env_choice == 1, "operator<<, ready with value"); SENT(gh_env_choice == 2, "operator<<, ready without value");
                              SENT(gh_exc0, "operator<< replaces a stored exception"); SENT(!gh_exc0 && gh_c0 > 1, "operator<< on a state shared by several handles"); }
#endif
#ifdef CV_HAS_sf_force_wait
void h_force_wait(void)     { SF *p; sf_force_wait(p); SENT(1, "after force_wait"); }
#endif
#ifdef CV_HAS_sf_join
void h_join(void)           { SF *p; sf_join(p); SENT(1, "after join"); }
#endif
#ifdef CV_HAS_sf_sync
void h_sync(void)           { SF *p; sf_sync(p); SENT(1, "after sync"); }
#endif
#ifdef CV_HAS_sf_force_sync
void h_force_sync(void)     { SF *p; sf_force_sync(p); SENT(1, "after force_sync"); }
#endif
#ifdef CV_HAS_sf_as_future
void h_as_future(void)      { SF *p; sf_as_future(p); SENT(1, "after operator future<int>&"); }
#endif
#ifdef CV_HAS_sf_set_exception
void h_set_exception(void)  { SF *r; EXCPTR *e; sf_set_exception(r, e); SENT(1, "after set_exception"); }
#endif
#ifdef CV_HAS_sf_set_value
void h_set_value(void)      { SF *r; cv_i32 *v; sf_set_value(r, v); SENT(1, "after set_value"); }
#endif
