/* C17 - harnesses of the contract units (one per unit, selected by goto-cc --function). Pointer arguments are left
 * uninitialised and shaped by __CPROVER_is_fresh in the contract's requires; the SENTINEL must be reachable (FAIL). */
#ifdef CV_HAS_sf_ctor_default
void h_ctor_default(void)   { SF *p; sf_ctor_default(p); __CPROVER_assert(0, "SENTINEL reachable after shared_future()"); }
#endif
#ifdef CV_HAS_tr_charge
void h_charge(void)         { TRACER *t; SPFI *ptr; tr_charge(t, ptr); __CPROVER_assert(0, "SENTINEL reachable after resolve_cb::charge"); }
#endif
#ifdef CV_HAS_tr_invoke
void h_tracer_resume(void)  { SPV *ret; AWT *x; cv_i8 *ctx; tr_invoke(ret, x, ctx); __CPROVER_assert(0, "SENTINEL reachable after the tracer's resume function"); }
#endif
#ifdef CV_HAS_sf_dtor
void h_dtor(void)           { SF *p; sf_dtor(p); __CPROVER_assert(0, "SENTINEL reachable after ~shared_future"); }
#endif
#ifdef CV_HAS_sf_copy_ctor
void h_copy_ctor(void)      { SF *p, *q; sf_copy_ctor(p, q); __CPROVER_assert(0, "SENTINEL reachable after copy constructor"); }
#endif
#ifdef CV_HAS_sf_copy_assign
void h_copy_assign(void)    { SF *p, *q; sf_copy_assign(p, q); __CPROVER_assert(0, "SENTINEL reachable after copy assignment"); }
#endif
#ifdef CV_HAS_sf_ctor_pfn
void h_ctor_promise(void)   { SF *p; PFN *fn; sf_ctor_pfn(p, fn); __CPROVER_assert(0, "SENTINEL reachable after shared_future(Fn(promise))"); }
#endif
#ifdef CV_HAS_sf_ctor_ffn
void h_ctor_future(void)    { SF *p; FFN *fn; sf_ctor_ffn(p, fn); __CPROVER_assert(0, "SENTINEL reachable after shared_future(Fn()->future)"); }
#endif
#ifdef CV_HAS_sf_init_if_needed
void h_init_if_needed(void) { SF *p; sf_init_if_needed(p); __CPROVER_assert(0, "SENTINEL reachable after init_if_needed"); }
#endif
#ifdef CV_HAS_sf_get_promise
void h_get_promise(void)    { PROMISE *r; SF *p; sf_get_promise(r, p); __CPROVER_assert(0, "SENTINEL reachable after get_promise"); }
#endif
#ifdef CV_HAS_sf_ready
void h_ready(void)          { SF *p; sf_ready(p); __CPROVER_assert(0, "SENTINEL reachable after ready"); }
#endif
#ifdef CV_HAS_sf_value
void h_value(void)          { SF *p; sf_value(p); __CPROVER_assert(0, "SENTINEL reachable after value"); }
#endif
#ifdef CV_HAS_sf_wait
void h_wait(void)           { SF *p; sf_wait(p); __CPROVER_assert(0, "SENTINEL reachable after wait"); }
#endif
#ifdef CV_HAS_sf_co_await
void h_co_await(void)       { COAW *r; SF *p; sf_co_await(r, p); __CPROVER_assert(0, "SENTINEL reachable after operator co_await"); }
#endif
