/* C17 - bounded drive over the REAL translated bodies (DESIGN 3.8): one shared state, up to 3 handles, up to 2 function
 * awaiters, a nondeterministic sequence of DRIVE_STEPS operations
 *     copy-construct / copy-assign / destroy a handle, subscribe an awaiter through a handle, resolve (value or broken promise)
 * in ANY order (single thread), then whatever is still outstanding is finished (resolve, drop every handle).
 * Real code: shared_future members, the libstdc++ shared_ptr wrappers above the control-block model, future<int>/promise<int>
 * (get_promise, claim, set, resolve), awaiter::resume_chain_set_ready / resume_chain_lk / resume, the tracer lambda.
 * Abstract: the control block (lib/model_sharedptr_cb.c), awaiter::subscribe_check_ready (sequential reading, sf_spec.h).
 * Checked: nothing is released while the future is pending - even with every handle gone; afterwards the state is destroyed and
 * freed exactly once (gh_allocs == gh_frees, one dispose, one release; CBMC's use-after-free / double-free checks are on);
 * every accepted awaiter is resumed exactly once and never before resolution; every live copy sees ready() and the SAME
 * value object holding the resolved value. */
#ifdef CV_HAS_drv_resolve
#ifndef DRIVE_STEPS
#define DRIVE_STEPS 4
#endif
#define NH 3
#define NA 2
/* environment functor of shared_future(Fn(promise)): keeps the promise (moves it out with the real promise(promise&&)) */
PROMISE g_promise; int g_have_promise;
#ifdef CV_HAS_env_promise_fn
void env_promise_fn(PFN *fn, PROMISE *p) { drv_promise_move(&g_promise, p); g_have_promise = 1; }
#endif
#ifdef CV_HAS_sp_suspend_now
void sp_suspend_now(SPV *sp) { __CPROVER_assert(0, "drive: no coroutine handle is ever made ready here (all awaiters are function awaiters)"); }
#endif
int nondet_int(void);
void h_drive(void)
{
  SF h[NH]; int live[NH]; CAW aw[NA]; int sub[NA]; int accepted[NA];
  int resolved = 0, with_value = 0, n_live = 0; cv_i32 val = nondet_unsigned();
  unsigned allocs0 = gh_allocs, frees0 = gh_frees;
  for (int i = 0; i < NH; i++) live[i] = 0;
  for (int k = 0; k < NA; k++) { drv_awaiter_init(&aw[k]); sub[k] = 0; accepted[k] = 0; }
  /* ---- creation */
#if DRIVE_START == 1          /* shared_future f(fn) where fn receives (and keeps) the promise */
  { PFN fn; drv_ctor_promise(&h[0], &fn); __CPROVER_assert(g_have_promise == 1, "drive: the user function received the promise"); }
#else                         /* shared_future f; auto p = f.get_promise();   (late initialisation) */
  drv_default(&h[0]); drv_get_promise(&h[0], &g_promise);
#endif
  live[0] = 1; n_live = 1;
  __CPROVER_assert(cv_exc_pending == 0, "drive: no exception from creation");
  __CPROVER_assert(gh_allocs == allocs0 + 1 && gh_sp_made == 1, "drive: the shared state is one allocation");
  __CPROVER_assert(!drv_ready(&h[0]), "drive: a fresh shared_future with an outstanding promise is not ready");
  /* ---- any order of operations */
  for (int step = 0; step < DRIVE_STEPS; step++) {
    int op = nondet_int(), i = nondet_int(), j = nondet_int();
    __CPROVER_assume(0 <= op && op <= 5 && 0 <= i && i < NH && 0 <= j && j < NH);
    if (op == 0 && live[i] && !live[j]) { drv_copy_ctor(&h[j], &h[i]); live[j] = 1; n_live++; }
    else if (op == 1 && live[i] && live[j]) { drv_copy_assign(&h[j], &h[i]); }
    else if (op == 2 && live[i]) { drv_dtor(&h[i]); live[i] = 0; n_live--; }
    else if (op == 3 && live[i] && j < NA && !sub[j]) { sub[j] = 1; accepted[j] = drv_subscribe(&h[i], &aw[j]) ? 1 : 0;
        __CPROVER_assert(accepted[j] == (resolved ? 0 : 1), "drive: an awaiter is accepted exactly while the future is pending"); }
    else if (op == 4 && !resolved) { cv_i1 won = drv_resolve(&g_promise, val); resolved = 1; with_value = 1; __CPROVER_assert(won == 1, "drive: the only promise wins"); }
    else if (op == 5 && !resolved) { drv_drop_promise(&g_promise); resolved = 1; }
    __CPROVER_assert(cv_exc_pending == 0, "drive: no exception escapes an operation");
    if (!resolved) {
      __CPROVER_assert(gh_frees == frees0 && gh_sp_disposed == 0 && gh_sp_released == 0, "drive: nothing is destroyed or freed while the future is pending (even with no handle left)");
      for (int k = 0; k < NA; k++) __CPROVER_assert(aw[k].hits == 0, "drive: no awaiter is resumed before resolution");
    }
  }
  /* ---- finish: resolve if still pending */
  if (!resolved) { if (nondet_bool()) { drv_resolve(&g_promise, val); with_value = 1; } else drv_drop_promise(&g_promise); resolved = 1; }
  __CPROVER_assert(cv_exc_pending == 0, "drive: no exception from resolution");
  for (int k = 0; k < NA; k++) __CPROVER_assert(aw[k].hits == (accepted[k] ? 1 : 0), "drive: every accepted awaiter has been resumed exactly once");
  __CPROVER_assert((n_live == 0) == (gh_sp_released == 1), "drive: after resolution the state is gone iff no handle is left");
  /* every live copy observes the same single result */
  { cv_i32 *first = 0;
    for (int i = 0; i < NH; i++) if (live[i]) {
      __CPROVER_assert(drv_ready(&h[i]), "drive: every copy is ready after resolution");
      if (with_value) { cv_i32 *v = drv_value(&h[i]); __CPROVER_assert(cv_exc_pending == 0 && *v == val, "drive: every copy reads the resolved value");
                        if (first == 0) first = v; __CPROVER_assert(v == first, "drive: all copies read the same value object"); } } }
  /* ---- drop every remaining handle, in any order */
  for (int r = 0; r < NH; r++) { int i = nondet_int(); __CPROVER_assume(0 <= i && i < NH);
    for (int t = 0; t < NH; t++) { int x = (i + t) % NH; if (live[x]) { drv_dtor(&h[x]); live[x] = 0; n_live--; break; } } }
  __CPROVER_assert(n_live == 0, "drive: all handles dropped");
  drv_drop_promise(&g_promise);                          /* a used promise is inert */
  __CPROVER_assert(gh_sp_disposed == 1 && gh_sp_released == 1, "drive: the shared state is destroyed exactly once and released exactly once");
  __CPROVER_assert(gh_allocs - allocs0 == gh_frees - frees0, "drive: no leak (allocations == frees)");
  for (int k = 0; k < NA; k++) __CPROVER_assert(aw[k].hits == (accepted[k] ? 1 : 0), "drive: no awaiter is resumed a second time");
  __CPROVER_assert(0, "SENTINEL reachable: end of the drive");
}
#endif
