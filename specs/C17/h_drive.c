/* C17 - bounded drive over the REAL translated bodies (DESIGN 3.8).
 * One shared state, three handle slots, two function awaiters.  A unit hands this harness ONE fixed order of operations (a
 * constant table, see units.py: the quick tier runs the orders the property statement singles out, the thorough tier every
 * order of <= 4 operations that contains the resolution); the harness creates the state, runs the order on fresh objects and
 * then completes it (reads through every copy, destroys every handle).  Alphabet:
 *     CC copy-construct a new handle        CA copy-assign into an empty handle      DD destroy a handle
 *     DA drop by assigning an empty handle  AS self-assignment                       AP assignment between two owners
 *     SU subscribe the next awaiter         RV resolve with a value                  BR break the promise (destroy it)
 *     RE resolve with an exception (an exception object of the exception model, lib/rt_core.c; hand-picked orders only)
 * Ways of creating the state (DRIVE_START): 1 shared_future(Fn(promise));  0 default construction + get_promise();
 *     2 default construction + init_if_needed(), a copy is handed out and AWAITED, then get_promise()  (audit E/D2: the awaiter
 *       accepted before get_promise() must be resumed exactly once too - open known finding C17-FINDING-await-before-get-promise);
 *     3 default construction + init_if_needed() + operator<<(fn), fn starts an operation and keeps its promise  (audit E/D1).
 * (handles are interchangeable for the shared state, so each operation picks canonical slots: lowest owner / lowest empty /
 *  highest owner).  Fixed orders instead of a nondeterministic choice per step: with a symbolic order CBMC reasons at byte level
 *  about every pointer (1 step: ~1 min, 3 steps: > 16 GB); a fixed order is executed almost concretely (~2-20 s).  Even several
 *  fixed orders in one run do not stay concrete, hence one order per unit.  The resolved value stays symbolic.
 * Real code: the shared_future members, the libstdc++ shared_ptr wrappers above the control-block model, future<int> /
 * promise<int> (get_promise, move, claim, set, resolve, destructor), awaiter::resume_chain_set_ready / resume_chain_lk /
 * resume, the tracer lambda, future::value / ready.
 * Abstract: the control block (lib/model_sharedptr_cb.c), awaiter::subscribe_check_ready (sequential reading, sf_spec.h),
 * suspend_point::operator<< / suspend_now (checked to be used on empty suspend points only - no awaiter here is a coroutine).
 * Checked: nothing is destroyed or freed while the future is pending - even with every handle gone; after resolution the
 * state is released exactly when the last handle goes, destroyed once, freed once (allocations == frees; CBMC's
 * use-after-free / double-free checks are on); every accepted awaiter is resumed exactly once and never before resolution; a
 * late awaiter is refused; every live copy is ready and reads the SAME value object holding the resolved value. */
#ifdef CV_HAS_drv_resolve
#define NH 3
#define NA 2
enum { CC, CA, DD, DA, AS, AP, SU, RV, BR, END, RE };
static const signed char SCRIPTS[][DRIVE_LEN + 1] = { DRIVE_SCRIPTS };
#define N_SCRIPTS ((int)(sizeof(SCRIPTS) / sizeof(SCRIPTS[0])))
/* environment functor of shared_future(Fn(promise)): keeps the promise (moves it out with the real promise(promise&&)) */
PROMISE g_promise; int g_have_promise;
#ifdef CV_HAS_env_promise_fn
void env_promise_fn(PFN *fn, PROMISE *p) { drv_promise_move(&g_promise, p); g_have_promise = 1; }
#endif
#if defined(CV_HAS_env_future_fn) && defined(CV_HAS_drv_future_pending)
/* environment functor of operator<<(Fn()->future): starts an operation whose promise it keeps; the pending future it returns is
 * constructed in place (in the shared state) by the real future<int>() + get_promise() */
void env_future_fn(FUT *ret, FFN *fn) { drv_future_pending(ret, &g_promise); g_have_promise = 1; }
#endif
#ifdef CV_HAS_drv_resolve_exc
/* an exception object of the exception model: [16-byte header holding its type | object]; the harness owns one std::exception_ptr to it */
static char c17_exc_type_marker; EXCPTR g_exc;
#endif
#ifdef CV_HAS_sp_suspend_now
void sp_suspend_now(SPV *sp) { __CPROVER_assert(0, "drive: no coroutine handle is ever made ready here (all awaiters are function awaiters)"); }
#endif
#ifdef CV_HAS_sp_merge
SPV *sp_merge(SPV *this_, SPV *other) {   /* suspend_point::operator<<(suspend_point&&): merging an EMPTY suspend point is a no-op (checked) */
  __CPROVER_assert(other->_count_flag == 0, "drive: only empty suspend points are merged (no awaiter here is a coroutine)");
  return this_; }
#endif
unsigned gh_scripts_done;
static int lowest(const int *holds, int want) { for (int i = 0; i < NH; i++) if (holds[i] == want) return i; return -1; }
static int highest(const int *holds, int want) { for (int i = NH - 1; i >= 0; i--) if (holds[i] == want) return i; return -1; }

static void run_script(const signed char *script, cv_i32 val)
{
  SF h[NH]; CAW aw[NA]; int holds[NH]; int accepted[NA]; int n_sub = 0, promise_alive = 1;
  int resolved = 0, with_value = 0, with_exc = 0, n_live = 0;
  unsigned ep_add0 = gh_ep_addref, ep_rel0 = gh_ep_release; cv_i8 *exc_blk = 0;
  unsigned allocs0 = gh_allocs, frees0 = gh_frees, made0 = gh_sp_made, disp0 = gh_sp_disposed, rel0 = gh_sp_released;
  for (int k = 0; k < NA; k++) { drv_awaiter_init(&aw[k]); accepted[k] = 0; }
  /* ---- creation: slot 0 gets the state, the other slots are default-constructed (empty) handles */
#if DRIVE_START == 1          /* shared_future f(fn) where fn receives (and keeps) the promise */
  { PFN fn; g_have_promise = 0; drv_ctor_promise(&h[0], &fn); __CPROVER_assert(g_have_promise == 1, "drive: the user function received the promise"); }
#elif DRIVE_START == 2        /* shared_future f; f.init_if_needed(); copy = f; <copy is awaited>; auto p = f.get_promise(); */
  CAW early; int early_accepted;
  { SF copy; drv_awaiter_init(&early);
    drv_default(&h[0]); drv_init_if_needed(&h[0]); drv_copy_ctor(&copy, &h[0]);
    early_accepted = drv_subscribe(&copy, &early) ? 1 : 0;          /* the consumer cannot know that the promise has not been taken yet */
    drv_get_promise(&h[0], &g_promise); drv_dtor(&copy); }
#elif DRIVE_START == 3        /* shared_future f; f.init_if_needed(); f << fn;   fn starts an operation and keeps its promise */
  { FFN ffn; g_have_promise = 0; drv_default(&h[0]); drv_init_if_needed(&h[0]); drv_shift(&h[0], &ffn);
    __CPROVER_assert(g_have_promise == 1, "drive: the user function was called and kept the promise"); }
#else                         /* shared_future f; auto p = f.get_promise();   (late initialisation) */
  drv_default(&h[0]); drv_get_promise(&h[0], &g_promise);
#endif
  holds[0] = 1; n_live = 1;
  for (int i = 1; i < NH; i++) { drv_default(&h[i]); holds[i] = 0; }
  __CPROVER_assert(cv_exc_pending == 0, "drive: no exception from creation");
  __CPROVER_assert(gh_allocs == allocs0 + 1 && gh_sp_made == made0 + 1, "drive: the shared state is one allocation");
  __CPROVER_assert(!drv_ready(&h[0]) && !drv_ready(&h[1]), "drive: neither a fresh shared_future with an outstanding promise nor an empty one is ready");
  /* ---- the script */
  for (int step = 0; step < DRIVE_LEN && script[step] != END; step++) {
    int op = script[step], lo = lowest(holds, 1), hi = highest(holds, 1), e = lowest(holds, 0);
    __CPROVER_assert(op == RV || op == BR || op == RE || lo >= 0 || op == CC || op == CA, "drive: script well-formed");
    if (op == CC)      { drv_dtor(&h[e]); drv_copy_ctor(&h[e], &h[lo]); holds[e] = 1; n_live++; }
    else if (op == CA) { drv_copy_assign(&h[e], &h[lo]); holds[e] = 1; n_live++; }
    else if (op == DD) { drv_dtor(&h[hi]); drv_default(&h[hi]); holds[hi] = 0; n_live--; }
    else if (op == DA) { drv_copy_assign(&h[hi], &h[e]); holds[hi] = 0; n_live--; }
    else if (op == AS) { drv_copy_assign(&h[lo], &h[lo]); }
    else if (op == AP) { drv_copy_assign(&h[hi], &h[lo]); }
    else if (op == SU) { accepted[n_sub] = drv_subscribe(&h[lo], &aw[n_sub]) ? 1 : 0;
                         __CPROVER_assert(accepted[n_sub] == (resolved ? 0 : 1), "drive: an awaiter is accepted exactly while the future is pending"); n_sub++; }
    else if (op == RV) { cv_i1 won = drv_resolve(&g_promise, val); resolved = 1; with_value = 1; __CPROVER_assert(won == 1, "drive: the only promise wins"); }
    else if (op == BR) { drv_drop_promise(&g_promise); promise_alive = 0; resolved = 1; }
#ifdef CV_HAS_drv_resolve_exc
    else if (op == RE) { exc_blk = malloc(CV_EXC_HDR + 8); __CPROVER_assume(exc_blk != 0); *(void **)exc_blk = (void *)&c17_exc_type_marker; g_exc._M_exception_object = exc_blk + CV_EXC_HDR;
                         cv_i1 won = drv_resolve_exc(&g_promise, &g_exc); resolved = 1; with_exc = 1; __CPROVER_assert(won == 1, "drive: the only promise wins (exception)"); }
#endif
    __CPROVER_assert(cv_exc_pending == 0, "drive: no exception escapes an operation");
    if (!resolved) {
      __CPROVER_assert(gh_frees == frees0 && gh_sp_disposed == disp0 && gh_sp_released == rel0, "drive: nothing is destroyed or freed while the future is pending (even with no handle left)");
      for (int k = 0; k < NA; k++) __CPROVER_assert(aw[k].hits == 0, "drive: no awaiter is resumed before resolution");
    } else
      __CPROVER_assert((n_live == 0) == (gh_sp_released == rel0 + 1) && gh_sp_released <= rel0 + 1, "drive: after resolution the state is released exactly when the last handle has gone");
  }
  /* ---- every script contains its resolution (the harness stays free of nondeterministic choices: see header) */
  __CPROVER_assert(resolved, "drive: script well-formed (contains RV, RE or BR)");
  __CPROVER_assert(cv_exc_pending == 0, "drive: no exception from resolution");
  for (int k = 0; k < NA; k++) __CPROVER_assert(aw[k].hits == (accepted[k] ? 1 : 0), "drive: every accepted awaiter has been resumed exactly once");
  __CPROVER_assert((n_live == 0) == (gh_sp_released == rel0 + 1), "drive: after resolution the state is gone iff no handle is left");
  /* every live copy observes the same single result */
  { cv_i32 *first = 0;
    for (int i = 0; i < NH; i++) if (holds[i]) {
      __CPROVER_assert(drv_ready(&h[i]), "drive: every copy is ready after resolution");
      if (with_value) { cv_i32 *v = drv_value(&h[i]); __CPROVER_assert(cv_exc_pending == 0 && *v == val, "drive: every copy reads the resolved value");
                        if (first == 0) first = v; __CPROVER_assert(v == first, "drive: all copies read the same value object"); }
#ifdef CV_HAS_drv_resolve_exc
      if (with_exc) { drv_value(&h[i]);
                      __CPROVER_assert(cv_exc_pending == 1 && cv_exc_obj == (void *)g_exc._M_exception_object && cv_exc_tinfo == (void *)&c17_exc_type_marker, "drive: every copy rethrows the same stored exception object");
                      cv_exc_pending = 0;      /* caught by the reader */
                      __CPROVER_assert((gh_ep_addref - ep_add0) - (gh_ep_release - ep_rel0) == 1, "drive: reading gives back the reference it took; the shared state keeps exactly one reference to the exception"); }
#endif
    } }
  /* ---- destroy every handle */
  for (int i = 0; i < NH; i++) { drv_dtor(&h[i]); n_live -= holds[i]; holds[i] = 0; }
  __CPROVER_assert(n_live == 0, "drive: all handles dropped");
  if (promise_alive) drv_drop_promise(&g_promise);       /* destroying the used promise changes nothing */
  __CPROVER_assert(gh_sp_disposed == disp0 + 1 && gh_sp_released == rel0 + 1, "drive: the shared state is destroyed exactly once and released exactly once");
  __CPROVER_assert(gh_allocs - allocs0 == gh_frees - frees0, "drive: no leak (allocations == frees)");
  for (int k = 0; k < NA; k++) __CPROVER_assert(aw[k].hits == (accepted[k] ? 1 : 0), "drive: no awaiter is resumed a second time");
  __CPROVER_assert(gh_ep_addref - ep_add0 == gh_ep_release - ep_rel0, "drive: the stored exception_ptr has been released exactly once (every reference taken on the exception object was given back; the harness keeps its own)");
#if DRIVE_START == 2
  __CPROVER_assert(early.hits == early_accepted, "drive: C17-FINDING-await-before-get-promise: the awaiter accepted through a copy BEFORE get_promise() has been resumed exactly once");
#endif
  if (exc_blk != 0) free(exc_blk);                        /* the harness lets go of its own reference: the exception object dies */
  gh_scripts_done++;
}
void h_drive(void)
{
  cv_i32 val = nondet_unsigned();
  for (int s = 0; s < N_SCRIPTS; s++) run_script(SCRIPTS[s], val);
  __CPROVER_assert(gh_scripts_done == N_SCRIPTS, "drive: every script ran to its end");
  __CPROVER_assert(0, "SENTINEL reachable: end of the drive");
}
#endif
