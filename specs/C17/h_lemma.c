/* C17 - reference lemma over the contracts (DESIGN 3.6): an UNBOUNDED history of operations on one shared state.
 *
 * Abstract state of one shared state:  alive, c = strong count, t = tracer holds its self-reference, p = future pending,
 * h = number of live handles that refer to it, rel = how often it has been destroyed+released.
 * Each transition is exactly a reference-count clause of an ENFORCED contract (the macros of sf_spec.h, instantiated here with
 * L_ALIVE_WITH): creation = CREATED (constructors, get_promise), copy = REF_ADDED (copy constructor / assignment), drop =
 * REF_DROPPED (destructor / assignment away), resolution = the future leaves `pending` and the tracer's resume function runs
 * once = REF_DROPPED (tracer_resume), binding a new operation to a state that is not pending = TRACER_CHARGED (operator<<,
 * get_promise on an initialised handle).  Assumed from C01/C02 (not proved here): a pending future is resolved at most once and
 * resolution resumes every subscribed awaiter - here the tracer - exactly once.
 * Invariant LI and consequences, for histories of any length and any number of handles:
 *   (a) while the future is pending the state is alive - it cannot be freed before resolution, even when h == 0;
 *   (b) rel <= 1 always: never destroyed / released twice;
 *   (c) once resolved and without handles the state HAS been released (rel == 1): no leak;
 *   (d) every operation that touches the state finds it alive (copy/drop need a live handle, resolution needs pending). */
#ifdef CV_HAS_sf_ctor_default
#define L_ALIVE_WITH(n) (alive2 == 1 && c2 == (n))
#define LI(alive, c, t, p, h, rel) ( ((alive) == 0 || (alive) == 1) && ((t) == 0 || (t) == 1) && ((p) == 0 || (p) == 1) && (rel) <= 1 && \
     ((alive) ==> ((c) == (h) + (t) && (t) == (p) && (c) >= 1 && (rel) == 0)) && \
     (!(alive) ==> ((h) == 0 && (p) == 0 && (t) == 0 && (rel) == 1)) )
int nondet_int(void); unsigned long nondet_ulong(void);
void h_lemma(void)
{
  int alive, t, p, rel = 0; unsigned long c, h;
  /* creation: any constructor / get_promise, pending or already resolved */
  { int alive2 = nondet_int(); unsigned long c2 = nondet_ulong(); int t2 = nondet_int(); p = nondet_bool() ? 1 : 0;
    __CPROVER_assume(CREATED(p, t2, L_ALIVE_WITH));
    alive = alive2; c = c2; t = t2; h = 1; }
  __CPROVER_assert(LI(alive, c, t, p, h, rel), "lemma: the invariant holds after creation");
  while (nondet_bool())
  __CPROVER_assigns(alive, c, t, p, h, rel)
  __CPROVER_loop_invariant(LI(alive, c, t, p, h, rel) && h < (1ul << 40))
  {
    int op = nondet_int(); int alive2 = nondet_int(); unsigned long c2 = nondet_ulong(); int rel2 = nondet_int();
    if (op == 0 && h >= 1 && h < (1ul << 40) - 1) {         /* copy a live handle */
      __CPROVER_assert(alive == 1, "lemma (d): a handle that is copied refers to a live state");
      __CPROVER_assume(REF_ADDED(c, L_ALIVE_WITH) && rel2 == rel);
      alive = alive2; c = c2; rel = rel2; h = h + 1;
    } else if (op == 1 && h >= 1) {                          /* destroy / assign away a live handle */
      __CPROVER_assert(alive == 1, "lemma (d): a handle that is destroyed refers to a live state");
      __CPROVER_assume(REF_DROPPED(c, L_ALIVE_WITH, rel2 == rel, (rel2 == rel + 1 && alive2 == 0)));
      alive = alive2; c = c2; rel = rel2; h = h - 1;
      __CPROVER_assert(p ==> (alive == 1 && rel == 0), "lemma (a): dropping a handle - even the last one - never releases a pending state");
    } else if (op == 2 && p == 1) {                          /* resolution: pending ends, the tracer is resumed once */
      __CPROVER_assert(alive == 1 && t == 1, "lemma (a)(d): a pending state is alive and its tracer holds the extra reference");
      p = 0;
      __CPROVER_assume(REF_DROPPED(c, L_ALIVE_WITH, rel2 == rel, (rel2 == rel + 1 && alive2 == 0)));
      alive = alive2; c = c2; rel = rel2; t = 0;
    } else if (op == 3 && h >= 1 && p == 0) {                /* operator<<(fn) / get_promise() through a live handle of a state that is NOT pending (fresh from
                                                                init_if_needed(), or resolved): a new operation is bound to the state, pending or already done */
      int p2 = nondet_bool() ? 1 : 0; int t2 = nondet_int();
      __CPROVER_assert(alive == 1, "lemma (d): a handle that is re-targeted refers to a live state");
      __CPROVER_assume(TRACER_CHARGED(p2, c, t2, L_ALIVE_WITH) && rel2 == rel);
      alive = alive2; c = c2; t = t2; p = p2;
    }
    __CPROVER_assert(rel <= 1, "lemma (b): the state is never destroyed / released twice");
  }
  __CPROVER_assert(p ==> (alive == 1 && rel == 0), "lemma (a): a pending state has not been freed");
  __CPROVER_assert((p == 0 && h == 0) ==> (alive == 0 && rel == 1), "lemma (c): resolved and no handle left => the state has been released, exactly once");
  __CPROVER_assert((alive == 1 && p == 0) ==> c == h, "lemma: after resolution only handles keep the state alive");
  /* the invariant admits every interesting final situation (non-vacuity) */
  if (p == 1 && h == 0) __CPROVER_assert(0, "SENTINEL reachable: every handle dropped while the future is still pending (state alive)");
  if (p == 0 && h == 0) __CPROVER_assert(0, "SENTINEL reachable: resolved, no handle left (state released)");
  if (p == 0 && h >= 2) __CPROVER_assert(0, "SENTINEL reachable: resolved, several handles alive");
  __CPROVER_assert(0, "SENTINEL reachable: end of the reference lemma");
}
#endif
