# C17 - shared_future: one result for all copies; the shared state lives exactly as long as needed
SFQ = 'cocls::shared_future<int, cocls::future<int> >'
FIQ = SFQ + '::future_internal'
def rx(s):
    import re
    return re.escape(s).replace('\\ ', ' ')
SF_RX = rx(SFQ); FI_RX = rx(FIQ)
POL = '__gnu_cxx::_S_atomic'      # the spelling in the debug info (type aliases are resolved through DWARF)
TYPES = {
    'SF': SFQ, 'FI': FIQ, 'TRACER': SFQ + '::resolve_cb', 'FUT': 'cocls::future<int>', 'PROMISE': 'cocls::promise<int>', 'AWT': 'cocls::awaiter',
    'AT_AWT': 'std::atomic<cocls::awaiter *>', 'SPV': 'cocls::suspend_point<void>',
    'SPFI': 'std::shared_ptr<%s>' % FIQ, 'SPFI_IMPL': 'std::__shared_ptr<%s, %s>' % (FIQ, POL),
    'SPB': 'std::shared_ptr<cocls::future<int> >', 'SCNT': 'std::__shared_count<%s>' % POL,
}
GLOBALS = {'AW_DISABLED': '_ZN5cocls7awaiter8disabledE', 'AW_INSTANCE': '_ZN5cocls7awaiter8instanceE'}
N = dict(
    fi_dtor='^' + FI_RX + r'::~future_internal\(\)$',
    fi_ctor_default='^' + FI_RX + r'::future_internal\(\)$',
    fi_ctor_pfn='^' + FI_RX + r'::future_internal<c17_promise_fn&>\(c17_promise_fn&\)$',
    sp_arrow=r'^std::__shared_ptr_access<' + FI_RX + r', \(__gnu_cxx::_Lock_policy\)2, false, false>::operator->\(\) const$',
    sp_make_default=r'^std::__shared_count<\(__gnu_cxx::_Lock_policy\)2>::__shared_count<' + FI_RX + r', std::allocator<void>>\(',
    sp_make_pfn=r'^std::__shared_count<\(__gnu_cxx::_Lock_policy\)2>::__shared_count<' + FI_RX + r', std::allocator<void>, c17_promise_fn&>\(',
    aw_subscribe=r'^cocls::awaiter::subscribe_check_ready\(',
    promise_dtor=r'^cocls::promise<int>::~promise\(\)$',
    env_promise_fn=r'^c17_promise_fn::operator\(\)\(cocls::promise<int>\) const$',
    env_future_fn=r'^c17_future_fn::operator\(\)\(\) const$',
    promise_set_exc=r'^cocls::suspend_point<bool> cocls::promise<int>::operator\(\)<std::__exception_ptr::exception_ptr>\(',
    tr_charge='^' + SF_RX + r'::resolve_cb::charge\(std::shared_ptr<' + FI_RX + r'>\)$',
    tr_invoke=r'^cocls::suspend_point<void> ' + SF_RX + r'::resolve_cb::charge\(.*\)::\{lambda\(cocls::awaiter\*, auto:1\)#1\}::__invoke<void\*>\(cocls::awaiter\*, void\*\)$',
    sf_ctor_default='^' + SF_RX + r'::shared_future\(\)$',
    sf_ctor_pfn='^' + SF_RX + r'::shared_future<c17_promise_fn&>\(c17_promise_fn&\)$',
    sf_ctor_ffn='^' + SF_RX + r'::shared_future<c17_future_fn&>\(c17_future_fn&\)$',
    sf_init_if_needed='^' + SF_RX + r'::init_if_needed\(\)$',
    sf_get_promise='^' + SF_RX + r'::get_promise\(\)$',
    sf_ready='^' + SF_RX + r'::ready\(\) const$',
    sf_value='^' + SF_RX + r'::value\(\)$',
    sf_wait='^' + SF_RX + r'::wait\(\)$',
    sf_co_await='^' + SF_RX + r'::operator co_await\(\)$',
    sf_copy_ctor='^' + SF_RX + r'::shared_future\(' + SF_RX + r' const&\)$',
    sf_copy_assign='^' + SF_RX + r'::operator=\(' + SF_RX + r' const&\)$',
    sf_dtor='^' + SF_RX + r'::~shared_future\(\)$',
    sf_shift='^' + SF_RX + '& ' + SF_RX + r'::operator<< <c17_future_fn&>\(c17_future_fn&\)$',
    fut_wait=r'^cocls::future<int>::wait\(\)$',
    fut_force_wait=r'^cocls::future<int>::force_wait\(\)$', fut_sync=r'^cocls::future<int>::sync\(\) const$', fut_force_sync=r'^cocls::future<int>::force_sync\(\) const$',
    sf_force_wait='^' + SF_RX + r'::force_wait\(\)$', sf_join='^' + SF_RX + r'::join\(\)$', sf_sync='^' + SF_RX + r'::sync\(\)$', sf_force_sync='^' + SF_RX + r'::force_sync\(\)$',
    sf_set_exception='^' + SF_RX + r'::set_exception\(std::__exception_ptr::exception_ptr\)$', sf_set_value='^' + SF_RX + ' ' + SF_RX + r'::set_value<int&>\(int&\)$',
    sf_as_future='^' + SF_RX + r'::operator cocls::future<int>&\(\)$', sp_star=r'^std::__shared_ptr_access<' + FI_RX + r', \(__gnu_cxx::_Lock_policy\)2, false, false>::operator\*\(\) const$',
    spbool_dtor=r'^cocls::suspend_point<bool>::~suspend_point\(\)$',
)
BOUNDARY = [r'^std::__shared_count<', r'^std::__shared_ptr_access<.*>::operator(->|\*)\(\) const$', N['aw_subscribe'], N['promise_dtor']]
LIBS = ['rt_core.c', 'rt_atomic_seq.c', 'model_sharedptr_cb.c']
DEFINES = ['CV_SP_POINTEE FI', 'CV_SP_DISPOSE fi_dtor']
ACCESS_T = {'SPFI_ACCESS': 'std::__shared_ptr_access<%s, %s, false, false>' % (FIQ, POL)}
MAKE_T = {'ALLOCV': 'std::allocator<void>'}

ABSTRACT = ('sp_arrow', 'sp_make_default', 'sp_make_pfn', 'aw_subscribe', 'promise_dtor', 'env_promise_fn', 'env_future_fn', 'promise_set_exc', 'spbool_dtor', 'fut_wait', 'fut_force_wait', 'fut_sync', 'fut_force_sync', 'sp_star')
def unit(name, alias, uses=(), extra_types=None, extra_roots=(), extra_boundary=(), extra_globals=None, **kw):
    """alias: function under contract (enforced on its real body). uses: further aliases the unit needs; abstract callees (model /
    environment stubs) go to names_opt, so that a code change that stops calling one fails a postcondition, not the extraction."""
    opt = ABSTRACT + (('tr_invoke',) if alias != 'tr_invoke' else ())     # tr_invoke: only instantiated while charge() is called
    names = {a: N[a] for a in (alias, 'fi_dtor') + tuple(u for u in uses if u not in opt)}
    names_opt = {a: N[a] for a in uses if a in opt}
    t = dict(TYPES); t.update(extra_types or {})
    g = dict(GLOBALS); g.update(extra_globals or {})
    d = dict(name=name, driver='c17_shared_future.cpp', roots=[N[alias], N['fi_dtor']] + list(extra_roots), names=names, names_opt=names_opt, types=t, globals=g,
             boundary=BOUNDARY + list(extra_boundary), lib=LIBS, defines=list(DEFINES), spec=['C17/sf_spec.h', 'C17/h_sf.c'], harness='h_' + name,
             enforce=alias, unwind=3, cbmc_flags=['--sat-solver', 'cadical'], solver='sat(cadical, cbmc --sat-solver cadical)', under_contract=[N[alias].strip('^$').replace('\\', '')])
    d.update(kw)
    return d

UNITS = [
    unit('ctor_default', 'sf_ctor_default'),
    unit('charge', 'tr_charge', uses=('tr_invoke', 'aw_subscribe', 'sp_arrow'), extra_types=ACCESS_T),
    unit('tracer_resume', 'tr_invoke', under_contract=[SFQ + '::resolve_cb::charge(std::shared_ptr<' + FIQ + '>)::{lambda(cocls::awaiter*, auto:1)#1}::__invoke<void*>(cocls::awaiter*, void*)']),
    unit('dtor', 'sf_dtor'),
    unit('copy_ctor', 'sf_copy_ctor'),
    unit('copy_assign', 'sf_copy_assign'),
    unit('ctor_promise', 'sf_ctor_pfn', uses=('tr_invoke', 'aw_subscribe', 'sp_arrow', 'sp_make_pfn', 'fi_ctor_pfn', 'promise_dtor', 'env_promise_fn'),
         extra_types=dict(ACCESS_T, PFN='c17_promise_fn', **MAKE_T), extra_roots=[N['fi_ctor_pfn']]),
    unit('ctor_future', 'sf_ctor_ffn', uses=('tr_invoke', 'aw_subscribe', 'sp_arrow', 'sp_make_default', 'fi_ctor_default', 'env_future_fn', 'promise_set_exc', 'spbool_dtor'),
         extra_types=dict(ACCESS_T, FFN='c17_future_fn', SPBOOL='cocls::suspend_point<bool>', EXCPTR='std::__exception_ptr::exception_ptr', **MAKE_T),
         extra_roots=[N['fi_ctor_default']], extra_boundary=[N['promise_set_exc'], N['spbool_dtor']]),
    # operator<< (audit E/D1): must keep the state invariant SI like every other member (clause from the property: alive while pending)
    unit('shift', 'sf_shift', uses=('tr_invoke', 'aw_subscribe', 'sp_arrow', 'env_future_fn', 'promise_set_exc', 'spbool_dtor'),
         extra_types=dict(ACCESS_T, FFN='c17_future_fn', SPBOOL='cocls::suspend_point<bool>', EXCPTR='std::__exception_ptr::exception_ptr'),
         extra_boundary=[N['promise_set_exc'], N['spbool_dtor']]),
    unit('init_if_needed', 'sf_init_if_needed', uses=('sp_make_default', 'fi_ctor_default'), extra_types=MAKE_T, extra_roots=[N['fi_ctor_default']]),
    unit('get_promise_default', 'sf_get_promise', uses=('tr_invoke', 'aw_subscribe', 'sp_arrow', 'sp_make_default', 'fi_ctor_default', 'promise_dtor'),
         extra_types=dict(ACCESS_T, **MAKE_T), extra_roots=[N['fi_ctor_default']], harness='h_get_promise', defines=DEFINES + ['GP_CASE_PRE(h) (H_CB(h) == 0)']),
    unit('get_promise_initialised', 'sf_get_promise', uses=('tr_invoke', 'aw_subscribe', 'sp_arrow', 'sp_make_default', 'fi_ctor_default', 'promise_dtor'),
         extra_types=dict(ACCESS_T, **MAKE_T), extra_roots=[N['fi_ctor_default']], harness='h_get_promise', defines=DEFINES + ['GP_CASE_PRE(h) (H_CB(h) != 0)']),
    # audit E/D2: an awaiter accepted through a copy BEFORE get_promise() (state created by init_if_needed()) - open known finding
    unit('get_promise_early_awaiter', 'sf_get_promise', uses=('tr_invoke', 'aw_subscribe', 'sp_arrow', 'sp_make_default', 'fi_ctor_default', 'promise_dtor'),
         extra_types=dict(ACCESS_T, **MAKE_T), extra_roots=[N['fi_ctor_default']], harness='h_get_promise', defines=DEFINES + ['GP_CASE_PRE(h) (H_CB(h) != 0)', 'GP_EARLY 1'],
         replay=dict(src='c17_await_before_get_promise.cpp', mode='early_awaiter', flags=['-DNDEBUG', '-fsanitize=address', '-g'])),
    unit('ready', 'sf_ready', uses=('sp_arrow',), extra_types=ACCESS_T),
    unit('value', 'sf_value', uses=('sp_arrow',), extra_types=ACCESS_T,
         extra_globals={'TI_NOT_READY': '_ZTIN5cocls25value_not_ready_exceptionE', 'TI_CANCELED': '_ZTIN5cocls24await_canceled_exceptionE'}),
    unit('wait', 'sf_wait', uses=('sp_arrow', 'fut_wait'), extra_types=ACCESS_T, extra_boundary=[N['fut_wait']]),
    # (W2) the remaining blocking forwarders and the conversion to the underlying future
    unit('force_wait', 'sf_force_wait', uses=('sp_arrow', 'fut_force_wait'), extra_types=ACCESS_T, extra_boundary=[N['fut_force_wait']]),
    unit('join', 'sf_join', uses=('sp_arrow', 'fut_wait'), extra_types=ACCESS_T, extra_boundary=[N['fut_wait']]),
    unit('sync', 'sf_sync', uses=('sp_arrow', 'fut_sync'), extra_types=ACCESS_T, extra_boundary=[N['fut_sync']]),
    unit('force_sync', 'sf_force_sync', uses=('sp_arrow', 'fut_force_sync'), extra_types=ACCESS_T, extra_boundary=[N['fut_force_sync']]),
    unit('as_future', 'sf_as_future', uses=('sp_star',), extra_types=ACCESS_T),
    unit('set_exception', 'sf_set_exception', uses=('tr_invoke', 'aw_subscribe', 'sp_arrow', 'sp_make_default', 'fi_ctor_default', 'promise_set_exc', 'spbool_dtor'),
         extra_types=dict(ACCESS_T, SPBOOL='cocls::suspend_point<bool>', EXCPTR='std::__exception_ptr::exception_ptr', **MAKE_T),
         extra_roots=[N['fi_ctor_default']], extra_boundary=[N['promise_set_exc'], N['spbool_dtor']]),
    unit('set_value', 'sf_set_value', uses=('tr_invoke', 'aw_subscribe', 'sp_arrow', 'sp_make_default', 'fi_ctor_default', 'promise_set_exc', 'spbool_dtor'),
         extra_types=dict(ACCESS_T, SPBOOL='cocls::suspend_point<bool>', EXCPTR='std::__exception_ptr::exception_ptr', **MAKE_T),
         extra_roots=[N['fi_ctor_default']], extra_boundary=[N['promise_set_exc'], N['spbool_dtor']]),
    unit('co_await', 'sf_co_await', uses=('sp_arrow',), extra_types=dict(ACCESS_T, COAW='cocls::co_awaiter<cocls::future<int> >')),
]

# ---- observation unit, opt-in (see sf_spec.h: operator<< on an empty handle is NOT a documented initialisation route; this states the hypothetical clause)
import os as _os17b
if _os17b.environ.get('C17_SHIFT_ON_EMPTY') == '1':
    UNITS.append(unit('shift_on_empty', 'sf_shift', uses=('tr_invoke', 'aw_subscribe', 'sp_arrow', 'sp_make_default', 'fi_ctor_default', 'env_future_fn', 'promise_set_exc', 'spbool_dtor'),
         extra_types=dict(ACCESS_T, FFN='c17_future_fn', SPBOOL='cocls::suspend_point<bool>', EXCPTR='std::__exception_ptr::exception_ptr', **MAKE_T),
         extra_roots=[N['fi_ctor_default']], extra_boundary=[N['promise_set_exc'], N['spbool_dtor']], defines=DEFINES + ['SHIFT_ON_EMPTY 1'],
         replay=dict(src='c17_shift_on_empty.cpp', mode='shift_on_empty', flags=['-DNDEBUG', '-g'])))
# ---- reference lemma over the contracts (unbounded history; loop invariant)
# ---- native replay of the init_if_needed defect (replay/c17_default_get_promise.cpp, see tools/README.md)
RP_FLAGS = ['-fsanitize=address', '-g']
for _u in UNITS:
    if _u['name'] == 'get_promise_default':
        _u['replay'] = dict(src='c17_default_get_promise.cpp', mode='default_get_promise', flags=RP_FLAGS)
    if _u['name'] == 'shift':      # audit E/D1: operator<< never charged the resolve tracer (state freed while pending)
        _u['replay'] = dict(src='c17_shift_no_tracer.cpp', mode='shift_drop_all', flags=['-fno-access-control', '-DNDEBUG'] + RP_FLAGS)
    if _u['name'] in ('init_if_needed', 'get_promise_initialised'):
        _u['replay'] = dict(src='c17_default_get_promise.cpp', mode='init_keeps_state', flags=RP_FLAGS)
UNITS.append(dict(unit('lemma', 'sf_ctor_default'), enforce=None, harness='h_lemma', spec=['C17/sf_spec.h', 'C17/h_lemma.c'], loop_contracts=True, unwind=None,
                  kind='lemma', under_contract=[], note='lemma over the reference-count clauses of the enforced contracts (shared macros of sf_spec.h)'))
# ---- bounded drive over the real bodies: every order of <= L operations (enumerated here, executed concretely by CBMC)
DRV = ['drv_default', 'drv_ctor_promise', 'drv_get_promise', 'drv_ready', 'drv_value', 'drv_copy_ctor', 'drv_copy_assign', 'drv_dtor', 'drv_resolve',
       'drv_drop_promise', 'drv_subscribe', 'drv_awaiter_init', 'drv_promise_move']
SN_RX = r'^cocls::suspend_point<void>::suspend_now\(\)$'
MERGE_RX = r'^cocls::suspend_point<void>::operator<<\(cocls::suspend_point<void>&&\)$'
CC, CA, DD, DA, AS, AP, SU, RV, BR, END, RE = range(11)     # RE (resolve with an exception): hand-picked orders only, not part of scripts()
def scripts(maxlen, nh=3, na=2):
    """all well-formed operation sequences of length 0..maxlen (abstract state: owners, subscriptions, resolved)"""
    out = []
    def rec(seq, owners, nsub, resolved):
        out.append(list(seq))
        if len(seq) == maxlen: return
        for op in (CC, CA, DD, DA, AS, AP, SU, RV, BR):
            o, ns, r = owners, nsub, resolved
            if op in (CC, CA):
                if not (1 <= owners < nh): continue
                o += 1
            elif op == DD:
                if owners < 1: continue
                o -= 1
            elif op == DA:
                if not (1 <= owners < nh): continue
                o -= 1
            elif op == AS:
                if owners < 1: continue
            elif op == AP:
                if owners < 2: continue
            elif op == SU:
                if owners < 1 or nsub >= na: continue
                ns += 1
            elif op in (RV, BR):
                if resolved: continue
                r = True
            rec(seq + [op], o, ns, r)
    rec([], 1, 0, False)
    return out
MN = {CC: 'CC', CA: 'CA', DD: 'DD', DA: 'DA', AS: 'AS', AP: 'AP', SU: 'SU', RV: 'RV', BR: 'BR', RE: 'RE'}
HOW = {1: 'shared_future(Fn(promise))', 0: 'default construction + get_promise()',
       2: 'default construction + init_if_needed(), a copy is awaited, THEN get_promise()',
       3: 'default construction + init_if_needed() + operator<<(fn), fn keeps the promise of the operation it starts'}
def drive(prefix, start, script_list, tiers, timeout=300, extra_drv=()):
    """one unit per script: CBMC executes a fixed order almost concretely (~10 s); several scripts in one run do not stay concrete.
    extra_drv: further driver entry points (drv_init_if_needed, drv_shift, drv_future_pending, drv_resolve_exc) for the start modes 2/3 and RE"""
    units = []
    DRV_ = DRV + list(extra_drv)
    names = {d: '^%s$' % d for d in DRV_}
    names.update({a: N[a] for a in ('fi_dtor', 'fi_ctor_default', 'fi_ctor_pfn')})
    names_opt = {a: N[a] for a in ('sp_arrow', 'sp_make_default', 'sp_make_pfn', 'aw_subscribe', 'env_promise_fn', 'env_future_fn', 'tr_invoke')}
    names_opt['sp_suspend_now'] = SN_RX; names_opt['sp_merge'] = MERGE_RX
    t = dict(TYPES); t.update(ACCESS_T); t.update(MAKE_T); t.update(PFN='c17_promise_fn', CAW='c17_counting_awaiter', FFN='c17_future_fn', EXCPTR='std::__exception_ptr::exception_ptr')
    how = HOW[start]
    for sc in script_list:
        mn = '_'.join(MN[o] for o in sc)
        units.append(dict(name='%s_%s' % (prefix, mn), driver='c17_shared_future.cpp', roots=['^%s$' % d for d in DRV_] + [N['fi_dtor'], N['fi_ctor_default'], N['fi_ctor_pfn']],
                names=names, names_opt=names_opt, types=t, globals=GLOBALS, boundary=BOUNDARY[:3] + [SN_RX, MERGE_RX], lib=LIBS,
                defines=DEFINES + ['C17_DRIVE 1', 'DRIVE_START %d' % start, 'DRIVE_LEN %d' % len(sc), 'DRIVE_SCRIPTS {%s}' % ','.join(str(x) for x in sc + [END])],
                spec=['C17/sf_spec.h', 'C17/h_drive.c'], harness='h_drive', unwind=max(len(sc), 4) + 2, object_bits=10, kind='bounded', tiers=tiers, timeout=timeout,
                cbmc_flags=['--sat-solver', 'cadical'], solver='sat(cadical)',
                bounded='ONE fixed order, single thread, real bodies: create by %s; %s; then read through every remaining copy and destroy every handle (3 handle slots, 2 function awaiters, symbolic value)' % (how, ' '.join(MN[o] for o in sc)),
                under_contract=[]))
    return units
# quick tier: the orders the property statement singles out (every handle dropped while pending, resolution before / after copying
# and destruction, awaiters through different copies, late awaiters, broken promise, assignments that must not change anything)
QUICK_CTOR = [[RV], [DD, RV], [DD, BR], [CC, SU, SU, RV], [CA, DD, DD, RV], [SU, DD, RV], [CA, CC, RV, DD, DA, SU], [SU, BR, CC, DD],
              [CC, AS, AP, RV, AS], [RV, CC, SU, DD, DD], [SU, CC, DD, SU, DD, RV], [CC, DA, SU, BR, DD]]
QUICK_GP = [[RV], [DD, RV], [CC, SU, SU, RV], [SU, DD, BR], [RV, CA, SU, DD, DD], [CC, DD, DD, RV]]
def exhaustive(maxlen):
    """every well-formed order of <= maxlen operations that contains the resolution, over the order-relevant alphabet
    (copy / drop / subscribe / resolve / break); the copy and drop flavours alternate so that all four members are exercised"""
    out = []
    for sc in scripts(maxlen):
        if any(o in (CA, DA, AS, AP) for o in sc): continue
        if not any(o in (RV, BR) for o in sc): continue
        nc = nd = 0; t = []
        for o in sc:
            if o == CC: t.append(CC if nc % 2 == 0 else CA); nc += 1
            elif o == DD: t.append(DD if nd % 2 == 0 else DA); nd += 1
            else: t.append(o)
        # DA needs an empty slot: with 3 slots it is available whenever owners < 3
        out.append(t)
    return out
UNITS += drive('drive_ctor', 1, QUICK_CTOR, ['quick', 'thorough'])
UNITS += [dict(u, replay=dict(src='c17_default_get_promise.cpp', mode='default_get_promise', flags=RP_FLAGS)) for u in drive('drive_gp', 0, QUICK_GP, ['quick', 'thorough'])]
_q = set(tuple(x) for x in QUICK_CTOR)
# ---- added after the audit (group E)
# D1: operator<< on the real bodies: every handle dropped while the operation is pending / copies + awaiter, resolution, drops
UNITS += [dict(u, replay=dict(src='c17_shift_no_tracer.cpp', mode='shift_drop_all', flags=['-fno-access-control', '-DNDEBUG'] + RP_FLAGS))
          for u in drive('drive_shift', 3, [[DD, RV], [CC, SU, RV, DD]], ['quick', 'thorough'], extra_drv=['drv_init_if_needed', 'drv_shift', 'drv_future_pending'])]
# D2 (open known finding C17-await-before-get-promise): an awaiter accepted through a copy before get_promise()
UNITS += [dict(u, replay=dict(src='c17_await_before_get_promise.cpp', mode='early_awaiter', flags=['-DNDEBUG'] + RP_FLAGS))
          for u in drive('drive_early', 2, [[SU, RV]], ['quick', 'thorough'], extra_drv=['drv_init_if_needed'])]
# W3: resolution with an exception: every copy rethrows the same exception object, the stored exception_ptr is released exactly once
UNITS += drive('drive_exc', 1, [[CC, CC, SU, RE, DD], [DD, RE]], ['quick', 'thorough'], extra_drv=['drv_resolve_exc'])
UNITS += drive('drive_all_ctor', 1, [x for x in exhaustive(4) if tuple(x) not in _q], ['thorough'])

# "every awaiter of any copy is resumed exactly once" rests on the awaiter-chain protocol of the underlying future (C02): the units that
# put awaiter::subscribe_check_ready / co_await suspend / blocking sync under contract are re-run here, so that a change of that protocol
# is reported under C17 as well.
import importlib.util as _ilu17, os as _os17, copy as _copy17
def _c02_17(names):
    s = _ilu17.spec_from_file_location('c17_c02', _os17.path.join(_os17.path.dirname(_os17.path.dirname(_os17.path.abspath(__file__))), 'C02', 'units.py')); m = _ilu17.module_from_spec(s); s.loader.exec_module(m)
    out = []
    for x in m.UNITS:
        if x['name'] in names:
            v = _copy17.deepcopy(x); v['name'] = 'C02_' + x['name']; out.append(v)
    return out
UNITS += _c02_17(['subscribe_check_ready', 'co_await_suspend', 'co_sync', 'resume_chain_set_ready'])
# "The shared state stays alive until it has been resolved" also rests on the promise side: a promise that is overwritten by move-assignment
# must resolve (drop) the future it owned - otherwise the abandoned shared state keeps its tracer reference for ever and its awaiters hang
# (seeded change C17-5).  promise<int>::operator=(promise&&) and future::resolve() are under contract in C01 / C02; re-run here.
def _c01_17(names):
    s = _ilu17.spec_from_file_location('c17_c01', _os17.path.join(_os17.path.dirname(_os17.path.dirname(_os17.path.abspath(__file__))), 'C01', 'units.py')); m = _ilu17.module_from_spec(s); s.loader.exec_module(m)
    out = []
    for x in m.UNITS:
        if x['name'] in names:
            v = _copy17.deepcopy(x); v['name'] = 'C01_' + x['name']; out.append(v)
    return out
UNITS += _c01_17(['move_assign', 'dtor']) + _c02_17(['fu_resolve'])

META = dict(
    level='proof',
    level_text=('Every member of shared_future<int> (default constructor, the two function-taking constructors, init_if_needed, get_promise, operator<<, ready, value, '
                'wait, force_wait, join, sync, force_sync, operator future<int>&, set_value, set_exception, operator co_await, copy constructor, copy assignment, destructor) and the resolve tracer (resolve_cb::charge and its resume lambda) is verified against a contract '
                'on its real translated body, for every strong count < 2^30 and every state of the future (initialised / pending / ready with or without value), with std::shared_ptr '
                'modelled as an explicit control block whose drop-to-zero runs the real ~future_internal and frees the block (CBMC use-after-free / double-free checks on). Contract '
                'clauses: charge takes exactly one strong reference iff the tracer gets subscribed (future pending at that instant) and installs the reference-dropping lambda; the lambda '
                'drops exactly that reference and destroys+frees the state iff it was the last one; constructors wire the tracer exactly when the future is pending (count 2 vs 1, one '
                'allocation); copy shares the same state and adds exactly one reference; destruction / assignment drop exactly one and release the state exactly once iff last - never '
                'while pending; get_promise on a default-constructed object creates the state and returns a promise bound to it; ready()/value()/wait()/co_await read the shared state '
                '(value() returns the one object stored in it; with a stored exception every copy rethrows the one exception object stored in the shared state and the stored '
                'exception_ptr is released exactly once, by whoever destroys the state). operator<<(fn) (added after an independent audit, clause restated from the property: alive while '
                'pending) re-targets the state of a non-empty, not pending handle and must leave the tracer charged iff the new operation is pending. get_promise on an initialised handle '
                'is verified in two cases: nobody awaits yet, and ONE awaiter already accepted through a copy (it must still be subscribed afterwards). '
                'Added: the remaining blocking members wait() / force_wait() / join() / sync() / force_sync() are verified as forwarders onto the member of the same name of the ONE future of the shared state (whichever copy '
                'blocks, it blocks on that future; wait / force_wait hand out the value object stored there - the lvalue value() returns for every copy; join = wait with the result dropped; no reference taken or dropped); '
                'operator future<int>&() returns that future; the static factories set_value(v) / set_exception(e) run their REAL bodies (lambda, future::result_of, future::set_value / set_exception, the function-taking '
                'constructor) and yield a handle on a new, already resolved state (one allocation, strong == 1, tracer not charged) holding v / THE exception object handed in, of which the state owns exactly one reference. '
                'Every contract keeps the state invariant "tracer holds its self-reference <=> future pending". A reference lemma over '
                'exactly these reference-count clauses (shared macros), with a loop invariant for an UNBOUNDED history of copies, drops and the resolution, proves: the state is alive '
                'while pending even with no handle left, it is released exactly once after the last of {handles, tracer} lets go, never twice, never leaked. '
                'Bounded part (reported separately): fixed orders of copy / assign / destroy / subscribe / resolve / break-promise are EXECUTED on the real bodies including promise, '
                'future::set/resolve and the awaiter chain walk (23 orders in the quick tier, every order of <= 4 operations in the thorough tier): awaiters resumed exactly once and '
                'never early, every copy reads the same value object, allocations == frees, no access after free. Since the audit the drives also create the state by init_if_needed() + '
                'operator<<(fn) (fn keeps the promise), by init_if_needed() + an awaiter through a copy + get_promise(), and resolve with an exception (every copy rethrows the same object, '
                'reference traffic on the exception object balanced).'),
    level_note=('Sequential (single-thread) reading only: the cross-thread clause of the statement (a resolver racing with threads that copy / drop handles) rests on (i) the atomicity of the '
                'shared_ptr reference count (libstdc++, assumed), (ii) C01/C02 for the future slot (resolved at most once, every subscribed awaiter - here the tracer - resumed exactly '
                'once), (iii) the invariant proved here; it is argued, not machine-checked. T = int only: destruction of the stored value is observed as "the real ~future_internal ran '
                'exactly once", not with an instance-counting T (the native replays use one); the reference state (T&) of the future is not reachable for T = int. The "any ordering" clause is proved '
                'on the level of the reference-count clauses (lemma) and cross-checked by executing a bounded set of orders, not proved on the real bodies for unbounded histories. '
                'awaiter::subscribe_check_ready and (in contract units) promise destruction / the user functions are abstract callees; future<int>::wait / force_wait / sync / force_sync are recording stubs in the forwarder units '
                '(their blocking behaviour: C02 units co_sync / co_await_suspend, re-run here). set_value is instantiated for one int& argument. '
                'OBSERVATION (not a finding): operator<< - like wait / sync / join / force_* / co_await / operator Base& - dereferences _ptr without a check, so on a DEFAULT-CONSTRUCTED handle it is a null dereference (natively SIGSEGV: '
                'replay/c17_shift_on_empty.cpp). The header does not document operator<< as an initialisation route (default constructor: "If you need to initialize the object, call init_if_needed() or get_promise()"; operator<<: "same as result_of"), '
                'and the property names get_promise() only - hence "non-empty" stays a documented precondition of unit shift. The opt-in unit shift_on_empty (C17_SHIFT_ON_EMPTY=1) states the hypothetical clause "operator<< initialises an empty handle": '
                'fails on the unchanged tree with the model obligation "operator->() on an empty std::shared_ptr", holds with the hardening specs/C17/fix_shift_on_empty.diff (init_if_needed() first; unit shift still holds). History: init_if_needed had an inverted test (fixed in /repo 07e3080, specs/C17/fix_init.diff). '
                'Found by an independent audit (group E) and now detected: (D1) operator<< never charged the resolve tracer - state freed while pending, use-after-free at resolution '
                '(units shift, drive_shift_DD_RV; replay/c17_shift_no_tracer.cpp; candidate fix specs/C17/fix_shift_tracer.diff); (D2) an awaiter accepted through a copy after '
                'init_if_needed() but before get_promise() is dropped by future::get_promise (exchange(nullptr)) and never resumed - judged in scope of "every awaiter of any copy is '
                'resumed exactly once" (the consumer cannot observe whether the promise was taken; subscribe() returned true), no small repair inside shared_future.h: OPEN known finding '
                'C17-await-before-get-promise (units get_promise_early_awaiter, drive_early_SU_RV; replay/c17_await_before_get_promise.cpp).'),
    technique=('CBMC 6.11 code contracts (requires/ensures/assigns/frees, __CPROVER_pointer_equals) enforced per function via goto-instrument --dfcc on the C translation of the clang IR of '
               'shared_future.h; std::shared_ptr boundary at std::__shared_count with a control-block model; lemma harness with a loop contract over the contract clauses; bounded '
               'execution of fixed operation orders on the translated real bodies; SAT back end cadical'),
    trusted_base=['model: std::__shared_count<_S_atomic> as an explicit control block, drop-to-zero runs the real translated ~future_internal once and frees the block; make_shared = one allocation + the real constructor; '
                  'operator-> on an empty shared_ptr is an obligation and ends the path (lib/model_sharedptr_cb.c); std::shared_ptr / __shared_ptr wrappers themselves are translated from libstdc++',
                  'abstract callee: awaiter::subscribe_check_ready in its sequential reading - refused iff the slot holds the ready marker, otherwise pushed (specs/C17/sf_spec.h; concurrent behaviour is C02/C03)',
                  'abstract callees in contract units: promise<int>::~promise (breaks an owned promise of a future nobody awaits), the user functors c17_promise_fn / c17_future_fn (keep / resolve / drop; never throw), future<int>::wait() / force_wait() / sync() / force_sync() as recording stubs',
                  'drive only: suspend_point::operator<< / suspend_now replaced by stubs that assert they only ever see empty suspend points'],
    assumptions=['strong count < 2^30 (no counter overflow)', 'single thread; atomic reference counting of std::shared_ptr is libstdc++\'s responsibility',
                 'the function passed to a constructor does not throw (future::result_of catch branch is an explicit "not covered" obligation that is unreachable)',
                 'a stored exception is an exception object of the exception model (lib/rt_core.c: reference traffic counted, object opaque); the reference state (T&) does not occur for T = int',
                 'operator<<: documented preconditions stated in its contract - the handle is not empty (class documentation: call init_if_needed() / get_promise() on a default-constructed object first) and its future is not pending (future::result_of destroys and re-creates the future; "Destroy of pending future")',
                 'C01/C02 (assumed by the lemma): a pending future is resolved at most once and resolution resumes every subscribed awaiter exactly once',
                 'get_promise() on a non-empty handle requires an initialised future whose promise has not been taken yet (future::get_promise precondition); awaiters accepted before that are NOT excluded (case GP_EARLY of the contract: one such awaiter; open known finding C17-await-before-get-promise)'],
    explanation='see level_text / level_note')
