/* C17 - contracts on cocls::shared_future<int> (src/cocls/shared_future.h).
 *
 * Vocabulary
 *   handle           a shared_future<int> object: one std::shared_ptr<future_internal> (_ptr)
 *   shared state     future_internal = future<int> + the resolve tracer (an awaiter that holds a shared_ptr to its own state)
 *   control block    lib/model_sharedptr_cb.c: [cv_sp_cb | future_internal] in ONE heap block, cb->strong = strong count
 *   H_CB(h)/H_OBJ(h) control block / pointee of a handle;  TR(fi) the tracer;  SLOT(fi) the future's awaiter slot
 *
 * State invariant SI (kept by every member, established by the constructors and get_promise):
 *     the tracer's self-reference exists  <=>  the future is pending          (TR_SELF <=> IS_PENDING)
 *     and it is a reference to the state's OWN control block (counted in cb->strong).
 * A live handle is counted on top of it:  strong >= 1 + (TR_SELF ? 1 : 0).  Hence (reference lemma, unit `lemma`):
 * the block cannot be released while the future is pending, and is released by whoever lets go last.
 *
 * Logical variables (gh_*0): entry values fixed by `requires`, never assigned by the code (tools/README.md). */
#define H_OBJ(h)       ((h)->_ptr.base___shared_ptr._M_ptr)
#define H_PI(h)        ((h)->_ptr.base___shared_ptr._M_refcount._M_pi)              /* the raw lvalue */
#define H_CB(h)        ((struct cv_sp_cb *)H_PI(h))
#define T_OBJ(t)       ((t)->_ptr.base___shared_ptr._M_ptr)
#define T_PI(t)        ((t)->_ptr.base___shared_ptr._M_refcount._M_pi)
#define T_CB(t)        ((struct cv_sp_cb *)T_PI(t))
#define FUT_OF(fi)     (&(fi)->base_future)
#define SLOT(fi)       ((fi)->base_future.base_future_common._awaiter._M_b._M_p)
#define FSLOT(f)       ((f)->base_future_common._awaiter._M_b._M_p)
#define STATE(fi)      ((fi)->base_future.base_future_common._state)
#define FSTATE(f)      ((f)->base_future_common._state)
#define VALUE(fi)      (*(cv_i32 *)&(fi)->base_future.f1)
#define FVALUE(f)      (*(cv_i32 *)&(f)->f1)
#define TR(fi)         (&(fi)->resolve_tracer)
#define TR_AW(fi)      (&(fi)->resolve_tracer.base_awaiter)
#define ST_NOT_VALUE 0
#define ST_VALUE     1
#define ST_EXCEPTION 3                                             /* future_common::State::exception (2 = value_ref: T& only, not reachable for T = int) */
/* the stored std::exception_ptr of a future in State::exception: one pointer to the exception object (libstdc++ layout; the
 * union of value / pointer / exception_ptr is translated as its largest member, a pointer).  Reference traffic on exception
 * objects is counted by the exception primitives (lib/rt_core.c: gh_ep_addref / gh_ep_release). */
#define EXC_LV(fi)     ((fi)->base_future.f1.f0)                    /* the raw lvalue (for PEQ) */
#define EXC_OBJ(fi)    ((void *)(fi)->base_future.f1.f0)
/* result states covered by the contracts: no value / value / stored exception */
#define ST_COVERED(fi) (STATE(fi) <= ST_VALUE || (STATE(fi) == ST_EXCEPTION && EXC_OBJ(fi) != 0))
#define GH_EP          gh_ep_addref, gh_ep_release
/* "the stored exception_ptr is released exactly once, by whoever destroys the result" / "untouched otherwise" */
#define EP_RELEASED_IFF(c) (gh_ep_addref == __CPROVER_old(gh_ep_addref) && gh_ep_release == __CPROVER_old(gh_ep_release) + ((c) ? 1u : 0u))
#define IS_READY(fi)   (SLOT(fi) == AW_DISABLED)
#define IS_PENDING(fi) (SLOT(fi) != AW_DISABLED && SLOT(fi) != AW_INSTANCE)
#define TR_EMPTY(fi)   (T_OBJ(TR(fi)) == 0 && T_CB(TR(fi)) == 0)
#define TR_SELF(fi, cb) (T_OBJ(TR(fi)) == FUT_OF(fi) && T_CB(TR(fi)) == (cb))
#define CB_FI(cb)      CV_SP_OBJ(cb)
#define BIGCNT         (1l << 30)
/* state invariant of the block cb */
#define SI(cb) ((cb)->strong >= 1 && (TR_EMPTY(CB_FI(cb)) || TR_SELF(CB_FI(cb), cb)) && \
                ((TR_SELF(CB_FI(cb), cb) ? 1 : 0) == (IS_PENDING(CB_FI(cb)) ? 1 : 0)))
#define TRC(cb)        (TR_SELF(CB_FI(cb), cb) ? 1 : 0)
/* shape of a handle in a requires clause: empty, or owning a fresh block that satisfies SI and counts this handle (n handles) */
#define H_EMPTY(h)     (H_CB(h) == 0 && H_OBJ(h) == 0)
/* NOTE (CBMC): a pointer that the code under verification dereferences must get its value by ASSIGNMENT, not by an assumed
 * equality (CBMC resolves dereferences through value sets, which assumptions do not refine): __CPROVER_pointer_equals /
 * __CPROVER_is_fresh do that in a requires clause.  Ghost pointers fixed by plain `==` are used for identity only. */
#define PEQ(lv, e)     __CPROVER_pointer_equals(lv, (void *)(e))
#define TR_SELF_PEQ(fi, cb) (PEQ(T_OBJ(TR(fi)), FUT_OF(fi)) && PEQ(T_PI(TR(fi)), cb))
#define H_WF(h, n)     (PEQ(H_OBJ(h), CB_FI(H_CB(h))) && (TR_EMPTY(H_OBJ(h)) || TR_SELF_PEQ(H_OBJ(h), H_CB(h))) && \
                        SI(H_CB(h)) && H_CB(h)->strong < BIGCNT && H_CB(h)->strong >= (n) + TRC(H_CB(h)))
#define REQ_H_FRESH(h, n) \
  __CPROVER_requires(__CPROVER_is_fresh(H_CB(h), CV_SP_BLOCK_SIZE)) \
  __CPROVER_requires(H_WF(h, n))
#define REQ_H_SHAPE(h, n) \
  __CPROVER_requires(H_CB(h) != 0 ==> __CPROVER_is_fresh(H_CB(h), CV_SP_BLOCK_SIZE)) \
  __CPROVER_requires(H_CB(h) != 0 ==> H_WF(h, n)) \
  __CPROVER_requires(H_CB(h) == 0 ==> H_OBJ(h) == 0)
#define H_LIVE(h)      (H_CB(h) != 0 && __CPROVER_rw_ok(H_CB(h), CV_SP_BLOCK_SIZE) && H_OBJ(h) == CB_FI(H_CB(h)))
#define MODEL_PRE      (cv_exc_pending == 0 && cv_sp_depth == 0)
#define GH_SP          gh_frees, gh_sp_disposed, gh_sp_released, gh_sp_last_released, cv_sp_depth
#define GH_MAKE        gh_allocs, gh_sp_made
#define NOTHING_RELEASED (gh_frees == __CPROVER_old(gh_frees) && gh_sp_disposed == __CPROVER_old(gh_sp_disposed) && gh_sp_released == __CPROVER_old(gh_sp_released))
#define RELEASED_ONCE(cb) (gh_frees == __CPROVER_old(gh_frees) + 1 && gh_sp_disposed == __CPROVER_old(gh_sp_disposed) + 1 && \
                           gh_sp_released == __CPROVER_old(gh_sp_released) + 1 && gh_sp_last_released == (void *)(cb))

/* ---- the reference-count clauses of the contracts, as predicates.  They are used VERBATIM by the enforced contracts below and by
 * the reference lemma (h_lemma.c) - that is what makes the lemma a lemma "over the contracts".
 *   ALIVE_WITH(n)  "the state still exists and its strong count is n"  (a macro name; instantiated per contract / by the lemma)
 *   NOTHING / ONCE "nothing was" / "the state was" destroyed and released (exactly once) */
#define REF_DROPPED(c0, ALIVE_WITH, NOTHING, ONCE)     ((((c0) > 1) ==> ((NOTHING) && ALIVE_WITH((c0) - 1))) && (((c0) == 1) ==> (ONCE)))
#define REF_ADDED(c0, ALIVE_WITH)                      (ALIVE_WITH((c0) + 1))
#define CREATED(pending, HOLDS, ALIVE_WITH)            (((pending) ==> ((HOLDS) == 1 && ALIVE_WITH(2))) && (!(pending) ==> ((HOLDS) == 0 && ALIVE_WITH(1))))
#define TRACER_CHARGED(pend0, c0, HOLDS, ALIVE_WITH)   (((pend0) ==> ((HOLDS) == 1 && ALIVE_WITH((c0) + 1))) && (!(pend0) ==> ((HOLDS) == 0 && ALIVE_WITH(c0))))
/* instantiations used by the contracts */
#define CB0_ALIVE_WITH(n)  (__CPROVER_rw_ok(gh_cb0, CV_SP_BLOCK_SIZE) && gh_cb0->strong == (n) && SI(gh_cb0))
#define CB1_ALIVE_WITH(n)  (__CPROVER_rw_ok(gh_cb1, CV_SP_BLOCK_SIZE) && gh_cb1->strong == (n) && SI(gh_cb1))
#define THIS_ALIVE_WITH(n) (H_LIVE(this_) && H_CB(this_)->strong == (n) && SI(H_CB(this_)))

#ifndef CV_HAS_tr_invoke      /* the tracer lambda is not even instantiated (nobody calls charge): "its resume function is the lambda" is then false */
#define tr_invoke ((void (*)(SPV *, AWT *, cv_i8 *))0)
#endif
/* logical variables */
struct cv_sp_cb *gh_cb0, *gh_cb1; FI *gh_obj0; cv_i64 gh_c0, gh_c1; int gh_pend0, gh_tr0, gh_alias; AWT *gh_slot0;
int gh_exc0; cv_i8 *gh_excblk; void *gh_excti;      /* entry: the state holds an exception / the exception object's block (header + object) / its type */

/* ---------------------------------------------------------------- model instantiation (lib/model_sharedptr_cb.c) */
#define CV_COMMA ,
#ifdef CV_HAS_sp_arrow
CV_SP_DEFINE_ACCESS(sp_arrow, SPFI_ACCESS, SPFI_IMPL, "shared_ptr<future_internal>::operator->()")
#endif
#ifdef CV_HAS_sp_star
CV_SP_DEFINE_ACCESS(sp_star, SPFI_ACCESS, SPFI_IMPL, "shared_ptr<future_internal>::operator*()")
#endif
#ifdef CV_HAS_sp_make_default        /* make_shared<future_internal>() */
CV_SP_DEFINE_MAKE(sp_make_default, ALLOCV, , fi_ctor_default(obj))
#endif
#ifdef CV_HAS_sp_make_pfn            /* make_shared<future_internal>(c17_promise_fn &) */
CV_SP_DEFINE_MAKE(sp_make_pfn, ALLOCV, CV_COMMA PFN *fn, fi_ctor_pfn(obj, fn))
#endif

/* ---------------------------------------------------------------- abstract callees of future.h / awaiter.h
 * awaiter::subscribe_check_ready(chain, ready_state): the CAS loop of awaiter.h in its sequential reading (its concurrent
 * behaviour is the subject of C02/C03): refused iff the slot already holds the ready marker, otherwise pushed on the chain.
 * Ghosts: how many subscriptions were attempted / accepted, and which awaiter was the last one. */
unsigned gh_sub_calls, gh_sub_ok; AWT *gh_sub_last;
#define GH_SUB gh_sub_calls, gh_sub_ok, gh_sub_last
#ifdef CV_HAS_aw_subscribe
cv_i1 aw_subscribe(AWT *this_, AT_AWT *chain, AWT *ready_state) {
  gh_sub_calls++; gh_sub_last = this_;
  __CPROVER_assert(this_->_next == 0, "awaiter subscribed while it is still linked in a chain (awaiter.h: assert(_next == nullptr))");
  if (chain->_M_b._M_p == ready_state) return 0;
  this_->_next = chain->_M_b._M_p; chain->_M_b._M_p = this_; gh_sub_ok++;
  return 1;
}
#endif
/* abstract resolution of a future that nobody awaits yet (used by the environment stubs below and by ~promise) */
#define ABS_RESOLVE(f, has_value, v) do { \
    __CPROVER_assert(FSLOT(f) == 0, "model limit: abstract resolution of a future that already has awaiters or is not pending"); \
    if (has_value) { FVALUE(f) = (v); FSTATE(f) = ST_VALUE; } \
    FSLOT(f) = AW_DISABLED; } while (0)
/* promise<int>::~promise(): a promise that still owns its future resolves it without a value (broken promise) */
unsigned gh_promise_drops;
#define GH_PDTOR gh_promise_drops
#ifdef CV_HAS_promise_dtor
void promise_dtor(PROMISE *p) {
  FUT *f = p->_owner._M_b._M_p;
  if (f != 0) { gh_promise_drops++; ABS_RESOLVE(f, 0, 0); }
}
#endif

/* environment = the user function given to the constructors (declared only in the driver):
 *   gh_env_choice 0: keeps the promise / returns a pending future (resolution comes later, from outside)
 *                 1: resolves synchronously with gh_env_val      2: drops the promise (ready, no value) */
int gh_env_choice; cv_i32 gh_env_val; unsigned gh_env_calls; FUT *gh_env_owner;
#define GH_ENV gh_env_calls, gh_env_owner
#if defined(CV_HAS_env_promise_fn) && !defined(C17_DRIVE)      /* the drive supplies its own (it keeps the real promise) */
void env_promise_fn(PFN *fn, PROMISE *p) {
  FUT *f = p->_owner._M_b._M_p;
  gh_env_calls++; gh_env_owner = f;
  __CPROVER_assert(f != 0, "the promise handed to the user function is bound to a future");
  if (gh_env_choice == 0) { p->_owner._M_b._M_p = 0; }                           /* moved away: promise(promise&&) claims */
  else if (gh_env_choice == 1) { p->_owner._M_b._M_p = 0; ABS_RESOLVE(f, 1, gh_env_val); }
  /* 2: left in place - the caller's ~promise() breaks it */
}
#endif
#if defined(CV_HAS_env_future_fn) && !defined(C17_DRIVE)       /* the drive supplies its own (a really pending future whose real promise it keeps) */
void env_future_fn(FUT *ret, FFN *fn) {
  gh_env_calls++; gh_env_owner = ret;
  FSTATE(ret) = ST_NOT_VALUE; ret->f1.f0 = 0;
  if (gh_env_choice == 0) FSLOT(ret) = 0;                                          /* pending: a promise exists somewhere */
  else if (gh_env_choice == 1) { FSLOT(ret) = AW_DISABLED; FVALUE(ret) = gh_env_val; FSTATE(ret) = ST_VALUE; }
  else FSLOT(ret) = AW_DISABLED;
}
#endif
#ifdef CV_HAS_promise_set_exc
/* result_of()'s catch(...) branch: reachable only if the user function throws, which the environment stub never does */
void promise_set_exc(SPBOOL *ret, PROMISE *p, EXCPTR *e) { __CPROVER_assert(0, "not covered: the function passed to shared_future(Fn) throws (future::result_of catch branch)"); }
#endif
#ifdef CV_HAS_spbool_dtor
void spbool_dtor(SPBOOL *sp) { __CPROVER_assert(0, "not covered: the function passed to shared_future(Fn) throws (temporary of the catch branch)"); }
#endif

/* ================================================================ contracts ================================================ */

/* ---- shared_future(): empty handle, nothing allocated */
#ifdef CV_HAS_sf_ctor_default
void sf_ctor_default(SF *this_)
__CPROVER_requires(MODEL_PRE && __CPROVER_is_fresh(this_, sizeof(*this_)))
__CPROVER_assigns(__CPROVER_object_whole(this_))
__CPROVER_ensures(cv_exc_pending == 0 && H_EMPTY(this_))
__CPROVER_ensures(gh_allocs == __CPROVER_old(gh_allocs))
;
#endif

/* ---- resolve_cb::charge(ptr): the tracer takes ONE strong reference to its own state iff it gets subscribed, i.e. iff the
 *      future is not yet resolved at that instant; its resume function is the reference-dropping lambda. */
#ifdef CV_HAS_tr_charge
void tr_charge(TRACER *this_, SPFI *ptr)
__CPROVER_requires(MODEL_PRE && gh_sub_calls == 0 && gh_sub_ok == 0)
__CPROVER_requires(__CPROVER_is_fresh(ptr, sizeof(*ptr)))
__CPROVER_requires(__CPROVER_is_fresh(ptr->base___shared_ptr._M_refcount._M_pi, CV_SP_BLOCK_SIZE))
__CPROVER_requires(PEQ(gh_cb0, ptr->base___shared_ptr._M_refcount._M_pi) && PEQ(ptr->base___shared_ptr._M_ptr, CB_FI(gh_cb0)))
__CPROVER_requires(PEQ(this_, TR(CB_FI(gh_cb0))))                                       /* called as  _ptr->resolve_tracer.charge(_ptr) */
__CPROVER_requires(gh_cb0->strong >= 1 && gh_cb0->strong < BIGCNT && gh_c0 == gh_cb0->strong)
__CPROVER_requires(TR_EMPTY(CB_FI(gh_cb0)) && TR_AW(CB_FI(gh_cb0))->_next == 0)      /* not charged before */
__CPROVER_requires(SLOT(CB_FI(gh_cb0)) != AW_INSTANCE)                               /* a promise has been taken (pending) or the future is resolved */
__CPROVER_requires(gh_slot0 == SLOT(CB_FI(gh_cb0)) && gh_pend0 == (SLOT(CB_FI(gh_cb0)) != AW_DISABLED ? 1 : 0))
__CPROVER_assigns(__CPROVER_object_whole(gh_cb0), GH_SUB)
__CPROVER_ensures(cv_exc_pending == 0 && gh_allocs == __CPROVER_old(gh_allocs) && gh_frees == __CPROVER_old(gh_frees))
__CPROVER_ensures(gh_sub_calls == 1 && gh_sub_last == TR_AW(CB_FI(gh_cb0)))                                     /* exactly one subscription attempt, of the tracer */
__CPROVER_ensures(TRACER_CHARGED(gh_pend0, gh_c0, TRC(gh_cb0), CB0_ALIVE_WITH))                                  /* pending: ONE extra reference; resolved: none */
__CPROVER_ensures(gh_sub_ok == (gh_pend0 ? 1 : 0))                                                              /* the reference exists iff the tracer got subscribed */
__CPROVER_ensures(gh_pend0 ==> (SLOT(CB_FI(gh_cb0)) == TR_AW(CB_FI(gh_cb0)) && TR_AW(CB_FI(gh_cb0))->_next == gh_slot0))
__CPROVER_ensures(!gh_pend0 ==> (TR_EMPTY(CB_FI(gh_cb0)) && SLOT(CB_FI(gh_cb0)) == AW_DISABLED))
__CPROVER_ensures(TR_AW(CB_FI(gh_cb0))->_resume_fn == tr_invoke)                                                /* what resolution will call */
;
#endif

/* ---- the tracer's resume function (the lambda in charge): drops exactly the tracer's reference; if that was the last one
 *      the state is destroyed and released - exactly once - here; resumes no coroutine. */
#ifdef CV_HAS_tr_invoke
void tr_invoke(SPV *ret, AWT *x, cv_i8 *ctx)
__CPROVER_requires(MODEL_PRE && __CPROVER_is_fresh(ret, sizeof(*ret)))
__CPROVER_requires(__CPROVER_is_fresh(gh_cb0, CV_SP_BLOCK_SIZE))
__CPROVER_requires(PEQ(x, TR_AW(CB_FI(gh_cb0))))
__CPROVER_requires(TR_SELF_PEQ(CB_FI(gh_cb0), gh_cb0) && gh_cb0->strong >= 1 && gh_cb0->strong < BIGCNT && gh_c0 == gh_cb0->strong)
__CPROVER_requires(IS_READY(CB_FI(gh_cb0)) && ST_COVERED(CB_FI(gh_cb0)))                  /* resolution has already swung the slot to `disabled`; any result: none / value / exception */
__CPROVER_requires(gh_exc0 == (STATE(CB_FI(gh_cb0)) == ST_EXCEPTION ? 1 : 0))
__CPROVER_assigns(__CPROVER_object_whole(ret), __CPROVER_object_whole(gh_cb0), GH_SP, GH_EP)
__CPROVER_frees(gh_cb0)
__CPROVER_ensures(cv_exc_pending == 0 && gh_allocs == __CPROVER_old(gh_allocs))
__CPROVER_ensures(ret->_count_flag == 0)                                                      /* resumes nothing */
__CPROVER_ensures(REF_DROPPED(gh_c0, CB0_ALIVE_WITH, NOTHING_RELEASED, RELEASED_ONCE(gh_cb0)))  /* exactly the tracer's reference; every handle already gone: the tracer frees the state */
__CPROVER_ensures(gh_c0 > 1 ==> TR_EMPTY(CB_FI(gh_cb0)))
__CPROVER_ensures(EP_RELEASED_IFF(gh_c0 == 1 && gh_exc0))                                     /* a stored exception is released exactly when the state is destroyed - once */
;
#endif

/* ---- ~shared_future(): drops exactly one reference; a pending state survives; the last owner releases the state once */
#ifdef CV_HAS_sf_dtor
void sf_dtor(SF *this_)
__CPROVER_requires(MODEL_PRE && __CPROVER_is_fresh(this_, sizeof(*this_)))
REQ_H_SHAPE(this_, 1)
__CPROVER_requires(H_CB(this_) != 0 ==> ST_COVERED(H_OBJ(this_)))
__CPROVER_requires(PEQ(gh_cb0, H_CB(this_)) && (gh_cb0 != 0 ==> (gh_c0 == gh_cb0->strong && gh_pend0 == (IS_PENDING(CB_FI(gh_cb0)) ? 1 : 0))))
__CPROVER_requires(gh_exc0 == ((gh_cb0 != 0 && STATE(CB_FI(gh_cb0)) == ST_EXCEPTION) ? 1 : 0))
__CPROVER_assigns(GH_SP, GH_EP)
__CPROVER_assigns(H_CB(this_) != 0: __CPROVER_object_whole(H_CB(this_)))
__CPROVER_frees(H_CB(this_))
__CPROVER_ensures(cv_exc_pending == 0 && gh_allocs == __CPROVER_old(gh_allocs))
__CPROVER_ensures(gh_cb0 == 0 ==> NOTHING_RELEASED)
__CPROVER_ensures((gh_cb0 != 0 && gh_pend0) ==> gh_c0 > 1)                                   /* pending => never the last reference */
__CPROVER_ensures(gh_cb0 != 0 ==> REF_DROPPED(gh_c0, CB0_ALIVE_WITH, NOTHING_RELEASED, RELEASED_ONCE(gh_cb0)))
__CPROVER_ensures(EP_RELEASED_IFF(gh_cb0 != 0 && gh_c0 == 1 && gh_exc0))                      /* the stored exception_ptr is released exactly once: by the last owner, together with the state */
__CPROVER_ensures((gh_cb0 != 0 && gh_c0 > 1 && gh_exc0) ==> (STATE(CB_FI(gh_cb0)) == ST_EXCEPTION && EXC_OBJ(CB_FI(gh_cb0)) == __CPROVER_old(EXC_OBJ(CB_FI(gh_cb0)))))   /* ... and stays in place for the remaining copies */
;
#endif

/* ---- shared_future(const shared_future &): same state, exactly one more reference */
#ifdef CV_HAS_sf_copy_ctor
void sf_copy_ctor(SF *this_, SF *src)
__CPROVER_requires(MODEL_PRE && __CPROVER_is_fresh(this_, sizeof(*this_)) && __CPROVER_is_fresh(src, sizeof(*src)))
REQ_H_SHAPE(src, 1)
__CPROVER_requires(PEQ(gh_cb0, H_CB(src)) && PEQ(gh_obj0, H_OBJ(src)) && (gh_cb0 != 0 ==> gh_c0 == gh_cb0->strong))
__CPROVER_assigns(__CPROVER_object_whole(this_))
__CPROVER_assigns(H_CB(src) != 0: H_CB(src)->strong)
__CPROVER_ensures(cv_exc_pending == 0 && gh_allocs == __CPROVER_old(gh_allocs) && gh_frees == __CPROVER_old(gh_frees))
__CPROVER_ensures(H_CB(this_) == gh_cb0 && H_OBJ(this_) == gh_obj0 && H_CB(src) == gh_cb0 && H_OBJ(src) == gh_obj0)     /* both refer to the one shared state */
__CPROVER_ensures(gh_cb0 != 0 ==> (REF_ADDED(gh_c0, CB0_ALIVE_WITH) && gh_cb0->strong >= 2 + TRC(gh_cb0)))
;
#endif

/* ---- operator=(const shared_future &): afterwards shares src's state; src's state +1, the previous state -1 (released once
 *      if this was its last owner); both handles on the same state (gh_alias): nothing changes */
#ifdef CV_HAS_sf_copy_assign
SF *sf_copy_assign(SF *this_, SF *src)
__CPROVER_requires(MODEL_PRE && __CPROVER_is_fresh(this_, sizeof(*this_)) && __CPROVER_is_fresh(src, sizeof(*src)))
__CPROVER_requires(gh_alias == 0 || gh_alias == 1)
__CPROVER_requires(gh_alias ==> H_CB(this_) != 0)
__CPROVER_requires(H_CB(this_) != 0 ==> __CPROVER_is_fresh(H_CB(this_), CV_SP_BLOCK_SIZE))
__CPROVER_requires(H_CB(this_) != 0 ==> H_WF(this_, 1 + gh_alias))
__CPROVER_requires(H_CB(this_) == 0 ==> H_OBJ(this_) == 0)
__CPROVER_requires(gh_alias ==> (PEQ(H_PI(src), H_CB(this_)) && PEQ(H_OBJ(src), H_OBJ(this_))))
__CPROVER_requires((!gh_alias && H_CB(src) != 0) ==> __CPROVER_is_fresh(H_CB(src), CV_SP_BLOCK_SIZE))
__CPROVER_requires((!gh_alias && H_CB(src) != 0) ==> H_WF(src, 1))
__CPROVER_requires((!gh_alias && H_CB(src) == 0) ==> H_OBJ(src) == 0)
__CPROVER_requires(H_CB(this_) != 0 ==> ST_COVERED(H_OBJ(this_)))
__CPROVER_requires(PEQ(gh_cb0, H_CB(this_)) && (gh_cb0 != 0 ==> gh_c0 == gh_cb0->strong))
__CPROVER_requires(PEQ(gh_cb1, H_CB(src)) && PEQ(gh_obj0, H_OBJ(src)) && (gh_cb1 != 0 ==> gh_c1 == gh_cb1->strong))
__CPROVER_requires(gh_exc0 == ((gh_cb0 != 0 && STATE(CB_FI(gh_cb0)) == ST_EXCEPTION) ? 1 : 0))
__CPROVER_assigns(__CPROVER_object_whole(this_), GH_SP, GH_EP)
__CPROVER_assigns(H_CB(this_) != 0: __CPROVER_object_whole(H_CB(this_)))
__CPROVER_assigns(H_CB(src) != 0: H_CB(src)->strong)
__CPROVER_frees(H_CB(this_))
__CPROVER_ensures(cv_exc_pending == 0 && gh_allocs == __CPROVER_old(gh_allocs) && __CPROVER_return_value == this_)
__CPROVER_ensures(H_CB(this_) == gh_cb1 && H_OBJ(this_) == gh_obj0 && H_CB(src) == gh_cb1 && H_OBJ(src) == gh_obj0)     /* shares src's state */
__CPROVER_ensures((gh_cb1 != 0 && gh_cb1 != gh_cb0) ==> REF_ADDED(gh_c1, CB1_ALIVE_WITH))
__CPROVER_ensures((gh_cb1 != 0 && gh_cb1 == gh_cb0) ==> (gh_cb1->strong == gh_c1 && NOTHING_RELEASED))
__CPROVER_ensures((gh_cb0 != 0 && gh_cb0 != gh_cb1) ==> REF_DROPPED(gh_c0, CB0_ALIVE_WITH, NOTHING_RELEASED, RELEASED_ONCE(gh_cb0)))
__CPROVER_ensures(gh_cb0 == 0 ==> NOTHING_RELEASED)
__CPROVER_ensures(EP_RELEASED_IFF(gh_cb0 != 0 && gh_cb0 != gh_cb1 && gh_c0 == 1 && gh_exc0))  /* the previous state's stored exception: released once iff this was its last owner */
;
#endif

/* ---- shared_future(Fn) with Fn(promise<int>): state created by ONE allocation, the user function receives a promise bound
 *      to it; the tracer is wired (one extra reference) exactly when the future is still pending afterwards */
#ifdef CV_HAS_sf_ctor_pfn
void sf_ctor_pfn(SF *this_, PFN *fn)
__CPROVER_requires(MODEL_PRE && __CPROVER_is_fresh(this_, sizeof(*this_)) && __CPROVER_is_fresh(fn, sizeof(*fn)))
__CPROVER_requires(gh_env_choice >= 0 && gh_env_choice <= 2 && gh_env_calls == 0 && gh_sub_calls == 0 && gh_sub_ok == 0)
__CPROVER_assigns(__CPROVER_object_whole(this_), GH_MAKE, GH_ENV, GH_SUB, GH_PDTOR)
__CPROVER_ensures(cv_exc_pending == 0)
__CPROVER_ensures(gh_allocs == __CPROVER_old(gh_allocs) + 1 && gh_sp_made == __CPROVER_old(gh_sp_made) + 1 && gh_frees == __CPROVER_old(gh_frees))
__CPROVER_ensures(H_LIVE(this_))
__CPROVER_ensures(gh_env_calls == 1 && gh_env_owner == FUT_OF(H_OBJ(this_)))                  /* promise bound to the shared state */
__CPROVER_ensures(CREATED(gh_env_choice == 0, TRC(H_CB(this_)), THIS_ALIVE_WITH))                /* pending: handle + tracer; resolved inside: the handle only */
__CPROVER_ensures((gh_env_choice == 0) == (IS_PENDING(H_OBJ(this_)) ? 1 : 0))
__CPROVER_ensures(gh_env_choice == 0 ==> (SLOT(H_OBJ(this_)) == TR_AW(H_OBJ(this_)) && TR_AW(H_OBJ(this_))->_next == 0 && TR_AW(H_OBJ(this_))->_resume_fn == tr_invoke))
__CPROVER_ensures(gh_env_choice != 0 ==> (IS_READY(H_OBJ(this_)) && TR_EMPTY(H_OBJ(this_))))
__CPROVER_ensures(gh_env_choice == 1 ==> (STATE(H_OBJ(this_)) == ST_VALUE && VALUE(H_OBJ(this_)) == gh_env_val))
__CPROVER_ensures(gh_env_choice == 2 ==> STATE(H_OBJ(this_)) == ST_NOT_VALUE)
__CPROVER_ensures(SI(H_CB(this_)))
;
#endif

/* ---- shared_future(Fn) with Fn() -> future<int>: the state IS the future the function returned; tracer wired iff pending */
#ifdef CV_HAS_sf_ctor_ffn
void sf_ctor_ffn(SF *this_, FFN *fn)
__CPROVER_requires(MODEL_PRE && __CPROVER_is_fresh(this_, sizeof(*this_)) && __CPROVER_is_fresh(fn, sizeof(*fn)))
__CPROVER_requires(gh_env_choice >= 0 && gh_env_choice <= 2 && gh_env_calls == 0 && gh_sub_calls == 0 && gh_sub_ok == 0)
__CPROVER_assigns(__CPROVER_object_whole(this_), GH_MAKE, GH_ENV, GH_SUB, GH_PDTOR, cv_exc_obj, cv_exc_tinfo)
__CPROVER_ensures(cv_exc_pending == 0)
__CPROVER_ensures(gh_allocs == __CPROVER_old(gh_allocs) + 1 && gh_sp_made == __CPROVER_old(gh_sp_made) + 1 && gh_frees == __CPROVER_old(gh_frees))
__CPROVER_ensures(H_LIVE(this_))
__CPROVER_ensures(gh_env_calls == 1 && gh_env_owner == FUT_OF(H_OBJ(this_)))                  /* the result is constructed in the shared state */
__CPROVER_ensures(CREATED(gh_env_choice == 0, TRC(H_CB(this_)), THIS_ALIVE_WITH))                /* pending: handle + tracer; resolved inside: the handle only */
__CPROVER_ensures((gh_env_choice == 0) == (IS_PENDING(H_OBJ(this_)) ? 1 : 0))
__CPROVER_ensures(gh_env_choice == 0 ==> (SLOT(H_OBJ(this_)) == TR_AW(H_OBJ(this_)) && TR_AW(H_OBJ(this_))->_next == 0 && TR_AW(H_OBJ(this_))->_resume_fn == tr_invoke))
__CPROVER_ensures(gh_env_choice != 0 ==> (IS_READY(H_OBJ(this_)) && TR_EMPTY(H_OBJ(this_)) && gh_sub_calls == 0))
__CPROVER_ensures(gh_env_choice == 1 ==> (STATE(H_OBJ(this_)) == ST_VALUE && VALUE(H_OBJ(this_)) == gh_env_val))
__CPROVER_ensures(SI(H_CB(this_)))
;
#endif

/* ---- operator<<(Fn) with Fn() -> future<int> ("same as result_of"): re-targets the shared state of this handle to the operation
 *      started by fn.  Clause from the property statement (not from the code): "the shared state stays alive until it has been
 *      resolved even if every handle is dropped while it is still pending" - i.e. operator<< must keep the state invariant SI
 *      like every other member: if the future is pending afterwards the tracer holds its self-reference (strong + 1, subscribed
 *      with the reference-dropping lambda), if it is already resolved the tracer holds nothing.
 *      Preconditions (stated, also in META assumptions):
 *        - the handle is not empty: the class documentation asks for init_if_needed() / get_promise() on a default-constructed
 *          object before anything else is done with it;
 *        - the future of the state is not pending: future::result_of destroys and re-creates the future in place, and a pending
 *          future must not be destroyed (future_common: "Destroy of pending future"). */
#if defined(CV_HAS_sf_shift) && !defined(SHIFT_ON_EMPTY)
SF *sf_shift(SF *this_, FFN *fn)
__CPROVER_requires(MODEL_PRE && __CPROVER_is_fresh(this_, sizeof(*this_)) && __CPROVER_is_fresh(fn, sizeof(*fn)))
REQ_H_FRESH(this_, 1)                                                                      /* documented precondition: initialised (non-empty) handle */
__CPROVER_requires(!IS_PENDING(H_OBJ(this_)) && TR_AW(H_OBJ(this_))->_next == 0)             /* documented precondition: not pending (fresh from init_if_needed(), or resolved) */
__CPROVER_requires(ST_COVERED(H_OBJ(this_)) && gh_exc0 == (STATE(H_OBJ(this_)) == ST_EXCEPTION ? 1 : 0))
__CPROVER_requires(PEQ(gh_cb0, H_CB(this_)) && PEQ(gh_obj0, H_OBJ(this_)) && gh_c0 == gh_cb0->strong)
__CPROVER_requires(gh_env_choice >= 0 && gh_env_choice <= 2 && gh_env_calls == 0 && gh_sub_calls == 0 && gh_sub_ok == 0)
__CPROVER_assigns(__CPROVER_object_whole(H_CB(this_)), GH_ENV, GH_SUB, GH_PDTOR, GH_EP, cv_exc_obj, cv_exc_tinfo)
__CPROVER_ensures(cv_exc_pending == 0 && __CPROVER_return_value == this_)
__CPROVER_ensures(gh_allocs == __CPROVER_old(gh_allocs) && gh_frees == __CPROVER_old(gh_frees))
__CPROVER_ensures(H_CB(this_) == gh_cb0 && H_OBJ(this_) == gh_obj0)                          /* still the same shared state (every copy sees the new operation) */
__CPROVER_ensures(gh_env_calls == 1 && gh_env_owner == FUT_OF(gh_obj0))                     /* the result of fn() is constructed in the shared state */
__CPROVER_ensures((gh_env_choice == 0) == (IS_PENDING(gh_obj0) ? 1 : 0))
__CPROVER_ensures(TRACER_CHARGED(gh_env_choice == 0, gh_c0, TRC(gh_cb0), CB0_ALIVE_WITH))    /* SI kept: pending ==> the tracer holds ONE extra reference (alive with no handle left); resolved ==> none */
__CPROVER_ensures(TRC(gh_cb0) == 1 ==> (SLOT(gh_obj0) == TR_AW(gh_obj0) && TR_AW(gh_obj0)->_next == 0 && TR_AW(gh_obj0)->_resume_fn == tr_invoke))   /* no leak: a reference held by the tracer is one that resolution will drop (subscribed first, with the reference-dropping lambda) */
__CPROVER_ensures(gh_env_choice != 0 ==> (IS_READY(gh_obj0) && TR_EMPTY(gh_obj0)))
__CPROVER_ensures(gh_env_choice == 1 ==> (STATE(gh_obj0) == ST_VALUE && VALUE(gh_obj0) == gh_env_val))
__CPROVER_ensures(gh_env_choice == 2 ==> STATE(gh_obj0) == ST_NOT_VALUE)
__CPROVER_ensures(EP_RELEASED_IFF(gh_exc0))                                                   /* a stored exception of the replaced result is released exactly once */
;
#endif

/* ---- OBSERVATION unit (opt-in: C17_SHIFT_ON_EMPTY=1 ./check C17 quick --unit shift_on_empty; NOT part of the default run, NOT a finding):
 *      operator<< on a DEFAULT-CONSTRUCTED (empty) handle.  The header does not document operator<< as an initialisation route: the default constructor's
 *      documentation names init_if_needed() and get_promise() ("If you need to initialize the object, call init_if_needed() or get_promise()"), operator<<
 *      is documented as "same as result_of" (which needs an existing future), and the property statement names get_promise() only.  So "non-empty" is a
 *      documented precondition of unit `shift`.  This unit states what operator<< WOULD have to guarantee if it were such a route (hypothetical clause:
 *      afterwards the handle owns a new state that holds the operation started by fn, tracer charged iff pending) - on the unchanged tree it fails with
 *      the model obligation "shared_ptr<future_internal>::operator->() on an empty std::shared_ptr (null pointer dereference)" (natively: SIGSEGV,
 *      replay/c17_shift_on_empty.cpp); with the hardening specs/C17/fix_shift_on_empty.diff (init_if_needed() first) it holds. */
#if defined(CV_HAS_sf_shift) && defined(SHIFT_ON_EMPTY)
SF *sf_shift(SF *this_, FFN *fn)
__CPROVER_requires(MODEL_PRE && __CPROVER_is_fresh(this_, sizeof(*this_)) && __CPROVER_is_fresh(fn, sizeof(*fn)) && H_EMPTY(this_))
__CPROVER_requires(gh_env_choice >= 0 && gh_env_choice <= 2 && gh_env_calls == 0 && gh_sub_calls == 0 && gh_sub_ok == 0)
__CPROVER_assigns(__CPROVER_object_whole(this_), GH_MAKE, GH_ENV, GH_SUB, GH_PDTOR, GH_EP, cv_exc_obj, cv_exc_tinfo)
__CPROVER_ensures(cv_exc_pending == 0 && __CPROVER_return_value == this_)
__CPROVER_ensures(gh_allocs == __CPROVER_old(gh_allocs) + 1 && gh_frees == __CPROVER_old(gh_frees))
__CPROVER_ensures(H_LIVE(this_))
__CPROVER_ensures(gh_env_calls == 1 && gh_env_owner == FUT_OF(H_OBJ(this_)))
__CPROVER_ensures(CREATED(gh_env_choice == 0, TRC(H_CB(this_)), THIS_ALIVE_WITH))
__CPROVER_ensures((gh_env_choice == 0) == (IS_PENDING(H_OBJ(this_)) ? 1 : 0))
__CPROVER_ensures(gh_env_choice == 1 ==> (STATE(H_OBJ(this_)) == ST_VALUE && VALUE(H_OBJ(this_)) == gh_env_val))
;
#endif

/* ---- init_if_needed(): an empty handle gets a fresh, initialised, not yet pending state; an initialised one is untouched */
/* a state created by init_if_needed(): exists, no promise taken yet, tracer not charged.  What its awaiter slot holds is stated
 * separately by the contract that uses this shape (nobody awaits yet: &awaiter::instance / somebody already does: see get_promise) */
#define H_INITIALISED(h, n) (PEQ(H_OBJ(h), CB_FI(H_CB(h))) && H_CB(h)->strong >= (n) && H_CB(h)->strong < BIGCNT && \
                             STATE(H_OBJ(h)) == ST_NOT_VALUE && TR_EMPTY(H_OBJ(h)) && TR_AW(H_OBJ(h))->_next == 0)
#define REQ_H_EMPTY_OR_INITIALISED(h) \
  __CPROVER_requires(H_CB(h) != 0 ==> __CPROVER_is_fresh(H_CB(h), CV_SP_BLOCK_SIZE)) \
  __CPROVER_requires(H_CB(h) != 0 ==> H_INITIALISED(h, 1)) \
  __CPROVER_requires(H_CB(h) == 0 ==> H_OBJ(h) == 0)
#ifdef CV_HAS_sf_init_if_needed
void sf_init_if_needed(SF *this_)
__CPROVER_requires(MODEL_PRE && __CPROVER_is_fresh(this_, sizeof(*this_)))
REQ_H_SHAPE(this_, 1)
__CPROVER_requires(PEQ(gh_cb0, H_CB(this_)) && PEQ(gh_obj0, H_OBJ(this_)) && (gh_cb0 != 0 ==> gh_c0 == gh_cb0->strong))
__CPROVER_assigns(__CPROVER_object_whole(this_), GH_MAKE)
__CPROVER_ensures(cv_exc_pending == 0 && gh_frees == __CPROVER_old(gh_frees))
__CPROVER_ensures(H_LIVE(this_))                                                              /* never empty afterwards */
__CPROVER_ensures(gh_cb0 == 0 ==> (gh_allocs == __CPROVER_old(gh_allocs) + 1 && H_CB(this_)->strong == 1 && SLOT(H_OBJ(this_)) == AW_INSTANCE && TR_EMPTY(H_OBJ(this_))))
__CPROVER_ensures(gh_cb0 != 0 ==> (gh_allocs == __CPROVER_old(gh_allocs) && H_CB(this_) == gh_cb0 && H_OBJ(this_) == gh_obj0 && gh_cb0->strong == gh_c0))   /* "otherwise does nothing" */
;
#endif

/* ---- get_promise(): late initialisation.  Default-constructed handle: creates the state (one allocation).  Initialised
 *      handle: keeps its state.  Either way the returned promise is bound to the shared state, the future is pending and the
 *      tracer holds its extra reference. */
#ifdef CV_HAS_sf_get_promise
#ifndef GP_CASE_PRE
#define GP_CASE_PRE(h) 1            /* units split the two cases: (H_CB(h) == 0) / (H_CB(h) != 0) */
#endif
/* Who may already await the state when get_promise() is called on an initialised handle (units get_promise_initialised /
 * get_promise_early_awaiter).  init_if_needed() exists so that copies can be handed out BEFORE the promise is taken; a consumer
 * holding such a copy cannot tell whether the producer has already called get_promise() (ready() is false either way) and
 * awaiter::subscribe ACCEPTS it (pushed in front of &awaiter::instance, returns true).  The property statement says "every awaiter
 * of any copy is resumed exactly once" and names late initialisation through get_promise() - so the case is NOT excluded here:
 *   GP_EARLY 0: nobody awaits yet - the slot holds &awaiter::instance
 *   GP_EARLY 1: ONE awaiter (gh_early) was accepted before get_promise(): slot -> gh_early -> &awaiter::instance.  Clause from the
 *               property: it is still subscribed afterwards (so that the resolution resumes it).  On the unchanged tree this clause
 *               FAILS (future::get_promise overwrites the slot: exchange(nullptr), the result is only looked at by a debug assert
 *               "Invalid future state"): open known finding, marker C17-FINDING-await-before-get-promise. */
#ifndef GP_EARLY
#define GP_EARLY 0
#endif
AWT *gh_early;
void sf_get_promise(PROMISE *ret, SF *this_)
__CPROVER_requires(MODEL_PRE && __CPROVER_is_fresh(ret, sizeof(*ret)) && __CPROVER_is_fresh(this_, sizeof(*this_)) && GP_CASE_PRE(this_))
REQ_H_EMPTY_OR_INITIALISED(this_)
#if GP_EARLY
__CPROVER_requires(H_CB(this_) != 0 ==> __CPROVER_is_fresh(gh_early, sizeof(*gh_early)))
__CPROVER_requires(H_CB(this_) != 0 ==> (PEQ(SLOT(H_OBJ(this_)), gh_early) && PEQ(gh_early->_next, AW_INSTANCE)))     /* accepted by subscribe() before the promise was taken */
#else
__CPROVER_requires(H_CB(this_) != 0 ==> SLOT(H_OBJ(this_)) == AW_INSTANCE)                                          /* nobody awaits yet */
#endif
__CPROVER_requires(PEQ(gh_cb0, H_CB(this_)) && PEQ(gh_obj0, H_OBJ(this_)) && (gh_cb0 != 0 ==> gh_c0 == gh_cb0->strong))
__CPROVER_requires(gh_sub_calls == 0 && gh_sub_ok == 0 && gh_promise_drops == 0)
__CPROVER_assigns(__CPROVER_object_whole(ret), __CPROVER_object_whole(this_), GH_MAKE, GH_SUB, GH_PDTOR)
__CPROVER_assigns(H_CB(this_) != 0: __CPROVER_object_whole(H_CB(this_)))
#if GP_EARLY
__CPROVER_assigns(H_CB(this_) != 0: __CPROVER_object_whole(gh_early))                         /* a repair may relink the early awaiter */
#endif
__CPROVER_ensures(cv_exc_pending == 0 && gh_frees == __CPROVER_old(gh_frees) && gh_promise_drops == 0)
__CPROVER_ensures(H_LIVE(this_))
__CPROVER_ensures(gh_cb0 == 0 ==> (gh_allocs == __CPROVER_old(gh_allocs) + 1 && CREATED(1, TRC(H_CB(this_)), THIS_ALIVE_WITH)))   /* default-constructed: state created; handle + tracer */
__CPROVER_ensures(gh_cb0 != 0 ==> (gh_allocs == __CPROVER_old(gh_allocs) && H_CB(this_) == gh_cb0 && H_OBJ(this_) == gh_obj0 && TRACER_CHARGED(1, gh_c0, TRC(H_CB(this_)), THIS_ALIVE_WITH)))
__CPROVER_ensures(ret->_owner._M_b._M_p == FUT_OF(H_OBJ(this_)))                                                     /* promise bound to the shared state */
__CPROVER_ensures(IS_PENDING(H_OBJ(this_)) && TR_SELF(H_OBJ(this_), H_CB(this_)) && SI(H_CB(this_)))
#if GP_EARLY
__CPROVER_ensures(gh_sub_ok == 1 && TR_AW(H_OBJ(this_))->_resume_fn == tr_invoke)
__CPROVER_ensures(gh_cb0 != 0 ==> (SLOT(H_OBJ(this_)) == gh_early || (SLOT(H_OBJ(this_)) != 0 && SLOT(H_OBJ(this_))->_next == gh_early)))   /* C17-FINDING-await-before-get-promise: the awaiter accepted earlier is still subscribed */
#else
__CPROVER_ensures(gh_sub_ok == 1 && SLOT(H_OBJ(this_)) == TR_AW(H_OBJ(this_)) && TR_AW(H_OBJ(this_))->_next == 0 && TR_AW(H_OBJ(this_))->_resume_fn == tr_invoke)
#endif
;
#endif

/* ---- ready(): reads the shared state; an empty handle is not ready */
#ifdef CV_HAS_sf_ready
cv_i1 sf_ready(SF *this_)
__CPROVER_requires(MODEL_PRE && __CPROVER_is_fresh(this_, sizeof(*this_)))
REQ_H_SHAPE(this_, 1)
__CPROVER_requires(gh_cb0 == H_CB(this_))
__CPROVER_assigns()
__CPROVER_ensures(cv_exc_pending == 0 && __CPROVER_return_value == ((H_CB(this_) != 0 && IS_READY(H_OBJ(this_))) ? 1 : 0))
;
#endif

/* ---- value(): the object stored in the shared state (the same lvalue for every copy); errors as exceptions */
#ifdef CV_HAS_sf_value
cv_i32 *sf_value(SF *this_)
__CPROVER_requires(MODEL_PRE && __CPROVER_is_fresh(this_, sizeof(*this_)))
REQ_H_SHAPE(this_, 1)
__CPROVER_requires(H_CB(this_) != 0 ==> (STATE(H_OBJ(this_)) <= ST_VALUE || STATE(H_OBJ(this_)) == ST_EXCEPTION))   /* no value / value / stored exception (reference state: T& only) */
/* a stored exception designates a live exception object of the exception model: [16-byte header holding its type | object] */
__CPROVER_requires((H_CB(this_) != 0 && STATE(H_OBJ(this_)) == ST_EXCEPTION) ==> __CPROVER_is_fresh(gh_excblk, CV_EXC_HDR + 8))
__CPROVER_requires((H_CB(this_) != 0 && STATE(H_OBJ(this_)) == ST_EXCEPTION) ==> (PEQ(EXC_LV(H_OBJ(this_)), gh_excblk + CV_EXC_HDR) && gh_excti == *(void **)gh_excblk))
__CPROVER_requires(gh_cb0 == H_CB(this_) && gh_exc0 == ((H_CB(this_) != 0 && STATE(H_OBJ(this_)) == ST_EXCEPTION) ? 1 : 0))
__CPROVER_assigns(cv_exc_pending, cv_exc_obj, cv_exc_tinfo, GH_EP)
__CPROVER_ensures((H_CB(this_) != 0 && STATE(H_OBJ(this_)) == ST_VALUE) ==> (cv_exc_pending == 0 && __CPROVER_return_value == &VALUE(H_OBJ(this_))))
__CPROVER_ensures(H_CB(this_) == 0 ==> (cv_exc_pending == 1 && cv_exc_tinfo == (void *)TI_NOT_READY))
__CPROVER_ensures((H_CB(this_) != 0 && STATE(H_OBJ(this_)) == ST_NOT_VALUE) ==> (cv_exc_pending == 1 && cv_exc_tinfo == (IS_PENDING(H_OBJ(this_)) ? (void *)TI_NOT_READY : (void *)TI_CANCELED)))
/* stored exception: EVERY copy (they all designate this one state: copy_ctor / copy_assign) rethrows the SAME exception object - the one
 * stored in the shared state -, the stored exception_ptr stays in place, and the reference taken for the rethrow is given back */
__CPROVER_ensures(gh_exc0 ==> (cv_exc_pending == 1 && cv_exc_obj == (void *)(gh_excblk + CV_EXC_HDR) && cv_exc_tinfo == gh_excti))
__CPROVER_ensures(gh_exc0 ==> (STATE(H_OBJ(this_)) == ST_EXCEPTION && EXC_OBJ(H_OBJ(this_)) == (void *)(gh_excblk + CV_EXC_HDR)))
__CPROVER_ensures(gh_ep_addref - __CPROVER_old(gh_ep_addref) == gh_ep_release - __CPROVER_old(gh_ep_release) && gh_ep_addref - __CPROVER_old(gh_ep_addref) <= (gh_exc0 ? 1u : 0u))
;
#endif

/* ---- wait() / force_wait() / join() / sync() / force_sync(): pure forwarders to the member of the same name of the shared state's future<int>
 *      (abstract callees here that record which member was called on which object; their blocking behaviour - "blocks until the awaiter chain is
 *      resolved" - is the subject of C02: units co_sync / co_await_suspend, re-run under C17).  Clause from the property statement: "all copies observe
 *      the same single result": whichever copy blocks, it blocks on the ONE future of the shared state, and wait()/force_wait() hand out the value
 *      object stored there (the same lvalue value() returns for every copy).  join(): "For compatible API - same as wait()" (waits, result dropped).
 *      sync()/force_sync(): wait only, pick nothing (no exception either).  Documented precondition of all five: the handle is not empty. */
enum { FW_NONE, FW_WAIT, FW_FORCE_WAIT, FW_SYNC, FW_FORCE_SYNC };
unsigned gh_fw_calls; FUT *gh_fw_this; int gh_fw_kind;
#define GH_FW gh_fw_calls, gh_fw_this, gh_fw_kind
#define FW_RECORD(f, k) do { gh_fw_calls++; gh_fw_this = (f); gh_fw_kind = (k); } while (0)
#define FORWARDED(k) (cv_exc_pending == 0 && gh_fw_calls == 1 && gh_fw_this == FUT_OF(H_OBJ(this_)) && gh_fw_kind == (k))
#ifdef CV_HAS_fut_wait
cv_i32 *fut_wait(FUT *f) { FW_RECORD(f, FW_WAIT); return &FVALUE(f); }
#endif
#ifdef CV_HAS_fut_force_wait
cv_i32 *fut_force_wait(FUT *f) { FW_RECORD(f, FW_FORCE_WAIT); return &FVALUE(f); }
#endif
#ifdef CV_HAS_fut_sync
void fut_sync(FUT *f) { FW_RECORD(f, FW_SYNC); }
#endif
#ifdef CV_HAS_fut_force_sync
void fut_force_sync(FUT *f) { FW_RECORD(f, FW_FORCE_SYNC); }
#endif
#define FW_CONTRACT_PRE \
__CPROVER_requires(MODEL_PRE && gh_fw_calls == 0 && gh_fw_kind == FW_NONE && __CPROVER_is_fresh(this_, sizeof(*this_))) \
REQ_H_FRESH(this_, 1) \
__CPROVER_requires(PEQ(gh_cb0, H_CB(this_)) && PEQ(gh_obj0, H_OBJ(this_)) && gh_c0 == gh_cb0->strong) \
__CPROVER_assigns(GH_FW)
#define FW_UNCHANGED (H_CB(this_) == gh_cb0 && H_OBJ(this_) == gh_obj0 && gh_cb0->strong == gh_c0 && gh_allocs == __CPROVER_old(gh_allocs) && gh_frees == __CPROVER_old(gh_frees))   /* takes / drops no reference */
#ifdef CV_HAS_sf_wait
cv_i32 *sf_wait(SF *this_)
FW_CONTRACT_PRE
__CPROVER_ensures(FORWARDED(FW_WAIT) && __CPROVER_return_value == &VALUE(H_OBJ(this_)) && FW_UNCHANGED)
;
#endif
#ifdef CV_HAS_sf_force_wait
cv_i32 *sf_force_wait(SF *this_)
FW_CONTRACT_PRE
__CPROVER_ensures(FORWARDED(FW_FORCE_WAIT) && __CPROVER_return_value == &VALUE(H_OBJ(this_)) && FW_UNCHANGED)
;
#endif
#ifdef CV_HAS_sf_join
void sf_join(SF *this_)
FW_CONTRACT_PRE
__CPROVER_ensures(FORWARDED(FW_WAIT) && FW_UNCHANGED)                              /* "same as wait()": blocks on the shared state's future, exactly once */
;
#endif
#ifdef CV_HAS_sf_sync
void sf_sync(SF *this_)
FW_CONTRACT_PRE
__CPROVER_ensures(FORWARDED(FW_SYNC) && FW_UNCHANGED)
;
#endif
#ifdef CV_HAS_sf_force_sync
void sf_force_sync(SF *this_)
FW_CONTRACT_PRE
__CPROVER_ensures(FORWARDED(FW_FORCE_SYNC) && FW_UNCHANGED)
;
#endif
/* ---- operator Base&(): the shared state's future itself ("retrieved as reference, can't be copied"); takes no reference */
#ifdef CV_HAS_sf_as_future
FUT *sf_as_future(SF *this_)
FW_CONTRACT_PRE
__CPROVER_ensures(cv_exc_pending == 0 && gh_fw_calls == 0 && __CPROVER_return_value == FUT_OF(H_OBJ(this_)) && FW_UNCHANGED)
;
#endif

/* ---- static factories set_value(args...) / set_exception(e): "return resolved future".  A handle on a NEW shared state (one allocation) that is
 *      already resolved: ready, the tracer holds nothing (strong == 1: the state goes away with its last handle), and the result is the one handed in:
 *      set_value(v): value v; set_exception(e): the exception object e designates - the one every copy will rethrow (unit value) -, of which the state
 *      owns exactly ONE reference (the caller's, moved in, or a new one) that is released with the state (units dtor / copy_assign / tracer_resume). */
#ifdef CV_HAS_sf_set_exception
void sf_set_exception(SF *this_, EXCPTR *e)
__CPROVER_requires(MODEL_PRE && __CPROVER_is_fresh(this_, sizeof(*this_)) && __CPROVER_is_fresh(e, sizeof(*e)) && gh_sub_calls == 0 && gh_sub_ok == 0)
__CPROVER_requires(__CPROVER_is_fresh(gh_excblk, CV_EXC_HDR + 8) && PEQ(*(void **)e, gh_excblk + CV_EXC_HDR))          /* a live exception object of the exception model */
__CPROVER_assigns(__CPROVER_object_whole(this_), __CPROVER_object_whole(e), GH_MAKE, GH_SUB, GH_EP, GH_PDTOR, cv_exc_obj, cv_exc_tinfo)
__CPROVER_ensures(cv_exc_pending == 0)
__CPROVER_ensures(gh_allocs == __CPROVER_old(gh_allocs) + 1 && gh_sp_made == __CPROVER_old(gh_sp_made) + 1 && gh_frees == __CPROVER_old(gh_frees))
__CPROVER_ensures(H_LIVE(this_))
__CPROVER_ensures(CREATED(0, TRC(H_CB(this_)), THIS_ALIVE_WITH) && gh_sub_ok == 0)                                /* resolved: the handle only, tracer not charged */
__CPROVER_ensures(IS_READY(H_OBJ(this_)) && TR_EMPTY(H_OBJ(this_)))
__CPROVER_ensures(STATE(H_OBJ(this_)) == ST_EXCEPTION && EXC_OBJ(H_OBJ(this_)) == (void *)(gh_excblk + CV_EXC_HDR))   /* THE exception handed in */
__CPROVER_ensures((gh_ep_addref - __CPROVER_old(gh_ep_addref)) + (*(void **)e == 0 ? 1u : 0u) == (gh_ep_release - __CPROVER_old(gh_ep_release)) + 1u)   /* the state owns exactly one reference */
;
#endif
#ifdef CV_HAS_sf_set_value
void sf_set_value(SF *this_, cv_i32 *v)
__CPROVER_requires(MODEL_PRE && __CPROVER_is_fresh(this_, sizeof(*this_)) && __CPROVER_is_fresh(v, sizeof(*v)) && gh_sub_calls == 0 && gh_sub_ok == 0)
__CPROVER_assigns(__CPROVER_object_whole(this_), GH_MAKE, GH_SUB, GH_EP, GH_PDTOR, cv_exc_obj, cv_exc_tinfo)
__CPROVER_ensures(cv_exc_pending == 0 && *v == __CPROVER_old(*v))
__CPROVER_ensures(gh_allocs == __CPROVER_old(gh_allocs) + 1 && gh_sp_made == __CPROVER_old(gh_sp_made) + 1 && gh_frees == __CPROVER_old(gh_frees))
__CPROVER_ensures(H_LIVE(this_))
__CPROVER_ensures(CREATED(0, TRC(H_CB(this_)), THIS_ALIVE_WITH) && gh_sub_ok == 0)
__CPROVER_ensures(IS_READY(H_OBJ(this_)) && TR_EMPTY(H_OBJ(this_)))
__CPROVER_ensures(STATE(H_OBJ(this_)) == ST_VALUE && VALUE(H_OBJ(this_)) == *v)
__CPROVER_ensures(gh_ep_addref == __CPROVER_old(gh_ep_addref) && gh_ep_release == __CPROVER_old(gh_ep_release))
;
#endif

/* ---- operator co_await(): an awaiter on the shared state's future; takes no reference */
#ifdef CV_HAS_sf_co_await
void sf_co_await(COAW *ret, SF *this_)
__CPROVER_requires(MODEL_PRE && __CPROVER_is_fresh(ret, sizeof(*ret)) && __CPROVER_is_fresh(this_, sizeof(*this_)))
REQ_H_FRESH(this_, 1)
__CPROVER_assigns(__CPROVER_object_whole(ret))
__CPROVER_ensures(cv_exc_pending == 0 && ret->_owner == FUT_OF(H_OBJ(this_)) && ret->base_awaiter._next == 0)
;
#endif
