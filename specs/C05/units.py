# C05 - Coroutine-mode scheduling: run-to-suspension, FIFO ready queue, full drain
CHT = 'std::__n4861::coroutine_handle<void>'
TYPES = {'CH': CHT, 'DQCH': 'std::deque<%s, std::allocator<%s > >' % (CHT, CHT), 'QIMPL_T': 'cocls::coro_queue::queue_impl'}
GLOBALS = {'QINST': '_ZN5cocls10coro_queue8instanceE', 'QIMPL': '_ZN5cocls10coro_queue10queue_impl8instanceE', 'TLS_GUARD': '__tls_guard',
           'NOOP_FRAME': '_ZNSt7__n486116coroutine_handleINS_22noop_coroutine_promiseEE5_S_frE'}
BOUNDARY = [r'^std::deque<std::__n4861::coroutine_handle<void>', r'^std::__n4861::coroutine_handle<void>::resume\(\) const$']
LIBS = ['rt_core.c', 'rt_atomic_seq.c', 'model_coro.c']
def unit(name, alias, rx, loop=False, extra_types=None, extra_names=None, extra_boundary=(), **kw):
    t = dict(TYPES); t.update(extra_types or {})
    nm = {alias: rx}; nm.update(extra_names or {})
    d = dict(name=name, driver='c05_queue.cpp', roots=[rx], names=nm, types=t, globals=GLOBALS, boundary=BOUNDARY + list(extra_boundary), lib=LIBS,
             spec=['C05/q_spec.h', 'C05/h_q.c'], harness='h_' + name, enforce=alias, loop_contracts=loop,
             defines=['CV_QUEUE_INSTANCE_PTR QINST'], under_contract=[rx.strip('^$').replace('\\', '')])
    d.update(kw)
    return d
FLUSH_RX = r'^cocls::coro_queue::queue_impl::flush_queue\(\)$'
WITH_FLUSH = dict(extra_names={'qi_flush': FLUSH_RX}, replace=['qi_flush'], extra_boundary=[FLUSH_RX])
SN_RX = r'^cocls::suspend_point<void>::suspend_now\(\)$'
SN_LAMBDA_RX = r'^cocls::suspend_point<void>::suspend_now\(\)::\{lambda\(\)#1\}::operator\(\)\(\) const$'
SPT = {'SP': 'cocls::suspend_point<void>', 'EXT': 'cocls::suspend_point<void>::ExtData'}
SPQ = dict(extra_types=SPT, extra_names={'qi_flush': FLUSH_RX, 'sp_suspend_now_lambda': SN_LAMBDA_RX}, replace=['qi_flush'], extra_boundary=[FLUSH_RX],
           spec=['C06/sp_spec.h', 'C05/q_spec.h', 'C05/sp_q_spec.h', 'C05/h_q.c'])
AS_RX = r'^cocls::suspend_point<void>::await_suspend\(std::__n4861::coroutine_handle<void>\)$'
UNITS = [
    unit('is_active', 'cq_is_active', r'^cocls::coro_queue::is_active\(\)$'),
    unit('can_block', 'cq_can_block', r'^cocls::coro_queue::can_block\(\)$'),
    unit('push', 'qi_push', r'^cocls::coro_queue::queue_impl::push\(std::__n4861::coroutine_handle<void>\)$'),
    unit('flush', 'qi_flush', FLUSH_RX, loop=True),
    unit('resume', 'cq_resume', r'^cocls::coro_queue::resume\(std::__n4861::coroutine_handle<void>\)$', **WITH_FLUSH),
    unit('install_resume', 'cq_install_resume', r'^cocls::coro_queue::install_queue_and_resume\(std::__n4861::coroutine_handle<void>\)$', replay=dict(src='c05_nested_queue.cpp', flags=['-O1', '-g']), **WITH_FLUSH),
    unit('swap', 'cq_swap', r'^cocls::coro_queue::swap_coroutine\(std::__n4861::coroutine_handle<void>\)$'),
    unit('pause', 'pause_suspend', r'^cocls::pause::await_suspend\(std::__n4861::coroutine_handle<void>\)$', extra_types={'PAUSE_T': 'cocls::pause'}),
    unit('next', 'cq_next', r'^cocls::coro_queue::resume_handle_next\(\)$'),
    unit('ia_ready', 'ia_ready', r'^cocls::coro_queue::initial_awaiter::await_ready\(\)$'),
    unit('suspend_now', 'sp_suspend_now', SN_RX, loop=True, **SPQ),
    unit('await_suspend', 'sp_await_suspend', AS_RX, loop=True, extra_types=SPT, extra_boundary=[r'install_queue_and_call<cocls::suspend_point<void>::await_suspend'],
         spec=SPQ['spec'], defines=['CV_QUEUE_INSTANCE_PTR QINST', 'SN_CF AS_CFP'], timeout=600,
         replay=dict(src='c06_await_own_last.cpp', flags=['-O1', '-g']),
         note='coroutine mode (a ready queue is installed); the normal-mode branch re-enters await_suspend under a freshly installed queue and is not covered by this unit'),
    # bounded siblings (no loop contracts, unwinding): decide the same contracts on points of <= 5 handles when a loop was rewritten
    unit('suspend_now_bounded', 'sp_suspend_now', SN_RX, loop=False, **dict(SPQ, harness='h_suspend_now', defines=['CV_QUEUE_INSTANCE_PTR QINST', 'CV_BOUNDED_FALLBACK 1', 'CV_BOUND_N 5', 'CV_COUNT_X 1'],
         unwind=24, kind='bounded', bounded='suspend points of <= 5 handles (inline and heap representation), loops unwound instead of loop contracts', timeout=900, object_bits=9)),
    unit('await_suspend_bounded', 'sp_await_suspend', AS_RX, loop=False, extra_types=SPT, extra_boundary=[r'install_queue_and_call<cocls::suspend_point<void>::await_suspend'],
         spec=SPQ['spec'], harness='h_await_suspend', defines=['CV_QUEUE_INSTANCE_PTR QINST', 'SN_CF AS_CFP', 'CV_BOUNDED_FALLBACK 1', 'CV_BOUND_N 5', 'CV_COUNT_X 1'],
         unwind=8, kind='bounded', bounded='suspend points of <= 5 handles (inline and heap representation), loops unwound instead of loop contracts', timeout=900, object_bits=9),
    dict(unit('await_suspend', 'sp_await_suspend', AS_RX, loop=False, extra_types=SPT, extra_names={'qi_flush': FLUSH_RX}, replace=['qi_flush'], extra_boundary=[FLUSH_RX],
         spec=SPQ['spec'], harness='h_await_suspend_normal', defines=['CV_QUEUE_INSTANCE_PTR QINST', 'SN_CF AS_CFP', 'CV_BOUNDED_FALLBACK 1', 'CV_BOUND_N 5', 'CV_AS_NORMAL_BOUNDED 1'],
         unwind=24, kind='bounded', bounded='co_await on a suspend point of <= 3 inline handles entered with NO queue installed (normal-mode branch incl. the nested re-entry)', timeout=900, object_bits=9),
         name='await_suspend_normal_bounded', enforce=None),
    unit('clear', 'sp_clear', r'^cocls::suspend_point<void>::clear\(\)$', extra_types=SPT, extra_names={'sp_suspend_now': SN_RX}, extra_boundary=[SN_RX], spec=SPQ['spec']),
    unit('dtor', 'sp_dtor', r'^cocls::suspend_point<void>::~suspend_point\(\)$', extra_types=SPT, extra_names={'sp_suspend_now': SN_RX}, extra_boundary=[SN_RX], spec=SPQ['spec']),
    unit('ia_suspend', 'ia_suspend', r'^cocls::coro_queue::initial_awaiter::await_suspend\(std::__n4861::coroutine_handle<void>\)$', **WITH_FLUSH),
]
# ---- coro_queue::create_suspend_point(Fn&&) for a void- and an int-returning functor (csp_spec.h; refined queue model lib/model_coro_back.c)
import os as _os5b
CSP_LIBS = ['rt_core.c', 'rt_atomic_seq.c', 'model_coro_back.c']
MERGE_RX5 = r'^cocls::suspend_point<void>::operator<<\(cocls::suspend_point<void>&&\)$'
MOVE_RX5 = r'^cocls::suspend_point<void>::suspend_point\(cocls::suspend_point<void>&&\)$'
DTOR_RX5 = r'^cocls::suspend_point<void>::~suspend_point\(\)$'
CSP_STRICT = ['C05_CREATE_SP_ORDER_STRICT 1'] if _os5b.environ.get('C05_CREATE_SP_ORDER_STRICT') else []   # opt-in order clause (observation C05-OBS-create-sp-reverses)
def csp_units(tag, fnt, rett, extra_def):
    rx = r'^auto cocls::coro_queue::create_suspend_point<%s>\(%s&&\)$' % (fnt, fnt)
    iq = r'^auto cocls::coro_queue::install_queue_and_call<cocls::coro_queue::create_suspend_point<%s>' % fnt
    lam = r'^cocls::coro_queue::create_suspend_point<%s>\(%s&&\)::\{lambda\(\)#1\}::operator\(\)\(\) const$' % (fnt, fnt)
    types = dict(TYPES, SP='cocls::suspend_point<void>', EXT='cocls::suspend_point<void>::ExtData', SPI='cocls::suspend_point<int>', FNV='c05_FnV', FNI='c05_FnI')
    base = dict(driver='c05_queue.cpp', types=types, globals=GLOBALS, lib=CSP_LIBS, ptypes={'CSP_LAM': iq + '#1'},
                spec=['C06/sp_spec.h', 'C05/q_spec.h', 'C05/csp_spec.h'], cbmc_flags=['--sat-solver', 'cadical'])
    common_def = ['CV_QUEUE_INSTANCE_PTR QINST', 'CV_COUNT_X 1', 'CSP_RET ' + rett, 'CSP_FN ' + ('FNV' if fnt == 'c05_FnV' else 'FNI')] + extra_def + CSP_STRICT
    main = dict(base, name='create_sp_' + tag, roots=[rx], names={'csp_' + tag: rx}, names_opt={'sp_merge': MERGE_RX5, 'sp_move_ctor': MOVE_RX5, 'sp_dtor': DTOR_RX5, 'iq_csp_stub': iq, 'dq_index': r'^std::deque<std::__n4861::coroutine_handle<void>, std::allocator<std::__n4861::coroutine_handle<void> > >::operator\[\]\(unsigned long\)$'},
                replay=dict(src='c05_create_sp_order.cpp', mode=('discard' if CSP_STRICT else 'once'), flags=['-O1', '-g']),
                boundary=BOUNDARY + [MERGE_RX5, MOVE_RX5, DTOR_RX5, iq], harness='h_create_sp_' + tag, enforce='csp_' + tag, loop_contracts=True,
                defines=common_def, timeout=600, under_contract=['cocls::coro_queue::create_suspend_point<%s>(%s&&)' % (fnt, fnt)],
                note='coroutine mode: functor once, its coroutines collected exactly once (multiset), none run, older entries untouched; normal mode: one forward through install_queue_and_call')
    bounded = dict(main, name='create_sp_%s_bounded' % tag, loop_contracts=False, defines=common_def + ['CV_BOUNDED_FALLBACK 1', 'CV_ENV_MAX_READY 3'], unwind=6, kind='bounded',
                   bounded='the functor makes <= 3 coroutines ready, <= 2 older entries queued; loop unwound instead of the loop contract', timeout=900)
    normal = dict(base, name='create_sp_%s_normal' % tag, roots=[iq], names={'iq_csp': iq, 'qi_flush': FLUSH_RX}, names_opt={'csp_nested_stub': rx, 'sp_dtor': DTOR_RX5},
                  boundary=BOUNDARY + [rx, FLUSH_RX, DTOR_RX5], lib=LIBS, harness='h_create_sp_normal', enforce='iq_csp', replace=['qi_flush'], loop_contracts=False,
                  defines=common_def, timeout=300,
                  under_contract=['cocls::coro_queue::install_queue_and_call<create_suspend_point<%s>::{lambda()#1}>' % fnt, 'cocls::coro_queue::create_suspend_point<%s>(%s&&)::{lambda()#1}::operator()() const' % (fnt, fnt)],
                  note='no queue installed: the thread queue is installed, create_suspend_point re-entered exactly once under it, drained, uninstalled')
    return [main, bounded, normal]
UNITS += csp_units('void', 'c05_FnV', 'SP', []) + csp_units('int', 'c05_FnI', 'SPI', ['CSP_INT 1'])

# "does not start executing until the running coroutine suspends or finishes" also binds the end of an async coroutine: its final
# awaiter hands control to a released waiter of ITS future (symmetric transfer) or back to the resumer - never to the ready queue.
# That clause is in the contract of async_promise::final_awaiter::await_suspend (C04), re-run here.
import importlib.util as _ilu5, os as _os5, copy as _copy5
def _c04(names):
    s = _ilu5.spec_from_file_location('c05_c04', _os5.path.join(_os5.path.dirname(_os5.path.dirname(_os5.path.abspath(__file__))), 'C04', 'units.py')); m = _ilu5.module_from_spec(s); s.loader.exec_module(m)
    out = []
    for x in m.UNITS:
        if x['name'] in names:
            v = _copy5.deepcopy(x); v['name'] = 'C04_' + x['name']; out.append(v)
    return out
UNITS += _c04(['fa_await_suspend'])

# async<int>::start() in coroutine mode (nested activation of the child) - see start_spec.h; driver of C04
START_LAM_RX = r'^auto cocls::async<int>::start\(\)::\{lambda\(auto:1\)#1\}::operator\(\)<cocls::promise<int> >\(cocls::promise<int>\) const$'
UNITS.append(dict(name='start_nested', driver='c04_async.cpp', roots=[START_LAM_RX], names={'as_start_lambda': START_LAM_RX},
    names_opt={'as_start_promise_stub': r'^cocls::async<int>::start_promise\(cocls::promise<int>&\)$', 'cq_install_resume_stub': r'^cocls::coro_queue::install_queue_and_resume\('},
    types=dict(TYPES, PROM='cocls::promise<int>'), ptypes={'START_LAM': START_LAM_RX + '#0'}, globals=GLOBALS,
    boundary=BOUNDARY + [r'^cocls::async<int>::start_promise\(cocls::promise<int>&\)$', r'^cocls::coro_queue::install_queue_and_resume\('], lib=LIBS,
    spec=['C05/q_spec.h', 'C05/start_spec.h'], harness='h_start_lambda', enforce='as_start_lambda', defines=['CV_QUEUE_INSTANCE_PTR QINST'],
    under_contract=['cocls::async<int>::start()::{lambda(auto:1)#1}::operator()(cocls::promise<int>) const'],
    replay=dict(src='c05_start_nested.cpp', flags=['-O1', '-g'])))

META = dict(
    level='proof',
    level_text='Every scheduling primitive of coro_queue.h (resume, install_queue_and_resume, flush_queue, push, swap_coroutine, pause, resume_handle_next, can_block, initial_awaiter) and the members of suspend_point that hand coroutines to the scheduler (suspend_now, clear, destructor, await_suspend in coroutine mode) are verified against contracts over an abstract FIFO ready queue, for every queue length and content, every suspend-point size < 2^28 in both representations, with the environment (the resumed coroutine) free to append to and dequeue from the queue at every resume. Run-to-suspension = "in coroutine mode nothing is resumed and the handle lands at the tail"; FIFO/each-once = "the i-th handle taken from the queue is the i-th handle resumed, counts equal"; full drain = "queue empty and mode restored on return to normal code"; pause = one in at the tail, one out from the head. coro_queue::create_suspend_point(Fn&&) (void- and int-returning functor; units create_sp_void / create_sp_int with a loop contract on the collecting loop + bounded siblings, create_sp_*_normal for the inactive-queue branch): the functor runs exactly once inside an activation; every coroutine it made ready is in the returned suspend point exactly as often as it was queued (multiset equality over an arbitrary handle value gh_X, sizes equal); nothing is resumed, dequeued from the front or discarded inside; the entries queued before the call keep their positions and the queue length is restored; int functor: the attached value is the functor result; with no queue installed the call is forwarded exactly once through install_queue_and_call, which installs the thread queue, re-enters create_suspend_point exactly once under it, drains and uninstalls.',
    level_note='Trusted: FIFO model of std::deque<coroutine_handle<>> (assumed contract on the dependency), the resume primitive with its environment step, clang front end, ir2c. thread_local queue = one global (per-thread by definition). create_suspend_point: suspend_point<void>::operator<< / move constructor / destructor are abstract callees there (ghost sequence attached to the object identity; their own contracts are C06 units merge / move_ctor / dtor), the functor is the environment (appends any number < 2^20 of handles, starts none, may throw at its end); the ORDER clause (C05_CREATE_SP_ORDER_STRICT, marker C05-OBS-create-sp-reverses) is opt-in and FAILS on the current code: the collecting loop pops from the back, the returned point carries the coroutines in reverse of the order they were made ready (native: replay/c05_create_sp_order.cpp - discard: CBA, co_await: A,C,B) - an observation left to the coordinator, not counted as a finding; a candidate repair (forward scan with operator[], then pop) is specs/C05/fix_create_sp_order.diff (not applied): with it the opt-in clause is discharged by create_sp_void / create_sp_int (alternative loop contracts CSP_SCAN_LOOP0/1, selected when the unit contains std::deque::operator[]) and by the bounded siblings, and the native replay prints ABC (co_await still starts with the LAST stored handle = C, then A, B: the documented symmetric transfer of suspend_point::await_suspend to the last handle). The functor may throw after having made coroutines ready (THROW clause: they stay queued, the exception reaches the caller). Not covered: the normal-mode branch of suspend_point::await_suspend beyond the bounded unit (re-enters itself under a fresh queue), whole-program composition over arbitrary coroutine programs (the per-function contracts are the inductive steps; no history lemma is machine-checked yet).',
    technique='CBMC code contracts + loop contracts enforced via goto-instrument --dfcc on the C translation of clang IR of coro_queue.h / suspend_point.h; std::deque and coroutine resumption as assumed-contract primitives with a ghost-index FIFO model',
    trusted_base=['assumed contract: std::deque<coroutine_handle<>> is an unbounded FIFO (lib/model_coro.c)', 'primitive: coroutine_handle<>::resume() logs the handle and lets the environment append to / dequeue from the ready queue (lib/model_coro.c)', 'create_suspend_point units: refinement lib/model_coro_back.c of the FIFO model (back()/pop_back() consistent with a multiset count of an arbitrary handle value over the segment queued by the functor); environment functor cv_env_makes_ready (appends only); abstract suspend_point operator<< / move constructor / destructor (specs/C05/csp_spec.h)'],
    assumptions=['ghost counters are mathematical (never wrap)', 'handles stored in a suspend point are non-null (precondition, checked position-wise)'],
    explanation='see level_text')
