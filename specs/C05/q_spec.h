/* C05 - contracts on cocls::coro_queue, pause and the queue-related members of suspend_point (coro_queue.h, suspend_point.h).
 * Ready queue = assumed FIFO model of std::deque<coroutine_handle<>> (lib/model_coro.c): absolute positions dq_head..dq_tail,
 * content tracked at the arbitrary position gh_DK; direct resumptions logged (gh_n_resume, tracked index gh_RK -> gh_res_trk);
 * direct dequeues logged (dq_npop, tracked index gh_PK -> dq_pop_trk).  A resumed coroutine may append to the queue and may
 * dequeue from its front (pause / symmetric transfer) - cv_env_coroutine_runs(). */
#define QI (*QINST)                                   /* thread's coro_queue::instance (NULL = normal mode) */
#define Q_PRE (cv_exc_pending == 0 && *TLS_GUARD == 1 && DQ_INV && (QI == 0 || QI == QIMPL))
#define MODEL_ASSIGNS_BASE dq_head, dq_tail, dq_trk, dq_npop, dq_pop_trk, dq_npush, gh_n_resume, gh_res_trk, dq_front_slot, dq_back_slot, gh_allocs
#ifdef CV_COUNT_X
#define MODEL_ASSIGNS MODEL_ASSIGNS_BASE, dq_cntX, gh_rescntX      /* direct pushes / resumptions of the arbitrary handle value gh_X */
#else
#define MODEL_ASSIGNS MODEL_ASSIGNS_BASE
#endif
#define NOOPH ((cv_i8 *)NOOP_FRAME)

#ifdef CV_HAS_cq_is_active
cv_i1 cq_is_active(void)
__CPROVER_requires(Q_PRE) __CPROVER_assigns()
__CPROVER_ensures(__CPROVER_return_value == (QI != 0 ? 1 : 0))
;
#endif

#ifdef CV_HAS_cq_can_block
cv_i1 cq_can_block(void)
__CPROVER_requires(Q_PRE) __CPROVER_assigns(*TLS_GUARD)
__CPROVER_ensures(__CPROVER_return_value == ((QI == 0 || dq_head == dq_tail) ? 1 : 0))
;
#endif

/* queue_impl::push(h): append at the tail */
#ifdef CV_HAS_qi_push
void qi_push(QIMPL_T *this_, cv_i8 *h)
__CPROVER_requires(Q_PRE && this_ == QIMPL && h != 0)
__CPROVER_assigns(MODEL_ASSIGNS)
__CPROVER_ensures(cv_exc_pending == 0 && dq_tail == __CPROVER_old(dq_tail) + 1 && dq_head == __CPROVER_old(dq_head))
__CPROVER_ensures(gh_DK == __CPROVER_old(dq_tail) ==> dq_trk == h)
__CPROVER_ensures(gh_DK < __CPROVER_old(dq_tail) ==> dq_trk == __CPROVER_old(dq_trk))
__CPROVER_ensures(gh_n_resume == __CPROVER_old(gh_n_resume))
;
#endif

/* queue_impl::flush_queue(): drains the queue completely; every handle taken from the queue is resumed exactly once, in queue order */
#ifdef CV_HAS_qi_flush
#define FLUSH_INV(n_res0, n_pop0) (DQ_INV && cv_exc_pending == 0 && *TLS_GUARD == 1 && \
    gh_n_resume - (n_res0) == dq_npop - (n_pop0) && dq_npop >= (n_pop0) && gh_n_resume >= (n_res0) && \
    ((gh_PK >= (n_pop0) && gh_PK < dq_npop && gh_RK - (n_res0) == gh_PK - (n_pop0)) ==> gh_res_trk == dq_pop_trk))
#define CV_LOOP_qi_flush_0 \
  __CPROVER_assigns(CV_LOOP_LOCALS_qi_flush_0, MODEL_ASSIGNS) \
  __CPROVER_loop_invariant(FLUSH_INV(__CPROVER_loop_entry(gh_n_resume), __CPROVER_loop_entry(dq_npop))) \
  __CPROVER_loop_invariant(gh_RK < __CPROVER_loop_entry(gh_n_resume) ==> gh_res_trk == __CPROVER_loop_entry(gh_res_trk)) \
  __CPROVER_loop_invariant(dq_npush == __CPROVER_loop_entry(dq_npush) && gh_allocs == __CPROVER_loop_entry(gh_allocs))
void qi_flush(QIMPL_T *this_)
__CPROVER_requires(Q_PRE && this_ == QIMPL)
__CPROVER_assigns(MODEL_ASSIGNS_BASE)      /* as an abstract callee the drain does not touch the caller's DIRECT push/resume counters of gh_X */
__CPROVER_ensures(dq_head == dq_tail)                                                         /* full drain */
__CPROVER_ensures(FLUSH_INV(__CPROVER_old(gh_n_resume), __CPROVER_old(dq_npop)))
__CPROVER_ensures(QI == __CPROVER_old(QI))
__CPROVER_ensures(gh_RK < __CPROVER_old(gh_n_resume) ==> gh_res_trk == __CPROVER_old(gh_res_trk))   /* earlier log entries are history */
__CPROVER_ensures(dq_npush == __CPROVER_old(dq_npush) && gh_allocs == __CPROVER_old(gh_allocs))   /* the drain itself queues nothing and allocates nothing (C20) */
;
#endif

/* coro_queue::resume(h) */
#ifdef CV_HAS_cq_resume
void cq_resume(cv_i8 *h)
__CPROVER_requires(Q_PRE && h != 0)
__CPROVER_assigns(MODEL_ASSIGNS, QI, *TLS_GUARD)
__CPROVER_ensures(cv_exc_pending == 0 && QI == __CPROVER_old(QI))
/* coroutine mode: appended at the tail, nothing starts running (run-to-suspension, no pre-emption) */
__CPROVER_ensures(__CPROVER_old(QI) != 0 ==> (dq_tail == __CPROVER_old(dq_tail) + 1 && dq_head == __CPROVER_old(dq_head) && gh_n_resume == __CPROVER_old(gh_n_resume)))
__CPROVER_ensures((__CPROVER_old(QI) != 0 && gh_DK == __CPROVER_old(dq_tail)) ==> dq_trk == h)
__CPROVER_ensures((__CPROVER_old(QI) != 0 && gh_DK < __CPROVER_old(dq_tail)) ==> dq_trk == __CPROVER_old(dq_trk))
/* normal mode: h runs first, then everything that became ready; no ready coroutine is left un-run; mode restored */
__CPROVER_ensures(__CPROVER_old(QI) == 0 ==> (dq_head == dq_tail && gh_n_resume >= __CPROVER_old(gh_n_resume) + 1))
__CPROVER_ensures((__CPROVER_old(QI) == 0 && gh_RK == __CPROVER_old(gh_n_resume)) ==> gh_res_trk == h)
__CPROVER_ensures(__CPROVER_old(QI) == 0 ==> dq_npush == __CPROVER_old(dq_npush))        /* ... and is not queued as well (it would run twice) */
#ifdef CV_CHECK_C20
__CPROVER_ensures(__CPROVER_old(QI) != 0 ==> gh_allocs == __CPROVER_old(gh_allocs))   /* C20-FINDING making a coroutine ready in coroutine mode must not allocate (the ready queue is a std::deque, which allocates a node every 64 pushes) */
#endif
;
#endif

/* coro_queue::install_queue_and_resume(h): always installs (nested) queue, runs h, drains, restores */
#ifdef CV_HAS_cq_install_resume
void cq_install_resume(cv_i8 *h)
__CPROVER_requires(Q_PRE && h != 0)
__CPROVER_assigns(MODEL_ASSIGNS, QI, *TLS_GUARD)
__CPROVER_ensures(cv_exc_pending == 0 && QI == __CPROVER_old(QI))
__CPROVER_ensures(gh_n_resume >= __CPROVER_old(gh_n_resume) + 1)
__CPROVER_ensures(gh_RK == __CPROVER_old(gh_n_resume) ==> gh_res_trk == h)
/* entered from normal code: everything that became ready has run on return; h itself is not queued as well */
__CPROVER_ensures(__CPROVER_old(QI) == 0 ==> (dq_head == dq_tail && dq_npush == __CPROVER_old(dq_npush)))
/* entered from a running coroutine (nested activation; coro_queue.h: "a new nested queue is installed ... Coroutines enqueued to previous
 * queue are not scheduled until the nested queue is flushed"): what the CALLER has made ready must not start while the caller is still
 * running (C05 clause 1) - no entry that was queued at the call is dequeued inside.  Stated over the one per-thread deque of the model. */
__CPROVER_ensures((__CPROVER_old(QI) != 0 && __CPROVER_old(dq_head) < __CPROVER_old(dq_tail)) ==> dq_head == __CPROVER_old(dq_head))   /* C05-FINDING-nested-queue */
;
#endif

/* swap_coroutine(h) / pause::await_suspend(h): one in at the tail, one out from the head (strict round robin) */
#define SWAP_POST(h) \
  __CPROVER_ensures(cv_exc_pending == 0 && QI == __CPROVER_old(QI) && gh_n_resume == __CPROVER_old(gh_n_resume)) \
  __CPROVER_ensures(__CPROVER_old(QI) != 0 ==> (dq_tail == __CPROVER_old(dq_tail) + 1 && dq_head == __CPROVER_old(dq_head) + 1)) \
  __CPROVER_ensures((__CPROVER_old(QI) != 0 && __CPROVER_old(dq_head) == __CPROVER_old(dq_tail) && gh_DK == __CPROVER_old(dq_tail)) ==> __CPROVER_return_value == h)              /* empty queue: the pauser continues */ \
  __CPROVER_ensures((__CPROVER_old(QI) != 0 && __CPROVER_old(dq_head) < __CPROVER_old(dq_tail) && gh_DK == __CPROVER_old(dq_head)) ==> __CPROVER_return_value == __CPROVER_old(dq_trk))  /* otherwise the oldest queued one */ \
  __CPROVER_ensures((__CPROVER_old(QI) != 0 && gh_DK == __CPROVER_old(dq_tail) && __CPROVER_old(dq_head) < __CPROVER_old(dq_tail)) ==> dq_trk == h)   /* and the pauser is last */
#ifdef CV_HAS_cq_swap
cv_i8 *cq_swap(cv_i8 *h)
__CPROVER_requires(Q_PRE && h != 0)
__CPROVER_assigns(MODEL_ASSIGNS, *TLS_GUARD)
SWAP_POST(h)
__CPROVER_ensures(__CPROVER_old(QI) == 0 ==> (__CPROVER_return_value == h && dq_tail == __CPROVER_old(dq_tail) && dq_head == __CPROVER_old(dq_head)))
;
#endif
#ifdef CV_HAS_pause_suspend
cv_i8 *pause_suspend(PAUSE_T *this_, cv_i8 *h)
__CPROVER_requires(Q_PRE && h != 0 && QI != 0)        /* co_await pause() is only meaningful inside a coroutine */
__CPROVER_assigns(MODEL_ASSIGNS, *TLS_GUARD)
SWAP_POST(h)
;
#endif

/* resume_handle_next(): oldest queued handle, removed; noop coroutine when none */
#ifdef CV_HAS_cq_next
cv_i8 *cq_next(void)
__CPROVER_requires(Q_PRE)
__CPROVER_assigns(MODEL_ASSIGNS, *TLS_GUARD)
__CPROVER_ensures(cv_exc_pending == 0 && gh_n_resume == __CPROVER_old(gh_n_resume) && dq_tail == __CPROVER_old(dq_tail))
__CPROVER_ensures((__CPROVER_old(QI) != 0 && __CPROVER_old(dq_head) < __CPROVER_old(dq_tail)) ==> dq_head == __CPROVER_old(dq_head) + 1)
__CPROVER_ensures((__CPROVER_old(QI) != 0 && __CPROVER_old(dq_head) < __CPROVER_old(dq_tail) && gh_DK == __CPROVER_old(dq_head)) ==> __CPROVER_return_value == __CPROVER_old(dq_trk))
__CPROVER_ensures((__CPROVER_old(QI) == 0 || __CPROVER_old(dq_head) == __CPROVER_old(dq_tail)) ==> (__CPROVER_return_value == NOOPH && dq_head == __CPROVER_old(dq_head)))
;
#endif

/* initial_awaiter: no temporary suspension when a queue is active; otherwise install + resume */
#ifdef CV_HAS_ia_ready
cv_i1 ia_ready(void)
__CPROVER_requires(Q_PRE) __CPROVER_assigns()
__CPROVER_ensures(__CPROVER_return_value == (QI != 0 ? 1 : 0))
;
#endif
#ifdef CV_HAS_ia_suspend
void ia_suspend(cv_i8 *h)
__CPROVER_requires(Q_PRE && h != 0)
__CPROVER_assigns(MODEL_ASSIGNS, QI, *TLS_GUARD)
__CPROVER_ensures(cv_exc_pending == 0 && QI == __CPROVER_old(QI))
__CPROVER_ensures(dq_head == dq_tail && gh_n_resume >= __CPROVER_old(gh_n_resume) + 1)
__CPROVER_ensures(gh_RK == __CPROVER_old(gh_n_resume) ==> gh_res_trk == h)
__CPROVER_ensures(dq_npush == __CPROVER_old(dq_npush))
;
#endif
