/* C05 - coro_queue::create_suspend_point(Fn&&) (suspend_point.h bottom): runs the functor, which makes coroutines ready (they land on the
 * thread's ready queue), and moves exactly those coroutines from the queue into the returned suspend point.
 *
 * Clauses, from the property statement (a coroutine the running code makes ready "does not start executing until the running coroutine
 * suspends or finishes"; queued coroutines are resumed "each exactly once, in the order they were queued"):
 *   (ONCE)    every coroutine the functor made ready is in the returned suspend point exactly as often as it was queued: for the arbitrary
 *             handle value gh_X, occurrences among the entries queued by fn == occurrences in the suspend point; sizes equal
 *   (NORUN)   none of them (and nothing else) runs inside: no resumption, no dequeue from the front, the loaded point is not discarded inside
 *   (KEEP)    entries queued BEFORE the call stay queued, in their order; queue size restored
 *   (ORDER)   the suspend point holds them in the order they were queued (discarding/awaiting it then resumes them in that order)
 *             -> opt-in, C05_CREATE_SP_ORDER_STRICT, marker C05-OBS-create-sp-reverses
 *   (FORWARD) no queue installed: forwards through install_queue_and_call exactly once (the functor is not run outside an activation)
 *   (THROW)   the functor throws (after having made coroutines ready): the exception reaches the caller, what was made ready stays queued
 *   (VALUE)   int functor: the value attached to the suspend point is the functor's result; the functor runs exactly once
 *
 * suspend_point<void>::operator<<, its move constructor and destructor are ABSTRACT callees here (verified in C06: merge / move_ctor / dtor
 * units): the sequence carried by the point under construction is kept in ghosts (gh_ss_*), attached to the object identity. */
#define CSP_MODEL_ASSIGNS MODEL_ASSIGNS, MODEL_BACK_ASSIGNS
/* ---- abstract suspend point under construction */
SP *gh_ss_obj;            /* the object that carries the collected sequence (0 = none yet) */
cv_i64 gh_ss_n;           /* its length */
cv_i64 gh_ss_cntX;        /* occurrences of gh_X in it */
cv_i8 *gh_ss_trk;         /* its element at the arbitrary position gh_G */
cv_i64 gh_ss_foreign;     /* merges into some OTHER object / merges of a non-inline source (must stay 0) */
cv_i64 gh_ss_lost;        /* the loaded point destroyed inside (= its coroutines re-queued / run inside) or overwritten (must stay 0) */
cv_i64 gh_sn_calls;       /* suspend_now() reached inside (must stay 0) */
#define CSP_GHOSTS gh_ss_obj, gh_ss_n, gh_ss_cntX, gh_ss_trk, gh_ss_foreign, gh_ss_lost, gh_sn_calls
#ifdef CV_HAS_sp_merge
SP *sp_merge(SP *t, SP *o) {
  if (t == o) return t;
  if (gh_ss_obj == 0 && gh_ss_n == 0) gh_ss_obj = t;
  if (t != gh_ss_obj || HEAP(o) || CNT(o) > 3) { GH_NOWRAP(gh_ss_foreign); gh_ss_foreign++; o->_count_flag = 0; return t; }
#define CSP_MERGE_ONE(i) if ((i) < CNT(o)) { \
    if (gh_ss_n == gh_G) gh_ss_trk = INL(o)[i]; \
    if (INL(o)[i] == gh_X) { GH_NOWRAP(gh_ss_cntX); gh_ss_cntX++; } \
    GH_NOWRAP(gh_ss_n); gh_ss_n++; }
  CSP_MERGE_ONE(0) CSP_MERGE_ONE(1) CSP_MERGE_ONE(2)
  o->_count_flag = 0;                                       /* the source resumes nothing (C06 merge contract) */
  return t;
}
#endif
#ifdef CV_HAS_sp_move_ctor
void sp_move_ctor(SP *t, SP *o) {                           /* same sequence, source emptied (C06 move_ctor contract) */
  t->_count_flag = o->_count_flag; t->f0 = o->f0; o->_count_flag = 0;
  if (t == gh_ss_obj && gh_ss_n > 0) { GH_NOWRAP(gh_ss_lost); gh_ss_lost++; }
  if (o == gh_ss_obj) gh_ss_obj = t;
}
#endif
#ifdef CV_HAS_sp_dtor
void sp_dtor(SP *t) {                                       /* "destructor always resumes all remaining coroutines" */
  if (t == gh_ss_obj && gh_ss_n > 0) { GH_NOWRAP(gh_ss_lost); gh_ss_lost++; }
  if (t->_count_flag != 0) { GH_NOWRAP(gh_sn_calls); gh_sn_calls++; }
}
#endif
#ifdef CV_HAS_sp_suspend_now_stub
void sp_suspend_now_stub(SP *t) { GH_NOWRAP(gh_sn_calls); gh_sn_calls++; }
#endif

/* ---- the functor (environment): makes coroutines ready, returns a value */
cv_i64 gh_fn_calls; cv_i8 *gh_fn_ctx; void *gh_fn_qi; cv_i64 gh_fn_na, gh_fn_cntX; cv_i32 gh_fn_ret;
cv_i64 gh_fn_t0; cv_i64 gh_fn_ssn; int gh_fn_thrown;      /* the functor may throw AFTER it has made coroutines ready */
#define CSP_FN_GHOSTS gh_fn_calls, gh_fn_ctx, gh_fn_qi, gh_fn_na, gh_fn_cntX, gh_fn_ret, gh_fn_t0, gh_fn_ssn, gh_fn_thrown, cv_exc_pending, cv_exc_obj, cv_exc_tinfo
static void csp_fn_body(cv_i8 *ctx) {
  GH_NOWRAP(gh_fn_calls); gh_fn_calls++; gh_fn_ctx = ctx; gh_fn_qi = (void *)QI; gh_fn_t0 = dq_tail; gh_fn_ssn = gh_ss_n;
  __CPROVER_assert(QI != 0, "the functor runs inside a coroutine activation (a ready queue is installed)");
  cv_i64 c; gh_fn_na = cv_env_makes_ready(&c); gh_fn_cntX = c;
  if (nondet_bool()) { gh_fn_thrown = 1; cv_exc_pending = 1; cv_exc_obj = 0; cv_exc_tinfo = 0; }
}
void cvx_c05_fn_void(cv_i8 *ctx) { csp_fn_body(ctx); }
cv_i32 cvx_c05_fn_int(cv_i8 *ctx) { csp_fn_body(ctx); if (cv_exc_pending) return 0; gh_fn_ret = (cv_i32)nondet_unsigned(); return gh_fn_ret; }

/* ---- install_queue_and_call<lambda of create_suspend_point> as a recording callee (unit csp_*: the inactive-queue branch) */
cv_i64 gh_iq_calls; void *gh_iq_ret; void *gh_iq_fn; void *gh_iq_qi;
#ifdef CV_HAS_iq_csp_stub
void iq_csp_stub(CSP_RET *ret, CSP_LAM *lam) { GH_NOWRAP(gh_iq_calls); gh_iq_calls++; gh_iq_ret = ret; gh_iq_fn = lam->fn; gh_iq_qi = (void *)QI; }
#endif

#ifdef CV_BOUNDED_FALLBACK
#define CSP_BOUND (dq_tail - dq_head <= 2)
#else
#define CSP_BOUND 1
#endif
#ifdef CSP_INT
#define CSP_BASE(r) ((SP *)&(r)->base_suspend_point)
#else
#define CSP_BASE(r) (r)
#endif
#define CSP_CONTRACT(ret, fn) \
__CPROVER_requires(Q_PRE && (QI == 0 ==> dq_head == dq_tail) && CSP_BOUND) \
__CPROVER_requires(__CPROVER_is_fresh(ret, sizeof(*ret)) && __CPROVER_is_fresh(fn, sizeof(*fn))) \
__CPROVER_requires(gh_X != 0 && dq_mark == dq_tail && dq_segX == 0 && dq_back_val == 0 && dq_nbpop == 0 && dq_bpopX == 0 && dq_cntX == 0 && gh_rescntX == 0) \
__CPROVER_requires(gh_ss_obj == 0 && gh_ss_n == 0 && gh_ss_cntX == 0 && gh_ss_foreign == 0 && gh_ss_lost == 0 && gh_sn_calls == 0) \
__CPROVER_requires(gh_fn_calls == 0 && gh_fn_na == 0 && gh_fn_cntX == 0 && gh_iq_calls == 0 && gh_fn_thrown == 0) \
__CPROVER_assigns(CSP_MODEL_ASSIGNS, CSP_GHOSTS, CSP_FN_GHOSTS, gh_iq_calls, gh_iq_ret, gh_iq_fn, gh_iq_qi, *TLS_GUARD, __CPROVER_object_whole(ret)) \
__CPROVER_ensures(cv_exc_pending == (gh_fn_thrown ? 1 : 0) && QI == __CPROVER_old(QI))             /* the functor's exception (only that) reaches the caller */ \
/* (NORUN) */ \
__CPROVER_ensures(gh_n_resume == __CPROVER_old(gh_n_resume) && dq_npop == __CPROVER_old(dq_npop) && dq_head == __CPROVER_old(dq_head)) \
__CPROVER_ensures(gh_ss_lost == 0 && gh_sn_calls == 0) \
/* (KEEP) */ \
__CPROVER_ensures(gh_fn_thrown == 0 ==> dq_tail == __CPROVER_old(dq_tail)) \
__CPROVER_ensures(gh_fn_thrown != 0 ==> (dq_tail == __CPROVER_old(dq_tail) + gh_fn_na && gh_ss_n == 0 && dq_nbpop == 0))   /* functor threw: what it made ready before stays queued (runs when the caller suspends), nothing is collected, nothing is lost */ \
__CPROVER_ensures(gh_DK < __CPROVER_old(dq_tail) ==> dq_trk == __CPROVER_old(dq_trk)) \
/* coroutine mode: functor exactly once, with the caller's functor object, inside the activation */ \
__CPROVER_ensures(__CPROVER_old(QI) != 0 ==> (gh_fn_calls == 1 && gh_fn_ctx == __CPROVER_old(fn->ctx) && gh_iq_calls == 0 && gh_fn_ssn == 0)) \
/* (ONCE) */ \
__CPROVER_ensures((__CPROVER_old(QI) != 0 && gh_fn_thrown == 0) ==> (gh_ss_foreign == 0 && gh_ss_n == gh_fn_na && gh_ss_cntX == gh_fn_cntX)) \
__CPROVER_ensures((__CPROVER_old(QI) != 0 && gh_fn_thrown == 0 && gh_fn_na > 0) ==> gh_ss_obj == CSP_BASE(ret))      /* ... and it is the RETURNED point that carries them */ \
__CPROVER_ensures(__CPROVER_old(QI) != 0 ==> dq_cntX == 0)                                      /* nothing is queued (again) by the function itself */ \
/* (FORWARD) */ \
__CPROVER_ensures(__CPROVER_old(QI) == 0 ==> (gh_iq_calls == 1 && gh_iq_ret == (void *)ret && gh_iq_fn == (void *)fn && gh_fn_calls == 0 && gh_ss_n == 0 && dq_npush == __CPROVER_old(dq_npush)))

/* (ORDER) "resumed ... in the order they were queued": position i of the returned point (discarded or awaited, it hands its handles over
 * in stored order - units suspend_now / await_suspend) is the i-th coroutine the functor made ready.  The arbitrary queue position gh_DK
 * and the arbitrary suspend-point index gh_G are linked by gh_G == gh_DK - t0. */
#ifdef C05_CREATE_SP_ORDER_STRICT
#define CSP_ORDER_POST \
__CPROVER_ensures((__CPROVER_old(QI) != 0 && gh_DK >= gh_fn_t0 && gh_DK - gh_fn_t0 < gh_fn_na && gh_G == gh_DK - gh_fn_t0 && gh_ss_n == gh_fn_na) ==> gh_ss_trk == dq_trk)   /* C05-OBS-create-sp-reverses */
#else
#define CSP_ORDER_POST
#endif

/* loop: while (queue.size() > sz) { ss << queue.back(); queue.pop_back(); } */
#define CSP_LOOP_INV(ssp) \
  (cv_exc_pending == 0 && *TLS_GUARD == 1 && DQ_INV && QI == QIMPL && DQ_SEG_WF && dq_back_val == 0 && \
   dq_mark == gh_fn_t0 && dq_head + sz == gh_fn_t0 && dq_tail >= gh_fn_t0 && dq_tail <= gh_fn_t0 + gh_fn_na && gh_fn_na <= CV_ENV_MAX_READY && \
   gh_ss_n == gh_fn_t0 + gh_fn_na - dq_tail && gh_ss_cntX + DQ_SEG_TOTALX == gh_fn_cntX && dq_nbpop == gh_ss_n && \
   gh_ss_foreign == 0 && gh_ss_lost == 0 && gh_sn_calls == 0 && (gh_ss_n > 0 ==> gh_ss_obj == (ssp)) && (gh_ss_n == 0 ==> gh_ss_obj == 0 || gh_ss_obj == (ssp)) && \
   (ssp)->_count_flag == 0 && gh_fn_calls == 1 && gh_fn_thrown == 0 && gh_fn_ssn == 0 && gh_iq_calls == 0 && dq_cntX == 0)
#define CSP_LOOP(alias_locals) \
  __CPROVER_assigns(alias_locals, CSP_MODEL_ASSIGNS, CSP_GHOSTS, *TLS_GUARD) \
  __CPROVER_loop_invariant(CSP_LOOP_INV(&ss__mem)) \
  __CPROVER_loop_invariant(gh_n_resume == __CPROVER_loop_entry(gh_n_resume) && dq_npop == __CPROVER_loop_entry(dq_npop) && dq_head == __CPROVER_loop_entry(dq_head) && dq_npush == __CPROVER_loop_entry(dq_npush)) \
  __CPROVER_loop_invariant(gh_DK < gh_fn_t0 ==> dq_trk == __CPROVER_loop_entry(dq_trk)) \
  __CPROVER_decreases(dq_tail)
/* the same function with the collecting loop written as a forward scan (specs/C05/fix_create_sp_order.diff):
 *   for (i = sz; i < queue.size(); ++i) ss << queue[i];   while (queue.size() > sz) queue.pop_back();
 * selected when the unit contains std::deque::operator[] (names_opt alias dq_index) */
#define CSP_SCAN_COMMON(ssp) \
  (cv_exc_pending == 0 && *TLS_GUARD == 1 && DQ_INV && QI == QIMPL && DQ_SEG_WF && dq_back_val == 0 && \
   dq_mark == gh_fn_t0 && dq_head + sz == gh_fn_t0 && gh_fn_na <= CV_ENV_MAX_READY && \
   gh_ss_foreign == 0 && gh_ss_lost == 0 && gh_sn_calls == 0 && (gh_ss_n > 0 ==> gh_ss_obj == (ssp)) && (gh_ss_n == 0 ==> gh_ss_obj == 0 || gh_ss_obj == (ssp)) && \
   (ssp)->_count_flag == 0 && gh_fn_calls == 1 && gh_fn_thrown == 0 && gh_fn_ssn == 0 && gh_iq_calls == 0 && dq_cntX == 0)
#define CSP_SCAN_SEEN_TRK(upto) ((gh_DK >= gh_fn_t0 && gh_DK < (upto) && dq_trk == gh_X) ? 1 : 0)
#define CSP_LOOP_COMMON_TAIL \
  __CPROVER_loop_invariant(gh_n_resume == __CPROVER_loop_entry(gh_n_resume) && dq_npop == __CPROVER_loop_entry(dq_npop) && dq_head == __CPROVER_loop_entry(dq_head) && dq_npush == __CPROVER_loop_entry(dq_npush)) \
  __CPROVER_loop_invariant(gh_DK < gh_fn_t0 ==> dq_trk == __CPROVER_loop_entry(dq_trk)) \
  __CPROVER_loop_invariant((gh_DK >= gh_fn_t0 && gh_DK - gh_fn_t0 < gh_ss_n && gh_G == gh_DK - gh_fn_t0) ==> gh_ss_trk == dq_trk)   /* stored in the order queued */
#define CSP_SCAN_LOOP0(alias_locals) \
  __CPROVER_assigns(alias_locals, CSP_MODEL_ASSIGNS, CSP_GHOSTS, *TLS_GUARD) \
  __CPROVER_loop_invariant(CSP_SCAN_COMMON(&ss__mem) && dq_tail == gh_fn_t0 + gh_fn_na && i >= sz && i - sz <= gh_fn_na && dq_scan == dq_head + i && \
     gh_ss_n == i - sz && dq_nbpop == 0 && dq_segX + CSP_SCAN_SEEN_TRK(dq_tail) == gh_fn_cntX && dq_scanX <= dq_segX && dq_segX - dq_scanX <= DQ_UNTRACKED_FROM(dq_scan) && \
     gh_ss_cntX == dq_scanX + CSP_SCAN_SEEN_TRK(dq_scan)) \
  CSP_LOOP_COMMON_TAIL \
  __CPROVER_decreases(dq_tail - dq_head - i)
#define CSP_SCAN_LOOP1(alias_locals) \
  __CPROVER_assigns(alias_locals, CSP_MODEL_ASSIGNS, *TLS_GUARD) \
  __CPROVER_loop_invariant(CSP_SCAN_COMMON(&ss__mem) && dq_tail >= gh_fn_t0 && dq_tail <= gh_fn_t0 + gh_fn_na && dq_nbpop == gh_fn_t0 + gh_fn_na - dq_tail && \
     gh_ss_n == gh_fn_na && gh_ss_cntX == gh_fn_cntX) \
  CSP_LOOP_COMMON_TAIL \
  __CPROVER_decreases(dq_tail)
#ifndef CV_BOUNDED_FALLBACK
#ifdef CV_HAS_dq_index
#define CV_LOOP_csp_void_0 CSP_SCAN_LOOP0(CV_LOOP_LOCALS_csp_void_0)
#define CV_LOOP_csp_void_1 CSP_SCAN_LOOP1(CV_LOOP_LOCALS_csp_void_1)
#define CV_LOOP_csp_int_0 CSP_SCAN_LOOP0(CV_LOOP_LOCALS_csp_int_0)
#define CV_LOOP_csp_int_1 CSP_SCAN_LOOP1(CV_LOOP_LOCALS_csp_int_1)
#else
#define CV_LOOP_csp_void_0 CSP_LOOP(CV_LOOP_LOCALS_csp_void_0)
#define CV_LOOP_csp_int_0 CSP_LOOP(CV_LOOP_LOCALS_csp_int_0)
#endif
#endif

#ifdef CV_HAS_csp_void
void csp_void(SP *ret, FNV *fn) CSP_CONTRACT(ret, fn) CSP_ORDER_POST
;
void h_create_sp_void(void) { SP *r; FNV *f; csp_void(r, f); __CPROVER_assert(0, "SENTINEL reachable"); }
#endif
#ifdef CV_HAS_csp_int
void csp_int(SPI *ret, FNI *fn) CSP_CONTRACT(ret, fn) CSP_ORDER_POST
__CPROVER_ensures((__CPROVER_old(QI) != 0 && gh_fn_thrown == 0) ==> ret->value == gh_fn_ret)                          /* (VALUE) */
;
void h_create_sp_int(void) { SPI *r; FNI *f; csp_int(r, f); __CPROVER_assert(0, "SENTINEL reachable"); }
#endif

/* ---- the inactive-queue branch itself: install_queue_and_call<[&]{ return create_suspend_point(fn); }>: installs the thread's queue, calls
 * create_suspend_point exactly once UNDER it (so the functor's coroutines are queued, not run), drains and uninstalls.  The nested
 * create_suspend_point is an abstract callee here (its behaviour is the subject of the units above). */
#ifdef CV_HAS_iq_csp
cv_i64 gh_csp_calls; void *gh_csp_qi, *gh_csp_fn, *gh_csp_ret; cv_i64 gh_csp_len;
void csp_nested_stub(CSP_RET *ret, CSP_FN *fn) { GH_NOWRAP(gh_csp_calls); gh_csp_calls++; gh_csp_qi = (void *)QI; gh_csp_fn = fn; gh_csp_ret = ret; gh_csp_len = dq_tail - dq_head; }
void iq_csp(CSP_RET *ret, CSP_LAM *lam)
__CPROVER_requires(Q_PRE && QI == 0 && dq_head == dq_tail && gh_csp_calls == 0)
__CPROVER_requires(__CPROVER_is_fresh(ret, sizeof(*ret)) && __CPROVER_is_fresh(lam, sizeof(*lam)))
__CPROVER_assigns(MODEL_ASSIGNS, QI, *TLS_GUARD, gh_csp_calls, gh_csp_qi, gh_csp_fn, gh_csp_ret, gh_csp_len, CSP_GHOSTS, __CPROVER_object_whole(ret))
__CPROVER_ensures(cv_exc_pending == 0 && QI == 0 && dq_head == dq_tail)                           /* activation closed, nothing left un-run */
__CPROVER_ensures(gh_csp_calls == 1 && gh_csp_qi == (void *)QIMPL && gh_csp_fn == (void *)__CPROVER_old(lam->fn) && gh_csp_ret == (void *)ret && gh_csp_len == 0)
__CPROVER_ensures(dq_npush == __CPROVER_old(dq_npush))
;
void h_create_sp_normal(void) { CSP_RET *r; CSP_LAM *l; iq_csp(r, l); __CPROVER_assert(0, "SENTINEL reachable"); }
#endif
