/* C05 - async<T>::start() entered from a RUNNING coroutine (coroutine mode).  The lambda inside start() obtains the child's handle from
 * start_promise() (abstract callee here) and, because a queue is active, resumes the child DIRECTLY: a nested activation on top of the
 * starter.  C05 clause 1 ("any coroutine it makes ready and whose suspend point it discards does not start executing until the running
 * coroutine suspends or finishes") binds this path too: whatever the starter had queued must still be queued when start() returns.
 * The resume primitive (lib/model_coro.c) lets the resumed child make others ready and pause / transfer symmetrically, which takes
 * entries from the head of the ready queue - exactly what the real child may do. */
cv_i8 *gh_sp_h, *gh_ir_h; int gh_sp_calls, gh_ir_calls;
#ifdef CV_HAS_as_start_promise_stub
cv_i8 *as_start_promise_stub(void *a, void *p) { gh_sp_calls++; return gh_sp_h; }
#endif
#ifdef CV_HAS_cq_install_resume_stub
void cq_install_resume_stub(cv_i8 *h) { gh_ir_calls++; gh_ir_h = h; }
#endif
#ifdef CV_HAS_as_start_lambda
void as_start_lambda(START_LAM *this_, PROM *promise)
__CPROVER_requires(Q_PRE && gh_sp_h != 0 && gh_sp_calls == 0 && gh_ir_calls == 0)
__CPROVER_requires(__CPROVER_is_fresh(this_, sizeof(*this_)) && __CPROVER_is_fresh(promise, sizeof(*promise)))
__CPROVER_assigns(MODEL_ASSIGNS, *TLS_GUARD, gh_sp_calls, gh_ir_calls, gh_ir_h)
__CPROVER_ensures(cv_exc_pending == 0 && QI == __CPROVER_old(QI) && gh_sp_calls == 1)
/* from normal code: the child runs under a freshly installed queue (install_queue_and_resume, whose contract drains it) - started exactly once */
__CPROVER_ensures(__CPROVER_old(QI) == 0 ==> (gh_ir_calls == 1 && gh_ir_h == gh_sp_h && gh_n_resume == __CPROVER_old(gh_n_resume) && dq_npush == __CPROVER_old(dq_npush)))
/* from a running coroutine: nested activation */
#ifndef CV_IMPORTED_BY_C04
__CPROVER_ensures(__CPROVER_old(QI) != 0 ==> (gh_ir_calls == 0 && gh_n_resume == __CPROVER_old(gh_n_resume) + 1))                 /* the child is started exactly once ... */
#else   /* C04 ("the body executes exactly once") does not care by which route: one direct resumption or one install_queue_and_resume of the child, never none, never both */
__CPROVER_ensures(__CPROVER_old(QI) != 0 ==> ((gh_ir_calls == 0 && gh_n_resume == __CPROVER_old(gh_n_resume) + 1) || (gh_ir_calls == 1 && gh_ir_h == gh_sp_h && gh_n_resume == __CPROVER_old(gh_n_resume))))
#endif
__CPROVER_ensures((__CPROVER_old(QI) != 0 && gh_RK == __CPROVER_old(gh_n_resume) && gh_n_resume == __CPROVER_old(gh_n_resume) + 1) ==> gh_res_trk == gh_sp_h)   /* ... and it is the child */
#ifndef CV_IMPORTED_BY_C04   /* the no-pre-emption clause is C05's own; C04 re-runs this unit for "the body is started exactly once, by start() itself" */
__CPROVER_ensures((__CPROVER_old(QI) != 0 && __CPROVER_old(dq_head) < __CPROVER_old(dq_tail)) ==> dq_head == __CPROVER_old(dq_head))     /* C05-FINDING-start-nested: nothing the starter queued runs before the starter suspends or finishes */
#endif
;
void h_start_lambda(void) { START_LAM *l; PROM *p; as_start_lambda(l, p); __CPROVER_assert(0, "SENTINEL reachable"); }
#endif
