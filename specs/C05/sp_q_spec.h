/* C05/C06 - the members of suspend_point<void> that hand its coroutines to the scheduler:
 * suspend_now(), clear(), ~suspend_point(), await_suspend(h).  Uses the suspend_point vocabulary of C06/sp_spec.h. */
#define SN_BASE(p) (HEAP(p) ? EXTP(p)->_handles : &INL(p)[0])
/* logical variables: entry values */
cv_i64 gh_t0, gh_h0, gh_r0;   /* dq_tail, dq_head, gh_n_resume at entry */
cv_i8 *gh_Hq, *gh_Hr;         /* entry value of the handle that will land at the tracked queue position / resume-log index */
void *gh_qi0;

/* every discarded suspend point: coroutine mode => all its handles are appended to the ready queue in order and none runs now;
 * normal mode => each is resumed exactly once, in order, under an installed queue that is drained before returning.
 * Afterwards the suspend point is empty and its heap block (if any) is released exactly once. */
/* CV_BOUNDED_FALLBACK: the same contracts checked WITHOUT the loop contracts, by unwinding, for points of at most CV_BOUND_N handles.
 * The loop invariants below name the range-for temporaries of the current text; a rewrite of a loop makes them unusable (the unit
 * becomes undecided), and then these bounded siblings still decide the contract on small points - with a concrete counterexample. */
#ifdef CV_BOUNDED_FALLBACK
#define SN_NN(p, i) ((i) >= CNT(p) || H(p, i) != 0)
#define SN_BOUND(this_) (CNT(this_) <= CV_BOUND_N)
#define SN_ALLNN(this_) (SN_NN(this_, 0) && SN_NN(this_, 1) && SN_NN(this_, 2) && SN_NN(this_, 3) && SN_NN(this_, 4))   /* every carried handle is a real coroutine (the unbounded units assume it at the tracked position only) */
#else
#define SN_BOUND(this_) 1
#define SN_ALLNN(this_) 1
#endif
/* order-free accounting for the bounded siblings (C06: "exactly once" without demanding an order): XCOUNT(p) = occurrences of the
 * arbitrary handle value gh_X among the (<= CV_BOUND_N <= 5) handles of p; gh_cntX0 pins the entry value */
#ifdef CV_COUNT_X
cv_i64 gh_cntX0;
#define XC1(p, i) (((i) < CNT(p) && H(p, i) == gh_X) ? 1 : 0)
#define XCOUNT(p) ((cv_i64)(XC1(p, 0) + XC1(p, 1) + XC1(p, 2) + XC1(p, 3) + XC1(p, 4)))
#define SN_COUNT_PRE(this_) __CPROVER_requires(gh_X != 0 && gh_cntX0 == XCOUNT(this_) && dq_cntX < (1ul << 40) && gh_rescntX < (1ul << 40))
#define SN_COUNT_POST \
__CPROVER_ensures(gh_qi0 != 0 ==> (dq_cntX == __CPROVER_old(dq_cntX) + gh_cntX0 && gh_rescntX == __CPROVER_old(gh_rescntX)))   /* coroutine mode: every handle queued as often as it was carried, none run */ \
__CPROVER_ensures(gh_qi0 == 0 ==> (gh_rescntX == __CPROVER_old(gh_rescntX) + gh_cntX0 && dq_cntX == __CPROVER_old(dq_cntX)))   /* normal mode: every handle resumed (directly) as often as it was carried, none queued */
#else
#define SN_COUNT_PRE(this_)
#define SN_COUNT_POST
#endif
/* C20: discarding / awaiting a suspend point never allocates by itself; in coroutine mode the handles go to the per-thread std::deque,
 * whose push may allocate a node - the open known finding */
#ifdef CV_CHECK_C20
#define SN_C20_POST \
__CPROVER_ensures(gh_qi0 == 0 ==> gh_allocs == __CPROVER_old(gh_allocs))
#else
#define SN_C20_POST
#endif
#ifdef CV_NO_ORDER
#define SN_ORDER_POST
#else
#define SN_ORDER_POST \
__CPROVER_ensures((gh_qi0 != 0 && gh_DK >= gh_t0 && gh_DK - gh_t0 < (gh_cf >> 1)) ==> dq_trk == gh_Hq) \
__CPROVER_ensures((gh_qi0 == 0 && gh_RK >= gh_r0 && gh_RK - gh_r0 < (gh_cf >> 1)) ==> gh_res_trk == gh_Hr)
#endif
#define SN_CONTRACT(this_) \
__CPROVER_requires(Q_PRE && (QI == 0 ==> dq_head == dq_tail)) \
__CPROVER_requires(__CPROVER_is_fresh(this_, sizeof(*this_)) && SN_BOUND(this_) && WF_FRESH(this_) && SN_ALLNN(this_)) \
__CPROVER_requires(gh_cf == this_->_count_flag && gh_t0 == dq_tail && gh_h0 == dq_head && gh_r0 == gh_n_resume && gh_qi0 == (void *)QI) \
__CPROVER_requires((gh_DK >= dq_tail && gh_DK - dq_tail < CNT(this_)) ==> (gh_Hq == H(this_, gh_DK - dq_tail) && gh_Hq != 0)) \
__CPROVER_requires((gh_RK >= gh_n_resume && gh_RK - gh_n_resume < CNT(this_)) ==> (gh_Hr == H(this_, gh_RK - gh_n_resume) && gh_Hr != 0)) \
SN_COUNT_PRE(this_) \
__CPROVER_assigns(MODEL_ASSIGNS, QI, *TLS_GUARD, this_->_count_flag, gh_frees) \
__CPROVER_frees(HEAP(this_): EXTP(this_)->_handles) \
__CPROVER_ensures(cv_exc_pending == 0 && (void *)QI == gh_qi0) \
__CPROVER_ensures(this_->_count_flag == 0 && gh_frees == __CPROVER_old(gh_frees) + (gh_cf & 1))            /* emptied; block released once */ \
/* coroutine mode */ \
__CPROVER_ensures(gh_qi0 != 0 ==> (dq_tail == gh_t0 + (gh_cf >> 1) && dq_head == gh_h0 && gh_n_resume == gh_r0)) \
__CPROVER_ensures((gh_qi0 != 0 && gh_DK < gh_t0) ==> dq_trk == __CPROVER_old(dq_trk)) \
/* normal mode */ \
__CPROVER_ensures(gh_qi0 == 0 ==> (dq_head == dq_tail && gh_n_resume >= gh_r0 + (gh_cf >> 1) && dq_npush == __CPROVER_old(dq_npush))) \
SN_ORDER_POST SN_COUNT_POST SN_C20_POST

#ifndef SN_CF
#define SN_CF gh_cf
#endif
#define SN_LOOP_COMMON(thisp, beg, end) \
  __CPROVER_same_object(beg, end) && __CPROVER_same_object(beg, SN_BASE(thisp)) && end == SN_BASE(thisp) + CNT(thisp) && \
  __CPROVER_POINTER_OFFSET(SN_BASE(thisp)) <= __CPROVER_POINTER_OFFSET(beg) && __CPROVER_POINTER_OFFSET(beg) <= __CPROVER_POINTER_OFFSET(end) && \
  (__CPROVER_POINTER_OFFSET(beg) - __CPROVER_POINTER_OFFSET(SN_BASE(thisp))) % sizeof(void *) == 0 && \
  cv_exc_pending == 0 && *TLS_GUARD == 1 && DQ_INV && thisp->_count_flag == SN_CF && \
  (HEAP(thisp) ==> (EXTP(thisp)->_capacity >= CNT(thisp) && __CPROVER_r_ok(EXTP(thisp)->_handles, EXTP(thisp)->_capacity * sizeof(void *))))

#ifndef CV_BOUNDED_FALLBACK
/* loop 0 of suspend_now: coroutine mode, push every handle */
#define CV_LOOP_sp_suspend_now_0 \
  __CPROVER_assigns(CV_LOOP_LOCALS_sp_suspend_now_0, MODEL_ASSIGNS, *TLS_GUARD) \
  __CPROVER_loop_invariant(SN_LOOP_COMMON(this1, __begin4, __end4) && QI == QIMPL) \
  __CPROVER_loop_invariant(dq_tail == gh_t0 + (cv_i64)(__begin4 - SN_BASE(this1)) && dq_head == gh_h0 && gh_n_resume == gh_r0) \
  __CPROVER_loop_invariant((gh_DK >= gh_t0 && gh_DK < dq_tail) ==> dq_trk == gh_Hq) \
  __CPROVER_loop_invariant(gh_DK < gh_t0 ==> dq_trk == __CPROVER_loop_entry(dq_trk))

/* the loop inside the normal-mode lambda: resume every handle */
#define CV_LOOP_sp_suspend_now_lambda_0 \
  __CPROVER_assigns(CV_LOOP_LOCALS_sp_suspend_now_lambda_0, MODEL_ASSIGNS, *TLS_GUARD) \
  __CPROVER_loop_invariant(SN_LOOP_COMMON(this->this, __begin4, __end4) && QI == QIMPL) \
  __CPROVER_loop_invariant(gh_n_resume >= gh_r0 + (cv_i64)(__begin4 - SN_BASE(this->this))) \
  __CPROVER_loop_invariant(gh_n_resume == gh_r0 + (cv_i64)(__begin4 - SN_BASE(this->this)))  \
  __CPROVER_loop_invariant((gh_RK >= gh_r0 && gh_RK < gh_n_resume) ==> gh_res_trk == gh_Hr) \
  __CPROVER_loop_invariant(dq_npush == __CPROVER_loop_entry(dq_npush) && gh_allocs == __CPROVER_loop_entry(gh_allocs))

#endif
#ifdef CV_HAS_sp_suspend_now
void sp_suspend_now(SP *this_) SN_CONTRACT(this_)
#ifdef CV_CHECK_C20
__CPROVER_ensures(gh_qi0 != 0 ==> gh_allocs == __CPROVER_old(gh_allocs))   /* C20-FINDING the ready queue is a std::deque, which allocates a node every 64 pushes */
#endif
;
#endif
/* clear() and ~suspend_point() are verified modularly as forwarders to suspend_now(), which in these two units is an abstract
 * callee that records its invocation (its behaviour is the subject of unit suspend_now). */
#if defined(CV_HAS_sp_clear) || defined(CV_HAS_sp_dtor)
int gh_fw_calls; SP *gh_fw_this;
void sp_suspend_now(SP *t) { gh_fw_calls++; gh_fw_this = t; }
#endif
#ifdef CV_HAS_sp_clear
void sp_clear(SP *this_)
__CPROVER_requires(cv_exc_pending == 0 && gh_fw_calls == 0)
__CPROVER_assigns(gh_fw_calls, gh_fw_this)
__CPROVER_ensures(cv_exc_pending == 0 && gh_fw_calls == 1 && gh_fw_this == this_)
;
#endif
#ifdef CV_HAS_sp_dtor
void sp_dtor(SP *this_)
__CPROVER_requires(cv_exc_pending == 0 && gh_fw_calls == 0 && __CPROVER_is_fresh(this_, sizeof(*this_)))
__CPROVER_assigns(gh_fw_calls, gh_fw_this)
__CPROVER_ensures(cv_exc_pending == 0)
__CPROVER_ensures(this_->_count_flag != 0 ==> (gh_fw_calls == 1 && gh_fw_this == this_))   /* destructor always resumes what remains (and releases the block) */
__CPROVER_ensures(this_->_count_flag == 0 ==> gh_fw_calls == 0)                            /* a moved-from / emptied suspend point resumes nothing */
;
#endif

/* ---- await_suspend(h) in coroutine mode: the last handle is the symmetric-transfer target, the others are appended to the ready
 * queue in order, the awaiting coroutine is appended last unless it is already among them (never twice); nothing runs inside. */
#ifdef CV_HAS_sp_await_suspend
cv_i8 *gh_Hlast; cv_i8 *gh_I[3];
#define AS_M ((gh_cf >> 1) > 0 ? (cv_i64)(gh_cf >> 1) - 1 : (cv_i64)0)          /* number of handles that go to the queue */
#define AS_CFP ((gh_cf >> 1) > 0 ? gh_cf - 2 : gh_cf)                            /* count word after pop() */
#define AS_IDX(thisp, beg) ((cv_i64)(beg - SN_BASE(thisp)))
#define AS_SOME_EQ(n, h) (((n) > 0 && gh_I[0] == (h)) || ((n) > 1 && gh_I[1] == (h)) || ((n) > 2 && gh_I[2] == (h)))
#ifndef CV_BOUNDED_FALLBACK
#define CV_LOOP_sp_await_suspend_0 \
  __CPROVER_assigns(CV_LOOP_LOCALS_sp_await_suspend_0, MODEL_ASSIGNS, *TLS_GUARD) \
  __CPROVER_loop_invariant(SN_LOOP_COMMON(this1, __begin3, __end3) && QI == QIMPL && me_included <= 1) \
  __CPROVER_loop_invariant(dq_tail == gh_t0 + AS_IDX(this1, __begin3) && dq_head == gh_h0 && gh_n_resume == gh_r0) \
  __CPROVER_loop_invariant((gh_DK >= gh_t0 && gh_DK < dq_tail) ==> dq_trk == gh_Hq) \
  __CPROVER_loop_invariant(gh_DK < gh_t0 ==> dq_trk == __CPROVER_loop_entry(dq_trk)) \
  __CPROVER_loop_invariant((gh_G < AS_IDX(this1, __begin3) && gh_oldH == me_addr) ==> me_included == 1) \
  __CPROVER_loop_invariant(((gh_cf >> 1) > 0 && gh_Hlast == me_addr) ==> me_included == 1) \
  __CPROVER_loop_invariant((me_included == 1 && !HEAP(this1)) ==> (AS_SOME_EQ(AS_IDX(this1, __begin3), me_addr) || ((gh_cf >> 1) > 0 && gh_Hlast == me_addr)))
#endif
cv_i8 *sp_await_suspend(SP *this_, cv_i8 *h)
__CPROVER_requires(Q_PRE && QI != 0 && h != 0 && h != (cv_i8 *)NOOPH)   /* the awaiting coroutine is a real one, not the noop coroutine */
__CPROVER_requires(__CPROVER_is_fresh(this_, sizeof(*this_)) && SN_BOUND(this_) && WF_FRESH(this_) && SN_ALLNN(this_))
__CPROVER_requires(gh_cf == this_->_count_flag && gh_t0 == dq_tail && gh_h0 == dq_head && gh_r0 == gh_n_resume)
__CPROVER_requires(CNT(this_) > 0 ==> gh_Hlast == H(this_, CNT(this_) - 1))
__CPROVER_requires((gh_DK >= dq_tail && gh_DK - dq_tail < AS_M) ==> (gh_Hq == H(this_, gh_DK - dq_tail) && gh_Hq != 0))
__CPROVER_requires((cv_i64)gh_G < AS_M ==> gh_oldH == H(this_, gh_G))
#ifdef CV_COUNT_X
__CPROVER_requires(gh_X != 0 && gh_X != (cv_i8 *)NOOPH && gh_cntX0 == XCOUNT(this_) && dq_cntX < (1ul << 40) && gh_rescntX < (1ul << 40))
#endif
__CPROVER_requires(!HEAP(this_) ==> (gh_I[0] == INL(this_)[0] && gh_I[1] == INL(this_)[1] && gh_I[2] == INL(this_)[2]))
__CPROVER_assigns(MODEL_ASSIGNS, *TLS_GUARD, this_->_count_flag, gh_frees)
__CPROVER_frees(HEAP(this_): EXTP(this_)->_handles)
__CPROVER_ensures(cv_exc_pending == 0 && QI == __CPROVER_old(QI))
__CPROVER_ensures(this_->_count_flag == 0 && gh_frees == __CPROVER_old(gh_frees) + (gh_cf & 1))
#ifndef CV_NO_ORDER
__CPROVER_ensures((gh_cf >> 1) > 0 ==> __CPROVER_return_value == gh_Hlast)                    /* transfer target = last handle */
#endif
__CPROVER_ensures((gh_cf >> 1) == 0 ==> __CPROVER_return_value == NOOPH)
__CPROVER_ensures(dq_head == gh_h0 && gh_n_resume == gh_r0)                                   /* nothing runs inside */
#ifndef CV_NO_ORDER
__CPROVER_ensures((gh_DK >= gh_t0 && (cv_i64)(gh_DK - gh_t0) < AS_M) ==> dq_trk == gh_Hq)     /* the others queued, in order */
#endif
__CPROVER_ensures(gh_DK < gh_t0 ==> dq_trk == __CPROVER_old(dq_trk))
__CPROVER_ensures(dq_tail == gh_t0 + AS_M || dq_tail == gh_t0 + AS_M + 1)
#ifndef CV_NO_ORDER
__CPROVER_ensures((dq_tail == gh_t0 + AS_M + 1 && gh_DK == gh_t0 + AS_M) ==> dq_trk == h)     /* awaiting coroutine appended last */
#endif
#ifdef CV_CHECK_C20
__CPROVER_ensures(gh_allocs == __CPROVER_old(gh_allocs))   /* C20-FINDING co_await on a suspend point queues the other handles on the std::deque, which may allocate a node */
#endif
#ifdef CV_COUNT_X
/* order-free (C06): transfer target + queue entries account for every carried handle exactly as often as it was carried, plus the
 * awaiting coroutine exactly once unless it was carried itself; nothing is resumed inside */
__CPROVER_ensures(((__CPROVER_return_value == gh_X) ? 1 : 0) + (dq_cntX - __CPROVER_old(dq_cntX)) == ((gh_X == h && gh_cntX0 == 0) ? 1 : gh_cntX0))
__CPROVER_ensures(gh_rescntX == __CPROVER_old(gh_rescntX))
#endif
__CPROVER_ensures(((cv_i64)gh_G < AS_M && gh_oldH == h) ==> dq_tail == gh_t0 + AS_M)          /* ... but never twice: not when it is among the queued handles */
__CPROVER_ensures(((gh_cf >> 1) > 0 && gh_Hlast == h) ==> dq_tail == gh_t0 + AS_M)            /* ... and not when it is itself the transfer target (it continues at once) */
__CPROVER_ensures((dq_tail == gh_t0 + AS_M && !(gh_cf & 1)) ==> (AS_SOME_EQ(AS_M, h) || ((gh_cf >> 1) > 0 && gh_Hlast == h)))   /* ... and never lost (inline representation) */
;
#endif
