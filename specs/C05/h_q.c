#ifdef CV_HAS_cq_is_active
void h_is_active(void) { cq_is_active(); __CPROVER_assert(0, "SENTINEL reachable"); }
#endif
#ifdef CV_HAS_cq_can_block
void h_can_block(void) { cq_can_block(); __CPROVER_assert(0, "SENTINEL reachable"); }
#endif
#ifdef CV_HAS_qi_push
void h_push(void) { QIMPL_T *q; cv_i8 *h; qi_push(q, h); __CPROVER_assert(0, "SENTINEL reachable"); }
#endif
#ifdef CV_HAS_qi_flush
void h_flush(void) { QIMPL_T *q; qi_flush(q); __CPROVER_assert(0, "SENTINEL reachable"); }
#endif
#ifdef CV_HAS_cq_resume
void h_resume(void) { cv_i8 *h; cq_resume(h); __CPROVER_assert(0, "SENTINEL reachable"); }
#endif
#ifdef CV_HAS_cq_install_resume
void h_install_resume(void) { cv_i8 *h; cq_install_resume(h); __CPROVER_assert(0, "SENTINEL reachable"); }
#endif
#ifdef CV_HAS_cq_swap
void h_swap(void) { cv_i8 *h; cq_swap(h); __CPROVER_assert(0, "SENTINEL reachable"); }
#endif
#ifdef CV_HAS_pause_suspend
void h_pause(void) { PAUSE_T *p; cv_i8 *h; pause_suspend(p, h); __CPROVER_assert(0, "SENTINEL reachable"); }
#endif
#ifdef CV_HAS_cq_next
void h_next(void) { cq_next(); __CPROVER_assert(0, "SENTINEL reachable"); }
#endif
#ifdef CV_HAS_ia_ready
void h_ia_ready(void) { ia_ready(); __CPROVER_assert(0, "SENTINEL reachable"); }
#endif
#ifdef CV_HAS_ia_suspend
void h_ia_suspend(void) { cv_i8 *h; ia_suspend(h); __CPROVER_assert(0, "SENTINEL reachable"); }
#endif
#ifdef CV_HAS_sp_suspend_now
void h_suspend_now(void) { SP *p; sp_suspend_now(p); __CPROVER_assert(0, "SENTINEL reachable"); }
#endif
#ifdef CV_HAS_sp_clear
void h_clear(void) { SP *p; sp_clear(p); __CPROVER_assert(0, "SENTINEL reachable"); }
#endif
#ifdef CV_HAS_sp_dtor
void h_dtor(void) { SP *p; sp_dtor(p); __CPROVER_assert(0, "SENTINEL reachable"); }
#endif
#ifdef CV_HAS_sp_await_suspend
void h_await_suspend(void) { SP *p; cv_i8 *h; sp_await_suspend(p, h); __CPROVER_assert(0, "SENTINEL reachable"); }
#endif
/* ---- co_await on a suspend point from a coroutine body that runs OUTSIDE coroutine mode (no queue installed): bounded unit (<= 3 inline
 * handles; flush_queue replaced by its contract): everything happens INSIDE a freshly installed activation - the transfer target (last
 * handle) is resumed first, under the queue; the queue is drained and uninstalled; the caller gets the noop handle.  C05: "when the
 * outermost activation returns to ordinary code no ready coroutine is left un-run", run-to-suspension inside the activation. */
#ifdef CV_AS_NORMAL_BOUNDED
void h_await_suspend_normal(void)
{
  SP sp; cv_i8 *hv[3]; cv_i8 *h; unsigned n = nondet_unsigned(); __CPROVER_assume(n <= 3);
  __CPROVER_assume(h != 0 && h != (cv_i8 *)NOOPH);
  for (unsigned k = 0; k < 3; k++) { __CPROVER_assume(hv[k] != 0); sp.f0.f0._handles[k] = hv[k]; }
  sp._count_flag = n << 1;
  cv_exc_pending = 0; *TLS_GUARD = 1; QI = 0; __CPROVER_assume(DQ_WF && dq_head == dq_tail);
  cv_i64 r0 = gh_n_resume, p0 = dq_npush; gh_RK = r0;
  cv_i8 *ret = sp_await_suspend(&sp, h);
  __CPROVER_assert(cv_exc_pending == 0 && QI == 0, "back in normal mode: the activation was uninstalled");
  __CPROVER_assert(ret == (cv_i8 *)NOOPH, "nothing is left for the caller to transfer to: the target was started inside the activation");
  __CPROVER_assert(dq_head == dq_tail, "no ready coroutine is left un-run when the activation returns");
  __CPROVER_assert(sp._count_flag == 0, "the awaited point is emptied");
  if (n > 0) __CPROVER_assert(gh_n_resume >= r0 + 1 && gh_res_trk == hv[n - 1], "the transfer target (last handle) is the first coroutine resumed, inside the activation");
  __CPROVER_assert(0, "SENTINEL reachable");
}
#endif
