#ifdef CV_HAS_cq_is_active
void h_is_active(void) { cq_is_active(); __CPROVER_assert(0, "SENTINEL reachable"); }
#endif
#ifdef CV_HAS_cq_can_block
void h_can_block(void) { cq_can_block(); __CPROVER_assert(0, "SENTINEL reachable"); }
#endif
#ifdef CV_HAS_qi_push
void h_push(void) { QIMPL_T *q; cv_i8 *h; qi_push(q, h); __CPROVER_assert(0, "SENTINEL reachable"); }
#endif
#ifdef CV_HAS_qi_flush
void h_flush(void) { QIMPL_T *q; qi_flush(q); __CPROVER_assert(0, "SENTINEL reachable"); }
#endif
#ifdef CV_HAS_cq_resume
void h_resume(void) { cv_i8 *h; cq_resume(h); __CPROVER_assert(0, "SENTINEL reachable"); }
#endif
#ifdef CV_HAS_cq_install_resume
void h_install_resume(void) { cv_i8 *h; cq_install_resume(h); __CPROVER_assert(0, "SENTINEL reachable"); }
#endif
#ifdef CV_HAS_cq_swap
void h_swap(void) { cv_i8 *h; cq_swap(h); __CPROVER_assert(0, "SENTINEL reachable"); }
#endif
#ifdef CV_HAS_pause_suspend
void h_pause(void) { PAUSE_T *p; cv_i8 *h; pause_suspend(p, h); __CPROVER_assert(0, "SENTINEL reachable"); }
#endif
#ifdef CV_HAS_cq_next
void h_next(void) { cq_next(); __CPROVER_assert(0, "SENTINEL reachable"); }
#endif
#ifdef CV_HAS_ia_ready
void h_ia_ready(void) { ia_ready(); __CPROVER_assert(0, "SENTINEL reachable"); }
#endif
#ifdef CV_HAS_ia_suspend
void h_ia_suspend(void) { cv_i8 *h; ia_suspend(h); __CPROVER_assert(0, "SENTINEL reachable"); }
#endif
#ifdef CV_HAS_sp_suspend_now
void h_suspend_now(void) { SP *p; sp_suspend_now(p); __CPROVER_assert(0, "SENTINEL reachable"); }
#endif
#ifdef CV_HAS_sp_clear
void h_clear(void) { SP *p; sp_clear(p); __CPROVER_assert(0, "SENTINEL reachable"); }
#endif
#ifdef CV_HAS_sp_dtor
void h_dtor(void) { SP *p; sp_dtor(p); __CPROVER_assert(0, "SENTINEL reachable"); }
#endif
#ifdef CV_HAS_sp_await_suspend
void h_await_suspend(void) { SP *p; cv_i8 *h; sp_await_suspend(p, h); __CPROVER_assert(0, "SENTINEL reachable"); }
#endif
