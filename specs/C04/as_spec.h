/* C04 - contracts on async<int>, async<int>::co_awaiter, async_promise<int> and its final_awaiter (src/cocls/async.h).
 * Sequential units (these functions run on the thread that owns the async object / the finishing coroutine); the cross-thread parts of
 * the hand-over are promise::claim (C01) and future::resolve / awaiter protocol (C02).
 * A coroutine frame is an opaque heap block whose promise object sits right behind the two function pointers (offset 16, the layout
 * coroutine_handle<P>::promise() computes); FR_FUTURE(frame) is async_promise::_future. */
#define AS_H(a) ((a)->_h._M_fr_ptr)
#define FR_FUTURE(fr) (*(FUT **)((cv_i8 *)(fr) + 16))
#define FR_FRESH(fr) (__CPROVER_is_fresh(fr, 64))
/* abstract callees */
int gh_destroy_calls; void *gh_destroy_arg; int gh_order; int gh_destroy_at, gh_resolve_at;
#ifdef CV_HAS_ch_destroy
void ch_destroy(CHP *h) { gh_destroy_calls++; gh_destroy_arg = h->_M_fr_ptr; gh_destroy_at = ++gh_order; }
#endif
int gh_resolve_calls; void *gh_resolve_arg; cv_i32 gh_rs_cf; cv_i8 *gh_rs_h[3];
#ifdef CV_HAS_fu_resolve
void fu_resolve(SP *ret, FUT *f) { gh_resolve_calls++; gh_resolve_arg = f; gh_resolve_at = ++gh_order;
  ret->_count_flag = gh_rs_cf; ret->f0.f0._handles[0] = gh_rs_h[0]; ret->f0.f0._handles[1] = gh_rs_h[1]; ret->f0.f0._handles[2] = gh_rs_h[2]; }
#endif
int gh_sn_calls; cv_i32 gh_sn_cf;
#ifdef CV_HAS_sp_suspend_now
void sp_suspend_now(SP *p) { gh_sn_calls++; gh_sn_cf = p->_count_flag; p->_count_flag = 0; }
#endif

/* start_coro(): the handle leaves the object exactly once */
#ifdef CV_HAS_as_start_coro
cv_i8 *as_start_coro(ASY *this_)
__CPROVER_requires(cv_exc_pending == 0 && __CPROVER_is_fresh(this_, sizeof(*this_)))
__CPROVER_assigns(__CPROVER_object_whole(this_))
__CPROVER_ensures(cv_exc_pending == 0 && __CPROVER_return_value == __CPROVER_old(AS_H(this_)) && AS_H(this_) == 0)
__CPROVER_ensures(gh_allocs == __CPROVER_old(gh_allocs))
;
#endif
/* start_promise(p): binds the coroutine to the promise's future iff the promise could be claimed; otherwise the coroutine stays unstarted */
#ifdef CV_HAS_as_start_promise
cv_i8 *as_start_promise(ASY *this_, PROM *p)
__CPROVER_requires(cv_exc_pending == 0 && __CPROVER_is_fresh(this_, sizeof(*this_)) && __CPROVER_is_fresh(p, sizeof(*p)) && FR_FRESH(AS_H(this_)))
__CPROVER_assigns(__CPROVER_object_whole(this_), __CPROVER_object_whole(p), __CPROVER_object_whole(AS_H(this_)))
__CPROVER_ensures(cv_exc_pending == 0 && p->_owner._M_b._M_p == 0)
__CPROVER_ensures(__CPROVER_old(p->_owner._M_b._M_p) != 0 ==> (__CPROVER_return_value == __CPROVER_old(AS_H(this_)) && AS_H(this_) == 0 && FR_FUTURE(__CPROVER_return_value) == __CPROVER_old(p->_owner._M_b._M_p)))
__CPROVER_ensures(__CPROVER_old(p->_owner._M_b._M_p) == 0 ==> (__CPROVER_return_value == 0 && AS_H(this_) == __CPROVER_old(AS_H(this_)) && FR_FUTURE(AS_H(this_)) == 0))   /* claimed promise: nothing is started */
;
#endif
/* start(promise&): reports whether it started; the started coroutine travels in the returned suspend point */
#ifdef CV_HAS_as_start_p
void as_start_p(SPB *ret, ASY *this_, PROM *p)
__CPROVER_requires(cv_exc_pending == 0 && __CPROVER_is_fresh(ret, sizeof(*ret)) && __CPROVER_is_fresh(this_, sizeof(*this_)) && __CPROVER_is_fresh(p, sizeof(*p)) && FR_FRESH(AS_H(this_)))
__CPROVER_assigns(__CPROVER_object_whole(ret), __CPROVER_object_whole(this_), __CPROVER_object_whole(p), __CPROVER_object_whole(AS_H(this_)))
__CPROVER_ensures(cv_exc_pending == 0 && ret->value <= 1)
__CPROVER_ensures(ret->value == (__CPROVER_old(p->_owner._M_b._M_p) != 0 ? 1 : 0))
__CPROVER_ensures(ret->value == 1 ==> (ret->base_suspend_point._count_flag == 2 && ret->base_suspend_point.f0.f0._handles[0] == __CPROVER_old(AS_H(this_)) && AS_H(this_) == 0))
__CPROVER_ensures(ret->value == 0 ==> (ret->base_suspend_point._count_flag == 0 && AS_H(this_) == __CPROVER_old(AS_H(this_))))
;
#endif
/* detach(): bound to nobody; the coroutine travels in the returned suspend point */
#ifdef CV_HAS_as_detach
void as_detach(SP *ret, ASY *this_)
__CPROVER_requires(cv_exc_pending == 0 && __CPROVER_is_fresh(ret, sizeof(*ret)) && __CPROVER_is_fresh(this_, sizeof(*this_)) && FR_FRESH(AS_H(this_)) && FR_FUTURE(AS_H(this_)) == 0)
__CPROVER_assigns(__CPROVER_object_whole(ret), __CPROVER_object_whole(this_))
__CPROVER_ensures(cv_exc_pending == 0 && ret->_count_flag == 2 && ret->f0.f0._handles[0] == __CPROVER_old(AS_H(this_)) && AS_H(this_) == 0)
__CPROVER_ensures(FR_FUTURE(ret->f0.f0._handles[0]) == 0)
;
#endif
/* ~async(): an unstarted coroutine is destroyed (its arguments with it) exactly once; a started / moved-from object destroys nothing */
#ifdef CV_HAS_as_dtor
void as_dtor(ASY *this_)
__CPROVER_requires(cv_exc_pending == 0 && gh_destroy_calls == 0 && __CPROVER_is_fresh(this_, sizeof(*this_)))
__CPROVER_assigns(gh_destroy_calls, gh_destroy_arg, gh_order, gh_destroy_at)
__CPROVER_ensures(cv_exc_pending == 0)
__CPROVER_ensures(AS_H(this_) != 0 ==> (gh_destroy_calls == 1 && gh_destroy_arg == (void *)AS_H(this_)))
__CPROVER_ensures(AS_H(this_) == 0 ==> gh_destroy_calls == 0)
;
#endif
#ifdef CV_HAS_as_move
void as_move(ASY *this_, ASY *other)
__CPROVER_requires(cv_exc_pending == 0 && __CPROVER_is_fresh(this_, sizeof(*this_)) && __CPROVER_is_fresh(other, sizeof(*other)))
__CPROVER_assigns(__CPROVER_object_whole(this_), __CPROVER_object_whole(other))
__CPROVER_ensures(cv_exc_pending == 0 && AS_H(this_) == __CPROVER_old(AS_H(other)) && AS_H(other) == 0)
;
#endif
/* operator co_await(): the handle moves into the awaiter (as its node's handle); the embedded future is initialised, not yet pending */
#ifdef CV_HAS_as_co_await
void as_co_await(CAW *ret, ASY *this_)
__CPROVER_requires(cv_exc_pending == 0 && __CPROVER_is_fresh(ret, sizeof(*ret)) && __CPROVER_is_fresh(this_, sizeof(*this_)))
__CPROVER_assigns(__CPROVER_object_whole(ret), __CPROVER_object_whole(this_))
__CPROVER_ensures(cv_exc_pending == 0 && AS_H(this_) == 0 && ret->base_awaiter._handle_addr == __CPROVER_old(AS_H(this_)) && ret->base_awaiter._resume_fn == 0)
__CPROVER_ensures(ret->base_future.base_future_common._awaiter._M_b._M_p == (AWT *)AW_INSTANCE && ret->base_future.base_future_common._state == 0)
;
#endif
/* co_awaiter::await_suspend(h): wires the awaiting coroutine as the ONLY waiter of the embedded future, binds the child to that future,
 * then transfers to the child (symmetric transfer) */
#ifdef CV_HAS_caw_await_suspend
cv_i8 *caw_await_suspend(CAW *this_, cv_i8 *h)
__CPROVER_requires(cv_exc_pending == 0 && __CPROVER_is_fresh(this_, sizeof(*this_)) && FR_FRESH(this_->base_awaiter._handle_addr) && h != 0)
__CPROVER_assigns(__CPROVER_object_whole(this_), __CPROVER_object_whole(this_->base_awaiter._handle_addr))
__CPROVER_ensures(cv_exc_pending == 0 && __CPROVER_return_value == __CPROVER_old(this_->base_awaiter._handle_addr))          /* the child starts now */
__CPROVER_ensures(FR_FUTURE(__CPROVER_return_value) == &this_->base_future)                                              /* result goes to the awaiting party, nobody else */
__CPROVER_ensures(this_->base_future.base_future_common._awaiter._M_b._M_p == &this_->base_awaiter)             /* pending, one waiter */
__CPROVER_ensures(this_->base_awaiter._handle_addr == h && this_->base_awaiter._resume_fn == 0)                  /* ... the awaiting coroutine */
__CPROVER_ensures(this_->base_awaiter._next == __CPROVER_old(this_->base_awaiter._next))
__CPROVER_ensures(gh_allocs == __CPROVER_old(gh_allocs))
;
#endif
#ifdef CV_HAS_caw_await_ready
cv_i1 caw_await_ready(CAW *this_)
__CPROVER_requires(cv_exc_pending == 0 && __CPROVER_is_fresh(this_, sizeof(*this_)))
__CPROVER_assigns()
__CPROVER_ensures(__CPROVER_return_value == (this_->base_future.base_future_common._awaiter._M_b._M_p == (AWT *)AW_DISABLED ? 1 : 0))
;
#endif
/* async_promise::resolve(v) / unhandled_exception(): the outcome goes to the bound future iff there is one (nobody when detached) */
#ifdef CV_HAS_ap_resolve
void ap_resolve(APR *this_, cv_i32 *v)
__CPROVER_requires(cv_exc_pending == 0 && __CPROVER_is_fresh(this_, sizeof(*this_)) && __CPROVER_is_fresh(v, sizeof(*v)))
__CPROVER_requires(this_->_future != 0 ==> (__CPROVER_is_fresh(this_->_future, sizeof(FUT)) && this_->_future->base_future_common._state == 0))
__CPROVER_assigns(this_->_future != 0: __CPROVER_object_whole(this_->_future))
__CPROVER_ensures(cv_exc_pending == 0)
__CPROVER_ensures(this_->_future != 0 ==> (this_->_future->base_future_common._state == 1 && *(cv_i32 *)&this_->_future->f1 == *v))
__CPROVER_ensures(this_->_future != 0 ==> this_->_future->base_future_common._awaiter._M_b._M_p == __CPROVER_old(this_->_future->base_future_common._awaiter._M_b._M_p))   /* set, not yet resolved: that is final_suspend's job */
;
#endif
/* final_awaiter::await_suspend(me): resolve the bound future FIRST, then destroy the frame exactly once, then transfer to one released
 * waiter (the rest is released by the discarded suspend point) */
#ifdef CV_HAS_fa_await_suspend
cv_i8 *fa_await_suspend(FAW *this_, cv_i8 *me)
__CPROVER_requires(cv_exc_pending == 0 && gh_destroy_calls == 0 && gh_resolve_calls == 0 && gh_sn_calls == 0 && gh_order == 0 && FR_FRESH(me))
__CPROVER_requires(gh_rs_cf == 0 || gh_rs_cf == 2 || gh_rs_cf == 4 || gh_rs_cf == 6)
__CPROVER_assigns(gh_destroy_calls, gh_destroy_arg, gh_order, gh_destroy_at, gh_resolve_calls, gh_resolve_arg, gh_resolve_at, gh_sn_calls, gh_sn_cf)
__CPROVER_ensures(cv_exc_pending == 0 && gh_destroy_calls == 1 && gh_destroy_arg == (void *)me)                                  /* frame freed exactly once */
__CPROVER_ensures(__CPROVER_old(FR_FUTURE(me)) != 0 ==> (gh_resolve_calls == 1 && gh_resolve_arg == (void *)__CPROVER_old(FR_FUTURE(me)) && gh_resolve_at < gh_destroy_at))   /* bound party resolved before the frame dies */
__CPROVER_ensures(__CPROVER_old(FR_FUTURE(me)) == 0 ==> (gh_resolve_calls == 0 && __CPROVER_return_value == (cv_i8 *)NOOP_FRAME && gh_sn_calls == 0))      /* detached: nobody to tell */
__CPROVER_ensures((__CPROVER_old(FR_FUTURE(me)) != 0 && gh_rs_cf == 0) ==> (__CPROVER_return_value == (cv_i8 *)NOOP_FRAME && gh_sn_calls == 0))
__CPROVER_ensures((__CPROVER_old(FR_FUTURE(me)) != 0 && gh_rs_cf >= 2) ==> __CPROVER_return_value == gh_rs_h[(gh_rs_cf >> 1) - 1])                         /* symmetric transfer to one released waiter */
__CPROVER_ensures((__CPROVER_old(FR_FUTURE(me)) != 0 && gh_rs_cf >= 4) ==> (gh_sn_calls == 1 && gh_sn_cf == gh_rs_cf - 2))                                 /* the others are released too, each once */
__CPROVER_ensures((__CPROVER_old(FR_FUTURE(me)) != 0 && gh_rs_cf == 2) ==> gh_sn_calls == 0)
;
#endif

/* the same contract enforced on a fixed-signature wrapper (drivers/c04_async.cpp: drv_caw_suspend_any), so that a rewrite which changes the
 * member's return type is still decided; plus: NOTHING runs inside await_suspend - the child is started by symmetric transfer when it
 * returns, not by a nested resume() (no native stack is consumed per co_await: "for every nesting depth of co_await chains") */
#ifdef CV_HAS_caw_suspend_any
int gh_direct_resumes;
#ifdef CV_HAS_ch_resume_stub
void ch_resume_stub(void *h) { gh_direct_resumes++; }
#endif
cv_i8 *caw_suspend_any(CAW *this_, cv_i8 *h)
__CPROVER_requires(cv_exc_pending == 0 && gh_direct_resumes == 0 && __CPROVER_is_fresh(this_, sizeof(*this_)) && FR_FRESH(this_->base_awaiter._handle_addr) && h != 0)
__CPROVER_assigns(__CPROVER_object_whole(this_), __CPROVER_object_whole(this_->base_awaiter._handle_addr), gh_direct_resumes)
__CPROVER_ensures(cv_exc_pending == 0 && gh_direct_resumes == 0)                                                          /* nothing is resumed inside */
__CPROVER_ensures(__CPROVER_return_value == __CPROVER_old(this_->base_awaiter._handle_addr))                              /* symmetric transfer to the child */
__CPROVER_ensures(FR_FUTURE(__CPROVER_old(this_->base_awaiter._handle_addr)) == &this_->base_future)                      /* result goes to the awaiting party, nobody else */
__CPROVER_ensures(this_->base_future.base_future_common._awaiter._M_b._M_p == &this_->base_awaiter)
__CPROVER_ensures(this_->base_awaiter._handle_addr == h && this_->base_awaiter._resume_fn == 0)
__CPROVER_ensures(gh_allocs == __CPROVER_old(gh_allocs))
;
void h_caw_suspend_any(void) { CAW *c; cv_i8 *h; caw_suspend_any(c, h); __CPROVER_assert(0, "SENTINEL reachable"); }
#endif
/* async_promise::unhandled_exception(): the exception goes to the bound future iff there is one - NOBODY when detached */
#ifdef CV_HAS_ap_unhandled
int gh_se_calls; void *gh_se_this;
#ifdef CV_HAS_fu_set_exc_stub
void fu_set_exc_stub(FUT *f, void *eptr) { gh_se_calls++; gh_se_this = f; }
#endif
void ap_unhandled(APR *this_)
__CPROVER_requires(gh_se_calls == 0 && cv_caught_n == 0 && cv_exc_pending == 0 && __CPROVER_is_fresh(this_, sizeof(*this_)))       /* (the model's current_exception() is null outside a handler - irrelevant here) */
__CPROVER_requires(this_->_future != 0 ==> __CPROVER_is_fresh(this_->_future, sizeof(FUT)))
__CPROVER_assigns(gh_se_calls, gh_se_this, gh_ep_addref, gh_ep_release)
__CPROVER_ensures(this_->_future == 0 ==> gh_se_calls == 0)                                              /* detached: the exception reaches nobody, nothing is touched */
__CPROVER_ensures(this_->_future != 0 ==> (gh_se_calls == 1 && gh_se_this == (void *)this_->_future))   /* bound: exactly the bound future receives it, once */
;
void h_ap_unhandled(void) { APR *p; ap_unhandled(p); __CPROVER_assert(0, "SENTINEL reachable"); }
#endif
/* co_awaiter::await_resume(): the awaiting coroutine receives exactly the embedded future's outcome (value() of THAT future: value by
 * reference, or the stored exception / await_canceled rethrown) - forwarder unit, future<int>::value() is an abstract callee (C01 unit value) */
#ifdef CV_HAS_caw_await_resume
int gh_val_calls; void *gh_val_this; cv_i32 gh_val_cell; int gh_val_throws;
#ifdef CV_HAS_fu_value_stub
cv_i32 *fu_value_stub(FUT *f) { gh_val_calls++; gh_val_this = f; if (gh_val_throws) { cv_exc_pending = 1; return 0; } return &gh_val_cell; }
#endif
cv_i32 *caw_await_resume(CAW *this_)
__CPROVER_requires(cv_exc_pending == 0 && gh_val_calls == 0 && __CPROVER_is_fresh(this_, sizeof(*this_)))
__CPROVER_assigns(gh_val_calls, gh_val_this, cv_exc_pending)
__CPROVER_ensures(gh_val_calls == 1 && gh_val_this == (void *)&this_->base_future)                    /* the outcome of the future the child was bound to, nobody else's */
__CPROVER_ensures(gh_val_throws == 0 ==> (cv_exc_pending == 0 && __CPROVER_return_value == &gh_val_cell))   /* the value, by reference */
__CPROVER_ensures(gh_val_throws != 0 ==> cv_exc_pending == 1)                                                 /* or the exception, propagated */
;
void h_caw_await_resume(void) { CAW *c; caw_await_resume(c); __CPROVER_assert(0, "SENTINEL reachable"); }
#endif
