# C04 - An async coroutine runs once, delivers to its bound party, frees once
CHT = 'std::__n4861::coroutine_handle<void>'
DTYPES = {'CH': CHT, 'DQCH': 'std::deque<%s, std::allocator<%s > >' % (CHT, CHT)}
DQB = [r'^std::deque<std::__n4861::coroutine_handle<void>']
SCEN = ['dbg6', 'dbg1', 'dbg2', 'dbg3', 'dbg4', 'dbg5', 'start_value', 'start_throw', 'start_promise', 'start_claimed', 'detach', 'never_started', 'join', 'future_ctor', 'susp_resolved_later', 'susp_dropped', 'nested', 'void']
GV = {'GV_%s' % g: g for g in ('g_body_runs', 'g_guard_ctor', 'g_guard_dtor', 'g_seen_value', 'g_seen_exc', 'g_seen_canceled')}
GV['GV_qinst'] = '_ZN5cocls10coro_queue8instanceE'
def drive(s):
    return dict(name='drive_' + s, driver='c04_async.cpp', roots=['^drive_%s$' % s], names={}, types=DTYPES, globals=GV, boundary=DQB, lib=['rt_core.c', 'rt_atomic_seq.c', 'model_dq_ring.c'],
                spec=['C04/h_drive.c'], harness='h_drive', defines=['DRV_%s 1' % s, 'CV_NO_SPURIOUS_CAS 1'], unwind=6, object_bits=11, cbmc_flags=['--max-field-sensitivity-array-size', '4096'], kind='bounded', timeout=200,
                bounded='scenario %s: one start mode x completion mode of scripted coroutines, symbolic value, depth<=2, <=1 suspension' % s,
                under_contract=['drive of lowered real code: async<T>::start/start(promise)/detach/join/co_await, async_promise, final_awaiter, future, coro_queue'])
UNITS = [drive(s) for s in SCEN]
META = dict(level='proof', level_text='', level_note='', trusted_base=[], assumptions=[])
