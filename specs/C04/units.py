# C04 - An async coroutine runs once, delivers to its bound party, frees once
CHT = 'std::__n4861::coroutine_handle<void>'
DTYPES = {'CH': CHT, 'DQCH': 'std::deque<%s, std::allocator<%s > >' % (CHT, CHT)}
DQB = [r'^std::deque<std::__n4861::coroutine_handle<void>']
SCEN = ['start_value', 'start_throw', 'start_promise', 'start_claimed', 'detach', 'never_started', 'join', 'join_throw', 'join_void', 'join_void_throw', 'future_ctor', 'void', 'alloc_value', 'alloc_never_started']
HEAVY = ['susp_resolved_later', 'susp_dropped', 'nested']   # symbolic execution of these scenarios does not terminate within the budget (DESIGN C04)
GV = {'GV_%s' % g: g for g in ('g_body_runs', 'g_guard_ctor', 'g_guard_dtor', 'g_seen_value', 'g_seen_exc', 'g_seen_canceled', 'g_acc_allocs', 'g_acc_deallocs', 'g_acc_alloc_sz', 'g_acc_dealloc_sz', 'g_acc_ptr', 'g_acc_dealloc_ptr')}
GV['GV_qinst'] = '_ZN5cocls10coro_queue8instanceE'
def drive(s):
    return dict(name='drive_' + s, driver='c04_async.cpp', roots=['^drive_%s$' % s], names={}, types=DTYPES, globals=GV, boundary=DQB, lib=['rt_core.c', 'rt_atomic_seq.c', 'model_dq_ring.c'],
                spec=['C04/h_drive.c'], harness='h_drive', defines=['DRV_%s 1' % s, 'CV_NO_SPURIOUS_CAS 1'], unwind=6, object_bits=11, cbmc_flags=['--max-field-sensitivity-array-size', '4096'], kind='bounded', timeout=300,
                bounded='scenario %s: one start mode x completion mode of scripted coroutines, symbolic value, depth<=2, <=1 suspension' % s,
                under_contract=['drive of lowered real code: async<T>::start/start(promise)/detach/join/co_await, async_promise, final_awaiter, future, coro_queue'])
CTYPES = {'ASY': 'cocls::async<int>', 'CAW': 'cocls::async<int>::co_awaiter', 'APR': 'cocls::async_promise<int>', 'FAW': 'cocls::async_promise<int>::final_awaiter', 'FUT': 'cocls::future<int>',
          'PROM': 'cocls::promise<int>', 'AWT': 'cocls::awaiter', 'SP': 'cocls::suspend_point<void>', 'SPB': 'cocls::suspend_point<bool>', 'CHP': 'std::__n4861::coroutine_handle<cocls::async_promise<int> >'}
CGLOB = {'AW_INSTANCE': '_ZN5cocls7awaiter8instanceE', 'AW_DISABLED': '_ZN5cocls7awaiter8disabledE', 'NOOP_FRAME': '_ZNSt7__n486116coroutine_handleINS_22noop_coroutine_promiseEE5_S_frE'}
DESTROY = r'^std::__n4861::coroutine_handle<cocls::async_promise<int> >::destroy\(\) const$'
RESOLVE = r'^cocls::future<int>::resolve\(\)$'
SN = r'^cocls::suspend_point<void>::suspend_now\(\)$'
FU_VALUE = r'^cocls::future<int>::value\(\)$'
FU_SET_EXC = r'^(void )?cocls::future<int>::set\(std::__exception_ptr::exception_ptr\)$'
def cunit(name, rx, extra_opt=None, boundary=()):
    opt = {'ch_destroy': DESTROY, 'fu_resolve': RESOLVE, 'sp_suspend_now': SN}; 
    return dict(name=name, driver='c04_async.cpp', roots=[rx], names={name: rx}, names_opt=opt, types=CTYPES, globals=CGLOB, boundary=[DESTROY, RESOLVE, SN] + list(boundary), lib=['rt_core.c', 'rt_atomic_seq.c'],
                spec=['C04/as_spec.h', 'C04/h_as.c'], harness='h_' + name, enforce=name, under_contract=[rx.strip('^$').replace('\\', '')])
CUNITS = [
    cunit('as_start_coro', r'^cocls::async<int>::start_coro\(\)$'),
    cunit('as_start_promise', r'^cocls::async<int>::start_promise\(cocls::promise<int>&\)$'),
    cunit('as_start_p', r'^cocls::async<int>::start\(cocls::promise<int>&\)$'),
    cunit('as_detach', r'^cocls::async<int>::detach\(\)$'),
    cunit('as_dtor', r'^cocls::async<int>::~async\(\)$'),
    cunit('as_move', r'^cocls::async<int>::async\(cocls::async<int>&&\)$'),
    cunit('as_co_await', r'^cocls::async<int>::operator co_await\(\)$'),
    cunit('caw_await_suspend', r'^cocls::async<int>::co_awaiter::await_suspend\(std::__n4861::coroutine_handle<void>\)$'),
    dict(cunit('caw_suspend_any', r'^drv_caw_suspend_any$'), names_opt={'ch_destroy': DESTROY, 'fu_resolve': RESOLVE, 'sp_suspend_now': SN, 'ch_resume_stub': r'^std::__n4861::coroutine_handle<void>::resume\(\) const$'},
         boundary=[DESTROY, RESOLVE, SN, r'^std::__n4861::coroutine_handle<void>::resume\(\) const$'], harness='h_caw_suspend_any', under_contract=['cocls::async<int>::co_awaiter::await_suspend(std::coroutine_handle<>) through a fixed-signature wrapper']),
    dict(cunit('ap_unhandled', r'^drv_prom_unhandled_cur$'), names_opt={'ch_destroy': DESTROY, 'fu_resolve': RESOLVE, 'sp_suspend_now': SN, 'fu_set_exc_stub': FU_SET_EXC},
         boundary=[DESTROY, RESOLVE, SN, FU_SET_EXC], harness='h_ap_unhandled', under_contract=['cocls::async_promise<int>::unhandled_exception()']),
    dict(cunit('caw_await_resume', r'^cocls::async<int>::co_awaiter::await_resume\(\)$'), names_opt={'ch_destroy': DESTROY, 'fu_resolve': RESOLVE, 'sp_suspend_now': SN, 'fu_value_stub': FU_VALUE},
         boundary=[DESTROY, RESOLVE, SN, FU_VALUE], harness='h_caw_await_resume'),
    cunit('caw_await_ready', r'^cocls::async<int>::co_awaiter::await_ready\(\) const$'),
    cunit('ap_resolve', r'^void cocls::async_promise<int>::resolve<int&>\(int&\)$'),
    cunit('fa_await_suspend', r'^std::__n4861::coroutine_handle<void> cocls::async_promise<int>::final_awaiter::await_suspend<cocls::async_promise<int> >\('),
]
UNITS = CUNITS + [drive(s) for s in SCEN]
# "its body executes exactly once" for start() / join() / future(async) issued while a coroutine is running on the calling thread: the
# child must be RUN by start() (nested activation), not merely queued behind the caller (a join() would then wait for itself - seeded
# change C04-6).  The start() lambda is under contract in C05 (unit start_nested: exactly one direct resume of the child, no push); re-run here.
import importlib.util as _ilu4, os as _os4, copy as _copy4
def _c05(names):
    if _os4.environ.get('CV_NESTED_IMPORT'): return []          # C05 imports C04 as well: cut the cycle
    _os4.environ['CV_NESTED_IMPORT'] = '1'
    try:
        sp = _ilu4.spec_from_file_location('c04_c05', _os4.path.join(_os4.path.dirname(_os4.path.dirname(_os4.path.abspath(__file__))), 'C05', 'units.py')); m = _ilu4.module_from_spec(sp); sp.loader.exec_module(m)
    finally:
        del _os4.environ['CV_NESTED_IMPORT']
    out = []
    for x in m.UNITS:
        if x['name'] in names:
            v = _copy4.deepcopy(x); v['name'] = 'C05_' + x['name']; v['defines'] = list(v.get('defines', [])) + ['CV_IMPORTED_BY_C04 1']; out.append(v)
    return out
UNITS += _c05(['start_nested'])
META = dict(
    level='proof',
    level_text='Contract units (proof): async<int>::start_coro, start_promise, start(promise&), detach, ~async, async(async&&), operator co_await, co_awaiter::await_ready/await_suspend, async_promise::resolve, final_awaiter::await_suspend. Clauses from the property: the handle leaves the object exactly once; start(promise) on a claimed promise starts nothing and keeps the coroutine; detach binds nobody; ~async destroys exactly when a handle is still held; co_await wires the awaiting coroutine as the only waiter of the embedded future and binds the child to exactly that future; at final suspend the bound future is resolved strictly before the frame is destroyed, the frame is destroyed exactly once, one released waiter gets the symmetric transfer and the others are released through the discarded suspend point. Bounded drives (never counted as proved) execute really lowered scripted coroutines through the real library for start mode x completion mode (start value/throw, start(promise), start(claimed promise), detach, never started, join, future(async), async<void>): body ran exactly once, value/exception at exactly the bound party, every Guard (argument and local) destroyed exactly once, allocations == frees, normal mode restored.',
    level_note='Trusted: clang front end incl. its coroutine lowering at -O0, ir2c, heap/exception primitives, ring model of the ready queue in the drives, abstract callees future::resolve / coroutine_handle::destroy / suspend_now in the contract units (their behaviour: C01/C02/C05). Frame layout assumption: the promise sits at offset 16 of the frame (what coroutine_handle<P>::promise() computes). NOT covered: drives with a coroutine that really suspends and is resumed later, and nested co_await chains - symbolic execution of those scenarios does not terminate in the budget (CBMC spends its time in field-sensitive dereferencing; three scenarios are kept in units.py as HEAVY, not run); these paths are covered only compositionally by the contract units plus C02/C05. Completion on another thread and thread-pool start are C02/C11. T = int (and void in one drive).',
    technique='CBMC code contracts enforced via goto-instrument --dfcc on the C translation of clang IR of async.h; bounded symbolic execution (cbmc --unwind with unwinding assertions) of clang-lowered real coroutines for the start-mode x completion-mode matrix',
    trusted_base=['abstract callees future<int>::resolve, coroutine_handle<async_promise<int>>::destroy, suspend_point::suspend_now (recording stubs, specs/C04/as_spec.h)', 'bounded FIFO ring model of std::deque<coroutine_handle<>> in the drives (lib/model_dq_ring.c)', 'clang -O0 coroutine lowering (ramp/.resume/.destroy) taken as the semantics of the coroutine bodies'],
    assumptions=['promise object at frame offset 16', 'drives: concrete shapes, symbolic values, unwind 6', 'suspending / nested scenarios not executed (see level_note)'],
    explanation='see level_text')
