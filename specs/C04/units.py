# C04 - An async coroutine runs once, delivers to its bound party, frees once
CHT = 'std::__n4861::coroutine_handle<void>'
DTYPES = {'CH': CHT, 'DQCH': 'std::deque<%s, std::allocator<%s > >' % (CHT, CHT)}
DQB = [r'^std::deque<std::__n4861::coroutine_handle<void>']
SCEN = ['start_value', 'start_throw', 'start_promise', 'start_claimed', 'detach', 'detach_throw', 'never_started', 'join', 'join_throw', 'join_void', 'join_void_throw', 'future_ctor', 'void', 'alloc_value', 'alloc_never_started']
SUSP = ['susp_resolved_later', 'susp_dropped', 'susp_exception', 'susp_promise', 'susp_detached', 'susp_detached_dropped', 'susp_void', 'susp_twice', 'susp_ready', 'nested_void', 'nested', 'nested_throw', 'nested_catch', 'nested_susp', 'nested_susp_dropped', 'nested3']   # suspending / nested scenarios: see sdrive() below
GV = {'GV_%s' % g: g for g in ('g_body_runs', 'g_guard_ctor', 'g_guard_dtor', 'g_seen_value', 'g_seen_exc', 'g_seen_canceled', 'g_acc_allocs', 'g_acc_deallocs', 'g_acc_alloc_sz', 'g_acc_dealloc_sz', 'g_acc_ptr', 'g_acc_dealloc_ptr', 'g_outer_runs', 'g_seen_pending')}
GV['GV_qinst'] = '_ZN5cocls10coro_queue8instanceE'
def drive(s):
    return dict(name='drive_' + s, driver='c04_async.cpp', roots=['^drive_%s$' % s], names={}, types=DTYPES, globals=GV, boundary=DQB, lib=['rt_core.c', 'rt_atomic_seq.c', 'model_dq_ring.c'],
                spec=['C04/h_drive.c'], harness='h_drive', defines=['DRV_%s 1' % s, 'CV_NO_SPURIOUS_CAS 1'], unwind=6, object_bits=11, cbmc_flags=['--max-field-sensitivity-array-size', '4096'], kind='bounded', timeout=300,
                bounded='scenario %s: one start mode x completion mode of scripted coroutines, symbolic value, depth<=2, <=1 suspension' % s,
                under_contract=['drive of lowered real code: async<T>::start/start(promise)/detach/join/co_await, async_promise, final_awaiter, future, coro_queue'])
CTYPES = {'ASY': 'cocls::async<int>', 'CAW': 'cocls::async<int>::co_awaiter', 'APR': 'cocls::async_promise<int>', 'FAW': 'cocls::async_promise<int>::final_awaiter', 'FUT': 'cocls::future<int>',
          'PROM': 'cocls::promise<int>', 'AWT': 'cocls::awaiter', 'SP': 'cocls::suspend_point<void>', 'SPB': 'cocls::suspend_point<bool>', 'CHP': 'std::__n4861::coroutine_handle<cocls::async_promise<int> >'}
CGLOB = {'AW_INSTANCE': '_ZN5cocls7awaiter8instanceE', 'AW_DISABLED': '_ZN5cocls7awaiter8disabledE', 'NOOP_FRAME': '_ZNSt7__n486116coroutine_handleINS_22noop_coroutine_promiseEE5_S_frE'}
DESTROY = r'^std::__n4861::coroutine_handle<cocls::async_promise<int> >::destroy\(\) const$'
RESOLVE = r'^cocls::future<int>::resolve\(\)$'
SN = r'^cocls::suspend_point<void>::suspend_now\(\)$'
FU_VALUE = r'^cocls::future<int>::value\(\)$'
FU_SET_EXC = r'^(void )?cocls::future<int>::set\(std::__exception_ptr::exception_ptr\)$'
def cunit(name, rx, extra_opt=None, boundary=()):
    opt = {'ch_destroy': DESTROY, 'fu_resolve': RESOLVE, 'sp_suspend_now': SN}; 
    return dict(name=name, driver='c04_async.cpp', roots=[rx], names={name: rx}, names_opt=opt, types=CTYPES, globals=CGLOB, boundary=[DESTROY, RESOLVE, SN] + list(boundary), lib=['rt_core.c', 'rt_atomic_seq.c'],
                spec=['C04/as_spec.h', 'C04/h_as.c'], harness='h_' + name, enforce=name, under_contract=[rx.strip('^$').replace('\\', '')])
CUNITS = [
    cunit('as_start_coro', r'^cocls::async<int>::start_coro\(\)$'),
    cunit('as_start_promise', r'^cocls::async<int>::start_promise\(cocls::promise<int>&\)$'),
    cunit('as_start_p', r'^cocls::async<int>::start\(cocls::promise<int>&\)$'),
    cunit('as_detach', r'^cocls::async<int>::detach\(\)$'),
    cunit('as_dtor', r'^cocls::async<int>::~async\(\)$'),
    cunit('as_move', r'^cocls::async<int>::async\(cocls::async<int>&&\)$'),
    cunit('as_co_await', r'^cocls::async<int>::operator co_await\(\)$'),
    cunit('caw_await_suspend', r'^cocls::async<int>::co_awaiter::await_suspend\(std::__n4861::coroutine_handle<void>\)$'),
    dict(cunit('caw_suspend_any', r'^drv_caw_suspend_any$'), names_opt={'ch_destroy': DESTROY, 'fu_resolve': RESOLVE, 'sp_suspend_now': SN, 'ch_resume_stub': r'^std::__n4861::coroutine_handle<void>::resume\(\) const$'},
         boundary=[DESTROY, RESOLVE, SN, r'^std::__n4861::coroutine_handle<void>::resume\(\) const$'], harness='h_caw_suspend_any', under_contract=['cocls::async<int>::co_awaiter::await_suspend(std::coroutine_handle<>) through a fixed-signature wrapper']),
    dict(cunit('ap_unhandled', r'^drv_prom_unhandled_cur$'), names_opt={'ch_destroy': DESTROY, 'fu_resolve': RESOLVE, 'sp_suspend_now': SN, 'fu_set_exc_stub': FU_SET_EXC},
         boundary=[DESTROY, RESOLVE, SN, FU_SET_EXC], harness='h_ap_unhandled', under_contract=['cocls::async_promise<int>::unhandled_exception()']),
    dict(cunit('caw_await_resume', r'^cocls::async<int>::co_awaiter::await_resume\(\)$'), names_opt={'ch_destroy': DESTROY, 'fu_resolve': RESOLVE, 'sp_suspend_now': SN, 'fu_value_stub': FU_VALUE},
         boundary=[DESTROY, RESOLVE, SN, FU_VALUE], harness='h_caw_await_resume'),
    cunit('caw_await_ready', r'^cocls::async<int>::co_awaiter::await_ready\(\) const$'),
    cunit('ap_resolve', r'^void cocls::async_promise<int>::resolve<int&>\(int&\)$'),
    cunit('fa_await_suspend', r'^std::__n4861::coroutine_handle<void> cocls::async_promise<int>::final_awaiter::await_suspend<cocls::async_promise<int> >\('),
]
UNITS = CUNITS + [drive(s) for s in SCEN]
# ---- drives with a coroutine that REALLY SUSPENDS on a pending future and is resumed later, and nested co_await chains (formerly "HEAVY": symbolic
# execution did not terminate).  Where the time went (measured with cbmc --verbosity 9 / --depth N --show-vcc on drive_dbg2): clang lowers every
# std::atomic<T*> operation to an i64 instruction between ptrtoint / inttoptr; the awaiter that a suspended coroutine registers in future::_awaiter is
# a MEMBER of its frame (offset 24), CBMC rewrites (i64)&frame->aw to (i64)&frame + 24 and never folds (awaiter *)((i64)&frame + 24) back into a
# pointer.  From the first subscribe on, `chain != nullptr` in resume_chain_lk, the CAS in subscribe_check_ready (5 unwindings, "not unwinding 6") and
# the devirtualised coroutine_handle::resume() were no longer decided during symbolic execution: every resume forked into all lowered .resume
# functions, co_susp.resume -> final_awaiter -> resume -> co_susp.resume recursed to the unwind bound, each level 4-5 s and growing, each dereference
# through the integer-derived pointer a byte_extract over the whole frame.  Cure: the std::atomic<T*> MEMBER FUNCTIONS are the boundary and read the
# cell as the pointer it is (lib/model_atomic_ptr_api.c, as in the C13/C14 drives) - every pointer stays concrete, each scenario is decided in 2-4 s
# (about 2000 VCCs, all but a few hundred simplified away).  Typed frame objects (lib/model_heap_frames.c) were tried and are NOT needed.
AP = {'ap_aw_load': r'^std::atomic<cocls::awaiter\*>::load\(std::memory_order\) const$', 'ap_aw_xchg': r'^std::atomic<cocls::awaiter\*>::exchange\(', 'ap_aw_store': r'^std::atomic<cocls::awaiter\*>::store\(',
      'ap_aw_cas': r'^std::atomic<cocls::awaiter\*>::compare_exchange_weak\(cocls::awaiter\*&, cocls::awaiter\*, std::memory_order, std::memory_order\)$',
      'ap_fu_load': r'^std::atomic<cocls::future<int>\*>::load\(std::memory_order\) const$', 'ap_fu_xchg': r'^std::atomic<cocls::future<int>\*>::exchange\(', 'ap_fu_store': r'^std::atomic<cocls::future<int>\*>::store\('}
AP_TYPES = {'ATOM_AW': 'std::atomic<cocls::awaiter *>', 'ATOM_FU': 'std::atomic<cocls::future<int> *>', 'AWT': 'cocls::awaiter', 'FUT': 'cocls::future<int>'}
SUSP_WHAT = {
    'susp_resolved_later': 'start(); the coroutine suspends on a pending future, is resumed when the promise is set (same thread), completes with a value',
    'susp_dropped': 'start(); the coroutine suspends on a pending future whose promise is dropped: ends with await_canceled_exception',
    'susp_exception': 'start(); the coroutine suspends on a pending future that is resolved with an exception: ends with that exception',
    'susp_promise': 'start(promise); the coroutine suspends on a pending future and completes later',
    'susp_detached': 'detach(); the coroutine suspends on a pending future and completes later, nobody bound',
    'susp_detached_dropped': 'detach(); the coroutine suspends on a pending future whose promise is dropped: ends with an exception, nobody bound',
    'susp_void': 'async<void>: start(); the coroutine suspends on a pending future<int> and completes later; bound party is a future<void>',
    'susp_twice': 'start(); the coroutine suspends on a pending future, is resumed, suspends on a second pending future, is resumed and completes (two symbolic values)',
    'susp_ready': 'start(); the coroutine co_awaits an already resolved future (no suspension)',
    'nested_void': 'start(); parent co_awaits an async<void> child that completes synchronously (depth 2)',
    'nested': 'start(); parent co_awaits a child that completes synchronously with a value (depth 2)',
    'nested_throw': 'start(); parent co_awaits a child that throws, the exception leaves the parent (depth 2)',
    'nested_catch': 'start(); parent co_awaits a child that throws, the parent catches and returns a value (depth 2)',
    'nested_susp': 'start(); parent co_awaits a child that suspends on a pending future; promise set later: child resumes, completes, symmetric transfer back into the parent (depth 2, one suspension)',
    'nested_susp_dropped': 'start(); parent co_awaits a child that suspends on a pending future; promise dropped: cancellation travels child -> parent -> future',
    'nested3': 'start(); co_await chain of depth 3, synchronous completion with values',
}
def sdrive(s):
    d = drive(s); d['lib'] = ['rt_core.c', 'rt_atomic_seq.c', 'model_atomic_ptr_api.c', 'model_dq_ring.c']
    d['names_opt'] = dict(AP); d['types'] = dict(DTYPES, **AP_TYPES); d['boundary'] = DQB + list(AP.values()); d['spec'] = ['C04/drive_atomics.h', 'C04/h_drive.c']
    d['bounded'] = 'scenario %s: %s; scripted coroutines, concrete shape, symbolic value' % (s, SUSP_WHAT[s])
    d['under_contract'] = ['drive of lowered real code: async<T>::start/start(promise)/detach, async<T>::co_awaiter (operator co_await, await_suspend, await_resume), co_awaiter<future<T>> (await_suspend, subscribe, await_resume), '
                           'promise<T>::operator()/set_exception/drop -> awaiter::resume_chain_set_ready -> resume of the suspended frame, async_promise, final_awaiter (symmetric transfer into the awaiting coroutine), future, coro_queue']
    return d
UNITS += [sdrive(s) for s in SUSP]
# "its body executes exactly once" for start() / join() / future(async) issued while a coroutine is running on the calling thread: the
# child must be RUN by start() (nested activation), not merely queued behind the caller (a join() would then wait for itself - seeded
# change C04-6).  The start() lambda is under contract in C05 (unit start_nested: exactly one direct resume of the child, no push); re-run here.
import importlib.util as _ilu4, os as _os4, copy as _copy4
def _c05(names):
    if _os4.environ.get('CV_NESTED_IMPORT'): return []          # C05 imports C04 as well: cut the cycle
    _os4.environ['CV_NESTED_IMPORT'] = '1'
    try:
        sp = _ilu4.spec_from_file_location('c04_c05', _os4.path.join(_os4.path.dirname(_os4.path.dirname(_os4.path.abspath(__file__))), 'C05', 'units.py')); m = _ilu4.module_from_spec(sp); sp.loader.exec_module(m)
    finally:
        del _os4.environ['CV_NESTED_IMPORT']
    out = []
    for x in m.UNITS:
        if x['name'] in names:
            v = _copy4.deepcopy(x); v['name'] = 'C05_' + x['name']; v['defines'] = list(v.get('defines', [])) + ['CV_IMPORTED_BY_C04 1']; out.append(v)
    return out
UNITS += _c05(['start_nested'])
META = dict(
    level='proof',
    level_text='Contract units (proof): async<int>::start_coro, start_promise, start(promise&), detach, ~async, async(async&&), operator co_await, co_awaiter::await_ready/await_suspend, async_promise::resolve, final_awaiter::await_suspend. Clauses from the property: the handle leaves the object exactly once; start(promise) on a claimed promise starts nothing and keeps the coroutine; detach binds nobody; ~async destroys exactly when a handle is still held; co_await wires the awaiting coroutine as the only waiter of the embedded future and binds the child to exactly that future; at final suspend the bound future is resolved strictly before the frame is destroyed, the frame is destroyed exactly once, one released waiter gets the symmetric transfer and the others are released through the discarded suspend point. Bounded drives (never counted as proved) execute really lowered scripted coroutines through the real library for start mode x completion mode: (a) synchronous completion - start value/throw, start(promise), start(claimed promise), detach (value / throw), never started, join (value / throw, int / void), future(async), async<void>, with_allocator; (b) completion AFTER SUSPENSION on a pending future, resumed later on the same thread - start() x {promise set, promise dropped, exception set}, start(promise), detach x {set, dropped}, async<void>, two suspensions in a row, co_await of an already resolved future; (c) co_await from another coroutine - child returns a value / throws (exception leaves the parent / is caught by the parent) / is async<void> / suspends on a pending future and is resumed later (set / dropped: symmetric transfer from the child\'s final suspend back into the parent), chain of depth 3. Oracle of every drive: each body ran exactly once, value / exception / cancellation reached exactly the bound future (which is READY when looked at) and nothing else did, nobody when detached, every Guard (argument and local) destroyed exactly once, allocations == frees (>= number of frames), no exception escapes, normal mode restored, no memory-safety violation (CBMC pointer checks: use after free of a frame, double resume).',
    level_note='Trusted: clang front end incl. its coroutine lowering at -O0, ir2c, heap/exception primitives, ring model of the ready queue in the drives, sequential member-level model of std::atomic<T*> in the suspending / nested drives (lib/model_atomic_ptr_api.c: load / store / exchange / compare_exchange_weak read and write the cell as a pointer, no spurious CAS failure; same reading as the instruction-level primitives of rt_atomic_seq.c), abstract callees future::resolve / coroutine_handle::destroy / suspend_now in the contract units (their behaviour: C01/C02/C05). Frame layout assumption: the promise sits at offset 16 of the frame (what coroutine_handle<P>::promise() computes). The suspending / nested scenarios were undecidable before (symbolic execution did not terminate): clang lowers atomic<T*> operations to i64 instructions between ptrtoint / inttoptr and CBMC never folds (awaiter *)((i64)&frame + 24) back into a pointer, so from the first subscribe of an awaiter embedded in a coroutine frame no null test, CAS or devirtualised resume() was decided any more; with the member-level model each of them takes 2-4 s. NOT covered: completion on another thread and thread-pool start (C02/C11 contracts), nesting depth > 3 and more than two suspensions per body in a drive (the unbounded statement rests on the contract units), start()/join() issued from inside a running coroutine (C05 unit start_nested, imported), stack depth of long co_await sequences (seeded change C04-4 is functionally invisible in bounded scenarios; it is caught by the contract unit caw_await_suspend). T = int and void.',
    technique='CBMC code contracts enforced via goto-instrument --dfcc on the C translation of clang IR of async.h; bounded symbolic execution (cbmc --unwind with unwinding assertions) of clang-lowered real coroutines for the start-mode x completion-mode matrix incl. suspension / later resumption and nested co_await',
    trusted_base=['abstract callees future<int>::resolve, coroutine_handle<async_promise<int>>::destroy, suspend_point::suspend_now (recording stubs, specs/C04/as_spec.h)', 'bounded FIFO ring model of std::deque<coroutine_handle<>> in the drives (lib/model_dq_ring.c)',
                  'sequential member-level model of std::atomic<cocls::awaiter*> / std::atomic<cocls::future<int>*> in the suspending / nested drives (lib/model_atomic_ptr_api.c via specs/C04/drive_atomics.h; reachability asserted: gh_ap_ops >= 2)',
                  'clang -O0 coroutine lowering (ramp/.resume/.destroy) taken as the semantics of the coroutine bodies'],
    assumptions=['promise object at frame offset 16', 'drives: concrete shapes, symbolic values, unwind 6, nesting depth <= 3, at most two suspensions per coroutine body, single thread, no spurious CAS failure'],
    explanation='see level_text')
