/* C04 drives with a really suspending coroutine / nested co_await: std::atomic<cocls::awaiter*> (future::_awaiter) and
 * std::atomic<cocls::future<int>*> (promise::_owner) read sequentially at member-function level (lib/model_atomic_ptr_api.c explains why:
 * clang lowers every atomic pointer operation to an i64 instruction between ptrtoint / inttoptr, and CBMC does not fold
 * (T *)((cv_i64)&frame->member) back into a pointer - the awaiter embedded in a coroutine frame would come back from the chain as an opaque
 * integer-derived pointer, null tests and the devirtualised resume() stop being decided and symbolic execution forks without end). */
#define CV_AP_STORE(fn, AT, T)  void fn(AT *a, T *v, cv_i32 mo) { gh_ap_ops++; a->_M_b._M_p = v; }
#ifdef CV_HAS_ap_aw_load
CV_AP_LOAD(ap_aw_load, ATOM_AW, AWT)
#endif
#ifdef CV_HAS_ap_aw_xchg
CV_AP_XCHG(ap_aw_xchg, ATOM_AW, AWT)
#endif
#ifdef CV_HAS_ap_aw_cas
CV_AP_CAS(ap_aw_cas, ATOM_AW, AWT)
#endif
#ifdef CV_HAS_ap_aw_store
CV_AP_STORE(ap_aw_store, ATOM_AW, AWT)
#endif
#ifdef CV_HAS_ap_fu_load
CV_AP_LOAD(ap_fu_load, ATOM_FU, FUT)
#endif
#ifdef CV_HAS_ap_fu_xchg
CV_AP_XCHG(ap_fu_xchg, ATOM_FU, FUT)
#endif
#ifdef CV_HAS_ap_fu_store
CV_AP_STORE(ap_fu_store, ATOM_FU, FUT)
#endif
