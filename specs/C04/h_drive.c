/* C04 - bounded drives of really lowered async coroutines (DESIGN 3.8): the scenario functions drive_* of drivers/c04_async.cpp are real
 * C++ against the public API; clang has lowered the scripted coroutines to ramp/.resume/.destroy functions, which run here symbolically
 * (symbolic argument value, concrete shape).  Oracles: the body ran exactly once, the value/exception reached exactly the bound party,
 * every Guard (argument copy and local) constructed was destroyed exactly once, every allocation (the frames) was freed exactly once.
 * Bounded (one scenario = one start mode x completion mode, nesting depth <= 2, one suspension): labelled so, never counted as proved. */
#define G(x) (*(&G_##x))
static void drive_reset(void) {
  cv_exc_pending = 0; gh_allocs = 0; gh_frees = 0;
  for (int i = 0; i < 4; i++) G_g_body_runs[i] = 0;
  G_g_guard_ctor = 0; G_g_guard_dtor = 0; G_g_seen_value = -1; G_g_seen_exc = -1; G_g_seen_canceled = 0; }
#define COMMON_END(frames_min) \
  __CPROVER_assert(cv_exc_pending == 0, "no exception escapes the scenario"); \
  __CPROVER_assert(G_g_guard_ctor == G_g_guard_dtor && G_g_guard_ctor >= 1, "every argument/local of the coroutine destroyed exactly once"); \
  __CPROVER_assert(gh_allocs == gh_frees && gh_allocs >= (frames_min), "every coroutine frame freed exactly once"); \
  __CPROVER_assert(*(&G__ZN5cocls10coro_queue8instanceE) == 0, "back in normal mode: no ready queue left installed"); \
  __CPROVER_assert(0, "SENTINEL reachable: scenario ran to its end")
#define RUNS(i, n) __CPROVER_assert(G_g_body_runs[i] == (n), "body executed exactly the expected number of times")
#ifdef DRV_start_value
void h_drive(void) { cv_i32 x = nondet_unsigned(); drive_reset(); cv_i32 r = drive_start_value(x); __CPROVER_assert(r == 1, "scenario completed");
  RUNS(0, 1); __CPROVER_assert(G_g_seen_value == (cv_i32)(x + 1) && G_g_seen_exc == -1 && G_g_seen_canceled == 0, "start(): the value reaches the returned future"); COMMON_END(1); }
#endif
#ifdef DRV_start_throw
void h_drive(void) { cv_i32 x = nondet_unsigned(); __CPROVER_assume(x != (cv_i32)-1); drive_reset(); cv_i32 r = drive_start_throw(x); __CPROVER_assert(r == 1, "scenario completed");
  RUNS(1, 1); __CPROVER_assert(G_g_seen_exc == x && G_g_seen_value == -1 && G_g_seen_canceled == 0, "start(): the exception reaches the returned future"); COMMON_END(1); }
#endif
#ifdef DRV_start_promise
void h_drive(void) { cv_i32 x = nondet_unsigned(); drive_reset(); cv_i32 r = drive_start_promise(x); __CPROVER_assert(r == 1, "scenario completed");
  RUNS(0, 1); __CPROVER_assert(G_g_seen_value == (cv_i32)(x + 1), "start(promise): the value reaches the promise's future"); COMMON_END(1); }
#endif
#ifdef DRV_start_claimed
void h_drive(void) { cv_i32 x = nondet_unsigned(); drive_reset(); cv_i32 r = drive_start_claimed(x); __CPROVER_assert(r == 1, "start(claimed promise) reports false");
  RUNS(0, 0); __CPROVER_assert(G_g_seen_value == 7, "the earlier resolution stands"); COMMON_END(1); }
#endif
#ifdef DRV_detach
void h_drive(void) { cv_i32 x = nondet_unsigned(); drive_reset(); cv_i32 r = drive_detach(x); __CPROVER_assert(r == 1, "scenario completed"); RUNS(0, 1); COMMON_END(1); }
#endif
#ifdef DRV_never_started
void h_drive(void) { cv_i32 x = nondet_unsigned(); drive_reset(); cv_i32 r = drive_never_started(x); __CPROVER_assert(r == 1, "scenario completed"); RUNS(0, 0); COMMON_END(1); }
#endif
#ifdef DRV_join
void h_drive(void) { cv_i32 x = nondet_unsigned(); drive_reset(); cv_i32 r = drive_join(x); __CPROVER_assert(r == 1, "scenario completed");
  RUNS(0, 1); __CPROVER_assert(G_g_seen_value == (cv_i32)(x + 1), "join(): the value is returned"); COMMON_END(1); }
#endif
#ifdef DRV_join_throw
void h_drive(void) { cv_i32 x = nondet_unsigned(); __CPROVER_assume(x != (cv_i32)-1); drive_reset(); cv_i32 r = drive_join_throw(x); __CPROVER_assert(r == 1, "scenario completed");
  RUNS(1, 1); __CPROVER_assert(G_g_seen_exc == x && G_g_seen_value == -1, "join(): the coroutine's exception is rethrown to the joiner"); COMMON_END(1); }
#endif
#ifdef DRV_join_void
void h_drive(void) { cv_i32 x = nondet_unsigned(); drive_reset(); cv_i32 r = drive_join_void(x); __CPROVER_assert(r == 1, "scenario completed");
  RUNS(0, 1); __CPROVER_assert(G_g_seen_value == 1 && G_g_seen_exc == -1, "async<void>::join(): returns normally after the body ran"); COMMON_END(1); }
#endif
#ifdef DRV_join_void_throw
void h_drive(void) { cv_i32 x = nondet_unsigned(); __CPROVER_assume(x != (cv_i32)-1); drive_reset(); cv_i32 r = drive_join_void_throw(x); __CPROVER_assert(r == 1, "scenario completed");
  RUNS(1, 1); __CPROVER_assert(G_g_seen_exc == x && G_g_seen_value == -1, "async<void>::join(): the coroutine's exception is rethrown to the joiner"); COMMON_END(1); }
#endif
#define ACC_OK __CPROVER_assert(G_g_acc_allocs == 1 && G_g_acc_deallocs == 1 && G_g_acc_dealloc_ptr == G_g_acc_ptr && G_g_acc_dealloc_sz == G_g_acc_alloc_sz, "storage policy: the frame's block is handed back exactly once, same pointer, same size as requested")
#ifdef DRV_alloc_value
void h_drive(void) { cv_i32 x = nondet_unsigned(); drive_reset(); G_g_acc_allocs = 0; G_g_acc_deallocs = 0; cv_i32 r = drive_alloc_value(x); __CPROVER_assert(r == 1, "scenario completed");
  RUNS(0, 1); __CPROVER_assert(G_g_seen_value == (cv_i32)(x + 1), "with_allocator: the value reaches the returned future"); ACC_OK; COMMON_END(1); }
#endif
#ifdef DRV_alloc_never_started
void h_drive(void) { cv_i32 x = nondet_unsigned(); drive_reset(); G_g_acc_allocs = 0; G_g_acc_deallocs = 0; cv_i32 r = drive_alloc_never_started(x); __CPROVER_assert(r == 1, "scenario completed");
  RUNS(0, 0); ACC_OK; COMMON_END(1); }
#endif
#ifdef DRV_future_ctor
void h_drive(void) { cv_i32 x = nondet_unsigned(); drive_reset(); cv_i32 r = drive_future_ctor(x); __CPROVER_assert(r == 1, "scenario completed");
  RUNS(0, 1); __CPROVER_assert(G_g_seen_value == (cv_i32)(x + 1), "future(async): the value reaches the constructed future"); COMMON_END(1); }
#endif
#ifdef DRV_susp_resolved_later
void h_drive(void) { cv_i32 x = nondet_unsigned(); drive_reset(); cv_i32 r = drive_susp_resolved_later(x); __CPROVER_assert(r == 1, "coroutine suspended on the pending future, then completed");
  RUNS(2, 1); __CPROVER_assert(G_g_seen_value == (cv_i32)(x * 2), "completion after suspension: the value reaches the bound future"); COMMON_END(1); }
#endif
#ifdef DRV_susp_dropped
void h_drive(void) { cv_i32 x = nondet_unsigned(); drive_reset(); cv_i32 r = drive_susp_dropped(x); __CPROVER_assert(r == 1, "scenario completed");
  RUNS(2, 1); __CPROVER_assert(G_g_seen_canceled == 1 && G_g_seen_value == -1, "awaited promise dropped: the coroutine ends with await_canceled_exception, which reaches the bound future"); COMMON_END(1); }
#endif
#ifdef DRV_nested
void h_drive(void) { cv_i32 x = nondet_unsigned(); drive_reset(); cv_i32 r = drive_nested(x); __CPROVER_assert(r == 1, "scenario completed");
  RUNS(3, 1); RUNS(0, 1); __CPROVER_assert(G_g_seen_value == (cv_i32)(x + 101), "co_await of a child coroutine: child value reaches the parent, parent value the future"); COMMON_END(2); }
#endif
#ifdef DRV_void
void h_drive(void) { cv_i32 x = nondet_unsigned(); drive_reset(); cv_i32 r = drive_void(x); __CPROVER_assert(r == 1, "scenario completed");
  RUNS(0, 1); __CPROVER_assert(G_g_seen_value == 1, "async<void>: completion reaches the future"); COMMON_END(1); }
#endif
#ifdef DRV_dbg1
void h_drive(void) { cv_i32 x = nondet_unsigned(); drive_reset(); cv_i32 r = drive_dbg1(x); __CPROVER_assert(r == 1, "DBG pending after start"); __CPROVER_assert(0, "SENTINEL reachable: scenario ran to its end"); }
#endif
#ifdef DRV_dbg2
void h_drive(void) { cv_i32 x = nondet_unsigned(); drive_reset(); cv_i32 r = drive_dbg2(x); __CPROVER_assert(r == 1, "DBG pending after start"); __CPROVER_assert(0, "SENTINEL reachable: scenario ran to its end"); }
#endif
#ifdef DRV_dbg3
void h_drive(void) { cv_i32 x = nondet_unsigned(); drive_reset(); cv_i32 r = drive_dbg3(x); __CPROVER_assert(r == 1, "DBG suspended"); __CPROVER_assert(0, "SENTINEL reachable: scenario ran to its end"); }
#endif
#ifdef DRV_dbg4
void h_drive(void) { cv_i32 x = nondet_unsigned(); drive_reset(); cv_i32 r = drive_dbg4(x); __CPROVER_assert(r == 1, "DBG suspended"); __CPROVER_assert(0, "SENTINEL reachable: scenario ran to its end"); }
#endif
#ifdef DRV_dbg5
void h_drive(void) { cv_i32 x = nondet_unsigned(); drive_reset(); cv_i32 r = drive_dbg5(x); __CPROVER_assert(r == 1, "DBG suspended"); __CPROVER_assert(0, "SENTINEL reachable: scenario ran to its end"); }
#endif
#ifdef DRV_dbg6
void h_drive(void) { cv_i32 x = nondet_unsigned(); drive_reset(); cv_i32 r = drive_dbg6(x); __CPROVER_assert(r == 1, "DBG claim returns the future; still pending"); __CPROVER_assert(0, "SENTINEL reachable: scenario ran to its end"); }
#endif
