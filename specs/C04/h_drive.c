/* C04 - bounded drives of really lowered async coroutines (DESIGN 3.8): the scenario functions drive_* of drivers/c04_async.cpp are real
 * C++ against the public API; clang has lowered the scripted coroutines to ramp/.resume/.destroy functions, which run here symbolically
 * (symbolic argument value, concrete shape).  Oracles: the body ran exactly once, the value/exception reached exactly the bound party,
 * every Guard (argument copy and local) constructed was destroyed exactly once, every allocation (the frames) was freed exactly once,
 * the bound future is READY (not merely holding a value) when the scenario looks at it.
 * Bounded (one scenario = one start mode x completion mode, nesting depth <= 3, one suspension): labelled so, never counted as proved.
 * The scenarios in which a coroutine really suspends on a pending future and is resumed later, and the nested co_await chains, read the
 * std::atomic<T*> members at member-function level (specs/C04/drive_atomics.h; units.py sdrive() explains why that makes them decidable). */
#define G(x) (*(&G_##x))
static void drive_reset(void) {
  cv_exc_pending = 0; gh_allocs = 0; gh_frees = 0;
  for (int i = 0; i < 4; i++) G_g_body_runs[i] = 0;
  G_g_guard_ctor = 0; G_g_guard_dtor = 0; G_g_seen_value = -1; G_g_seen_exc = -1; G_g_seen_canceled = 0; G_g_outer_runs = 0; G_g_seen_pending = 0; }
#ifdef CV_HAS_ap_aw_xchg   /* units that read std::atomic<T*> at member level (specs/C04/drive_atomics.h): the model must really have been exercised */
#define AP_REACHED __CPROVER_assert(gh_ap_ops >= 2, "model reachability: the std::atomic<T*> member-level model was exercised")
#else
#define AP_REACHED
#endif
#define COMMON_END(frames_min) \
  AP_REACHED; \
  __CPROVER_assert(cv_exc_pending == 0, "no exception escapes the scenario"); \
  __CPROVER_assert(G_g_seen_pending == 0, "the bound future is READY when the scenario looks at it (resolved, not merely holding a value)"); \
  __CPROVER_assert(G_g_guard_ctor == G_g_guard_dtor && G_g_guard_ctor >= 1, "every argument/local of the coroutine destroyed exactly once"); \
  __CPROVER_assert(gh_allocs == gh_frees && gh_allocs >= (frames_min), "every coroutine frame freed exactly once"); \
  __CPROVER_assert(*(&G__ZN5cocls10coro_queue8instanceE) == 0, "back in normal mode: no ready queue left installed"); \
  __CPROVER_assert(0, "SENTINEL reachable: scenario ran to its end")
#define RUNS(i, n) __CPROVER_assert(G_g_body_runs[i] == (n), "body executed exactly the expected number of times")
#ifdef DRV_start_value
void h_drive(void) { cv_i32 x = nondet_unsigned(); drive_reset(); cv_i32 r = drive_start_value(x); __CPROVER_assert(r == 1, "scenario completed");
  RUNS(0, 1); __CPROVER_assert(G_g_seen_value == (cv_i32)(x + 1) && G_g_seen_exc == -1 && G_g_seen_canceled == 0, "start(): the value reaches the returned future"); COMMON_END(1); }
#endif
#ifdef DRV_start_throw
void h_drive(void) { cv_i32 x = nondet_unsigned(); __CPROVER_assume(x != (cv_i32)-1); drive_reset(); cv_i32 r = drive_start_throw(x); __CPROVER_assert(r == 1, "scenario completed");
  RUNS(1, 1); __CPROVER_assert(G_g_seen_exc == x && G_g_seen_value == -1 && G_g_seen_canceled == 0, "start(): the exception reaches the returned future"); COMMON_END(1); }
#endif
#ifdef DRV_start_promise
void h_drive(void) { cv_i32 x = nondet_unsigned(); drive_reset(); cv_i32 r = drive_start_promise(x); __CPROVER_assert(r == 1, "scenario completed");
  RUNS(0, 1); __CPROVER_assert(G_g_seen_value == (cv_i32)(x + 1), "start(promise): the value reaches the promise's future"); COMMON_END(1); }
#endif
#ifdef DRV_start_claimed
void h_drive(void) { cv_i32 x = nondet_unsigned(); drive_reset(); cv_i32 r = drive_start_claimed(x); __CPROVER_assert(r == 1, "start(claimed promise) reports false");
  RUNS(0, 0); __CPROVER_assert(G_g_seen_value == 7, "the earlier resolution stands"); COMMON_END(1); }
#endif
#ifdef DRV_detach
void h_drive(void) { cv_i32 x = nondet_unsigned(); drive_reset(); cv_i32 r = drive_detach(x); __CPROVER_assert(r == 1, "scenario completed"); RUNS(0, 1); COMMON_END(1); }
#endif
#ifdef DRV_never_started
void h_drive(void) { cv_i32 x = nondet_unsigned(); drive_reset(); cv_i32 r = drive_never_started(x); __CPROVER_assert(r == 1, "scenario completed"); RUNS(0, 0); COMMON_END(1); }
#endif
#ifdef DRV_join
void h_drive(void) { cv_i32 x = nondet_unsigned(); drive_reset(); cv_i32 r = drive_join(x); __CPROVER_assert(r == 1, "scenario completed");
  RUNS(0, 1); __CPROVER_assert(G_g_seen_value == (cv_i32)(x + 1), "join(): the value is returned"); COMMON_END(1); }
#endif
#ifdef DRV_join_throw
void h_drive(void) { cv_i32 x = nondet_unsigned(); __CPROVER_assume(x != (cv_i32)-1); drive_reset(); cv_i32 r = drive_join_throw(x); __CPROVER_assert(r == 1, "scenario completed");
  RUNS(1, 1); __CPROVER_assert(G_g_seen_exc == x && G_g_seen_value == -1, "join(): the coroutine's exception is rethrown to the joiner"); COMMON_END(1); }
#endif
#ifdef DRV_join_void
void h_drive(void) { cv_i32 x = nondet_unsigned(); drive_reset(); cv_i32 r = drive_join_void(x); __CPROVER_assert(r == 1, "scenario completed");
  RUNS(0, 1); __CPROVER_assert(G_g_seen_value == 1 && G_g_seen_exc == -1, "async<void>::join(): returns normally after the body ran"); COMMON_END(1); }
#endif
#ifdef DRV_join_void_throw
void h_drive(void) { cv_i32 x = nondet_unsigned(); __CPROVER_assume(x != (cv_i32)-1); drive_reset(); cv_i32 r = drive_join_void_throw(x); __CPROVER_assert(r == 1, "scenario completed");
  RUNS(1, 1); __CPROVER_assert(G_g_seen_exc == x && G_g_seen_value == -1, "async<void>::join(): the coroutine's exception is rethrown to the joiner"); COMMON_END(1); }
#endif
#define ACC_OK __CPROVER_assert(G_g_acc_allocs == 1 && G_g_acc_deallocs == 1 && G_g_acc_dealloc_ptr == G_g_acc_ptr && G_g_acc_dealloc_sz == G_g_acc_alloc_sz, "storage policy: the frame's block is handed back exactly once, same pointer, same size as requested")
#ifdef DRV_alloc_value
void h_drive(void) { cv_i32 x = nondet_unsigned(); drive_reset(); G_g_acc_allocs = 0; G_g_acc_deallocs = 0; cv_i32 r = drive_alloc_value(x); __CPROVER_assert(r == 1, "scenario completed");
  RUNS(0, 1); __CPROVER_assert(G_g_seen_value == (cv_i32)(x + 1), "with_allocator: the value reaches the returned future"); ACC_OK; COMMON_END(1); }
#endif
#ifdef DRV_alloc_never_started
void h_drive(void) { cv_i32 x = nondet_unsigned(); drive_reset(); G_g_acc_allocs = 0; G_g_acc_deallocs = 0; cv_i32 r = drive_alloc_never_started(x); __CPROVER_assert(r == 1, "scenario completed");
  RUNS(0, 0); ACC_OK; COMMON_END(1); }
#endif
#ifdef DRV_future_ctor
void h_drive(void) { cv_i32 x = nondet_unsigned(); drive_reset(); cv_i32 r = drive_future_ctor(x); __CPROVER_assert(r == 1, "scenario completed");
  RUNS(0, 1); __CPROVER_assert(G_g_seen_value == (cv_i32)(x + 1), "future(async): the value reaches the constructed future"); COMMON_END(1); }
#endif
#ifdef DRV_susp_resolved_later
void h_drive(void) { cv_i32 x = nondet_unsigned(); drive_reset(); cv_i32 r = drive_susp_resolved_later(x); __CPROVER_assert(r == 1, "coroutine suspended on the pending future, then completed");
  RUNS(2, 1); __CPROVER_assert(G_g_seen_value == (cv_i32)(x * 2) && G_g_seen_exc == -1 && G_g_seen_canceled == 0, "completion after suspension: the value reaches the bound future"); COMMON_END(1); }
#endif
#ifdef DRV_susp_dropped
void h_drive(void) { cv_i32 x = nondet_unsigned(); drive_reset(); cv_i32 r = drive_susp_dropped(x); __CPROVER_assert(r == 1, "scenario completed");
  RUNS(2, 1); __CPROVER_assert(G_g_seen_canceled == 1 && G_g_seen_value == -1 && G_g_seen_exc == -1, "awaited promise dropped: the coroutine ends with await_canceled_exception, which reaches the bound future"); COMMON_END(1); }
#endif
#ifdef DRV_nested
void h_drive(void) { cv_i32 x = nondet_unsigned(); drive_reset(); cv_i32 r = drive_nested(x); __CPROVER_assert(r == 1, "scenario completed");
  RUNS(3, 1); RUNS(0, 1); __CPROVER_assert(G_g_seen_value == (cv_i32)(x + 101) && G_g_seen_exc == -1 && G_g_seen_canceled == 0, "co_await of a child coroutine: child value reaches the parent, parent value the future"); COMMON_END(2); }
#endif
/* ---- completion after suspension x start mode / completion mode; deeper, failing and suspending co_await chains */
#define SEEN(v, e, c, txt) __CPROVER_assert(G_g_seen_value == (v) && G_g_seen_exc == (e) && G_g_seen_canceled == (c), txt)
#ifdef DRV_susp_exception
void h_drive(void) { cv_i32 x = nondet_unsigned(); __CPROVER_assume(x != (cv_i32)-1); drive_reset(); cv_i32 r = drive_susp_exception(x); __CPROVER_assert(r == 1, "coroutine suspended on the pending future, then completed");
  RUNS(2, 1); SEEN(-1, x, 0, "awaited future resolved with an exception: it is rethrown in the coroutine and reaches the bound future, nothing else does"); COMMON_END(1); }
#endif
#ifdef DRV_susp_promise
void h_drive(void) { cv_i32 x = nondet_unsigned(); drive_reset(); cv_i32 r = drive_susp_promise(x); __CPROVER_assert(r == 1, "coroutine suspended on the pending future (promise's future still pending), then completed");
  RUNS(2, 1); SEEN((cv_i32)(x * 2), -1, 0, "start(promise), completion after suspension: the value reaches the promise's future"); COMMON_END(1); }
#endif
#ifdef DRV_susp_detached
void h_drive(void) { cv_i32 x = nondet_unsigned(); drive_reset(); cv_i32 r = drive_susp_detached(x); __CPROVER_assert(r == 1, "detached coroutine ran up to its suspension (body entered once, arguments alive), then completed");
  RUNS(2, 1); SEEN(-1, -1, 0, "detach(): nobody is bound"); COMMON_END(1); }
#endif
#ifdef DRV_susp_detached_dropped
void h_drive(void) { cv_i32 x = nondet_unsigned(); drive_reset(); cv_i32 r = drive_susp_detached_dropped(x); __CPROVER_assert(r == 1, "detached coroutine ran up to its suspension (body entered once, arguments alive), then was cancelled");
  RUNS(2, 1); SEEN(-1, -1, 0, "detach(): nobody is bound - the cancellation exception of the detached coroutine goes nowhere"); COMMON_END(1); }
#endif
#ifdef DRV_detach_throw
void h_drive(void) { cv_i32 x = nondet_unsigned(); drive_reset(); cv_i32 r = drive_detach_throw(x); __CPROVER_assert(r == 1, "scenario completed");
  RUNS(1, 1); SEEN(-1, -1, 0, "detach(): nobody is bound - the exception of the detached coroutine goes nowhere"); COMMON_END(1); }
#endif
#ifdef DRV_susp_void
void h_drive(void) { cv_i32 x = nondet_unsigned(); drive_reset(); cv_i32 r = drive_susp_void(x); __CPROVER_assert(r == 1, "coroutine suspended on the pending future, then completed");
  RUNS(2, 1); SEEN(x, -1, 0, "async<void>, completion after suspension: the awaited value reached the coroutine, its completion the bound future<void>"); COMMON_END(1); }
#endif
#ifdef DRV_nested_void
void h_drive(void) { cv_i32 x = nondet_unsigned(); drive_reset(); cv_i32 r = drive_nested_void(x); __CPROVER_assert(r == 1, "scenario completed");
  RUNS(3, 1); RUNS(0, 1); SEEN((cv_i32)(x + 100), -1, 0, "co_await of an async<void> child: the parent continues after the child ran, the parent's value reaches the future"); COMMON_END(2); }
#endif
#ifdef DRV_susp_twice
void h_drive(void) { cv_i32 x = nondet_unsigned(); cv_i32 y = nondet_unsigned(); drive_reset(); cv_i32 r = drive_susp_twice(x, y); __CPROVER_assert(r == 1, "coroutine suspended twice (future pending, argument + two locals alive in between), then completed");
  RUNS(2, 1); SEEN((cv_i32)(x * 2 + y), -1, 0, "two suspensions: both awaited values reach the coroutine, its value the bound future"); COMMON_END(1); }
#endif
#ifdef DRV_susp_ready
void h_drive(void) { cv_i32 x = nondet_unsigned(); drive_reset(); cv_i32 r = drive_susp_ready(x); __CPROVER_assert(r == 1, "scenario completed");
  RUNS(2, 1); SEEN((cv_i32)(x * 2), -1, 0, "co_await of an already resolved future: no suspension, the value reaches the bound future"); COMMON_END(1); }
#endif
#ifdef DRV_nested_throw
void h_drive(void) { cv_i32 x = nondet_unsigned(); __CPROVER_assume(x != (cv_i32)-1); drive_reset(); cv_i32 r = drive_nested_throw(x); __CPROVER_assert(r == 1, "scenario completed");
  RUNS(3, 1); RUNS(1, 1); SEEN(-1, x, 0, "co_await of a throwing child: the exception reaches the parent (its bound party), the parent's exception reaches the future"); COMMON_END(2); }
#endif
#ifdef DRV_nested_catch
void h_drive(void) { cv_i32 x = nondet_unsigned(); drive_reset(); cv_i32 r = drive_nested_catch(x); __CPROVER_assert(r == 1, "scenario completed");
  RUNS(3, 1); RUNS(1, 1); SEEN((cv_i32)(x + 7), -1, 0, "co_await of a throwing child: the parent catches exactly the child's exception; its own value reaches the future"); COMMON_END(2); }
#endif
#ifdef DRV_nested_susp
void h_drive(void) { cv_i32 x = nondet_unsigned(); drive_reset(); cv_i32 r = drive_nested_susp(x); __CPROVER_assert(r == 1, "child suspended inside the parent's co_await (future pending), then completed");
  RUNS(3, 1); RUNS(2, 1); SEEN((cv_i32)(x * 2 + 100), -1, 0, "child completes after suspension: its value reaches the awaiting parent, the parent's value the future"); COMMON_END(2); }
#endif
#ifdef DRV_nested_susp_dropped
void h_drive(void) { cv_i32 x = nondet_unsigned(); drive_reset(); cv_i32 r = drive_nested_susp_dropped(x); __CPROVER_assert(r == 1, "child suspended inside the parent's co_await (future pending), then cancelled");
  RUNS(3, 1); RUNS(2, 1); SEEN(-1, -1, 1, "promise awaited by the child dropped: await_canceled_exception travels child -> parent -> bound future"); COMMON_END(2); }
#endif
#ifdef DRV_nested3
void h_drive(void) { cv_i32 x = nondet_unsigned(); drive_reset(); cv_i32 r = drive_nested3(x); __CPROVER_assert(r == 1, "scenario completed");
  __CPROVER_assert(G_g_outer_runs == 1, "body executed exactly the expected number of times"); RUNS(3, 1); RUNS(0, 1); SEEN((cv_i32)(x + 1101), -1, 0, "co_await chain of depth 3: each value reaches exactly the awaiting coroutine, the outermost value the future"); COMMON_END(3); }
#endif
#ifdef DRV_void
void h_drive(void) { cv_i32 x = nondet_unsigned(); drive_reset(); cv_i32 r = drive_void(x); __CPROVER_assert(r == 1, "scenario completed");
  RUNS(0, 1); __CPROVER_assert(G_g_seen_value == 1, "async<void>: completion reaches the future"); COMMON_END(1); }
#endif
#ifdef DRV_dbg1
void h_drive(void) { cv_i32 x = nondet_unsigned(); drive_reset(); cv_i32 r = drive_dbg1(x); __CPROVER_assert(r == 1, "DBG pending after start"); __CPROVER_assert(0, "SENTINEL reachable: scenario ran to its end"); }
#endif
#ifdef DRV_dbg2
void h_drive(void) { cv_i32 x = nondet_unsigned(); drive_reset(); cv_i32 r = drive_dbg2(x); __CPROVER_assert(r == 1, "DBG pending after start"); __CPROVER_assert(0, "SENTINEL reachable: scenario ran to its end"); }
#endif
#ifdef DRV_dbg3
void h_drive(void) { cv_i32 x = nondet_unsigned(); drive_reset(); cv_i32 r = drive_dbg3(x); __CPROVER_assert(r == 1, "DBG suspended"); __CPROVER_assert(0, "SENTINEL reachable: scenario ran to its end"); }
#endif
#ifdef DRV_dbg4
void h_drive(void) { cv_i32 x = nondet_unsigned(); drive_reset(); cv_i32 r = drive_dbg4(x); __CPROVER_assert(r == 1, "DBG suspended"); __CPROVER_assert(0, "SENTINEL reachable: scenario ran to its end"); }
#endif
#ifdef DRV_dbg5
void h_drive(void) { cv_i32 x = nondet_unsigned(); drive_reset(); cv_i32 r = drive_dbg5(x); __CPROVER_assert(r == 1, "DBG suspended"); __CPROVER_assert(0, "SENTINEL reachable: scenario ran to its end"); }
#endif
#ifdef DRV_dbg6
void h_drive(void) { cv_i32 x = nondet_unsigned(); drive_reset(); cv_i32 r = drive_dbg6(x); __CPROVER_assert(r == 1, "DBG claim returns the future; still pending"); __CPROVER_assert(0, "SENTINEL reachable: scenario ran to its end"); }
#endif
