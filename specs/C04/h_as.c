#define H1(n, decl, call) void h_##n(void) { decl; call; __CPROVER_assert(0, "SENTINEL reachable"); }
#ifdef CV_HAS_as_start_coro
H1(as_start_coro, ASY *a, as_start_coro(a))
#endif
#ifdef CV_HAS_as_start_promise
void h_as_start_promise(void) { ASY *a; PROM *p; cv_i8 *r = as_start_promise(a, p); if (r) __CPROVER_assert(0, "SENTINEL reachable: started"); else __CPROVER_assert(0, "SENTINEL reachable: promise was already claimed"); }
#endif
#ifdef CV_HAS_as_start_p
H1(as_start_p, SPB *r; ASY *a; PROM *p, as_start_p(r, a, p))
#endif
#ifdef CV_HAS_as_detach
H1(as_detach, SP *r; ASY *a, as_detach(r, a))
#endif
#ifdef CV_HAS_as_dtor
void h_as_dtor(void) { ASY *a; as_dtor(a); if (gh_destroy_calls) __CPROVER_assert(0, "SENTINEL reachable: unstarted coroutine destroyed"); else __CPROVER_assert(0, "SENTINEL reachable: nothing to destroy"); }
#endif
#ifdef CV_HAS_as_move
H1(as_move, ASY *a; ASY *b, as_move(a, b))
#endif
#ifdef CV_HAS_as_co_await
H1(as_co_await, CAW *r; ASY *a, as_co_await(r, a))
#endif
#ifdef CV_HAS_caw_await_suspend
H1(caw_await_suspend, CAW *c; cv_i8 *h, caw_await_suspend(c, h))
#endif
#ifdef CV_HAS_caw_await_ready
H1(caw_await_ready, CAW *c, caw_await_ready(c))
#endif
#ifdef CV_HAS_ap_resolve
void h_ap_resolve(void) { APR *p; cv_i32 *v; ap_resolve(p, v); __CPROVER_assert(0, "SENTINEL reachable"); }
#endif
#ifdef CV_HAS_fa_await_suspend
void h_fa_await_suspend(void) { FAW *f; cv_i8 *me; fa_await_suspend(f, me); if (gh_resolve_calls) __CPROVER_assert(0, "SENTINEL reachable: bound coroutine finished"); else __CPROVER_assert(0, "SENTINEL reachable: detached coroutine finished"); }
#endif
