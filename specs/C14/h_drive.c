/* C14 - BOUNDED DRIVE of the really lowered generator_aggregator coroutine (DESIGN 3.8).  Never counted as proof.
 * Scenarios: real C++ in drivers/c14_aggregator.cpp.  n <= 3 scripted SYNCHRONOUS sources of length <= 2 (one may throw), consumer by
 * next()/value() or by call-to-future, optional early destruction.  The harness runs EVERY shape of the unit one after the other (plain
 * loops: after unwinding each run has a concrete shape, the VALUES stay symbolic) and resets models and counters in between.
 * Values carry a tag in the top byte (source, index) so that an observed value can be attributed to the yield it came from; the low
 * 24 bits are symbolic.
 * Oracle (from the property statement): multiset union - every yielded value observed exactly once, nothing else; each source's values
 * in that source's order; end when and only when all sources have ended; a source's exception loses nothing of the others and is
 * reported (after everything else); arguments go to the source whose value was returned last; destruction while parked destroys every
 * source's locals exactly once and leaks nothing (allocations == deallocations). */
#define OBS(i) ((*G_OBS)[i])
#define NOBS (*G_NOBS)
#define END (*G_END)
int nondet_int(void);
unsigned gh_wait_calls, gh_notify_calls;
#ifdef CV_HAS_ab_wait
void ab_wait(ATOMB *flag, cv_i1 old, cv_i32 order) { gh_wait_calls++;
  __CPROVER_assert((*(cv_i8 *)flag & 1) != old, "single-threaded drive: a blocking wait is entered only after the awaited step has completed"); }
#endif
#ifdef CV_HAS_ab_notify
void ab_notify(ATOMB *flag) { gh_notify_calls++; }
#endif
#define TAG(i, j) ((cv_i32)(2 * (i) + (j) + 1) << 24)
#define SYM(i, j) (TAG(i, j) | ((cv_i32)nondet_int() & 0xFFFFFF))
static unsigned allocs0, frees0, typed0;
static void drive_reset(void) {
  NOBS = 0; END = 0; *G_EXC_N = 0; *G_EXC_AT = 0; *G_EXC_VAL = 0; *G_NMV = 0; *G_OTHER_EXC = 0; *G_CTOR = 0; *G_DTOR = 0; *G_NARGS = 0;
  for (int i = 0; i < 8; i++) OBS(i) = 0;
#ifdef CV_HAS_vg_ctor
  cvv_gen_used = 0;
#endif
#ifdef CV_HAS_vc_ctor
  cvv_cb_used = 0;
#endif
  allocs0 = gh_allocs; frees0 = gh_frees; typed0 = gh_frames_typed; gh_wait_calls = 0; }
/* position of value v in the observed sequence (-1: absent); *cnt = number of occurrences */
static int find_obs(cv_i32 v, int *cnt) { int pos = -1; int c = 0; for (int p = 0; p < 8; p++) if (p < (int)NOBS && OBS(p) == v) { if (pos < 0) pos = p; c++; } *cnt = c; return pos; }
#define NO_STRAY __CPROVER_assert(cv_exc_pending == 0 && *G_OTHER_EXC == 0 && *G_NMV == 0, "drive: no stray exception reaches the consumer")
#define CHECK_HEAP(frames) do { \
  __CPROVER_assert(gh_allocs - allocs0 == gh_frees - frees0, "nothing leaks: every allocation (frames, vector buffers) is released exactly once"); \
  __CPROVER_assert(gh_frames_typed - typed0 == (frames), "one coroutine frame per source plus the aggregator's"); \
  __CPROVER_assert(gh_allocs - allocs0 == (frames) + gh_vec_attached - vec0, "no allocation besides frames and the two vector buffers"); } while (0)
/* every value of source i (k of them: a, b) was observed exactly once, in source order; returns nothing, fills pos[] */
#define CHECK_SOURCE(i, k, a, b, pa, pb) do { int c_; \
  if ((k) > 0) { pa = find_obs(a, &c_); __CPROVER_assert(c_ == 1, "every value a source yields is observed exactly once (1st value)"); } \
  if ((k) > 1) { pb = find_obs(b, &c_); __CPROVER_assert(c_ == 1, "every value a source yields is observed exactly once (2nd value)"); \
                 __CPROVER_assert(pa < pb, "values of one source are observed in that source's order"); } } while (0)

#if defined(DRIVE_aggr) || defined(DRIVE_aggr_throw) || defined(DRIVE_aggr_early)
#ifndef AGG_N
#define AGG_N 2
#endif
#ifndef AGG_STYLE
#define AGG_STYLE 0
#endif
#define KMAX(i) (AGG_N > (i) ? 2 : 0)
#endif

/* ---- all sources finite and well-behaved: every combination of lengths 0..2 */
#ifdef DRIVE_aggr
void h_drive(void) {
  unsigned runs = 0;
  for (cv_i32 k0 = 0; k0 <= KMAX(0); k0++) for (cv_i32 k1 = 0; k1 <= KMAX(1); k1++) for (cv_i32 k2 = 0; k2 <= KMAX(2); k2++) {
    drive_reset(); unsigned vec0 = gh_vec_attached;
    cv_i32 a0 = SYM(0, 0), b0 = SYM(0, 1), a1 = SYM(1, 0), b1 = SYM(1, 1), a2 = SYM(2, 0), b2 = SYM(2, 1);
    drive_aggr(AGG_N, AGG_STYLE, -1, 0, k0, a0, b0, 0, k1, a1, b1, 0, k2, a2, b2, 0);
    NO_STRAY;
    int total = (AGG_N > 0 ? k0 : 0) + (AGG_N > 1 ? k1 : 0) + (AGG_N > 2 ? k2 : 0);
    __CPROVER_assert(NOBS == total, "the aggregate yields exactly as many values as its sources together (multiset union: nothing lost, nothing invented)");
    int pa = -1, pb = -1;
    if (AGG_N > 0) CHECK_SOURCE(0, k0, a0, b0, pa, pb);
    if (AGG_N > 1) CHECK_SOURCE(1, k1, a1, b1, pa, pb);
    if (AGG_N > 2) CHECK_SOURCE(2, k2, a2, b2, pa, pb);
    __CPROVER_assert(END == 1 && *G_EXC_N == 0, "the aggregate ends when - and only when - all sources have ended; one end indication");
    __CPROVER_assert(*G_CTOR == AGG_N && *G_DTOR == AGG_N, "every source ran and its locals were destroyed exactly once");
    CHECK_HEAP(AGG_N + 1);
    runs++; }
  __CPROVER_assert(runs == (KMAX(0) + 1) * (KMAX(1) + 1) * (KMAX(2) + 1), "drive: every shape was run");
  __CPROVER_assert(0, "SENTINEL reachable: all shapes completed"); }
#endif

/* ---- one source (index w) throws e after pos values; the others have length OTHER_K */
#ifdef DRIVE_aggr_throw
#ifndef OTHER_K
#define OTHER_K 2
#endif
void h_drive(void) {
  unsigned runs = 0;
  for (cv_i32 w = 0; w < AGG_N; w++) for (cv_i32 pos = 0; pos <= 2; pos++) for (cv_i32 ko = 0; ko <= OTHER_K; ko++) {
    if (AGG_N == 1 && ko > 0) continue;
    drive_reset(); unsigned vec0 = gh_vec_attached;
    cv_i32 a0 = SYM(0, 0), b0 = SYM(0, 1), a1 = SYM(1, 0), b1 = SYM(1, 1), a2 = SYM(2, 0), b2 = SYM(2, 1); cv_i32 e = nondet_int();
    cv_i32 k0 = w == 0 ? pos : ko, k1 = w == 1 ? pos : ko, k2 = w == 2 ? pos : ko;
    drive_aggr(AGG_N, AGG_STYLE, -1, w == 0, k0, a0, b0, w == 1, k1, a1, b1, w == 2, k2, a2, b2, e);
    NO_STRAY;
    int total = (AGG_N > 0 ? k0 : 0) + (AGG_N > 1 ? k1 : 0) + (AGG_N > 2 ? k2 : 0);
    __CPROVER_assert(NOBS == total, "a source's exception loses no value: everything yielded by every source (the failing one included) is observed");
    int pa = -1, pb = -1;
    if (AGG_N > 0) CHECK_SOURCE(0, k0, a0, b0, pa, pb);
    if (AGG_N > 1) CHECK_SOURCE(1, k1, a1, b1, pa, pb);
    if (AGG_N > 2) CHECK_SOURCE(2, k2, a2, b2, pa, pb);
    __CPROVER_assert(*G_EXC_N == 1 && *G_EXC_VAL == e, "the source's exception is reported to the consumer, exactly once");
    __CPROVER_assert(*G_EXC_AT == total && END == 0, "the exception is the last thing the consumer sees (after all values of all sources); no regular end on top of it");
    __CPROVER_assert(*G_CTOR == AGG_N && *G_DTOR == AGG_N, "every source ran and its locals were destroyed exactly once");
    CHECK_HEAP(AGG_N + 1);
    runs++; }
  __CPROVER_assert(runs == (AGG_N == 1 ? 3 : AGG_N * 3 * (OTHER_K + 1)), "drive: every shape was run");
  __CPROVER_assert(0, "SENTINEL reachable: all shapes completed"); }
#endif

/* ---- early destruction: sources of length EARLY_K each, aggregate dropped after stop = 0..total values */
#ifdef DRIVE_aggr_early
#ifndef EARLY_K
#define EARLY_K 2
#endif
void h_drive(void) {
  unsigned runs = 0;
  for (cv_i32 stop = 0; stop <= AGG_N * EARLY_K; stop++) {
    drive_reset(); unsigned vec0 = gh_vec_attached;
    cv_i32 a0 = SYM(0, 0), b0 = SYM(0, 1), a1 = SYM(1, 0), b1 = SYM(1, 1), a2 = SYM(2, 0), b2 = SYM(2, 1);
    drive_aggr(AGG_N, AGG_STYLE, stop, 0, EARLY_K, a0, b0, 0, EARLY_K, a1, b1, 0, EARLY_K, a2, b2, 0);
    NO_STRAY;
    __CPROVER_assert(NOBS == stop && END == 0 && *G_EXC_N == 0, "the consumer saw exactly the values it asked for");
    /* what was observed: distinct yields, each source's prefix in order */
    int c0, c1; int seen = 0;
#define CHECK_PREFIX(i, a, b) if (AGG_N > (i)) { int pa_ = find_obs(a, &c0); int pb_ = find_obs(b, &c1); \
      __CPROVER_assert(c0 <= 1 && c1 <= 1, "no value is delivered twice"); if (EARLY_K > 1) __CPROVER_assert(c1 == 0 || (c0 == 1 && pa_ < pb_), "a source's 2nd value is never seen before its 1st"); seen += c0 + (EARLY_K > 1 ? c1 : 0); }
    CHECK_PREFIX(0, a0, b0) CHECK_PREFIX(1, a1, b1) CHECK_PREFIX(2, a2, b2)
    __CPROVER_assert(seen == stop, "every observed value is a value some source yielded");
    int started = stop > 0 ? AGG_N : 0;        /* never asked: the aggregator body never ran, no source was ever activated */
    __CPROVER_assert(*G_CTOR == started && *G_DTOR == started, "destroying the parked aggregate destroys the locals of every source exactly once");
    CHECK_HEAP(AGG_N + 1);
    runs++; }
  __CPROVER_assert(runs == AGG_N * EARLY_K + 1, "drive: every shape was run");
  __CPROVER_assert(0, "SENTINEL reachable: all shapes completed"); }
#endif

/* ---- sources with argument: the first call's argument initialises every source, each later argument goes to the source whose value
 *      was returned last */
#ifdef DRIVE_aggr_arg
#ifndef AGG_N
#define AGG_N 2
#endif
#ifndef AGG_STYLE
#define AGG_STYLE 0
#endif
#define KMAXA(i) (AGG_N > (i) ? 2 : 0)
#define ARG_SRC(i) ((*G_ARG_SRC)[i])
#define ARG_VAL(i) ((*G_ARG_VAL)[i])
/* j-th argument received by source id (j = 0: first activation) */
static int nth_arg(int id, int j, cv_i32 *out) { int c = 0; for (int i = 0; i < 12; i++) if (i < (int)*G_NARGS && ARG_SRC(i) == id) { if (c == j) { *out = ARG_VAL(i); return 1; } c++; } return 0; }
void h_drive(void) {
  unsigned runs = 0;
  for (cv_i32 k0 = 0; k0 <= KMAXA(0); k0++) for (cv_i32 k1 = 0; k1 <= KMAXA(1); k1++) {
    drive_reset(); unsigned vec0 = gh_vec_attached;
    cv_i32 a0 = SYM(0, 0), b0 = SYM(0, 1), a1 = SYM(1, 0), b1 = SYM(1, 1); cv_i32 x[5]; for (int j = 0; j < 5; j++) x[j] = nondet_int();
    drive_aggr_arg(AGG_N, AGG_STYLE, k0, a0, b0, k1, a1, b1, x[0], x[1], x[2], x[3], x[4]);
    NO_STRAY;
    int total = (AGG_N > 0 ? k0 : 0) + (AGG_N > 1 ? k1 : 0);
    __CPROVER_assert(NOBS == total && END == 1 && *G_EXC_N == 0, "multiset union and a single end, also for sources with argument");
    __CPROVER_assert(*G_NARGS == total + AGG_N, "every source is activated once per value it yields plus once to find its end");
    cv_i32 ks[2] = {k0, k1}, as[2] = {a0, a1}, bs[2] = {b0, b1};
    for (int i = 0; i < 2; i++) if (i < AGG_N) {
      int pa = -1, pb = -1; CHECK_SOURCE(i, ks[i], as[i], bs[i], pa, pb);
      cv_i32 got;
      __CPROVER_assert(nth_arg(i, 0, &got) && got == x[0], "the first call's argument initialises every source");
      if (ks[i] > 0) __CPROVER_assert(nth_arg(i, 1, &got) && got == x[pa + 1], "an argument goes to the source whose value was returned last (after its 1st value)");
      if (ks[i] > 1) __CPROVER_assert(nth_arg(i, 2, &got) && got == x[pb + 1], "an argument goes to the source whose value was returned last (after its 2nd value)"); }
    __CPROVER_assert(*G_CTOR == AGG_N && *G_DTOR == AGG_N, "every source ran and its locals were destroyed exactly once");
    CHECK_HEAP(AGG_N + 1);
    runs++; }
  __CPROVER_assert(runs == (KMAXA(0) + 1) * (KMAXA(1) + 1), "drive: every shape was run");
  __CPROVER_assert(0, "SENTINEL reachable: all shapes completed"); }
#endif
