/* C14 - BOUNDED DRIVE of the really lowered generator_aggregator coroutine (DESIGN 3.8).  Never counted as proof.
 * Scenarios: real C++ in drivers/c14_aggregator.cpp.  n <= 3 scripted SYNCHRONOUS sources of length <= 2 (DRIVE aggr: one may throw, the
 * consumer stops at the exception; DRIVE aggr_t at the end of this file: several may throw, the consumer goes on), consumer by
 * next()/value() or by call-to-future, optional early destruction.  The harness runs EVERY shape of the unit one after the other (plain
 * loops: after unwinding each run has a concrete shape, the VALUES stay symbolic) and resets models and counters in between.
 * Values carry a tag in the top byte (source, index) so that an observed value can be attributed to the yield it came from; the low
 * 24 bits are symbolic.
 * Oracle (from the property statement): multiset union - every yielded value observed exactly once, nothing else; each source's values
 * in that source's order; end when and only when all sources have ended; a source's exception loses nothing of the others and is
 * reported (after everything else); arguments go to the source whose value was returned last; destruction while parked destroys every
 * source's locals exactly once and leaks nothing (allocations == deallocations); destruction WAITS for the in-flight sources: every wait
 * for a source comes before any source is destroyed, a source is destroyed only when nobody is in flight (C14-ORDER-*, see CHECK_ORDER). */
#define OBS(i) ((*G_OBS)[i])
#define NOBS (*G_NOBS)
#define END (*G_END)
int nondet_int(void);
unsigned gh_wait_calls, gh_notify_calls;
#ifdef CV_HAS_ab_wait
void ab_wait(ATOMB *flag, cv_i1 old, cv_i32 order) { gh_wait_calls++;
  __CPROVER_assert((*(cv_i8 *)flag & 1) != old, "single-threaded drive: a blocking wait is entered only after the awaited step has completed"); }
#endif
#ifdef CV_HAS_ab_notify
void ab_notify(ATOMB *flag) { gh_notify_calls++; }
#endif
#define TAG(i, j) ((cv_i32)(2 * (i) + (j) + 1) << 24)
#define SYM(i, j) (TAG(i, j) | ((cv_i32)nondet_int() & 0xFFFFFF))
static unsigned allocs0, frees0, typed0, pushes0, pops0;
static void drive_reset(void) {
  NOBS = 0; END = 0; *G_EXC_N = 0; *G_EXC_AT = 0; *G_EXC_VAL = 0; *G_NMV = 0; *G_OTHER_EXC = 0; *G_CTOR = 0; *G_DTOR = 0; *G_NARGS = 0;
  for (int i = 0; i < 8; i++) OBS(i) = 0;
#ifdef CV_HAS_vg_ctor
  cvv_gen_used = 0;
#endif
#ifdef CV_HAS_vc_ctor
  cvv_cb_used = 0;
#endif
  gh_src_frames_made = 0; gh_src_frames_destroyed = 0; pq_head = pq_tail = 0; pushes0 = gh_pq_pushes; pops0 = gh_pq_pops;      /* ORDER obligations: see CHECK_ORDER */
  allocs0 = gh_allocs; frees0 = gh_frees; typed0 = gh_frames_typed; gh_wait_calls = 0; }
/* position of value v in the observed sequence (-1: absent); *cnt = number of occurrences */
static int find_obs(cv_i32 v, int *cnt) { int pos = -1; int c = 0; for (int p = 0; p < 8; p++) if (p < (int)NOBS && OBS(p) == v) { if (pos < 0) pos = p; c++; } *cnt = c; return pos; }
#define NO_STRAY __CPROVER_assert(cv_exc_pending == 0 && *G_OTHER_EXC == 0 && *G_NMV == 0, "drive: no stray exception reaches the consumer")
#define CHECK_HEAP(frames) do { \
  __CPROVER_assert(gh_allocs - allocs0 == gh_frees - frees0, "nothing leaks: every allocation (frames, vector buffers) is released exactly once"); \
  __CPROVER_assert(gh_frames_typed - typed0 == (frames), "one coroutine frame per source plus the aggregator's"); \
  __CPROVER_assert(gh_allocs - allocs0 == (frames) + gh_vec_attached - vec0, "no allocation besides frames and the two vector buffers"); } while (0)
/* ORDER (clause "destroying the aggregate while parked waits for in-flight asynchronous sources and leaks nothing"; added for seeded change
 * C14-1, where the vector owning the sources died BEFORE the controller's drain): the two obligations proper sit where the events happen -
 *   C14-ORDER-wait-before-destroy  in pq_pop()                  (specs/C14/drive_models.h): at every wait for a source no source is dead yet
 *   C14-ORDER-destroy-after-wait   in cv_on_src_frame_destroy() (ditto):                    when a source dies nobody is in flight any more
 * with source frames counted by lib/model_heap_frames_src.c.  Here: the ghost they rest on is alive (every source frame of the scenario
 * was seen being made and being destroyed - otherwise both would hold vacuously) and, once the aggregate is gone, every source that was
 * asked has been waited for. */
#define CHECK_ORDER(n) do { \
  __CPROVER_assert(gh_src_frames_made == (unsigned)(n) && gh_src_frames_destroyed == (unsigned)(n), "order ghost: every source coroutine frame of the scenario was seen being created and being destroyed, exactly once"); \
  __CPROVER_assert(gh_pq_pushes - pushes0 == gh_pq_pops - pops0, "once the aggregate is gone every source it asked has been waited for: as many completions taken from the completion queue as sources put there"); } while (0)
/* every value of source i (k of them: a, b) was observed exactly once, in source order; returns nothing, fills pos[] */
#define CHECK_SOURCE(i, k, a, b, pa, pb) do { int c_; \
  if ((k) > 0) { pa = find_obs(a, &c_); __CPROVER_assert(c_ == 1, "every value a source yields is observed exactly once (1st value)"); } \
  if ((k) > 1) { pb = find_obs(b, &c_); __CPROVER_assert(c_ == 1, "every value a source yields is observed exactly once (2nd value)"); \
                 __CPROVER_assert(pa < pb, "values of one source are observed in that source's order"); } } while (0)

/* a unit runs a list of shapes: { n, style (0 next()/value(), 1 call-to-future), stop (-1: read to the end, else destroy the aggregate after
 * `stop` values), kind0, k0, kind1, k1, kind2, k2 }   kind 0: source yields k values and ends; kind 1: yields k values, then throws e */
#ifdef DRIVE_aggr
struct shape { cv_i32 n, style, stop, kind0, k0, kind1, k1, kind2, k2; };
static const struct shape SH[] = { AGG_SHAPES };
#define NSH ((int)(sizeof(SH) / sizeof(SH[0])))
void h_drive(void) {
  unsigned runs = 0;
  for (int s = 0; s < NSH; s++) {
    const cv_i32 n = SH[s].n, stop = SH[s].stop; const cv_i32 kind[3] = {SH[s].kind0, SH[s].kind1, SH[s].kind2}, k[3] = {SH[s].k0, SH[s].k1, SH[s].k2};
    drive_reset(); unsigned vec0 = gh_vec_attached;
    cv_i32 a[3], b[3]; for (int i = 0; i < 3; i++) { a[i] = SYM(i, 0); b[i] = SYM(i, 1); } cv_i32 e = nondet_int();
    drive_aggr(n, SH[s].style, stop, kind[0], k[0], a[0], b[0], kind[1], k[1], a[1], b[1], kind[2], k[2], a[2], b[2], e);
    NO_STRAY;
    int total = 0, throwing = 0; for (int i = 0; i < 3; i++) if (i < n) { total += k[i]; throwing += kind[i]; }
    if ((cv_s32)stop < 0) {
      __CPROVER_assert(NOBS == total, "multiset union: the aggregate yields exactly as many values as its sources together - nothing lost (also not by a source's exception), nothing invented");
      for (int i = 0; i < 3; i++) if (i < n) { int pa = -1, pb = -1; CHECK_SOURCE(i, k[i], a[i], b[i], pa, pb); }
      if (throwing) {
        /* the consumer of THIS drive stops at the first exception it gets (shapes with exactly one thrower; several throwers and the consumer
         * that goes on after the exception: DRIVE aggr_t below) */
        __CPROVER_assert(*G_EXC_N == 1 && *G_EXC_VAL == e, "the source's exception is reported to the consumer, exactly once");
        __CPROVER_assert(*G_EXC_AT == total && END == 0, "a consumer that stops at the exception has lost nothing: every value of every source came before it, and no end indication was given before it"); }
      else __CPROVER_assert(END == 1 && *G_EXC_N == 0, "the aggregate ends when - and only when - all sources have ended; exactly one end indication"); }
    else {
      __CPROVER_assert(NOBS == stop && END == 0 && *G_EXC_N == 0, "the consumer saw exactly the values it asked for before dropping the aggregate");
      int seen = 0;
      for (int i = 0; i < 3; i++) if (i < n) { int c0 = 0, c1 = 0; int pa_ = find_obs(a[i], &c0); int pb_ = find_obs(b[i], &c1);
        __CPROVER_assert(c0 <= (k[i] > 0) && c1 <= (k[i] > 1), "only yielded values are delivered, none twice");
        __CPROVER_assert(c1 == 0 || (c0 == 1 && pa_ < pb_), "a source's 2nd value is never seen before its 1st");
        seen += c0 + c1; }
      __CPROVER_assert(seen == stop, "every observed value is a value some source yielded"); }
    int started = stop != 0 ? n : 0;             /* never asked: the aggregator body never ran, no source was ever activated */
    __CPROVER_assert(*G_CTOR == started && *G_DTOR == started, "every activated source's locals are destroyed exactly once (also when the parked aggregate is dropped)");
    CHECK_HEAP(n + 1); CHECK_ORDER(n);
    runs++; }
  __CPROVER_assert(runs == NSH, "drive: every shape was run");
  __CPROVER_assert(0, "SENTINEL reachable: all shapes completed"); }
#endif

/* ---- sources with argument: shapes { n, style, k0, k1 }.  The first call's argument initialises every source, each later argument goes
 *      to the source whose value was returned last */
#ifdef DRIVE_aggr_arg
struct shape { cv_i32 n, style, k0, k1; };
static const struct shape SH[] = { AGG_SHAPES };
#define NSH ((int)(sizeof(SH) / sizeof(SH[0])))
#define ARG_SRC(i) ((*G_ARG_SRC)[i])
#define ARG_VAL(i) ((*G_ARG_VAL)[i])
/* j-th argument received by source id (j = 0: first activation) */
static int nth_arg(int id, int j, cv_i32 *out) { int c = 0; int found = 0; for (int i = 0; i < 8; i++) if (i < (int)*G_NARGS && ARG_SRC(i) == id) { if (c == j) { *out = ARG_VAL(i); found = 1; } c++; } return found; }
void h_drive(void) {
  unsigned runs = 0;
  for (int s = 0; s < NSH; s++) {
    const cv_i32 n = SH[s].n; const cv_i32 k[2] = {SH[s].k0, SH[s].k1};
    drive_reset(); unsigned vec0 = gh_vec_attached;
    cv_i32 a[2], b[2]; for (int i = 0; i < 2; i++) { a[i] = SYM(i, 0); b[i] = SYM(i, 1); } cv_i32 x[6]; for (int j = 0; j < 6; j++) x[j] = nondet_int();
    drive_aggr_arg(n, SH[s].style, k[0], a[0], b[0], k[1], a[1], b[1], x[0], x[1], x[2], x[3], x[4]);
    NO_STRAY;
    int total = 0; for (int i = 0; i < 2; i++) if (i < n) total += k[i];
    __CPROVER_assert(NOBS == total && END == 1 && *G_EXC_N == 0, "multiset union and a single end, also for sources with argument");
    __CPROVER_assert(*G_NARGS == total + n && *G_NARGS <= 8, "every source is activated once per value it yields plus once to find its end");
    for (int i = 0; i < 2; i++) if (i < n) {
      int pa = -1, pb = -1; CHECK_SOURCE(i, k[i], a[i], b[i], pa, pb);
      cv_i32 got = 0;
      __CPROVER_assert(nth_arg(i, 0, &got) && got == x[0], "the first call's argument initialises every source");
      if (k[i] > 0) __CPROVER_assert(nth_arg(i, 1, &got) && got == x[pa + 1], "an argument goes to the source whose value was returned last (after its 1st value)");
      if (k[i] > 1) __CPROVER_assert(nth_arg(i, 2, &got) && got == x[pb + 1], "an argument goes to the source whose value was returned last (after its 2nd value)"); }
    __CPROVER_assert(*G_CTOR == n && *G_DTOR == n, "every source ran and its locals were destroyed exactly once");
    CHECK_HEAP(n + 1); CHECK_ORDER(n);
    runs++; }
  __CPROVER_assert(runs == NSH, "drive: every shape was run");
  __CPROVER_assert(0, "SENTINEL reachable: all shapes completed"); }
#endif

/* ===== added after the audit of group E (D4, W1, W6) ============================================================================== *
 * DRIVE aggr_t: shapes { n, style, pre, kind0, k0, kind1, k1, kind2, k2 }.  SEVERAL sources may throw, each a payload of its own (top byte
 * 0x71 + i, low 24 bits symbolic); the consumer goes on after every exception, stops at the end indication (or at
 * no_more_values_exception, or after values + throwers + 1 steps), samples done() / operator bool and asks once more after an end.
 * pre = 1: the consumer took the first value of source 0 itself before handing it to the aggregator (an already-stepped source).
 * Oracle, clause by clause from the property statement:
 *   "every source value exactly once, each source's values in that source's order"  -> CHECK_SOURCE, NOBS == total
 *   "A source's exception does not lose the other sources' values"                  -> the same two checks, with throwers present
 *   "... and is reported to the consumer"                                           -> PER SOURCE: the payload of every throwing source is
 *        reported exactly once; nothing else is reported.  (The former oracle asked for ONE report with at most one thrower - copied from
 *        the code, which keeps only the exception caught last: generator_aggregator.h `exp = std::current_exception()` overwrites.)
 *   "ending when and only when all sources have ended"  + C13 "followed by a single end-of-sequence indication" -> after the last value /
 *        exception the aggregate is finished, says so, and the consumer that goes on gets the end indication (next(): false, no exception;
 *        call: a future without value or no_more_values_exception), also when the aggregate's body ended by rethrowing. */
#ifdef DRIVE_aggr_t
struct shape_t { cv_i32 n, style, pre, kind0, k0, kind1, k1, kind2, k2; };
static const struct shape_t SHT[] = { AGG_SHAPES };
#define NSHT ((int)(sizeof(SHT) / sizeof(SHT[0])))
#define XEXC_VAL(i) ((*G_XEXC_VAL)[i])
cv_i32 in_shape;
void h_drive(void) {
  unsigned runs = 0;
  for (int s = 0; s < NSHT; s++) {
    const cv_i32 n = SHT[s].n, style = SHT[s].style, pre = SHT[s].pre; const cv_i32 kind[3] = {SHT[s].kind0, SHT[s].kind1, SHT[s].kind2}, k[3] = {SHT[s].k0, SHT[s].k1, SHT[s].k2};
    in_shape = s;
    drive_reset(); unsigned vec0 = gh_vec_attached;
    cv_i32 a[3], b[3], e[3]; for (int i = 0; i < 3; i++) { a[i] = SYM(i, 0); b[i] = SYM(i, 1); e[i] = ((cv_i32)(0x71 + i) << 24) | ((cv_i32)nondet_int() & 0xFFFFFF); }
    int total = 0, throwing = 0; for (int i = 0; i < 3; i++) if (i < n) { total += k[i]; throwing += kind[i]; }
    if (pre) total -= 1;
    drive_aggr_t(n, style, pre, total + throwing + 1, kind[0], k[0], a[0], b[0], e[0], kind[1], k[1], a[1], b[1], e[1], kind[2], k[2], a[2], b[2], e[2]);
    __CPROVER_assert(cv_exc_pending == 0 && *G_OTHER_EXC == 0, "drive: no stray exception reaches the consumer");
    if (pre) __CPROVER_assert(*G_PRE_OK == 1 && *G_PRE_VAL == a[0], "the value the consumer took from source 0 beforehand is that source's 1st value");
    __CPROVER_assert(NOBS == total, "multiset union: the aggregate yields exactly as many values as its sources (still) have together - nothing lost (also not by a source's exception), nothing invented");
    for (int i = 0; i < 3; i++) if (i < n) { int pa = -1, pb = -1;
      if (i == 0 && pre) CHECK_SOURCE(i, k[i] - 1, b[i], b[i], pa, pb);        /* an already-stepped source continues where the consumer left it */
      else CHECK_SOURCE(i, k[i], a[i], b[i], pa, pb); }
    /* per source: its exception is reported, exactly once */
    int every_thrower_once = 1, foreign = 0;
    for (int i = 0; i < 3; i++) { int c = 0; for (int j = 0; j < 4; j++) if (j < (int)*G_EXC_N && XEXC_VAL(j) == e[i]) c++;
      if (i < n && kind[i]) { if (c != 1) every_thrower_once = 0; } else if (c != 0) foreign = 1; }
    __CPROVER_assert(every_thrower_once, "C14-FINDING-two-throwers: the exception of EVERY throwing source is reported to the consumer, exactly once (per-source oracle)");
    __CPROVER_assert(!foreign && (int)*G_EXC_N <= throwing, "no exception is reported that no source threw, none more often than thrown");
    /* the end (units with several throwers define AGG_NO_AFTER_CLAUSE: there the subject is the per-source report; the end of an aggregate
     * whose body ended by an exception is checked on the single-thrower shapes of unit after_exc) */
    const int nmv_main = (int)*G_NMV - (*G_AGAIN == (cv_i32)-2 ? 1 : 0);     /* no_more_values_exception seen before the extra question at the very end */
#ifndef AGG_NO_AFTER_CLAUSE
    __CPROVER_assert(*G_FIN_DONE == 1 && *G_FIN_BOOL == 0 && (style == 0 ? (END == 1 && nmv_main == 0) : (END + nmv_main == 1)),
      "C13-FINDING-after-exception (aggregate): after the last value / exception the aggregate is finished, says so (done() true, operator bool false) and the consumer that goes on gets exactly one end indication (next(): false, no exception; call: a future without value or no_more_values_exception)");
#endif
    __CPROVER_assert(*G_AGAIN == 9 || *G_AGAIN == 0 || (style == 1 && *G_AGAIN == -2), "asking once more after the end indication: the end again (call: or no_more_values_exception), never a value, never an exception of a source");
    __CPROVER_assert(*G_CTOR == n && *G_DTOR == n, "every source's locals are destroyed exactly once");
    CHECK_HEAP(n + 1); CHECK_ORDER(n);
    runs++; }
  __CPROVER_assert(runs == NSHT, "drive: every shape was run");
  __CPROVER_assert(0, "SENTINEL reachable: all shapes completed"); }
#endif
