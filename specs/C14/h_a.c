/* C14 - harnesses of the helper contract units (objects reached through pointers are allocated here and the pointers ASSIGNED) */
#ifdef CV_HAS_cb_resume_fn
void h_cb_resume_fn(void) { GCB *cb = malloc(sizeof(GCB)); __CPROVER_assume(cb != 0); SP *r; cv_i8 *ctx; cb_resume_fn(r, &cb->base_awaiter, ctx);
  if (gh_push_count) __CPROVER_assert(0, "SENTINEL reachable: the push woke a consumer"); else __CPROVER_assert(0, "SENTINEL reachable: item queued"); }
#endif
#ifdef CV_HAS_cb_ctor
void h_cb_ctor(void) { GCB *cb; AQ *q; GEN *g; cb_ctor(cb, q, g); __CPROVER_assert(0, "SENTINEL reachable"); }
#endif
#ifdef CV_HAS_cb_charge
void h_cb_charge(void) { PT *p = malloc(sizeof(PT)); GCB *cb = malloc(sizeof(GCB)); __CPROVER_assume(p != 0 && cb != 0); GEN_P(&cb->_gen) = p; gh_cb = cb;
#ifdef GEN_ARG
  cv_i32 *a; cb_charge(cb, a);
#else
  cb_charge(cb);
#endif
  __CPROVER_assert(0, "SENTINEL reachable"); }
#endif
#ifdef CV_HAS_ctl_dtor
void h_ctl_dtor(void) { CTL *c; ctl_dtor(c);
  if (gh_c0 == 0) __CPROVER_assert(0, "SENTINEL reachable: no active source"); else if (gh_c0 == 1) __CPROVER_assert(0, "SENTINEL reachable: only the yielded source is active"); else __CPROVER_assert(0, "SENTINEL reachable: reports drained"); }
#endif
#ifdef CV_HAS_ctl_fin
void h_ctl_fin(void) { CTL *c; ctl_fin(c); __CPROVER_assert(0, "SENTINEL reachable"); }
#endif
#ifdef CV_HAS_ctl_bool
void h_ctl_bool(void) { CTL *c; ctl_bool(c); __CPROVER_assert(0, "SENTINEL reachable"); }
#endif
