/* C14 - small parts of the aggregator that no unit covered (tools/coverage.py):
 *
 *  (1) primitives::single_item_queue<promise<GenCallback*>> (queue.h:66-93): the slot in which the aggregator - the ONLY consumer of its
 *      completion queue - parks while no source has reported.  What cocls::queue needs from a CoroQueue, restated for one slot:
 *        - it holds AT MOST ONE promise; a fresh one is empty; empty() tells, and changes nothing;
 *        - emplace on an empty slot takes the promise over (ownership moves: the argument is left empty, the slot holds its future);
 *        - emplace on a FULL slot refuses by throwing and loses nothing: the parked promise stays, the argument keeps its future
 *          (a second consumer is an error of the caller, the first one must still be woken);
 *        - front() names the parked promise (callers ask only when !empty()), pop() destroys exactly that promise, exactly once, and
 *          leaves the slot empty; pop() on an empty slot does nothing; the destructor destroys a parked promise exactly once.
 *      std::optional (libstdc++: straight-line code, no allocation) is translated as it is; promise's move constructor and destructor are
 *      abstract callees (recording stubs: ownership of the future moves / the destruction is counted with the owner seen).
 *
 *  (2) GenCallback(GenCallback &&) (= default, generator_aggregator.h:29; needed by std::vector<GenCallback>::emplace_back for its
 *      reallocation path, which the aggregator's reserve() keeps dead).  What the aggregator needs of a relocated callback: the wiring
 *      stays - same completion queue, same resume function (reports to the queue), same list link - and the SOURCE generator moves
 *      with it: exactly one callback owns it afterwards (the other is empty, so the source is destroyed exactly once).
 *      OBSERVATION (not an obligation a move constructor can meet): a callback that has been charge()d is registered BY ADDRESS as the
 *      asker in its source's promise (_caller == the old object); relocating it afterwards leaves that registration dangling.  The
 *      aggregator is safe only because cbs.reserve(list.size()) makes the relocation path unreachable - the bounded drives check
 *      "the callback vector never reallocates". */
#define G_PRE (cv_exc_pending == 0)
#define NO_ALLOC (gh_allocs == __CPROVER_old(gh_allocs))
#ifdef CV_HAS_cb_move
#define GEN_P(g) (*(void **)&(g)->_promise)
GCB *gh_src;          /* the callback moved from (harness-allocated) */
void cb_move(GCB *this_, GCB *other)
__CPROVER_requires(G_PRE && __CPROVER_is_fresh(this_, sizeof(*this_)) && other == gh_src)
__CPROVER_assigns(__CPROVER_object_whole(this_), __CPROVER_object_whole(gh_src))
__CPROVER_ensures(cv_exc_pending == 0 && this_->_q == gh_src->_q && gh_src->_q == __CPROVER_old(gh_src->_q))                         /* same completion queue */
__CPROVER_ensures(this_->base_awaiter._resume_fn == __CPROVER_old(gh_src->base_awaiter._resume_fn) && this_->base_awaiter._handle_addr == __CPROVER_old(gh_src->base_awaiter._handle_addr) &&
                  this_->base_awaiter._next == __CPROVER_old(gh_src->base_awaiter._next))                                              /* resumed = reports to that queue, as before */
__CPROVER_ensures(GEN_P(&this_->_gen) == __CPROVER_old(GEN_P(&gh_src->_gen)) && GEN_P(&gh_src->_gen) == 0)                            /* the source moves along: exactly one owner */
__CPROVER_ensures(NO_ALLOC)
;
void h_cb_move(void) { GCB *s = malloc(sizeof(GCB)); __CPROVER_assume(s != 0); gh_src = s; GCB *d; cb_move(d, s);
  __CPROVER_assert(0, "SENTINEL reachable"); }
#endif

#if defined(CV_HAS_si_ctor) || defined(CV_HAS_si_dtor) || defined(CV_HAS_si_empty) || defined(CV_HAS_si_emplace) || defined(CV_HAS_si_front) || defined(CV_HAS_si_pop)
#define SI_PAY(q) ((q)->_val.base__Optional_base._M_payload.base__Optional_payload.base__Optional_payload_base)
#define SI_ENGAGED(q) (SI_PAY(q)._M_engaged)
#define SI_SLOT(q) (&SI_PAY(q)._M_payload.f0)
typedef __typeof__(SI_PAY((SIQ *)0)._M_payload.f0) PROMQ;
#define OWNER(p) ((p)->_owner._M_b._M_p)
/* promise(promise &&other): takes other's future over (claim), other is left without one */
cv_i64 gh_pm_calls; void *gh_pm_dst, *gh_pm_src;
#ifdef CV_HAS_pm_move
void pm_move(PROMQ *this_, PROMQ *other) { gh_pm_calls++; gh_pm_dst = this_; gh_pm_src = other; OWNER(this_) = OWNER(other); OWNER(other) = 0; }
#endif
/* ~promise(): recorded with the future it still owned (a non-empty one is resolved "no value" there - C01/C02) */
cv_i64 gh_pd_calls; void *gh_pd_this, *gh_pd_owner_then;
#ifdef CV_HAS_pm_dtor
void pm_dtor(PROMQ *this_) { gh_pd_calls++; gh_pd_this = this_; gh_pd_owner_then = (void *)OWNER(this_); }
#endif
#ifdef CV_HAS_re_ctor
void re_ctor(struct S_class_std__runtime_error *e, cv_i8 *msg) { }
#endif
#define Q_GHOSTS gh_pm_calls, gh_pm_dst, gh_pm_src, gh_pd_calls, gh_pd_this, gh_pd_owner_then
#define Q_FRESH (gh_pm_calls == 0 && gh_pd_calls == 0)
void *gh_parked;      /* logical variable: the future of the parked promise at entry */
#endif
#ifdef CV_HAS_si_ctor
void si_ctor(SIQ *this_)
__CPROVER_requires(G_PRE && Q_FRESH && __CPROVER_is_fresh(this_, sizeof(*this_)))
__CPROVER_assigns(__CPROVER_object_whole(this_))
__CPROVER_ensures(cv_exc_pending == 0 && SI_ENGAGED(this_) == 0 && gh_pm_calls == 0 && gh_pd_calls == 0 && NO_ALLOC)           /* a fresh slot is empty */
;
void h_si_ctor(void) { SIQ *q; si_ctor(q); __CPROVER_assert(0, "SENTINEL reachable"); }
#endif
#ifdef CV_HAS_si_empty
cv_i1 si_empty(SIQ *this_)
__CPROVER_requires(G_PRE && __CPROVER_is_fresh(this_, sizeof(*this_)) && SI_ENGAGED(this_) <= 1)
__CPROVER_assigns()
__CPROVER_ensures(cv_exc_pending == 0 && __CPROVER_return_value == (1 ^ SI_ENGAGED(this_)) && NO_ALLOC)
;
void h_si_empty(void) { SIQ *q; cv_i1 r = si_empty(q); if (r) __CPROVER_assert(0, "SENTINEL reachable: empty"); else __CPROVER_assert(0, "SENTINEL reachable: a consumer is parked"); }
#endif
#ifdef CV_HAS_si_emplace
void *gh_arg_owner;
void si_emplace(SIQ *this_, PROMQ *arg)
__CPROVER_requires(G_PRE && Q_FRESH && __CPROVER_is_fresh(this_, sizeof(*this_)) && __CPROVER_is_fresh(arg, sizeof(*arg)) && SI_ENGAGED(this_) <= 1)
__CPROVER_requires(gh_arg_owner != 0 && (void *)OWNER(arg) == gh_arg_owner && (SI_ENGAGED(this_) ==> (gh_parked != 0 && (void *)OWNER(SI_SLOT(this_)) == gh_parked)))
__CPROVER_assigns(__CPROVER_object_whole(this_), __CPROVER_object_whole(arg), Q_GHOSTS, cv_exc_pending, cv_exc_obj, cv_exc_tinfo, gh_allocs)
__CPROVER_ensures(SI_ENGAGED(this_) == 1)                                                                                         /* at most one - and now exactly one */
__CPROVER_ensures(__CPROVER_old(SI_ENGAGED(this_)) == 0 ==> (cv_exc_pending == 0 && (void *)OWNER(SI_SLOT(this_)) == gh_arg_owner && OWNER(arg) == 0 &&
                  gh_pm_calls == 1 && gh_pm_dst == (void *)SI_SLOT(this_) && gh_pm_src == (void *)arg && gh_pd_calls == 0 && NO_ALLOC))   /* empty slot: the promise is taken over */
__CPROVER_ensures(__CPROVER_old(SI_ENGAGED(this_)) == 1 ==> (cv_exc_pending == 1 && (void *)OWNER(SI_SLOT(this_)) == gh_parked && (void *)OWNER(arg) == gh_arg_owner &&
                  gh_pm_calls == 0 && gh_pd_calls == 0))                                                                            /* full slot: refused by an exception, the parked consumer is not lost, the argument keeps its future */
;
void h_si_emplace(void) { SIQ *q; PROMQ *a; si_emplace(q, a);
  if (cv_exc_pending) __CPROVER_assert(0, "SENTINEL reachable: slot full, refused"); else __CPROVER_assert(0, "SENTINEL reachable: consumer parked"); }
#endif
#ifdef CV_HAS_si_front
PROMQ *si_front(SIQ *this_)
__CPROVER_requires(G_PRE && __CPROVER_is_fresh(this_, sizeof(*this_)) && SI_ENGAGED(this_) == 1)           /* callers ask only when !empty() (queue::push, queue::unblock_pop) */
__CPROVER_assigns()
__CPROVER_ensures(cv_exc_pending == 0 && __CPROVER_return_value == SI_SLOT(this_) && NO_ALLOC)
;
void h_si_front(void) { SIQ *q; si_front(q); __CPROVER_assert(0, "SENTINEL reachable"); }
#endif
#ifdef CV_HAS_si_pop
void si_pop(SIQ *this_)
__CPROVER_requires(G_PRE && Q_FRESH && __CPROVER_is_fresh(this_, sizeof(*this_)) && SI_ENGAGED(this_) <= 1)
__CPROVER_assigns(SI_ENGAGED(this_), Q_GHOSTS)
__CPROVER_ensures(cv_exc_pending == 0 && SI_ENGAGED(this_) == 0 && gh_pm_calls == 0)
__CPROVER_ensures(__CPROVER_old(SI_ENGAGED(this_)) == 1 ==> (gh_pd_calls == 1 && gh_pd_this == (void *)SI_SLOT(this_)))            /* exactly the parked promise, exactly once */
__CPROVER_ensures(__CPROVER_old(SI_ENGAGED(this_)) == 0 ==> gh_pd_calls == 0)
__CPROVER_ensures(NO_ALLOC)
;
void h_si_pop(void) { SIQ *q; si_pop(q); if (gh_pd_calls) __CPROVER_assert(0, "SENTINEL reachable: parked promise destroyed"); else __CPROVER_assert(0, "SENTINEL reachable: nothing parked"); }
#endif
#ifdef CV_HAS_si_dtor
void si_dtor(SIQ *this_)
__CPROVER_requires(G_PRE && Q_FRESH && __CPROVER_is_fresh(this_, sizeof(*this_)) && SI_ENGAGED(this_) <= 1)
__CPROVER_assigns(SI_ENGAGED(this_), Q_GHOSTS)
__CPROVER_ensures(cv_exc_pending == 0 && gh_pm_calls == 0)
__CPROVER_ensures(__CPROVER_old(SI_ENGAGED(this_)) == 1 ==> (gh_pd_calls == 1 && gh_pd_this == (void *)SI_SLOT(this_)))            /* a consumer still parked is released (its promise destroyed) exactly once */
__CPROVER_ensures(__CPROVER_old(SI_ENGAGED(this_)) == 0 ==> gh_pd_calls == 0)
__CPROVER_ensures(NO_ALLOC)
;
void h_si_dtor(void) { SIQ *q; si_dtor(q); if (gh_pd_calls) __CPROVER_assert(0, "SENTINEL reachable: parked promise destroyed"); else __CPROVER_assert(0, "SENTINEL reachable: nothing parked"); }
#endif
