/* C14 drive: instantiation of the container / atomic-pointer models for generator_aggregator<int, Arg>.
 *   std::vector<generator<int,Arg>>            (list__ and the driver's vector)   lib/model_vec_pool.c, real generator(generator&&) / ~generator()
 *   std::vector<GenCallback<int,Arg>>          (cbs; elements are PINNED: sources and the item queue hold pointers to them)
 *                                                                                  real GenCallback(queue&, generator) / ~GenCallback()
 *   std::queue<GenCallback<int,Arg>*>          (the item sequence of cocls::queue) lib/model_ptrq_ring.c
 *   std::atomic<awaiter*>, std::atomic<future<int>*>, std::atomic<future<GenCallback*>*>   lib/model_atomic_ptr_api.c
 * std::mutex (pthread) = lib/model_mutex.c; std::optional<promise<..>> (single_item_queue) is translated as it is. */
#ifdef CV_HAS_ap_aw_load
CV_AP_LOAD(ap_aw_load, ATOM_AW, AWT)
#endif
#ifdef CV_HAS_ap_aw_xchg
CV_AP_XCHG(ap_aw_xchg, ATOM_AW, AWT)
#endif
#ifdef CV_HAS_ap_aw_cas
CV_AP_CAS(ap_aw_cas, ATOM_AW, AWT)
#endif
#ifdef CV_HAS_ap_fu_load
CV_AP_LOAD(ap_fu_load, ATOM_FU, FUT)
#endif
#ifdef CV_HAS_ap_fu_xchg
CV_AP_XCHG(ap_fu_xchg, ATOM_FU, FUT)
#endif
#ifdef CV_HAS_ap_fu_assign
CV_AP_ASSIGN(ap_fu_assign, ATOM_FU, FUT)
#endif
#ifdef CV_HAS_ap_fg_load
CV_AP_LOAD(ap_fg_load, ATOM_FG, FUTG)
#endif
#ifdef CV_HAS_ap_fg_xchg
CV_AP_XCHG(ap_fg_xchg, ATOM_FG, FUTG)
#endif
#ifdef CV_HAS_ap_fg_assign
CV_AP_ASSIGN(ap_fg_assign, ATOM_FG, FUTG)
#endif
#ifdef CV_HAS_vg_ctor
#define VEC_CAP 3
CV_VEC_POOL(gen, VGEN, GEN, VEC_CAP)
CV_VEC_CTOR(vg_ctor, VGEN)
#ifdef CV_HAS_vg_move
CV_VEC_MOVE(vg_move, VGEN)
#endif
#ifdef CV_HAS_vg_size
CV_VEC_SIZE(vg_size, VGEN, GEN)
#endif
#ifdef CV_HAS_vg_begin
CV_VEC_BEGIN(vg_begin, VGEN, GEN)
#endif
#ifdef CV_HAS_vg_end
CV_VEC_END(vg_end, VGEN, GEN)
#endif
CV_VEC_DTOR(vg_dtor, VGEN, GEN, VEC_CAP, el_gen_dtor)
#ifdef CV_HAS_vg_emplace
GEN *vg_emplace(VGEN *v, GEN *g) { GEN *slot = CV_VEC_SLOT(v, GEN, VEC_CAP, gen, 0); el_gen_move(slot, g); return slot; }
#endif
#endif
#ifdef CV_HAS_vc_ctor
CV_VEC_POOL(cb, VCB, GCB, VEC_CAP)
CV_VEC_CTOR(vc_ctor, VCB)
CV_VEC_RESERVE(vc_reserve, VCB, GCB, cb)
CV_VEC_BACK(vc_back, VCB, GCB)
CV_VEC_DTOR(vc_dtor, VCB, GCB, VEC_CAP, el_cb_dtor)
/* emplace_back(queue&, generator&&): GenCallback takes the generator BY VALUE - a temporary is move-constructed, handed to the real
 * constructor and destroyed afterwards, exactly as the inlined libstdc++ construct_at does */
GCB *vc_emplace(VCB *v, AQ *q, GEN *g) { GCB *slot = CV_VEC_SLOT(v, GCB, VEC_CAP, cb, 1); GEN tmp; el_gen_move(&tmp, g); el_cb_ctor(slot, q, &tmp); el_gen_dtor(&tmp); return slot; }
#endif
#ifdef CV_HAS_pq_ctor
CV_PTRQ_CTOR(pq_ctor, SQ)
CV_PTRQ_DTOR(pq_dtor, SQ)
CV_PTRQ_EMPTY(pq_empty, SQ)
CV_PTRQ_FRONT(pq_front, SQ, GCB)
/* pop(): CV_PTRQ_POP of lib/model_ptrq_ring.c plus the ORDER obligation of the clause "destroying the aggregate while parked WAITS for
 * in-flight asynchronous sources": the aggregate waits for a source by taking that source's completion from this queue (the aggregator
 * loop, and the drain of ~generator_aggregator_controller when the parked aggregate is dropped).  A wait that comes after a source
 * coroutine has been destroyed comes too late - the in-flight step of that source would complete into a dead frame / a dead callback.
 * Source frames are counted by lib/model_heap_frames_src.c (reset per scenario in drive_reset()). */
void pq_pop(SQ *q) { PQ_TOUCH("pop()"); __CPROVER_assert(pq_head < pq_tail, "std::queue::pop() on a non-empty queue");
  __CPROVER_assert(gh_src_frames_destroyed == 0, "C14-ORDER-wait-before-destroy: at every wait of the aggregate for a source (pop of its completion queue, in particular the drain of ~generator_aggregator_controller when the parked aggregate is dropped) no source generator of this aggregate has been destroyed yet");
  pq_head++; gh_pq_pops++; }
#ifdef CV_HAS_pq_emplace
CV_PTRQ_EMPLACE(pq_emplace, SQ, GCB)
#endif
#endif
/* the dual, at the moment a source coroutine frame is released (hook of lib/model_heap_frames_src.c): every source that was asked for
 * its next value has been waited for.  With the scripted synchronous sources an asked source has reported at once, so "in flight" is
 * exactly "completion still in the queue". */
void cv_on_src_frame_destroy(void) {
  __CPROVER_assert(pq_head == pq_tail, "C14-ORDER-destroy-after-wait: a source generator is destroyed only after the aggregate has waited for every in-flight source (no source's completion is still unconsumed in the aggregate's completion queue)"); }
/* single_item_queue<promise<GenCallback*>> - the slot where a consumer of cocls::queue parks when the queue is empty.  With synchronous
 * sources every source has reported before the aggregator asks, so the slot stays empty: that is an OBLIGATION here (and a model bound:
 * the std::optional inside is not translated - ir2c maps the LLVM types `_Optional_payload.base` and `_Optional_payload_base` onto the
 * same C identifier). */
#ifdef CV_HAS_si_empty
unsigned gh_si_parked;
void si_ctor(SIQ *s) { }
void si_dtor(SIQ *s) { }
cv_i1 si_empty(SIQ *s) { return 1; }
#ifdef CV_HAS_si_emplace
void si_emplace(SIQ *s, PROMG *p) { gh_si_parked++; __CPROVER_assert(0, "synchronous sources: the aggregator finds a reported source whenever it asks (it never parks on queue.pop())"); __CPROVER_assume(0); }
#endif
#ifdef CV_HAS_si_front
PROMG *si_front(SIQ *s) { __CPROVER_assert(0, "single_item_queue::front() on an empty slot"); __CPROVER_assume(0); return 0; }
#endif
#ifdef CV_HAS_si_pop
void si_pop(SIQ *s) { __CPROVER_assert(0, "single_item_queue::pop() on an empty slot"); __CPROVER_assume(0); }
#endif
#endif
/* std::mutex::lock() failing (system_error) and the single-consumer queue being full cannot happen in a single-threaded drive */
void _ZSt20__throw_system_errori(cv_i32 e) { __CPROVER_assert(0, "std::system_error from std::mutex::lock"); __CPROVER_assume(0); }
