# C14 - Generator aggregator: union of all sources, per-source order preserved
CHT = 'std::__n4861::coroutine_handle<void>'
DQT = 'std::deque<%s, std::allocator<%s > >' % (CHT, CHT)
WAIT = r'^std::atomic<bool>::wait\(bool, std::memory_order\) const$'
NOTIFY = r'^std::atomic<bool>::notify_all\(\)$'
DRV = 'c14_aggregator.cpp'
def esc(x): return x.replace('(', r'\(').replace(')', r'\)').replace('*', r'\*').replace('+', r'\+')

def variant(arg):
    G = 'cocls::generator<int, %s>' % arg
    CB = 'cocls::_details::GenCallback<int, %s>' % arg
    VG = 'std::vector<%s, std::allocator<%s > >' % (G, G)
    VC = 'std::vector<%s, std::allocator<%s > >' % (CB, CB)
    SQ = 'std::queue<%s*, std::deque<%s*, std::allocator<%s*> > >' % (CB, CB, CB)
    FG = 'cocls::future<%s*>' % CB
    SI = 'cocls::primitives::single_item_queue<cocls::promise<%s*> >' % CB
    N = {
        # std::atomic<T*> members read sequentially at member-function level (lib/model_atomic_ptr_api.c)
        'ap_aw_load': r'^std::atomic<cocls::awaiter\*>::load\(std::memory_order\) const$', 'ap_aw_xchg': r'^std::atomic<cocls::awaiter\*>::exchange\(',
        'ap_aw_cas': r'^std::atomic<cocls::awaiter\*>::compare_exchange_weak\(cocls::awaiter\*&, cocls::awaiter\*, std::memory_order, std::memory_order\)$',
        'ap_fu_load': r'^std::atomic<cocls::future<int>\*>::load\(std::memory_order\) const$', 'ap_fu_xchg': r'^std::atomic<cocls::future<int>\*>::exchange\(',
        'ap_fu_assign': r'^std::atomic<cocls::future<int>\*>::operator=\(cocls::future<int>\*\)$',
        'ap_fg_load': '^' + esc('std::atomic<%s*>::load(std::memory_order) const' % FG) + '$', 'ap_fg_xchg': '^' + esc('std::atomic<%s*>::exchange(' % FG),
        'ap_fg_assign': '^' + esc('std::atomic<%s*>::operator=(%s*)' % (FG, FG)) + '$',
        # std::vector<generator>, std::vector<GenCallback>, std::queue<GenCallback*>  (lib/model_vec_pool.c, lib/model_ptrq_ring.c)
        'vg_ctor': '^' + esc(VG) + r'::vector\(\)$', 'vg_move': '^' + esc(VG) + r'::vector\(' + esc(VG) + r'&&\)$', 'vg_dtor': '^' + esc(VG) + r'::~vector\(\)$',
        'vg_size': '^' + esc(VG) + r'::size\(\) const$', 'vg_begin': '^' + esc(VG) + r'::begin\(\)$', 'vg_end': '^' + esc(VG) + r'::end\(\)$',
        'vg_emplace': '^' + esc(G) + '& ' + esc(VG) + r'::emplace_back<',
        'vc_ctor': '^' + esc(VC) + r'::vector\(\)$', 'vc_dtor': '^' + esc(VC) + r'::~vector\(\)$', 'vc_reserve': '^' + esc(VC) + r'::reserve\(unsigned long\)$',
        'vc_back': '^' + esc(VC) + r'::back\(\)$', 'vc_emplace': '^' + esc(CB) + '& ' + esc(VC) + r'::emplace_back<',
        'pq_ctor': '^' + esc(SQ) + r'::queue<', 'pq_dtor': '^' + esc(SQ) + r'::~queue\(\)$', 'pq_empty': '^' + esc(SQ) + r'::empty\(\) const$', 'pq_front': '^' + esc(SQ) + r'::front\(\)$',
        'pq_pop': '^' + esc(SQ) + r'::pop\(\)$', 'pq_emplace': r'^decltype\(auto\) ' + esc(SQ) + r'::emplace<',
        # cocls::primitives::single_item_queue<promise<GenCallback*>> (std::optional inside): the parked-consumer slot of cocls::queue
        'si_ctor': '^' + esc(SI) + r'::single_item_queue\(\)$', 'si_dtor': '^' + esc(SI) + r'::~single_item_queue\(\)$', 'si_empty': '^' + esc(SI) + r'::empty\(\) const$',
        'si_emplace': '^void ' + esc(SI) + r'::emplace<', 'si_front': '^' + esc(SI) + r'::front\(\)$', 'si_pop': '^' + esc(SI) + r'::pop\(\)$',
        'ab_wait': WAIT, 'ab_notify': NOTIFY,
        # element operations the vector models call (real translated code)
        'el_gen_move': '^' + esc(G) + r'::generator\(' + esc(G) + r'&&\)$', 'el_gen_dtor': '^' + esc(G) + r'::~generator\(\)$',
        'el_cb_ctor': '^' + esc(CB) + r'::GenCallback\(cocls::queue<[^{}]*\)$', 'el_cb_dtor': '^' + esc(CB) + r'::~GenCallback\(\)$',
    }
    return G, CB, N
VAR = {'void': variant('void'), 'int': variant('int')}
MODELS = ['ap_aw_load', 'ap_aw_xchg', 'ap_aw_cas', 'ap_fu_load', 'ap_fu_xchg', 'ap_fu_assign', 'ap_fg_load', 'ap_fg_xchg', 'ap_fg_assign', 'vg_ctor', 'vg_move', 'vg_dtor', 'vg_size', 'vg_begin', 'vg_end', 'vg_emplace',
          'vc_ctor', 'vc_dtor', 'vc_reserve', 'vc_back', 'vc_emplace', 'pq_ctor', 'pq_dtor', 'pq_empty', 'pq_front', 'pq_pop', 'pq_emplace', 'si_ctor', 'si_dtor', 'si_empty', 'si_emplace', 'si_front', 'si_pop', 'ab_wait', 'ab_notify']
ELEMS = ['el_gen_move', 'el_gen_dtor', 'el_cb_ctor', 'el_cb_dtor']

# ---------------------------------------------------------------------------------------------------------------- bounded drives
D_GLOBALS = {'FRAME_KIND': 'g_frame_kind', 'G_OBS': 'g_obs', 'G_NOBS': 'g_nobs', 'G_END': 'g_end', 'G_EXC_N': 'g_exc_n', 'G_EXC_AT': 'g_exc_at', 'G_EXC_VAL': 'g_exc_val',
             'G_NMV': 'g_nmv', 'G_OTHER_EXC': 'g_other_exc', 'G_CTOR': 'g_ctor', 'G_DTOR': 'g_dtor', 'G_ARG_SRC': 'g_arg_src', 'G_ARG_VAL': 'g_arg_val', 'G_NARGS': 'g_nargs',
             'G_XEXC_VAL': 'g_xexc_val', 'G_XEXC_AT': 'g_xexc_at', 'G_FIN_DONE': 'g_fin_done', 'G_FIN_BOOL': 'g_fin_bool', 'G_PRE_VAL': 'g_pre_val', 'G_PRE_OK': 'g_pre_ok', 'G_AGAIN': 'g_again'}
D_LIBS = ['rt_core.c', 'rt_atomic_seq.c', 'model_atomic_ptr_api.c', 'model_dq_drive.c', 'model_heap_frames_src.c', 'model_mutex.c', 'model_vec_pool.c', 'model_ptrq_ring.c']
AGG_FRAME = {'void': 'S__ZN5cocls20generator_aggregatorIivEENS_9generatorIT_T0_EESt6vectorIS4_SaIS4_EE_Frame', 'int': 'S__ZN5cocls20generator_aggregatorIiiEENS_9generatorIT_T0_EESt6vectorIS4_SaIS4_EE_Frame'}
# frame kinds 1..3 (src_vals, src_throw, src_arg) are SOURCE coroutines: lib/model_heap_frames_src.c counts their frames for the ORDER obligations
SRC_KINDS = 'CV_FRAME_IS_SOURCE(K) ((K) >= 1 && (K) <= 3)'
def drive(name, kind, what, arg='void', defines=(), unwind=10, timeout=600, **kw):
    G, CB, N = VAR[arg]
    root = 'drive_aggr_arg' if arg == 'int' else ('drive_aggr_t' if kind == 'aggr_t' else 'drive_aggr')
    frames = 'CV_FRAME_KINDS ' + ('X(3, S_src_arg_Frame) X(5, %s)' % AGG_FRAME['int'] if arg == 'int' else 'X(1, S_src_vals_Frame) X(2, S_src_throw_Frame) X(4, %s)' % AGG_FRAME['void'])
    d = dict(name='drive_' + name, driver=DRV, roots=['^%s$' % root] + [N[e] for e in ELEMS], names={e: N[e] for e in ELEMS}, names_opt={m: N[m] for m in MODELS},
             types={'CH': CHT, 'DQCH': DQT, 'ATOMB': 'std::atomic<bool>', 'ATOM_AW': 'std::atomic<cocls::awaiter *>', 'ATOM_FU': 'std::atomic<cocls::future<int> *>', 'AWT': 'cocls::awaiter', 'FUT': 'cocls::future<int>'},
             ptypes={'VGEN': N['vg_ctor'] + '#0', 'VCB': N['vc_ctor'] + '#0', 'SQ': N['pq_ctor'] + '#0', 'GCB': N['el_cb_dtor'] + '#0', 'AQ': N['el_cb_ctor'] + '#1', 'GEN': N['el_gen_dtor'] + '#0',
                     'ATOM_FG': N['ap_fg_xchg'] + '#0', 'FUTG': N['ap_fg_xchg'] + '#1', 'SIQ': N['si_empty'] + '#0', 'PROMG': N['si_emplace'] + '#1'},
             globals=D_GLOBALS, boundary=[r'^std::deque<std::__n4861::coroutine_handle<void>'] + [N[m] for m in MODELS], lib=D_LIBS, spec=['C14/drive_models.h', 'C14/h_drive.c'], harness='h_drive',
             defines=['CV_NO_HEAP_PRIMS 1', frames, SRC_KINDS, 'DRIVE_%s 1' % kind] + list(defines), unwind=unwind, object_bits=12, kind='bounded', timeout=timeout, bounded=what, under_contract=[])
    d.update(kw)
    return d
def sh(n, style=0, stop=-1, src=()):
    """one shape: src = list of k (int: yields k values and ends) or 'tK' (yields K values, then throws)"""
    f = []
    for x in list(src) + [0] * (3 - len(src)):
        f += [1, int(x[1:])] if isinstance(x, str) else [0, x]
    return '{%d,%d,%d,%s}' % (n, style, stop, ','.join(str(v) for v in f))
def shapes(*l): return 'AGG_SHAPES ' + ', '.join(l)
def sht(n, style=0, pre=0, src=()):
    """one shape of DRIVE aggr_t (several throwers, consumer goes on after an exception): src as in sh(); pre = 1: source 0 already stepped once"""
    f = []
    for x in list(src) + [0] * (3 - len(src)):
        f += [1, int(x[1:])] if isinstance(x, str) else [0, x]
    return '{%d,%d,%d,%s}' % (n, style, pre, ','.join(str(v) for v in f))
# native replays (audit E): D4 two throwing sources; W1 the aggregate after its exception
RP_TWO = dict(src='c14_two_throwers.cpp', mode='two_throwers', flags=['-g'])
RP_AFTER = dict(src='c14_two_throwers.cpp', mode='after_exception', flags=['-g'])
def text(l): return ', '.join(l)
UNITS = [
    drive('n01_next', 'aggr', 'no source; 1 synchronous source of length 0, 1, 2; symbolic values; consumer: next()/value()',
          defines=[shapes(sh(0), sh(1, src=[0]), sh(1, src=[1]), sh(1, src=[2]))]),
    drive('n2_next_a', 'aggr', '2 synchronous sources, lengths (0,0) (0,1) (0,2) (1,0); next()/value()', defines=[shapes(sh(2, src=[0, 0]), sh(2, src=[0, 1]), sh(2, src=[0, 2]), sh(2, src=[1, 0]))]),
    drive('n2_next_b', 'aggr', '2 synchronous sources, lengths (1,1) (1,2) (2,0); next()/value()', defines=[shapes(sh(2, src=[1, 1]), sh(2, src=[1, 2]), sh(2, src=[2, 0]))]),
    drive('n2_next_c', 'aggr', '2 synchronous sources, lengths (2,1) (2,2); next()/value()', defines=[shapes(sh(2, src=[2, 1]), sh(2, src=[2, 2]))]),
    drive('n3_next_a', 'aggr', '3 synchronous sources, lengths (2,2,2) (0,0,0); next()/value()', defines=[shapes(sh(3, src=[2, 2, 2]), sh(3, src=[0, 0, 0]))], unwind=12),
    drive('n3_next_b', 'aggr', '3 synchronous sources, lengths (0,1,2) (2,0,1) (1,2,0); next()/value()', defines=[shapes(sh(3, src=[0, 1, 2]), sh(3, src=[2, 0, 1]), sh(3, src=[1, 2, 0]))], unwind=12),
    drive('future', 'aggr', 'consumer by call-to-future: no source; 2 sources (1,2) (2,0); 3 sources (1,1,1)', defines=[shapes(sh(0, 1), sh(2, 1, src=[1, 2]), sh(2, 1, src=[2, 0]), sh(3, 1, src=[1, 1, 1]))], unwind=12),
    drive('throw_n1', 'aggr', '1 source that throws a symbolic int after 0, 1, 2 values', defines=[shapes(sh(1, src=['t0']), sh(1, src=['t1']), sh(1, src=['t2']))]),
    drive('throw_n2_a', 'aggr', '2 sources, the first throws after 0, 1, 2 values, the other yields 2', defines=[shapes(sh(2, src=['t0', 2]), sh(2, src=['t1', 2]), sh(2, src=['t2', 2]))]),
    drive('throw_n2_b', 'aggr', '2 sources, the second throws after 0, 1, 2 values, the other yields 2 / 1 / 0', defines=[shapes(sh(2, src=[2, 't0']), sh(2, src=[1, 't1']), sh(2, src=[0, 't2']))]),
    drive('throw_n3', 'aggr', '3 sources, one throws: (2,t1,1) (t2,0,2) by next()/value(), (1,1,t0) by call-to-future', defines=[shapes(sh(3, src=[2, 't1', 1]), sh(3, src=['t2', 0, 2]), sh(3, 1, src=[1, 1, 't0']))], unwind=12),
    # --- audit E: D4 (several throwing sources, per-source oracle), W1 (the consumer goes on after the exception), W6 (shapes)
    drive('after_exc', 'aggr_t', 'the consumer goes on after the exception: 1 thrower alone (t1), 1 thrower + a source of 2 (t1,2) and (2,t0) by next()/value(), (t1,1) by call-to-future; one regular shape (1,1) as control',
          defines=[shapes(sht(1, src=['t1']), sht(2, src=['t1', 2]), sht(2, src=[2, 't0']), sht(2, 1, src=['t1', 1]), sht(2, src=[1, 1]))], replay=RP_AFTER),
    drive('throw2_a', 'aggr_t', 'TWO throwing sources, per-source oracle: (t1,t1) (t0,t2) by next()/value(), (t1,t0) by call-to-future', defines=[shapes(sht(2, src=['t1', 't1']), sht(2, src=['t0', 't2']), sht(2, 1, src=['t1', 't0'])), 'AGG_NO_AFTER_CLAUSE 1'], replay=RP_TWO),
    drive('throw2_b', 'aggr_t', 'TWO throwing sources next to a regular one: (t1,t2,2) (2,t0,t1); THREE throwing sources (t1,t0,t1); next()/value()', defines=[shapes(sht(3, src=['t1', 't2', 2]), sht(3, src=[2, 't0', 't1']), sht(3, src=['t1', 't0', 't1'])), 'AGG_NO_AFTER_CLAUSE 1'], unwind=12, replay=RP_TWO),
    drive('prestep', 'aggr_t', 'source 0 already stepped once by the consumer before it is handed to the aggregator: (2) (2,2) (1,2) (1,0) by next()/value(), (2,1) by call-to-future',
          defines=[shapes(sht(1, pre=1, src=[2]), sht(2, pre=1, src=[2, 2]), sht(2, pre=1, src=[1, 2]), sht(2, pre=1, src=[1, 0]), sht(2, 1, pre=1, src=[2, 1]))]),
    drive('early_n2', 'aggr', '2 sources of length 2, aggregate destroyed after 0..4 values (never started / parked at a yield); ORDER: the drain of the dropped aggregate pops while every source is still alive', defines=[shapes(*[sh(2, stop=t, src=[2, 2]) for t in range(5)])]),
    drive('early_n13', 'aggr', '1 source of length 2 destroyed after 1, 2 values; 3 sources (2,2,2) destroyed after 1 and after 4 values; 2 sources (1,2) after 2 values by call-to-future; ORDER: the drain of the dropped aggregate pops while every source is still alive',
          defines=[shapes(sh(1, stop=1, src=[2]), sh(1, stop=2, src=[2]), sh(3, stop=1, src=[2, 2, 2]), sh(3, stop=4, src=[2, 2, 2]), sh(2, 1, stop=2, src=[1, 2]))], unwind=12),
    drive('arg_n1', 'aggr_arg', 'generator_aggregator<int,int>: 1 source with argument, length 0, 1, 2; next(arg)/value(); one shape by call-to-future', arg='int',
          defines=['AGG_SHAPES {1,0,0,0}, {1,0,1,0}, {1,0,2,0}, {1,1,2,0}']),
    drive('arg_n2', 'aggr_arg', 'generator_aggregator<int,int>: 2 sources with argument, lengths (1,2) (2,1) (2,2) (0,1); next(arg)/value()', arg='int',
          defines=['AGG_SHAPES {2,0,1,2}, {2,0,2,1}, {2,0,2,2}, {2,0,0,1}'], unwind=12),
]

# ---------------------------------------------------------------------------------------------------------------- contract units (helpers)
def helper(name, alias, rx, arg='void', uses=(), fnptr=None, loop=False, **kw):
    G, CB, N = VAR[arg]
    Q = 'cocls::queue<%s*, cocls::primitives::std_queue, cocls::primitives::single_item_queue, std::mutex>' % CB
    FG = 'cocls::future<%s*>' % CB
    A = {'aq_push': r'^cocls::suspend_point<bool> ' + esc(Q) + r'::push<', 'aq_pop': '^' + esc(Q) + r'::pop\(\)$', 'sp_suspend_now': r'^cocls::suspend_point<void>::suspend_now\(\)$',
         'na_subscribe': '^' + esc(G) + r'::next_awt::subscribe\(cocls::awaiter\*\)$', 'fg_wait': '^' + esc(FG) + r'::wait\(\)$', 'fg_dtor': '^' + esc(FG) + r'::~future\(\)$'}
    names = {alias: rx}
    if fnptr: names['CB_RESUME_FN'] = fnptr
    pt = {}
    if 'aq_push' in uses: pt.update({'SPB': A['aq_push'] + '#0', 'AQ': A['aq_push'] + '#1'})
    if 'aq_pop' in uses: pt.update({'FUTG': A['aq_pop'] + '#0', 'AQ': A['aq_pop'] + '#1'})
    if 'na_subscribe' in uses: pt.update({'NAWT': A['na_subscribe'] + '#0'})
    if alias == 'cb_ctor': pt.update({'AQ': rx + '#1'})
    d = dict(name=name + ('_arg' if arg == 'int' else ''), driver=DRV, roots=[rx], names=names, names_opt={a: A[a] for a in uses}, boundary=[A[a] for a in uses] + ([fnptr] if fnptr else []),
             types={'GCB': CB, 'CTL': 'cocls::_details::generator_aggregator_controller<int, %s>' % arg, 'GEN': G, 'PT': G + '::promise_type', 'AWT': 'cocls::awaiter', 'SP': 'cocls::suspend_point<void>'},
             ptypes=pt, lib=['rt_core.c', 'rt_atomic_seq.c'], spec=['C14/a_spec.h', 'C14/h_a.c'], harness='h_' + name, enforce=alias, loop_contracts=loop,
             defines=(['GEN_ARG 1'] if arg == 'int' else []), under_contract=[rx.lstrip('^').rstrip('$').replace('\\', '')], timeout=300)
    d.update(kw)
    return d
def cbrx(arg): return '^' + esc(VAR[arg][1]) + r'::GenCallback\(cocls::queue<[^{}]*\)'
HELPERS = [
    helper('cb_resume_fn', 'cb_resume_fn', cbrx('void') + r'::\{lambda\(cocls::awaiter\*, void\*\)#1\}::__invoke\(', uses=('aq_push', 'sp_suspend_now'),
           under_contract=['cocls::_details::GenCallback<int, void>::GenCallback(...)::{lambda(awaiter*, void*)#1} (operator() and its static thunk)']),
    helper('cb_ctor', 'cb_ctor', cbrx('void') + '$', fnptr=cbrx('void') + r'::\{lambda\(cocls::awaiter\*, void\*\)#1\}::__invoke\(',
           under_contract=['cocls::_details::GenCallback<int, void>::GenCallback(GenAggrQueue<int, void>&, generator<int, void>)']),
    helper('cb_charge', 'cb_charge', '^void ' + esc(VAR['void'][1]) + r'::charge<>\(\)$', uses=('na_subscribe',)),
    helper('cb_charge', 'cb_charge', '^void ' + esc(VAR['int'][1]) + r'::charge<int&>\(int&\)$', 'int', uses=('na_subscribe',)),
    helper('ctl_dtor', 'ctl_dtor', r'^cocls::_details::generator_aggregator_controller<int, void>::~generator_aggregator_controller\(\)$', uses=('aq_pop', 'fg_wait', 'fg_dtor'), loop=True),
    helper('ctl_fin', 'ctl_fin', r'^cocls::_details::generator_aggregator_controller<int, void>::fin\(\)$'),
    helper('ctl_bool', 'ctl_bool', r'^cocls::_details::generator_aggregator_controller<int, void>::operator bool\(\) const$'),
]
# ---- task B3: members tools/coverage.py listed in no unit
# single_item_queue<promise<GenCallback*>> - the parked-consumer slot of the aggregator's completion queue (queue.h:66-93, a std::optional inside;
# libstdc++'s optional is straight-line code without allocation and is translated as it is; promise's move constructor / destructor are abstract callees)
def siq(name, alias, arg='void', uses=('pm_move', 'pm_dtor', 're_ctor'), **kw):
    G, CB, N = VAR[arg]
    PG = 'cocls::promise<%s*>' % CB
    A = {'pm_move': '^' + esc(PG) + r'::promise\(' + esc(PG) + r'&&\)$', 'pm_dtor': '^' + esc(PG) + r'::~promise\(\)$', 're_ctor': r'^std::runtime_error::runtime_error\(char const\*\)$'}
    d = dict(name=name + ('_arg' if arg == 'int' else ''), driver=DRV, roots=[N[alias]], names={alias: N[alias]}, names_opt={a: A[a] for a in uses}, boundary=[A[a] for a in uses],
             types={}, ptypes={'SIQ': N[alias] + '#0'}, lib=['rt_core.c', 'rt_atomic_seq.c'], spec=['C14/q_spec.h'], harness='h_' + name, enforce=alias,
             under_contract=[N[alias].lstrip('^').rstrip('$').replace('\\', '')], timeout=120)
    d.update(kw)
    return d
def cbmove(arg):
    G, CB, N = VAR[arg]
    rx = '^' + esc(CB) + r'::GenCallback\(' + esc(CB) + r'&&\)$'
    return dict(name='cb_move' + ('_arg' if arg == 'int' else ''), driver=DRV, roots=[rx], names={'cb_move': rx}, names_opt={}, boundary=[],
                types={'GCB': CB, 'GEN': G, 'AWT': 'cocls::awaiter'}, lib=['rt_core.c', 'rt_atomic_seq.c'], spec=['C14/q_spec.h'], harness='h_cb_move', enforce='cb_move',
                under_contract=[rx.lstrip('^').rstrip('$').replace('\\', '')], timeout=120)
PARTS = [siq('si_ctor', 'si_ctor'), siq('si_dtor', 'si_dtor'), siq('si_empty', 'si_empty'), siq('si_emplace', 'si_emplace'), siq('si_front', 'si_front'), siq('si_pop', 'si_pop'),
         cbmove('void'), cbmove('int')]
UNITS = HELPERS + PARTS + UNITS

META = dict(
    level='other',
    level_text='BOUNDED, not a proof: the statement lives inside the coroutine body of generator_aggregator, which no contract reaches; it is decided by bounded symbolic execution of the really lowered generator_aggregator<int,void> / <int,int> coroutine (clang -O0 lowering, ir2c devirtualised resume) together with the real generator.h / queue.h / future.h / awaiter.h code, for 0..3 scripted SYNCHRONOUS sources of length <= 2 (lists of shapes per unit, see units[].bound; values symbolic in their low 24 bits, the top byte tags the yield they come from), sources may throw a symbolic exception after 0..2 values (one thrower with a consumer that stops at the exception; one, two or three throwers - each with a payload of its own - with a consumer that goes on after every exception), a source may have been stepped once by the consumer before it is handed over, consumer by next()/value() and by call-to-future, aggregate dropped after 0..4 values. Checked per shape: the consumer observes exactly the multiset union (every yielded value exactly once, nothing else), each source\'s values in that source\'s order, the end when and only when all sources have ended (one end indication), a source\'s exception loses no value of any source and is reported - PER SOURCE: the payload of every throwing source reaches the consumer exactly once, nothing else is reported (clause C14-FINDING-two-throwers; OPEN known finding, see level_note) -, after the last value / exception the aggregate is finished, says so and gives the consumer that goes on exactly one end indication (C13 after-exception clause seen through the aggregate; fails on the unchanged generator.h, repaired by specs/C13/fix_after_exception.diff), the first argument initialises every source and each later argument reaches the source whose value was returned last, dropping the aggregate before its first activation / while parked at a yield destroys every activated source\'s locals exactly once, allocations == deallocations (frames + the two vector buffers), ORDER of the destruction (clause "destroying the aggregate while parked WAITS for in-flight asynchronous sources", checked in every drive, decisive in drive_early_n2 / drive_early_n13 with >= 2 active sources; added for seeded change C14-1): at every wait of the aggregate for a source - every pop of its completion queue, in particular every pop of the drain in ~generator_aggregator_controller - no source coroutine frame of this aggregate has been destroyed yet (C14-ORDER-wait-before-destroy), and at the moment a source frame is destroyed no source\'s completion is still unconsumed in that queue (C14-ORDER-destroy-after-wait; with synchronous sources an asked source has reported at once, so "in flight" = "completion still queued"), once the aggregate is gone as many completions were taken as were put (source frames are counted by the heap model, every one seen created and destroyed exactly once), the aggregator never parks on queue.pop() with synchronous sources, the callback vector never reallocates. PROVED (contracts, unbounded) only for the helpers: the resume function of GenCallback pushes its own callback onto its own queue exactly once and resumes nobody; the GenCallback constructor wires queue / generator / that function; charge() asks the callback\'s own generator once with the callback as asker (argument installed first); ~generator_aggregator_controller performs exactly count-1 blocking pops of its queue for EVERY count (loop contract), fin() and operator bool keep the active-source counter; the parked-consumer slot primitives::single_item_queue<promise<GenCallback*>> (ctor, dtor, empty, emplace, front, pop over the real libstdc++ std::optional code): at most one promise, emplace on an empty slot takes the promise over, emplace on a FULL slot refuses by an exception and loses neither the parked promise nor the argument, pop / the destructor destroy exactly the parked promise exactly once; GenCallback(GenCallback&&) for <int,void> and <int,int>: a relocated callback keeps its wiring (queue, resume function, link) and takes the source over - exactly one owner.',
    level_note='Not covered: asynchronous sources (a source suspended on another awaitable, completing on another thread or later on this thread), hence also "waits for in-flight asynchronous sources" beyond the controller contract and the ORDER obligations C14-ORDER-* (which pin WHEN the drain runs relative to the destruction of the sources, on synchronous sources whose completions are already queued - not that a blocking wait really blocks until another thread delivers), the single-consumer awaiter slot of cocls::queue, infinite sources, more than 3 sources or more than 2 values per source, value types other than int. OPEN KNOWN FINDING (audit E, D4; marker C14-FINDING-two-throwers, units drive_throw2_a / drive_throw2_b, native replay replay/c14_two_throwers.cpp two_throwers): the statement says "a source\'s exception ... is reported to the consumer" - for every source; the aggregator keeps ONE std::exception_ptr and overwrites it at every caught exception (`exp = std::current_exception();`), so with two or more throwing sources only the exception caught last is reported, the others vanish silently (the former oracle allowed at most one thrower - copied from the code). No small repair: a generator can hand over a single exception, at its end; reporting several needs a design decision (collect / nest them in one exception - which changes the type a consumer catches -, or another reporting channel); keeping the first instead of the last loses just as many. NOT COVERED (audit E, D5): a source that is already FINISHED (exhausted, or ended by an exception) when it is handed to the aggregator - outside the statement\'s scripted source generators, which are fresh (or, unit drive_prestep, parked at a yield). The aggregator mishandles it (auditor\'s native reproducer c14_scenarios exhausted_first / exhausted_last): charge() throws no_more_values_exception outside the try block of the loop; as the first source, ~generator_aggregator_controller then waits for ever for sources that were never charged (hang); as a later source the exception ends the aggregate at once and the values of the other sources are lost. Shapes are sampled, not exhaustive for n = 3. WHY STILL level \'other\' (task B3, item 4): the central step - "pop a callback, yield the value of exactly that callback\'s source, re-charge exactly that callback once" - is code of the coroutine BODY; after clang\'s lowering it is one region of generator_aggregator(...).resume between two suspend points, reachable only through the frame (suspend index, spilled locals gcb / g / cnt / queue / the pending future of queue.pop()). Its helpers are all under contract now (resume function = one push of the own pointer; charge = one subscribe of the own generator with the callback as asker; controller; the consumer slot; the relocation), but a history lemma over those contracts alone would have to restate the order in which the body calls them - a hand-written look-alike of the loop, which the method forbids - and a contract on the lowered .resume step (state "resumed at the pop await with callback X" -> "suspended at the yield with _ret == X\'s item, X not yet charged"; state "resumed at the yield" -> "X charged exactly once, one pop requested") needs a harness that builds the frame by its compiler-chosen layout plus abstract future / co_awaiter steps; it was not attempted in the time of this task. The bounded drives remain the only evidence for the top-level statement. OBSERVATION (GenCallback relocation): a callback that has been charge()d is registered by ADDRESS as the asker in its source\'s promise; the (defaulted) move constructor cannot re-register it, so relocating a charged callback would leave a dangling asker - the aggregator is safe only because cbs.reserve(list.size()) keeps std::vector\'s reallocation path dead (every drive checks that the callback vector never reallocates). Trusted: models of std::vector (typed pool, no growth; real element constructors/destructors), std::queue<GenCallback*> (FIFO ring), single_item_queue (obligation: stays empty), std::mutex, std::deque of the ready queue, std::atomic<T*> members, typed frame allocation.',
    technique='bounded symbolic execution with CBMC 6.11 (unwinding assertions, every shape run with a concrete control path) of driver scenarios over the C translation of the clang-lowered generator_aggregator coroutine and everything it calls; CBMC code contracts + one loop contract via goto-instrument --dfcc for the helper members',
    trusted_base=['std::vector<generator>, std::vector<GenCallback> = three pointers over a typed static pool, no reallocation (pinned elements: obligation), elements built and destroyed by the real translated functions (lib/model_vec_pool.c)',
                  'std::queue<GenCallback*> = bounded FIFO ring, accesses under the queue mutex (lib/model_ptrq_ring.c, lib/model_mutex.c; pop() restated in specs/C14/drive_models.h with the ORDER obligation); single_item_queue<promise<GenCallback*>> = always empty, parking is a failed obligation (specs/C14/drive_models.h)',
                  'std::atomic<T*> members read sequentially at member-function level (lib/model_atomic_ptr_api.c); std::deque<coroutine_handle<>> = FIFO ring (lib/model_dq_drive.c); operator new/delete with typed coroutine frames, source frames remembered and counted at allocation / release (lib/model_heap_frames_src.c = lib/model_heap_frames.c + that ghost)',
                  'contract units: queue::push / queue::pop / future::wait / ~future / next_awt::subscribe / suspend_now as recording stubs (specs/C14/a_spec.h); single_item_queue units: promise<GenCallback*> move constructor (ownership of the future moves) and destructor (counted, owner recorded) and std::runtime_error\'s constructor as stubs, std::optional translated from libstdc++ as it is (specs/C14/q_spec.h)'],
    assumptions=['bounded: <= 3 synchronous sources, <= 2 values each, <= 3 throwing sources, <= 10 consumer steps; single thread; sampled shapes for 3 sources and for several throwers',
                 'observed values are attributed to yields by a tag in the top byte (low 24 bits symbolic)',
                 'ctl_dtor: the controller counter equals the number of active sources (that is the body\'s bookkeeping, exercised only by the drives)'],
    explanation='see level_text')
