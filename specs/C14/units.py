# C14 - Generator aggregator: union of all sources, per-source order preserved
CHT = 'std::__n4861::coroutine_handle<void>'
DQT = 'std::deque<%s, std::allocator<%s > >' % (CHT, CHT)
WAIT = r'^std::atomic<bool>::wait\(bool, std::memory_order\) const$'
NOTIFY = r'^std::atomic<bool>::notify_all\(\)$'
DRV = 'c14_aggregator.cpp'
def esc(x): return x.replace('(', r'\(').replace(')', r'\)').replace('*', r'\*').replace('+', r'\+')

def variant(arg):
    G = 'cocls::generator<int, %s>' % arg
    CB = 'cocls::_details::GenCallback<int, %s>' % arg
    VG = 'std::vector<%s, std::allocator<%s > >' % (G, G)
    VC = 'std::vector<%s, std::allocator<%s > >' % (CB, CB)
    SQ = 'std::queue<%s*, std::deque<%s*, std::allocator<%s*> > >' % (CB, CB, CB)
    FG = 'cocls::future<%s*>' % CB
    SI = 'cocls::primitives::single_item_queue<cocls::promise<%s*> >' % CB
    N = {
        # std::atomic<T*> members read sequentially at member-function level (lib/model_atomic_ptr_api.c)
        'ap_aw_load': r'^std::atomic<cocls::awaiter\*>::load\(std::memory_order\) const$', 'ap_aw_xchg': r'^std::atomic<cocls::awaiter\*>::exchange\(',
        'ap_aw_cas': r'^std::atomic<cocls::awaiter\*>::compare_exchange_weak\(cocls::awaiter\*&, cocls::awaiter\*, std::memory_order, std::memory_order\)$',
        'ap_fu_load': r'^std::atomic<cocls::future<int>\*>::load\(std::memory_order\) const$', 'ap_fu_xchg': r'^std::atomic<cocls::future<int>\*>::exchange\(',
        'ap_fu_assign': r'^std::atomic<cocls::future<int>\*>::operator=\(cocls::future<int>\*\)$',
        'ap_fg_load': '^' + esc('std::atomic<%s*>::load(std::memory_order) const' % FG) + '$', 'ap_fg_xchg': '^' + esc('std::atomic<%s*>::exchange(' % FG),
        'ap_fg_assign': '^' + esc('std::atomic<%s*>::operator=(%s*)' % (FG, FG)) + '$',
        # std::vector<generator>, std::vector<GenCallback>, std::queue<GenCallback*>  (lib/model_vec_pool.c, lib/model_ptrq_ring.c)
        'vg_ctor': '^' + esc(VG) + r'::vector\(\)$', 'vg_move': '^' + esc(VG) + r'::vector\(' + esc(VG) + r'&&\)$', 'vg_dtor': '^' + esc(VG) + r'::~vector\(\)$',
        'vg_size': '^' + esc(VG) + r'::size\(\) const$', 'vg_begin': '^' + esc(VG) + r'::begin\(\)$', 'vg_end': '^' + esc(VG) + r'::end\(\)$',
        'vg_emplace': '^' + esc(G) + '& ' + esc(VG) + r'::emplace_back<',
        'vc_ctor': '^' + esc(VC) + r'::vector\(\)$', 'vc_dtor': '^' + esc(VC) + r'::~vector\(\)$', 'vc_reserve': '^' + esc(VC) + r'::reserve\(unsigned long\)$',
        'vc_back': '^' + esc(VC) + r'::back\(\)$', 'vc_emplace': '^' + esc(CB) + '& ' + esc(VC) + r'::emplace_back<',
        'pq_ctor': '^' + esc(SQ) + r'::queue<', 'pq_dtor': '^' + esc(SQ) + r'::~queue\(\)$', 'pq_empty': '^' + esc(SQ) + r'::empty\(\) const$', 'pq_front': '^' + esc(SQ) + r'::front\(\)$',
        'pq_pop': '^' + esc(SQ) + r'::pop\(\)$', 'pq_emplace': r'^decltype\(auto\) ' + esc(SQ) + r'::emplace<',
        # cocls::primitives::single_item_queue<promise<GenCallback*>> (std::optional inside): the parked-consumer slot of cocls::queue
        'si_ctor': '^' + esc(SI) + r'::single_item_queue\(\)$', 'si_dtor': '^' + esc(SI) + r'::~single_item_queue\(\)$', 'si_empty': '^' + esc(SI) + r'::empty\(\) const$',
        'si_emplace': '^void ' + esc(SI) + r'::emplace<', 'si_front': '^' + esc(SI) + r'::front\(\)$', 'si_pop': '^' + esc(SI) + r'::pop\(\)$',
        'ab_wait': WAIT, 'ab_notify': NOTIFY,
        # element operations the vector models call (real translated code)
        'el_gen_move': '^' + esc(G) + r'::generator\(' + esc(G) + r'&&\)$', 'el_gen_dtor': '^' + esc(G) + r'::~generator\(\)$',
        'el_cb_ctor': '^' + esc(CB) + r'::GenCallback\(cocls::queue<[^{}]*\)$', 'el_cb_dtor': '^' + esc(CB) + r'::~GenCallback\(\)$',
    }
    return G, CB, N
VAR = {'void': variant('void'), 'int': variant('int')}
MODELS = ['ap_aw_load', 'ap_aw_xchg', 'ap_aw_cas', 'ap_fu_load', 'ap_fu_xchg', 'ap_fu_assign', 'ap_fg_load', 'ap_fg_xchg', 'ap_fg_assign', 'vg_ctor', 'vg_move', 'vg_dtor', 'vg_size', 'vg_begin', 'vg_end', 'vg_emplace',
          'vc_ctor', 'vc_dtor', 'vc_reserve', 'vc_back', 'vc_emplace', 'pq_ctor', 'pq_dtor', 'pq_empty', 'pq_front', 'pq_pop', 'pq_emplace', 'si_ctor', 'si_dtor', 'si_empty', 'si_emplace', 'si_front', 'si_pop', 'ab_wait', 'ab_notify']
ELEMS = ['el_gen_move', 'el_gen_dtor', 'el_cb_ctor', 'el_cb_dtor']

# ---------------------------------------------------------------------------------------------------------------- bounded drives
D_GLOBALS = {'FRAME_KIND': 'g_frame_kind', 'G_OBS': 'g_obs', 'G_NOBS': 'g_nobs', 'G_END': 'g_end', 'G_EXC_N': 'g_exc_n', 'G_EXC_AT': 'g_exc_at', 'G_EXC_VAL': 'g_exc_val',
             'G_NMV': 'g_nmv', 'G_OTHER_EXC': 'g_other_exc', 'G_CTOR': 'g_ctor', 'G_DTOR': 'g_dtor', 'G_ARG_SRC': 'g_arg_src', 'G_ARG_VAL': 'g_arg_val', 'G_NARGS': 'g_nargs'}
D_LIBS = ['rt_core.c', 'rt_atomic_seq.c', 'model_atomic_ptr_api.c', 'model_dq_drive.c', 'model_heap_frames.c', 'model_mutex.c', 'model_vec_pool.c', 'model_ptrq_ring.c']
AGG_FRAME = {'void': 'S__ZN5cocls20generator_aggregatorIivEENS_9generatorIT_T0_EESt6vectorIS4_SaIS4_EE_Frame', 'int': 'S__ZN5cocls20generator_aggregatorIiiEENS_9generatorIT_T0_EESt6vectorIS4_SaIS4_EE_Frame'}
def drive(name, kind, what, arg='void', defines=(), unwind=10, timeout=200, **kw):
    G, CB, N = VAR[arg]
    root = 'drive_aggr_arg' if arg == 'int' else 'drive_aggr'
    frames = 'CV_FRAME_KINDS ' + ('X(3, S_src_arg_Frame) X(5, %s)' % AGG_FRAME['int'] if arg == 'int' else 'X(1, S_src_vals_Frame) X(2, S_src_throw_Frame) X(4, %s)' % AGG_FRAME['void'])
    d = dict(name='drive_' + name, driver=DRV, roots=['^%s$' % root] + [N[e] for e in ELEMS], names={e: N[e] for e in ELEMS}, names_opt={m: N[m] for m in MODELS},
             types={'CH': CHT, 'DQCH': DQT, 'ATOMB': 'std::atomic<bool>', 'ATOM_AW': 'std::atomic<cocls::awaiter *>', 'ATOM_FU': 'std::atomic<cocls::future<int> *>', 'AWT': 'cocls::awaiter', 'FUT': 'cocls::future<int>'},
             ptypes={'VGEN': N['vg_ctor'] + '#0', 'VCB': N['vc_ctor'] + '#0', 'SQ': N['pq_ctor'] + '#0', 'GCB': N['el_cb_dtor'] + '#0', 'AQ': N['el_cb_ctor'] + '#1', 'GEN': N['el_gen_dtor'] + '#0',
                     'ATOM_FG': N['ap_fg_xchg'] + '#0', 'FUTG': N['ap_fg_xchg'] + '#1', 'SIQ': N['si_empty'] + '#0', 'PROMG': N['si_emplace'] + '#1'},
             globals=D_GLOBALS, boundary=[r'^std::deque<std::__n4861::coroutine_handle<void>'] + [N[m] for m in MODELS], lib=D_LIBS, spec=['C14/drive_models.h', 'C14/h_drive.c'], harness='h_drive',
             defines=['CV_NO_HEAP_PRIMS 1', frames, 'DRIVE_%s 1' % kind] + list(defines), unwind=unwind, object_bits=12, kind='bounded', timeout=timeout, bounded=what, under_contract=[])
    d.update(kw)
    return d
UNITS = [
    drive('aggr_n2_next', 'aggr', '2 synchronous sources, every combination of lengths 0..2, symbolic values; consumer: next()/value()', defines=['AGG_N 2', 'AGG_STYLE 0']),
]
META = dict(level='other', level_text='TODO', level_note='TODO', technique='TODO', trusted_base=[], assumptions=[], explanation='')
