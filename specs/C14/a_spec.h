/* C14 - contracts on the helpers of generator_aggregator (src/cocls/generator_aggregator.h).  The property itself lives in the coroutine
 * body and is decided by the bounded drives; what is PROVED here are the pieces the body relies on:
 *   GenCallback's resume function  : a source that has produced (or ended) reports by pushing ITS OWN callback onto ITS queue, exactly
 *                                    once per resumption, and makes nothing else ready;
 *   GenCallback constructor        : wires queue, generator and that resume function;
 *   GenCallback::charge            : asks the callback's own generator for the next item with the callback itself as the asker (and, with
 *                                    an argument, installs that argument first);
 *   controller::~controller        : drains exactly count-1 reports (blocking), never more - the source whose value is being yielded has
 *                                    not been re-charged; fin() / operator bool: the active-source counter.
 * queue::push / queue::pop / future::wait / next_awt::subscribe are abstract callees (recording stubs). */
#define G_PRE (cv_exc_pending == 0)
#define GEN_P(g) (*(void **)&(g)->_promise)
#define SP_COUNT(sp) ((sp)->_count_flag >> 1)
cv_i64 gh_push_calls; void *gh_push_q; void *gh_push_val; cv_i32 gh_push_count; cv_i8 *gh_push_h;
#ifdef CV_HAS_aq_push
void aq_push(SPB *ret, AQ *q, GCB **v) { gh_push_calls++; gh_push_q = q; gh_push_val = *v;
  ret->base_suspend_point._count_flag = gh_push_count << 1; ((SP *)ret)->f0.f0._handles[0] = gh_push_h; ret->value = 0; }
#endif
cv_i64 gh_sn_calls; cv_i32 gh_sn_count; cv_i8 *gh_sn_h;
#ifdef CV_HAS_sp_suspend_now
void sp_suspend_now(SP *sp) { gh_sn_calls++; gh_sn_count = SP_COUNT(sp); gh_sn_h = sp->f0.f0._handles[0]; sp->_count_flag = 0; }
#endif
cv_i64 gh_sub_calls; void *gh_sub_owner; void *gh_sub_awt; void *gh_sub_arg_then;
#ifdef CV_HAS_na_subscribe
cv_i1 na_subscribe(NAWT *n, AWT *awt) { gh_sub_calls++; gh_sub_owner = *(void **)((cv_i8 *)n + sizeof(AWT)); gh_sub_awt = awt;
#ifdef GEN_ARG
  gh_sub_arg_then = (void *)((PT *)GEN_P((GEN *)gh_sub_owner))->_arg;
#endif
  return 1; }
#endif
cv_i64 gh_pop_calls, gh_wait_calls, gh_fdtor_calls; void *gh_pop_q; int gh_pop_wrong_q, gh_wait_unpopped;
#ifdef CV_HAS_aq_pop
void aq_pop(FUTG *ret, AQ *q) { gh_pop_calls++; if (gh_pop_calls == 1) gh_pop_q = q; else if (gh_pop_q != (void *)q) gh_pop_wrong_q = 1; }
#endif
#ifdef CV_HAS_fg_wait
GCB *gh_wait_slot;
GCB **fg_wait(FUTG *f) { gh_wait_calls++; if (gh_wait_calls != gh_pop_calls) gh_wait_unpopped = 1; return &gh_wait_slot; }
#endif
#ifdef CV_HAS_fg_dtor
void fg_dtor(FUTG *f) { gh_fdtor_calls++; }
#endif
#define A_GHOSTS gh_push_calls, gh_push_q, gh_push_val, gh_sn_calls, gh_sn_count, gh_sn_h, gh_sub_calls, gh_sub_owner, gh_sub_awt, gh_sub_arg_then, gh_pop_calls, gh_wait_calls, gh_fdtor_calls, gh_pop_q, gh_pop_wrong_q, gh_wait_unpopped
#define A_FRESH (gh_push_calls == 0 && gh_sn_calls == 0 && gh_sub_calls == 0 && gh_pop_calls == 0 && gh_wait_calls == 0 && gh_fdtor_calls == 0 && gh_pop_wrong_q == 0 && gh_wait_unpopped == 0)
#define NO_ALLOC (gh_allocs == __CPROVER_old(gh_allocs))

/* the function stored as the callback's resume function (static thunk of the constructor's lambda): me IS the GenCallback */
#ifdef CV_HAS_cb_resume_fn
void cb_resume_fn(SP *ret, AWT *me, cv_i8 *ctx)
__CPROVER_requires(G_PRE && A_FRESH && __CPROVER_is_fresh(ret, sizeof(*ret)) && gh_push_count <= 1 && gh_push_h != 0)
__CPROVER_assigns(__CPROVER_object_whole(ret), A_GHOSTS)
__CPROVER_ensures(cv_exc_pending == 0 && gh_push_calls == 1)                                                    /* reports exactly once */
__CPROVER_ensures(gh_push_val == (void *)me && gh_push_q == (void *)((GCB *)me)->_q)                            /* itself, onto its own queue */
__CPROVER_ensures(ret->_count_flag == 0)                                                                         /* resumes nobody directly */
__CPROVER_ensures(gh_push_count == 1 ==> (gh_sn_calls == 1 && gh_sn_count == 1 && gh_sn_h == gh_push_h))         /* a consumer woken by the push is scheduled, not lost */
__CPROVER_ensures(gh_push_count == 0 ==> gh_sn_calls == 0)
__CPROVER_ensures(NO_ALLOC)
;
#endif
#ifdef CV_HAS_cb_ctor
void cb_ctor(GCB *this_, AQ *q, GEN *gen)
__CPROVER_requires(G_PRE && A_FRESH && __CPROVER_is_fresh(this_, sizeof(*this_)) && __CPROVER_is_fresh(gen, sizeof(*gen)))
__CPROVER_assigns(__CPROVER_object_whole(this_), __CPROVER_object_whole(gen))
__CPROVER_ensures(cv_exc_pending == 0 && this_->_q == q && GEN_P(&this_->_gen) == __CPROVER_old(GEN_P(gen)) && GEN_P(gen) == 0)     /* takes the source over */
__CPROVER_ensures((void *)this_->base_awaiter._resume_fn == (void *)CB_RESUME_FN && this_->base_awaiter._next == 0)                  /* resumed = reports to the queue */
__CPROVER_ensures(gh_push_calls == 0 && gh_sub_calls == 0 && NO_ALLOC)                                                                /* construction neither asks nor reports */
;
#endif
/* charge(): one request to the callback's OWN generator, asker = the callback */
#ifdef CV_HAS_cb_charge
GCB *gh_cb;          /* the callback under test (harness-allocated, its generator bound to a harness-allocated promise) */
#ifdef GEN_ARG
void cb_charge(GCB *this_, cv_i32 *arg)
#else
void cb_charge(GCB *this_)
#endif
__CPROVER_requires(G_PRE && A_FRESH && this_ == gh_cb)
#ifdef GEN_ARG
__CPROVER_assigns(((PT *)GEN_P(&gh_cb->_gen))->_arg, A_GHOSTS)
__CPROVER_ensures(gh_sub_arg_then == (void *)arg)                             /* the argument is installed before the source is resumed */
#else
__CPROVER_assigns(A_GHOSTS)
#endif
__CPROVER_ensures(cv_exc_pending == 0 && gh_sub_calls == 1 && gh_sub_owner == (void *)&this_->_gen && gh_sub_awt == (void *)this_ && gh_push_calls == 0 && NO_ALLOC)
;
#endif
/* ~controller(): drains exactly count-1 outstanding reports - each by one blocking pop of ITS queue - and stops */
#ifdef CV_HAS_ctl_dtor
cv_i64 gh_c0;
#define CV_LOOP_ctl_dtor_0 \
  __CPROVER_assigns(CV_LOOP_LOCALS_ctl_dtor_0, this1->_count, A_GHOSTS) \
  __CPROVER_loop_invariant(cv_exc_pending == 0 && this1->_count <= gh_c0 && (gh_c0 >= 1 ? this1->_count >= 1 : this1->_count == 0) && \
                           gh_pop_calls == gh_c0 - this1->_count && gh_wait_calls == gh_pop_calls && gh_fdtor_calls == gh_pop_calls && gh_pop_wrong_q == 0 && gh_wait_unpopped == 0 && \
                           (gh_pop_calls > 0 ==> gh_pop_q == (void *)this1->_queue))
void ctl_dtor(CTL *this_)
__CPROVER_requires(G_PRE && A_FRESH && __CPROVER_is_fresh(this_, sizeof(*this_)) && gh_c0 == this_->_count)
__CPROVER_assigns(this_->_count, A_GHOSTS)
__CPROVER_ensures(cv_exc_pending == 0)
__CPROVER_ensures(gh_c0 >= 1 ==> (gh_pop_calls == gh_c0 - 1 && this_->_count == 1))      /* exactly count-1 reports are outstanding while parked at a yield */
__CPROVER_ensures(gh_c0 == 0 ==> (gh_pop_calls == 0 && this_->_count == 0))
__CPROVER_ensures(gh_wait_calls == gh_pop_calls && gh_fdtor_calls == gh_pop_calls && gh_wait_unpopped == 0)      /* every pop is waited for (blocking) and its future destroyed */
__CPROVER_ensures(gh_pop_calls > 0 ==> (gh_pop_q == (void *)this_->_queue && gh_pop_wrong_q == 0))
__CPROVER_ensures(NO_ALLOC)
;
#endif
#ifdef CV_HAS_ctl_fin
void ctl_fin(CTL *this_)
__CPROVER_requires(G_PRE && __CPROVER_is_fresh(this_, sizeof(*this_)) && this_->_count >= 1)
__CPROVER_assigns(this_->_count)
__CPROVER_ensures(this_->_count == __CPROVER_old(this_->_count) - 1 && NO_ALLOC)
;
#endif
#ifdef CV_HAS_ctl_bool
cv_i1 ctl_bool(CTL *this_)
__CPROVER_requires(G_PRE && __CPROVER_is_fresh(this_, sizeof(*this_)))
__CPROVER_assigns()
__CPROVER_ensures(__CPROVER_return_value == (this_->_count > 0 ? 1 : 0) && NO_ALLOC)
;
#endif
