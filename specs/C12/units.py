# C12 - Scheduler: never early, in deadline order, cancel hits exactly its target   (src/cocls/scheduler.h)
import os
TPT = 'std::chrono::time_point<std::chrono::_V2::system_clock, std::chrono::duration<long, std::ratio<1L, 1000000000L> > >'
TYPES = {'SCHED': 'cocls::scheduler', 'ITEM': 'cocls::scheduler::SchItem', 'PROM': 'cocls::promise<void>',
         'VECT': 'std::vector<cocls::scheduler::SchItem, std::allocator<cocls::scheduler::SchItem> >'}
T_EXPIRED = {'EXPIRED': 'std::variant<%s, cocls::promise<void> >' % TPT}
VARX = r'^std::variant<std::chrono::time_point<.*>, cocls::promise<void> >::variant<'
VAR_NAMES = dict(var_from_promise=VARX + r'cocls::promise<void>, void, void, cocls::promise<void>, void>\(cocls::promise<void>&&\)$',
                 var_from_tp_rv=VARX + r'std::chrono::time_point<[^&]*, void, void, std::chrono::time_point<.*, void>\(std::chrono::time_point<.*>&&\)$',
                 var_from_tp_lv=VARX + r'std::chrono::time_point<.*>&, void, void, std::chrono::time_point<.*, void>\(std::chrono::time_point<.*>&\)$')
CAST_RX = r'std::chrono::duration_cast<std::chrono::duration<long, std::ratio<1l, 1000000000l> >, long, std::ratio<1l, 1000l> >\('
T_SPB = {'SPB': 'cocls::suspend_point<bool>', 'SP': 'cocls::suspend_point<void>', 'EPTR': 'std::__exception_ptr::exception_ptr'}
T_FUT = {'FUT': 'cocls::future<void>'}
RX = dict(
    compare_item=r'^cocls::scheduler::compare_item\(',
    pop_item=r'^cocls::scheduler::pop_item\(\)$',
    get_expired_lk=r'^cocls::scheduler::get_expired_lk\(',
    get_expired=r'^cocls::scheduler::get_expired\(',
    remove=r'^cocls::scheduler::remove\(void const\*\)$',
    remove_pred=r'^cocls::scheduler::remove\(void const\*\)::\{lambda\(cocls::scheduler::SchItem const&\)#1\}::operator\(\)\(cocls::scheduler::SchItem const&\) const$',
    find_if=r'std::find_if<__gnu_cxx::__normal_iterator<cocls::scheduler::SchItem\*',
    cancel=r'^cocls::scheduler::cancel\(void const\*\)$',
    cancel_e=r'^cocls::scheduler::cancel\(void const\*, std::__exception_ptr::exception_ptr\)$',
    schedule=r'^cocls::scheduler::schedule\(',
    sleep_until=r'^cocls::scheduler::sleep_until\(.*void const\*\)$',
    sleep_for=r'^cocls::future<void> cocls::scheduler::sleep_for<long, std::ratio<1l, 1000l> >\(',
    dtor=r'^cocls::scheduler::~scheduler\(\)$',
    interval_cb=r'^cocls::scheduler::interval<long, std::ratio<1l, 1000l> >\(.*\)::\{lambda\(\)#1\}::operator\(\)\(\) const$',
    item_move=r'^cocls::scheduler::SchItem::SchItem\(cocls::scheduler::SchItem&&\)$',
    item_dtor=r'^cocls::scheduler::SchItem::~SchItem\(\)$',
    pr_call_exc=r'^cocls::suspend_point<bool> cocls::promise<void>::operator\(\)<std::__exception_ptr::exception_ptr&>\(std::__exception_ptr::exception_ptr&\)$',
    pr_ctor_future=r'^cocls::promise<void>::promise\(cocls::future<void>&\)$',
    sp_dtor=r'^cocls::suspend_point<void>::~suspend_point\(\)$',
    # worker side (thread / thread-pool / start(awaitable) mode): the lowered coroutine worker_coro<have_pool> and its two lambdas
    wk_resume=r'^cocls::async<void> cocls::scheduler::worker_coro<false>\(std::stop_token\) \[clone \.resume\]$',
    wk_resume_pool=r'^cocls::async<void> cocls::scheduler::worker_coro<true>\(std::stop_token\) \[clone \.resume\]$',
    wk_stop_cb=r'^cocls::scheduler::worker_coro<false>\(std::stop_token\)::\{lambda\(\)#1\}::operator\(\)\(\) const$',
    wk_stop_cb_pool=r'^cocls::scheduler::worker_coro<true>\(std::stop_token\)::\{lambda\(\)#1\}::operator\(\)\(\) const$',
)
BOUNDARY = [r'^std::vector<cocls::scheduler::SchItem', r'^void std::push_heap<', r'^void std::pop_heap<', RX['find_if'], r'^cocls::promise<void>::',
            r'cocls::promise<void>::operator\(\)<', r'^std::condition_variable::', RX['sp_dtor']]
LIBS = ['rt_core.c', 'rt_atomic_seq.c', 'model_mutex.c']     # lib/model_vec_heap.c and lib/model_promise.c are included by the spec (they need its macros)
SPEC = ['C12/sch_spec.h', 'C12/h_sch.c']
SPEC_WK = ['C12/sch_spec.h', 'C12/wk_spec.h', 'C12/h_wk.c']      # worker-side units (worker_coro, its lambdas, start<Awt>)
HEAP = dict(sch_compare_item=RX['compare_item'], sch_item_dtor=RX['item_dtor'])
DRIVE_SCRIPTS = ['SSCGC', 'SSSCC', 'SSGGG', 'SCCGS', 'SGSCG', 'SSCCG']   # incl. cancel of a non-top entry + expiry + repeated cancel, duplicate ids, equal deadlines
DRIVE_REPLAY = {'SSCGC': dict(replay=dict(src='c12_remove_empty.cpp', mode='remove_empty')), 'SSSCC': dict(replay=dict(src='c12_cancel_dup.cpp', mode='cancel_dup'))}
UC = dict(compare_item='cocls::scheduler::compare_item(cocls::scheduler::SchItem const&, cocls::scheduler::SchItem const&)', pop_item='cocls::scheduler::pop_item()',
          get_expired_lk='cocls::scheduler::get_expired_lk(std::chrono::system_clock::time_point)', get_expired='cocls::scheduler::get_expired(std::chrono::system_clock::time_point)',
          remove='cocls::scheduler::remove(void const*)', schedule='cocls::scheduler::schedule(void const*, cocls::promise<void>, std::chrono::system_clock::time_point)',
          cancel_e='cocls::scheduler::cancel(void const*, std::exception_ptr)', cancel='cocls::scheduler::cancel(void const*)',
          sleep_until='cocls::scheduler::sleep_until(std::chrono::system_clock::time_point, void const*)', sleep_for='cocls::scheduler::sleep_for<long, std::milli>(std::chrono::milliseconds, void const*)',
          dtor='cocls::scheduler::~scheduler()', interval_stop_cb='cocls::scheduler::interval<long, std::milli>(...)::{lambda()#1}::operator()() const  [the stop callback]')
def unit(name, alias, roots, names=None, types=None, boundary=(), defines=(), **kw):
    nm = {alias: RX[name] if name in RX else roots[0]}
    nm.update(names or {})
    t = dict(TYPES); t.update(types or {})
    d = dict(name=name, driver='c12_sched.cpp', roots=roots, names=nm, types=t, boundary=BOUNDARY + list(boundary), lib=LIBS, spec=SPEC,
             harness='h_' + name, enforce=alias, defines=['CV_HAS_%s_U 1' % alias] + list(defines), under_contract=[UC.get(name, name)])
    d.update(kw)
    return d

def worker_unit(name, hp, **kw):
    # the lowered coroutine worker_coro<hp>: its ramp function (creates the frame) and ONE resumption of its body (the [clone .resume] function clang
    # splits off), from its start and from its suspension point inside the loop
    kw.setdefault('harness', 'h_worker_step')
    W = r'cocls::scheduler::worker_coro<%s>\(std::stop_token\)' % hp
    names = dict(wk_resume=r'^cocls::async<void> %s \[clone \.resume\]$' % W, wk_ramp=r'^cocls::async<void> %s$' % W, wk_stop_cb=r'^%s::\{lambda\(\)#1\}::operator\(\)\(\) const$' % W,
                 wk_visit_time=r'^auto %s::\{lambda\(auto:1&\)#1\}::operator\(\)<std::chrono::time_point<' % W,
                 wk_visit_promise=r'^auto %s::\{lambda\(auto:1&\)#1\}::operator\(\)<cocls::promise<void> >' % W)
    names_opt = dict(wk_stopcb_ctor=r'^std::stop_callback<%s::\{lambda\(\)#1\}>::stop_callback<' % W, wk_stopcb_dtor=r'^std::stop_callback<%s::\{lambda\(\)#1\}>::~stop_callback\(\)$' % W,
                     wk_stop_requested=r'^std::stop_token::stop_requested\(\) const$', wk_stoptok_dtor=r'^std::stop_token::~stop_token\(\)$', wk_stoptok_move=r'^std::stop_token::stop_token\(std::stop_token&&\)$',
                     wk_now=r'^std::chrono::_V2::system_clock::now\(\)$',
                     wk_get_expired_lk=RX['get_expired_lk'], wk_visit=r'std::visit<%s::\{lambda\(auto:1&\)#1\}, std::variant<' % W,
                     wk_var_dtor=r'^std::variant<std::chrono::time_point<.*>, cocls::promise<void> >::~variant\(\)$', wk_pr_call=r'^cocls::suspend_point<bool> cocls::promise<void>::operator\(\)<>\(\)$',
                     wk_spb_dtor=r'^cocls::suspend_point<bool>::~suspend_point\(\)$', wk_can_block=r'^cocls::coro_queue::can_block\(\)$',
                     wk_wait_until=r'std::condition_variable::wait_until<std::chrono::duration<long, std::ratio<1l, 1000000000l> > >\(', wk_pause_suspend=r'^cocls::pause::await_suspend\(',
                     wk_return_void=r'^cocls::coro_unified_return<void, cocls::async_promise<void> >::return_void\(\)$', wk_final_suspend=r'^cocls::async_promise<void>::final_suspend\(\)$',
                     wk_final_await_suspend=r'cocls::async_promise<void>::final_awaiter::await_suspend<', wk_unhandled=r'^cocls::async_promise<void>::unhandled_exception\(\)$',
                     wk_ap_ctor=r'^cocls::async_promise<void>::async_promise\(\)$', wk_get_return_object=r'^cocls::async_promise<void>::get_return_object\(\)$',
                     wk_initial_suspend=r'^cocls::async_promise<void>::initial_suspend\(\)$', wk_async_dtor=r'^cocls::async<void>::~async\(\)$',
                     # thread-pool mode only
                     wk_opt_has_value=r'^std::optional<cocls::scheduler::GlobState>::has_value\(\) const$', wk_opt_arrow=r'^std::optional<cocls::scheduler::GlobState>::operator->\(\)$',
                     wk_pool_suspend=r'^cocls::thread_pool::co_awaiter::await_suspend\(', wk_pool_await_resume=r'^cocls::thread_pool::co_awaiter::await_resume\(\)$',
                     wk_pool_resume=r'^bool cocls::thread_pool::resume<bool>\(cocls::suspend_point<bool>&&\)$', wk_pool_any_enqueued=r'^cocls::thread_pool::any_enqueued\(\)$')
    bnd = [r'^std::stop_callback<', r'^std::stop_token::', r'^std::chrono::_V2::system_clock::now', RX['get_expired_lk'], r'std::visit<', r'^std::variant<.*::~variant', r'^cocls::suspend_point<',
           r'^cocls::pause::', r'^cocls::coro_queue::', r'std::condition_variable::wait_until<', r'^cocls::coro_unified_return<', r'^cocls::async_promise<void>::', r'cocls::async_promise<void>::final_awaiter::',
           r'^cocls::async<void>::', r'^std::optional<cocls::scheduler::GlobState>::', r'^cocls::thread_pool::co_awaiter::await_(suspend|resume)\(', r'cocls::thread_pool::resume<', r'^cocls::thread_pool::any_enqueued']
    return unit(name, 'wk_resume', [names['wk_resume'], names['wk_ramp'], names['wk_stop_cb'], names['wk_visit_time'], names['wk_visit_promise']], names=names, names_opt=names_opt, boundary=bnd,
                types=dict(T_SPB, STOPTOK='std::stop_token', ULOCK='std::unique_lock<std::mutex>', WKASYNC='cocls::async<void>', WKGLOBST='cocls::scheduler::GlobState', WKPOOL='cocls::thread_pool', **T_EXPIRED),
                ptypes=dict(WKFRAME=names['wk_resume'] + '#0', WKVIS=names['wk_visit_time'] + '#0', WKCB=names['wk_stop_cb'] + '#0', WKSCB=names_opt['wk_stopcb_dtor'] + '#0'),
                spec=SPEC_WK, enforce=None, under_contract=['cocls::scheduler::worker_coro<%s>(std::stop_token)  [ramp + every resumption of the lowered coroutine body]' % hp], **kw)

UNITS = [
    unit('compare_item', 'sch_compare_item', [RX['compare_item']]),
    unit('pop_item', 'sch_pop_item', [RX['pop_item'], RX['item_dtor']], names=HEAP),
    unit('get_expired_lk', 'sch_get_expired_lk', [RX['get_expired_lk'], RX['item_dtor']], names=HEAP, names_opt=VAR_NAMES, boundary=[VARX], types=T_EXPIRED, loop_contracts=True, object_bits=9),
    unit('get_expired', 'sch_get_expired', [RX['get_expired'], RX['item_dtor']], names=dict(HEAP, sch_get_expired_lk=RX['get_expired_lk']), names_opt=VAR_NAMES, boundary=[VARX], types=T_EXPIRED, loop_contracts=True, object_bits=9),
    unit('remove', 'sch_remove', [RX['remove'], RX['remove_pred'], RX['item_dtor']], names=dict(HEAP, vec_find_if=RX['find_if'], vec_find_pred=RX['remove_pred']), loop_contracts=True, object_bits=10,
         replay=dict(src='c12_remove_replay.cpp', mode='remove')),
    unit('schedule', 'sch_schedule', [RX['schedule'], RX['item_move'], RX['item_dtor']], names=dict(HEAP, sch_item_move=RX['item_move'])),
    unit('cancel_e', 'sch_cancel_e', [RX['cancel_e']], names={'sch_remove': RX['remove']}, names_opt={'pr_call_exc': RX['pr_call_exc'], 'sp_dtor': RX['sp_dtor']},
         types=dict(T_SPB), boundary=[RX['remove']]),
    unit('cancel', 'sch_cancel', [RX['cancel']], names={'sch_cancel_e': RX['cancel_e']}, types=dict(T_SPB), boundary=[RX['cancel_e']],
         globals={'AWAIT_CANCELED_TI': '_ZTIN5cocls24await_canceled_exceptionE'}, defines=['C12_EXC_PRIMS 1']),
    unit('sleep_until', 'sch_sleep_until', [RX['sleep_until']], names={'sch_schedule': RX['schedule']}, names_opt={'pr_ctor_future': RX['pr_ctor_future']},
         types=dict(T_FUT), boundary=[RX['schedule']], defines=['PR_FUTURE_T FUT']),
    unit('sleep_for', 'sch_sleep_for', [RX['sleep_for']], names={'sch_sleep_until': RX['sleep_until'], 'chr_cast_ms_ns': CAST_RX}, types=dict(T_FUT, DUR_MS='std::chrono::duration<long, std::ratio<1L, 1000L> >'),
         boundary=[RX['sleep_until'], r'^std::chrono::_V2::system_clock::now\(\)$', CAST_RX]),
    unit('dtor', 'sch_dtor', [RX['dtor'], RX['item_dtor']], names={'sch_item_dtor': RX['item_dtor']},
         names_opt=dict(opt_has_value=r'^std::optional<cocls::scheduler::GlobState>::has_value\(\) const$', opt_arrow=r'^std::optional<cocls::scheduler::GlobState>::operator->\(\)$',
                        opt_dtor=r'^std::optional<cocls::scheduler::GlobState>::~optional\(\)$', ss_request_stop=r'^std::stop_source::request_stop\(\) const$', fut_wait=r'^cocls::future<void>::wait\(\)$'),
         types=dict(T_FUT, OPTGS='std::optional<cocls::scheduler::GlobState>', GLOBST='cocls::scheduler::GlobState', STOPSRC='std::stop_source'),
         boundary=[r'^std::optional<cocls::scheduler::GlobState>::', r'^std::stop_source::request_stop', r'^cocls::future<void>::wait\(\)$']),
    unit('interval_stop_cb', 'sch_interval_cb', [RX['interval_cb'], RX['remove_pred'], RX['item_dtor']],
         names=dict(HEAP, sch_interval_cb=RX['interval_cb'], sch_remove=RX['remove'], vec_find_if=RX['find_if'], vec_find_pred=RX['remove_pred']),
         names_opt={'pr_call_exc': RX['pr_call_exc'], 'sp_dtor': RX['sp_dtor']}, types=dict(T_SPB), enforce=None, loop_contracts=True, object_bits=10,
         defines=['C12_EXC_PRIMS 1', 'CV_HAS_sch_interval_cb_U 1'], harness='h_interval_stop_cb',
         replay=dict(src='c12_interval_replay.cpp', mode='interval_stop', timeout=60)),
    # ---- worker side: wait/notify handshake of worker_coro (audit D3), one unit per instantiation of the stop-callback lambda
    unit('worker_stop_cb', 'wk_stop_cb', [RX['wk_stop_cb']], spec=SPEC_WK, enforce=None, harness='h_worker_stop_cb',
         under_contract=['cocls::scheduler::worker_coro<false>(std::stop_token)::{lambda()#1}::operator()() const  [the worker\'s stop callback; thread mode, start(awaitable)]'],
         replay=dict(src='c12_stop_lost_wakeup.cpp', mode='dtor', flags=['-pthread', '-g'], timeout=60)),
    unit('worker_stop_cb_pool', 'wk_stop_cb', [RX['wk_stop_cb_pool']], spec=SPEC_WK, enforce=None, harness='h_worker_stop_cb',
         under_contract=['cocls::scheduler::worker_coro<true>(std::stop_token)::{lambda()#1}::operator()() const  [the worker\'s stop callback; thread-pool mode]'],
         replay=dict(src='c12_stop_lost_wakeup.cpp', mode='pool', flags=['-pthread', '-g'], timeout=60)),
    # one resumption of the real lowered worker coroutine from an arbitrary state satisfying the suspension invariant (inductive step, not a bounded run):
    # waiter side of the handshake, deadline of the wait, resolution of due sleepers outside _mx (seed report: completion callback re-enters the scheduler)
    worker_unit('worker_step', 'false', replay=dict(src='c12_callback_reenters.cpp', mode='thread', flags=['-pthread', '-g'], timeout=60)),
    worker_unit('worker_step_pool', 'true', defines=['WK_POOL 1'], replay=dict(src='c12_callback_reenters.cpp', mode='pool', flags=['-pthread', '-g'], timeout=60)),
    # ---- start(awaitable) mode: start<future<int>&> as a forwarder (abstract callees record their invocations); with CV_CHECK_C03 (property C03 re-runs this
    # unit) the permission instrumentation checks that scheduler::_elide_state - shared by all threads that run start() - is only touched under _mx,
    # directly or through the stack_storage bound to it (audit A item 3).  drivers/c12_alloca_shim.h: the alloca builtin becomes an abstract callee.
    unit('start_future', 'st_start', [r'^auto cocls::scheduler::start<cocls::future<int>&>\(cocls::future<int>&\)$', r'^cocls::stack_storage::alloc\(unsigned long\)$'],
         names=dict(st_ss_alloc=r'^cocls::stack_storage::alloc\(unsigned long\)$'),
         names_opt=dict(st_worker_ramp=r'^cocls::async<void> cocls::scheduler::worker_coro<false>\(std::stop_token\)$', st_cb_await=r'^void cocls::callback_await_alloc<cocls::stack_storage, cocls::future<int>&, cocls::scheduler::start<',
                        st_run=r'^auto cocls::coro_queue::install_queue_and_call<cocls::scheduler::start<cocls::future<int>&>', st_ss_ctor=r'^std::stop_source::stop_source\(\)$', st_ss_dtor=r'^std::stop_source::~stop_source\(\)$',
                        st_get_token=r'^std::stop_source::get_token\(\) const$', st_tok_dtor=r'^std::stop_token::~stop_token\(\)$', st_async_dtor=r'^cocls::async<void>::~async\(\)$',
                        st_opt_ctor=r'^std::optional<int>::optional\(\)$', st_opt_deref=r'^std::optional<int>::operator\*\(\) &$',
                        ),
         boundary=[r'^cocls::async<void> cocls::scheduler::worker_coro<', r'cocls::callback_await_alloc<', r'cocls::coro_queue::install_queue_and_call<', r'^std::stop_source::', r'^std::stop_token::', r'^cocls::async<void>::',
                   r'^std::optional<int>::'],
         types=dict(STSTORAGE='cocls::stack_storage', STASYNC='cocls::async<void>', STFUT='cocls::future<int>', STOPSRC='std::stop_source', STOPTOK='std::stop_token', STOPT='std::optional<int>', EPTR='std::__exception_ptr::exception_ptr'),
         ptypes=dict(STFN='^void cocls::callback_await_alloc<cocls::stack_storage, cocls::future<int>&, cocls::scheduler::start<#1', STRUN='^auto cocls::coro_queue::install_queue_and_call<cocls::scheduler::start<cocls::future<int>&>#0'),
         perms={'cocls::scheduler._elide_state': 'CV_PERM_SCH_ELIDE', 'cocls::stack_storage._state': 'CV_PERM_SS_STATE'},
         clang_flags=['-include', os.path.join(os.path.dirname(os.path.dirname(os.path.dirname(os.path.abspath(__file__)))), 'drivers', 'c12_alloca_shim.h')],
         spec=SPEC_WK, enforce=None, harness='h_start_future',
         under_contract=['cocls::scheduler::start<cocls::future<int>&>(cocls::future<int>&)  [start(awaitable) mode; forwarder + lock discipline of _elide_state under CV_CHECK_C03]'],
         replay=dict(src='c03_scheduler_start_tsan.cpp', mode='tsan', kind='tsan', flags=['-fsanitize=thread', '-pthread', '-g'], timeout=120)),
] + [
    unit('drive_manual_' + sname, 'sch_drive', [RX['schedule'], RX['cancel_e'], RX['get_expired'], RX['remove_pred'], RX['item_move'], RX['item_dtor']],
         names=dict(HEAP, sch_drive=RX['schedule'], sch_schedule=RX['schedule'], sch_cancel_e=RX['cancel_e'], sch_get_expired=RX['get_expired'], sch_item_move=RX['item_move'],
                    vec_find_if=RX['find_if'], vec_find_pred=RX['remove_pred']),
         names_opt=dict(VAR_NAMES, pr_call_exc=RX['pr_call_exc'], sp_dtor=RX['sp_dtor']), types=dict(T_SPB, **T_EXPIRED), boundary=[VARX], enforce=None,
         spec=['C12/sch_spec.h', 'C12/h_drive.c'], harness='h_drive', defines=['C12_CONCRETE_VEC 1', 'CVEC_CAP 3', 'DRV_SCRIPT ' + ','.join(str('SCG'.index(c)) for c in sname)],
         unwind=6, object_bits=12, kind='bounded',
         bounded='manual mode, scripted history %s (S schedule, C cancel, G get_expired) with symbolic time points / identifiers (2) / now; <= 3 sleeps; concrete vector with textbook heap algorithms' % sname,
         timeout=900, under_contract=[], **DRIVE_REPLAY.get(sname, {}))
    for sname in DRIVE_SCRIPTS
]
# ---- members that were instantiated but in no unit (specs/C12/mv_spec.h; enforced contracts, forwarder style; own small promise vocabulary - lib/model_promise.c is NOT
#      included here because the real promise<void> members are the functions under contract)
MV = dict(
    item_move_assign=r'^cocls::scheduler::SchItem::operator=\(cocls::scheduler::SchItem&&\)$', pr_move_assign=r'^cocls::promise<void>::operator=\(cocls::promise<void>&&\)$',
    pr_set_drop=r'^cocls::promise<void>::set_value\(cocls::DropTag\)$', pr_claim=r'^cocls::promise<void>::claim\(\) const$', pr_bool=r'^cocls::promise<void>::operator bool\(\) const$',
    pr_not=r'^cocls::promise<void>::operator!\(\) const$', spb_dtor=r'^cocls::suspend_point<bool>::~suspend_point\(\)$', spv_dtor=r'^cocls::suspend_point<void>::~suspend_point\(\)$',
    spb_ctor_sp=r'^cocls::suspend_point<bool>::suspend_point\(cocls::suspend_point<void>&&, bool\)$', spb_ctor_b=r'^cocls::suspend_point<bool>::suspend_point\(bool\)$',
    fut_resolve=r'^cocls::future<void>::resolve\(\)$',
    sch_ctor=r'^cocls::scheduler::scheduler\(\)$', gs_ctor=r'^cocls::scheduler::GlobState::GlobState\(\)$', gs_dtor=r'^cocls::scheduler::GlobState::~GlobState\(\)$',
    vec_ctor=r'^std::vector<cocls::scheduler::SchItem, std::allocator<cocls::scheduler::SchItem> >::vector\(\)$', mx_ctor=r'^std::mutex::mutex\(\)$', cond_ctor=r'^std::condition_variable::condition_variable\(\)$',
    opt_ctor=r'^std::optional<cocls::scheduler::GlobState>::optional\(\)$', futv_ctor=r'^cocls::future<void>::future\(\)$', futv_dtor=r'^cocls::future<void>::~future\(\)$',
    ss_ctor=r'^std::stop_source::stop_source\(\)$', ss_dtor=r'^std::stop_source::~stop_source\(\)$',
)
T_MV = dict(ITEM='cocls::scheduler::SchItem', PROM='cocls::promise<void>', SPB='cocls::suspend_point<bool>', SP='cocls::suspend_point<void>', FUT='cocls::future<void>', SCHED='cocls::scheduler',
            GLOBST='cocls::scheduler::GlobState', STOPSRC='std::stop_source', VECT=TYPES['VECT'], OPTGS='std::optional<cocls::scheduler::GlobState>')
def unitM(name, alias, roots=(), abstract=(), uc=None, **kw):
    d = dict(name=name, driver='c12_sched.cpp', roots=[MV[alias]] + [MV[r] for r in roots], names={alias: MV[alias]}, names_opt={a: MV[a] for a in abstract}, types=T_MV, globals={},
             boundary=[MV[a] for a in abstract], lib=['rt_core.c', 'rt_atomic_seq.c'], spec=['C12/mv_spec.h'], harness='h_' + name, enforce=alias, defines=[],
             under_contract=uc or [MV[alias].strip('^$').replace('\\', '')], timeout=300)
    d.update(kw)
    return d
UNITS += [
    unitM('item_move_assign', 'item_move_assign', roots=['pr_move_assign', 'pr_claim'], abstract=['pr_set_drop', 'spb_dtor'],
          uc=['cocls::scheduler::SchItem::operator=(cocls::scheduler::SchItem&&)', 'cocls::promise<void>::operator=(cocls::promise<void>&&)', 'cocls::promise<void>::claim() const']),
    unitM('pr_move_assign', 'pr_move_assign', roots=['pr_claim'], abstract=['pr_set_drop', 'spb_dtor']),
    unitM('pr_set_drop', 'pr_set_drop', roots=['pr_claim'], abstract=['fut_resolve', 'spb_ctor_sp', 'spb_ctor_b', 'spv_dtor'], defines=['CV_ENFORCE_pr_set_drop 1']),
    unitM('pr_bool', 'pr_bool'),
    unitM('pr_not', 'pr_not'),
    unitM('sch_ctor', 'sch_ctor', abstract=['vec_ctor', 'mx_ctor', 'cond_ctor', 'opt_ctor']),
    unitM('globstate_ctor', 'gs_ctor', abstract=['futv_ctor', 'futv_dtor', 'ss_ctor']),
    unitM('globstate_dtor', 'gs_dtor', abstract=['futv_dtor', 'ss_dtor']),
]
# ---- thread mode / thread-pool mode start-up: start_in(std::thread&), start_in(thread_pool&) and their lambdas (specs/C12/st_spec.h; forwarder style)
SIT = r'cocls::scheduler::start_in\(std::thread&\)'
SIP = r'cocls::scheduler::start_in\(cocls::thread_pool&\)'
ST = dict(
    sit=r'^%s$' % SIT, sit_body=r'^%s::\{lambda\(\)#1\}::operator\(\)\(\)$' % SIT, sit_lam_move=r'^%s::\{lambda\(\)#1\}::thread\(\{lambda\(\)#1\}&&\)$' % SIT, sit_lam_dtor=r'^%s::\{lambda\(\)#1\}::~thread\(\)$' % SIT,
    sip=r'^%s$' % SIP, sip_body=r'^%s::\{lambda\(\)#1\}::operator\(\)\(\) const$' % SIP, sip_inner=r'^auto %s::\{lambda\(\)#1\}::operator\(\)\(\) const::\{lambda\(auto:1\)#1\}::operator\(\)<cocls::promise<void> >\(cocls::promise<void>\) const$' % SIP,
    o_has_value=r'^std::optional<cocls::scheduler::GlobState>::has_value\(\) const$', o_arrow=r'^std::optional<cocls::scheduler::GlobState>::operator->\(\)$', o_emplace=r'std::optional<cocls::scheduler::GlobState>::emplace<>\(\)$',
    f_get_promise=r'^cocls::future<void>::get_promise\(\)$', p_move=r'^cocls::promise<void>::promise\(cocls::promise<void>&&\)$', p_dtor=r'^cocls::promise<void>::~promise\(\)$',
    t_ctor=r'^std::thread::thread<%s::\{lambda\(\)#1\}, , void>\(' % SIT, t_dtor=r'^std::thread::~thread\(\)$', t_assign=r'^std::thread::operator=\(std::thread&&\)$',
    ss_get_token=r'^std::stop_source::get_token\(\) const$', tok_dtor=r'^std::stop_token::~stop_token\(\)$', wk_ramp_f=r'^cocls::async<void> cocls::scheduler::worker_coro<false>\(std::stop_token\)$',
    wk_ramp_t=r'^cocls::async<void> cocls::scheduler::worker_coro<true>\(std::stop_token\)$', as_start=r'^cocls::async<void>::start\(cocls::promise<void>&\)$', as_dtor=r'^cocls::async<void>::~async\(\)$',
    spb_dtor=r'^cocls::suspend_point<bool>::~suspend_point\(\)$', f_shift=r'^cocls::future<void>& cocls::future<void>::operator<< <%s::\{lambda\(\)#1\}>\(' % SIP,
    f_ctor_inner=r'^cocls::future<void>::future<%s::\{lambda\(\)#1\}::operator\(\)\(\) const::\{lambda\(auto:1\)#1\}>\(' % SIP, tp_resume_b=r'^bool cocls::thread_pool::resume<bool>\(cocls::suspend_point<bool>&&\)$',
)
T_ST = dict(T_MV, THR='std::thread', STOPTOK='std::stop_token', ASY='cocls::async<void>', TPOOL='cocls::thread_pool')
def unitS(name, alias, roots=(), abstract=(), ptypes=None, uc=None, **kw):
    d = dict(name=name, driver='c12_sched.cpp', roots=[ST[alias]] + [ST[r] for r in roots], names={alias: ST[alias]}, names_opt={a: ST[a] for a in abstract}, types=T_ST, ptypes=ptypes or {}, globals={},
             boundary=[ST[a] for a in abstract], lib=['rt_core.c', 'rt_atomic_seq.c'], spec=['C12/st_spec.h'], harness='h_' + name, enforce=alias, defines=[],
             under_contract=uc or [ST[alias].strip('^$').replace('\\', '')], timeout=300)
    d.update(kw)
    return d
OPT = ['o_has_value', 'o_arrow', 'o_emplace']
ST.update(f_result_of=r'^void cocls::future<void>::result_of<%s::\{lambda\(\)#1\}>\(' % SIP, fv_dtor=r'^cocls::future<void>::~future\(\)$', fv_ctor=r'^cocls::future<void>::future\(\)$',
          p_ctor_fut=r'^cocls::promise<void>::promise\(cocls::future<void>&\)$', p_call_exc_rv=r'^cocls::suspend_point<bool> cocls::promise<void>::operator\(\)<std::__exception_ptr::exception_ptr>\(std::__exception_ptr::exception_ptr&&\)$')
UNITS += [
    unitS('start_in_thread', 'sit', roots=['sit_lam_dtor'], abstract=OPT + ['f_get_promise', 'p_move', 'p_dtor', 't_ctor', 't_dtor', 't_assign'], ptypes={'LAMT': ST['sit_lam_dtor'] + '#0'},
          uc=['cocls::scheduler::start_in(std::thread&)', 'cocls::scheduler::start_in(std::thread&)::{lambda()#1}::~<closure>()']),
    unitS('start_in_thread_body', 'sit_body', abstract=['o_arrow', 'ss_get_token', 'tok_dtor', 'wk_ramp_f', 'as_start', 'as_dtor', 'spb_dtor'], ptypes={'LAMT': ST['sit_body'] + '#0'}),
    unitS('start_in_pool', 'sip', abstract=OPT + ['f_shift'], ptypes={'LAMP': ST['f_shift'] + '#1'}),
    unitS('start_in_pool_body', 'sip_body', abstract=['f_ctor_inner'], ptypes={'LAMP': ST['sip_body'] + '#1', 'LAMPI': ST['f_ctor_inner'] + '#1'}),
    # future.h templates instantiated with the scheduler's lambdas: "future << fn" / "future(fn)" evaluate the callable exactly once, in place (assumed by units start_in_pool / start_in_pool_body)
    unitS('fut_shift_pool', 'f_shift', roots=['f_result_of'], abstract=['sip_body', 'fv_dtor', 'fv_ctor', 'f_get_promise', 'p_dtor', 'p_call_exc_rv', 'spb_dtor'], ptypes={'LAMP': ST['f_shift'] + '#1'}, defines=['ST_ENFORCE_F_SHIFT 1'],
          uc=['cocls::future<void>::operator<< <start_in(thread_pool&)::{lambda()#1}>', 'cocls::future<void>::result_of<start_in(thread_pool&)::{lambda()#1}>']),
    unitS('fut_ctor_inner', 'f_ctor_inner', abstract=['sip_inner', 'p_ctor_fut', 'p_dtor'], ptypes={'LAMPI': ST['f_ctor_inner'] + '#1'}, defines=['ST_ENFORCE_F_CTOR 1'],
          uc=['cocls::future<void>::future<start_in(thread_pool&)::{lambda()#1}::operator()() const::{lambda(auto)#1}>(Fn&&)']),
    unitS('start_in_thread_closure_move', 'sit_lam_move', roots=['p_move'], ptypes={'LAMT': ST['sit_lam_move'] + '#0'}, uc=['cocls::scheduler::start_in(std::thread&)::{lambda()#1} move constructor (what std::thread uses to take the closure over)', 'cocls::promise<void>::promise(cocls::promise<void>&&)', 'cocls::promise<void>::claim() const']),
    unitS('start_in_pool_inner', 'sip_inner', abstract=['o_arrow', 'ss_get_token', 'tok_dtor', 'wk_ramp_t', 'as_start', 'as_dtor', 'spb_dtor', 'tp_resume_b'], ptypes={'LAMPI': ST['sip_inner'] + '#0'}),
]
# ---- remaining forwarders of start(...) and interval() (specs/C12/sx_spec.h)
STF = r'cocls::scheduler::start<cocls::future<int>&>\(cocls::future<int>&\)'
IVL = r'cocls::scheduler::interval<long, std::ratio<1l, 1000l> >\(.*\)'
SX = dict(
    sx_start_thr=r'^auto cocls::scheduler::start<std::thread&>\(std::thread&\)$', sx_start_pool=r'^auto cocls::scheduler::start<cocls::thread_pool&>\(cocls::thread_pool&\)$',
    sx_sit=ST['sit'], sx_sip=ST['sip'],
    sx_done_cb=r'^auto %s::\{lambda\(auto:1\)#1\}::operator\(\)<cocls::await_result<int> >\(cocls::await_result<int>\) const$' % STF,
    sx_ar_deref=r'^cocls::await_result<int>::operator\*\(\) const$', sx_opt_emplace=r'std::optional<int>::emplace<int>\(int&&\)$', sx_request_stop=r'^std::stop_source::request_stop\(\) const$',
    sx_run_lam=r'^%s::\{lambda\(\)#1\}::operator\(\)\(\) const$' % STF, sx_detach=r'^cocls::async<void>::detach\(\)$', sx_spv_dtor=r'^cocls::suspend_point<void>::~suspend_point\(\)$',
    sx_ivl_sleep=r'^%s::\{lambda\(\)#2\}::operator\(\)\(\) const$' % IVL, sx_sleep_until=RX['sleep_until'],
)
T_SX = dict(T_ST, AWR='cocls::await_result<int>', OPTI='std::optional<int>', EPTR='std::__exception_ptr::exception_ptr')
def unitX(name, alias, abstract=(), ptypes=None, **kw):
    d = dict(name=name, driver='c12_sched.cpp', roots=[SX[alias]], names={alias: SX[alias]}, names_opt={a: SX[a] for a in abstract}, types=T_SX, ptypes=ptypes or {}, globals={},
             boundary=[SX[a] for a in abstract], lib=['rt_core.c', 'rt_atomic_seq.c'], spec=['C12/sx_spec.h'], harness='h_' + name, enforce=alias, defines=[],
             under_contract=[SX[alias].strip('^$').replace('\\', '').replace('.*', '...')], timeout=300)
    d.update(kw)
    return d
UNITS += [
    unitX('start_thread_fwd', 'sx_start_thr', abstract=['sx_sit']),
    unitX('start_pool_fwd', 'sx_start_pool', abstract=['sx_sip']),
    unitX('start_done_cb', 'sx_done_cb', abstract=['sx_ar_deref', 'sx_opt_emplace', 'sx_request_stop'], ptypes={'LAMCB': SX['sx_done_cb'] + '#0'}),
    unitX('start_run_lambda', 'sx_run_lam', abstract=['sx_detach', 'sx_spv_dtor'], ptypes={'LAMRUN': SX['sx_run_lam'] + '#0'}),
    unitX('interval_sleep_lambda', 'sx_ivl_sleep', abstract=['sx_sleep_until'], ptypes={'LAMSL': SX['sx_ivl_sleep'] + '#1'}),
]
# ---- interval(): the lowered generator coroutine, real ramp + ONE resumption of its body from each of its suspension points (specs/C12/iv_spec.h; plain harness,
#      recording stubs for stop_token / stop_callback / future<void> / co_awaiter<future<void>> / generator::promise_type / the clock)
GENP = r'cocls::generator<unsigned long, void>::promise_type'
CAV = r'cocls::co_awaiter<cocls::future<void> >'
IV = dict(
    ivl_resume=r'^cocls::generator<unsigned long, void> %s \[clone \.resume\]$' % IVL, ivl_ramp=r'^cocls::generator<unsigned long, void> %s$' % IVL,
)
IV_OPT = dict(
    iv_cb_ctor=r'^std::stop_callback<%s::\{lambda\(\)#1\}>::stop_callback<' % IVL, iv_cb_dtor=r'^std::stop_callback<%s::\{lambda\(\)#1\}>::~stop_callback\(\)$' % IVL,
    iv_tok_move=r'^std::stop_token::stop_token\(std::stop_token&&\)$', iv_tok_dtor=r'^std::stop_token::~stop_token\(\)$', iv_stop_requested=r'^std::stop_token::stop_requested\(\) const$',
    iv_now=r'^std::chrono::_V2::system_clock::now\(\)$', iv_fut_ctor=r'^cocls::future<void>::future\(\)$', iv_fut_dtor=r'^cocls::future<void>::~future\(\)$',
    iv_fut_shift=r'^cocls::future<void>& cocls::future<void>::operator<< <%s::\{lambda\(\)#2\}>\(' % IVL, iv_fut_co_await=r'^cocls::future<void>::operator co_await\(\)$',
    iv_aw_ready=r'^%s::await_ready\(\)$' % CAV, iv_aw_suspend=r'^%s::await_suspend\(std::__n4861::coroutine_handle<void>\)$' % CAV, iv_aw_resume=r'^%s::await_resume\(\)$' % CAV,
    iv_p_ctor=r'^%s::promise_type\(\)$' % GENP, iv_p_dtor=r'^%s::~promise_type\(\)$' % GENP, iv_p_gro=r'^%s::get_return_object\(\)$' % GENP, iv_p_final=r'^%s::final_suspend\(\)$' % GENP,
    iv_p_yield=r'^%s::yield_value\(unsigned long&\)$' % GENP, iv_p_return_void=r'^%s::return_void\(\)$' % GENP, iv_p_unhandled=r'^%s::unhandled_exception\(\)$' % GENP,
    iv_p_initial=r'^%s::initial_suspend\(\)$' % GENP, iv_ys_suspend=r'%s::yield_suspend::await_suspend<' % GENP, iv_ys_resume=r'^%s::yield_suspend::await_resume\(\)$' % GENP, iv_gen_dtor=r'^cocls::generator<unsigned long, void>::~generator\(\)$',
)
UNITS += [
    dict(name='interval_step', driver='c12_sched.cpp', roots=[IV['ivl_resume'], IV['ivl_ramp']], names=dict(IV), names_opt=dict(IV_OPT),
         types=dict(T_ST, GEN='cocls::generator<unsigned long, void>', GENPT='cocls::generator<unsigned long, void>::promise_type', CAV='cocls::co_awaiter<cocls::future<void> >', YS='cocls::generator<unsigned long, void>::promise_type::yield_suspend'),
         ptypes={'IVFRAME': IV['ivl_resume'] + '#0', 'IVCB': IV_OPT['iv_cb_dtor'] + '#0', 'IVLAM1': IV_OPT['iv_cb_ctor'] + '#2', 'IVLAM2': IV_OPT['iv_fut_shift'] + '#1'},
         globals={'AWAIT_CANCELED_TI': '_ZTIN5cocls24await_canceled_exceptionE'},
         boundary=[r'^std::stop_callback<', r'^std::stop_token::', r'^std::chrono::_V2::system_clock::now', r'^cocls::future<void>::', r'cocls::future<void>::operator<< <', r'^cocls::co_awaiter<cocls::future<void> >::',
                   r'^cocls::generator<unsigned long, void>::', r'cocls::generator<unsigned long, void>::promise_type::yield_suspend::await_suspend<'],
         lib=['rt_core.c', 'rt_atomic_seq.c'], spec=['C12/iv_spec.h'], harness='h_interval_step', enforce=None, defines=[], unwind=4,
         under_contract=['cocls::scheduler::interval<long, std::milli>(std::chrono::milliseconds, std::stop_token)  [ramp + one resumption of the lowered generator body from each suspension point]'], timeout=600),
]
# ---- bounded drives once more with heap algorithms that MOVE the entries as libstdc++ does (real SchItem move constructor / move assignment / destructor;
#      lib/model_vec_heap_moves.c) - the abstract and the plain concrete model move entries by structure copies
MOVE_SCRIPTS = ['SSSCG', 'SSCSG']
UNITS += [
    unit('drive_moves_' + sname, 'sch_drive', [RX['schedule'], RX['cancel_e'], RX['get_expired'], RX['remove_pred'], RX['item_move'], RX['item_dtor'], MV['item_move_assign']],
         names=dict(HEAP, sch_drive=RX['schedule'], sch_schedule=RX['schedule'], sch_cancel_e=RX['cancel_e'], sch_get_expired=RX['get_expired'], sch_item_move=RX['item_move'],
                    sch_item_move_assign=MV['item_move_assign'], vec_find_if=RX['find_if'], vec_find_pred=RX['remove_pred']),
         names_opt=dict(VAR_NAMES, pr_call_exc=RX['pr_call_exc'], sp_dtor=RX['sp_dtor']), types=dict(T_SPB, **T_EXPIRED), boundary=[VARX], enforce=None,
         spec=['C12/sch_spec.h', 'C12/h_drive.c'], harness='h_drive', defines=['C12_CONCRETE_VEC 1', 'C12_VEC_MOVES 1', 'CVEC_CAP 3', 'DRV_SCRIPT ' + ','.join(str('SCG'.index(c)) for c in sname)],
         unwind=6, object_bits=12, kind='bounded',
         bounded='manual mode, scripted history %s (S schedule, C cancel, G get_expired) with symbolic time points / identifiers (2) / now; <= 3 sleeps; concrete vector whose heap algorithms are those of libstdc++ 12 (stl_heap.h) moving entries through the real SchItem move constructor / move assignment' % sname,
         timeout=900, under_contract=['cocls::scheduler::SchItem::operator=(cocls::scheduler::SchItem&&)  [as exercised by the heap algorithms in a scripted history]'])
    for sname in MOVE_SCRIPTS
]
META = dict(
    level='proof',
    level_text='Every function of scheduler.h that touches the scheduled heap is verified against a contract taken from the property statement, for every size and content of the heap (no bound on the number of entries, time points, identifiers or tombstones), with the two loops (get_expired_lk, remove) under loop contracts: get_expired_lk/get_expired(now): a returned promise is live, comes from an entry with time point <= now, and no pending sleep that remains is earlier; a returned time is the earliest time point, belongs to a pending sleep, and nothing pending is due (max() when empty); every pending sleep is either still pending and unaltered or is the one returned; nothing is resolved or dropped. remove(id): a live result was taken from an entry carrying id and exactly that entry is consumed; an empty result means no pending sleep carries id and nothing changed; every vector access is in range; one critical section, lock released. schedule: one entry more, the new entry unaltered, the first entry still the earliest, the worker notified whenever the heap was empty or the new entry is strictly earlier than the first one, every old entry kept. cancel(id,e) = one remove(id) + resolution of exactly the returned promise with exactly e, true/false accordingly, the awaiting coroutine handed to the caller; cancel(id) forwards with an exception whose dynamic type is await_canceled_exception; sleep_until/sleep_for schedule the promise of the returned future exactly once for (tp | one clock reading + duration, id); ~scheduler stops and joins a started worker first and then destroys the vector once, which drops (= cancels, C01) every pending promise; compare_item/pop_item as leaves. The stop-callback lambda of interval() is checked with everything it calls translated (lock discipline of std::mutex, no exception, other sleeps untouched). WORKER SIDE (thread, thread-pool and start(awaitable) mode - the modes the quantifier names): the real lowered coroutine worker_coro<false> / worker_coro<true> is executed for ONE resumption - its first one, after the real ramp function created the frame, and one from its suspension point in an arbitrary state satisfying the suspension invariant (inductive step: every loop iteration, no bound) - with std::visit modelled as the dispatch to the real visitor lambdas: the stop flag is tested, found clear, and wait_until entered within one critical section of _mx (waiter half of the wait/notify handshake); the deadline of the wait is exactly the earliest time point get_expired_lk() reported in that critical section from a clock reading taken after the last wake-up; a due promise is resolved exactly once, not dropped, and OUTSIDE _mx (user completion callbacks never run under the scheduler mutex); the worker never suspends, completes or reaches ~stop_callback with _mx held; it leaves its loop only on a stop request and then completes. The worker\'s stop-callback lambda (both instantiations) must pass through _mx between the setting of the stop flag and notify_all() (notifier half). start<future<int>&> is a forwarder: one worker for this scheduler listening to the stop source that the completion callback of the awaitable stops, callback attached before the worker runs, value returned / exception rethrown, nothing run with _mx held; under CV_CHECK_C03 (property C03) every access to scheduler::_elide_state - direct or through the stack_storage bound to it (real stack_storage code, permission instrumentation) - needs _mx. ~scheduler requests the stop before it joins, on the stop source / future of the same GlobState, neither with _mx held. START-UP AND GLUE (enforced forwarder contracts, specs/C12/st_spec.h, sx_spec.h, mv_spec.h): scheduler() constructs an empty heap and NO worker state (inactive: ~scheduler has nothing to wait for); GlobState() = one fresh future + one stop source, no pool, ~GlobState destroys each once; start_in(std::thread&) / start_in(thread_pool&): an already started scheduler is left alone, otherwise the worker state is created once, exactly one thread is created for THIS scheduler and handed to the caller, its closure owns THE promise of _glob_state->_fut (never dropped or resolved on the way - ~scheduler\'s wait() ends exactly when the worker ended), resp. _glob_state->_pool is the pool and _fut is bound once to the start-up closure of this scheduler in this pool; the thread body and the pool start-up lambda create exactly one worker_coro for the captured scheduler with a token of _glob_state->_stp (the source ~scheduler stops), start it once with that promise and - pool mode - hand it to THE pool\'s resume() exactly once instead of running it on the calling thread; start<std::thread&> / start<thread_pool&> forward once; the completion callback of start(awaitable) calls request_stop() on start()\'s stop source exactly once ON EVERY PATH (value / the awaitable carried an exception), keeps the value resp. the exception for start() and lets nothing escape; the body run under install_queue_and_call detaches and runs THE worker once. INTERVAL(): the real lowered generator coroutine is executed for one resumption from each of its three suspension points after the real ramp created the frame (inductive step, unit interval_step): the stop callback is registered exactly once on the generator\'s own token with {this scheduler, &tag}; every sleep is bound to {this scheduler, &next, THE SAME &tag} (lambda#2 forwards exactly that to sleep_until, unit interval_sleep_lambda; lambda#1 cancels &tag, unit interval_stop_cb) and is started only after a test of the token that found no stop request, at most one pending; a cancelled sleep (await_canceled_exception) or a stop request seen at the loop head ends the generator normally (return_void, final suspend, no further sleep, nothing escapes into the resumer), any other exception is reported through unhandled_exception; the stop callback is deregistered and the waiter destroyed exactly once on every exit and stay in place while suspended. MOVES OF ENTRIES: SchItem::operator=(SchItem&&) - used only by the real std::push_heap / pop_heap, which the container models replace - carries time point and identifier over intact, leaves exactly one owner of the promise (destination owns the source\'s sleep, source owns nothing) and completes (cancels) a live promise it overwrites exactly once (unit item_move_assign on the real compiler-generated operator= with the real promise<void>::operator=(promise&&) and claim()); promise<void>::operator=(promise&&), set_value(DropTag), operator bool, operator! have their own forwarder contracts. HISTORY (all repaired in /repo, the units pass on the current tree: commits 84ee5d4, 77acf12, 9739352 and - manual mode - 410ee1d, 42d798f, 7fc3571): on the originally pinned tree three of these obligations FAILED (genuine defects, native replays registered): worker_stop_cb / worker_stop_cb_pool (stop callback notifies without _mx: lost stop request, ~scheduler and start(awaitable) hang; replay/c12_stop_lost_wakeup.cpp, specs/C12/fix_stop_notify.diff), worker_step / worker_step_pool (due promises resolved under _mx: a completion callback that calls cancel/schedule self-deadlocks the scheduling thread; replay/c12_callback_reenters.cpp, specs/C12/fix_resolve_unlocked.diff) and - under C03 - start_future (data race on _elide_state; replay/c03_scheduler_start_tsan.cpp, specs/C12/fix_elide_state.diff).',
    level_note='"For every entry" is proved for one arbitrary-but-fixed tracked entry that the vector model follows through every permutation (quantifier-free). Trusted: the element-view model of std::vector<SchItem> and of std::push_heap/pop_heap/find_if (lib/model_vec_heap.c) - the heap algorithms are specified by their effect (permutation + "comp(moved/first, x) is false for every x", evaluated with the real translated compare_item) and are assumed to keep the std heap invariant that their own precondition demands; the abstract promise<void> (one owner word; resolution/drop recorded, future.h internals not translated); std::variant converting constructors; std::mutex via pthread primitives (sequential reading: every public operation is one critical section, cancel = one critical section + a resolution outside the lock); condition_variable::notify_all only counted. Each public operation is verified for one thread; interleavings reduce to sequences of critical sections (lock-based linearisability, argued not machine-checked). Worker side: each resumption of worker_coro is verified for one thread against abstract callees (stop_token / stop_callback, system_clock::now as a ghost clock, get_expired_lk by its contract, condition_variable::wait_until as release + re-acquire of _mx with arbitrary interference, coro_queue / pause / thread_pool::co_awaiter / async_promise as recorders, std::visit as index dispatch); that the two machine-checked halves of the wait/notify handshake exclude a lost wake-up - and hence that the worker terminates after request_stop() and future::wait() in ~scheduler / the run in start() returns - is the standard monitor argument, argued not machine-checked; thread-pool mode assumes the pool is not stopped while the scheduler runs in it. Start-up units: std::optional<GlobState>, std::thread (constructor takes the closure over; destroying a joinable thread is an obligation), stop_source / stop_token, future<void> (get_promise, operator<<, constructor from a callable), the worker_coro ramp, async<void>::start / detach and thread_pool::resume<bool> are recording stubs; that future<void>::operator<< (-> result_of) destroys the old future once and constructs the result of the callable IN PLACE evaluating it exactly once, that future(fn) calls fn exactly once with THE promise of the new future, and that the move constructor of the thread closure carries scheduler and promise over with exactly one owner, is proved on the real future.h / closure code for the pool / thread start-up instantiations (units fut_shift_pool, fut_ctor_inner, start_in_thread_closure_move); the same operator<< template instantiated with lambda#2 of interval() is taken to behave alike. interval_step: stop_token / stop_callback / the clock / future<void> and its co_awaiter (answers of await_ready / await_suspend and the outcome of await_resume are inputs) / generator<size_t>::promise_type (property C13) are recording stubs, symmetric transfer goes to a no-op frame; that a stop requested between the token test and the scheduling of the next sleep delays the end by at most one interval (the callback finds nothing to cancel) follows from these steps, not machine-checked as a history. The bounded drives drive_moves_* repeat two scripted histories with heap algorithms transcribed from libstdc++ 12 stl_heap.h (lib/model_vec_heap_moves.c) that move entries through the REAL SchItem move constructor / move assignment / destructor - the abstract model and the plain concrete model move entries by structure copies, justified by unit item_move_assign. NOT covered: start<Awt> for awaitables other than future<int>&, the lifetime of the alloca frame of the completion callback when the awaitable is resolved by another thread, the VALUE interval() yields (an uninitialised counter: outside the property), self move-assignment of SchItem / promise (the heap algorithms never do it), promise<void>::set_value<>() / operator()<...> variants and future<void> internals (property C01), wall-clock accuracy, std::stop_token internals, history-level composition (a sleep completes exactly once over a whole run: the per-operation contracts are the inductive steps, the induction over histories is not machine-checked). A reversed comparator is caught by compare_item and schedule only (the consumer units then prune instead of failing).',
    technique='CBMC 6.11 code contracts (requires/ensures/assigns) and loop contracts enforced via goto-instrument --dfcc on the C translation of clang IR of scheduler.h (and of promise<void> members of future.h); std containers/algorithms, promise<void>, variant, mutex, condition_variable as operational models with precondition obligations; forwarder units with recording stubs for cancel/sleep_until/sleep_for/destructor/start(awaitable); single-resumption (inductive-step) execution of the lowered worker coroutine; permission instrumentation for _elide_state',
    trusted_base=['assumed contract: std::vector<scheduler::SchItem> + std::push_heap/pop_heap/find_if, element view with a tracked element (lib/model_vec_heap.c)',
                  'bounded drives drive_moves_*: concrete vector with the heap algorithms of libstdc++ 12 transcribed (lib/model_vec_heap_moves.c); promise<void>::operator=(promise&&) there as proved in unit pr_move_assign (3-line stub in specs/C12/sch_spec.h)',
                  'units of specs/C12/mv_spec.h: promise<void>::set_value(DropTag) as "claims; a live owner is completed without a value once" (proved in unit pr_set_drop against future<void>::resolve() as recording stub), suspend_point<bool> constructors / destructors, std::vector / std::mutex / std::condition_variable / std::optional / future<void> / std::stop_source constructors and destructors as counters',
                  'units of specs/C12/st_spec.h, sx_spec.h, iv_spec.h: recording stubs listed in level_note (std::optional<GlobState>, std::thread, stop_source / stop_token / stop_callback, future<void> members, co_awaiter<future<void>>, worker_coro ramp, async<void>::start / detach, thread_pool::resume<bool>, await_result<int>::operator*, std::optional<int>::emplace, generator<size_t>::promise_type members, system_clock::now)',
                  'assumed contract: cocls::promise<void> = one owner word; move/bool/destructor/operator()(exception_ptr) record completions in ghost state (lib/model_promise.c)',
                  'assumed contract: std::variant<time_point, promise<void>> converting constructors (lib/model_variant_expired.c)',
                  'primitive: std::mutex = pthread_mutex_lock/unlock with "not locked again by its holder" obligation (lib/model_mutex.c); condition_variable::notify_all counted (specs/C12/sch_spec.h)',
                  'libstdc++ make_exception_ptr primitives (__cxa_init_primary_exception, exception_ptr(void*)) as two-line stubs (specs/C12/sch_spec.h)',
                  'abstract callees in forwarder units: optional<GlobState>, stop_source::request_stop, future<void>::wait, system_clock::now, duration_cast<ns>(ms), suspend_point<void> destructor',
                  'worker units (specs/C12/wk_spec.h): std::stop_token::stop_requested (monotone flag another thread may set at any time), std::stop_callback constructor (runs the real callback when the stop is already requested) / destructor, ghost clock, get_expired_lk by contract, condition_variable::wait_until = release + re-acquire of _mx, std::visit = dispatch on the variant index to the real visitor instances, pause / thread_pool::co_awaiter / thread_pool::resume / any_enqueued / coro_queue::can_block / async_promise<void> members as recorders',
                  'unit start_future: the alloca builtin replaced by an external function in this one TU (drivers/c12_alloca_shim.h), worker_coro ramp / callback_await_alloc (creates the callback frame through the real stack_storage::alloc) / install_queue_and_call (models the completion) / stop_source / optional<int> as recorders; ir2c permission instrumentation on scheduler::_elide_state and stack_storage::_state (first access of a storage object = its constructor binding the reference)'],
    assumptions=['fewer than 2^62 scheduled entries (size counter never wraps)',
                 'start-up units: each is verified for one thread; start_in is not called concurrently with itself on one scheduler (documented: "it can run only once"); a callable handed to std::thread / future<void>::operator<< / future(fn) is invoked exactly once by them',
                 'interval_step: the co_awaiter of the waiter resumes the generator exactly once per sleep (C01/C02); other threads only ever SET the stop flag',
                 'the scheduled vector is manipulated only through the modelled operations (operator[], empty, begin/end as algorithm arguments, push_back+push_heap, pop_heap+pop_back, find_if); time points of stored entries are never written (true of scheduler.h by inspection of the translated units: every access goes through the model)',
                 'each public operation runs as one critical section of _mx; results for concurrent use follow by lock-based linearisability (not machine-checked)',
                 'promise<void> is a linear resource: a live owner word is held by exactly one promise object (property C01)',
                 'termination of the worker after request_stop() follows from the two machine-checked halves of the wait/notify handshake by the standard monitor argument (not machine-checked); condition_variable / stop_token behave as the C++ standard says',
                 'thread-pool mode: the pool is not stopped while the scheduler runs in it (thread_pool::co_awaiter::await_resume does not throw)'],
    explanation='see level_text / level_note')
