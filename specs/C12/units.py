# C12 - Scheduler: never early, in deadline order, cancel hits exactly its target   (src/cocls/scheduler.h)
TPT = 'std::chrono::time_point<std::chrono::_V2::system_clock, std::chrono::duration<long, std::ratio<1L, 1000000000L> > >'
TYPES = {'SCHED': 'cocls::scheduler', 'ITEM': 'cocls::scheduler::SchItem', 'PROM': 'cocls::promise<void>',
         'VECT': 'std::vector<cocls::scheduler::SchItem, std::allocator<cocls::scheduler::SchItem> >'}
T_EXPIRED = {'EXPIRED': 'std::variant<%s, cocls::promise<void> >' % TPT}
VARX = r'^std::variant<std::chrono::time_point<.*>, cocls::promise<void> >::variant<'
VAR_NAMES = dict(var_from_promise=VARX + r'cocls::promise<void>, void, void, cocls::promise<void>, void>\(cocls::promise<void>&&\)$',
                 var_from_tp_rv=VARX + r'std::chrono::time_point<[^&]*, void, void, std::chrono::time_point<.*, void>\(std::chrono::time_point<.*>&&\)$',
                 var_from_tp_lv=VARX + r'std::chrono::time_point<.*>&, void, void, std::chrono::time_point<.*, void>\(std::chrono::time_point<.*>&\)$')
CAST_RX = r'std::chrono::duration_cast<std::chrono::duration<long, std::ratio<1l, 1000000000l> >, long, std::ratio<1l, 1000l> >\('
T_SPB = {'SPB': 'cocls::suspend_point<bool>', 'SP': 'cocls::suspend_point<void>', 'EPTR': 'std::__exception_ptr::exception_ptr'}
T_FUT = {'FUT': 'cocls::future<void>'}
RX = dict(
    compare_item=r'^cocls::scheduler::compare_item\(',
    pop_item=r'^cocls::scheduler::pop_item\(\)$',
    get_expired_lk=r'^cocls::scheduler::get_expired_lk\(',
    get_expired=r'^cocls::scheduler::get_expired\(',
    remove=r'^cocls::scheduler::remove\(void const\*\)$',
    remove_pred=r'^cocls::scheduler::remove\(void const\*\)::\{lambda\(cocls::scheduler::SchItem const&\)#1\}::operator\(\)\(cocls::scheduler::SchItem const&\) const$',
    find_if=r'std::find_if<__gnu_cxx::__normal_iterator<cocls::scheduler::SchItem\*',
    cancel=r'^cocls::scheduler::cancel\(void const\*\)$',
    cancel_e=r'^cocls::scheduler::cancel\(void const\*, std::__exception_ptr::exception_ptr\)$',
    schedule=r'^cocls::scheduler::schedule\(',
    sleep_until=r'^cocls::scheduler::sleep_until\(.*void const\*\)$',
    sleep_for=r'^cocls::future<void> cocls::scheduler::sleep_for<long, std::ratio<1l, 1000l> >\(',
    dtor=r'^cocls::scheduler::~scheduler\(\)$',
    interval_cb=r'^cocls::scheduler::interval<long, std::ratio<1l, 1000l> >\(.*\)::\{lambda\(\)#1\}::operator\(\)\(\) const$',
    item_move=r'^cocls::scheduler::SchItem::SchItem\(cocls::scheduler::SchItem&&\)$',
    item_dtor=r'^cocls::scheduler::SchItem::~SchItem\(\)$',
    pr_call_exc=r'^cocls::suspend_point<bool> cocls::promise<void>::operator\(\)<std::__exception_ptr::exception_ptr&>\(std::__exception_ptr::exception_ptr&\)$',
    pr_ctor_future=r'^cocls::promise<void>::promise\(cocls::future<void>&\)$',
    sp_dtor=r'^cocls::suspend_point<void>::~suspend_point\(\)$',
)
BOUNDARY = [r'^std::vector<cocls::scheduler::SchItem', r'^void std::push_heap<', r'^void std::pop_heap<', RX['find_if'], r'^cocls::promise<void>::',
            r'cocls::promise<void>::operator\(\)<', r'^std::condition_variable::', RX['sp_dtor']]
LIBS = ['rt_core.c', 'rt_atomic_seq.c', 'model_mutex.c']     # lib/model_vec_heap.c and lib/model_promise.c are included by the spec (they need its macros)
SPEC = ['C12/sch_spec.h', 'C12/h_sch.c']
HEAP = dict(sch_compare_item=RX['compare_item'], sch_item_dtor=RX['item_dtor'])
DRIVE_SCRIPTS = ['SSCGC', 'SSSCC', 'SSGGG', 'SCCGS', 'SGSCG', 'SSCCG']   # incl. cancel of a non-top entry + expiry + repeated cancel, duplicate ids, equal deadlines
DRIVE_REPLAY = {'SSCGC': dict(replay=dict(src='c12_remove_empty.cpp', mode='remove_empty')), 'SSSCC': dict(replay=dict(src='c12_cancel_dup.cpp', mode='cancel_dup'))}
UC = dict(compare_item='cocls::scheduler::compare_item(cocls::scheduler::SchItem const&, cocls::scheduler::SchItem const&)', pop_item='cocls::scheduler::pop_item()',
          get_expired_lk='cocls::scheduler::get_expired_lk(std::chrono::system_clock::time_point)', get_expired='cocls::scheduler::get_expired(std::chrono::system_clock::time_point)',
          remove='cocls::scheduler::remove(void const*)', schedule='cocls::scheduler::schedule(void const*, cocls::promise<void>, std::chrono::system_clock::time_point)',
          cancel_e='cocls::scheduler::cancel(void const*, std::exception_ptr)', cancel='cocls::scheduler::cancel(void const*)',
          sleep_until='cocls::scheduler::sleep_until(std::chrono::system_clock::time_point, void const*)', sleep_for='cocls::scheduler::sleep_for<long, std::milli>(std::chrono::milliseconds, void const*)',
          dtor='cocls::scheduler::~scheduler()', interval_stop_cb='cocls::scheduler::interval<long, std::milli>(...)::{lambda()#1}::operator()() const  [the stop callback]')
def unit(name, alias, roots, names=None, types=None, boundary=(), defines=(), **kw):
    nm = {alias: RX[name] if name in RX else roots[0]}
    nm.update(names or {})
    t = dict(TYPES); t.update(types or {})
    d = dict(name=name, driver='c12_sched.cpp', roots=roots, names=nm, types=t, boundary=BOUNDARY + list(boundary), lib=LIBS, spec=SPEC,
             harness='h_' + name, enforce=alias, defines=['CV_HAS_%s_U 1' % alias] + list(defines), under_contract=[UC.get(name, name)])
    d.update(kw)
    return d

UNITS = [
    unit('compare_item', 'sch_compare_item', [RX['compare_item']]),
    unit('pop_item', 'sch_pop_item', [RX['pop_item'], RX['item_dtor']], names=HEAP),
    unit('get_expired_lk', 'sch_get_expired_lk', [RX['get_expired_lk'], RX['item_dtor']], names=HEAP, names_opt=VAR_NAMES, boundary=[VARX], types=T_EXPIRED, loop_contracts=True, object_bits=9),
    unit('get_expired', 'sch_get_expired', [RX['get_expired'], RX['item_dtor']], names=dict(HEAP, sch_get_expired_lk=RX['get_expired_lk']), names_opt=VAR_NAMES, boundary=[VARX], types=T_EXPIRED, loop_contracts=True, object_bits=9),
    unit('remove', 'sch_remove', [RX['remove'], RX['remove_pred'], RX['item_dtor']], names=dict(HEAP, vec_find_if=RX['find_if'], vec_find_pred=RX['remove_pred']), loop_contracts=True, object_bits=10,
         replay=dict(src='c12_remove_replay.cpp', mode='remove')),
    unit('schedule', 'sch_schedule', [RX['schedule'], RX['item_move'], RX['item_dtor']], names=dict(HEAP, sch_item_move=RX['item_move'])),
    unit('cancel_e', 'sch_cancel_e', [RX['cancel_e']], names={'sch_remove': RX['remove']}, names_opt={'pr_call_exc': RX['pr_call_exc'], 'sp_dtor': RX['sp_dtor']},
         types=dict(T_SPB), boundary=[RX['remove']]),
    unit('cancel', 'sch_cancel', [RX['cancel']], names={'sch_cancel_e': RX['cancel_e']}, types=dict(T_SPB), boundary=[RX['cancel_e']],
         globals={'AWAIT_CANCELED_TI': '_ZTIN5cocls24await_canceled_exceptionE'}, defines=['C12_EXC_PRIMS 1']),
    unit('sleep_until', 'sch_sleep_until', [RX['sleep_until']], names={'sch_schedule': RX['schedule']}, names_opt={'pr_ctor_future': RX['pr_ctor_future']},
         types=dict(T_FUT), boundary=[RX['schedule']], defines=['PR_FUTURE_T FUT']),
    unit('sleep_for', 'sch_sleep_for', [RX['sleep_for']], names={'sch_sleep_until': RX['sleep_until'], 'chr_cast_ms_ns': CAST_RX}, types=dict(T_FUT, DUR_MS='std::chrono::duration<long, std::ratio<1L, 1000L> >'),
         boundary=[RX['sleep_until'], r'^std::chrono::_V2::system_clock::now\(\)$', CAST_RX]),
    unit('dtor', 'sch_dtor', [RX['dtor'], RX['item_dtor']], names={'sch_item_dtor': RX['item_dtor']},
         names_opt=dict(opt_has_value=r'^std::optional<cocls::scheduler::GlobState>::has_value\(\) const$', opt_arrow=r'^std::optional<cocls::scheduler::GlobState>::operator->\(\)$',
                        opt_dtor=r'^std::optional<cocls::scheduler::GlobState>::~optional\(\)$', ss_request_stop=r'^std::stop_source::request_stop\(\) const$', fut_wait=r'^cocls::future<void>::wait\(\)$'),
         types=dict(T_FUT, OPTGS='std::optional<cocls::scheduler::GlobState>', GLOBST='cocls::scheduler::GlobState', STOPSRC='std::stop_source'),
         boundary=[r'^std::optional<cocls::scheduler::GlobState>::', r'^std::stop_source::request_stop', r'^cocls::future<void>::wait\(\)$']),
    unit('interval_stop_cb', 'sch_interval_cb', [RX['interval_cb'], RX['remove_pred'], RX['item_dtor']],
         names=dict(HEAP, sch_interval_cb=RX['interval_cb'], sch_remove=RX['remove'], vec_find_if=RX['find_if'], vec_find_pred=RX['remove_pred']),
         names_opt={'pr_call_exc': RX['pr_call_exc'], 'sp_dtor': RX['sp_dtor']}, types=dict(T_SPB), enforce=None, loop_contracts=True, object_bits=10,
         defines=['C12_EXC_PRIMS 1', 'CV_HAS_sch_interval_cb_U 1'], harness='h_interval_stop_cb',
         replay=dict(src='c12_interval_replay.cpp', mode='interval_stop', timeout=60)),
] + [
    unit('drive_manual_' + sname, 'sch_drive', [RX['schedule'], RX['cancel_e'], RX['get_expired'], RX['remove_pred'], RX['item_move'], RX['item_dtor']],
         names=dict(HEAP, sch_drive=RX['schedule'], sch_schedule=RX['schedule'], sch_cancel_e=RX['cancel_e'], sch_get_expired=RX['get_expired'], sch_item_move=RX['item_move'],
                    vec_find_if=RX['find_if'], vec_find_pred=RX['remove_pred']),
         names_opt=dict(VAR_NAMES, pr_call_exc=RX['pr_call_exc'], sp_dtor=RX['sp_dtor']), types=dict(T_SPB, **T_EXPIRED), boundary=[VARX], enforce=None,
         spec=['C12/sch_spec.h', 'C12/h_drive.c'], harness='h_drive', defines=['C12_CONCRETE_VEC 1', 'CVEC_CAP 3', 'DRV_SCRIPT ' + ','.join(str('SCG'.index(c)) for c in sname)],
         unwind=6, object_bits=12, kind='bounded',
         bounded='manual mode, scripted history %s (S schedule, C cancel, G get_expired) with symbolic time points / identifiers (2) / now; <= 3 sleeps; concrete vector with textbook heap algorithms' % sname,
         timeout=900, under_contract=[], **DRIVE_REPLAY.get(sname, {}))
    for sname in DRIVE_SCRIPTS
]
META = dict(
    level='proof',
    level_text='Every function of scheduler.h that touches the scheduled heap is verified against a contract taken from the property statement, for every size and content of the heap (no bound on the number of entries, time points, identifiers or tombstones), with the two loops (get_expired_lk, remove) under loop contracts: get_expired_lk/get_expired(now): a returned promise is live, comes from an entry with time point <= now, and no pending sleep that remains is earlier; a returned time is the earliest time point, belongs to a pending sleep, and nothing pending is due (max() when empty); every pending sleep is either still pending and unaltered or is the one returned; nothing is resolved or dropped. remove(id): a live result was taken from an entry carrying id and exactly that entry is consumed; an empty result means no pending sleep carries id and nothing changed; every vector access is in range; one critical section, lock released. schedule: one entry more, the new entry unaltered, the first entry still the earliest, the worker notified whenever the heap was empty or the new entry is strictly earlier than the first one, every old entry kept. cancel(id,e) = one remove(id) + resolution of exactly the returned promise with exactly e, true/false accordingly, the awaiting coroutine handed to the caller; cancel(id) forwards with an exception whose dynamic type is await_canceled_exception; sleep_until/sleep_for schedule the promise of the returned future exactly once for (tp | one clock reading + duration, id); ~scheduler stops and joins a started worker first and then destroys the vector once, which drops (= cancels, C01) every pending promise; compare_item/pop_item as leaves. The stop-callback lambda of interval() is checked with everything it calls translated (lock discipline of std::mutex, no exception, other sleeps untouched).',
    level_note='"For every entry" is proved for one arbitrary-but-fixed tracked entry that the vector model follows through every permutation (quantifier-free). Trusted: the element-view model of std::vector<SchItem> and of std::push_heap/pop_heap/find_if (lib/model_vec_heap.c) - the heap algorithms are specified by their effect (permutation + "comp(moved/first, x) is false for every x", evaluated with the real translated compare_item) and are assumed to keep the std heap invariant that their own precondition demands; the abstract promise<void> (one owner word; resolution/drop recorded, future.h internals not translated); std::variant converting constructors; std::mutex via pthread primitives (sequential reading: every public operation is one critical section, cancel = one critical section + a resolution outside the lock); condition_variable::notify_all only counted. Each public operation is verified for one thread; interleavings reduce to sequences of critical sections (lock-based linearisability, argued not machine-checked). NOT covered: worker_coro (coroutine body: that it waits until exactly the time get_expired_lk returns and resolves what it returns is by reading), start()/start_in/thread-pool mode, the body of interval() other than its stop callback, wall-clock accuracy, std::stop_token internals, history-level composition (a sleep completes exactly once over a whole run: the per-operation contracts are the inductive steps, the induction over histories is not machine-checked). A reversed comparator is caught by compare_item and schedule only (the consumer units then prune instead of failing).',
    technique='CBMC 6.11 code contracts (requires/ensures/assigns) and loop contracts enforced via goto-instrument --dfcc on the C translation of clang IR of scheduler.h; std containers/algorithms, promise<void>, variant, mutex, condition_variable as operational models with precondition obligations; forwarder units with recording stubs for cancel/sleep_until/sleep_for/destructor',
    trusted_base=['assumed contract: std::vector<scheduler::SchItem> + std::push_heap/pop_heap/find_if, element view with a tracked element (lib/model_vec_heap.c)',
                  'assumed contract: cocls::promise<void> = one owner word; move/bool/destructor/operator()(exception_ptr) record completions in ghost state (lib/model_promise.c)',
                  'assumed contract: std::variant<time_point, promise<void>> converting constructors (lib/model_variant_expired.c)',
                  'primitive: std::mutex = pthread_mutex_lock/unlock with "not locked again by its holder" obligation (lib/model_mutex.c); condition_variable::notify_all counted (specs/C12/sch_spec.h)',
                  'libstdc++ make_exception_ptr primitives (__cxa_init_primary_exception, exception_ptr(void*)) as two-line stubs (specs/C12/sch_spec.h)',
                  'abstract callees in forwarder units: optional<GlobState>, stop_source::request_stop, future<void>::wait, system_clock::now, duration_cast<ns>(ms), suspend_point<void> destructor'],
    assumptions=['fewer than 2^62 scheduled entries (size counter never wraps)',
                 'the scheduled vector is manipulated only through the modelled operations (operator[], empty, begin/end as algorithm arguments, push_back+push_heap, pop_heap+pop_back, find_if); time points of stored entries are never written (true of scheduler.h by inspection of the translated units: every access goes through the model)',
                 'each public operation runs as one critical section of _mx; results for concurrent use follow by lock-based linearisability (not machine-checked)',
                 'promise<void> is a linear resource: a live owner word is held by exactly one promise object (property C01)'],
    explanation='see level_text / level_note')
