# C12 - Scheduler: never early, in deadline order, cancel hits exactly its target   (src/cocls/scheduler.h)
TPT = 'std::chrono::time_point<std::chrono::_V2::system_clock, std::chrono::duration<long, std::ratio<1L, 1000000000L> > >'
TYPES = {'SCHED': 'cocls::scheduler', 'ITEM': 'cocls::scheduler::SchItem', 'PROM': 'cocls::promise<void>',
         'VECT': 'std::vector<cocls::scheduler::SchItem, std::allocator<cocls::scheduler::SchItem> >'}
T_EXPIRED = {'EXPIRED': 'std::variant<%s, cocls::promise<void> >' % TPT}
VARX = r'^std::variant<std::chrono::time_point<.*>, cocls::promise<void> >::variant<'
VAR_NAMES = dict(var_from_promise=VARX + r'cocls::promise<void>, void, void, cocls::promise<void>, void>\(cocls::promise<void>&&\)$',
                 var_from_tp_rv=VARX + r'std::chrono::time_point<[^&]*, void, void, std::chrono::time_point<.*, void>\(std::chrono::time_point<.*>&&\)$',
                 var_from_tp_lv=VARX + r'std::chrono::time_point<.*>&, void, void, std::chrono::time_point<.*, void>\(std::chrono::time_point<.*>&\)$')
T_SPB = {'SPB': 'cocls::suspend_point<bool>', 'SP': 'cocls::suspend_point<void>', 'EPTR': 'std::__exception_ptr::exception_ptr'}
T_FUT = {'FUT': 'cocls::future<void>'}
RX = dict(
    compare_item=r'^cocls::scheduler::compare_item\(',
    pop_item=r'^cocls::scheduler::pop_item\(\)$',
    get_expired_lk=r'^cocls::scheduler::get_expired_lk\(',
    get_expired=r'^cocls::scheduler::get_expired\(',
    remove=r'^cocls::scheduler::remove\(void const\*\)$',
    remove_pred=r'^cocls::scheduler::remove\(void const\*\)::\{lambda\(cocls::scheduler::SchItem const&\)#1\}::operator\(\)\(cocls::scheduler::SchItem const&\) const$',
    find_if=r'std::find_if<__gnu_cxx::__normal_iterator<cocls::scheduler::SchItem\*',
    cancel=r'^cocls::scheduler::cancel\(void const\*\)$',
    cancel_e=r'^cocls::scheduler::cancel\(void const\*, std::__exception_ptr::exception_ptr\)$',
    schedule=r'^cocls::scheduler::schedule\(',
    sleep_until=r'^cocls::scheduler::sleep_until\(.*void const\*\)$',
    sleep_for=r'^cocls::future<void> cocls::scheduler::sleep_for<long, std::ratio<1l, 1000l> >\(',
    dtor=r'^cocls::scheduler::~scheduler\(\)$',
    interval_cb=r'^cocls::scheduler::interval<long, std::ratio<1l, 1000l> >\(.*\)::\{lambda\(\)#1\}::operator\(\)\(\) const$',
    item_move=r'^cocls::scheduler::SchItem::SchItem\(cocls::scheduler::SchItem&&\)$',
    item_dtor=r'^cocls::scheduler::SchItem::~SchItem\(\)$',
    pr_call_exc=r'^cocls::suspend_point<bool> cocls::promise<void>::operator\(\)<std::__exception_ptr::exception_ptr&>\(std::__exception_ptr::exception_ptr&\)$',
    pr_ctor_future=r'^cocls::promise<void>::promise\(cocls::future<void>&\)$',
    sp_dtor=r'^cocls::suspend_point<void>::~suspend_point\(\)$',
)
BOUNDARY = [r'^std::vector<cocls::scheduler::SchItem', r'^void std::push_heap<', r'^void std::pop_heap<', RX['find_if'], r'^cocls::promise<void>::',
            r'cocls::promise<void>::operator\(\)<', r'^std::condition_variable::', RX['sp_dtor']]
LIBS = ['rt_core.c', 'rt_atomic_seq.c', 'model_mutex.c']     # lib/model_vec_heap.c and lib/model_promise.c are included by the spec (they need its macros)
SPEC = ['C12/sch_spec.h', 'C12/h_sch.c']
HEAP = dict(sch_compare_item=RX['compare_item'], sch_item_dtor=RX['item_dtor'])
def unit(name, alias, roots, names=None, types=None, boundary=(), defines=(), **kw):
    nm = {alias: RX[name] if name in RX else roots[0]}
    nm.update(names or {})
    t = dict(TYPES); t.update(types or {})
    d = dict(name=name, driver='c12_sched.cpp', roots=roots, names=nm, types=t, boundary=BOUNDARY + list(boundary), lib=LIBS, spec=SPEC,
             harness='h_' + name, enforce=alias, defines=['CV_HAS_%s_U 1' % alias] + list(defines), under_contract=[roots[0].strip('^$').replace('\\', '')])
    d.update(kw)
    return d

UNITS = [
    unit('compare_item', 'sch_compare_item', [RX['compare_item']]),
    unit('pop_item', 'sch_pop_item', [RX['pop_item'], RX['item_dtor']], names=HEAP),
    unit('get_expired_lk', 'sch_get_expired_lk', [RX['get_expired_lk'], RX['item_dtor']], names=HEAP, names_opt=VAR_NAMES, boundary=[VARX], types=T_EXPIRED, loop_contracts=True, object_bits=9),
    unit('get_expired', 'sch_get_expired', [RX['get_expired'], RX['item_dtor']], names=dict(HEAP, sch_get_expired_lk=RX['get_expired_lk']), names_opt=VAR_NAMES, boundary=[VARX], types=T_EXPIRED, loop_contracts=True, object_bits=9),
    unit('remove', 'sch_remove', [RX['remove'], RX['remove_pred'], RX['item_dtor']], names=dict(HEAP, vec_find_if=RX['find_if'], vec_find_pred=RX['remove_pred']), loop_contracts=True, object_bits=10),
    unit('schedule', 'sch_schedule', [RX['schedule'], RX['item_move'], RX['item_dtor']], names=dict(HEAP, sch_item_move=RX['item_move'])),
    unit('cancel_e', 'sch_cancel_e', [RX['cancel_e']], names={'sch_remove': RX['remove']}, names_opt={'pr_call_exc': RX['pr_call_exc'], 'sp_dtor': RX['sp_dtor']},
         types=dict(T_SPB), boundary=[RX['remove']]),
    unit('cancel', 'sch_cancel', [RX['cancel']], names={'sch_cancel_e': RX['cancel_e']}, types=dict(T_SPB), boundary=[RX['cancel_e']],
         globals={'AWAIT_CANCELED_TI': '_ZTIN5cocls24await_canceled_exceptionE'}, defines=['C12_EXC_PRIMS 1']),
    unit('sleep_until', 'sch_sleep_until', [RX['sleep_until']], names={'sch_schedule': RX['schedule']}, names_opt={'pr_ctor_future': RX['pr_ctor_future']},
         types=dict(T_FUT), boundary=[RX['schedule']], defines=['PR_FUTURE_T FUT']),
    unit('sleep_for', 'sch_sleep_for', [RX['sleep_for']], names={'sch_sleep_until': RX['sleep_until']}, types=dict(T_FUT), boundary=[RX['sleep_until'], r'^std::chrono::_V2::system_clock::now\(\)$']),
]
META = {}
