/* C12 - BOUNDED drive in manual mode (no worker): a history whose operation KINDS are scripted (DRV_SCRIPT: 0 = schedule(id, promise, tp),
 * 1 = cancel(id, e), 2 = get_expired(now); one unit per script) and whose time points (arbitrary, also equal and past), identifiers (two)
 * and "now" values are symbolic; at most DRV_SLEEPS sleeps; executed by the REAL translated
 * schedule / cancel / remove / get_expired / get_expired_lk / pop_item / compare_item on a CONCRETE vector with textbook heap algorithms
 * (lib/model_vec_heap_concrete.c), checked after every step against a reference table of the sleeps (time point, id, state).
 * This is bounded symbolic execution, not a contract proof: it cross-checks that the per-function contracts and the abstract container
 * model compose to the history-level statement of the property.  Labelled bounded, never counted as discharged. */
#ifdef CV_HAS_sch_drive_U
static const unsigned char drv_script[] = { DRV_SCRIPT };
#define DRV_OPS ((int)sizeof(drv_script))
#define DRV_SLEEPS CVEC_CAP
enum { ST_NONE = 0, ST_PENDING, ST_EXPIRED, ST_CANCELLED };
static char drv_fut[DRV_SLEEPS];                       /* the futures (identities only)           */
static cv_s64 drv_tp[DRV_SLEEPS]; static cv_i8 *drv_id[DRV_SLEEPS]; static int drv_st[DRV_SLEEPS]; static int drv_n;
static char drv_idobj[2], drv_excobj[1];
static int drv_index(void *own) { for (int i = 0; i < DRV_SLEEPS; i++) if (own == (void *)&drv_fut[i]) return i; return -1; }
void h_drive(void) {
  SCHED *s = malloc(sizeof(*s)); __CPROVER_assume(s != 0);
  struct pr_model p0 = {0}; pm = p0;
  cv_exc_pending = 0; gh_lock_depth = 0; gh_lock_held = 0; gh_n_lock = 0; gh_n_unlock = 0; gh_sched_mx = (void *)&s->_mx; gh_sp_flushed = 0; gh_n_notify = 0;
  cvec_n = 0; drv_n = 0;
  for (int k = 0; k < DRV_OPS; k++) {
    unsigned op = drv_script[k]; cv_i8 *id = nondet_bool() ? (cv_i8 *)&drv_idobj[0] : (cv_i8 *)&drv_idobj[1];
    if (op == 0) {                                                               /* ---- schedule(id, promise of a fresh future, tp) */
      if (drv_n >= DRV_SLEEPS) continue;
      PROM p; cv_i64 tp = nondet_size_t(); PR_OWN(&p) = (void *)&drv_fut[drv_n];
      cv_s64 earliest = TP_MAX; for (int i = 0; i < drv_n; i++) if (drv_st[i] == ST_PENDING && drv_tp[i] < earliest) earliest = drv_tp[i];
      unsigned ntf0 = gh_n_notify;
      sch_schedule(s, id, &p, tp);
      __CPROVER_assert(PR_OWN(&p) == 0, "drive: schedule takes the promise over");
      __CPROVER_assert(!((cv_s64)tp < earliest) || gh_n_notify == ntf0 + 1, "drive: a new earliest deadline wakes the worker");
      drv_tp[drv_n] = (cv_s64)tp; drv_id[drv_n] = id; drv_st[drv_n] = ST_PENDING; drv_n++;
    } else if (op == 1) {                                                        /* ---- cancel(id, e) */
      SPB r; EPTR e; e._M_exception_object = (void *)drv_excobj;
      int expect = 0; for (int i = 0; i < drv_n; i++) if (drv_st[i] == ST_PENDING && drv_id[i] == id) expect = 1;
      unsigned exc0 = gh_pr_n_exc;
      sch_cancel_e(&r, s, id, &e);
      __CPROVER_assert(r.value == expect, "drive: cancel(id) reports true exactly when a pending sleep carries id (also repeated cancels, cancels after expiry)");
      __CPROVER_assert(gh_pr_n_exc == exc0 + (expect ? 1u : 0u), "drive: cancel(id) completes exactly one sleep when it reports true and none otherwise");
      if (r.value && gh_pr_n_exc == exc0 + 1) {
        int j = drv_index(gh_pr_last_own);
        __CPROVER_assert(j >= 0 && j < drv_n && drv_st[j] == ST_PENDING && drv_id[j] == id, "drive: the cancelled sleep was pending and carried id");
        __CPROVER_assert(gh_pr_last_excobj == (void *)drv_excobj, "drive: ... and is completed with exactly the given exception");
        if (j >= 0) drv_st[j] = ST_CANCELLED;
      }
    } else {                                                                     /* ---- get_expired(now) */
      EXPIRED r; cv_i64 now = nondet_size_t();
      sch_get_expired(&r, s, now);
      if (RET_IDX(&r) == 1) {
        int j = drv_index(RET_OWN(&r));
        __CPROVER_assert(j >= 0 && j < drv_n && drv_st[j] == ST_PENDING, "drive: an expired sleep was pending (each sleep completes once: expiry xor cancel)");
        __CPROVER_assume(j >= 0 && j < drv_n);
        __CPROVER_assert(drv_tp[j] <= (cv_s64)now, "drive: never early");
        for (int i = 0; i < drv_n; i++) __CPROVER_assert(!(drv_st[i] == ST_PENDING && i != j) || drv_tp[i] >= drv_tp[j], "drive: sleepers complete in time-point order");
        drv_st[j] = ST_EXPIRED; RET_OWN(&r) = 0;                                 /* the caller resolves it */
      } else {
        cv_s64 earliest = TP_MAX; int any = 0;
        for (int i = 0; i < drv_n; i++) if (drv_st[i] == ST_PENDING) { any = 1; if (drv_tp[i] < earliest) earliest = drv_tp[i]; }
        __CPROVER_assert(RET_IDX(&r) == 0, "drive: a time point is returned");
        __CPROVER_assert(!any || earliest > (cv_s64)now, "drive: no pending sleep is due when a time is returned");
        __CPROVER_assert(RET_TIME(&r) == earliest, "drive: the returned time is the earliest pending deadline (max() when none): the worker waits exactly until it");
      }
    }
    __CPROVER_assert(cv_exc_pending == 0 && gh_lock_depth == 0, "drive: no exception, no lock left held");
    __CPROVER_assert(gh_pr_n_dropped == 0 && gh_pr_n_val == 0, "drive: no promise is dropped or resolved inside the scheduler");
  }
  __CPROVER_assert(0, "SENTINEL reachable after the drive");
}
#endif
