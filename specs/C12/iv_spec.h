/* C12 - scheduler::interval(dur, stop_token): the lowered generator coroutine.  The REAL ramp function creates the frame; then ONE resumption of the REAL body
 * ([clone .resume]) is executed from each of its three suspension points - initial (index 0), co_await waiter (index 1), co_yield counter (index 2) - in an arbitrary
 * state satisfying the suspension invariant (stop callback registered, waiter constructed), i.e. an inductive step that covers every iteration of the loop.
 * What C12 needs from interval() is the clause "cancellation through a stop token ... no crash or hang":
 *   (T1) the stop callback is registered exactly once, on the generator's own token, with the closure { this scheduler, &tag } (its body: unit interval_stop_cb);
 *   (T2) every sleep the generator starts is bound (future << lambda#2, its body: unit interval_sleep_lambda) to { this scheduler, &next, &tag } - THE SAME tag - and only
 *        after a test of the token that found no stop request; at most one sleep is pending;
 *   (T3) a cancelled sleep (await_resume throws await_canceled_exception) ends the generator normally: no further sleep, return_void, final suspend, nothing escapes;
 *   (T4) a stop request seen at the loop head ends it likewise without starting another sleep;
 *   (T5) on every exit the stop callback is deregistered exactly once and the waiter destroyed exactly once; while suspended the callback stays registered;
 *   (T6) any other exception from the sleep is reported through promise_type::unhandled_exception (the consumer sees it), not lost, not escaping into the resumer.
 * Abstract: std::stop_token / stop_callback, system_clock::now, future<void> (+ operator<<, operator co_await), co_awaiter<future<void>> (await_ready / await_suspend
 * answers and the outcome of await_resume are inputs), generator<size_t>::promise_type members (property C13), symmetric transfer target = a no-op frame. */
#define SENT(what) __CPROVER_assert(0, "SENTINEL reachable: " what)
#define IVCHK(c, what) __CPROVER_assert(c, what)
struct iv_model {
  SCHED *sched; IVFRAME *frame;
  cv_i1 stop_flag, in_ready, in_susp; unsigned in_outcome;                /* inputs: stop requested; answers of await_ready / await_suspend; outcome of await_resume (0 ok, 1 cancelled, 2 other exception) */
  unsigned n_cb_reg, n_cb_unreg, n_tok_move, n_stoptest; cv_i1 stoptest_last; unsigned tests_since_shift;
  unsigned n_now, n_fut_ctor, n_fut_dtor, n_shift, n_shift_after_throw, n_co_await, n_aw_ready, n_aw_suspend, n_aw_suspend_true, n_aw_resume; unsigned threw;
  unsigned n_yield, n_ys_suspend_yield, n_ys_suspend_final, n_ys_resume, n_final, n_return_void, n_unhandled, n_p_ctor, n_p_dtor, n_gro, n_gen_dtor;
} iv;
char iv_exc[32]; char iv_other_ti;
struct { cv_i8 *f0; cv_i8 *f1; } iv_noop_frame;
void iv_noop_resume(cv_i8 *h) { __CPROVER_assert(h == (cv_i8 *)&iv_noop_frame, "transfer target is the handle the abstract callee returned"); }
#define CV_ICALL_EXTRA_v_p(p, a0) if ((p) == (void *)iv_noop_resume) { iv_noop_resume(a0); return; }

#ifdef CV_HAS_iv_cb_ctor
void iv_cb_ctor(IVCB *cb, STOPTOK *tok, IVLAM1 *fn) {
  IVCHK(cb == &iv.frame->stpc && tok == &iv.frame->token, "T1: the stop callback lives in the frame and is registered on the generator's own token");
  IVCHK(fn->this == iv.sched && fn->tag == &iv.frame->tag, "T1: the stop callback cancels on THIS scheduler under the identifier &tag");
  iv.n_cb_reg++; }                                     /* (a stop already requested runs the callback here: unit interval_stop_cb - nothing is pending yet, cancel() reports false) */
#endif
#ifdef CV_HAS_iv_cb_dtor
void iv_cb_dtor(IVCB *cb) { IVCHK(cb == &iv.frame->stpc && iv.n_cb_reg == 1, "T5: the registered stop callback is the one deregistered"); iv.n_cb_unreg++; }
#endif
#ifdef CV_HAS_iv_tok_move
void iv_tok_move(STOPTOK *d, STOPTOK *s) { iv.n_tok_move++; }
#endif
#ifdef CV_HAS_iv_tok_dtor
void iv_tok_dtor(STOPTOK *t) { }
#endif
#ifdef CV_HAS_iv_stop_requested
cv_i1 iv_stop_requested(STOPTOK *t) { IVCHK(t == &iv.frame->token, "the generator tests its own token"); if (nondet_bool()) iv.stop_flag = 1;      /* another thread may request the stop at any time; never cleared */
  iv.n_stoptest++; iv.tests_since_shift++; iv.stoptest_last = iv.stop_flag; return iv.stop_flag; }
#endif
#ifdef CV_HAS_iv_now
cv_i64 iv_now(void) { iv.n_now++; cv_i64 t = nondet_size_t(); __CPROVER_assume(t < (1ul << 61)); return t; }
#endif
#ifdef CV_HAS_iv_fut_ctor
void iv_fut_ctor(FUT *f) { IVCHK(f == &iv.frame->waiter, "the waiter lives in the frame"); iv.n_fut_ctor++; }
#endif
#ifdef CV_HAS_iv_fut_dtor
void iv_fut_dtor(FUT *f) { IVCHK(f == &iv.frame->waiter && iv.n_fut_ctor == 1 && iv.n_fut_dtor == 0, "T5: the waiter is destroyed once"); iv.n_fut_dtor++; }
#endif
#ifdef CV_HAS_iv_fut_shift
FUT *iv_fut_shift(FUT *f, IVLAM2 *fn) {
  IVCHK(f == &iv.frame->waiter && fn->this == iv.sched && fn->next == &iv.frame->next, "T2: the sleep is scheduled on THIS scheduler, for `next`, and bound to the waiter");
  IVCHK(fn->tag == &iv.frame->tag, "T2: the sleep carries the identifier &tag - the one the stop callback cancels");
  IVCHK(iv.tests_since_shift >= 1 && iv.stoptest_last == 0, "T2/T4: a sleep is started only after a test of the token that found no stop request");
  IVCHK(iv.n_cb_reg == 1 && iv.n_cb_unreg == 0, "T2: the stop callback is registered while a sleep is started");
  if (iv.threw) iv.n_shift_after_throw++;
  iv.n_shift++; iv.tests_since_shift = 0; return f; }
#endif
#ifdef CV_HAS_iv_fut_co_await
void iv_fut_co_await(CAV *ret, FUT *f) { IVCHK(f == &iv.frame->waiter, "co_await on the waiter"); iv.n_co_await++; ret->_owner = f; ret->base_awaiter._next = 0; }
#endif
#ifdef CV_HAS_iv_aw_ready
cv_i1 iv_aw_ready(CAV *a) { iv.n_aw_ready++; return iv.in_ready; }
#endif
#ifdef CV_HAS_iv_aw_suspend
cv_i1 iv_aw_suspend(CAV *a, cv_i8 *h) { IVCHK(h == (cv_i8 *)iv.frame && a->_owner == &iv.frame->waiter, "co_await waiter: the generator registers its own handle on the waiter");
  iv.n_aw_suspend++; if (iv.in_susp) iv.n_aw_suspend_true++; return iv.in_susp; }
#endif
#ifdef CV_HAS_iv_aw_resume
void iv_aw_resume(CAV *a) { IVCHK(a->_owner == &iv.frame->waiter, "await_resume on the awaiter of the waiter"); iv.n_aw_resume++;
  if (iv.in_outcome != 0) { cv_i8 *o = (cv_i8 *)iv_exc + 16; iv.threw = iv.in_outcome; __cxa_throw(o, iv.in_outcome == 1 ? (cv_i8 *)AWAIT_CANCELED_TI : (cv_i8 *)&iv_other_ti, 0); } }
#endif
#ifdef CV_HAS_iv_p_ctor
void iv_p_ctor(GENPT *p) { iv.n_p_ctor++; }
#endif
#ifdef CV_HAS_iv_p_dtor
void iv_p_dtor(GENPT *p) { iv.n_p_dtor++; }
#endif
#ifdef CV_HAS_iv_p_gro
void iv_p_gro(GEN *ret, GENPT *p) { iv.n_gro++; iv.frame = (IVFRAME *)((cv_i8 *)p - __builtin_offsetof(IVFRAME, __promise)); }
#endif
#ifdef CV_HAS_iv_p_initial
void iv_p_initial(void) { }
#endif
#ifdef CV_HAS_iv_p_final
GENPT *iv_p_final(GENPT *p) { IVCHK(iv.n_return_void + iv.n_unhandled == 1, "final suspend after exactly one of return_void / unhandled_exception"); iv.n_final++; return p; }
#endif
#ifdef CV_HAS_iv_p_yield
GENPT *iv_p_yield(GENPT *p, cv_i64 *x) { IVCHK(p == &iv.frame->__promise && x == &iv.frame->counter, "co_yield counter"); iv.n_yield++; return p; }
#endif
#ifdef CV_HAS_iv_p_return_void
void iv_p_return_void(GENPT *p) { iv.n_return_void++; }
#endif
#ifdef CV_HAS_iv_p_unhandled
void iv_p_unhandled(GENPT *p) { iv.n_unhandled++; }
#endif
#ifdef CV_HAS_iv_ys_suspend
cv_i8 *iv_ys_suspend(YS *ys, cv_i8 *h) { IVCHK(h == (cv_i8 *)iv.frame, "the generator suspends itself");
  if (ys == &iv.frame->struct_cocls__generator) iv.n_ys_suspend_yield++; else iv.n_ys_suspend_final++;
  return (cv_i8 *)&iv_noop_frame; }
#endif
#ifdef CV_HAS_iv_ys_resume
void iv_ys_resume(YS *ys) { iv.n_ys_resume++; }
#endif
#ifdef CV_HAS_iv_gen_dtor
void iv_gen_dtor(GEN *g) { iv.n_gen_dtor++; }
#endif

void h_interval_step(void) {
  SCHED *s = malloc(sizeof(*s)); __CPROVER_assume(s != 0);
  struct iv_model z = {0}; iv = z; iv.sched = s; cv_exc_pending = 0; gh_allocs = 0; gh_frees = 0;
  iv_noop_frame.f0 = (cv_i8 *)iv_noop_resume; iv_noop_frame.f1 = 0;
  cv_i1 stop0 = nondet_bool() ? 1 : 0; iv.stop_flag = stop0;
  iv.in_ready = nondet_bool() ? 1 : 0; iv.in_susp = nondet_bool() ? 1 : 0; iv.in_outcome = nondet_unsigned() % 3;
  unsigned in_from = nondet_unsigned() % 3;
  GEN ret; STOPTOK tok_arg; cv_i64 in_dur = nondet_size_t(); __CPROVER_assume(in_dur < (1ul << 40));
  ivl_ramp(&ret, s, in_dur, &tok_arg);
  IVFRAME *f = iv.frame;
  IVCHK(cv_exc_pending == 0 && f != 0 && gh_allocs == 1 && iv.n_gro == 1 && iv.n_tok_move == 1 && iv.n_cb_reg == 0 && iv.n_shift == 0 && iv.n_stoptest == 0, "interval ramp: one frame, token moved into it, nothing of the body has run");
  __CPROVER_assume(f != 0);
  IVCHK(f->__coro_index == 0, "interval ramp: stops at the initial suspension point");
  if (in_from != 0) {                                  /* an arbitrary later resumption: the suspension invariant */
    iv.n_cb_reg = 1; iv.n_fut_ctor = 1; f->__coro_index = (cv_i8)in_from;
    if (in_from == 1) { f->class_cocls__co_awaiter_0._owner = &f->waiter; iv.n_shift = 1; }      /* suspended in co_await waiter: exactly one sleep pending */
  }
  unsigned shift0 = iv.n_shift;
  ivl_resume(f);
  IVCHK(cv_exc_pending == 0, "T3/T6: no exception escapes into the resumer");
  cv_i1 susp_await = iv.n_aw_suspend_true == 1 ? 1 : 0, susp_yield = iv.n_ys_suspend_yield == 1 ? 1 : 0, finished = (iv.n_final == 1 && iv.n_ys_suspend_final == 1) ? 1 : 0;
  IVCHK(susp_await + susp_yield + finished == 1 && iv.n_final <= 1 && iv.n_ys_suspend_final <= 1, "one step ends suspended in co_await, suspended in co_yield, or completed - exactly one of them, once");
  IVCHK(!susp_await || (f->__coro_index == 1 && iv.n_shift == shift0 + 1 && iv.n_cb_reg == 1 && iv.n_cb_unreg == 0 && iv.n_fut_dtor == 0), "T2/T5: suspended in co_await - exactly one sleep was started, the stop callback is registered");
  IVCHK(!susp_yield || (f->__coro_index == 2 && iv.n_cb_reg == 1 && iv.n_cb_unreg == 0 && iv.n_fut_dtor == 0 && iv.n_yield == 1), "T5: suspended in co_yield - stop callback registered, waiter alive (suspension invariant re-established)");
  IVCHK(!finished || (iv.n_cb_reg == 1 && iv.n_cb_unreg == 1 && iv.n_fut_ctor == 1 && iv.n_fut_dtor == 1), "T5: completed - stop callback deregistered once, waiter destroyed once");
  IVCHK(!finished || iv.threw != 0 || iv.stoptest_last == 1, "the generator only ends on a stop request or an exception of the sleep");
  IVCHK(iv.threw != 1 || (finished && iv.n_return_void == 1 && iv.n_unhandled == 0 && iv.n_shift_after_throw == 0), "T3: a cancelled sleep ends the generator normally (no further sleep, no exception reported)");
  IVCHK(iv.threw != 2 || (finished && iv.n_unhandled == 1 && iv.n_return_void == 0 && iv.n_shift_after_throw == 0), "T6: another exception of the sleep is reported to the consumer through unhandled_exception");
  IVCHK(!(iv.threw == 0 && iv.stoptest_last == 1) || (finished && iv.n_return_void == 1 && iv.n_unhandled == 0), "T4: a stop request seen at the loop head ends the generator normally");
  IVCHK(!(stop0 && in_from != 1) || (finished && iv.n_shift == shift0), "T4: resumed with the stop already requested (not inside a sleep) - completes without starting another sleep");
  if (in_from == 0 && susp_await) SENT("first resumption: stop callback registered, first sleep pending");
  if (in_from == 0 && finished) SENT("first resumption with the stop already requested: completes");
  if (in_from == 1 && susp_yield) SENT("sleep completed: value yielded");
  if (in_from == 1 && iv.threw == 1) SENT("sleep cancelled through the stop token: generator ends");
  if (in_from == 1 && iv.threw == 2) SENT("sleep failed otherwise: reported");
  if (in_from == 2 && susp_await) SENT("resumed after a yield: next sleep pending");
  if (in_from == 2 && finished && iv.threw == 0) SENT("resumed after a yield with a stop request: completes");
  if (in_from == 2 && susp_yield) SENT("resumed after a yield: sleep was ready at once, next value yielded");
  SENT("after the interval step");
}
