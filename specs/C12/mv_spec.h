/* C12 - members of scheduler.h / promise<void> that the other units only reach through assumed-contract models:
 *   SchItem::operator=(SchItem&&)  - used by the REAL std::push_heap / pop_heap (libstdc++ __push_heap / __adjust_heap / __pop_heap) to move entries; the heap model
 *                                    (lib/model_vec_heap.c) moves entries by plain structure copies, i.e. it ASSUMES that a move of an entry carries (time point,
 *                                    promise, ident) over intact and leaves no second owner of the promise behind.  That assumption is discharged here on the real
 *                                    (compiler-generated) operator= together with the real promise<void>::operator=(promise&&) and claim(): a move that lost or
 *                                    duplicated the promise would break "each sleeper completes exactly once".
 *   promise<void>::operator=(promise&&), set_value(DropTag), operator bool, operator!  - forwarder-level contracts (the future side - resolve() - is property C01).
 *   scheduler::scheduler(), GlobState::GlobState(), ~GlobState()  - "inactive scheduler": nothing scheduled, no worker state; the worker state is a fresh pending
 *                                    future + a stop source, no pool; destroyed exactly once each.
 * A promise<void> is one word (_owner: the future it may still resolve; 0 = empty). */
#define SENT(what) __CPROVER_assert(0, "SENTINEL reachable: " what)
#define PR_OWN(p) (*(void **)&(p)->_owner)
#define IT_TP(x) (*(cv_i64 *)&(x)->_tp)

/* ---- recording stubs ------------------------------------------------------------------------------------------------------------------------- */
struct mv_model {
  unsigned n_drop_calls, n_dropped; void *dropped;          /* set_value(DropTag): calls, calls that found a live owner, the owner dropped (= resolved without a value: cancelled, C01) */
  unsigned n_spb_dtor;
  unsigned n_resolve; void *resolve_on; cv_i32 res_cf;      /* future<void>::resolve(): calls, on which future, the count word of the suspend point it hands back */
  unsigned n_spb_from_sp, n_spb_from_b; cv_i32 spb_src_cf; cv_i1 spb_val; unsigned n_spv_dtor_nonempty;
} mv;
#define MV_ZERO (mv.n_drop_calls == 0 && mv.n_dropped == 0 && mv.n_spb_dtor == 0 && mv.n_resolve == 0 && mv.n_spb_from_sp == 0 && mv.n_spb_from_b == 0 && mv.n_spv_dtor_nonempty == 0)
#ifdef CV_HAS_pr_set_drop
#ifndef CV_ENFORCE_pr_set_drop
/* promise<void>::set_value(DropTag) as proved in unit pr_set_drop: claims; a live owner is resolved without a value, exactly once */
void pr_set_drop(SPB *ret, PROM *p, cv_i32 tag) {
  void *m = PR_OWN(p); PR_OWN(p) = 0; mv.n_drop_calls++;
  if (m) { mv.n_dropped++; mv.dropped = m; }
  ret->base_suspend_point._count_flag = 0; ret->value = m ? 1 : 0; }
#endif
#endif
#ifdef CV_HAS_spb_dtor
void spb_dtor(SPB *s) { mv.n_spb_dtor++; }                   /* resumes what the dropped future's awaiter made ready - in the moving thread (observation, see META) */
#endif

/* ---- SchItem::operator=(SchItem&&)  and  promise<void>::operator=(promise&&) ---------------------------------------------------------------------- */
#define MOVE_ASSIGN_ENSURES(OWN_DST, OWN_SRC, OLD_DST, OLD_SRC) \
  __CPROVER_ensures(cv_exc_pending == 0 && OWN_DST == OLD_SRC && OWN_SRC == 0)                 /* the promise travels: the destination owns the pending sleep, the source owns nothing (exactly one owner) */ \
  __CPROVER_ensures(mv.n_dropped == (OLD_DST != 0 ? 1 : 0))                                    /* a live promise that gets overwritten is completed (cancelled) exactly once - not leaked, not twice */ \
  __CPROVER_ensures(OLD_DST != 0 ==> mv.dropped == OLD_DST)                                    /* ... that one, nothing else */
#ifdef CV_HAS_item_move_assign
void *gh_dst0, *gh_src0;
ITEM *item_move_assign(ITEM *this_, ITEM *other)
__CPROVER_requires(cv_exc_pending == 0 && MV_ZERO && __CPROVER_is_fresh(this_, sizeof(ITEM)) && __CPROVER_is_fresh(other, sizeof(ITEM)))
__CPROVER_requires(gh_dst0 == PR_OWN(&this_->_p) && gh_src0 == PR_OWN(&other->_p))
__CPROVER_assigns(__CPROVER_object_whole(this_), __CPROVER_object_whole(other), __CPROVER_object_whole(&mv))
__CPROVER_ensures(__CPROVER_return_value == this_)
__CPROVER_ensures(IT_TP(this_) == __CPROVER_old(IT_TP(other)) && this_->_ident == __CPROVER_old(other->_ident))      /* time point and identifier carried over intact */
__CPROVER_ensures(IT_TP(other) == __CPROVER_old(IT_TP(other)) && other->_ident == __CPROVER_old(other->_ident))
MOVE_ASSIGN_ENSURES(PR_OWN(&this_->_p), PR_OWN(&other->_p), gh_dst0, gh_src0)
;
void h_item_move_assign(void) { ITEM *a, *b; item_move_assign(a, b);
  if (gh_dst0 == 0 && gh_src0 != 0) SENT("SchItem move-assign into a moved-from slot (what the heap algorithms do)");
  if (gh_dst0 != 0) SENT("SchItem move-assign over a live entry: the overwritten sleep is cancelled once"); }
#endif
#if defined(CV_HAS_pr_move_assign) && !defined(CV_HAS_item_move_assign)
void *gh_dst0, *gh_src0;
PROM *pr_move_assign(PROM *this_, PROM *other)
__CPROVER_requires(cv_exc_pending == 0 && MV_ZERO && __CPROVER_is_fresh(this_, sizeof(PROM)) && __CPROVER_is_fresh(other, sizeof(PROM)))
__CPROVER_requires(gh_dst0 == PR_OWN(this_) && gh_src0 == PR_OWN(other))
__CPROVER_assigns(__CPROVER_object_whole(this_), __CPROVER_object_whole(other), __CPROVER_object_whole(&mv))
__CPROVER_ensures(__CPROVER_return_value == this_)
MOVE_ASSIGN_ENSURES(PR_OWN(this_), PR_OWN(other), gh_dst0, gh_src0)
;
void h_pr_move_assign(void) { PROM *a, *b; pr_move_assign(a, b);
  if (gh_dst0 == 0 && gh_src0 != 0) SENT("promise move-assign into an empty promise");
  if (gh_dst0 != 0) SENT("promise move-assign over a live promise: dropped once"); }
#endif

/* ---- promise<void>::set_value(DropTag) ----------------------------------------------------------------------------------------------------------- */
#ifdef CV_ENFORCE_pr_set_drop
#ifdef CV_HAS_fut_resolve
void fut_resolve(SP *ret, FUT *f) { mv.n_resolve++; mv.resolve_on = f; ret->_count_flag = mv.res_cf; }      /* hands back the awaiting coroutine(s), made ready */
#endif
#ifdef CV_HAS_spb_ctor_sp
void spb_ctor_sp(SPB *this_, SP *src, cv_i1 v) { mv.n_spb_from_sp++; mv.spb_src_cf = src->_count_flag; mv.spb_val = v; src->_count_flag = src->_count_flag & 1;
  this_->base_suspend_point._count_flag = mv.spb_src_cf; this_->value = v; }
#endif
#ifdef CV_HAS_spb_ctor_b
void spb_ctor_b(SPB *this_, cv_i1 v) { mv.n_spb_from_b++; mv.spb_val = v; this_->base_suspend_point._count_flag = 0; this_->value = v; }
#endif
#ifdef CV_HAS_spv_dtor
void spv_dtor(SP *s) { if (s->_count_flag >> 1) mv.n_spv_dtor_nonempty++; }
#endif
void *gh_own0;
void pr_set_drop(SPB *ret, PROM *this_, cv_i32 tag)
__CPROVER_requires(cv_exc_pending == 0 && MV_ZERO && __CPROVER_is_fresh(ret, sizeof(SPB)) && __CPROVER_is_fresh(this_, sizeof(PROM)) && gh_own0 == PR_OWN(this_) && (mv.res_cf >> 1) < 1000)
__CPROVER_assigns(__CPROVER_object_whole(ret), __CPROVER_object_whole(this_), __CPROVER_object_whole(&mv))
__CPROVER_ensures(cv_exc_pending == 0 && PR_OWN(this_) == 0)                                                                   /* the promise is used up */
__CPROVER_ensures(gh_own0 != 0 ==> (mv.n_resolve == 1 && mv.resolve_on == gh_own0 && ret->value == 1))                        /* live: its future is completed (without a value) exactly once, reports true */
__CPROVER_ensures(gh_own0 != 0 ==> (mv.n_spb_from_sp == 1 && mv.spb_src_cf == mv.res_cf && ret->base_suspend_point._count_flag == mv.res_cf && mv.n_spv_dtor_nonempty == 0))   /* the awaiting coroutine is handed to the caller, not lost, not resumed twice */
__CPROVER_ensures(gh_own0 == 0 ==> (mv.n_resolve == 0 && ret->value == 0 && (ret->base_suspend_point._count_flag >> 1) == 0))   /* empty: no effect, reports false */
;
void h_pr_set_drop(void) { SPB *r; PROM *p; pr_set_drop(r, p, 0); if (gh_own0) SENT("set_value(drop) on a live promise"); else SENT("set_value(drop) on an empty promise"); }
#endif

/* ---- operator bool / operator! ------------------------------------------------------------------------------------------------------------------- */
#ifdef CV_HAS_pr_bool
cv_i1 pr_bool(PROM *this_)
__CPROVER_requires(cv_exc_pending == 0 && __CPROVER_is_fresh(this_, sizeof(PROM)))
__CPROVER_assigns()
__CPROVER_ensures(__CPROVER_return_value == (PR_OWN(this_) != 0 ? 1 : 0) && PR_OWN(this_) == __CPROVER_old(PR_OWN(this_)))
;
void h_pr_bool(void) { PROM *p; if (pr_bool(p)) SENT("promise is live"); else SENT("promise is empty"); }
#endif
#ifdef CV_HAS_pr_not
cv_i1 pr_not(PROM *this_)
__CPROVER_requires(cv_exc_pending == 0 && __CPROVER_is_fresh(this_, sizeof(PROM)))
__CPROVER_assigns()
__CPROVER_ensures(__CPROVER_return_value == (PR_OWN(this_) == 0 ? 1 : 0) && PR_OWN(this_) == __CPROVER_old(PR_OWN(this_)))
;
void h_pr_not(void) { PROM *p; if (pr_not(p)) SENT("!promise: empty"); else SENT("!promise: live"); }
#endif

/* ---- scheduler::scheduler() ------------------------------------------------------------------------------------------------------------------------ */
#ifdef CV_HAS_sch_ctor
struct sc_model { unsigned n_vec, n_mx, n_cond, n_opt; void *vec_on, *mx_on, *cond_on, *opt_on; } sc;
#ifdef CV_HAS_vec_ctor
void vec_ctor(VECT *v) { sc.n_vec++; sc.vec_on = v; }
#endif
#ifdef CV_HAS_mx_ctor
void mx_ctor(struct S_class_std__mutex *m) { sc.n_mx++; sc.mx_on = m; }
#endif
#ifdef CV_HAS_cond_ctor
void cond_ctor(struct S_class_std__condition_variable *c) { sc.n_cond++; sc.cond_on = c; }
#endif
#ifdef CV_HAS_opt_ctor
void opt_ctor(OPTGS *o) { sc.n_opt++; sc.opt_on = o; }
#endif
void sch_ctor(SCHED *this_)
__CPROVER_requires(cv_exc_pending == 0 && sc.n_vec == 0 && sc.n_mx == 0 && sc.n_cond == 0 && sc.n_opt == 0 && __CPROVER_is_fresh(this_, sizeof(SCHED)))
__CPROVER_assigns(__CPROVER_object_whole(this_), __CPROVER_object_whole(&sc))
__CPROVER_ensures(cv_exc_pending == 0 && sc.n_vec == 1 && sc.vec_on == (void *)&this_->_scheduled)          /* nothing scheduled: the heap is constructed (empty), once */
__CPROVER_ensures(sc.n_opt == 1 && sc.opt_on == (void *)&this_->_glob_state)                                /* inactive: no worker state (~scheduler has nothing to stop / wait for) */
__CPROVER_ensures(sc.n_mx == 1 && sc.mx_on == (void *)&this_->_mx && sc.n_cond == 1 && sc.cond_on == (void *)&this_->_cond)
__CPROVER_ensures(this_->_elide_state == 0)
;
void h_sch_ctor(void) { SCHED *s; sch_ctor(s); SENT("scheduler() constructed"); }
#endif

/* ---- GlobState::GlobState() / ~GlobState() --------------------------------------------------------------------------------------------------------- */
#if defined(CV_HAS_gs_ctor) || defined(CV_HAS_gs_dtor)
struct gs_model { unsigned n_fut_ctor, n_fut_dtor, n_ss_ctor, n_ss_dtor; void *fut_on, *fut_dtor_on, *ss_on, *ss_dtor_on; unsigned fut_dtor_at; } gs;
#define GS_ZERO (gs.n_fut_ctor == 0 && gs.n_fut_dtor == 0 && gs.n_ss_ctor == 0 && gs.n_ss_dtor == 0)
#ifdef CV_HAS_futv_ctor
void futv_ctor(FUT *f) { gs.n_fut_ctor++; gs.fut_on = f; }
#endif
#ifdef CV_HAS_futv_dtor
void futv_dtor(FUT *f) { gs.n_fut_dtor++; gs.fut_dtor_on = f; gs.fut_dtor_at = gs.n_ss_dtor; }
#endif
#ifdef CV_HAS_ss_ctor
void ss_ctor(STOPSRC *s) { gs.n_ss_ctor++; gs.ss_on = s; }
#endif
#ifdef CV_HAS_ss_dtor
void ss_dtor(STOPSRC *s) { gs.n_ss_dtor++; gs.ss_dtor_on = s; }
#endif
#endif
#ifdef CV_HAS_gs_ctor
void gs_ctor(GLOBST *this_)
__CPROVER_requires(cv_exc_pending == 0 && GS_ZERO && __CPROVER_is_fresh(this_, sizeof(GLOBST)))
__CPROVER_assigns(__CPROVER_object_whole(this_), __CPROVER_object_whole(&gs))
__CPROVER_ensures(cv_exc_pending == 0 && gs.n_fut_ctor == 1 && gs.fut_on == (void *)&this_->_fut && gs.n_fut_dtor == 0)     /* one fresh (pending) future that ~scheduler waits on */
__CPROVER_ensures(gs.n_ss_ctor == 1 && gs.ss_on == (void *)&this_->_stp)                                                     /* one stop source */
__CPROVER_ensures(this_->_pool == 0)                                                                                       /* no pool until start_in(pool) says so */
;
void h_globstate_ctor(void) { GLOBST *g; gs_ctor(g); SENT("GlobState constructed"); }
#endif
#ifdef CV_HAS_gs_dtor
void gs_dtor(GLOBST *this_)
__CPROVER_requires(cv_exc_pending == 0 && GS_ZERO && __CPROVER_is_fresh(this_, sizeof(GLOBST)))
__CPROVER_assigns(__CPROVER_object_whole(&gs))
__CPROVER_ensures(cv_exc_pending == 0 && gs.n_ss_dtor == 1 && gs.ss_dtor_on == (void *)&this_->_stp && gs.n_fut_dtor == 1 && gs.fut_dtor_on == (void *)&this_->_fut)   /* each member destroyed exactly once */
__CPROVER_ensures(gs.n_fut_ctor == 0 && gs.n_ss_ctor == 0)
;
void h_globstate_dtor(void) { GLOBST *g; gs_dtor(g); SENT("GlobState destroyed"); }
#endif
