/* C12 harnesses (one per unit; selected by goto-cc --function).  Pointer arguments are shaped by the contracts' is_fresh clauses. */
#ifdef CV_HAS_sch_compare_item_U
void h_compare_item(void)   { ITEM *a, *b; sch_compare_item(a, b); __CPROVER_assert(0, "SENTINEL reachable after compare_item"); }
#endif
#ifdef CV_HAS_sch_pop_item_U
void h_pop_item(void)       { SCHED *s; sch_pop_item(s); __CPROVER_assert(0, "SENTINEL reachable after pop_item"); }
#endif
#ifdef CV_HAS_sch_get_expired_lk_U
void h_get_expired_lk(void) { EXPIRED *r; SCHED *s; cv_i64 now; sch_get_expired_lk(r, s, now); __CPROVER_assert(0, "SENTINEL reachable after get_expired_lk"); }
#endif
#ifdef CV_HAS_sch_get_expired_U
void h_get_expired(void)    { EXPIRED *r; SCHED *s; cv_i64 now; sch_get_expired(r, s, now); __CPROVER_assert(0, "SENTINEL reachable after get_expired"); }
#endif
#ifdef CV_HAS_sch_remove_U
void h_remove(void)         { PROM *r; SCHED *s; cv_i8 *id; sch_remove(r, s, id); __CPROVER_assert(0, "SENTINEL reachable after remove"); }
#endif
#ifdef CV_HAS_sch_schedule_U
void h_schedule(void)       { SCHED *s; cv_i8 *id; PROM *p; cv_i64 tp; sch_schedule(s, id, p, tp); __CPROVER_assert(0, "SENTINEL reachable after schedule"); }
#endif
#ifdef CV_HAS_sch_cancel_e_U
void h_cancel_e(void)       { SPB *r; SCHED *s; cv_i8 *id; EPTR *e; sch_cancel_e(r, s, id, e); __CPROVER_assert(0, "SENTINEL reachable after cancel(id, e)"); }
#endif
#ifdef CV_HAS_sch_cancel_U
void h_cancel(void)         { SPB *r; SCHED *s; cv_i8 *id; sch_cancel(r, s, id); __CPROVER_assert(0, "SENTINEL reachable after cancel(id)"); }
#endif
#ifdef CV_HAS_sch_sleep_until_U
void h_sleep_until(void)    { FUT *r; SCHED *s; cv_i64 tp; cv_i8 *id; sch_sleep_until(r, s, tp, id); __CPROVER_assert(0, "SENTINEL reachable after sleep_until"); }
#endif
#ifdef CV_HAS_sch_sleep_for_U
void h_sleep_for(void)      { FUT *r; SCHED *s; cv_i64 d; cv_i8 *id; sch_sleep_for(r, s, d, id); __CPROVER_assert(0, "SENTINEL reachable after sleep_for"); }
#endif
#ifdef CV_HAS_sch_dtor_U
void h_dtor(void)           { SCHED *s; sch_dtor(s); __CPROVER_assert(0, "SENTINEL reachable after ~scheduler"); }
#endif
#ifdef CV_HAS_sch_interval_cb_U
/* the stop-callback lambda of scheduler::interval() (a plain function in the IR): [&]{ ...; this->cancel(&tag); } with everything it calls
 * translated (cancel(id), cancel(id,e), remove, pop_item ...).  It may fire at any time, on any thread that holds no lock, in any state of
 * the scheduler that satisfies the invariant.  Obligations: those of the lock primitive (lib/model_mutex.c), of the vector model, and the
 * assertions below.  No contract is enforced here; the loop of remove() runs under its loop contract. */
void h_interval_stop_cb(void) {
  SCHED *s = malloc(sizeof(*s)); __CPROVER_assume(s != 0);
  cv_i8 tag; struct { SCHED *this_; cv_i8 *tag; } closure = { s, &tag };
  struct vec_model v0; struct pr_model p0; vm = v0; pm = p0;
  cv_exc_pending = 0; gh_lock_depth = 0; gh_lock_held = 0; gh_n_lock = 0; gh_n_unlock = 0; gh_sched_mx = (void *)&s->_mx; gh_sp_flushed = 0;
  __CPROVER_assume(VEC_WF && VEC_HI_T);
  gh_n0 = vec_n; gh_t_in0 = vec_tin;
  if (vec_tin) { gh_t_tp = IT_TP(VEC_T); gh_t_own = IT_OWN(VEC_T); gh_t_id = IT_ID(VEC_T); }
  gh_pr_n_exc = 0; gh_pr_n_dropped = 0; gh_pr_n_val = 0;
  sch_interval_cb((void *)&closure);
  __CPROVER_assert(cv_exc_pending == 0, "stop callback: no exception escapes");
  __CPROVER_assert(gh_lock_depth == 0 && gh_n_lock == gh_n_unlock, "stop callback: every lock taken is released");
  __CPROVER_assert(VEC_WF && VEC_HI_T, "stop callback: scheduler invariant kept");
  __CPROVER_assert(!(TRK_LIVE0 && gh_t_id != &tag) || TRK_SAME, "stop callback: a pending sleep that does not carry the interval's tag is untouched");
  __CPROVER_assert(gh_pr_n_exc <= 1 && gh_pr_n_dropped == 0 && gh_pr_n_val == 0, "stop callback: at most one sleep is cancelled, nothing is dropped or resolved with a value");
  __CPROVER_assert(0, "SENTINEL reachable after the stop callback");
}
#endif
