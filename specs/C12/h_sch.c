/* C12 harnesses (one per unit; selected by goto-cc --function).  Pointer arguments are shaped by the contracts' is_fresh clauses. */
#ifdef CV_HAS_sch_compare_item_U
void h_compare_item(void)   { ITEM *a, *b; sch_compare_item(a, b); __CPROVER_assert(0, "SENTINEL reachable after compare_item"); }
#endif
#ifdef CV_HAS_sch_pop_item_U
void h_pop_item(void)       { SCHED *s; sch_pop_item(s); __CPROVER_assert(0, "SENTINEL reachable after pop_item"); }
#endif
#ifdef CV_HAS_sch_get_expired_lk_U
void h_get_expired_lk(void) { EXPIRED *r; SCHED *s; cv_i64 now; sch_get_expired_lk(r, s, now); __CPROVER_assert(0, "SENTINEL reachable after get_expired_lk"); }
#endif
#ifdef CV_HAS_sch_get_expired_U
void h_get_expired(void)    { EXPIRED *r; SCHED *s; cv_i64 now; sch_get_expired(r, s, now); __CPROVER_assert(0, "SENTINEL reachable after get_expired"); }
#endif
#ifdef CV_HAS_sch_remove_U
void h_remove(void)         { PROM *r; SCHED *s; cv_i8 *id; sch_remove(r, s, id); __CPROVER_assert(0, "SENTINEL reachable after remove"); }
#endif
#ifdef CV_HAS_sch_schedule_U
void h_schedule(void)       { SCHED *s; cv_i8 *id; PROM *p; cv_i64 tp; sch_schedule(s, id, p, tp); __CPROVER_assert(0, "SENTINEL reachable after schedule"); }
#endif
#ifdef CV_HAS_sch_cancel_e_U
void h_cancel_e(void)       { SPB *r; SCHED *s; cv_i8 *id; EPTR *e; sch_cancel_e(r, s, id, e); __CPROVER_assert(0, "SENTINEL reachable after cancel(id, e)"); }
#endif
#ifdef CV_HAS_sch_cancel_U
void h_cancel(void)         { SPB *r; SCHED *s; cv_i8 *id; sch_cancel(r, s, id); __CPROVER_assert(0, "SENTINEL reachable after cancel(id)"); }
#endif
#ifdef CV_HAS_sch_sleep_until_U
void h_sleep_until(void)    { FUT *r; SCHED *s; cv_i64 tp; cv_i8 *id; sch_sleep_until(r, s, tp, id); __CPROVER_assert(0, "SENTINEL reachable after sleep_until"); }
#endif
#ifdef CV_HAS_sch_sleep_for_U
void h_sleep_for(void)      { FUT *r; SCHED *s; cv_i64 d; cv_i8 *id; sch_sleep_for(r, s, d, id); __CPROVER_assert(0, "SENTINEL reachable after sleep_for"); }
#endif
