/* C12 - the remaining forwarders of scheduler::start(...) and interval() (enforced contracts on the real translated bodies, recording stubs for the callees):
 *   start<std::thread&> / start<thread_pool&>   : exactly one start_in(...) with the same scheduler and the same thread / pool (units start_in_thread / start_in_pool).
 *   start<future<int>&>::{lambda(auto)#1}        : the completion callback of start(awaitable).  Unit start_future proves that the run of the scheduler inside start() ends
 *                                                 when the stop source is stopped; THIS unit proves that the callback stops it exactly once ON EVERY PATH (value taken /
 *                                                 the awaitable carried an exception), keeps the value resp. the exception for start() to return / rethrow, and lets nothing
 *                                                 escape (it runs inside a noexcept resumption) - otherwise start(awaitable) would hang with sleepers never served.
 *   start<future<int>&>::{lambda()#1}            : the body run under install_queue_and_call: detaches (= starts) THE worker once and runs it here.
 *   interval(...)::{lambda()#2}                  : every sleep of the interval generator is scheduled on THIS scheduler, for the current `next`, under the identifier &tag -
 *                                                 the identifier the stop callback {lambda()#1} (unit interval_stop_cb) cancels: cancellation through the stop token hits
 *                                                 exactly the generator's own pending sleep. */
#define SENT(what) __CPROVER_assert(0, "SENTINEL reachable: " what)

#if defined(CV_HAS_sx_start_thr) || defined(CV_HAS_sx_start_pool)
struct sf_model { unsigned n; void *sched, *arg; } sf;
#ifdef CV_HAS_sx_sit
void sx_sit(SCHED *s, THR *t) { sf.n++; sf.sched = s; sf.arg = t; }
#endif
#ifdef CV_HAS_sx_sip
void sx_sip(SCHED *s, TPOOL *p) { sf.n++; sf.sched = s; sf.arg = p; }
#endif
#endif
#ifdef CV_HAS_sx_start_thr
void sx_start_thr(SCHED *this_, THR *awt)
__CPROVER_requires(cv_exc_pending == 0 && sf.n == 0)
__CPROVER_assigns(__CPROVER_object_whole(&sf))
__CPROVER_ensures(cv_exc_pending == 0 && sf.n == 1 && sf.sched == (void *)this_ && sf.arg == (void *)awt)
;
void h_start_thread_fwd(void) { SCHED *s; THR *t; sx_start_thr(s, t); SENT("start(thread) forwarded"); }
#endif
#ifdef CV_HAS_sx_start_pool
void sx_start_pool(SCHED *this_, TPOOL *awt)
__CPROVER_requires(cv_exc_pending == 0 && sf.n == 0)
__CPROVER_assigns(__CPROVER_object_whole(&sf))
__CPROVER_ensures(cv_exc_pending == 0 && sf.n == 1 && sf.sched == (void *)this_ && sf.arg == (void *)awt)
;
void h_start_pool_fwd(void) { SCHED *s; TPOOL *t; sx_start_pool(s, t); SENT("start(pool) forwarded"); }
#endif

/* ---- completion callback of start(awaitable) -------------------------------------------------------------------------------------------------------- */
#ifdef CV_HAS_sx_done_cb
struct dc_model { cv_i1 in_throws; unsigned n_deref, n_emplace, n_stop; void *emplace_on, *stop_on; cv_i32 emplace_val; cv_i8 *excobj; } dc;
char dc_exc[32]; char dc_ti;
#ifdef CV_HAS_sx_ar_deref
/* await_result<int>::operator*(): the value, or rethrows the exception the awaitable was resolved with */
cv_i32 *sx_ar_deref(AWR *a) { dc.n_deref++;
  if (dc.in_throws) { cv_i8 *o = (cv_i8 *)dc_exc + 16; dc.excobj = o; __cxa_throw(o, (cv_i8 *)&dc_ti, 0); return 0; }
  return *(cv_i32 **)a; }
#endif
#ifdef CV_HAS_sx_opt_emplace
cv_i32 *sx_opt_emplace(OPTI *o, cv_i32 *v) { dc.n_emplace++; dc.emplace_on = o; dc.emplace_val = *v; return v; }
#endif
#ifdef CV_HAS_sx_request_stop
cv_i1 sx_request_stop(STOPSRC *s) { dc.n_stop++; dc.stop_on = s; return nondet_bool() ? 1 : 0; }
#endif
cv_i32 gh_x0;
void sx_done_cb(LAMCB *this_, cv_i32 *x)
__CPROVER_requires(cv_exc_pending == 0 && cv_caught_n == 0 && dc.in_throws <= 1 && dc.n_deref == 0 && dc.n_emplace == 0 && dc.n_stop == 0)
__CPROVER_requires(__CPROVER_is_fresh(this_, sizeof(LAMCB)) && __CPROVER_is_fresh(this_->e, sizeof(EPTR)) && this_->e->_M_exception_object == 0 && __CPROVER_is_fresh(x, sizeof(cv_i32)) && gh_x0 == *x)
__CPROVER_assigns(__CPROVER_object_whole(&dc), __CPROVER_object_whole(dc_exc), __CPROVER_object_whole(this_->e), cv_exc_pending, cv_exc_obj, cv_exc_tinfo, cv_caught_n, __CPROVER_object_whole(cv_caught_obj), __CPROVER_object_whole(cv_caught_ti), gh_ep_addref, gh_ep_release)
__CPROVER_ensures(cv_exc_pending == 0 && cv_caught_n == 0)                                                          /* nothing escapes, no handler left open */
__CPROVER_ensures(dc.n_stop == 1 && dc.stop_on == (void *)this_->stps)                                              /* EVERY path stops the scheduler run of start(), once, on start()'s stop source */
__CPROVER_ensures(!dc.in_throws ==> (dc.n_emplace == 1 && dc.emplace_on == (void *)this_->ret && dc.emplace_val == gh_x0 && this_->e->_M_exception_object == 0))   /* value kept for start() to return */
__CPROVER_ensures(dc.in_throws ==> (dc.n_emplace == 0 && this_->e->_M_exception_object == dc.excobj && dc.excobj != 0))   /* exception kept for start() to rethrow */
;
void h_start_done_cb(void) { LAMCB *l; cv_i32 *x; sx_done_cb(l, x); if (dc.in_throws) SENT("start(awaitable) completion callback: awaitable failed"); else SENT("start(awaitable) completion callback: value"); }
#endif

/* ---- [&]{ worker.detach(); } --------------------------------------------------------------------------------------------------------------------------- */
#ifdef CV_HAS_sx_run_lam
struct rl_model { unsigned n_detach, n_spv_dtor; void *detach_on; cv_i32 dtor_cf; } rl;
#ifdef CV_HAS_sx_detach
void sx_detach(SP *ret, ASY *a) { rl.n_detach++; rl.detach_on = a; ret->_count_flag = 2; }            /* hands back the started coroutine */
#endif
#ifdef CV_HAS_sx_spv_dtor
void sx_spv_dtor(SP *s) { rl.n_spv_dtor++; rl.dtor_cf = s->_count_flag; }                             /* resumes it: the worker runs here */
#endif
void sx_run_lam(LAMRUN *this_)
__CPROVER_requires(cv_exc_pending == 0 && rl.n_detach == 0 && rl.n_spv_dtor == 0 && __CPROVER_is_fresh(this_, sizeof(LAMRUN)))
__CPROVER_assigns(__CPROVER_object_whole(&rl))
__CPROVER_ensures(cv_exc_pending == 0 && rl.n_detach == 1 && rl.detach_on == (void *)this_->worker && rl.n_spv_dtor == 1 && rl.dtor_cf == 2)
;
void h_start_run_lambda(void) { LAMRUN *l; sx_run_lam(l); SENT("start(awaitable): worker detached and run"); }
#endif

/* ---- interval(): [&]{ return this->sleep_until(next, &tag); } ---------------------------------------------------------------------------------------- */
#ifdef CV_HAS_sx_ivl_sleep
struct is_model { unsigned n; void *ret, *sched; cv_i64 tp; cv_i8 *id; } is;
#ifdef CV_HAS_sx_sleep_until
void sx_sleep_until(FUT *ret, SCHED *s, cv_i64 tp, cv_i8 *id) { is.n++; is.ret = ret; is.sched = s; is.tp = tp; is.id = id; }
#endif
void sx_ivl_sleep(FUT *ret, LAMSL *this_)
__CPROVER_requires(cv_exc_pending == 0 && is.n == 0 && __CPROVER_is_fresh(this_, sizeof(LAMSL)) && __CPROVER_is_fresh(this_->next, sizeof(cv_i64)))
__CPROVER_assigns(__CPROVER_object_whole(&is))
__CPROVER_ensures(cv_exc_pending == 0 && is.n == 1 && is.ret == (void *)ret && is.sched == (void *)this_->this)        /* one sleep, on this scheduler, the future the generator awaits */
__CPROVER_ensures(is.tp == *(cv_i64 *)this_->next && is.id == this_->tag)                                          /* for `next`, under the identifier the stop callback cancels */
;
void h_interval_sleep_lambda(void) { FUT *r; LAMSL *l; sx_ivl_sleep(r, l); SENT("interval(): sleep scheduled under &tag"); }
#endif
