/* C12 - start-up of thread mode and thread-pool mode: scheduler::start_in(std::thread&), start_in(thread_pool&) and their lambdas.  Forwarder style: enforced
 * contracts on the real translated bodies; std::optional<GlobState>, std::thread, stop_source / stop_token, future<void> / promise<void>, the worker_coro ramp,
 * async<void>::start and thread_pool::resume are recording stubs.  What the property needs from the start-up (the worker itself: units worker_step*, the
 * destructor: unit dtor): exactly ONE worker coroutine is created, for THIS scheduler, listening to the stop source of _glob_state (so that ~scheduler's
 * request_stop() reaches it), started exactly once with THE promise of _glob_state->_fut (so that ~scheduler's wait() ends exactly when the worker ended, and not
 * before: the promise has one owner all the way and is neither dropped nor resolved by the start-up), in thread-pool mode handed to THE pool exactly once (not run on
 * the calling thread); a scheduler that is already started is left alone (no second worker, no second future). */
#define SENT(what) __CPROVER_assert(0, "SENTINEL reachable: " what)
#define PR_OWN(p) (*(void **)&(p)->_owner)
GLOBST *gh_gs;                                    /* the payload of _glob_state (allocated by the harness) */
struct st_model {
  cv_i1 engaged; unsigned n_emplace, n_arrow_disengaged; void *opt_on;
  unsigned n_get_promise; void *get_promise_on; unsigned n_pr_dropped; void *pr_dropped;
  unsigned n_thr_ctor; void *thr_closure_this, *thr_closure_own; unsigned n_thr_assign; void *thr_assign_dst; unsigned n_thr_dtor;
  unsigned n_get_token; void *get_token_on; unsigned n_ramp; void *ramp_this; cv_i1 ramp_tok_ok; unsigned n_start; void *start_async, *start_prom, *start_own; unsigned n_as_dtor, n_tok_dtor, n_spb_dtor;
  unsigned n_shift; void *shift_on, *shift_this, *shift_pool; unsigned n_fctor; void *fctor_on, *fctor_this, *fctor_pool;
  unsigned n_pool_resume; void *pool_resume_pool; cv_i32 pool_resume_cf; cv_i8 *pool_resume_h;
} st;
#define ST_ZERO (st.n_emplace == 0 && st.n_arrow_disengaged == 0 && st.n_get_promise == 0 && st.n_pr_dropped == 0 && st.n_thr_ctor == 0 && st.n_thr_assign == 0 && st.n_thr_dtor == 0 && st.n_get_token == 0 && \
                 st.n_ramp == 0 && st.n_start == 0 && st.n_as_dtor == 0 && st.n_tok_dtor == 0 && st.n_spb_dtor == 0 && st.n_shift == 0 && st.n_fctor == 0 && st.n_pool_resume == 0 && st.engaged <= 1)
#define TOK_MAGIC ((void *)(cv_i64)0x70c)          /* content of a token obtained from the stop source of gh_gs */
#define TOK_WORD(t) (*(void **)(t))
#define CORO_MAGIC ((cv_i8 *)(cv_i64)0xc020)       /* the worker coroutine the ramp created */

#ifdef CV_HAS_o_has_value
cv_i1 o_has_value(OPTGS *o) { st.opt_on = o; return st.engaged; }
#endif
#ifdef CV_HAS_o_emplace
GLOBST *o_emplace(OPTGS *o) { st.opt_on = o; st.n_emplace++; st.engaged = 1; gh_gs->_pool = 0; return gh_gs; }      /* GlobState(): unit globstate_ctor */
#endif
#ifdef CV_HAS_o_arrow
GLOBST *o_arrow(OPTGS *o) { st.opt_on = o; if (!st.engaged) st.n_arrow_disengaged++; return gh_gs; }
#endif
#ifdef CV_HAS_f_get_promise
void f_get_promise(PROM *ret, FUT *f) { st.n_get_promise++; st.get_promise_on = f; PR_OWN(ret) = f; }
#endif
#ifdef CV_HAS_p_move
void p_move(PROM *this_, PROM *o) { void *m = PR_OWN(o); PR_OWN(o) = 0; PR_OWN(this_) = m; }
#endif
#ifdef CV_HAS_p_dtor
void p_dtor(PROM *p) { void *m = PR_OWN(p); if (m) { st.n_pr_dropped++; st.pr_dropped = m; } }      /* a live promise dropped = the future completes without a value (C01) */
#endif
#ifdef CV_HAS_t_ctor
/* std::thread(F&&): decay-copies (moves) the callable into the new thread's state; the thread may run it at once */
void t_ctor(THR *t, LAMT *f) { st.n_thr_ctor++; st.thr_closure_this = f->this; st.thr_closure_own = PR_OWN(&f->promise); PR_OWN(&f->promise) = 0; t->_M_id._M_thread = 1; }
#endif
#ifdef CV_HAS_t_assign
THR *t_assign(THR *dst, THR *src) { st.n_thr_assign++; st.thr_assign_dst = dst; dst->_M_id._M_thread = src->_M_id._M_thread; src->_M_id._M_thread = 0; return dst; }
#endif
#ifdef CV_HAS_t_dtor
void t_dtor(THR *t) { __CPROVER_assert(t->_M_id._M_thread == 0, "std::thread destroyed while joinable (std::terminate)"); st.n_thr_dtor++; }
#endif
#ifdef CV_HAS_ss_get_token
void ss_get_token(STOPTOK *ret, STOPSRC *s) { st.n_get_token++; st.get_token_on = s; TOK_WORD(ret) = TOK_MAGIC; }
#endif
#ifdef CV_HAS_tok_dtor
void tok_dtor(STOPTOK *t) { st.n_tok_dtor++; }
#endif
#if defined(CV_HAS_wk_ramp_f) || defined(CV_HAS_wk_ramp_t)
static void wk_ramp_any(ASY *ret, SCHED *s, STOPTOK *tok) { st.n_ramp++; st.ramp_this = s; st.ramp_tok_ok = (TOK_WORD(tok) == TOK_MAGIC); ret->_h._M_fr_ptr = CORO_MAGIC; }
#ifdef CV_HAS_wk_ramp_f
void wk_ramp_f(ASY *ret, SCHED *s, STOPTOK *tok) { wk_ramp_any(ret, s, tok); }
#endif
#ifdef CV_HAS_wk_ramp_t
void wk_ramp_t(ASY *ret, SCHED *s, STOPTOK *tok) { wk_ramp_any(ret, s, tok); }
#endif
#endif
#ifdef CV_HAS_as_start
/* async<void>::start(promise&): the coroutine claims the promise (it resolves it when it ends) and is handed back ready to run */
void as_start(SPB *ret, ASY *a, PROM *p) { st.n_start++; st.start_async = a->_h._M_fr_ptr; st.start_prom = p; st.start_own = PR_OWN(p); PR_OWN(p) = 0; a->_h._M_fr_ptr = 0;
  ret->base_suspend_point._count_flag = 2; ret->base_suspend_point.f0.f0._handles[0] = CORO_MAGIC; ret->value = 1; }
#endif
#ifdef CV_HAS_as_dtor
void as_dtor(ASY *a) { st.n_as_dtor++; __CPROVER_assert(a->_h._M_fr_ptr == 0, "the worker coroutine is destroyed un-started"); }
#endif
#ifdef CV_HAS_spb_dtor
void spb_dtor(SPB *s) { st.n_spb_dtor++; }       /* resumes what it holds: in thread mode that RUNS the worker on the new thread */
#endif
#if defined(CV_HAS_f_shift) && !defined(ST_ENFORCE_F_SHIFT)
FUT *f_shift(FUT *f, LAMP *fn) { st.n_shift++; st.shift_on = f; st.shift_this = fn->this; st.shift_pool = fn->pool; return f; }     /* future << fn : fn() is evaluated and its result bound to f */
#endif
#if defined(CV_HAS_f_ctor_inner) && !defined(ST_ENFORCE_F_CTOR)
void f_ctor_inner(FUT *this_, LAMPI *fn) { st.n_fctor++; st.fctor_on = this_; st.fctor_this = fn->this; st.fctor_pool = fn->pool; }   /* future(fn): fn(promise of this future) */
#endif
#ifdef CV_HAS_tp_resume_b
cv_i1 tp_resume_b(TPOOL *p, SPB *sp) { st.n_pool_resume++; st.pool_resume_pool = p; st.pool_resume_cf = sp->base_suspend_point._count_flag; st.pool_resume_h = sp->base_suspend_point.f0.f0._handles[0];
  sp->base_suspend_point._count_flag = 0; return sp->value; }
#endif

/* ---- start_in(std::thread&) -------------------------------------------------------------------------------------------------------------------- */
#ifdef CV_HAS_sit
cv_i1 gh_started0;
void sit(SCHED *this_, THR *thr)
__CPROVER_requires(cv_exc_pending == 0 && ST_ZERO && gh_started0 == st.engaged && __CPROVER_is_fresh(this_, sizeof(SCHED)) && __CPROVER_is_fresh(thr, sizeof(THR)) && thr->_M_id._M_thread == 0)
__CPROVER_assigns(__CPROVER_object_whole(&st), __CPROVER_object_whole(gh_gs), __CPROVER_object_whole(thr))
__CPROVER_ensures(cv_exc_pending == 0 && st.opt_on == (void *)&this_->_glob_state && st.n_arrow_disengaged == 0)
__CPROVER_ensures(gh_started0 ==> (st.n_emplace == 0 && st.n_thr_ctor == 0 && st.n_get_promise == 0 && st.n_thr_assign == 0))          /* already started: left alone */
__CPROVER_ensures(!gh_started0 ==> (st.n_emplace == 1 && st.engaged == 1))                                                             /* worker state created once */
__CPROVER_ensures(!gh_started0 ==> (st.n_thr_ctor == 1 && st.thr_closure_this == (void *)this_ && st.n_thr_assign == 1 && st.thr_assign_dst == (void *)thr && thr->_M_id._M_thread != 0))   /* one thread, for this scheduler, handed to the caller */
__CPROVER_ensures(!gh_started0 ==> (st.n_get_promise == 1 && st.get_promise_on == (void *)&gh_gs->_fut && st.thr_closure_own == (void *)&gh_gs->_fut))   /* it owns THE promise of _glob_state->_fut */
__CPROVER_ensures(st.n_pr_dropped == 0)                                                                                                 /* which is not dropped on the way (else ~scheduler would not wait for the worker) */
;
void h_start_in_thread(void) { gh_gs = malloc(sizeof(GLOBST)); __CPROVER_assume(gh_gs != 0); SCHED *s; THR *t; sit(s, t);
  if (gh_started0) SENT("start_in(thread): already started"); else SENT("start_in(thread): worker thread created"); }
#endif

/* ---- the thread body  [this, promise]{ worker_coro<false>(_glob_state->_stp.get_token()).start(promise); } ---------------------------------------- */
#ifdef CV_HAS_sit_body
void *gh_own0;
void sit_body(LAMT *this_)
__CPROVER_requires(cv_exc_pending == 0 && ST_ZERO && st.engaged == 1 && __CPROVER_is_fresh(this_, sizeof(LAMT)) && gh_own0 == PR_OWN(&this_->promise) && gh_own0 != 0)
__CPROVER_assigns(__CPROVER_object_whole(&st), __CPROVER_object_whole(this_))
__CPROVER_ensures(cv_exc_pending == 0 && st.opt_on == (void *)&this_->this->_glob_state)
__CPROVER_ensures(st.n_get_token == 1 && st.get_token_on == (void *)&gh_gs->_stp)                                                      /* listens to THE stop source ~scheduler uses */
__CPROVER_ensures(st.n_ramp == 1 && st.ramp_this == (void *)this_->this && st.ramp_tok_ok)                                             /* one worker, for the captured scheduler, with that token */
__CPROVER_ensures(st.n_start == 1 && st.start_async == (void *)CORO_MAGIC && st.start_prom == (void *)&this_->promise && st.start_own == gh_own0)   /* started once, with the captured promise */
__CPROVER_ensures(st.n_spb_dtor == 1 && st.n_pr_dropped == 0)                                                                         /* and run here (the returned suspend point is released on this thread) */
;
void h_start_in_thread_body(void) { gh_gs = malloc(sizeof(GLOBST)); __CPROVER_assume(gh_gs != 0); LAMT *l; sit_body(l); SENT("thread body ran the worker"); }
#endif

/* ---- start_in(thread_pool&) ------------------------------------------------------------------------------------------------------------------------ */
#ifdef CV_HAS_sip
cv_i1 gh_started0;
void sip(SCHED *this_, TPOOL *pool)
__CPROVER_requires(cv_exc_pending == 0 && ST_ZERO && gh_started0 == st.engaged && __CPROVER_is_fresh(this_, sizeof(SCHED)))
__CPROVER_assigns(__CPROVER_object_whole(&st), __CPROVER_object_whole(gh_gs))
__CPROVER_ensures(cv_exc_pending == 0 && st.opt_on == (void *)&this_->_glob_state && st.n_arrow_disengaged == 0)
__CPROVER_ensures(gh_started0 ==> (st.n_emplace == 0 && st.n_shift == 0))                                                              /* already started: left alone */
__CPROVER_ensures(!gh_started0 ==> (st.n_emplace == 1 && st.engaged == 1 && gh_gs->_pool == pool))                                     /* worker state created once, the pool recorded (the worker tests it) */
__CPROVER_ensures(!gh_started0 ==> (st.n_shift == 1 && st.shift_on == (void *)&gh_gs->_fut && st.shift_this == (void *)this_ && st.shift_pool == (void *)pool))   /* _glob_state->_fut bound once to the start of a worker of this scheduler in this pool */
;
void h_start_in_pool(void) { gh_gs = malloc(sizeof(GLOBST)); __CPROVER_assume(gh_gs != 0); SCHED *s; TPOOL *p; sip(s, p);
  if (gh_started0) SENT("start_in(pool): already started"); else SENT("start_in(pool): worker start bound to the future"); }
#endif
#ifdef CV_HAS_sip_body
void sip_body(FUT *ret, LAMP *this_)
__CPROVER_requires(cv_exc_pending == 0 && ST_ZERO && __CPROVER_is_fresh(this_, sizeof(LAMP)))
__CPROVER_assigns(__CPROVER_object_whole(&st))
__CPROVER_ensures(cv_exc_pending == 0 && st.n_fctor == 1 && st.fctor_on == (void *)ret && st.fctor_this == (void *)this_->this && st.fctor_pool == (void *)this_->pool)   /* the returned future is built from the inner start-up, same scheduler, same pool */
;
void h_start_in_pool_body(void) { gh_gs = malloc(sizeof(GLOBST)); __CPROVER_assume(gh_gs != 0); FUT *r; LAMP *l; sip_body(r, l); SENT("start_in(pool): outer lambda"); }
#endif
#ifdef CV_HAS_sip_inner
void *gh_own0;
void sip_inner(LAMPI *this_, PROM *promise)
__CPROVER_requires(cv_exc_pending == 0 && ST_ZERO && st.engaged == 1 && __CPROVER_is_fresh(this_, sizeof(LAMPI)) && __CPROVER_is_fresh(promise, sizeof(PROM)) && gh_own0 == PR_OWN(promise) && gh_own0 != 0)
__CPROVER_assigns(__CPROVER_object_whole(&st), __CPROVER_object_whole(promise))
__CPROVER_ensures(cv_exc_pending == 0 && st.opt_on == (void *)&this_->this->_glob_state)
__CPROVER_ensures(st.n_get_token == 1 && st.get_token_on == (void *)&gh_gs->_stp)                                                      /* listens to THE stop source ~scheduler uses */
__CPROVER_ensures(st.n_ramp == 1 && st.ramp_this == (void *)this_->this && st.ramp_tok_ok)                                             /* one worker, for the captured scheduler, with that token */
__CPROVER_ensures(st.n_start == 1 && st.start_async == (void *)CORO_MAGIC && st.start_prom == (void *)promise && st.start_own == gh_own0)   /* started once with the promise of the future */
__CPROVER_ensures(st.n_pool_resume == 1 && st.pool_resume_pool == (void *)this_->pool && st.pool_resume_cf == 2 && st.pool_resume_h == CORO_MAGIC)   /* handed to THE pool exactly once: runs on a pool thread, not here */
;
void h_start_in_pool_inner(void) { gh_gs = malloc(sizeof(GLOBST)); __CPROVER_assume(gh_gs != 0); LAMPI *l; PROM *p; sip_inner(l, p); SENT("start_in(pool): worker handed to the pool"); }
#endif

/* ---- future.h templates instantiated with the scheduler's lambdas ------------------------------------------------------------------------------------ */
#ifdef ST_ENFORCE_F_SHIFT
/* future<void>::operator<<(fn) -> result_of(fn): destroys the old future and constructs the result of fn() IN PLACE: fn is evaluated exactly once */
struct fs_model { unsigned n_dtor, n_body, n_fctor; void *dtor_on, *body_ret, *body_closure; unsigned body_at; } fs;
#ifdef CV_HAS_sip_body
void sip_body(FUT *ret, LAMP *cl) { fs.n_body++; fs.body_ret = ret; fs.body_closure = cl; fs.body_at = fs.n_dtor; }
#endif
#ifdef CV_HAS_fv_dtor
void fv_dtor(FUT *f) { fs.n_dtor++; fs.dtor_on = f; }
#endif
#ifdef CV_HAS_fv_ctor
void fv_ctor(FUT *f) { fs.n_fctor++; }
#endif
FUT *f_shift(FUT *this_, LAMP *fn)
__CPROVER_requires(cv_exc_pending == 0 && cv_caught_n == 0 && fs.n_dtor == 0 && fs.n_body == 0 && fs.n_fctor == 0 && st.n_pr_dropped == 0)
__CPROVER_assigns(__CPROVER_object_whole(&fs))
__CPROVER_ensures(cv_exc_pending == 0 && __CPROVER_return_value == this_)
__CPROVER_ensures(fs.n_body == 1 && fs.body_closure == (void *)fn && fs.body_ret == (void *)this_)                  /* the callable is evaluated exactly once; its future is constructed in place */
__CPROVER_ensures(fs.n_dtor == 1 && fs.dtor_on == (void *)this_ && fs.body_at == 1 && fs.n_fctor == 0)              /* after the old (never awaited) future was destroyed once */
;
void h_fut_shift_pool(void) { gh_gs = malloc(sizeof(GLOBST)); __CPROVER_assume(gh_gs != 0); FUT *f; LAMP *l; f_shift(f, l); SENT("future << start-up closure"); }
#endif
#ifdef ST_ENFORCE_F_CTOR
/* future<void>::future(fn) [fn invocable with promise<void>]: fn(promise(*this)) exactly once; the promise handed over is THE promise of this future */
struct fc_model { unsigned n_inner, n_pctor; void *inner_closure, *inner_own, *pctor_fut; } fc;
#ifdef CV_HAS_sip_inner
void sip_inner(LAMPI *cl, PROM *p) { fc.n_inner++; fc.inner_closure = cl; fc.inner_own = PR_OWN(p); PR_OWN(p) = 0; }     /* takes the promise (unit start_in_pool_inner) */
#endif
#ifdef CV_HAS_p_ctor_fut
void p_ctor_fut(PROM *p, FUT *f) { fc.n_pctor++; fc.pctor_fut = f; PR_OWN(p) = f; }
#endif
void f_ctor_inner(FUT *this_, LAMPI *fn)
__CPROVER_requires(cv_exc_pending == 0 && fc.n_inner == 0 && fc.n_pctor == 0 && st.n_pr_dropped == 0 && __CPROVER_is_fresh(this_, sizeof(FUT)))
__CPROVER_assigns(__CPROVER_object_whole(&fc), __CPROVER_object_whole(&st), __CPROVER_object_whole(this_))
__CPROVER_ensures(cv_exc_pending == 0 && fc.n_inner == 1 && fc.inner_closure == (void *)fn && fc.inner_own == (void *)this_)     /* once, with the promise of THIS future */
__CPROVER_ensures(fc.n_pctor == 1 && st.n_pr_dropped == 0)                                                                     /* one promise, not dropped behind the callable's back */
;
void h_fut_ctor_inner(void) { gh_gs = malloc(sizeof(GLOBST)); __CPROVER_assume(gh_gs != 0); FUT *f; LAMPI *l; f_ctor_inner(f, l); SENT("future(start-up callable)"); }
#endif
#ifdef CV_HAS_sit_lam_move
void *gh_own0;
void sit_lam_move(LAMT *this_, LAMT *other)
__CPROVER_requires(cv_exc_pending == 0 && st.n_pr_dropped == 0 && __CPROVER_is_fresh(this_, sizeof(LAMT)) && __CPROVER_is_fresh(other, sizeof(LAMT)) && gh_own0 == PR_OWN(&other->promise))
__CPROVER_assigns(__CPROVER_object_whole(this_), __CPROVER_object_whole(other))
__CPROVER_ensures(cv_exc_pending == 0 && this_->this == other->this && other->this == __CPROVER_old(other->this))             /* same scheduler */
__CPROVER_ensures(PR_OWN(&this_->promise) == gh_own0 && PR_OWN(&other->promise) == 0 && st.n_pr_dropped == 0)                /* the promise travels: exactly one owner, not dropped */
;
void h_start_in_thread_closure_move(void) { gh_gs = malloc(sizeof(GLOBST)); __CPROVER_assume(gh_gs != 0); LAMT *a, *b; sit_lam_move(a, b); SENT("thread closure moved"); }
#endif
