/* C12 - worker side of cocls::scheduler (src/cocls/scheduler.h): worker_coro<have_pool>, its stop-callback lambda, its std::visit visitor, start<Awt>.
 * Included after specs/C12/sch_spec.h (vocabulary SCH_LOCKED..., promise model, std::mutex primitive, notify_all stub with the handshake hook).
 *
 * Clauses of the property statement decided here (quantifier: "... in single-thread start(awaitable) mode ... and in thread / thread-pool mode"):
 *   "no crash or hang", "sleeps still pending when the scheduler is destroyed are cancelled rather than left hanging"
 *        => the worker must terminate once its stop is requested (~scheduler joins it BEFORE the pending promises are dropped; start(awaitable) returns
 *           only when it finishes).  Rely/guarantee reading of the condition-variable handshake on (_mx, _cond):
 *             notifier (unit worker_stop_cb*): a state change that is not made under _mx (the stop flag) is followed by a passage through _mx
 *                                              before notify_all();
 *             waiter   (unit worker_step*)   : the flag is tested, found clear, and the wait entered within ONE critical section of _mx; after every
 *                                              wake-up the flag is tested again before anything else blocks; the loop is left when it is set.
 *           Both together exclude the lost wake-up (argued: standard monitor reasoning; each half is machine-checked).
 *   "when the scheduling thread is otherwise idle a sleeper is woken at its time point rather than later"
 *        => the wait's deadline is exactly the earliest time point get_expired_lk() reported in the critical section the wait releases, computed from a
 *           clock reading taken after the last wake-up.
 *   "sleepers complete ... each exactly once" => the promise get_expired_lk() hands out is resolved (once), not dropped.
 *   "cancel ... no crash or hang", for EVERY history of schedule/sleep/cancel/remove calls, whoever makes them
 *        => no user code runs while _mx is held: a sleeper's promise is resolved outside _mx (a promise with a callback awaiter runs its completion
 *           callback synchronously inside the resolution; the class comment of scheduler says "the scheduling is not limited to coroutines, you can
 *           actually schedule anything"; a callback that calls cancel/remove/schedule/sleep_* of this scheduler would lock _mx again).
 *
 * Unit worker_step* executes ONE resumption of the real lowered coroutine body (clang's [clone .resume] function) from an arbitrary state that
 * satisfies the suspension invariant - this is the inductive step for "every iteration of the worker loop", not a bounded run.  Everything the body
 * calls outside scheduler.h is an abstract callee below (stated per stub).  std::visit is modelled as the dispatch on the variant index to the REAL
 * translated visitor lambda instances. */

#ifdef CV_HAS_wk_resume_U
typedef struct S_struct_std__chrono__time_point WKTP;
cv_s64 nondet_s64(void);
SCHED *gh_wk_sched; WKFRAME *gh_wk_frame; STOPTOK *gh_wk_tok;       /* the scheduler served, the coroutine frame, the worker's own stop token (assigned by the harness) */
unsigned gh_ev;                                                     /* event counter (orders the abstract callees' invocations) */
/* stop flag: an atomic in the shared stop state, NOT guarded by _mx; monotone; another thread may set it at any time */
cv_i1 gh_stop_flag; unsigned gh_n_stoptest; unsigned gh_stoptest_cs; cv_i1 gh_stoptest_locked; cv_i1 gh_stoptest_last;
static void wk_env_stop(void) { if (!gh_stop_flag && nondet_bool()) gh_stop_flag = 1; }
/* ghost clock */
cv_s64 gh_clock; unsigned gh_n_now; cv_s64 gh_last_now; unsigned gh_now_ev;
static void wk_env_time(void) { cv_s64 t = nondet_s64(); __CPROVER_assume(t >= gh_clock); gh_clock = t; }
/* get_expired_lk / wait_until / bookkeeping */
unsigned gh_n_ge; unsigned gh_ge_cs; cv_i8 gh_ge_idx; cv_s64 gh_ge_time; void *gh_ge_own;
unsigned gh_n_wait; unsigned gh_wait_ev; cv_i1 gh_can_block_v;
unsigned gh_n_cb_reg, gh_n_cb_unreg, gh_n_pause, gh_n_return_void, gh_n_final, gh_n_resolved;

/* std::stop_callback<lambda>(token, lambda): registers the callback; when the stop has already been requested the constructor runs it on the spot, on this thread */
#ifdef CV_HAS_wk_stopcb_ctor
void wk_stopcb_ctor(WKSCB *cb, STOPTOK *tok, WKCB *cl) {
  __CPROVER_assert(tok == gh_wk_tok && cl->this == gh_wk_sched, "worker: the stop callback is registered on the worker's own token and refers to this scheduler");
  gh_n_cb_reg++; wk_env_stop();
  if (gh_stop_flag) wk_stop_cb(cl); }
#endif
/* ~stop_callback: deregisters; BLOCKS until an invocation of the callback running on another thread has returned - that invocation may need _mx */
#ifdef CV_HAS_wk_stopcb_dtor
void wk_stopcb_dtor(WKSCB *cb) {
  __CPROVER_assert(gh_lock_depth == 0, "worker: ~stop_callback (waits for a running stop callback, which may need _mx) is not reached with _mx held");
  gh_n_cb_unreg++; }
#endif
#ifdef CV_HAS_wk_stoptok_dtor
void wk_stoptok_dtor(STOPTOK *t) { }
#endif
/* stop_token::stop_requested(): reads the flag; a test that finds it clear is remembered together with the critical section it was made in */
#ifdef CV_HAS_wk_stop_requested
cv_i1 wk_stop_requested(STOPTOK *t) {
  __CPROVER_assert(t == gh_wk_tok, "worker: tests its own stop token");
  wk_env_stop(); gh_ev++; gh_n_stoptest++; gh_stoptest_last = gh_stop_flag;
  if (!gh_stop_flag) { gh_stoptest_cs = gh_n_lock; gh_stoptest_locked = SCH_LOCKED ? 1 : 0; }
  return gh_stop_flag; }
#endif
#ifdef CV_HAS_wk_now
cv_i64 wk_now(void) { wk_env_time(); gh_ev++; gh_n_now++; gh_last_now = gh_clock; gh_now_ev = gh_ev; return (cv_i64)gh_clock; }
#endif
/* get_expired_lk(now): abstract callee (its own behaviour is the subject of unit get_expired_lk): needs _mx; returns either a live promise that is due or
 * the earliest time point, which is not due (> now), max() when nothing is scheduled */
#ifdef CV_HAS_wk_get_expired_lk
void wk_get_expired_lk(EXPIRED *ret, SCHED *this_, cv_i64 now) {
  __CPROVER_assert(this_ == gh_wk_sched && SCH_LOCKED, "lock discipline: get_expired_lk() is called with _mx held");
  __CPROVER_assert(gh_n_now > 0 && (cv_s64)now == gh_last_now && gh_now_ev > gh_wait_ev, "never early / not later: the time passed to get_expired_lk() is a clock reading taken after the last wake-up");
  gh_ev++; gh_n_ge++; gh_ge_cs = gh_n_lock;
  if (nondet_bool()) { void *o = (void *)nondet_ptr(); __CPROVER_assume(o != 0); gh_ge_idx = 1; gh_ge_own = o; gh_ge_time = 0; *(void **)ret = o; ((cv_i8 *)ret)[8] = 1; }
  else { cv_s64 t = nondet_s64(); __CPROVER_assume(t > (cv_s64)now); gh_ge_idx = 0; gh_ge_own = 0; gh_ge_time = t; *(cv_s64 *)ret = t; ((cv_i8 *)ret)[8] = 0; } }
#endif
/* std::visit(visitor, variant&) = call of the visitor instance selected by the variant index (model of the libstdc++ jump table); the visitor
 * instances are the REAL translated lambda bodies of worker_coro */
#ifdef CV_HAS_wk_visit
void wk_visit(WKVIS *vis, EXPIRED *v) {
  if (((cv_i8 *)v)[8] == 0) wk_visit_time(vis, (WKTP *)v); else wk_visit_promise(vis, (PROM *)v); }
#endif
#ifdef CV_HAS_wk_var_dtor
void wk_var_dtor(EXPIRED *v) { if (((cv_i8 *)v)[8] == 1) _ZN5cocls7promiseIvED2Ev((PROM *)v); }      /* ~variant destroys the active alternative (promise model: a still-owning promise is a DROP) */
#endif
/* promise<void>::operator()(): resolves the sleeper.  A callback awaiter registered on the future runs INSIDE this call, on this thread. */
#ifdef CV_HAS_wk_pr_call
void wk_pr_call(SPB *ret, PROM *p) {
  __CPROVER_assert(gh_lock_depth == 0, "C12 no hang / user code never runs under _mx: a sleeper's promise is resolved outside _mx (its completion callback may call cancel/remove/schedule/sleep of this scheduler, which lock _mx: self-deadlock of the scheduling thread)");
  void *m = PR_OWN(p); PR_OWN(p) = 0; gh_ev++;
  __CPROVER_assert(m != 0 && m == gh_ge_own, "each exactly once: the worker resolves exactly the promise get_expired_lk() handed out");
  if (m) { gh_pr_n_val++; gh_n_resolved++; if (m == gh_W) gh_W_val++; }
  cv_i32 cf = 0; cv_i8 *h = 0; if (m && nondet_bool()) { cf = 2; h = (cv_i8 *)nondet_ptr(); __CPROVER_assume(h != 0); }   /* the awaiting coroutine, if any, is handed back */
  ret->base_suspend_point._count_flag = cf; ret->base_suspend_point.f0.f0._handles[0] = h; ret->value = m ? 1 : 0; }
#endif
#ifdef CV_HAS_wk_spb_dtor
void wk_spb_dtor(SPB *sp) { if (sp->base_suspend_point._count_flag != 0) gh_sp_flushed++; }      /* queues the awaiting coroutine on this thread's ready queue (C05/C06) */
#endif
#ifdef CV_HAS_wk_can_block
cv_i1 wk_can_block(void) { gh_can_block_v = nondet_bool() ? 1 : 0; return gh_can_block_v; }
#endif
/* condition_variable::wait_until(lk, tp): releases _mx, blocks until notified / tp / spuriously, re-acquires _mx: a new critical section begins.
 * Meanwhile other threads run critical sections of _mx (schedule / cancel / remove), may request the stop, and time passes. */
#ifdef CV_HAS_wk_wait_until
cv_i32 wk_wait_until(struct S_class_std__condition_variable *cv, ULOCK *lk, WKTP *tp) {
  __CPROVER_assert(cv == &gh_wk_sched->_cond && SCH_LOCKED && lk->_M_owns == 1 && (void *)lk->_M_device == gh_sched_mx, "worker: wait_until on _cond with _mx held through the lock object passed");
  __CPROVER_assert(gh_n_stoptest > 0 && gh_stoptest_last == 0 && gh_stoptest_locked && gh_stoptest_cs == gh_n_lock,
                   "C12 wait/notify handshake (waiter side): the stop flag was tested, and found clear, in the critical section of _mx that the wait releases (no unlock between the test and the wait)");
  __CPROVER_assert(gh_n_ge > 0 && gh_ge_cs == gh_n_lock && gh_ge_idx == 0 && (cv_s64)tp->__d.__r == gh_ge_time,
                   "woken at its time point: the worker waits until exactly the earliest time point get_expired_lk() reported in the critical section that the wait releases");
  gh_ev++; gh_n_wait++; gh_wait_ev = gh_ev;
  gh_n_unlock++; gh_n_lock++;                     /* released and re-acquired: everything tested before the wait is stale now */
  wk_env_stop(); wk_env_time();
  return nondet_bool() ? 0 : 1; }
#endif
/* co_await pause(): the worker's handle goes to the back of this thread's ready queue and the coroutine at its front runs (symmetric transfer) */
struct { cv_i8 *f0; cv_i8 *f1; } wk_noop_frame;
void wk_noop_resume(cv_i8 *h) { __CPROVER_assert(h == (cv_i8 *)&wk_noop_frame, "transfer target is the handle the abstract callee returned"); }
#define CV_ICALL_EXTRA_v_p(p, a0) if ((p) == (void *)wk_noop_resume) { wk_noop_resume(a0); return; }
#ifdef CV_HAS_wk_pause_suspend
cv_i8 *wk_pause_suspend(struct S_struct_cocls__pause *pa, cv_i8 *h) {
  __CPROVER_assert(h == (cv_i8 *)gh_wk_frame, "pause: the worker queues its own handle");
  __CPROVER_assert(gh_lock_depth == 0, "worker: never suspends with _mx held (the coroutines that run meanwhile on this thread call the scheduler)");
  gh_ev++; gh_n_pause++; return (cv_i8 *)&wk_noop_frame; }
#endif
/* ---- thread-pool mode (worker_coro<true>): the worker re-queues itself in the pool instead of pausing; due sleepers' coroutines are resumed in the pool.
 * Assumption: the pool is not stopped while the scheduler runs in it (co_awaiter::await_resume does not throw). */
#ifdef WK_POOL
WKPOOL *gh_wk_pool; WKGLOBST wk_globst;
#ifdef CV_HAS_wk_opt_has_value
cv_i1 wk_opt_has_value(struct S_class_std__optional *o) { return 1; }                  /* thread-pool mode is entered through start_in(pool), which engages _glob_state first */
#endif
#ifdef CV_HAS_wk_opt_arrow
WKGLOBST *wk_opt_arrow(struct S_class_std__optional *o) { return &wk_globst; }
#endif
#ifdef CV_HAS_wk_pool_suspend
void wk_pool_suspend(struct S_class_cocls__thread_pool__co_awaiter *aw, cv_i8 *h) {
  __CPROVER_assert(aw->_owner == gh_wk_pool && h == (cv_i8 *)gh_wk_frame, "co_await *pool: the worker queues its own handle in its pool");
  __CPROVER_assert(gh_lock_depth == 0, "worker: never suspends with _mx held (it continues on another pool thread; the coroutines that run meanwhile call the scheduler)");
  gh_ev++; gh_n_pause++; }
#endif
#ifdef CV_HAS_wk_pool_await_resume
void wk_pool_await_resume(struct S_class_cocls__thread_pool__co_awaiter *aw) { }
#endif
#ifdef CV_HAS_wk_pool_resume
cv_i1 wk_pool_resume(WKPOOL *pool, SPB *sp) {      /* hands the coroutines of the suspend point to the pool (takes the POOL's mutex, no user code runs here) */
  __CPROVER_assert(pool == gh_wk_pool, "worker: resumes due sleepers in its own pool");
  sp->base_suspend_point._count_flag = 0; return sp->value; }
#endif
#ifdef CV_HAS_wk_pool_any_enqueued
cv_i1 wk_pool_any_enqueued(WKPOOL *pool) { __CPROVER_assert(pool == gh_wk_pool, "worker: asks its own pool"); return nondet_bool() ? 1 : 0; }
#endif
#endif
/* ---- the coroutine machinery of async<void>: ramp side.  The frame is created by the REAL ramp function; these stubs only record where it is. */
#ifdef CV_HAS_wk_stoptok_move
void wk_stoptok_move(STOPTOK *dst, STOPTOK *src) { gh_wk_tok = dst; }          /* the coroutine's copy of its stop_token parameter */
#endif
#ifdef CV_HAS_wk_ap_ctor
void wk_ap_ctor(struct S_class_cocls__async_promise *p) { }
#endif
#ifdef CV_HAS_wk_get_return_object
void wk_get_return_object(WKASYNC *ret, struct S_class_cocls__async_promise *p) { gh_wk_frame = (WKFRAME *)((cv_i8 *)p - __builtin_offsetof(WKFRAME, __promise)); }
#endif
#ifdef CV_HAS_wk_initial_suspend
void wk_initial_suspend(struct S_class_cocls__async_promise *p) { }          /* std::suspend_always: the body starts at the first resumption (detach() / start()) */
#endif
#ifdef CV_HAS_wk_async_dtor
void wk_async_dtor(WKASYNC *a) { }
#endif
/* async_promise<void> of the worker coroutine: completion resolves the future that ~scheduler / start() wait for */
#ifdef CV_HAS_wk_return_void
void wk_return_void(struct S_class_cocls__coro_unified_return *p) { gh_n_return_void++; }
#endif
#ifdef CV_HAS_wk_final_suspend
void wk_final_suspend(struct S_class_cocls__async_promise *p) { }
#endif
#ifdef CV_HAS_wk_final_await_suspend
cv_i8 *wk_final_await_suspend(struct S_struct_cocls__async_promise_void___final_awaiter *a, cv_i8 *h) {
  __CPROVER_assert(h == (cv_i8 *)gh_wk_frame && gh_lock_depth == 0, "worker: completes (resolving the future its owner waits for) without holding _mx");
  gh_n_final++; return (cv_i8 *)&wk_noop_frame; }
#endif
#ifdef CV_HAS_wk_unhandled
void wk_unhandled(struct S_class_cocls__async_promise *p) { __CPROVER_assert(0, "worker: no exception escapes the worker body"); }
#endif
#endif /* CV_HAS_wk_resume_U */

/* ------------------------------------------------------------------ start<Awt>(awt): single-thread start(awaitable) mode (unit start_future, Awt = future<int>&)
 * Forwarder: worker_coro<false> (unit worker_step), callback_await_alloc (C18), coro_queue::install_queue_and_call (C05), std::stop_source, std::optional<int>
 * and the alloca builtin (drivers/c12_alloca_shim.h) are abstract callees that record their invocations.  stack_storage (alloca_storage.h)
 * is translated: its constructor, conversion, assignment and alloc() are the REAL code; the abstract callback_await_alloc creates the coroutine frame of the
 * completion callback through the real stack_storage::alloc() with an arbitrary frame size (with_allocator.h: operator new(sz, storage, ...) = storage.alloc(sz)).
 * From the property statement (start(awaitable) mode): exactly one worker serving THIS scheduler runs on the calling thread; it listens to the stop source
 * that the completion callback of awt stops (otherwise start() never returns: "no ... hang"); the callback is attached to awt before the worker runs; start()
 * returns the awaited value / rethrows the awaited exception; the worker is not run with _mx held.
 * C03 clause (compiled in with CV_CHECK_C03 - property C03 re-runs this unit): scheduler::_elide_state is shared by every thread that runs start() on this
 * scheduler (scheduler.h:219 "it is possible to start scheduler in multiple threads") => it may only be read or written while _mx is held, whether directly
 * (permission macro on cocls::scheduler._elide_state) or through the reference member of a stack_storage bound to it (permission macro on
 * cocls::stack_storage._state: emitted where the reference is used; the first access of a storage object is the constructor binding the reference). */
#ifdef CV_HAS_st_start_U
SCHED *gh_st_sched; void *gh_ss_bound;
#ifdef CV_CHECK_C03
#define C03_ELIDE_TXT "C03-FINDING-elide-state lock discipline: scheduler::_elide_state is shared by all threads that run start() on one scheduler (documented use) - it is read / written only while _mx is held"
#define CV_PERM_SCH_ELIDE(obj) __CPROVER_assert(LOCKED(&(obj)->_mx), C03_ELIDE_TXT " [direct access]")
#define CV_PERM_SS_STATE(obj) do { if (gh_ss_bound != (void *)(obj)) gh_ss_bound = (void *)(obj); \
    else __CPROVER_assert((obj)->_state != &gh_st_sched->_elide_state || LOCKED(&gh_st_sched->_mx), C03_ELIDE_TXT " [access through the stack_storage bound to it]"); } while (0)
#else
#define CV_PERM_SCH_ELIDE(obj)
#define CV_PERM_SS_STATE(obj)
#endif
unsigned gh_st_seq, gh_st_src_at, gh_st_worker_at, gh_st_alloca_at, gh_st_cb_at, gh_st_run_at, gh_st_n_src, gh_st_n_worker, gh_st_n_cb, gh_st_n_run, gh_st_n_src_dtor, gh_st_n_async_dtor;
STOPSRC *gh_st_src; STOPTOK *gh_st_tok; STASYNC *gh_st_worker; STFUT *gh_st_awt; STFN gh_st_fn; STOPT *gh_st_opt;
cv_i64 gh_st_alloca_n; cv_i8 *gh_st_alloca_p; cv_i8 *gh_st_frame;
cv_i1 gh_st_opt_engaged; cv_i32 gh_st_opt_val; cv_i1 gh_st_outcome_exc; void *gh_st_excobj;
#ifdef CV_HAS_st_ss_ctor
void st_ss_ctor(STOPSRC *src) { gh_st_src = src; gh_st_n_src++; gh_st_src_at = ++gh_st_seq; }
#endif
#ifdef CV_HAS_st_ss_dtor
void st_ss_dtor(STOPSRC *src) { if (src == gh_st_src) gh_st_n_src_dtor++; }
#endif
#ifdef CV_HAS_st_get_token
void st_get_token(STOPTOK *ret, STOPSRC *src) { __CPROVER_assert(src == gh_st_src, "start(): the token comes from the local stop source"); gh_st_tok = ret; }
#endif
#ifdef CV_HAS_st_tok_dtor
void st_tok_dtor(STOPTOK *t) { }
#endif
#ifdef CV_HAS_st_worker_ramp
void st_worker_ramp(STASYNC *ret, SCHED *this_, STOPTOK *tok) {
  __CPROVER_assert(this_ == gh_st_sched && tok == gh_st_tok && gh_st_tok != 0, "start(): the worker serves this scheduler and listens to the local stop source");
  gh_st_worker = ret; gh_st_n_worker++; gh_st_worker_at = ++gh_st_seq; }
#endif
#ifdef CV_HAS_st_async_dtor
void st_async_dtor(STASYNC *a) { if (a == gh_st_worker) gh_st_n_async_dtor++; }
#endif
/* the alloca builtin (see drivers/c12_alloca_shim.h): a fresh block of n bytes that lives until start() returns */
cv_i8 *cvx_cv_alloca(cv_i64 n) { __CPROVER_assume(n < (1ul << 16)); cv_i8 *p = malloc(n); __CPROVER_assume(p != 0); gh_st_alloca_n = n; gh_st_alloca_p = p; gh_st_alloca_at = ++gh_st_seq; return p; }
#ifdef CV_HAS_st_cb_await
void st_cb_await(STSTORAGE *storage, STFN *fn, STFUT *awt) {
  __CPROVER_assert(storage->_alloc_ptr == gh_st_alloca_p && (cv_i64)storage->_alloc_size == gh_st_alloca_n && gh_st_alloca_at != 0, "start(): the storage handed to callback_await_alloc owns the alloca block of the size it announced");
  gh_st_fn = *fn; gh_st_awt = awt; gh_st_n_cb++; gh_st_cb_at = ++gh_st_seq;
  cv_i64 sz = nondet_size_t(); __CPROVER_assume(sz < (1ul << 16));
  gh_st_frame = st_ss_alloc(storage, sz);                                    /* REAL stack_storage::alloc: frame of the callback coroutine */
  __CPROVER_assert(gh_st_frame != 0, "stack_storage::alloc returns a block"); }
#endif
/* coro_queue::install_queue_and_call([&]{ worker.detach(); }): the worker runs on this thread until its stop is requested.  Meanwhile awt was resolved and the
 * completion callback ran: it stored the awaited value in `ret` or the awaited exception in `e`, and requested the stop. */
#ifdef CV_HAS_st_run
void st_run(STRUN *cl) {
  __CPROVER_assert(cl->worker == gh_st_worker && gh_st_n_worker == 1, "start(): runs exactly the worker it created");
  __CPROVER_assert(gh_st_n_cb == 1, "start(): the completion callback is attached to awt before the worker runs (no hang)");
  __CPROVER_assert(gh_lock_depth == 0, "start(): the worker (which locks _mx) is not run with _mx held");
  gh_st_n_run++; gh_st_run_at = ++gh_st_seq;
  if (nondet_bool()) { gh_st_outcome_exc = 0; gh_st_opt_engaged = 1; }
  else { gh_st_outcome_exc = 1; gh_st_fn.e->_M_exception_object = gh_st_excobj; } }
#endif
#ifdef CV_HAS_st_opt_ctor
void st_opt_ctor(STOPT *o) { gh_st_opt = o; gh_st_opt_engaged = 0; }
#endif
#ifdef CV_HAS_st_opt_deref
cv_i32 *st_opt_deref(STOPT *o) { __CPROVER_assert(o == gh_st_opt && gh_st_opt_engaged, "std::optional::operator* on an engaged optional"); return &gh_st_opt_val; }
#endif
#endif /* CV_HAS_st_start_U */
