/* C12 - contracts on cocls::scheduler (src/cocls/scheduler.h).
 *
 * Abstract state (under std::mutex _mx): the vector _scheduled in the element view of lib/model_vec_heap.c; an entry is
 * (time point, promise, ident); an entry whose promise is empty (owner word 0) is a TOMBSTONE (already cancelled), every other entry is a
 * pending sleep, identified by the future its promise owns.  Heap order w.r.t. the REAL compare_item: the model's pop_heap/push_heap
 * evaluate the translated comparator; the contracts speak about time points only (property statement):
 *     "the first entry carries the earliest time point":   tp(first) <= tp(x) for every entry x
 * "for every entry" = for the TRACKED entry, an arbitrary-but-fixed entry of the initial vector (snapshot in the logical variables
 * gh_t_*) that the model follows through every permutation (vec_tin: still inside; VEC_T: where).  remove/get_expired/pop_item only take
 * entries out, so every entry of the final vector is an entry of the initial one; schedule adds exactly the new entry (VEC_NW).
 * Promise completions are recorded by lib/model_promise.c (value / exception object / dropped), gh_mv_* is the entry the most recent
 * promise was moved out of.  std::mutex = lib/model_mutex.c (pthread primitives).  condition_variable: notify counted, never blocks. */

/* ------------------------------------------------------------------ vocabulary */
#define IT_TP(x)   ((cv_s64)(x)->_tp.__d.__r)
#define IT_OWN(x)  PR_OWN(&(x)->_p)
#define IT_ID(x)   ((x)->_ident)
#define TP_MAX     ((cv_s64)0x7fffffffffffffffL)
void *gh_sched_mx;                                            /* logical: address of this->_mx                                   */
#define SCH_LOCKED   (gh_lock_depth == 1 && gh_lock_held == gh_sched_mx)
#define SCH_UNLOCKED (gh_lock_depth == 0)
#define SCH_HOLDS    (gh_lock_depth > 0 && gh_lock_held == gh_sched_mx)          /* loop invariants: the lock words are not assigned inside the loops */
cv_s64 gh_t_tp; void *gh_t_own; cv_i8 *gh_t_id; cv_i1 gh_t_in0;   /* logical: the tracked entry at function entry                    */
cv_i64 gh_n0;                                                 /* logical: size at entry                                           */
/* gh_mv_tp / gh_mv_own / gh_mv_id (lib/model_promise.c): the entry the most recent promise was moved out of */
unsigned gh_n_notify;                                         /* condition_variable::notify_all() calls                           */

/* ------------------------------------------------------------------ models of the dependencies */
#define VEC_GUARD(v) __CPROVER_assert(gh_lock_depth > 0 && gh_lock_held == gh_sched_mx, "lock discipline: scheduler::_scheduled is accessed only while _mx is held")
#ifdef CV_HAS_sch_compare_item
#define VEC_COMPARE(a, b) sch_compare_item(a, b)
#define VEC_IS_COMPARATOR(fp) ((fp) == sch_compare_item)
#endif
#ifdef CV_HAS_sch_item_move
#define VEC_ITEM_MOVE(d, s) sch_item_move(d, s)
#endif
#ifdef CV_HAS_sch_item_dtor
#define VEC_ITEM_DTOR(x) sch_item_dtor(x)
#endif
#ifdef CV_HAS_vec_find_pred
#define VEC_FIND_PRED(cl, x) vec_find_pred((void *)(cl), x)
#endif
#ifndef C12_CONCRETE_VEC
#define PR_CONTAINER_RECORD(src) do { if (__CPROVER_same_object(src, &vm)) { ITEM *pr_it = (ITEM *)((cv_i8 *)(src) - __builtin_offsetof(ITEM, _p)); \
      gh_mv_tp = IT_TP(pr_it); gh_mv_own = PR_OWN(src); gh_mv_id = IT_ID(pr_it); } } while (0)
#endif
#ifdef CV_HAS_sch_item_move_assign
#define VEC_ITEM_MOVE_ASSIGN(d, s) sch_item_move_assign(d, s)
#endif
#if defined(C12_CONCRETE_VEC) && defined(C12_VEC_MOVES)
#include "model_vec_heap_moves.c"      /* heap algorithms move entries through the REAL SchItem(SchItem&&) / operator=(SchItem&&) / ~SchItem(), as libstdc++ does */
#elif defined(C12_CONCRETE_VEC)
#include "model_vec_heap_concrete.c"
#else
#include "model_vec_heap.c"
#endif
#include "model_promise.c"
#ifdef C12_VEC_MOVES
/* promise<void>::operator=(promise&&) as proved in unit pr_move_assign: if (this != &other) { set_value(drop); _owner = other.claim(); } */
PROM *_ZN5cocls7promiseIvEaSEOS1_(PROM *this_, PROM *other) {
  if (this_ != other) { void *old = PR_OWN(this_); PR_OWN(this_) = 0; if (old) { gh_pr_n_dropped++; if (old == gh_W) gh_W_dropped++; }
                        void *m = PR_OWN(other); PR_OWN(other) = 0; PR_OWN(this_) = m; }
  return this_; }
#endif
#ifdef CV_HAS_var_from_promise
#include "model_variant_expired.c"
#endif

/* std::condition_variable (external): notify_all wakes the worker; counted.  Construction / destruction: no effect here. */
/* Wait/notify handshake (property: "no ... hang", "sleeps still pending when the scheduler is destroyed are cancelled rather than left hanging",
 * in thread / thread-pool / start(awaitable) mode).  The worker tests its wake-up conditions under _mx and releases _mx only inside wait_until
 * (unit worker_step).  A notifier whose state change is NOT made under _mx (the stop flag: std::stop_source::request_stop() sets it and then runs the
 * callbacks on the requesting thread) must therefore pass through _mx between the state change and notify_all(): otherwise the change may fall between
 * the worker's test and its wait, the notification finds nobody waiting, and the worker sleeps until the next deadline - for ever when nothing is
 * scheduled.  Checked in the units on the worker's stop-callback lambda (worker_stop_cb, worker_stop_cb_pool). */
#ifdef CV_HAS_wk_stop_cb_U
unsigned gh_n_lock_at_change;                                 /* number of lock operations of this thread when the state change (stop flag set) happened */
#define CV_NOTIFY_HANDSHAKE(cv) __CPROVER_assert(gh_n_lock > gh_n_lock_at_change && gh_sched_mx != 0, \
  "C12 wait/notify handshake: the stop flag is set outside _mx, so the stop callback must pass through _mx before notify_all() (a worker between its stop_requested() test under _mx and wait_until otherwise misses the wake-up: ~scheduler() / start(awaitable) hang)")
#else
#define CV_NOTIFY_HANDSHAKE(cv)
#endif
void _ZNSt18condition_variable10notify_allEv(struct S_class_std__condition_variable *cv) { CV_NOTIFY_HANDSHAKE(cv); gh_n_notify++; }
void _ZNSt18condition_variableC1Ev(struct S_class_std__condition_variable *cv) { }
void _ZNSt18condition_variableD1Ev(struct S_class_std__condition_variable *cv) { }
/* a suspend point that is destroyed while it still holds coroutines resumes them on the spot (C05/C06); counted */
unsigned gh_sp_flushed;
#ifdef CV_HAS_sp_dtor
void sp_dtor(SP *this_) { if (this_->_count_flag != 0) gh_sp_flushed++; }
#endif
#ifdef C12_EXC_PRIMS
/* libstdc++ make_exception_ptr: allocate, record the dynamic type in the exception header (same place as __cxa_throw in rt_core.c), wrap */
struct S_struct___cxxabiv1____cxa_refcounted_exception *__cxa_init_primary_exception(cv_i8 *o, struct S_class_std__type_info *ti, void (*d)(cv_i8 *)) { *(void **)(o - CV_EXC_HDR) = (void *)ti; return (struct S_struct___cxxabiv1____cxa_refcounted_exception *)o; }
void _ZNSt15__exception_ptr13exception_ptrC1EPv(struct S_class_std____exception_ptr__exception_ptr *this_, cv_i8 *o) { this_->_M_exception_object = o; }
#endif
void _ZSt20__throw_system_errori(cv_i32 e) { __CPROVER_assert(0, "std::mutex::lock failed (system_error)"); __CPROVER_assume(0); }

/* ------------------------------------------------------------------ invariant of the scheduled vector */
#define VEC_WF      (vec_n < VEC_MAX_N && vec_heap_len == vec_n && vec_tin <= 1 && (vec_tin ==> vec_tpos < vec_n) && vm.bk == 0 && vm.nwin <= 1)
#define VEC_HI_T    ((vec_tin && vec_tpos != 0) ==> IT_TP(VEC_TOP) <= IT_TP(VEC_T))      /* the first entry is the earliest (at the tracked entry) */
#define TRK_SAME    (vec_tin && vec_tpos < vec_n && IT_TP(VEC_T) == gh_t_tp && IT_OWN(VEC_T) == gh_t_own && IT_ID(VEC_T) == gh_t_id)
#define TRK_LIVE0   (gh_t_in0 && gh_t_own != 0)                    /* the tracked entry was a pending sleep at entry */
#define TRK_PIN     (gh_t_in0 == vec_tin && (vec_tin ==> (gh_t_tp == IT_TP(VEC_T) && gh_t_own == IT_OWN(VEC_T) && gh_t_id == IT_ID(VEC_T))))
#define SCH_PRE(this_) (cv_exc_pending == 0 && __CPROVER_is_fresh(this_, sizeof(*this_)) && gh_sched_mx == (void *)&(this_)->_mx && \
                        VEC_WF && VEC_HI_T && TRK_PIN && gh_n0 == vec_n)
#define MODEL_ASSIGNS VEC_MODEL_ASSIGNS, PR_MODEL_ASSIGNS
#define LOCK_ASSIGNS  gh_lock_held, gh_lock_depth, gh_n_lock, gh_n_unlock
#define NO_COMPLETION (gh_pr_n_dropped == __CPROVER_old(gh_pr_n_dropped) && gh_pr_n_val == __CPROVER_old(gh_pr_n_val) && gh_pr_n_exc == __CPROVER_old(gh_pr_n_exc))

/* ------------------------------------------------------------------ compare_item: "later time point = lower priority" */
#ifdef CV_HAS_sch_compare_item_U
cv_i1 sch_compare_item(ITEM *a, ITEM *b)
__CPROVER_requires(cv_exc_pending == 0 && __CPROVER_is_fresh(a, sizeof(*a)) && __CPROVER_is_fresh(b, sizeof(*b)))
__CPROVER_assigns()
__CPROVER_ensures(cv_exc_pending == 0 && __CPROVER_return_value == (IT_TP(a) > IT_TP(b) ? 1 : 0))
;
#endif

/* ------------------------------------------------------------------ pop_item(): removes the first entry */
#ifdef CV_HAS_sch_pop_item_U
void sch_pop_item(SCHED *this_)
__CPROVER_requires(SCH_PRE(this_) && SCH_LOCKED && vec_n > 0)
__CPROVER_assigns(MODEL_ASSIGNS)
__CPROVER_ensures(cv_exc_pending == 0 && SCH_LOCKED)
__CPROVER_ensures(vec_n == gh_n0 - 1 && VEC_WF && VEC_HI_T)                                           /* one entry less, order kept    */
__CPROVER_ensures((gh_t_in0 && __CPROVER_old(vec_tpos) != 0) ==> TRK_SAME)                                /* every other entry is kept      */
__CPROVER_ensures((gh_t_in0 && __CPROVER_old(vec_tpos) == 0) ==> !vec_tin)                                /* it is the FIRST one that goes  */
__CPROVER_ensures((gh_t_in0 && __CPROVER_old(vec_tpos) == 0 && gh_t_own != 0 && gh_t_own == gh_W) ==> gh_W_dropped == __CPROVER_old(gh_W_dropped) + 1)  /* a still-pending one is cancelled by the drop */
__CPROVER_ensures(gh_pr_n_val == __CPROVER_old(gh_pr_n_val) && gh_pr_n_exc == __CPROVER_old(gh_pr_n_exc))
;
#endif

/* ------------------------------------------------------------------ get_expired_lk(now) / get_expired(now)
 * result = variant<time_point, promise>: index byte at offset 8 (0 = time point, 1 = promise), payload word at offset 0 */
#define RET_IDX(r)  (((cv_i8 *)(r))[8])
#define RET_TIME(r) (*(cv_s64 *)(r))
#define RET_OWN(r)  (*(void **)(r))
#define GE_LOOP_INV \
  (cv_exc_pending == 0 && SCH_HOLDS && VEC_WF && VEC_HI_T && vec_n <= gh_n0 && (TRK_LIVE0 ==> TRK_SAME))
#define CV_LOOP_sch_get_expired_lk_0 \
  __CPROVER_assigns(CV_LOOP_LOCALS_sch_get_expired_lk_0, MODEL_ASSIGNS, __CPROVER_object_whole(agg_result)) \
  __CPROVER_loop_invariant(GE_LOOP_INV && now__mem.__d.__r == now_coerce) \
  __CPROVER_loop_invariant(gh_pr_n_dropped == __CPROVER_loop_entry(gh_pr_n_dropped) && gh_pr_n_val == __CPROVER_loop_entry(gh_pr_n_val) && gh_pr_n_exc == __CPROVER_loop_entry(gh_pr_n_exc))

#ifdef CV_HAS_sch_get_expired_lk_U
void sch_get_expired_lk(EXPIRED *ret, SCHED *this_, cv_i64 now)
__CPROVER_requires(SCH_PRE(this_) && SCH_LOCKED && __CPROVER_is_fresh(ret, sizeof(*ret)))
__CPROVER_assigns(MODEL_ASSIGNS, __CPROVER_object_whole(ret))
__CPROVER_ensures(SCH_LOCKED)
#include "C12/ge_post.inc"
;
#endif
#ifdef CV_HAS_sch_get_expired_U
void sch_get_expired(EXPIRED *ret, SCHED *this_, cv_i64 now)
__CPROVER_requires(SCH_PRE(this_) && SCH_UNLOCKED && __CPROVER_is_fresh(ret, sizeof(*ret)))
__CPROVER_assigns(MODEL_ASSIGNS, LOCK_ASSIGNS, __CPROVER_object_whole(ret))
__CPROVER_ensures(SCH_UNLOCKED && gh_n_lock == __CPROVER_old(gh_n_lock) + 1)                              /* one critical section, lock released */
#include "C12/ge_post.inc"
;
#endif

/* ------------------------------------------------------------------ remove(id) */
#define RM_LOOP_INV \
  (cv_exc_pending == 0 && SCH_HOLDS && VEC_WF && VEC_HI_T && vec_n <= gh_n0 && (TRK_LIVE0 ==> TRK_SAME))
#define CV_LOOP_sch_remove_0 \
  __CPROVER_assigns(CV_LOOP_LOCALS_sch_remove_0, MODEL_ASSIGNS, __CPROVER_object_whole(agg_result)) \
  __CPROVER_loop_invariant(RM_LOOP_INV) \
  __CPROVER_loop_invariant(gh_pr_n_dropped == __CPROVER_loop_entry(gh_pr_n_dropped) && gh_pr_n_val == __CPROVER_loop_entry(gh_pr_n_val) && gh_pr_n_exc == __CPROVER_loop_entry(gh_pr_n_exc))
#ifdef CV_HAS_sch_remove_U
void sch_remove(PROM *ret, SCHED *this_, cv_i8 *id)
__CPROVER_requires(SCH_PRE(this_) && SCH_UNLOCKED && __CPROVER_is_fresh(ret, sizeof(*ret)))
__CPROVER_assigns(MODEL_ASSIGNS, LOCK_ASSIGNS, __CPROVER_object_whole(ret))
__CPROVER_ensures(cv_exc_pending == 0 && SCH_UNLOCKED && gh_n_lock == __CPROVER_old(gh_n_lock) + 1)      /* one critical section, lock released */
__CPROVER_ensures(VEC_WF && VEC_HI_T && vec_n <= gh_n0)
/* a live promise is returned => the entry it was taken from carried id */
__CPROVER_ensures(PR_OWN(ret) != 0 ==> (PR_OWN(ret) == gh_mv_own && gh_mv_id == id))
/* ... and exactly that entry is consumed: every pending sleep is still pending and unchanged, or it is the returned one (then it carried id and is gone or a tombstone) */
__CPROVER_ensures(TRK_LIVE0 ==> (TRK_SAME || (PR_OWN(ret) == gh_t_own && gh_t_id == id && \
                     (!vec_tin || (vec_tpos < vec_n && IT_OWN(VEC_T) == 0 && IT_TP(VEC_T) == gh_t_tp && IT_ID(VEC_T) == gh_t_id)))))
/* an empty promise is returned => NO pending sleep carries id (and, by the clause above, nothing changed) */
__CPROVER_ensures((PR_OWN(ret) == 0 && vec_tin && IT_OWN(VEC_T) != 0) ==> IT_ID(VEC_T) != id)
__CPROVER_ensures(NO_COMPLETION)
;
#endif

/* ------------------------------------------------------------------ schedule(id, p, tp) */
void *gh_p_own; cv_s64 gh_top_tp;
#ifdef CV_HAS_sch_schedule_U
void sch_schedule(SCHED *this_, cv_i8 *id, PROM *p, cv_i64 tp)
__CPROVER_requires(SCH_PRE(this_) && SCH_UNLOCKED && __CPROVER_is_fresh(p, sizeof(*p)) && vec_n < VEC_MAX_N - 1)
__CPROVER_requires(gh_p_own == PR_OWN(p) && (vec_n > 0 ==> gh_top_tp == IT_TP(VEC_TOP)))
__CPROVER_assigns(MODEL_ASSIGNS, LOCK_ASSIGNS, gh_n_notify, __CPROVER_object_whole(p))
__CPROVER_ensures(cv_exc_pending == 0 && SCH_UNLOCKED && gh_n_lock == __CPROVER_old(gh_n_lock) + 1)
__CPROVER_ensures(vec_n == gh_n0 + 1 && VEC_WF && VEC_HI_T)                                           /* one entry more, the first is still the earliest */
__CPROVER_ensures(vm.nwin && vec_lastpos < vec_n && IT_TP(VEC_NW) == (cv_s64)tp && IT_OWN(VEC_NW) == gh_p_own && IT_ID(VEC_NW) == id && IT_TP(VEC_TOP) <= IT_TP(VEC_NW))  /* the new entry is in, unaltered */
__CPROVER_ensures(PR_OWN(p) == 0)                                                                         /* the promise now lives in the entry only */
__CPROVER_ensures(gh_t_in0 ==> TRK_SAME)                                                                  /* every old entry is kept unaltered */
__CPROVER_ensures((gh_n0 == 0 || (cv_s64)tp < gh_top_tp) ==> gh_n_notify == __CPROVER_old(gh_n_notify) + 1)   /* new earliest deadline => the worker is woken to re-arm its wait */
__CPROVER_ensures(NO_COMPLETION)
;
#endif

/* ------------------------------------------------------------------ cancel(id, e) = remove(id) + resolve with exactly e
 * verified modularly: remove() is an abstract callee here that records its invocation and returns an arbitrary promise
 * (its own behaviour is the subject of unit remove). */
#ifdef CV_HAS_sch_cancel_e_U
unsigned gh_fw_calls; SCHED *gh_fw_this; cv_i8 *gh_fw_id; void *gh_fw_result; void *gh_e_obj;
void sch_remove(PROM *ret, SCHED *this_, cv_i8 *id) {
  __CPROVER_assert(gh_lock_depth == 0, "remove() locks _mx: the caller must not hold it");
  gh_fw_calls++; gh_fw_this = this_; gh_fw_id = id; PR_OWN(ret) = gh_fw_result; }
void sch_cancel_e(SPB *ret, SCHED *this_, cv_i8 *id, EPTR *e)
__CPROVER_requires(cv_exc_pending == 0 && __CPROVER_is_fresh(this_, sizeof(*this_)) && __CPROVER_is_fresh(ret, sizeof(*ret)) && __CPROVER_is_fresh(e, sizeof(*e)))
__CPROVER_requires(gh_fw_calls == 0 && gh_lock_depth == 0 && gh_e_obj == e->_M_exception_object && gh_sp_flushed == 0)
__CPROVER_assigns(__CPROVER_object_whole(ret), gh_fw_calls, gh_fw_this, gh_fw_id, gh_sp_flushed, PR_MODEL_ASSIGNS)
__CPROVER_ensures(cv_exc_pending == 0 && gh_lock_depth == 0)
__CPROVER_ensures(gh_fw_calls == 1 && gh_fw_this == this_ && gh_fw_id == id)                               /* exactly one remove(id)           */
/* something was pending under id: exactly that future is resolved, once, with exactly e; true is reported; the awaiting coroutine is handed to the caller */
__CPROVER_ensures(gh_fw_result != 0 ==> (ret->value == 1 && gh_pr_n_exc == __CPROVER_old(gh_pr_n_exc) + 1 && gh_pr_last_own == gh_fw_result && gh_pr_last_excobj == gh_e_obj))
__CPROVER_ensures(gh_fw_result != 0 ==> (ret->base_suspend_point._count_flag == gh_pr_sp_cf && (gh_pr_sp_cf != 0 ==> ret->base_suspend_point.f0.f0._handles[0] == gh_pr_sp_h0)))
/* nothing pending under id: false, and no other effect */
__CPROVER_ensures(gh_fw_result == 0 ==> (ret->value == 0 && ret->base_suspend_point._count_flag == 0 && gh_pr_n_exc == __CPROVER_old(gh_pr_n_exc)))
__CPROVER_ensures(gh_pr_n_dropped == __CPROVER_old(gh_pr_n_dropped) && gh_pr_n_val == __CPROVER_old(gh_pr_n_val) && gh_sp_flushed == 0)
;
#endif

/* ------------------------------------------------------------------ cancel(id) = cancel(id, make_exception_ptr(await_canceled_exception()))
 * forwarder: cancel(id, e) is an abstract callee that records its arguments and the dynamic type of the exception object */
#ifdef CV_HAS_sch_cancel_U
unsigned gh_fw_calls; SCHED *gh_fw_this; cv_i8 *gh_fw_id; void *gh_fw_exc_type; cv_i1 gh_fw_value; cv_i32 gh_fw_cf; cv_i8 *gh_fw_h0;
void sch_cancel_e(SPB *ret, SCHED *this_, cv_i8 *id, EPTR *e) {
  gh_fw_calls++; gh_fw_this = this_; gh_fw_id = id;
  gh_fw_exc_type = e->_M_exception_object ? *(void **)((cv_i8 *)e->_M_exception_object - CV_EXC_HDR) : 0;
  ret->value = gh_fw_value; ret->base_suspend_point._count_flag = gh_fw_cf; ret->base_suspend_point.f0.f0._handles[0] = gh_fw_h0; }
void sch_cancel(SPB *ret, SCHED *this_, cv_i8 *id)
__CPROVER_requires(cv_exc_pending == 0 && __CPROVER_is_fresh(this_, sizeof(*this_)) && __CPROVER_is_fresh(ret, sizeof(*ret)))
__CPROVER_requires(gh_fw_calls == 0 && gh_fw_value <= 1 && (gh_fw_cf == 0 || gh_fw_cf == 2))
__CPROVER_assigns(__CPROVER_object_whole(ret), gh_fw_calls, gh_fw_this, gh_fw_id, gh_fw_exc_type, gh_allocs, gh_frees, gh_ep_addref, gh_ep_release)
__CPROVER_ensures(cv_exc_pending == 0)
__CPROVER_ensures(gh_fw_calls == 1 && gh_fw_this == this_ && gh_fw_id == id)
__CPROVER_ensures(gh_fw_exc_type == (void *)AWAIT_CANCELED_TI)                                              /* the default exception is await_canceled_exception */
__CPROVER_ensures(ret->value == gh_fw_value && ret->base_suspend_point._count_flag == gh_fw_cf && ret->base_suspend_point.f0.f0._handles[0] == gh_fw_h0)   /* result passed on */
;
#endif

/* ------------------------------------------------------------------ sleep_until(tp, id): a future whose promise is scheduled exactly once for (tp, id) */
#ifdef CV_HAS_sch_sleep_until_U
unsigned gh_fw_calls; SCHED *gh_fw_this; cv_i8 *gh_fw_id; void *gh_fw_own; cv_s64 gh_fw_tp;
void sch_schedule(SCHED *this_, cv_i8 *id, PROM *p, cv_i64 tp) {
  gh_fw_calls++; gh_fw_this = this_; gh_fw_id = id; gh_fw_tp = (cv_s64)tp; gh_fw_own = PR_OWN(p);
  PR_OWN(p) = 0; }                                                          /* schedule() moves the promise into its entry (its contract: PR_OWN(p) == 0 afterwards) */
void sch_sleep_until(FUT *ret, SCHED *this_, cv_i64 tp, cv_i8 *id)
__CPROVER_requires(cv_exc_pending == 0 && __CPROVER_is_fresh(this_, sizeof(*this_)) && __CPROVER_is_fresh(ret, sizeof(*ret)) && gh_fw_calls == 0)
__CPROVER_assigns(__CPROVER_object_whole(ret), gh_fw_calls, gh_fw_this, gh_fw_id, gh_fw_own, gh_fw_tp, PR_MODEL_ASSIGNS)
__CPROVER_ensures(cv_exc_pending == 0)
__CPROVER_ensures(gh_fw_calls == 1 && gh_fw_this == this_ && gh_fw_id == id && gh_fw_tp == (cv_s64)tp)    /* scheduled exactly once, for exactly (tp, id) */
__CPROVER_ensures(gh_fw_own == (void *)ret)                                                                /* ... with the promise of the returned future */
__CPROVER_ensures(gh_pr_n_dropped == __CPROVER_old(gh_pr_n_dropped) && gh_pr_n_val == __CPROVER_old(gh_pr_n_val) && gh_pr_n_exc == __CPROVER_old(gh_pr_n_exc))   /* and the future is left pending */
;
#endif

/* ------------------------------------------------------------------ sleep_for(dur, id) = sleep_until(now() + dur, id)
 * forwarder; std::chrono::system_clock::now() is a ghost clock reading, duration_cast<nanoseconds>(milliseconds) an abstract callee that
 * records its argument and returns an arbitrary-but-fixed value (unit conversion is libstdc++'s business) */
#ifdef CV_HAS_sch_sleep_for_U
unsigned gh_fw_calls; SCHED *gh_fw_this; cv_i8 *gh_fw_id; cv_s64 gh_fw_tp; cv_s64 gh_clock; unsigned gh_clock_reads; cv_s64 gh_cast_in, gh_cast_out; unsigned gh_cast_calls;
cv_i64 _ZNSt6chrono3_V212system_clock3nowEv(void) { gh_clock_reads++; return (cv_i64)gh_clock; }
cv_i64 chr_cast_ms_ns(DUR_MS *d) { gh_cast_calls++; gh_cast_in = (cv_s64)d->__r; return (cv_i64)gh_cast_out; }
void sch_sleep_until(FUT *ret, SCHED *this_, cv_i64 tp, cv_i8 *id) { gh_fw_calls++; gh_fw_this = this_; gh_fw_id = id; gh_fw_tp = (cv_s64)tp; }
void sch_sleep_for(FUT *ret, SCHED *this_, cv_i64 dur_ms, cv_i8 *id)
__CPROVER_requires(cv_exc_pending == 0 && __CPROVER_is_fresh(this_, sizeof(*this_)) && __CPROVER_is_fresh(ret, sizeof(*ret)) && gh_fw_calls == 0 && gh_clock_reads == 0 && gh_cast_calls == 0)
__CPROVER_assigns(gh_fw_calls, gh_fw_this, gh_fw_id, gh_fw_tp, gh_clock_reads, gh_cast_calls, gh_cast_in)
__CPROVER_ensures(cv_exc_pending == 0)
__CPROVER_ensures(gh_fw_calls == 1 && gh_fw_this == this_ && gh_fw_id == id)                               /* exactly one sleep_until with the same id */
__CPROVER_ensures(gh_clock_reads == 1 && gh_cast_calls == 1 && gh_cast_in == (cv_s64)dur_ms)
__CPROVER_ensures(gh_fw_tp == (cv_s64)((cv_i64)gh_clock + (cv_i64)gh_cast_out))                            /* time point = ONE clock reading at the call + the duration (in clock ticks) */
;
#endif

/* ------------------------------------------------------------------ ~scheduler(): a started worker is stopped and joined first; then every pending sleep is cancelled
 * Forwarder.  request_stop() and future<void>::wait() are abstract callees that only record their invocation; that wait() RETURNS - i.e. that the worker
 * terminates once its stop is requested - is not assumed silently any more: it is the conclusion of the wait/notify handshake whose two halves are
 * machine-checked on the real code in the units worker_stop_cb* (the stop callback passes through _mx before notify_all) and worker_step* (the worker tests
 * the flag and enters the wait within one critical section of _mx, re-tests after every wake-up, leaves its loop on a set flag and completes - resolving _fut -
 * without holding _mx); see specs/C12/wk_spec.h.  What this unit owes to that argument is checked in the stubs: the stop is requested BEFORE the join, on
 * the stop source / future of the SAME GlobState the worker was started with, and neither call is made with _mx held (request_stop() runs the worker's stop
 * callback on this thread, which needs _mx; the worker needs _mx to leave its wait). */
#ifdef CV_HAS_sch_dtor_U
cv_i1 gh_engaged; unsigned gh_seq, gh_stop_at, gh_wait_at, gh_vecd_at, gh_optd_at; void *gh_stop_obj, *gh_wait_obj;
#ifdef CV_HAS_opt_has_value
cv_i1 opt_has_value(OPTGS *o) { return gh_engaged; }
#endif
#ifdef CV_HAS_opt_arrow
GLOBST *opt_arrow(OPTGS *o) { __CPROVER_assert(gh_engaged, "std::optional::operator-> on an engaged optional"); return (GLOBST *)o; }
#endif
#ifdef CV_HAS_opt_dtor
void opt_dtor(OPTGS *o) { gh_optd_at = ++gh_seq; }
#endif
#ifdef CV_HAS_ss_request_stop
cv_i1 ss_request_stop(STOPSRC *s) {
  __CPROVER_assert(SCH_UNLOCKED, "no hang: ~scheduler calls request_stop() without holding _mx (it runs the worker's stop callback on this thread, which passes through _mx)");
  gh_stop_at = ++gh_seq; gh_stop_obj = (void *)s; return 1; }
#endif
#ifdef CV_HAS_fut_wait
void fut_wait(FUT *f) {
  __CPROVER_assert(gh_stop_at != 0, "no hang: ~scheduler joins the worker only after its stop was requested");
  __CPROVER_assert(SCH_UNLOCKED, "no hang: ~scheduler joins the worker without holding _mx (the worker needs _mx to leave its wait and finish)");
  gh_wait_at = ++gh_seq; gh_wait_obj = (void *)f; }
#endif
void sch_dtor(SCHED *this_)
__CPROVER_requires(cv_exc_pending == 0 && __CPROVER_is_fresh(this_, sizeof(*this_)) && gh_sched_mx == (void *)&(this_)->_mx && SCH_UNLOCKED)
__CPROVER_requires(VEC_WF && TRK_PIN && gh_engaged <= 1 && gh_seq == 0 && gh_stop_at == 0 && gh_wait_at == 0 && gh_optd_at == 0 && gh_vec_dtor == 0 && gh_W == gh_t_own && gh_stop_obj == 0 && gh_wait_obj == 0)
__CPROVER_assigns(MODEL_ASSIGNS, gh_seq, gh_stop_at, gh_wait_at, gh_optd_at, gh_vec_dtor, gh_stop_obj, gh_wait_obj)
__CPROVER_ensures(cv_exc_pending == 0 && SCH_UNLOCKED)
__CPROVER_ensures(gh_engaged ==> (gh_stop_at == 1 && gh_wait_at == 2))                                     /* worker: stop requested, then joined, before anything is torn down */
__CPROVER_ensures(gh_engaged ==> (gh_stop_obj == (void *)&((GLOBST *)&this_->_glob_state)->_stp && gh_wait_obj == (void *)&((GLOBST *)&this_->_glob_state)->_fut))   /* ... on the stop source / future the worker was started with (start_in) */
__CPROVER_ensures(!gh_engaged ==> (gh_stop_at == 0 && gh_wait_at == 0))
__CPROVER_ensures(gh_vec_dtor == 1 && vec_n == 0)                                                          /* the vector is destroyed exactly once */
__CPROVER_ensures(TRK_LIVE0 ==> (gh_W_dropped == __CPROVER_old(gh_W_dropped) + 1 && gh_W_val == __CPROVER_old(gh_W_val) && gh_W_exc == __CPROVER_old(gh_W_exc)))  /* every pending sleep is cancelled exactly once (dropped promise) */
__CPROVER_ensures(gh_pr_n_val == __CPROVER_old(gh_pr_n_val) && gh_pr_n_exc == __CPROVER_old(gh_pr_n_exc))
;
#endif
