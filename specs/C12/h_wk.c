/* C12 harnesses of the worker-side units (thread / thread-pool / start(awaitable) mode).  No contract is enforced: the translated real functions run
 * against the models of their dependencies; obligations = assertions in the models (specs/C12/sch_spec.h, specs/C12/wk_spec.h, lib/model_mutex.c) and below. */
#ifdef CV_HAS_wk_stop_cb_U
/* the stop-callback lambda of worker_coro<have_pool> (a plain function in the IR): [&]{ ...; _cond.notify_all(); }.  std::stop_source::request_stop()
 * has just set the stop flag (an atomic inside the stop state, NOT guarded by _mx) and now runs the callback on the requesting thread, which holds no
 * lock of the scheduler (~scheduler, the completion callback of start(awaitable)).  The worker may be anywhere, in particular between its
 * stop_requested() test under _mx and wait_until. */
void h_worker_stop_cb(void) {
  SCHED *s = malloc(sizeof(*s)); __CPROVER_assume(s != 0);
  struct { SCHED *this_; } closure = { s };
  struct vec_model v0; struct pr_model p0; vm = v0; pm = p0;
  cv_exc_pending = 0; gh_lock_depth = 0; gh_lock_held = 0; gh_n_lock = 0; gh_n_unlock = 0; gh_sched_mx = (void *)&s->_mx; gh_n_notify = 0;
  gh_n_lock_at_change = gh_n_lock;                       /* the state change: request_stop() sets the flag here */
  wk_stop_cb((void *)&closure);
  __CPROVER_assert(cv_exc_pending == 0, "worker stop callback: no exception escapes (std::stop_callback invokes it from noexcept code)");
  __CPROVER_assert(gh_lock_depth == 0 && gh_n_lock == gh_n_unlock, "worker stop callback: every lock taken is released");
  __CPROVER_assert(gh_n_notify >= 1, "worker stop callback: the worker is notified of the stop request");
  __CPROVER_assert(0, "SENTINEL reachable after the worker's stop callback");
}
#endif
#ifdef CV_HAS_wk_resume_U
/* ONE resumption of the lowered coroutine worker_coro<have_pool> ([clone .resume]), either the first one (the body starts: stop callback registered,
 * _mx taken, loop entered) or one from its suspension point inside the loop (co_await pause() / co_await *pool), in an arbitrary state that satisfies
 * the suspension invariant   INV: index == 1, lk refers to _mx and does not own it, _mx not held by this thread, the stop callback is registered.
 * The run ends suspended again with INV (inductive step: covers every iteration) or with the coroutine completed. */
void h_worker_step(void) {
  SCHED *s = malloc(sizeof(*s)); __CPROVER_assume(s != 0);
  struct vec_model v0; struct pr_model p0; vm = v0; pm = p0;
  cv_exc_pending = 0; gh_lock_depth = 0; gh_lock_held = 0; gh_n_lock = 0; gh_n_unlock = 0; gh_sched_mx = (void *)&s->_mx; gh_n_notify = 0; gh_sp_flushed = 0;
  gh_pr_n_val = 0; gh_pr_n_dropped = 0; gh_pr_n_exc = 0;
  gh_wk_sched = s; gh_wk_frame = 0; gh_wk_tok = 0; gh_ev = 0; gh_allocs = 0; gh_frees = 0;
  gh_n_stoptest = 0; gh_stoptest_cs = 0; gh_stoptest_locked = 0; gh_stoptest_last = 0; gh_n_now = 0; gh_last_now = 0; gh_now_ev = 0;
  gh_n_ge = 0; gh_ge_cs = 0; gh_ge_idx = 0; gh_ge_time = 0; gh_ge_own = 0; gh_n_wait = 0; gh_wait_ev = 0; gh_can_block_v = 0;
  gh_n_cb_reg = 0; gh_n_cb_unreg = 0; gh_n_pause = 0; gh_n_return_void = 0; gh_n_final = 0; gh_n_resolved = 0;
  wk_noop_frame.f0 = (cv_i8 *)wk_noop_resume; wk_noop_frame.f1 = 0;
  cv_i1 stop0 = nondet_bool() ? 1 : 0; gh_stop_flag = stop0;                 /* the stop may or may not have been requested already */
  cv_i1 in_first = nondet_bool() ? 1 : 0;
#ifdef WK_POOL
  gh_wk_pool = malloc(sizeof(*gh_wk_pool)); __CPROVER_assume(gh_wk_pool != 0); wk_globst._pool = gh_wk_pool;
#endif
  /* the REAL ramp function creates the frame (operator new), spills `this` and the token into it and stops at the initial suspend point */
  WKASYNC ret; STOPTOK tok_arg;
  wk_ramp(&ret, s, &tok_arg);
  WKFRAME *f = gh_wk_frame;
  __CPROVER_assert(cv_exc_pending == 0 && f != 0 && gh_wk_tok == &f->state && gh_allocs == 1 && gh_lock_depth == 0 && gh_n_cb_reg == 0, "worker ramp: one frame, token moved into it, nothing of the body has run");
  __CPROVER_assume(f != 0);
  if (!in_first) {                                    /* an arbitrary later resumption: the suspension invariant INV */
    f->__coro_index = 1; f->lk._M_device = &s->_mx; f->lk._M_owns = 0; gh_n_cb_reg = 1;
#ifdef WK_POOL
    f->pool = gh_wk_pool;
#endif
  }
  wk_resume(f);
  __CPROVER_assert(cv_exc_pending == 0, "worker step: no exception escapes");
  __CPROVER_assert(gh_lock_depth == 0 && gh_n_lock == gh_n_unlock, "worker step: _mx is not held while the worker is suspended or finished");
  cv_i1 suspended = (gh_n_pause == 1 && gh_n_return_void == 0 && gh_n_final == 0) ? 1 : 0;
  cv_i1 finished = (gh_n_pause == 0 && gh_n_return_void == 1 && gh_n_final == 1) ? 1 : 0;
  __CPROVER_assert(suspended || finished, "worker step: ends suspended in the loop or completed (once)");
  __CPROVER_assert(!suspended || (f->__coro_index == 1 && f->lk._M_owns == 0 && (void *)f->lk._M_device == gh_sched_mx && gh_n_cb_reg == 1 && gh_n_cb_unreg == 0),
                   "worker step: the suspension invariant is re-established (inductive step for every loop iteration)");
  __CPROVER_assert(!suspended || (gh_n_stoptest > 0 && gh_stoptest_last == 0), "worker step: suspends again only after a test of the stop flag that found it clear");
  __CPROVER_assert(!finished || (gh_stop_flag && gh_stoptest_last == 1 && gh_n_cb_reg == 1 && gh_n_cb_unreg == 1), "worker step: the loop is left only on a stop request; the stop callback is deregistered");
  __CPROVER_assert(!stop0 || (finished && gh_n_wait == 0), "no hang: a worker resumed with the stop already requested completes without blocking");
  __CPROVER_assert(gh_n_wait <= 1 && gh_n_ge <= 1, "worker step: at most one get_expired_lk() and one wait per iteration");
  __CPROVER_assert(!(gh_n_ge == 1 && gh_ge_idx == 1) || (gh_n_resolved == 1 && gh_pr_n_val == 1 && gh_pr_n_dropped == 0 && gh_n_wait == 0),
                   "each exactly once: a due promise handed out by get_expired_lk() is resolved once, not dropped, and the worker does not block before looking again");
  __CPROVER_assert(gh_n_resolved <= gh_n_ge && gh_pr_n_exc == 0, "worker step: nothing else is resolved");
  if (suspended && in_first) __CPROVER_assert(0, "SENTINEL reachable: first resumption ends suspended");
  if (suspended && !in_first && gh_n_wait == 1) __CPROVER_assert(0, "SENTINEL reachable: iteration that waited");
  if (suspended && !in_first && gh_n_resolved == 1) __CPROVER_assert(0, "SENTINEL reachable: iteration that resolved a sleeper");
  if (finished && !in_first) __CPROVER_assert(0, "SENTINEL reachable: worker completed from the loop");
  if (finished && in_first) __CPROVER_assert(0, "SENTINEL reachable: worker completed on its first resumption");
  __CPROVER_assert(0, "SENTINEL reachable after the worker step");
}
#endif
#ifdef CV_HAS_st_start_U
/* start<future<int>&>(awt) on an arbitrary scheduler object (any _elide_state), called - as documented - without any lock held */
void h_start_future(void) {
  SCHED *s = malloc(sizeof(*s)); __CPROVER_assume(s != 0);
  STFUT *awt = malloc(sizeof(*awt)); __CPROVER_assume(awt != 0);
  struct vec_model v0; struct pr_model p0; vm = v0; pm = p0;
  cv_exc_pending = 0; gh_lock_depth = 0; gh_lock_held = 0; gh_n_lock = 0; gh_n_unlock = 0; gh_sched_mx = (void *)&s->_mx; gh_n_notify = 0;
  gh_st_sched = s; gh_ss_bound = 0; gh_st_seq = 0; gh_st_src_at = 0; gh_st_worker_at = 0; gh_st_alloca_at = 0; gh_st_cb_at = 0; gh_st_run_at = 0;
  gh_st_n_src = 0; gh_st_n_worker = 0; gh_st_n_cb = 0; gh_st_n_run = 0; gh_st_n_src_dtor = 0; gh_st_n_async_dtor = 0;
  gh_st_src = 0; gh_st_tok = 0; gh_st_worker = 0; gh_st_awt = 0; gh_st_opt = 0; gh_st_alloca_p = 0; gh_st_alloca_n = 0; gh_st_frame = 0; gh_st_opt_engaged = 0; gh_st_outcome_exc = 0;
  cv_i8 *exc_mem = malloc(CV_EXC_HDR + 8); __CPROVER_assume(exc_mem != 0); gh_st_excobj = exc_mem + CV_EXC_HDR;      /* an exception object (header + payload) */
  cv_i32 r = st_start(s, awt);
  __CPROVER_assert(gh_lock_depth == 0 && gh_n_lock == gh_n_unlock, "start(): every lock taken is released");
  __CPROVER_assert(gh_st_n_src == 1 && gh_st_n_worker == 1 && gh_st_n_cb == 1 && gh_st_n_run == 1, "start(): one stop source, one worker, one completion callback, one run");
  __CPROVER_assert(gh_st_src_at < gh_st_worker_at && gh_st_worker_at < gh_st_cb_at && gh_st_cb_at < gh_st_run_at, "start(): worker created, then the callback attached, then the worker run");
  __CPROVER_assert(gh_st_awt == awt && gh_st_fn.stps == gh_st_src && gh_st_fn.ret == gh_st_opt, "no hang: the completion callback of awt stops the stop source the worker listens to, and fills the result slot start() returns");
  __CPROVER_assert(gh_st_outcome_exc || (cv_exc_pending == 0 && r == gh_st_opt_val), "start(): returns the awaited value");
  __CPROVER_assert(!gh_st_outcome_exc || (cv_exc_pending == 1 && cv_exc_obj == gh_st_excobj), "start(): rethrows the awaited exception");
  __CPROVER_assert(gh_st_n_async_dtor == 1 && gh_st_n_src_dtor == 1, "start(): worker object and stop source destroyed once on every path");
  if (gh_st_outcome_exc) __CPROVER_assert(0, "SENTINEL reachable: start() rethrew");
  if (!gh_st_outcome_exc && gh_st_frame == gh_st_alloca_p) __CPROVER_assert(0, "SENTINEL reachable: start() returned a value, callback frame in the alloca block");
  if (!gh_st_outcome_exc && gh_st_frame != gh_st_alloca_p) __CPROVER_assert(0, "SENTINEL reachable: start() returned a value, callback frame on the heap");
  __CPROVER_assert(0, "SENTINEL reachable after start()");
}
#endif
