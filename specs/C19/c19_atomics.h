/* C19 - protocol-aware atomic primitives for the thread-modular units of reusable_storage_mtsafe (used INSTEAD of
 * lib/rt_atomic_seq.c; DESIGN 3.3 / 3.5).  One storage object gh_mt, one protocol location: its busy flag.
 *
 * Protocol.  Token BLOCK(gh_mt) = "the right to use / replace the storage's own block".  At most one party holds it.
 *   guarantee (what the code of THIS thread may do; checked here, at the instruction):
 *     - busy.exchange(true): the only RMW ever made; observing 0 acquires BLOCK (linearisation point of alloc),
 *     - busy.store(false)  : only by the holder of BLOCK; releases it,
 *   rely (what the OTHER threads may have done by the time one of my atomic steps executes, while I do NOT hold BLOCK): any number
 *     of complete alloc/dealloc rounds of theirs - the flag has any value, and the own block may have been replaced by a larger
 *     one (old block released, _ptr/_capacity updated).  While I hold BLOCK nobody else changes flag, _ptr or _capacity.
 * The primitive performs the rely step first (interference), then the instruction, then the guarantee check, and records what the
 * instruction observed (gh_seen_busy, gh_lin_ptr, gh_lin_cap = state at the linearisation point) for the contract.
 * Memory orders are logged (gh_at_last_ord) but NOT judged here: visibility / publication is property C03.
 * Heap counters (gh_allocs, gh_frees, heap log) are per thread: blocks allocated / released by other threads are not counted.
 * Argued, not machine-checked: rely/guarantee soundness and atomicity (total modification order) of RMWs on one location. */
MT *gh_mt;                       /* the storage under the protocol (assigned through __CPROVER_pointer_equals in the contract) */
cv_i1 gh_tok_block;              /* this thread holds BLOCK(gh_mt)                                                            */
cv_i8 gh_seen_busy; cv_i8 *gh_lin_ptr; cv_i64 gh_lin_cap; cv_i8 gh_lin_byte;   /* observed at the exchange (gh_lin_byte = byte gh_G of the own block) */
extern cv_i64 gh_G;
unsigned gh_at_n; int gh_at_last_ord; int gh_at_last_op;    /* log: number of atomic instructions executed, last order (0 relaxed, 2 acquire, 3 release, 4 acq_rel, 5 seq_cst), last op (1 load, 2 store, 3 xchg) */
#define TM_LOG gh_tok_block, gh_seen_busy, gh_lin_ptr, gh_lin_cap, gh_lin_byte, gh_at_n, gh_at_last_ord, gh_at_last_op
#define TM_BUSY_LOC (&gh_mt->_busy._M_base._M_i)
#define TM_CAP_MAX ((1ul << 30) + 64)

/* memory-order obligations belong to property C03: compiled in only for the C03 run of these units */
#ifdef CV_CHECK_C03
#define C03_ASSERT(c, msg) __CPROVER_assert(c, msg)
#else
#define C03_ASSERT(c, msg)
#endif
#define C19_HAS_REL(o) ((o) == 3 || (o) == 4 || (o) == 5)
#define C19_HAS_ACQ(o) ((o) == 1 || (o) == 2 || (o) == 4 || (o) == 5)
/* plain accesses to the block bookkeeping (perm instrumentation, C03): only the holder of the block may look at _ptr/_capacity */
#define CV_PERM_RS_BLOCK(obj) C03_ASSERT(gh_tok_block, "C03: reusable_storage_mtsafe: _ptr/_capacity accessed without holding the block (another thread may be replacing it in alloc(): data race)")
static void cv_env_other_threads(void) {                      /* rely step */
  if (gh_tok_block) return;                                   /* I hold BLOCK: nobody interferes */
  RS *r = (RS *)gh_mt;
#ifndef C19_TM_ENV_GROWS                                      /* units may split the two environment cases (cost); default: both */
#define C19_TM_ENV_GROWS nondet_bool()
#endif
  if (C19_TM_ENV_GROWS) {                                     /* somebody took the block, grew it, and (maybe) gave it back */
    cv_i64 nc = nondet_size_t(); __CPROVER_assume(nc > r->_capacity && nc < TM_CAP_MAX);
    cv_i8 *nb = malloc(nc); __CPROVER_assume(nb != 0);
    if (r->_ptr) free(r->_ptr);                               /* their operator delete: my stale copies of the old pointer are dead */
    r->_ptr = nb; r->_capacity = nc; }
  *TM_BUSY_LOC = nondet_bool() ? 1 : 0;                       /* free or taken by somebody else */
}
cv_i8 cv_atomic_xchg_i8(cv_i8 *p, cv_i8 v, int ord) {
  gh_at_n++; gh_at_last_ord = ord; gh_at_last_op = 3;
  __CPROVER_assert(p == TM_BUSY_LOC, "protocol: the only atomic location is the storage's busy flag");
  cv_env_other_threads();
  cv_i8 old = *p; *p = v;
  __CPROVER_assert(v == 1, "protocol (guarantee): the busy flag is only ever exchanged with true");
  gh_seen_busy = old; gh_lin_ptr = ((RS *)gh_mt)->_ptr; gh_lin_cap = ((RS *)gh_mt)->_capacity;
  gh_lin_byte = (gh_lin_ptr != 0 && gh_G < gh_lin_cap) ? gh_lin_ptr[gh_G] : 0;
  if (old == 0) { C03_ASSERT(C19_HAS_ACQ(ord), "C03: acquiring the reusable block (busy false->true) needs acquire semantics: block pointer, capacity and the bytes of the previous frame were written by the previous holder"); gh_tok_block = 1; }   /* acquired */
  return old; }
void cv_atomic_store_i8(cv_i8 *p, cv_i8 v, int ord) {
  gh_at_n++; gh_at_last_ord = ord; gh_at_last_op = 2;
  __CPROVER_assert(p == TM_BUSY_LOC, "protocol: the only atomic location is the storage's busy flag");
  __CPROVER_assert(v == 0 && gh_tok_block, "protocol (guarantee): the busy flag is only ever stored false, and only by the holder of the own block");
  C03_ASSERT(C19_HAS_REL(ord), "C03: releasing the reusable block (busy := false) needs release semantics: it publishes the block bookkeeping and the frame's bytes to the next holder");
  *p = v; gh_tok_block = 0; }
cv_i8 cv_atomic_load_i8(cv_i8 *p, int ord) {
  gh_at_n++; gh_at_last_ord = ord; gh_at_last_op = 1;
  __CPROVER_assert(p == TM_BUSY_LOC, "protocol: the only atomic location is the storage's busy flag");
  cv_env_other_threads(); return *p; }
/* not used by the storage code: any use is a protocol violation */
#define C19_NOT_IN_PROTOCOL(what) __CPROVER_assert(0, "protocol: unexpected atomic instruction " what)
cv_i1 cv_cmpxchg_i8(cv_i8 *p, cv_i8 *e, cv_i8 d, int w, int so, int fo) { C19_NOT_IN_PROTOCOL("cmpxchg i8"); return 0; }
cv_i8 cv_atomic_add_i8(cv_i8 *p, cv_i8 v, int o) { C19_NOT_IN_PROTOCOL("add i8"); return 0; }
cv_i8 cv_atomic_sub_i8(cv_i8 *p, cv_i8 v, int o) { C19_NOT_IN_PROTOCOL("sub i8"); return 0; }
cv_i8 cv_atomic_or_i8(cv_i8 *p, cv_i8 v, int o) { C19_NOT_IN_PROTOCOL("or i8"); return 0; }
cv_i8 cv_atomic_and_i8(cv_i8 *p, cv_i8 v, int o) { C19_NOT_IN_PROTOCOL("and i8"); return 0; }
#define C19_NO_ATOMIC(sfx, T) \
  T cv_atomic_load_##sfx(T *p, int o) { C19_NOT_IN_PROTOCOL(#sfx); return 0; } \
  void cv_atomic_store_##sfx(T *p, T v, int o) { C19_NOT_IN_PROTOCOL(#sfx); } \
  cv_i1 cv_cmpxchg_##sfx(T *p, T *e, T d, int w, int so, int fo) { C19_NOT_IN_PROTOCOL(#sfx); return 0; } \
  T cv_atomic_xchg_##sfx(T *p, T v, int o) { C19_NOT_IN_PROTOCOL(#sfx); return 0; } \
  T cv_atomic_add_##sfx(T *p, T v, int o) { C19_NOT_IN_PROTOCOL(#sfx); return 0; } \
  T cv_atomic_sub_##sfx(T *p, T v, int o) { C19_NOT_IN_PROTOCOL(#sfx); return 0; } \
  T cv_atomic_or_##sfx(T *p, T v, int o) { C19_NOT_IN_PROTOCOL(#sfx); return 0; } \
  T cv_atomic_and_##sfx(T *p, T v, int o) { C19_NOT_IN_PROTOCOL(#sfx); return 0; }
C19_NO_ATOMIC(i32, cv_i32)
C19_NO_ATOMIC(i64, cv_i64)
void cv_fence(int ord) { C19_NOT_IN_PROTOCOL("fence"); }

/* contract parameters of mt_alloc for the thread-modular reading (see st_spec.h) */
#define MT_SEEN_BUSY gh_seen_busy
#define MT_P0 gh_lin_ptr
#define MT_C0 gh_lin_cap
#define MT_BYTE0 gh_lin_byte
#define MT_EXTRA_PRE (__CPROVER_pointer_equals(gh_mt, this_) && gh_tok_block <= 1 && (gh_tok_block ==> MT_BUSY(this_) == 1))
#define MT_EXTRA_ASSIGNS , TM_LOG
#define MT_EXTRA_POST (gh_at_n == __CPROVER_old(gh_at_n) + 1                                   /* exactly one atomic step: the deciding exchange */ \
   && (__CPROVER_old(gh_tok_block) ==> gh_seen_busy == 1)                                     /* my own live frame in the block keeps it taken  */ \
   && gh_tok_block == ((gh_seen_busy == 0 || __CPROVER_old(gh_tok_block)) ? 1 : 0))           /* BLOCK acquired iff the flag was seen free      */
