/* C19 - contracts on the coroutine storage policies (src/cocls/coro_storage.h, alloca_storage.h, with_allocator.h).
 * Type aliases (RS, MT, PA, SS, RB, VECC, PES, PESR, PESM, XS, EXTRA, FNB) and function aliases are generated per unit (units.py).
 * Field names (_ptr, _capacity, _busy, _state, _alloc_size, _alloc_ptr, _buff, inventory, _factory, _p) are the real member names.
 *
 * Vocabulary of the postconditions (taken from the property statement):
 *   "at least as large as requested"  : __CPROVER_rw_ok(ret, sz + trailer)              (trailer = what the policy stores behind the frame)
 *   "a fresh heap block"              : FRESH_BLOCK(ret, n)  = exactly one operator new happened in this call, it was asked for n bytes,
 *                                       and ret is the block it returned (heap log of lib/model_heap_log.c)
 *   "released exactly once"           : FREED_ONCE(ptr)      = exactly one operator delete happened in this call and it got ptr
 *   "no heap traffic"                 : HEAP_UNCHANGED
 * Sizes are symbolic: 1 <= sz < 2^30 (SZ_OK; stated arithmetic bound - a coroutine frame is never empty). */
#define SZMAX (1ul << 30)
#define SZ_OK(sz) ((sz) >= 1 && (sz) < SZMAX)
#define HEAP_UNCHANGED (gh_allocs == __CPROVER_old(gh_allocs) && gh_frees == __CPROVER_old(gh_frees))
#define NO_NEW   (gh_allocs == __CPROVER_old(gh_allocs))
#define NO_DEL   (gh_frees == __CPROVER_old(gh_frees))
#define FRESH_BLOCK(ret, n) (gh_allocs == __CPROVER_old(gh_allocs) + 1 && (ret) == gh_last_new && gh_last_new_sz == (n))
#define FREED_ONCE(ptr) (gh_frees == __CPROVER_old(gh_frees) + 1 && gh_last_del == (ptr))
#define PRE0 (cv_exc_pending == 0)

/* logical variables (pinned by requires under enforcement, never assigned by the code) */
cv_i64 gh_n;            /* size of a block supplied by the caller                               */
cv_i8  gh_flag;         /* entry value of the marker byte behind a stack_storage frame          */
cv_i1  gh_own;          /* "ptr is the storage's own block" (mtsafe dealloc)                    */
cv_i64 gh_G;            /* arbitrary-but-fixed byte index ("for all i")                         */
cv_i8  gh_byte;         /* entry value of byte gh_G of the own block                            */

/* reusable_storage_mtsafe: trailer = pointer to the owning storage at ptr+sz */
#define MT_TRAILER sizeof(void *)
#define MT_BUSY(m) ((m)->_busy._M_base._M_i)
#define MT_RS(m)   ((RS *)(m))
#define MT_OWNER(ptr, sz) (*(MT **)((ptr) + (sz)))
/* observation hooks of the driver's Extra (construction / destruction of the object attached by promise_extra_storage) */
#ifdef C19_EXTRA_HOOKS   /* units that translate code constructing / destroying an Extra (needs the type alias EXTRA) */
unsigned gh_x_ctor, gh_x_dtor; cv_i8 *gh_x_ctor_at, *gh_x_dtor_at; cv_i64 gh_x_ctor_v;
#define X_LOG gh_x_ctor, gh_x_dtor, gh_x_ctor_at, gh_x_dtor_at, gh_x_ctor_v
void cvx_c19_extra_ctor(cv_i8 *at, cv_i64 v) {
  __CPROVER_assert(__CPROVER_rw_ok(at, sizeof(EXTRA)), "extra object is constructed in valid memory");
  gh_x_ctor++; gh_x_ctor_at = at; gh_x_ctor_v = v; }
void cvx_c19_extra_dtor(cv_i8 *at) {
  __CPROVER_assert(__CPROVER_rw_ok(at, sizeof(EXTRA)), "extra object is destroyed while its memory is still valid (before the block is released)");
  gh_x_dtor++; gh_x_dtor_at = at; }
#endif
#ifndef C19_LEMMA      /* lemma units (h_lemmas.c) run the real bodies in sequence: no contracts there */
/* ------------------------------------------------------------------------------------------------ default_storage */
#ifdef CV_HAS_ds_alloc
cv_i8 *ds_alloc(cv_i64 sz)
__CPROVER_requires(PRE0 && SZ_OK(sz))
__CPROVER_assigns(CV_HEAPLOG)
__CPROVER_ensures(cv_exc_pending == 0)
__CPROVER_ensures(__CPROVER_return_value != 0 && __CPROVER_rw_ok(__CPROVER_return_value, sz))    /* at least as large as requested */
__CPROVER_ensures(FRESH_BLOCK(__CPROVER_return_value, sz) && NO_DEL)                            /* a fresh heap block, nothing else */
;
#endif
#ifdef CV_HAS_ds_dealloc
void ds_dealloc(cv_i8 *ptr, cv_i64 sz)
__CPROVER_requires(PRE0 && SZ_OK(sz) && __CPROVER_is_fresh(ptr, sz))
__CPROVER_assigns(CV_HEAPLOG) __CPROVER_frees(ptr)
__CPROVER_ensures(cv_exc_pending == 0 && FREED_ONCE(ptr) && NO_NEW)                             /* released exactly once */
;
#endif

/* ------------------------------------------------------------------------------------------------ reusable_storage
 * representation invariant: no block and capacity 0, or one heap block of exactly _capacity >= 1 bytes */
#define RS_WF_FRESH(r) (((r)->_capacity == 0 && (r)->_ptr == 0) || \
                        ((r)->_capacity >= 1 && (r)->_capacity < SZMAX + 64 && __CPROVER_is_fresh((r)->_ptr, (r)->_capacity)))
#define RS_WF_POST(r)  (((r)->_capacity == 0 && (r)->_ptr == 0) || \
                        ((r)->_capacity >= 1 && (r)->_ptr != 0 && __CPROVER_rw_ok((r)->_ptr, (r)->_capacity)))
/* effect of reusable_storage::alloc(n) on (r), in terms of entry values p0 / c0 (written with __CPROVER_old by the users) */
#define RS_ALLOC_POST(r, n, p0, c0) \
   ((r)->_capacity == ((c0) >= (n) ? (c0) : (n))                                              /* capacity monotone: max(old, n) */ \
    && ((c0) >= (n) ==> ((r)->_ptr == (p0) && HEAP_UNCHANGED))                                /* warm: same block, no heap traffic */ \
    && ((c0) <  (n) ==> (FRESH_BLOCK((r)->_ptr, (n))                                          /* grow: one new block of n bytes ... */ \
                         && gh_frees == __CPROVER_old(gh_frees) + ((p0) != 0 ? 1 : 0)         /* ... old block released exactly once */ \
                         && ((p0) != 0 ==> gh_last_del == (p0)))))

#ifdef CV_HAS_rs_ctor
void rs_ctor(RS *this_)
__CPROVER_requires(PRE0 && __CPROVER_is_fresh(this_, sizeof(*this_)))
__CPROVER_assigns(__CPROVER_object_whole(this_))
__CPROVER_ensures(cv_exc_pending == 0 && this_->_ptr == 0 && this_->_capacity == 0)
;
#endif
#ifdef CV_HAS_rs_alloc
cv_i8 *rs_alloc(RS *this_, cv_i64 sz)
__CPROVER_requires(PRE0 && SZ_OK(sz) && __CPROVER_is_fresh(this_, sizeof(*this_)) && RS_WF_FRESH(this_))
__CPROVER_assigns(this_->_ptr, this_->_capacity, CV_HEAPLOG)
__CPROVER_frees(this_->_ptr)
__CPROVER_ensures(cv_exc_pending == 0)
__CPROVER_ensures(__CPROVER_return_value == this_->_ptr)                                        /* always the storage's own block   */
__CPROVER_ensures(RS_WF_POST(this_) && this_->_capacity >= sz)
__CPROVER_ensures(__CPROVER_rw_ok(__CPROVER_return_value, sz))                                  /* at least as large as requested   */
__CPROVER_ensures(this_->_capacity >= __CPROVER_old(this_->_capacity))                          /* capacity never shrinks           */
__CPROVER_ensures(RS_ALLOC_POST(this_, sz, __CPROVER_old(this_->_ptr), __CPROVER_old(this_->_capacity)))
;
#endif
#ifdef CV_HAS_rs_dealloc
void rs_dealloc(cv_i8 *ptr, cv_i64 sz)
__CPROVER_requires(PRE0)
__CPROVER_assigns()
__CPROVER_ensures(cv_exc_pending == 0 && HEAP_UNCHANGED)                                        /* the own block is never freed by dealloc */
;
#endif
#ifdef CV_HAS_rs_dtor
void rs_dtor(RS *this_)
__CPROVER_requires(PRE0 && __CPROVER_is_fresh(this_, sizeof(*this_)) && RS_WF_FRESH(this_))
__CPROVER_assigns(CV_HEAPLOG)
__CPROVER_frees(this_->_ptr)
__CPROVER_ensures(cv_exc_pending == 0 && NO_NEW)
__CPROVER_ensures(gh_frees == __CPROVER_old(gh_frees) + (this_->_ptr != 0 ? 1 : 0))             /* the block dies with the storage, once */
__CPROVER_ensures(this_->_ptr != 0 ==> gh_last_del == this_->_ptr)
;
#endif
#ifdef CV_HAS_rs_move_ctor
void rs_move_ctor(RS *this_, RS *other)
__CPROVER_requires(PRE0 && __CPROVER_is_fresh(this_, sizeof(*this_)) && __CPROVER_is_fresh(other, sizeof(*other)) && RS_WF_FRESH(other))
__CPROVER_assigns(__CPROVER_object_whole(this_), other->_ptr, other->_capacity)
__CPROVER_ensures(cv_exc_pending == 0 && HEAP_UNCHANGED)
__CPROVER_ensures(this_->_ptr == __CPROVER_old(other->_ptr) && this_->_capacity == __CPROVER_old(other->_capacity))   /* block ownership moves */
__CPROVER_ensures(other->_ptr == 0 && other->_capacity == 0)                                                          /* exactly one owner     */
__CPROVER_ensures(RS_WF_POST(this_))
;
#endif
#ifdef CV_HAS_rs_move_assign
#ifndef C19_SELF_ASSIGN
RS *rs_move_assign(RS *this_, RS *other)
__CPROVER_requires(PRE0 && __CPROVER_is_fresh(this_, sizeof(*this_)) && __CPROVER_is_fresh(other, sizeof(*other)) && RS_WF_FRESH(this_) && RS_WF_FRESH(other))
__CPROVER_assigns(this_->_ptr, this_->_capacity, other->_ptr, other->_capacity, CV_HEAPLOG)
__CPROVER_frees(this_->_ptr)
__CPROVER_ensures(cv_exc_pending == 0 && __CPROVER_return_value == this_ && NO_NEW)
__CPROVER_ensures(this_->_ptr == __CPROVER_old(other->_ptr) && this_->_capacity == __CPROVER_old(other->_capacity))
__CPROVER_ensures(other->_ptr == 0 && other->_capacity == 0)
__CPROVER_ensures(gh_frees == __CPROVER_old(gh_frees) + (__CPROVER_old(this_->_ptr) != 0 ? 1 : 0))                    /* own old block released once */
__CPROVER_ensures(__CPROVER_old(this_->_ptr) != 0 ==> gh_last_del == __CPROVER_old(this_->_ptr))
__CPROVER_ensures(RS_WF_POST(this_))
;
#else
RS *rs_move_assign(RS *this_, RS *other)                     /* self-assignment: nothing happens */
__CPROVER_requires(PRE0 && __CPROVER_is_fresh(this_, sizeof(*this_)) && RS_WF_FRESH(this_) && other == this_)
__CPROVER_assigns()
__CPROVER_ensures(cv_exc_pending == 0 && __CPROVER_return_value == this_ && HEAP_UNCHANGED && RS_WF_POST(this_))
;
#endif
#endif
#ifdef CV_HAS_rs_capacity
cv_i64 rs_capacity(RS *this_)
__CPROVER_requires(PRE0 && __CPROVER_is_fresh(this_, sizeof(*this_)))
__CPROVER_assigns()
__CPROVER_ensures(__CPROVER_return_value == this_->_capacity)
;
#endif

/* ------------------------------------------------------------------------------------------------ placement_alloc
 * The policy hands out the caller's buffer; "large enough" and "not used by another live frame" are the caller's documented duties. */
#ifdef CV_HAS_pa_ctor
void pa_ctor(PA *this_, cv_i8 *p)
__CPROVER_requires(PRE0 && __CPROVER_is_fresh(this_, sizeof(*this_)))
__CPROVER_assigns(__CPROVER_object_whole(this_))
__CPROVER_ensures(cv_exc_pending == 0 && this_->_p == p)
;
#endif
#ifdef CV_HAS_pa_alloc
cv_i8 *pa_alloc(PA *this_, cv_i64 sz)
__CPROVER_requires(PRE0 && SZ_OK(sz) && __CPROVER_is_fresh(this_, sizeof(*this_)))
__CPROVER_requires(gh_n >= sz && gh_n < SZMAX && __CPROVER_is_fresh(this_->_p, gh_n))            /* documented: the buffer fits the frame */
__CPROVER_assigns()
__CPROVER_ensures(cv_exc_pending == 0 && HEAP_UNCHANGED)
__CPROVER_ensures(__CPROVER_return_value == this_->_p && __CPROVER_rw_ok(__CPROVER_return_value, sz))
;
#endif
#ifdef CV_HAS_pa_dealloc
void pa_dealloc(cv_i8 *ptr, cv_i64 sz)
__CPROVER_requires(PRE0)
__CPROVER_assigns()
__CPROVER_ensures(cv_exc_pending == 0 && HEAP_UNCHANGED)
;
#endif

/* ------------------------------------------------------------------------------------------------ reusable_storage_mtsafe
 * Functional contract (atomics with sequential semantics, or - in the *_tm units - with interference by other threads at the
 * RMW, see c19_atomics.h).  The own block goes to the caller iff the busy-flag exchange observed "free"; otherwise a fresh heap
 * block.  Trailer: pointer to the owning storage at ptr+sz. */
#ifdef CV_HAS_mt_ctor
void mt_ctor(MT *this_)
__CPROVER_requires(PRE0 && __CPROVER_is_fresh(this_, sizeof(*this_)))
__CPROVER_assigns(__CPROVER_object_whole(this_))
__CPROVER_ensures(cv_exc_pending == 0 && MT_RS(this_)->_ptr == 0 && MT_RS(this_)->_capacity == 0 && MT_BUSY(this_) == 0)
;
#endif
#ifdef CV_HAS_mt_dtor
void mt_dtor(MT *this_)
__CPROVER_requires(PRE0 && __CPROVER_is_fresh(this_, sizeof(*this_)) && RS_WF_FRESH(MT_RS(this_)))
__CPROVER_assigns(CV_HEAPLOG)
__CPROVER_frees(MT_RS(this_)->_ptr)
__CPROVER_ensures(cv_exc_pending == 0 && NO_NEW)
__CPROVER_ensures(gh_frees == __CPROVER_old(gh_frees) + (MT_RS(this_)->_ptr != 0 ? 1 : 0))
__CPROVER_ensures(MT_RS(this_)->_ptr != 0 ==> gh_last_del == MT_RS(this_)->_ptr)
;
#endif
#ifdef CV_HAS_mt_alloc
/* Parameters of the contract.  Sequential units (lib/rt_atomic_seq.c): the decision is based on the entry state.  Thread-modular
 * units (c19_atomics.h defines these): on the state the deciding exchange observed after interference by other threads. */
#ifndef MT_SEEN_BUSY
#define MT_SEEN_BUSY __CPROVER_old(MT_BUSY(this_))
#define MT_P0 __CPROVER_old(MT_RS(this_)->_ptr)
#define MT_C0 __CPROVER_old(MT_RS(this_)->_capacity)
#define MT_BYTE0 gh_byte
#define MT_EXTRA_PRE ((MT_RS(this_)->_ptr != 0 && gh_G < MT_RS(this_)->_capacity) ==> gh_byte == MT_RS(this_)->_ptr[gh_G])
#define MT_EXTRA_ASSIGNS
#define MT_EXTRA_POST 1
#endif
cv_i8 *mt_alloc(MT *this_, cv_i64 sz)
__CPROVER_requires(PRE0 && SZ_OK(sz) && __CPROVER_is_fresh(this_, sizeof(*this_)) && RS_WF_FRESH(MT_RS(this_)) && MT_BUSY(this_) <= 1 && MT_EXTRA_PRE)
__CPROVER_assigns(MT_RS(this_)->_ptr, MT_RS(this_)->_capacity, MT_BUSY(this_), CV_HEAPLOG MT_EXTRA_ASSIGNS)
__CPROVER_assigns(MT_RS(this_)->_ptr != 0: __CPROVER_object_whole(MT_RS(this_)->_ptr))
__CPROVER_frees(MT_RS(this_)->_ptr)
__CPROVER_ensures(cv_exc_pending == 0)
__CPROVER_ensures(__CPROVER_return_value != 0 && __CPROVER_rw_ok(__CPROVER_return_value, sz + MT_TRAILER))   /* frame + trailer fit     */
__CPROVER_ensures(MT_OWNER(__CPROVER_return_value, sz) == (MT_SEEN_BUSY == 0 ? this_ : (MT *)0))              /* the block says where it belongs: the storage for the own block, nullptr for a heap block */
__CPROVER_ensures(MT_BUSY(this_) == 1)                                                                       /* block is taken from now on */
/* flag was free: the caller gets the own block (grown if needed exactly like reusable_storage for sz + trailer) */
__CPROVER_ensures(MT_SEEN_BUSY == 0 ==> (__CPROVER_return_value == MT_RS(this_)->_ptr && RS_ALLOC_POST(MT_RS(this_), sz + MT_TRAILER, MT_P0, MT_C0)))
/* flag was taken: a live frame may sit in the own block - it is neither handed out nor touched; the caller gets a fresh heap block */
__CPROVER_ensures(MT_SEEN_BUSY != 0 ==> (FRESH_BLOCK(__CPROVER_return_value, sz + MT_TRAILER) && NO_DEL &&
                   __CPROVER_return_value != MT_RS(this_)->_ptr && MT_RS(this_)->_ptr == MT_P0 && MT_RS(this_)->_capacity == MT_C0))
/* ... and no byte of the own block is written (position-wise over the arbitrary index gh_G): the live frame there is undisturbed */
__CPROVER_ensures((MT_SEEN_BUSY != 0 && MT_P0 != 0 && gh_G < MT_C0) ==> MT_RS(this_)->_ptr[gh_G] == MT_BYTE0)
__CPROVER_ensures(RS_WF_POST(MT_RS(this_)))
__CPROVER_ensures(MT_EXTRA_POST)
;
#endif
#ifdef CV_HAS_mt_dealloc
/* NOTE (CBMC): the owner object is allocated THROUGH the ghost pointer gh_me (is_fresh assigns it) and then stored behind the frame
 * with __CPROVER_pointer_equals (which assigns in a requires).  A ghost pointer that is merely *assumed equal* (gh_me == *(ptr+sz))
 * does not enter symex' value sets: a dereference through it reads an unrelated object and the contract silently talks about
 * something else.  Naming the owner as *(MT**)(ptr+sz) everywhere is correct too, but costs minutes (symbolic-offset reads). */
#ifndef C19_GH_ME
#define C19_GH_ME 1
MT *gh_me;
#endif
#ifdef C19_TM      /* thread-modular reading: the frame in the own block carries BLOCK; releasing is the one atomic step */
#define MTD_EXTRA_PRE (__CPROVER_pointer_equals(gh_mt, gh_me) && gh_tok_block <= 1 && (gh_own ==> (gh_tok_block == 1 && MT_BUSY(gh_me) == 1)))
#define MTD_EXTRA_ASSIGNS , TM_LOG
#define MTD_EXTRA_POST (gh_at_n == __CPROVER_old(gh_at_n) + (gh_own ? 1 : 0) && gh_tok_block == (gh_own ? 0 : __CPROVER_old(gh_tok_block)))
#else
#define MTD_EXTRA_PRE 1
#define MTD_EXTRA_ASSIGNS
#define MTD_EXTRA_POST 1
#endif
void mt_dealloc(cv_i8 *ptr, cv_i64 sz)
__CPROVER_requires(PRE0 && SZ_OK(sz))
__CPROVER_requires(gh_n >= sz + MT_TRAILER && gh_n < SZMAX + 64 && __CPROVER_is_fresh(ptr, gh_n))            /* the block alloc(sz) returned   */
__CPROVER_requires(__CPROVER_is_fresh(gh_me, sizeof(MT)))                                                    /* its owner is still alive (documented) */
__CPROVER_requires(gh_own <= 1 && (gh_own ==> __CPROVER_pointer_equals(MT_OWNER(ptr, sz), gh_me)) && (!gh_own ==> MT_OWNER(ptr, sz) == (MT *)0))   /* trailer: the storage for its own block, nullptr for a heap fallback */
__CPROVER_requires(MT_BUSY(gh_me) <= 1)
__CPROVER_requires(gh_own <= 1 && (gh_own == 1) == (MT_RS(gh_me)->_ptr == ptr))
__CPROVER_requires(gh_own ? MT_RS(gh_me)->_capacity == gh_n : gh_n == sz + MT_TRAILER)                       /* own block: capacity bytes; fallback: sz+8 */
__CPROVER_requires(MTD_EXTRA_PRE)
__CPROVER_assigns(MT_BUSY(gh_me), CV_HEAPLOG MTD_EXTRA_ASSIGNS)
__CPROVER_frees(ptr)
__CPROVER_ensures(cv_exc_pending == 0 && NO_NEW)
/* own block: never freed, stays valid, only the busy flag is released */
__CPROVER_ensures(gh_own ==> (NO_DEL && MT_BUSY(gh_me) == 0 && __CPROVER_rw_ok(ptr, gh_n)))
/* heap fallback: released exactly once; the flag (which belongs to the frame in the own block) is not touched */
__CPROVER_ensures(!gh_own ==> (FREED_ONCE(ptr) && MT_BUSY(gh_me) == __CPROVER_old(MT_BUSY(gh_me))))
__CPROVER_ensures(MT_RS(gh_me)->_ptr == __CPROVER_old(MT_RS(gh_me)->_ptr) && MT_RS(gh_me)->_capacity == __CPROVER_old(MT_RS(gh_me)->_capacity))
__CPROVER_ensures(MTD_EXTRA_POST)
;
#endif

/* ------------------------------------------------------------------------------------------------ stack_storage
 * Shared state *_state = size to reserve next time; block of _alloc_size bytes supplied by operator=(alloca(size)); marker byte at
 * ptr+sz: 0 = caller's block, 1 = heap fallback. */
#ifdef CV_HAS_ss_ctor
void ss_ctor(SS *this_, cv_i64 *state)
__CPROVER_requires(PRE0 && __CPROVER_is_fresh(this_, sizeof(*this_)) && __CPROVER_is_fresh(state, sizeof(*state)))
__CPROVER_assigns(this_->_state, this_->_alloc_size)
__CPROVER_ensures(cv_exc_pending == 0 && this_->_state == state && this_->_alloc_size == *state && *state == __CPROVER_old(*state))
;
#endif
#ifdef CV_HAS_ss_set
void ss_set(SS *this_, cv_i8 *p)
__CPROVER_requires(PRE0 && __CPROVER_is_fresh(this_, sizeof(*this_)))
__CPROVER_assigns(this_->_alloc_ptr)
__CPROVER_ensures(cv_exc_pending == 0 && this_->_alloc_ptr == p)
;
#endif
#ifdef CV_HAS_ss_size
cv_i64 ss_size(SS *this_)
__CPROVER_requires(PRE0 && __CPROVER_is_fresh(this_, sizeof(*this_)))
__CPROVER_assigns()
__CPROVER_ensures(__CPROVER_return_value == this_->_alloc_size)
;
#endif
#ifdef CV_HAS_ss_alloc
cv_i8 *ss_alloc(SS *this_, cv_i64 sz)
__CPROVER_requires(PRE0 && SZ_OK(sz) && __CPROVER_is_fresh(this_, sizeof(*this_)) && __CPROVER_is_fresh(this_->_state, sizeof(cv_i64)))
__CPROVER_requires(this_->_alloc_size < SZMAX + 64)
__CPROVER_requires(this_->_alloc_size >= 1 ==> __CPROVER_is_fresh(this_->_alloc_ptr, this_->_alloc_size))    /* documented: storage = alloca(storage) */
__CPROVER_assigns(*this_->_state, CV_HEAPLOG)
__CPROVER_assigns(this_->_alloc_size >= 1: __CPROVER_object_whole(this_->_alloc_ptr))
__CPROVER_ensures(cv_exc_pending == 0)
__CPROVER_ensures(__CPROVER_return_value != 0 && __CPROVER_rw_ok(__CPROVER_return_value, sz + 1))            /* frame + marker byte fit */
/* fits: the caller's (stack) block, marker 0, no heap traffic, shared state untouched */
__CPROVER_ensures(sz + 1 <= this_->_alloc_size ==> (__CPROVER_return_value == this_->_alloc_ptr && __CPROVER_return_value[sz] == 0 &&
                   HEAP_UNCHANGED && *this_->_state == __CPROVER_old(*this_->_state)))
/* does not fit: fresh heap block, marker 1, shared state learns the size so that the next activation fits (warm-up) */
__CPROVER_ensures(sz + 1 > this_->_alloc_size ==> (FRESH_BLOCK(__CPROVER_return_value, sz + 1) && NO_DEL && __CPROVER_return_value[sz] == 1 &&
                   *this_->_state == sz + 1))
;
#endif
#ifdef CV_HAS_ss_dealloc
void ss_dealloc(cv_i8 *ptr, cv_i64 sz)
__CPROVER_requires(PRE0 && SZ_OK(sz) && __CPROVER_is_fresh(ptr, sz + 1) && gh_flag == ptr[sz])
__CPROVER_assigns(CV_HEAPLOG)
__CPROVER_frees(ptr)
__CPROVER_ensures(cv_exc_pending == 0 && NO_NEW)
__CPROVER_ensures(gh_flag != 0 ==> FREED_ONCE(ptr))                                                          /* heap fallback: released once */
__CPROVER_ensures(gh_flag == 0 ==> (NO_DEL && __CPROVER_rw_ok(ptr, sz + 1)))                                 /* caller's block: never freed  */
;
#endif

/* ------------------------------------------------------------------------------------------------ reusable_buffer_storage<std::vector<char>>
 * over the abstract vector of lib/model_vector_char.c */
#ifdef CV_HAS_rb_alloc
#define VC_WF_FRESH (vc_size <= vc_cap && vc_cap < SZMAX + 64 && ((vc_cap == 0 && vc_data == 0) || (vc_cap >= 1 && __CPROVER_is_fresh(vc_data, vc_cap))))
cv_i8 *rb_alloc(RB *this_, cv_i64 sz)
__CPROVER_requires(PRE0 && SZ_OK(sz) && __CPROVER_is_fresh(this_, sizeof(*this_)) && __CPROVER_is_fresh(this_->_buff, sizeof(VECC)))
__CPROVER_requires(vc_self == this_->_buff && VC_WF_FRESH)
__CPROVER_assigns(VC_STATE, CV_HEAPLOG)
__CPROVER_frees(vc_data)
__CPROVER_ensures(cv_exc_pending == 0)
__CPROVER_ensures(__CPROVER_return_value == vc_data && __CPROVER_return_value != 0)                          /* the buffer's element array */
__CPROVER_ensures(vc_size >= sz && vc_size <= vc_cap && __CPROVER_rw_ok(__CPROVER_return_value, vc_size))    /* at least sz bytes of it    */
__CPROVER_ensures(vc_size == (__CPROVER_old(vc_size) >= sz ? __CPROVER_old(vc_size) : sz))                   /* the buffer never shrinks   */
__CPROVER_ensures(__CPROVER_old(vc_size) >= sz ==> (HEAP_UNCHANGED && vc_data == __CPROVER_old(vc_data) &&   /* warm: buffer untouched     */
                   gh_vc_resize_calls == __CPROVER_old(gh_vc_resize_calls)))
;
#endif
#ifdef CV_HAS_rb_ctor
void rb_ctor(RB *this_, VECC *v)
__CPROVER_requires(PRE0 && __CPROVER_is_fresh(this_, sizeof(*this_)))
__CPROVER_assigns(__CPROVER_object_whole(this_))
__CPROVER_ensures(cv_exc_pending == 0 && this_->_buff == v)
;
#endif
#ifdef CV_HAS_rb_dealloc
void rb_dealloc(cv_i8 *ptr, cv_i64 sz)
__CPROVER_requires(PRE0)
__CPROVER_assigns()
__CPROVER_ensures(cv_exc_pending == 0 && HEAP_UNCHANGED)
;
#endif

/* ------------------------------------------------------------------------------------------------ promise_extra_storage<Extra, Alloc>
 * Construction / destruction of the extra object are observed through the hooks of the driver's Extra (c19_extra_ctor/_dtor).
 * In the contract units the factory call (cocls::function<Extra()>::operator()) is an assumed-contract boundary: "constructs one
 * Extra in the place it is given"; the lemma unit pes_pair runs the real function<> machinery instead. */
#if defined(CV_HAS_pes_alloc) || defined(CV_HAS_pesr_alloc) || defined(CV_HAS_pesm_alloc) || defined(CV_HAS_xs_alloc)   /* abstract callee (names_opt): if alloc stops calling the factory the stub is simply unused and EXTRA_MADE_AT fails */
unsigned gh_fac_calls; FNB *gh_fac_this; cv_i64 gh_fac_v;
#define FAC_LOG gh_fac_calls, gh_fac_this
void factory_call(EXTRA *ret, FNB *f) {            /* assumed contract on the factory: makes exactly one Extra(gh_fac_v) in *ret */
  gh_fac_calls++; gh_fac_this = f;
  ret->v = gh_fac_v; ret->w = ~gh_fac_v; cvx_c19_extra_ctor((cv_i8 *)ret, gh_fac_v); }
#define EXTRA_MADE_AT(ret, sz, this_) \
   (gh_x_ctor == __CPROVER_old(gh_x_ctor) + 1 && gh_x_ctor_at == (ret) + (sz) && gh_x_dtor == __CPROVER_old(gh_x_dtor)   /* constructed exactly once, right behind the frame */ \
    && gh_fac_calls == __CPROVER_old(gh_fac_calls) + 1 && gh_fac_this == (FNB *)&(this_)->_factory                       /* by this storage's factory                          */ \
    && (this_)->inventory == (EXTRA *)((ret) + (sz))                                                                     /* reachable through the storage as soon as alloc returns */ \
    && (this_)->inventory->v == gh_fac_v && (this_)->inventory->w == ~gh_fac_v)                                          /* and it is the factory's object                    */
#endif
#ifdef CV_HAS_pes_alloc
cv_i8 *pes_alloc(PES *this_, cv_i64 sz)
__CPROVER_requires(PRE0 && SZ_OK(sz) && __CPROVER_is_fresh(this_, sizeof(*this_)))
__CPROVER_assigns(this_->inventory, CV_HEAPLOG, X_LOG, FAC_LOG)
__CPROVER_ensures(cv_exc_pending == 0)
__CPROVER_ensures(__CPROVER_return_value != 0 && __CPROVER_rw_ok(__CPROVER_return_value, sz + sizeof(EXTRA)))   /* frame + extra object fit */
__CPROVER_ensures(FRESH_BLOCK(__CPROVER_return_value, sz + sizeof(EXTRA)) && NO_DEL)                           /* Alloc = default_storage  */
__CPROVER_ensures(EXTRA_MADE_AT(__CPROVER_return_value, sz, this_))
;
#endif
#ifdef CV_HAS_pes_dealloc
void pes_dealloc(cv_i8 *ptr, cv_i64 sz)
__CPROVER_requires(PRE0 && SZ_OK(sz) && __CPROVER_is_fresh(ptr, sz + sizeof(EXTRA)))
__CPROVER_assigns(CV_HEAPLOG, X_LOG)
__CPROVER_frees(ptr)
__CPROVER_ensures(cv_exc_pending == 0 && NO_NEW)
__CPROVER_ensures(gh_x_dtor == __CPROVER_old(gh_x_dtor) + 1 && gh_x_dtor_at == ptr + sz && gh_x_ctor == __CPROVER_old(gh_x_ctor))   /* destroyed exactly once (while valid: hook assertion) */
__CPROVER_ensures(FREED_ONCE(ptr))                                                                                                  /* then the block is released once */
;
#endif
#ifdef CV_HAS_pesr_alloc
cv_i8 *pesr_alloc(PESR *this_, cv_i64 sz)
__CPROVER_requires(PRE0 && SZ_OK(sz) && __CPROVER_is_fresh(this_, sizeof(*this_)) && RS_WF_FRESH(MT_RS(this_)))
__CPROVER_assigns(this_->inventory, MT_RS(this_)->_ptr, MT_RS(this_)->_capacity, CV_HEAPLOG, X_LOG, FAC_LOG)
__CPROVER_assigns(MT_RS(this_)->_ptr != 0: __CPROVER_object_whole(MT_RS(this_)->_ptr))
__CPROVER_frees(MT_RS(this_)->_ptr)
__CPROVER_ensures(cv_exc_pending == 0)
__CPROVER_ensures(__CPROVER_return_value != 0 && __CPROVER_rw_ok(__CPROVER_return_value, sz + sizeof(EXTRA)))
__CPROVER_ensures(__CPROVER_return_value == MT_RS(this_)->_ptr && RS_WF_POST(MT_RS(this_)))                    /* Alloc = reusable_storage: own block */
__CPROVER_ensures(RS_ALLOC_POST(MT_RS(this_), sz + sizeof(EXTRA), __CPROVER_old(MT_RS(this_)->_ptr), __CPROVER_old(MT_RS(this_)->_capacity)))
__CPROVER_ensures(EXTRA_MADE_AT(__CPROVER_return_value, sz, this_))
;
#endif
#ifdef CV_HAS_pesr_dealloc
void pesr_dealloc(cv_i8 *ptr, cv_i64 sz)
__CPROVER_requires(PRE0 && SZ_OK(sz) && __CPROVER_is_fresh(ptr, sz + sizeof(EXTRA)))
__CPROVER_assigns(X_LOG)
__CPROVER_ensures(cv_exc_pending == 0 && HEAP_UNCHANGED && __CPROVER_rw_ok(ptr, sz + sizeof(EXTRA)))           /* own block of the base storage: never freed */
__CPROVER_ensures(gh_x_dtor == __CPROVER_old(gh_x_dtor) + 1 && gh_x_dtor_at == ptr + sz && gh_x_ctor == __CPROVER_old(gh_x_ctor))
;
#endif

/* ---- promise_extra_storage<T, Alloc> against an ABSTRACT inner policy (units *_alloc_hs / *_dealloc_hs): the SIZE HAND-SHAKE.
 * From the property: the frame's memory comes from the inner policy and goes back to it - "released exactly once", "exclusively its
 * own", "no further heap memory after warm-up" are clauses of the inner policy, and every inner policy decides what to do with a
 * returned block from bookkeeping it keeps AT ptr+size (owner pointer, marker byte).  They carry over to the combined policy only
 * if the inner policy gets back EXACTLY the block it handed out, with EXACTLY the size that was requested from it for that block
 * (= frame size + size of the extra object), after the extra object has been destroyed exactly once.  The contracts below say
 * that about alloc and dealloc for ANY inner policy: Alloc::alloc / Alloc::dealloc are abstract callees that record (count,
 * object, arguments, number of destructions seen so far); what they do with the block is the subject of the inner policy's units.
 * One generic contract (aliases xs_alloc / xs_dealloc, type XS) serves all instances (Alloc = default / reusable / mtsafe). */
#ifdef C19_INNER_ABSTRACT
unsigned gh_in_alloc_calls, gh_in_dealloc_calls, gh_in_dtor_seen; void *gh_in_this; cv_i64 gh_in_alloc_sz, gh_in_dealloc_sz; cv_i8 *gh_in_ret, *gh_in_dealloc_ptr;
#define IN_LOG gh_in_alloc_calls, gh_in_dealloc_calls, gh_in_dtor_seen, gh_in_this, gh_in_alloc_sz, gh_in_dealloc_sz, gh_in_ret, gh_in_dealloc_ptr
#ifdef CV_HAS_inner_alloc           /* Alloc::alloc(n): some block of exactly n bytes (not counted as heap traffic of promise_extra_storage) */
#ifdef C19_INNER_THIS
cv_i8 *inner_alloc(C19_INNER_THIS *st, cv_i64 n) { gh_in_this = st;
#else                               /* default_storage::alloc is static */
cv_i8 *inner_alloc(cv_i64 n) { gh_in_this = 0;
#endif
  gh_in_alloc_calls++; gh_in_alloc_sz = n; __CPROVER_assume(n < SZMAX + 64); gh_in_ret = malloc(n); __CPROVER_assume(gh_in_ret != 0) /* allocation failure assumed away, as in lib/model_heap_log.c */; return gh_in_ret; }
#endif
#ifdef CV_HAS_inner_dealloc         /* Alloc::dealloc(p, n): records what comes back and when; the block's fate is the inner policy's business */
void inner_dealloc(cv_i8 *p, cv_i64 n) {
  __CPROVER_assert(__CPROVER_rw_ok(p, n), "inner policy gets back a block that is (still) valid for the size it is told");
  gh_in_dealloc_calls++; gh_in_dealloc_ptr = p; gh_in_dealloc_sz = n; gh_in_dtor_seen = gh_x_dtor; }
#endif
#ifdef C19_INNER_THIS
#define IN_ON_BASE(this_) (gh_in_this == (void *)(this_))     /* Alloc is the base sub-object (offset 0) of this storage */
#else
#define IN_ON_BASE(this_) 1
#endif
#ifdef CV_HAS_xs_alloc
cv_i8 *xs_alloc(XS *this_, cv_i64 sz)
__CPROVER_requires(PRE0 && SZ_OK(sz) && __CPROVER_is_fresh(this_, sizeof(*this_)))
__CPROVER_assigns(this_->inventory, X_LOG, FAC_LOG, IN_LOG)
__CPROVER_ensures(cv_exc_pending == 0 && HEAP_UNCHANGED)                                                       /* every byte comes from the inner policy */
__CPROVER_ensures(gh_in_alloc_calls == __CPROVER_old(gh_in_alloc_calls) + 1 && gh_in_dealloc_calls == __CPROVER_old(gh_in_dealloc_calls) && IN_ON_BASE(this_))   /* exactly one request to the inner policy of THIS storage, nothing handed back */
__CPROVER_ensures(gh_in_alloc_sz == sz + sizeof(EXTRA))                                                        /* hand-shake, part 1: the inner policy is asked for frame size + size of the extra object */
__CPROVER_ensures(__CPROVER_return_value != 0 && __CPROVER_return_value == gh_in_ret)                           /* the frame starts exactly where the inner policy's block starts */
__CPROVER_ensures(__CPROVER_rw_ok(__CPROVER_return_value, sz + sizeof(EXTRA)))                                 /* frame + extra object fit */
__CPROVER_ensures(EXTRA_MADE_AT(__CPROVER_return_value, sz, this_))
;
#endif
#ifdef CV_HAS_xs_dealloc
void xs_dealloc(cv_i8 *ptr, cv_i64 sz)
__CPROVER_requires(PRE0 && SZ_OK(sz) && __CPROVER_is_fresh(ptr, sz + sizeof(EXTRA)))                           /* the block alloc(sz) got from the inner policy for sz + sizeof(T) */
__CPROVER_assigns(X_LOG, IN_LOG)
__CPROVER_ensures(cv_exc_pending == 0 && HEAP_UNCHANGED)
__CPROVER_ensures(gh_x_dtor == __CPROVER_old(gh_x_dtor) + 1 && gh_x_dtor_at == ptr + sz && gh_x_ctor == __CPROVER_old(gh_x_ctor))   /* extra object destroyed exactly once (while valid: hook assertion) */
__CPROVER_ensures(gh_in_dealloc_calls == __CPROVER_old(gh_in_dealloc_calls) + 1 && gh_in_alloc_calls == __CPROVER_old(gh_in_alloc_calls))   /* the block goes back to the inner policy exactly once */
__CPROVER_ensures(gh_in_dealloc_ptr == ptr)                                                                    /* EXACTLY the block the inner policy handed out */
__CPROVER_ensures(gh_in_dealloc_sz == sz + sizeof(EXTRA))                                                      /* hand-shake, part 2: with EXACTLY the size that was requested from it (frame size + size of the extra object) - its trailer sits at ptr + that size */
__CPROVER_ensures(gh_in_dtor_seen == __CPROVER_old(gh_x_dtor) + 1)                                             /* ... and only after the extra object is gone */
;
#endif
#endif /* C19_INNER_ABSTRACT */

/* ---- composed: promise_extra_storage<Extra, reusable_storage_mtsafe>, REAL bodies of both layers.  The thread-safe storage keeps the
 * owner pointer behind what IT was asked for, i.e. behind frame AND extra object (offset PM_OFF(sz)); the clauses are those of
 * mt_alloc / mt_dealloc for the size sz + sizeof(T), plus the life of the extra object. */
#define PM_OFF(sz) ((sz) + sizeof(EXTRA))
#define PM_MT(t)   ((MT *)(t))
#ifdef CV_HAS_pesm_alloc
cv_i8 *pesm_alloc(PESM *this_, cv_i64 sz)
__CPROVER_requires(PRE0 && SZ_OK(sz) && __CPROVER_is_fresh(this_, sizeof(*this_)) && RS_WF_FRESH(MT_RS(this_)) && MT_BUSY(PM_MT(this_)) <= 1)
__CPROVER_assigns(this_->inventory, MT_RS(this_)->_ptr, MT_RS(this_)->_capacity, MT_BUSY(PM_MT(this_)), CV_HEAPLOG, X_LOG, FAC_LOG)
__CPROVER_assigns(MT_RS(this_)->_ptr != 0: __CPROVER_object_whole(MT_RS(this_)->_ptr))
__CPROVER_frees(MT_RS(this_)->_ptr)
__CPROVER_ensures(cv_exc_pending == 0)
__CPROVER_ensures(__CPROVER_return_value != 0 && __CPROVER_rw_ok(__CPROVER_return_value, PM_OFF(sz) + MT_TRAILER))       /* frame + extra object + owner trailer fit */
__CPROVER_ensures(MT_OWNER(__CPROVER_return_value, PM_OFF(sz)) == (__CPROVER_old(MT_BUSY(PM_MT(this_))) == 0 ? PM_MT(this_) : (MT *)0))   /* the block says where it belongs, BEHIND the extra object */
__CPROVER_ensures(MT_BUSY(PM_MT(this_)) == 1)
__CPROVER_ensures(__CPROVER_old(MT_BUSY(PM_MT(this_))) == 0 ==> (__CPROVER_return_value == MT_RS(this_)->_ptr &&         /* flag free: own block, grown if needed, no heap traffic when it fits (warm-up) */
                   RS_ALLOC_POST(MT_RS(this_), PM_OFF(sz) + MT_TRAILER, __CPROVER_old(MT_RS(this_)->_ptr), __CPROVER_old(MT_RS(this_)->_capacity))))
__CPROVER_ensures(__CPROVER_old(MT_BUSY(PM_MT(this_))) != 0 ==> (FRESH_BLOCK(__CPROVER_return_value, PM_OFF(sz) + MT_TRAILER) && NO_DEL &&   /* flag taken: fresh heap block, own block untouched */
                   __CPROVER_return_value != MT_RS(this_)->_ptr && MT_RS(this_)->_ptr == __CPROVER_old(MT_RS(this_)->_ptr) && MT_RS(this_)->_capacity == __CPROVER_old(MT_RS(this_)->_capacity)))
__CPROVER_ensures(RS_WF_POST(MT_RS(this_)))
__CPROVER_ensures(EXTRA_MADE_AT(__CPROVER_return_value, sz, this_))
;
#endif
#ifdef CV_HAS_pesm_dealloc
#ifndef C19_GH_ME
#define C19_GH_ME 1
MT *gh_me;                   /* the owning storage (see the NOTE at mt_dealloc on why it is allocated through this ghost) */
#endif
void pesm_dealloc(cv_i8 *ptr, cv_i64 sz)
__CPROVER_requires(PRE0 && SZ_OK(sz))
__CPROVER_requires(gh_n >= PM_OFF(sz) + MT_TRAILER && gh_n < SZMAX + 64 && __CPROVER_is_fresh(ptr, gh_n))                /* the block alloc(sz) returned; the extra object at ptr+sz has ANY content */
__CPROVER_requires(__CPROVER_is_fresh(gh_me, sizeof(MT)))                                                                /* its owner is still alive (documented) */
__CPROVER_requires(gh_own <= 1 && (gh_own ==> __CPROVER_pointer_equals(MT_OWNER(ptr, PM_OFF(sz)), gh_me)) && (!gh_own ==> MT_OWNER(ptr, PM_OFF(sz)) == (MT *)0))   /* trailer as alloc left it: behind frame + extra object */
__CPROVER_requires(MT_BUSY(gh_me) <= 1)
__CPROVER_requires((gh_own == 1) == (MT_RS(gh_me)->_ptr == ptr))
__CPROVER_requires(gh_own ? MT_RS(gh_me)->_capacity == gh_n : gh_n == PM_OFF(sz) + MT_TRAILER)
__CPROVER_assigns(MT_BUSY(gh_me), CV_HEAPLOG, X_LOG)
__CPROVER_frees(ptr)
__CPROVER_ensures(cv_exc_pending == 0 && NO_NEW)
__CPROVER_ensures(gh_x_dtor == __CPROVER_old(gh_x_dtor) + 1 && gh_x_dtor_at == ptr + sz && gh_x_ctor == __CPROVER_old(gh_x_ctor))   /* extra object destroyed exactly once (while valid: hook assertion) */
__CPROVER_ensures(gh_own ==> (NO_DEL && MT_BUSY(gh_me) == 0 && __CPROVER_rw_ok(ptr, gh_n)))                              /* own block: NOT released (the storage still owns it), busy flag cleared */
__CPROVER_ensures(!gh_own ==> (FREED_ONCE(ptr) && MT_BUSY(gh_me) == __CPROVER_old(MT_BUSY(gh_me))))                      /* heap fallback: released exactly once, flag of the own block's frame untouched */
__CPROVER_ensures(MT_RS(gh_me)->_ptr == __CPROVER_old(MT_RS(gh_me)->_ptr) && MT_RS(gh_me)->_capacity == __CPROVER_old(MT_RS(gh_me)->_capacity))
;
#endif

#ifdef CV_HAS_pes_arrow
EXTRA *pes_arrow(PES *this_)
__CPROVER_requires(PRE0 && __CPROVER_is_fresh(this_, sizeof(*this_)))
__CPROVER_assigns()
__CPROVER_ensures(__CPROVER_return_value == this_->inventory)
;
#endif
#ifdef CV_HAS_pes_deref
EXTRA *pes_deref(PES *this_)
__CPROVER_requires(PRE0 && __CPROVER_is_fresh(this_, sizeof(*this_)))
__CPROVER_assigns()
__CPROVER_ensures(__CPROVER_return_value == this_->inventory)
;
#endif
#endif /* C19_LEMMA */
