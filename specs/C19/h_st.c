/* C19 - harnesses of the contract units (one per unit, selected by goto-cc --function).  Arguments are left uninitialised
 * (nondeterministic) and shaped by the requires clauses of the enforced contract; the SENTINEL must be reachable. */
#define SENT(what) __CPROVER_assert(0, "SENTINEL reachable after " what)
#ifdef CV_HAS_ds_alloc
void h_ds_alloc(void)    { cv_i64 sz; ds_alloc(sz); SENT("default_storage::alloc"); }
#endif
#ifdef CV_HAS_ds_dealloc
void h_ds_dealloc(void)  { cv_i8 *p; cv_i64 sz; ds_dealloc(p, sz); SENT("default_storage::dealloc"); }
#endif
#ifdef CV_HAS_rs_ctor
void h_rs_ctor(void)     { RS *r; rs_ctor(r); SENT("reusable_storage()"); }
#endif
#ifdef CV_HAS_rs_alloc
void h_rs_alloc(void)    { RS *r; cv_i64 sz; rs_alloc(r, sz); SENT("reusable_storage::alloc"); }
#endif
#ifdef CV_HAS_rs_dealloc
void h_rs_dealloc(void)  { cv_i8 *p; cv_i64 sz; rs_dealloc(p, sz); SENT("reusable_storage::dealloc"); }
#endif
#ifdef CV_HAS_rs_dtor
void h_rs_dtor(void)     { RS *r; rs_dtor(r); SENT("~reusable_storage"); }
#endif
#ifdef CV_HAS_rs_move_ctor
void h_rs_move_ctor(void) { RS *r, *o; rs_move_ctor(r, o); SENT("reusable_storage(reusable_storage&&)"); }
#endif
#ifdef CV_HAS_rs_move_assign
void h_rs_move_assign(void) { RS *r, *o; rs_move_assign(r, o); SENT("reusable_storage::operator=(&&)"); }
#endif
#ifdef CV_HAS_rs_capacity
void h_rs_capacity(void) { RS *r; rs_capacity(r); SENT("reusable_storage::capacity"); }
#endif
#ifdef CV_HAS_pa_ctor
void h_pa_ctor(void)     { PA *a; cv_i8 *p; pa_ctor(a, p); SENT("placement_alloc(void*)"); }
#endif
#ifdef CV_HAS_pa_alloc
void h_pa_alloc(void)    { PA *a; cv_i64 sz; pa_alloc(a, sz); SENT("placement_alloc::alloc"); }
#endif
#ifdef CV_HAS_pa_dealloc
void h_pa_dealloc(void)  { cv_i8 *p; cv_i64 sz; pa_dealloc(p, sz); SENT("placement_alloc::dealloc"); }
#endif
#ifdef CV_HAS_mt_ctor
void h_mt_ctor(void)     { MT *m; mt_ctor(m); SENT("reusable_storage_mtsafe()"); }
#endif
#ifdef CV_HAS_mt_dtor
void h_mt_dtor(void)     { MT *m; mt_dtor(m); SENT("~reusable_storage_mtsafe"); }
#endif
#ifdef CV_HAS_mt_alloc
void h_mt_alloc(void)    { MT *m; cv_i64 sz; mt_alloc(m, sz); SENT("reusable_storage_mtsafe::alloc"); }
#endif
#ifdef CV_HAS_mt_dealloc
void h_mt_dealloc(void)  { cv_i8 *p; cv_i64 sz; mt_dealloc(p, sz); SENT("reusable_storage_mtsafe::dealloc"); }
#endif
#ifdef CV_HAS_ss_ctor
void h_ss_ctor(void)     { SS *s; cv_i64 *st; ss_ctor(s, st); SENT("stack_storage(size_t&)"); }
#endif
#ifdef CV_HAS_ss_set
void h_ss_set(void)      { SS *s; cv_i8 *p; ss_set(s, p); SENT("stack_storage::operator=(void*)"); }
#endif
#ifdef CV_HAS_ss_size
void h_ss_size(void)     { SS *s; ss_size(s); SENT("stack_storage::operator size_t"); }
#endif
#ifdef CV_HAS_ss_alloc
void h_ss_alloc(void)    { SS *s; cv_i64 sz; ss_alloc(s, sz); SENT("stack_storage::alloc"); }
#endif
#ifdef CV_HAS_ss_dealloc
void h_ss_dealloc(void)  { cv_i8 *p; cv_i64 sz; ss_dealloc(p, sz); SENT("stack_storage::dealloc"); }
#endif
#ifdef CV_HAS_rb_ctor
void h_rb_ctor(void)     { RB *b; VECC *v; rb_ctor(b, v); SENT("reusable_buffer_storage(Buffer&)"); }
#endif
#ifdef CV_HAS_rb_alloc
void h_rb_alloc(void)    { RB *b; cv_i64 sz; rb_alloc(b, sz); SENT("reusable_buffer_storage::alloc"); }
#endif
#ifdef CV_HAS_rb_dealloc
void h_rb_dealloc(void)  { cv_i8 *p; cv_i64 sz; rb_dealloc(p, sz); SENT("reusable_buffer_storage::dealloc"); }
#endif
#ifdef CV_HAS_pes_alloc
void h_pes_alloc(void)   { PES *s; cv_i64 sz; pes_alloc(s, sz); SENT("promise_extra_storage<Extra>::alloc"); }
#endif
#ifdef CV_HAS_pes_dealloc
void h_pes_dealloc(void) { cv_i8 *p; cv_i64 sz; pes_dealloc(p, sz); SENT("promise_extra_storage<Extra>::dealloc"); }
#endif
#ifdef CV_HAS_pesr_alloc
void h_pesr_alloc(void)  { PESR *s; cv_i64 sz; pesr_alloc(s, sz); SENT("promise_extra_storage<Extra,reusable_storage>::alloc"); }
#endif
#ifdef CV_HAS_pesr_dealloc
void h_pesr_dealloc(void) { cv_i8 *p; cv_i64 sz; pesr_dealloc(p, sz); SENT("promise_extra_storage<Extra,reusable_storage>::dealloc"); }
#endif
#ifdef CV_HAS_pes_arrow
void h_pes_arrow(void)   { PES *s; pes_arrow(s); SENT("promise_extra_storage::operator->"); }
#endif
#ifdef CV_HAS_pes_deref
void h_pes_deref(void)   { PES *s; pes_deref(s); SENT("promise_extra_storage::operator*"); }
#endif
#ifdef CV_HAS_pesm_alloc
void h_pesm_alloc(void)  { PESM *s; cv_i64 sz; pesm_alloc(s, sz); SENT("promise_extra_storage<Extra,reusable_storage_mtsafe>::alloc"); }
#endif
#ifdef CV_HAS_pesm_dealloc
void h_pesm_dealloc(void) { cv_i8 *p; cv_i64 sz; pesm_dealloc(p, sz); SENT("promise_extra_storage<Extra,reusable_storage_mtsafe>::dealloc"); }
#endif
#ifdef CV_HAS_xs_alloc      /* abstract inner policy (size hand-shake) */
void h_xs_alloc(void)    { XS *s; cv_i64 sz; xs_alloc(s, sz); SENT("promise_extra_storage<Extra,Alloc>::alloc over an abstract inner policy"); }
#endif
#ifdef CV_HAS_xs_dealloc
void h_xs_dealloc(void)  { cv_i8 *p; cv_i64 sz; xs_dealloc(p, sz); SENT("promise_extra_storage<Extra,Alloc>::dealloc over an abstract inner policy"); }
#endif
