# C19 - Coroutine storage policies give every frame exclusive, correctly freed memory
VEC = 'std::vector<char, std::allocator<char> >'
T = {
    'RS': 'cocls::reusable_storage', 'MT': 'cocls::reusable_storage_mtsafe', 'PA': 'cocls::placement_alloc', 'SS': 'cocls::stack_storage',
    'RB': 'cocls::reusable_buffer_storage<%s >' % VEC, 'VECC': VEC,
    'PES': 'cocls::promise_extra_storage<Extra, cocls::default_storage>', 'PESR': 'cocls::promise_extra_storage<Extra, cocls::reusable_storage>',
    'EXTRA': 'Extra', 'FNB': 'cocls::function_base<64UL, false, Extra>',
}
def cls_rx(cpp):
    import re
    return re.escape(cpp)
RSX, MTX, PAX, SSX, DSX = (cls_rx('cocls::' + c) for c in ('reusable_storage', 'reusable_storage_mtsafe', 'placement_alloc', 'stack_storage', 'default_storage'))
RBX, PESX, PESRX = cls_rx(T['RB']), cls_rx(T['PES']), cls_rx(T['PESR'])
UL = r'unsigned long'
FN = {   # alias -> regex on the demangled signature
    'ds_alloc': r'^%s::alloc\(%s\)$' % (DSX, UL), 'ds_dealloc': r'^%s::dealloc\(void\*, %s\)$' % (DSX, UL),
    'rs_ctor': r'^%s::reusable_storage\(\)$' % RSX, 'rs_move_ctor': r'^%s::reusable_storage\(cocls::reusable_storage&&\)$' % RSX,
    'rs_move_assign': r'^%s::operator=\(cocls::reusable_storage&&\)$' % RSX, 'rs_dtor': r'^%s::~reusable_storage\(\)$' % RSX,
    'rs_alloc': r'^%s::alloc\(%s\)$' % (RSX, UL), 'rs_dealloc': r'^%s::dealloc\(void\*, %s\)$' % (RSX, UL), 'rs_capacity': r'^%s::capacity\(\) const$' % RSX,
    'pa_ctor': r'^%s::placement_alloc\(void\*\)$' % PAX, 'pa_alloc': r'^%s::alloc\(%s\)$' % (PAX, UL), 'pa_dealloc': r'^%s::dealloc\(void\*, %s\)$' % (PAX, UL),
    'mt_ctor': r'^%s::reusable_storage_mtsafe\(\)$' % MTX, 'mt_dtor': r'^%s::~reusable_storage_mtsafe\(\)$' % MTX,
    'mt_alloc': r'^%s::alloc\(%s\)$' % (MTX, UL), 'mt_dealloc': r'^%s::dealloc\(void\*, %s\)$' % (MTX, UL),
    'ss_ctor': r'^%s::stack_storage\(%s&\)$' % (SSX, UL), 'ss_set': r'^%s::operator=\(void\*\)$' % SSX, 'ss_size': r'^%s::operator %s\(\) const$' % (SSX, UL),
    'ss_alloc': r'^%s::alloc\(%s\)$' % (SSX, UL), 'ss_dealloc': r'^%s::dealloc\(void\*, %s\)$' % (SSX, UL),
    'rb_ctor': r'^%s::reusable_buffer_storage\(std::vector<char, std::allocator<char> >&\)$' % RBX,
    'rb_alloc': r'^%s::alloc\(%s\)$' % (RBX, UL), 'rb_dealloc': r'^%s::dealloc\(void\*, %s\)$' % (RBX, UL),
    'pes_alloc': r'^%s::alloc\(%s\)$' % (PESX, UL), 'pes_dealloc': r'^%s::dealloc\(void\*, %s\)$' % (PESX, UL),
    'pes_arrow': r'^%s::operator->\(\)$' % PESX, 'pes_deref': r'^%s::operator\*\(\)$' % PESX,
    'pesr_alloc': r'^%s::alloc\(%s\)$' % (PESRX, UL), 'pesr_dealloc': r'^%s::dealloc\(void\*, %s\)$' % (PESRX, UL),
    'factory_call': r'^Extra cocls::function_base<64ul, false, Extra>::operator\(\)<>\(\) const$',
}
VEC_BOUNDARY = [r'^std::vector<char, std::allocator<char> >::']
LIBS = ['rt_core.c', 'rt_atomic_seq.c', 'model_heap_log.c']
DEFS = ['CV_NO_HEAP_PRIMS 1']
SPEC = ['C19/st_spec.h', 'C19/h_st.c']

def unit(alias, types=(), extra_names=(), boundary=(), lib=LIBS, name=None, **kw):
    """one enforced contract: alias = function under contract; everything it calls is translated and inlined (real bodies)"""
    names = {alias: FN[alias]}
    for n in extra_names: names[n] = FN[n]
    d = dict(name=name or alias, driver='c19_storage.cpp', roots=[FN[alias]], names=names, types={k: T[k] for k in types},
             boundary=list(boundary), lib=list(lib), defines=list(DEFS), spec=list(SPEC), harness='h_' + alias, enforce=alias,
             under_contract=[FN[alias].strip('^$').replace('\\', '')], timeout=300)
    d.update(kw)
    return d
XH = DEFS + ['C19_EXTRA_HOOKS 1']
FACTORY = dict(extra_names=['factory_call'], boundary=[FN['factory_call']], defines=XH)

UNITS = [
    unit('ds_alloc'), unit('ds_dealloc'),
    unit('rs_ctor', ['RS']), unit('rs_alloc', ['RS']), unit('rs_dealloc', ['RS']), unit('rs_dtor', ['RS']), unit('rs_move_ctor', ['RS']),
    unit('rs_move_assign', ['RS']),
    unit('rs_move_assign', ['RS'], name='rs_move_assign_self', defines=DEFS + ['C19_SELF_ASSIGN 1']),
    unit('rs_capacity', ['RS']),
    unit('pa_ctor', ['PA']), unit('pa_alloc', ['PA']), unit('pa_dealloc', ['PA']),
    unit('mt_ctor', ['MT', 'RS']), unit('mt_dtor', ['MT', 'RS']), unit('mt_alloc', ['MT', 'RS']), unit('mt_dealloc', ['MT', 'RS']),
    unit('ss_ctor', ['SS']), unit('ss_set', ['SS']), unit('ss_size', ['SS']), unit('ss_alloc', ['SS']), unit('ss_dealloc', ['SS']),
    unit('rb_ctor', ['RB', 'VECC']),
    unit('rb_alloc', ['RB', 'VECC'], boundary=VEC_BOUNDARY, lib=LIBS + ['model_vector_char.c']),
    unit('rb_dealloc', ['RB', 'VECC']),
    unit('pes_alloc', ['PES', 'EXTRA', 'FNB'], **FACTORY), unit('pes_dealloc', ['PES', 'EXTRA'], defines=XH),
    unit('pes_arrow', ['PES', 'EXTRA']), unit('pes_deref', ['PES', 'EXTRA']),
    unit('pesr_alloc', ['PESR', 'RS', 'EXTRA', 'FNB'], **FACTORY), unit('pesr_dealloc', ['PESR', 'RS', 'EXTRA'], defines=XH),
]

def life(tag, fns, types, extra_roots=(), boundary=(), lib=LIBS, hooks=False, extra_names=None, **kw):
    """lemma unit: a plain CBMC harness over the real bodies of several members (no contract instrumentation)"""
    names = {f: FN[f] for f in fns}; names.update(extra_names or {})
    d = dict(name='life_' + tag, kind='lemma', driver='c19_storage.cpp', roots=[FN[f] for f in fns] + list(extra_roots), names=names,
             types={k: T[k] for k in types}, boundary=list(boundary), lib=list(lib),
             defines=DEFS + ['C19_LEMMA 1', 'C19_LIFE_%s 1' % tag.upper()] + (['C19_EXTRA_HOOKS 1'] if hooks else []),
             spec=['C19/st_spec.h', 'C19/h_lemmas.c'], harness='h_life_' + tag, under_contract=[], timeout=300)
    d.update(kw)
    return d
BFC = r'^std::bad_function_call::'
import re as _re
POLICIES = [('ds', 'cocls::default_storage'), ('rs', 'cocls::reusable_storage'), ('pa', 'cocls::placement_alloc'), ('mt', 'cocls::reusable_storage_mtsafe'),
            ('ss', 'cocls::stack_storage'), ('rb', T['RB']), ('pes', T['PES']), ('pesr', T['PESR'])]
def ops_unit():
    names = {}; roots = []; boundary = []; uc = []
    for tag, cpp in POLICIES:
        base = r'cocls::custom_allocator_base<%s, cocls::async_promise<int> >::' % _re.escape(cpp)
        names['new_' + tag] = r'^void\* ' + base + r'operator new<int&>\('
        names['new2_' + tag] = r'^void\* ' + base + r'operator new<Host, int&>\('
        names['delete_' + tag] = r'^' + base + r'operator delete\(void\*, unsigned long\)$'
        for k in ('new_', 'new2_', 'delete_'): roots.append(names[k + tag])
        for k in ('_alloc', '_dealloc'):
            names[tag + k] = FN[tag + k]; boundary.append(FN[tag + k])
        uc += ['cocls::custom_allocator_base<%s, cocls::async_promise<int> >::operator new / operator delete' % cpp]
    ty = {k: T[k] for k in ('RS', 'PA', 'MT', 'SS', 'RB', 'PES', 'PESR')}
    return dict(name='ops', kind='lemma', driver='c19_storage.cpp', roots=roots, names=names, types=ty, boundary=boundary, lib=list(LIBS),
                defines=DEFS + ['C19_LEMMA 1', 'C19_OPS 1'], spec=['C19/st_spec.h', 'C19/h_lemmas.c'], harness='h_ops', under_contract=uc, timeout=300)
# thread-modular reading of the mtsafe storage: atomics = protocol primitives with interference by other threads (C19/c19_atomics.h)
TM = dict(lib=['rt_core.c', 'model_heap_log.c'], spec=['C19/c19_atomics.h'] + SPEC, defines=DEFS + ['C19_TM 1'], kind='contract (thread-modular)')
UNITS += [unit('mt_alloc', ['MT', 'RS'], name='mt_alloc_tm', **TM), unit('mt_dealloc', ['MT', 'RS'], name='mt_dealloc_tm', **TM)]
UNITS += [
    life('ds', ['ds_alloc', 'ds_dealloc'], []),
    life('rs', ['rs_ctor', 'rs_alloc', 'rs_dealloc', 'rs_capacity', 'rs_move_ctor', 'rs_dtor'], ['RS']),
    life('mt', ['mt_ctor', 'mt_alloc', 'mt_dealloc', 'mt_dtor'], ['MT', 'RS']),
    life('ss', ['ss_ctor', 'ss_set', 'ss_size', 'ss_alloc', 'ss_dealloc'], ['SS']),
    life('rb', ['rb_ctor', 'rb_alloc', 'rb_dealloc'], ['RB', 'VECC'], boundary=VEC_BOUNDARY, lib=LIBS + ['model_vector_char.c']),
    life('pes', ['pes_alloc', 'pes_dealloc'], ['PES', 'EXTRA'], extra_roots=[r'^drv_pes_ctor$', r'^drv_pes_dtor$'], hooks=True, boundary=[BFC], extra_names={'bad_function_call_ctor': r'^std::bad_function_call::bad_function_call\(\)$'}),
    life('pesr', ['pesr_alloc', 'pesr_dealloc'], ['PESR', 'RS', 'EXTRA'], extra_roots=[r'^drv_pesr_ctor$', r'^drv_pesr_dtor$'], hooks=True, boundary=[BFC], extra_names={'bad_function_call_ctor': r'^std::bad_function_call::bad_function_call\(\)$'}),
    ops_unit(),
]

META = dict(level='proof', level_text='TODO', level_note='TODO', technique='TODO', trusted_base=[], assumptions=[], explanation='see level_text')
