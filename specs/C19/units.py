# C19 - Coroutine storage policies give every frame exclusive, correctly freed memory
VEC = 'std::vector<char, std::allocator<char> >'
T = {
    'RS': 'cocls::reusable_storage', 'MT': 'cocls::reusable_storage_mtsafe', 'PA': 'cocls::placement_alloc', 'SS': 'cocls::stack_storage',
    'RB': 'cocls::reusable_buffer_storage<%s >' % VEC, 'VECC': VEC,
    'PES': 'cocls::promise_extra_storage<Extra, cocls::default_storage>', 'PESR': 'cocls::promise_extra_storage<Extra, cocls::reusable_storage>',
    'EXTRA': 'Extra', 'FNB': 'cocls::function_base<64UL, false, Extra>',
    'PESM': 'cocls::promise_extra_storage<Extra, cocls::reusable_storage_mtsafe>',
}
def cls_rx(cpp):
    import re
    return re.escape(cpp)
RSX, MTX, PAX, SSX, DSX = (cls_rx('cocls::' + c) for c in ('reusable_storage', 'reusable_storage_mtsafe', 'placement_alloc', 'stack_storage', 'default_storage'))
RBX, PESX, PESRX, PESMX = cls_rx(T['RB']), cls_rx(T['PES']), cls_rx(T['PESR']), cls_rx(T['PESM'])
UL = r'unsigned long'
FN = {   # alias -> regex on the demangled signature
    'ds_alloc': r'^%s::alloc\(%s\)$' % (DSX, UL), 'ds_dealloc': r'^%s::dealloc\(void\*, %s\)$' % (DSX, UL),
    'rs_ctor': r'^%s::reusable_storage\(\)$' % RSX, 'rs_move_ctor': r'^%s::reusable_storage\(cocls::reusable_storage&&\)$' % RSX,
    'rs_move_assign': r'^%s::operator=\(cocls::reusable_storage&&\)$' % RSX, 'rs_dtor': r'^%s::~reusable_storage\(\)$' % RSX,
    'rs_alloc': r'^%s::alloc\(%s\)$' % (RSX, UL), 'rs_dealloc': r'^%s::dealloc\(void\*, %s\)$' % (RSX, UL), 'rs_capacity': r'^%s::capacity\(\) const$' % RSX,
    'pa_ctor': r'^%s::placement_alloc\(void\*\)$' % PAX, 'pa_alloc': r'^%s::alloc\(%s\)$' % (PAX, UL), 'pa_dealloc': r'^%s::dealloc\(void\*, %s\)$' % (PAX, UL),
    'mt_ctor': r'^%s::reusable_storage_mtsafe\(\)$' % MTX, 'mt_dtor': r'^%s::~reusable_storage_mtsafe\(\)$' % MTX,
    'mt_alloc': r'^%s::alloc\(%s\)$' % (MTX, UL), 'mt_dealloc': r'^%s::dealloc\(void\*, %s\)$' % (MTX, UL),
    'ss_ctor': r'^%s::stack_storage\(%s&\)$' % (SSX, UL), 'ss_set': r'^%s::operator=\(void\*\)$' % SSX, 'ss_size': r'^%s::operator %s\(\) const$' % (SSX, UL),
    'ss_alloc': r'^%s::alloc\(%s\)$' % (SSX, UL), 'ss_dealloc': r'^%s::dealloc\(void\*, %s\)$' % (SSX, UL),
    'rb_ctor': r'^%s::reusable_buffer_storage\(std::vector<char, std::allocator<char> >&\)$' % RBX,
    'rb_alloc': r'^%s::alloc\(%s\)$' % (RBX, UL), 'rb_dealloc': r'^%s::dealloc\(void\*, %s\)$' % (RBX, UL),
    'pes_alloc': r'^%s::alloc\(%s\)$' % (PESX, UL), 'pes_dealloc': r'^%s::dealloc\(void\*, %s\)$' % (PESX, UL),
    'pes_arrow': r'^%s::operator->\(\)$' % PESX, 'pes_deref': r'^%s::operator\*\(\)$' % PESX,
    'pesr_alloc': r'^%s::alloc\(%s\)$' % (PESRX, UL), 'pesr_dealloc': r'^%s::dealloc\(void\*, %s\)$' % (PESRX, UL),
    'pesm_alloc': r'^%s::alloc\(%s\)$' % (PESMX, UL), 'pesm_dealloc': r'^%s::dealloc\(void\*, %s\)$' % (PESMX, UL),
    'factory_call': r'^Extra cocls::function_base<64ul, false, Extra>::operator\(\)<>\(\) const$',
}
VEC_BOUNDARY = [r'^std::vector<char, std::allocator<char> >::']
LIBS = ['rt_core.c', 'rt_atomic_seq.c', 'model_heap_log.c']
DEFS = ['CV_NO_HEAP_PRIMS 1']
SPEC = ['C19/st_spec.h', 'C19/h_st.c']

def unit(alias, types=(), abstract=(), boundary=(), lib=LIBS, name=None, **kw):
    """one enforced contract: alias = function under contract; everything it calls is translated and inlined (real bodies).
    abstract = aliases of abstract callees (boundary + stub in the spec): names_opt, so that a code change that stops calling them
    fails a postcondition instead of the extraction"""
    names = {alias: FN[alias]}
    d = dict(name=name or alias, driver='c19_storage.cpp', roots=[FN[alias]], names=names, names_opt={n: FN[n] for n in abstract},
             types={k: T[k] for k in types},
             boundary=list(boundary), lib=list(lib), defines=list(DEFS), spec=list(SPEC), harness='h_' + alias, enforce=alias,
             under_contract=[FN[alias].strip('^$').replace('\\', '')], timeout=300)
    d.update(kw)
    return d
XH = DEFS + ['C19_EXTRA_HOOKS 1']
FACTORY = dict(abstract=['factory_call'], boundary=[FN['factory_call']], defines=XH)

UNITS = [
    unit('ds_alloc'), unit('ds_dealloc'),
    unit('rs_ctor', ['RS']), unit('rs_alloc', ['RS']), unit('rs_dealloc', ['RS']), unit('rs_dtor', ['RS']), unit('rs_move_ctor', ['RS']),
    unit('rs_move_assign', ['RS']),
    unit('rs_move_assign', ['RS'], name='rs_move_assign_self', defines=DEFS + ['C19_SELF_ASSIGN 1']),
    unit('rs_capacity', ['RS']),
    unit('pa_ctor', ['PA']), unit('pa_alloc', ['PA']), unit('pa_dealloc', ['PA']),
    unit('mt_ctor', ['MT', 'RS']), unit('mt_dtor', ['MT', 'RS']), unit('mt_alloc', ['MT', 'RS']), unit('mt_dealloc', ['MT', 'RS']),
    unit('ss_ctor', ['SS']), unit('ss_set', ['SS']), unit('ss_size', ['SS']), unit('ss_alloc', ['SS']), unit('ss_dealloc', ['SS']),
    unit('rb_ctor', ['RB', 'VECC']),
    unit('rb_alloc', ['RB', 'VECC'], boundary=VEC_BOUNDARY, lib=LIBS + ['model_vector_char.c']),
    unit('rb_dealloc', ['RB', 'VECC']),
    unit('pes_alloc', ['PES', 'EXTRA', 'FNB'], **FACTORY), unit('pes_dealloc', ['PES', 'EXTRA'], defines=XH),
    unit('pes_arrow', ['PES', 'EXTRA']), unit('pes_deref', ['PES', 'EXTRA']),
    unit('pesr_alloc', ['PESR', 'RS', 'EXTRA', 'FNB'], **FACTORY), unit('pesr_dealloc', ['PESR', 'RS', 'EXTRA'], defines=XH),
    # composed: the REAL reusable_storage_mtsafe (trailer = owner pointer at ptr+size) as inner policy of promise_extra_storage
    unit('pesm_alloc', ['PESM', 'MT', 'RS', 'EXTRA', 'FNB'], timeout=900, **FACTORY), unit('pesm_dealloc', ['PESM', 'MT', 'RS', 'EXTRA'], defines=XH),
]

def hs(tag, cpp, inner, inner_this=None):
    """size hand-shake of promise_extra_storage<Extra, Alloc> with an ABSTRACT inner policy: Alloc::alloc / Alloc::dealloc are boundary
    functions with recording stubs (st_spec.h, C19_INNER_ABSTRACT).  names_opt: a change that stops calling them fails the
    'exactly one call' clause, not the extraction.  One generic contract (aliases xs_alloc / xs_dealloc, type XS) serves all instances."""
    ty = {'XS': T[cpp], 'EXTRA': T['EXTRA'], 'FNB': T['FNB']}
    defs = XH + ['C19_INNER_ABSTRACT 1']
    if inner_this:
        ty[inner_this] = T[inner_this]; defs = defs + ['C19_INNER_THIS %s' % inner_this]
    base = dict(driver='c19_storage.cpp', types=ty, lib=list(LIBS), spec=list(SPEC), defines=defs, timeout=300)
    a = dict(base, name=tag + '_alloc_hs', roots=[FN[tag + '_alloc']], names={'xs_alloc': FN[tag + '_alloc']},
             names_opt={'inner_alloc': FN[inner + '_alloc'], 'factory_call': FN['factory_call']}, boundary=[FN[inner + '_alloc'], FN['factory_call']],
             harness='h_xs_alloc', enforce='xs_alloc', under_contract=[FN[tag + '_alloc'].strip('^$').replace('\\', '')])
    d = dict(base, types={k: v for k, v in ty.items() if k != 'FNB'}, name=tag + '_dealloc_hs', roots=[FN[tag + '_dealloc']], names={'xs_dealloc': FN[tag + '_dealloc']},
             names_opt={'inner_dealloc': FN[inner + '_dealloc']}, boundary=[FN[inner + '_dealloc']],
             harness='h_xs_dealloc', enforce='xs_dealloc', under_contract=[FN[tag + '_dealloc'].strip('^$').replace('\\', '')])
    return [a, d]
UNITS += hs('pes', 'PES', 'ds') + hs('pesr', 'PESR', 'rs', 'RS') + hs('pesm', 'PESM', 'mt', 'MT')

def life(tag, fns, types, extra_roots=(), boundary=(), lib=LIBS, hooks=False, abstract=None, **kw):
    """lemma unit: a plain CBMC harness over the real bodies of several members (no contract instrumentation)"""
    names = {f: FN[f] for f in fns}
    d = dict(name='life_' + tag, kind='lemma', driver='c19_storage.cpp', roots=[FN[f] for f in fns] + list(extra_roots), names=names, names_opt=dict(abstract or {}),
             types={k: T[k] for k in types}, boundary=list(boundary), lib=list(lib),
             defines=DEFS + ['C19_LEMMA 1', 'C19_LIFE_%s 1' % tag.upper()] + (['C19_EXTRA_HOOKS 1'] if hooks else []),
             spec=['C19/st_spec.h', 'C19/h_lemmas.c'], harness='h_life_' + tag, under_contract=[], timeout=300)
    d.update(kw)
    return d
BFC = r'^std::bad_function_call::'
import re as _re
POLICIES = [('ds', 'cocls::default_storage'), ('rs', 'cocls::reusable_storage'), ('pa', 'cocls::placement_alloc'), ('mt', 'cocls::reusable_storage_mtsafe'),
            ('ss', 'cocls::stack_storage'), ('rb', T['RB']), ('pes', T['PES']), ('pesr', T['PESR']), ('pesm', T['PESM'])]
def ops_unit():
    names = {}; names_opt = {}; roots = []; boundary = []; uc = []
    for tag, cpp in POLICIES:
        base = r'cocls::custom_allocator_base<%s, cocls::async_promise<int> >::' % _re.escape(cpp)
        names['new_' + tag] = r'^void\* ' + base + r'operator new<int&>\('
        names['new2_' + tag] = r'^void\* ' + base + r'operator new<Host, int&>\('
        # operator delete is reached through the driver's drv_delete_<tag> (c19_promise_delete<>: calls it as the coroutine's destroy code
        # would, whatever its signature is) - a changed signature then fails the forwarder obligation instead of the extraction
        names['delete_' + tag] = r'^drv_delete_%s$' % tag
        names_opt['opdel_' + tag] = r'^' + base + r'operator delete\(void\*.*\)$'
        for k in ('new_', 'new2_', 'delete_'): roots.append(names[k + tag])
        for k in ('_alloc', '_dealloc'):
            names_opt[tag + k] = FN[tag + k]; boundary.append(FN[tag + k])
        uc += ['cocls::custom_allocator_base<%s, cocls::async_promise<int> >::operator new / operator delete' % cpp]
    ty = {k: T[k] for k in ('RS', 'PA', 'MT', 'SS', 'RB', 'PES', 'PESR', 'PESM')}
    return dict(name='ops', kind='lemma', driver='c19_storage.cpp', roots=roots, names=names, names_opt=names_opt, types=ty, boundary=boundary, lib=list(LIBS),
                defines=DEFS + ['C19_LEMMA 1', 'C19_OPS 1'], spec=['C19/st_spec.h', 'C19/h_lemmas.c'], harness='h_ops', under_contract=uc, timeout=300)
# thread-modular reading of the mtsafe storage: atomics = protocol primitives with interference by other threads (C19/c19_atomics.h)
TM = dict(lib=['rt_core.c', 'model_heap_log.c'], spec=['C19/c19_atomics.h'] + SPEC, defines=DEFS + ['C19_TM 1'], kind='contract (thread-modular)')
def tm(alias, name, extra_defs=()):
    d = dict(TM); d['defines'] = TM['defines'] + list(extra_defs)
    return unit(alias, ['MT', 'RS'], name=name, **d)
# mt_alloc is split by what the other threads did before the deciding exchange (the two cases together are exhaustive)
UNITS += [tm('mt_alloc', 'mt_alloc_tm_flag', ['C19_TM_ENV_GROWS 0']), tm('mt_alloc', 'mt_alloc_tm_grown', ['C19_TM_ENV_GROWS 1']), tm('mt_dealloc', 'mt_dealloc_tm')]
UNITS += [
    life('ds', ['ds_alloc', 'ds_dealloc'], []),
    life('rs', ['rs_ctor', 'rs_alloc', 'rs_dealloc', 'rs_capacity', 'rs_move_ctor', 'rs_dtor'], ['RS']),
    life('mt', ['mt_ctor', 'mt_alloc', 'mt_dealloc', 'mt_dtor'], ['MT', 'RS']),
    life('ss', ['ss_ctor', 'ss_set', 'ss_size', 'ss_alloc', 'ss_dealloc'], ['SS']),
    life('rb', ['rb_ctor', 'rb_alloc', 'rb_dealloc'], ['RB', 'VECC'], boundary=VEC_BOUNDARY, lib=LIBS + ['model_vector_char.c']),
    life('pes', ['pes_alloc', 'pes_dealloc'], ['PES', 'EXTRA'], extra_roots=[r'^drv_pes_ctor$', r'^drv_pes_dtor$'], hooks=True, boundary=[BFC], abstract={'bad_function_call_ctor': r'^std::bad_function_call::bad_function_call\(\)$'}),
    life('pesr', ['pesr_alloc', 'pesr_dealloc'], ['PESR', 'RS', 'EXTRA'], extra_roots=[r'^drv_pesr_ctor$', r'^drv_pesr_dtor$'], hooks=True, boundary=[BFC], abstract={'bad_function_call_ctor': r'^std::bad_function_call::bad_function_call\(\)$'}),
    # composed life cycle: promise_extra_storage over the REAL reusable_storage_mtsafe (block not released, flag cleared, owner trailer behind the extra object)
    life('pesm', ['pesm_alloc', 'pesm_dealloc'], ['PESM', 'MT', 'RS', 'EXTRA'], extra_roots=[r'^drv_pesm_ctor$', r'^drv_pesm_dtor$'], hooks=True, boundary=[BFC], abstract={'bad_function_call_ctor': r'^std::bad_function_call::bad_function_call\(\)$'}, timeout=900),
    ops_unit(),
]

META = dict(
    level='proof',
    level_text=(
        'Every alloc and every dealloc of default_storage, reusable_storage, reusable_storage_mtsafe, stack_storage, placement_alloc, '
        'reusable_buffer_storage<std::vector<char>> and promise_extra_storage<Extra, default_storage | reusable_storage | reusable_storage_mtsafe> - plus their constructors, '
        'destructors, moves and accessors - is verified against an enforced contract on the real (translated) body, for every frame size '
        '1 <= sz < 2^30, every capacity / shared-state value and every representation (no block yet / block present, flag free / taken, own block / '
        'heap fallback). All bodies are loop-free, so each contract unit is a complete proof of its function. Postconditions (from the property '
        'statement): the returned block is readable and writable for sz bytes plus the policy\'s trailer (owner pointer, marker byte, extra object); it is '
        'either the policy\'s own block or THE one block obtained from operator new during the call, asked for exactly the needed size (heap log); '
        'dealloc(ptr, same sz) releases a heap fallback exactly once (exactly ptr) and never releases or invalidates an own / caller-supplied block; '
        'busy flag set by alloc, cleared by dealloc iff the block was the own one; marker byte 0/1 inside the block and consistent with dealloc; '
        'capacity of reusable_storage = max(old, sz), never shrinks, and a request that fits causes no heap traffic at all (warm-up); stack_storage teaches '
        'the shared state sz+1 exactly when it had to fall back; reusable_buffer_storage leaves a large-enough buffer untouched; the extra object of '
        'promise_extra_storage is constructed exactly once by the storage\'s factory at ptr+sz inside the block, is what `inventory` / operator-> / operator* '
        'designate when alloc returns, and is destroyed exactly once by dealloc while its memory is still valid, before the block is released. '
        'SIZE HAND-SHAKE of promise_extra_storage<T, Alloc> (units pes|pesr|pesm_alloc_hs / _dealloc_hs, inner policy ABSTRACT: Alloc::alloc and '
        'Alloc::dealloc are recording stubs): the clauses "released exactly once", "exclusively its own", "no further heap memory after warm-up" belong '
        'to the inner policy, which finds its bookkeeping at ptr+size; they carry over only if alloc asks the inner policy (of this very storage '
        'object) exactly once for sz + sizeof(T) and returns exactly its block, and dealloc(ptr, sz) hands back, exactly once, EXACTLY that block '
        'with EXACTLY the size that was requested from it (sz + sizeof(T)), after the extra object has been destroyed exactly once and while the '
        'block is still valid, with no heap traffic of its own - stated as ensures clauses over the recorded arguments. COMPOSED with the real '
        'reusable_storage_mtsafe as inner policy (units pesm_alloc, pesm_dealloc: contracts over the real bodies of both layers; life_pesm: real '
        'bodies + real function<> factory in sequence): the owner trailer is written and read behind frame AND extra object (ptr+sz+sizeof(T)) '
        'for every content of the extra object, dealloc of a frame in the own block releases nothing and clears the busy flag, a heap fallback '
        'is released exactly once and leaves the flag alone, the next equally sized frame causes no heap traffic, the storage destructor '
        'releases the own block exactly once. '
        'reusable_storage_mtsafe is verified twice: with sequential atomics, and thread-modularly (mt_*_tm units) with protocol primitives that let other '
        'threads take, grow and release the own block before the deciding exchange: the own block is handed out iff the single atomic exchange observed '
        '"free" (then this thread holds the unique BLOCK token and nobody else touches _ptr/_capacity), otherwise neither _ptr, _capacity nor the own block '
        'are read or written; the flag is stored false only by the token holder. custom_allocator_base::operator new (both placement forms) and operator '
        'delete are proved to be exact forwarders to Allocator::alloc / dealloc (same size, same pointer, exactly one call) for all nine policy '
        'instances; operator delete is invoked through drivers/c19_storage.cpp:c19_promise_delete<promise>(ptr, sz), which calls the promise\'s '
        'deallocation function as the coroutine\'s destroy code does ((ptr, frame size) if it takes a size, else (ptr)), so a changed signature '
        'keeps the driver TU compilable (the other units stay decidable) and fails the forwarder obligation of unit ops instead. '
        'Lemma units run the real bodies in sequence (exhaustive, symbolic sizes): alloc;dealloc (+ destructor) leaves allocations == releases for every '
        'policy, no block is released twice or used after release, equal-or-smaller frames after warm-up cause no heap traffic (reusable, mtsafe, stack, '
        'buffer, extra+reusable, extra+mtsafe), two simultaneously live frames on one mtsafe storage are different objects whose canaries survive every operation on '
        'the other in both completion orders, and the real cocls::function<> factory machinery constructs / destroys the extra object exactly once per frame.'),
    level_note=(
        'Trusted: clang front end, ir2c, heap primitive with log (lib/model_heap_log.c), abstract std::vector<char> (lib/model_vector_char.c), the '
        'observation hooks of the driver\'s Extra type, CBMC. The thread-modular reading checks conformance of each function to the stated '
        'rely/guarantee protocol; soundness of rely/guarantee composition and atomicity of RMWs are argued, not machine-checked. Memory ORDERS are '
        'not judged here (property C03): the IR shows busy.exchange(true) and busy.store(false) both with memory_order_relaxed (monotonic) and a plain '
        '(non-atomic) read of me->_ptr in dealloc while another thread may be writing it in alloc - frame contents, _ptr and _capacity are therefore '
        'not published between threads: a data-race / publication defect for C03, functionally invisible under sequentially consistent atomics. '
        'NOT covered: static_storage<N> (its dealloc is non-static, so it does not satisfy the Storage concept and cannot be used through '
        'with_allocator at all); alignment of the trailer / extra object at ptr+sz (CBMC has no alignment check; fine when the frame size is a multiple '
        'of alignof(T) resp. 8); a THROWING factory in promise_extra_storage::alloc (the block obtained from Alloc is then never released / the mtsafe '
        'flag stays set - reproduced natively in replay/c19_extra_factory_throws.cpp, outside the property statement); that the compiler-generated '
        'coroutine ramp passes the same size to operator new and operator delete (language guarantee); bad_alloc.'),
    technique=('CBMC 6.11 code contracts (requires/ensures/assigns/frees) enforced per function via goto-instrument --dfcc on the C translation of the '
               'clang IR of coro_storage.h / alloca_storage.h / with_allocator.h; protocol-aware atomic primitives with environment interference for the '
               'thread-safe policy; plain symbolic-execution lemma harnesses over the real bodies for the history-level clauses'),
    trusted_base=[
        'heap primitive with a log of the last allocated / released block (lib/model_heap_log.c; same semantics as rt_core.c plus three ghosts)',
        'assumed contract: std::vector<char> size()/resize()/data() - one block, grows to an arbitrary capacity >= n through operator new/delete, never reallocates when n <= capacity; element values not modelled (lib/model_vector_char.c)',
        'abstract inner policy of the *_hs units (specs/C19/st_spec.h, C19_INNER_ABSTRACT): Alloc::alloc(n) returns some fresh block of exactly n bytes and does not fail, Alloc::dealloc(p, n) does nothing; both only record call count, object, arguments and the number of extra-object destructions seen so far (what a real inner policy does with the block is verified in its own units and, for reusable_storage_mtsafe, in the composed units pesm_* / life_pesm)',
        'drivers/c19_storage.cpp:c19_promise_delete<P> stands for the compiler-generated deallocation call of a coroutine frame (selection between the sized and the unsized form of P::operator delete by requires-expressions)',
        'assumed contract (contract units only): cocls::function<Extra()>::operator() constructs exactly one Extra in the place it is given and does not throw; the lemma units life_pes / life_pesr run the real function<> machinery instead',
        'observation hooks c19_extra_ctor / c19_extra_dtor of the driver type Extra (drivers/c19_storage.cpp) count constructions / destructions and assert the memory is valid at that moment',
        'protocol primitives for the busy flag with rely-step interference (specs/C19/c19_atomics.h) in the mt_*_tm units; sequential atomics (lib/rt_atomic_seq.c) elsewhere',
    ],
    assumptions=[
        '1 <= sz < 2^30 and block sizes / capacities < 2^30 + 64 (arithmetic bound; sz+1 and sz+sizeof(trailer) do not wrap; a coroutine frame is never empty)',
        'dealloc(ptr, sz) is called with a pointer returned by alloc(sz) of the same policy and the same sz, and the bytes behind the frame (owner pointer, marker byte, extra object) are as alloc left them (the frame occupies [ptr, ptr+sz) only); for promise_extra_storage over reusable_storage_mtsafe the owner pointer sits at ptr+sz+sizeof(T) and the extra object at ptr+sz has arbitrary content',
        'documented usage of the non-thread-safe policies: reusable_storage, placement_alloc, reusable_buffer_storage and stack_storage serve ONE live frame at a time (alloc is called only when the previous frame is gone); exclusivity of the own block is the caller\'s duty there, it is guaranteed by the busy flag only for reusable_storage_mtsafe',
        'documented usage: a storage object (and stack_storage\'s shared size_t, placement_alloc\'s buffer, the std::vector of reusable_buffer_storage) outlives every frame allocated from it - reusable_storage_mtsafe::dealloc reads the owner even for heap-fallback frames; the user does not touch the vector while a frame lives in it',
        'placement_alloc: the caller\'s buffer is at least sz bytes (the policy cannot check); stack_storage: operator=(alloca(size)) was called with a block of _alloc_size bytes (alloca(0) when the shared state is still 0)',
        'the factory given to promise_extra_storage does not throw and T\'s alignment divides the frame size',
        'thread-modular units: rely/guarantee soundness; atomic RMWs on the flag are totally ordered; a non-atomic read of _ptr racing with a write returns the old or the new value (the race itself is a C03 obligation)',
        'heap counters are per thread in the thread-modular units (blocks allocated / released by other threads are not counted)',
    ],
    explanation='see level_text')
