/* C19 - lemma units: life cycles that run the REAL translated bodies of several members in sequence (plain CBMC harnesses, no
 * contract instrumentation; everything is loop-free, all sizes symbolic within SZ_OK, so each harness is an exhaustive check of
 * its scenario, not a sample).  They state the history-level clauses of the property:
 *   - alloc ; dealloc leaves (allocations - releases) unchanged once the storage itself is gone: every block is released exactly once
 *     (a second release / a use after release is flagged by CBMC's own heap checks),
 *   - after warm-up a reusing policy causes no heap traffic for frames of the same (or a smaller) size,
 *   - two simultaneously live frames never share memory (mtsafe): distinct objects, canaries of one frame survive all operations on
 *     the other,
 *   - the attached extra object is made exactly once by the real cocls::function<> factory machinery, is what operator-> returns
 *     right after alloc, survives writes to the frame, and is destroyed exactly once, before the block is released.
 * Statics start at their initialisers here (no DFCC): gh_allocs == gh_frees == 0. */
#define SENT(what) __CPROVER_assert(0, "SENTINEL reachable after " what)
#define SYM_SZ(v) cv_i64 v = nondet_size_t(); __CPROVER_assume(SZ_OK(v))
#define LIVE_BLOCKS ((int)(gh_allocs - gh_frees))

#ifdef C19_LIFE_DS
void h_life_ds(void) {
  SYM_SZ(a); SYM_SZ(g); __CPROVER_assume(g < a);
  cv_i8 *p = ds_alloc(a);
  __CPROVER_assert(__CPROVER_rw_ok(p, a) && LIVE_BLOCKS == 1, "default_storage: one block of the requested size");
  p[g] = 0x5a;
  ds_dealloc(p, a);
  __CPROVER_assert(LIVE_BLOCKS == 0 && gh_allocs == 1 && gh_frees == 1, "default_storage: alloc;dealloc releases the block exactly once");
  SENT("default_storage life cycle");
}
#endif

#ifdef C19_LIFE_RS
void h_life_rs(void) {
  RS st, st2; SYM_SZ(a); SYM_SZ(b); SYM_SZ(g); __CPROVER_assume(g < a);
  rs_ctor(&st);
  __CPROVER_assert(gh_allocs == 0, "reusable_storage(): no allocation");
  cv_i8 *p1 = rs_alloc(&st, a);                                       /* warm-up */
  __CPROVER_assert(__CPROVER_rw_ok(p1, a) && gh_allocs == 1 && gh_frees == 0, "reusable_storage: first frame costs one block");
  p1[g] = 0x5a;
  rs_dealloc(p1, a);
  __CPROVER_assert(gh_allocs == 1 && gh_frees == 0 && __CPROVER_rw_ok(p1, a), "reusable_storage: dealloc keeps the block");
  cv_i8 *p2 = rs_alloc(&st, b);                                       /* next frame (previous one is gone: documented usage) */
  __CPROVER_assert(__CPROVER_rw_ok(p2, b), "reusable_storage: second frame fits");
  __CPROVER_assert(b > a || (p2 == p1 && gh_allocs == 1 && gh_frees == 0), "reusable_storage: after warm-up no heap traffic for an equal or smaller frame");
  __CPROVER_assert(b <= a || (gh_allocs == 2 && gh_frees == 1), "reusable_storage: growing replaces the block (old one released once)");
  __CPROVER_assert(rs_capacity(&st) == (a > b ? a : b), "reusable_storage: capacity = largest frame so far");
  rs_dealloc(p2, b);
  rs_move_ctor(&st2, &st);                                            /* ownership moves; moved-from storage owns nothing */
  rs_dtor(&st);
  __CPROVER_assert(LIVE_BLOCKS == 1, "reusable_storage: moved-from destructor releases nothing");
  rs_dtor(&st2);
  __CPROVER_assert(LIVE_BLOCKS == 0, "reusable_storage: every block released exactly once when the storage dies");
  SENT("reusable_storage life cycle");
}
#endif

#ifdef C19_LIFE_MT
void h_life_mt(void) {
  MT st; SYM_SZ(a); SYM_SZ(b); SYM_SZ(c); SYM_SZ(g1); SYM_SZ(g2); __CPROVER_assume(g1 < a && g2 < b);
  mt_ctor(&st);
  cv_i8 *p1 = mt_alloc(&st, a);                                       /* frame 1: own block */
  p1[g1] = 0x11;                                                      /* canary at an arbitrary position of frame 1 */
  cv_i8 *p2 = mt_alloc(&st, b);                                       /* frame 2 while frame 1 is alive: must not get the same memory */
  __CPROVER_assert(__CPROVER_rw_ok(p1, a) && __CPROVER_rw_ok(p2, b), "mtsafe: both frames fit");
  __CPROVER_assert(!__CPROVER_same_object(p1, p2), "mtsafe: two simultaneously live frames never share a block");
  __CPROVER_assert(p1[g1] == 0x11, "mtsafe: allocating frame 2 does not write into live frame 1");
  __CPROVER_assert(gh_allocs == 2 && gh_frees == 0, "mtsafe: own block + one heap fallback");
  p2[g2] = 0x22;                                                      /* canary at an arbitrary position of frame 2 */
  if (nondet_bool()) {
    mt_dealloc(p2, b);                                                /* fallback frame ends first */
    __CPROVER_assert(gh_frees == 1 && p1[g1] == 0x11 && MT_BUSY(&st) == 1, "mtsafe: fallback released once, own frame undisturbed, block still taken");
    mt_dealloc(p1, a);
    __CPROVER_assert(gh_frees == 1 && MT_BUSY(&st) == 0, "mtsafe: own block kept, flag released");
    cv_i8 *p3 = mt_alloc(&st, c);                                     /* warm: own block again */
    __CPROVER_assert(c > a || (p3 == p1 && gh_allocs == 2 && gh_frees == 1), "mtsafe: after warm-up no heap traffic for an equal or smaller frame");
    mt_dealloc(p3, c);
  } else {
    mt_dealloc(p1, a);                                                /* own frame ends first, fallback frame still alive */
    __CPROVER_assert(gh_frees == 0 && MT_BUSY(&st) == 0 && p2[g2] == 0x22, "mtsafe: own block kept, flag released, fallback frame undisturbed");
    cv_i8 *p3 = mt_alloc(&st, c);                                     /* frame 3 takes the own block (possibly grown) while frame 2 lives */
    __CPROVER_assert(__CPROVER_rw_ok(p3, c) && !__CPROVER_same_object(p3, p2) && p2[g2] == 0x22, "mtsafe: frame 3 and the live fallback frame are disjoint");
    mt_dealloc(p2, b);
    mt_dealloc(p3, c);
  }
  __CPROVER_assert(MT_BUSY(&st) == 0, "mtsafe: flag free when no frame is alive");
  mt_dtor(&st);
  __CPROVER_assert(LIVE_BLOCKS == 0, "mtsafe: every block (own and fallback) released exactly once");
  SENT("reusable_storage_mtsafe life cycle");
}
#endif

#ifdef C19_LIFE_SS
void h_life_ss(void) {
  cv_i64 state = nondet_size_t(); __CPROVER_assume(state < SZMAX);    /* shared state: any earlier value (0 = never used) */
  SS s1, s2; SYM_SZ(a); SYM_SZ(g); __CPROVER_assume(g < a);
  ss_ctor(&s1, &state);
  cv_i64 n1 = ss_size(&s1);
  cv_i8 *buf1 = malloc(n1);                                           /* stands for alloca(storage) */
  ss_set(&s1, buf1);
  cv_i8 *p1 = ss_alloc(&s1, a);
  __CPROVER_assert(__CPROVER_rw_ok(p1, a + 1), "stack_storage: frame + marker fit");
  __CPROVER_assert((a + 1 <= n1) ? (p1 == buf1 && gh_allocs == 0) : (!__CPROVER_same_object(p1, buf1) && gh_allocs == 1), "stack_storage: stack block iff it fits, else one heap block");
  p1[g] = 0x5a;                                                       /* the frame never reaches the marker byte */
  ss_dealloc(p1, a);
  __CPROVER_assert(LIVE_BLOCKS == 0, "stack_storage: heap fallback released exactly once, stack block never");
  __CPROVER_assert(state >= a + 1, "stack_storage: shared state has learnt the frame size");
  ss_ctor(&s2, &state);                                               /* next activation, same frame size */
  cv_i64 n2 = ss_size(&s2);
  cv_i8 *buf2 = malloc(n2);
  ss_set(&s2, buf2);
  unsigned a1 = gh_allocs;
  cv_i8 *p2 = ss_alloc(&s2, a);
  __CPROVER_assert(p2 == buf2 && gh_allocs == a1 && __CPROVER_rw_ok(p2, a + 1), "stack_storage: after warm-up the frame lives on the stack, no heap memory");
  ss_dealloc(p2, a);
  __CPROVER_assert(LIVE_BLOCKS == 0 && gh_allocs == a1, "stack_storage: nothing to release");
  free(buf1); free(buf2);                                             /* leaving the functions whose stack was used (a double release would be flagged) */
  SENT("stack_storage life cycle");
}
#endif

#ifdef C19_LIFE_RB
void h_life_rb(void) {
  VECC v; RB st; SYM_SZ(a); SYM_SZ(b); SYM_SZ(g); __CPROVER_assume(g < a);
  vc_self = &v; vc_data = 0; vc_size = 0; vc_cap = 0;                  /* an empty std::vector<char> */
  rb_ctor(&st, &v);
  cv_i8 *p1 = rb_alloc(&st, a);
  __CPROVER_assert(__CPROVER_rw_ok(p1, a) && vc_size >= a, "reusable_buffer_storage: buffer grown to the frame size");
  p1[g] = 0x5a;
  rb_dealloc(p1, a);
  unsigned a1 = gh_allocs, f1 = gh_frees;
  cv_i8 *p2 = rb_alloc(&st, b);
  __CPROVER_assert(__CPROVER_rw_ok(p2, b), "reusable_buffer_storage: second frame fits");
  __CPROVER_assert(b > a || (p2 == p1 && gh_allocs == a1 && gh_frees == f1), "reusable_buffer_storage: after warm-up no heap traffic for an equal or smaller frame");
  rb_dealloc(p2, b);
  __CPROVER_assert(LIVE_BLOCKS == 1 && vc_data != 0, "reusable_buffer_storage: the memory stays owned by the buffer (exactly its one block)");
  SENT("reusable_buffer_storage life cycle");
}
#endif

#if defined(C19_LIFE_PES) || defined(C19_LIFE_PESR) || defined(C19_LIFE_PESM)
/* cocls::function::operator() throws std::bad_function_call when it has no target: libstdc++'s exception class is not translated
 * (boundary); reaching its constructor means the storage's factory was empty */
void bad_function_call_ctor(void *e) { __CPROVER_assert(0, "cocls::function<Extra()> invoked without a target (bad_function_call)"); }
#endif
#if defined(C19_LIFE_PES) || defined(C19_LIFE_PESR)
#ifdef C19_LIFE_PES
#define XS PES
#define xs_ctor drv_pes_ctor
#define xs_dtor drv_pes_dtor
#define xs_alloc pes_alloc
#define xs_dealloc pes_dealloc
#define XS_BLOCKS_WHILE_ALIVE 1
void h_life_pes(void) {
#else
#define XS PESR
#define xs_ctor drv_pesr_ctor
#define xs_dtor drv_pesr_dtor
#define xs_alloc pesr_alloc
#define xs_dealloc pesr_dealloc
void h_life_pesr(void) {
#endif
  XS st; cv_i64 v = nondet_size_t(); SYM_SZ(a); SYM_SZ(g); __CPROVER_assume(g < a);
  xs_ctor(&st, v);                                                    /* real constructor: cocls::function<Extra()> built from MakeExtra{v} */
  __CPROVER_assert(gh_x_ctor == 0 && gh_allocs == 0, "promise_extra_storage(): no extra object yet, factory stored inline");
  cv_i8 *p = xs_alloc(&st, a);
  __CPROVER_assert(__CPROVER_rw_ok(p, a + sizeof(EXTRA)) && gh_allocs == 1, "promise_extra_storage: frame + extra object in one block");
  __CPROVER_assert(gh_x_ctor == 1 && gh_x_ctor_at == p + a && gh_x_ctor_v == v && gh_x_dtor == 0, "promise_extra_storage: extra object constructed exactly once, behind the frame, by the factory");
  __CPROVER_assert(st.inventory == (EXTRA *)(p + a) && st.inventory->v == v && st.inventory->w == ~v, "promise_extra_storage: usable through the storage as soon as alloc returns");
  p[g] = 0x5a;                                                        /* the frame is written */
  __CPROVER_assert(st.inventory->v == v && st.inventory->w == ~v, "promise_extra_storage: frame writes do not reach the extra object");
  xs_dealloc(p, a);
  __CPROVER_assert(gh_x_dtor == 1 && gh_x_dtor_at == p + a && gh_x_ctor == 1, "promise_extra_storage: extra object destroyed exactly once with the frame");
#ifdef C19_LIFE_PES
  __CPROVER_assert(LIVE_BLOCKS == 0, "promise_extra_storage<T,default_storage>: block released exactly once");
#else
  __CPROVER_assert(LIVE_BLOCKS == 1, "promise_extra_storage<T,reusable_storage>: block kept for reuse");
  unsigned a1 = gh_allocs;
  cv_i8 *p2 = xs_alloc(&st, a);                                       /* next frame of the same size */
  __CPROVER_assert(p2 == p && gh_allocs == a1 && gh_x_ctor == 2 && st.inventory == (EXTRA *)(p2 + a), "promise_extra_storage<T,reusable_storage>: after warm-up no heap traffic, a new extra object per frame");
  xs_dealloc(p2, a);
  __CPROVER_assert(gh_x_dtor == 2, "promise_extra_storage<T,reusable_storage>: second extra object destroyed once");
#endif
  xs_dtor(&st);
  __CPROVER_assert(LIVE_BLOCKS == 0 && gh_x_ctor == gh_x_dtor, "promise_extra_storage: storage destructor leaves nothing behind and destroys no extra object again");
  SENT("promise_extra_storage life cycle");
}
#endif

/* ---- composed life cycle: promise_extra_storage<Extra, reusable_storage_mtsafe> - REAL bodies of both layers and the real function<>
 * factory.  The inner policy keeps its owner pointer at (block + size IT was asked for) = behind frame AND extra object; alloc and
 * dealloc of the outer policy must agree on that size, or the inner dealloc looks for the owner inside the (just destroyed) extra
 * object: own block released while the storage still owns it, busy flag set for ever, no reuse after warm-up, double release in
 * the storage's destructor.  The extra object's first word (v) is arbitrary, so "the owner is read at the right offset" is checked
 * for every content of the bytes a wrong offset would hit. */
#ifdef C19_LIFE_PESM
#define PM_OFF(sz) ((sz) + sizeof(EXTRA))
void h_life_pesm(void) {
  PESM st; cv_i64 v = nondet_size_t(); SYM_SZ(a); SYM_SZ(g); __CPROVER_assume(g < a);
  MT *own = (MT *)&st;
  drv_pesm_ctor(&st, v);
  __CPROVER_assert(gh_x_ctor == 0 && gh_allocs == 0 && MT_BUSY(own) == 0, "extra+mtsafe: construction allocates nothing, block free");
  cv_i8 *p1 = pesm_alloc(&st, a);                                     /* frame 1 (warm-up): own block */
  __CPROVER_assert(__CPROVER_rw_ok(p1, PM_OFF(a) + MT_TRAILER) && gh_allocs == 1 && gh_frees == 0 && MT_BUSY(own) == 1, "extra+mtsafe: frame + extra object + owner trailer in the storage's own block, block taken");
  __CPROVER_assert(p1 == MT_RS(own)->_ptr && MT_OWNER(p1, PM_OFF(a)) == own, "extra+mtsafe: owner trailer written behind frame and extra object (at ptr + size requested from the inner policy)");
  __CPROVER_assert(gh_x_ctor == 1 && gh_x_ctor_at == p1 + a && gh_x_ctor_v == v && st.inventory == (EXTRA *)(p1 + a) && st.inventory->v == v, "extra+mtsafe: extra object constructed exactly once behind the frame, usable at once");
  p1[g] = 0x5a;
  pesm_dealloc(p1, a);                                                /* the frame ends: same size as given to alloc */
  __CPROVER_assert(gh_x_dtor == 1 && gh_x_dtor_at == p1 + a && gh_x_ctor == 1, "extra+mtsafe: extra object destroyed exactly once with the frame");
  __CPROVER_assert(gh_frees == 0 && LIVE_BLOCKS == 1 && MT_RS(own)->_ptr == p1 && __CPROVER_rw_ok(p1, PM_OFF(a) + MT_TRAILER), "extra+mtsafe: dealloc does NOT release the own block (the storage still owns it)");
  __CPROVER_assert(MT_BUSY(own) == 0, "extra+mtsafe: dealloc clears the busy flag of the owning storage (owner read at the offset alloc wrote it)");
  cv_i8 *p2 = pesm_alloc(&st, a);                                     /* next frame of the same size (two simultaneously live frames: unit pesm_alloc / life_mt) */
  __CPROVER_assert(p2 == p1 && gh_allocs == 1 && gh_frees == 0 && MT_BUSY(own) == 1 && gh_x_ctor == 2, "extra+mtsafe: after warm-up no heap traffic for an equally sized frame, a new extra object per frame");
  pesm_dealloc(p2, a);
  __CPROVER_assert(gh_frees == 0 && MT_BUSY(own) == 0 && LIVE_BLOCKS == 1 && gh_x_dtor == 2, "extra+mtsafe: own block kept, flag free, every extra object destroyed once");
  drv_pesm_dtor(&st);
  __CPROVER_assert(LIVE_BLOCKS == 0 && gh_frees == 1 && gh_x_ctor == gh_x_dtor, "extra+mtsafe: the own block dies with the storage, exactly once");
  SENT("promise_extra_storage<Extra,reusable_storage_mtsafe> life cycle");
}
#endif

/* ---- custom_allocator_base<Allocator, async_promise<int>>: operator new (both placement forms) and operator delete are pure
 * forwarders to Allocator::alloc / Allocator::dealloc with the same size.  The policies' alloc/dealloc are abstract callees that
 * record (count, which, arguments) - their behaviour is the subject of the contract units.
 * operator delete is called through the driver's drv_delete_<tag> (alias delete_<tag>): c19_promise_delete<promise>(ptr, sz) calls the
 * promise's deallocation function the way the coroutine's destroy code does - with (ptr, frame size) if it takes a size, else with
 * (ptr) - so a change of its signature does not break the driver TU but fails the obligation below (the storage must get the size
 * operator new was given: every policy with a trailer looks for it at ptr+size). */
#ifdef C19_OPS
unsigned gh_fw_alloc_calls, gh_fw_dealloc_calls; int gh_fw_which; void *gh_fw_st; cv_i64 gh_fw_sz; cv_i8 *gh_fw_ret, *gh_fw_ptr;
#define FW_STUBS(tag, A_T, id) \
  cv_i8 *tag##_alloc(A_T *st, cv_i64 sz) { gh_fw_alloc_calls++; gh_fw_which = id; gh_fw_st = st; gh_fw_sz = sz; return gh_fw_ret; } \
  void tag##_dealloc(cv_i8 *p, cv_i64 sz) { gh_fw_dealloc_calls++; gh_fw_which = id; gh_fw_ptr = p; gh_fw_sz = sz; }
cv_i8 *ds_alloc(cv_i64 sz) { gh_fw_alloc_calls++; gh_fw_which = 1; gh_fw_st = 0; gh_fw_sz = sz; return gh_fw_ret; }
void ds_dealloc(cv_i8 *p, cv_i64 sz) { gh_fw_dealloc_calls++; gh_fw_which = 1; gh_fw_ptr = p; gh_fw_sz = sz; }
FW_STUBS(rs, RS, 2) FW_STUBS(pa, PA, 3) FW_STUBS(mt, MT, 4) FW_STUBS(ss, SS, 5) FW_STUBS(rb, RB, 6) FW_STUBS(pes, PES, 7) FW_STUBS(pesr, PESR, 8) FW_STUBS(pesm, PESM, 9)
#define FW_RESET gh_fw_alloc_calls = gh_fw_dealloc_calls = 0; gh_fw_which = 0; gh_fw_st = 0; gh_fw_sz = ~sz; gh_fw_ptr = 0; gh_fw_ret = (cv_i8 *)nondet_ptr()
#define FW_NEW_OK(id, stp)  (gh_fw_alloc_calls == 1 && gh_fw_dealloc_calls == 0 && gh_fw_which == id && gh_fw_st == (void *)(stp) && gh_fw_sz == sz && r == gh_fw_ret)
#define FW_DEL_OK(id)       (gh_fw_alloc_calls == 0 && gh_fw_dealloc_calls == 1 && gh_fw_which == id && gh_fw_ptr == blk && gh_fw_sz == sz)
#define FW_CHECK(tag, A_T, id, stp) { A_T st; cv_i32 arg; cv_i32 host /* the "This" of a member coroutine: only its address is passed on */; cv_i64 sz = nondet_size_t(); cv_i8 *r; cv_i8 *blk = (cv_i8 *)nondet_ptr(); \
    FW_RESET; r = new_##tag(sz, (void *)&st, &arg); \
    __CPROVER_assert(FW_NEW_OK(id, stp), #tag ": operator new(sz, storage, args...) returns storage.alloc(sz), called exactly once"); \
    FW_RESET; r = new2_##tag(sz, (void *)&host, (void *)&st, &arg); \
    __CPROVER_assert(FW_NEW_OK(id, stp), #tag ": operator new(sz, this, storage, args...) returns storage.alloc(sz), called exactly once"); \
    FW_RESET; delete_##tag(blk, sz); \
    __CPROVER_assert(FW_DEL_OK(id), #tag ": destroying a frame of sz bytes (promise's operator delete) calls Allocator::dealloc(ptr, sz) exactly once, same pointer, same size as operator new got"); }
void h_ops(void) {
  FW_CHECK(ds, cv_i8 /* empty class */, 1, 0) FW_CHECK(rs, RS, 2, &st) FW_CHECK(pa, PA, 3, &st) FW_CHECK(mt, MT, 4, &st) FW_CHECK(ss, SS, 5, &st)
  FW_CHECK(rb, RB, 6, &st) FW_CHECK(pes, PES, 7, &st) FW_CHECK(pesr, PESR, 8, &st) FW_CHECK(pesm, PESM, 9, &st)
  SENT("custom_allocator_base operators");
}
#endif
