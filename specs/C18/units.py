UNITS = [dict(name='probe', driver='c18_adapters.cpp', roots=[r'^drv_'], names={}, types={}, boundary=[r'^std::atomic<bool>::wait', r'^std::atomic<bool>::notify', r'^std::deque<'],
  lib=['rt_core.c', 'rt_atomic_seq.c'], spec=['C18/probe.c'], harness='h_probe')]
META = {}
