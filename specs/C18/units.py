# C18 - Callback adapters fire exactly once with the right outcome
CBQ = 'cocls::future_with_cb<int, c18_cb>'
CBSQ = 'cocls::custom_allocator_base<c18_storage, cocls::future_with_cb<int, c18_cb> >'
TYPES = {'FUT': 'cocls::future<int>', 'FUTL': 'cocls::future<long>', 'FC': 'cocls::future_common', 'PROM': 'cocls::promise<int>', 'PROML': 'cocls::promise<long>',
         'AWT': 'cocls::awaiter', 'SP': 'cocls::suspend_point<void>', 'SPB': 'cocls::suspend_point<bool>', 'EPTR': 'std::__exception_ptr::exception_ptr',
         'CB': CBQ, 'CBS': CBSQ, 'CONVB': 'cocls::future_conv_promise_base<int, long>', 'HLP': 'cocls::future_conv_promise_base<int, long>::Hlp',
         'FAC': 'c18_factory', 'CBT': 'c18_cb', 'OBJ': 'c18_obj', 'CTX': 'c18_ctx', 'STOR': 'c18_storage', 'ATOMB': 'std::atomic<bool>'}
# void-source future_conv specialisations (audit E/D3): own type table, the int-source units do not contain these types
TYPES_V = {'FUTV': 'cocls::future<void>', 'CONVBV': 'cocls::future_conv_promise_base<void, long>', 'CTX0': 'c18_ctx0'}
GLOBALS = {'AW_INSTANCE': '_ZN5cocls7awaiter8instanceE', 'AW_DISABLED': '_ZN5cocls7awaiter8disabledE', 'TI_AWAIT_CANCELED': '_ZTIN5cocls24await_canceled_exceptionE',
           'TI_VALUE_NOT_READY': '_ZTIN5cocls25value_not_ready_exceptionE'}
VT_CBS = {'VT_CBS': '_ZTVN5cocls21custom_allocator_baseI11c18_storageNS_14future_with_cbIi6c18_cbEEEE'}
VT_CB = {'VT_CB': '_ZTVN5cocls14future_with_cbIi6c18_cbEE'}
import re
def rx(s): return re.escape(s).replace('\\ ', ' ')
CBR = rx(CBQ); CBSR = rx(CBSQ)
CFAR = r'cocls::call_fn_future_awaiter<&c18_obj::done>'
CONVBR = r'cocls::future_conv_promise_base<int, long>'
def conv_r(w): return r'cocls::future_conv<&' + {'m': r'c18_ctx::conv', 'f': r'\(c18_conv_free\(int&\)\)', 'p': r'c18_ctx::conv_p', 'v': r'c18_ctx0::conv0', 'vp': r'c18_ctx0::conv0_p'}[w] + '>'
LAM = r'::\{lambda\(cocls::awaiter\*, void\*\)#1\}::__invoke\(cocls::awaiter\*, void\*\)$'
N = dict(
    # environment / abstract callees
    fc_subscribe=r'^cocls::future_common::subscribe\(cocls::awaiter\*\)$',
    fac_call=r'^c18_factory::operator\(\)\(\)$',
    user_cb=r'^c18_cb::operator\(\)\(cocls::future<int>&\)$',
    st_alloc=r'^c18_storage::alloc\(unsigned long\)$', st_dealloc=r'^c18_storage::dealloc\(void\*, unsigned long\)$',
    obj_done=r'^c18_obj::done\(cocls::future<int>&\)$',
    ctx_conv=r'^c18_ctx::conv\(int&\)$', ctx_conv_p=r'^c18_ctx::conv_p\(int&, cocls::promise<long>&\)$', conv_free=r'^c18_conv_free\(int&\)$',
    pl_call_val=r'^cocls::suspend_point<bool> cocls::promise<long>::operator\(\)<long>\(long&&\)$',
    pl_call_exc=r'^cocls::suspend_point<bool> cocls::promise<long>::operator\(\)<std::__exception_ptr::exception_ptr>\(std::__exception_ptr::exception_ptr&&\)$',
    pl_dtor=r'^cocls::promise<long>::~promise\(\)$',
    ab_wait=r'^std::atomic<bool>::wait\(bool, std::memory_order\) const$',
    sp_suspend_now=r'^cocls::suspend_point<void>::suspend_now\(\)$',
    # functions under contract
    cb_ctor='^' + CBR + r'::future_with_cb\(c18_cb&&\)$',
    cb_ctor_fn='^' + CBR + r'::future_with_cb\(c18_cb&&\)$',
    cbs_ctor_fn='^' + CBSR + r'::custom_allocator_base\(c18_cb&&\)$',
    cb_invoke=r'^cocls::suspend_point<void> ' + CBR + r'::future_with_cb\(c18_cb&&\)::\{lambda\(cocls::awaiter\*, auto:1\)#1\}::__invoke<void\*>\(cocls::awaiter\*, void\*\)$',
    cb_shift=r'^drv_cb_shift$',
    cb_shift_op='^(void|' + CBR + '&) ' + CBR + r'::operator<< <c18_factory>\(c18_factory&&\)$',
    make_promise=r'^cocls::promise<int> cocls::make_promise<int, c18_cb>\(c18_cb&&\)$',
    make_promise_st=r'^cocls::promise<int> cocls::make_promise<int, c18_cb, c18_storage>\(c18_cb&&, c18_storage&\)$',
    discard=r'^void cocls::discard<c18_factory>\(c18_factory&&\)$',
    d_ctor=r'^cocls::discard<c18_factory>\(c18_factory&&\)::Awt::Awt\(c18_factory&&.*\)$',   # tolerant of a changed parameter list
    d_fin=r'^cocls::discard<c18_factory>\(c18_factory&&\)::Awt::fin\(cocls::awaiter\*, void\*\)$',
    d_dtor=r'^cocls::discard<c18_factory>\(c18_factory&&\)::Awt::~Awt\(\)$',
    cfa_ctor='^' + CFAR + r'::call_fn_future_awaiter\(c18_obj&\)$',
    cfa_shift=r'^void ' + CFAR + r'::operator<< <c18_factory>\(c18_factory&&\)$',
    cfa_wakeup='^' + CFAR + r'::wakeup\(cocls::awaiter\*, void\*\)$',
    cb_dtors='^' + CBR + r'::~future_with_cb\(\)$', cbs_dtors='^' + CBSR + r'::~custom_allocator_base\(\)$',
    conv_shift=r'^cocls::future<long> ' + CONVBR + r'::operator<< <c18_factory>\(c18_factory&&\)$',
    conv_call='^' + CONVBR + r'::operator\(\)\(cocls::promise<long>&&\)$',
    hlp_shift=r'^void ' + CONVBR + r'::Hlp::operator<< <c18_factory>\(c18_factory&&\)$',
    conv_m_ctor='^' + conv_r('m') + r'::future_conv\(c18_ctx\*\)$', conv_f_ctor='^' + conv_r('f') + r'::future_conv\(\)$', conv_p_ctor='^' + conv_r('p') + r'::future_conv\(c18_ctx\*\)$',
    ctx0_conv=r'^c18_ctx0::conv0\(\)$', ctx0_conv_p=r'^c18_ctx0::conv0_p\(cocls::promise<long>&\)$',
    conv_v_ctor='^' + conv_r('v') + r'::future_conv\(c18_ctx0\*\)$', conv_vp_ctor='^' + conv_r('vp') + r'::future_conv\(c18_ctx0\*\)$',
    conv_v_invoke='^' + conv_r('v') + r'::future_conv\(c18_ctx0\*\)' + LAM, conv_vp_invoke='^' + conv_r('vp') + r'::future_conv\(c18_ctx0\*\)' + LAM,
    conv_m_invoke='^' + conv_r('m') + r'::future_conv\(c18_ctx\*\)' + LAM, conv_f_invoke='^' + conv_r('f') + r'::future_conv\(\)' + LAM, conv_p_invoke='^' + conv_r('p') + r'::future_conv\(c18_ctx\*\)' + LAM,
)
ABSTRACT = ('fc_subscribe', 'fac_call', 'user_cb', 'st_alloc', 'st_dealloc', 'obj_done', 'ctx_conv', 'ctx_conv_p', 'conv_free', 'ctx0_conv', 'ctx0_conv_p', 'pl_call_val', 'pl_call_exc', 'pl_dtor', 'ab_wait', 'sp_suspend_now')
BASE_ABS = ('ab_wait', 'sp_suspend_now')
def unit(name, alias, uses=(), extra_types=None, ptypes=None, extra_globals=None, extra_defines=(), extra_roots=(), **kw):
    uses = tuple(uses) + BASE_ABS
    names = {alias: N[alias]}; names.update({a: N[a] for a in uses if a not in ABSTRACT})
    names_opt = {a: N[a] for a in uses if a in ABSTRACT}
    ty = dict(TYPES); ty.update(extra_types or {})
    g = dict(GLOBALS); g.update(extra_globals or {})
    d = dict(name=name, driver='c18_adapters.cpp', roots=[N[alias]] + [N[r] for r in extra_roots], names=names, names_opt=names_opt, types=ty, globals=g, ptypes=ptypes or {},
             boundary=[N[a] for a in uses if a in ABSTRACT], lib=['rt_core.c', 'rt_atomic_seq.c'], spec=['C18/c18_spec.h', 'C18/h_c18.c'], harness='h_' + name, enforce=alias,
             defines=['CV_NO_HEAP_PRIMS 1'] + list(extra_defines), unwind=4, under_contract=[N[alias].strip('^$').replace('\\', '')])
    d.update(kw)
    return d
REPLAY_D3 = dict(src='c18_conv_void_source.cpp', mode='D3', flags=['-g', '-fsanitize=address,undefined'])
REPLAY_CBSHIFT = dict(src='c18_future_with_cb_shift.cpp', mode='CBSHIFT', flags=['-DNDEBUG', '-g', '-fsanitize=address,undefined'])
DAWT = {'DAWT': N['d_ctor'] + '#0'}
CFAT = {'CFA': N['cfa_ctor'] + '#0'}
UNITS = [
    unit('cb_ctor', 'cb_ctor', uses=('cb_invoke',)),
    unit('cb_invoke', 'cb_invoke', uses=('user_cb', 'cb_ctor_fn'), extra_defines=['CV_HAS_cb_invoke_u 1'], extra_roots=['cb_ctor_fn', 'cb_dtors'], extra_globals=VT_CB),
    unit('cb_invoke_storage', 'cb_invoke', uses=('user_cb', 'cbs_ctor_fn', 'st_dealloc', 'st_alloc'), extra_defines=['CV_HAS_cb_invoke_u 1', 'CV_C18_STORAGE 1'], extra_roots=['cbs_ctor_fn', 'cbs_dtors', 'cb_dtors'], harness='h_cb_invoke', extra_globals=dict(VT_CB, **VT_CBS)),
    unit('make_promise', 'make_promise', uses=('user_cb', 'cb_invoke')),
    unit('make_promise_st', 'make_promise_st', uses=('user_cb', 'cb_invoke', 'st_alloc', 'st_dealloc'), extra_globals=VT_CBS),
    # audit E "Adjacent" / audit A item 2: future_with_cb::operator<<(factory) - the helper's second registration route (through the fixed-signature wrapper drv_cb_shift)
    unit('cb_shift', 'cb_shift', uses=('cb_shift_op', 'user_cb', 'cb_ctor_fn', 'cb_invoke', 'fac_call', 'fc_subscribe'), extra_roots=['cb_ctor_fn', 'cb_dtors'], extra_globals=VT_CB, replay=REPLAY_CBSHIFT,
         under_contract=['cocls::future_with_cb<int, c18_cb>::operator<< <c18_factory>(c18_factory&&)']),
    unit('discard', 'discard', uses=('fac_call', 'fc_subscribe', 'd_fin', 'd_ctor'), ptypes=DAWT),
    unit('d_fin', 'd_fin', uses=('d_dtor',), ptypes={'DAWT': N['d_dtor'] + '#0'}, extra_defines=['CV_HAS_d_fin_u 1'], extra_roots=['d_dtor']),
    unit('cfa_ctor', 'cfa_ctor', uses=('cfa_wakeup', 'obj_done'), ptypes=CFAT),
    unit('cfa_wakeup', 'cfa_wakeup', uses=('obj_done',), extra_types={'CFA': 'cocls::call_fn_future_awaiter<&c18_obj::done>'}, extra_defines=['CV_HAS_cfa_wakeup_u 1']),
    unit('cfa_shift', 'cfa_shift', uses=('cfa_wakeup', 'obj_done', 'fac_call', 'fc_subscribe'), ptypes={'CFA': N['cfa_shift'] + '#0'}, extra_roots=['cfa_wakeup']),
    unit('conv_m_ctor', 'conv_m_ctor', uses=('conv_m_invoke', 'ctx_conv', 'pl_call_val', 'pl_call_exc', 'pl_dtor', 'fc_subscribe'), ptypes={'CONVM': N['conv_m_ctor'] + '#0'}),
    unit('conv_f_ctor', 'conv_f_ctor', uses=('conv_f_invoke', 'conv_free', 'pl_call_val', 'pl_call_exc', 'pl_dtor', 'fc_subscribe'), ptypes={'CONVF': N['conv_f_ctor'] + '#0'}),
    unit('conv_p_ctor', 'conv_p_ctor', uses=('conv_p_invoke', 'ctx_conv_p', 'pl_call_val', 'pl_call_exc', 'pl_dtor', 'fc_subscribe'), ptypes={'CONVP': N['conv_p_ctor'] + '#0'}),
    unit('conv_m_invoke', 'conv_m_invoke', uses=('ctx_conv', 'pl_call_val', 'pl_call_exc', 'pl_dtor', 'fc_subscribe'), extra_defines=['CV_HAS_conv_m_invoke_u 1']),
    unit('conv_f_invoke', 'conv_f_invoke', uses=('conv_free', 'pl_call_val', 'pl_call_exc', 'pl_dtor', 'fc_subscribe'), extra_defines=['CV_HAS_conv_f_invoke_u 1']),
    unit('conv_p_invoke', 'conv_p_invoke', uses=('ctx_conv_p', 'pl_call_val', 'pl_call_exc', 'pl_dtor', 'fc_subscribe'), extra_defines=['CV_HAS_conv_p_invoke_u 1']),
    # void-source specialisations (audit E/D3): "Converters deliver ... the exception thrown by the source" - same CONV_INVOKE postconditions
    unit('conv_v_ctor', 'conv_v_ctor', uses=('conv_v_invoke', 'ctx0_conv', 'pl_call_val', 'pl_call_exc', 'pl_dtor', 'fc_subscribe'), ptypes={'CONVV': N['conv_v_ctor'] + '#0'}, extra_types=TYPES_V),
    unit('conv_vp_ctor', 'conv_vp_ctor', uses=('conv_vp_invoke', 'ctx0_conv_p', 'pl_call_val', 'pl_call_exc', 'pl_dtor', 'fc_subscribe'), ptypes={'CONVVP': N['conv_vp_ctor'] + '#0'}, extra_types=TYPES_V),
    unit('conv_v_invoke', 'conv_v_invoke', uses=('ctx0_conv', 'pl_call_val', 'pl_call_exc', 'pl_dtor', 'fc_subscribe'), extra_defines=['CV_HAS_conv_v_invoke_u 1'], extra_types=TYPES_V, replay=REPLAY_D3),
    unit('conv_vp_invoke', 'conv_vp_invoke', uses=('ctx0_conv_p', 'pl_call_val', 'pl_call_exc', 'pl_dtor', 'fc_subscribe'), extra_defines=['CV_HAS_conv_vp_invoke_u 1'], extra_types=TYPES_V, replay=REPLAY_D3),
    unit('conv_shift', 'conv_shift', uses=('fac_call', 'fc_subscribe')),
    unit('conv_call', 'conv_call'),
    unit('hlp_shift', 'hlp_shift', uses=('fac_call', 'fc_subscribe')),
]
# ---- MOVE-ONLY payload (drivers/c09_mo_item.h): make_promise<mo_item> / its helper's resume lambda, and a converter mo_item -> mo_item
CBMQ = 'cocls::future_with_cb<mo_item, c18_cbm>'; CBMR = rx(CBMQ)
CONVBMR = r'cocls::future_conv_promise_base<mo_item, mo_item>'
N.update(
    user_cbm=r'^c18_cbm::operator\(\)\(cocls::future<mo_item>&\)$',
    cbm_ctor_fn='^' + CBMR + r'::future_with_cb\(c18_cbm&&\)$', cbm_dtors='^' + CBMR + r'::~future_with_cb\(\)$',
    cbm_invoke=r'^cocls::suspend_point<void> ' + CBMR + r'::future_with_cb\(c18_cbm&&\)::\{lambda\(cocls::awaiter\*, auto:1\)#1\}::__invoke<void\*>\(cocls::awaiter\*, void\*\)$',
    make_promise_mo=r'^cocls::promise<mo_item> cocls::make_promise<mo_item, c18_cbm>\(c18_cbm&&\)$',
    ctxm_conv=r'^c18_ctxm::conv\(mo_item&\)$',
    pm_call_val=r'^cocls::suspend_point<bool> cocls::promise<mo_item>::operator\(\)<mo_item>\(mo_item&&\)$',
    pm_call_exc=r'^cocls::suspend_point<bool> cocls::promise<mo_item>::operator\(\)<std::__exception_ptr::exception_ptr>\(std::__exception_ptr::exception_ptr&&\)$',
    pm_dtor=r'^cocls::promise<mo_item>::~promise\(\)$',
    conv_mm_invoke=r'^cocls::future_conv<&c18_ctxm::conv>::future_conv\(c18_ctxm\*\)' + LAM,
    conv_mm_ctor=r'^cocls::future_conv<&c18_ctxm::conv>::future_conv\(c18_ctxm\*\)$',
    mo_move=r'^mo_item::mo_item\(mo_item&&\)$', mo_int=r'^mo_item::mo_item\(int\)$', mo_dtor=r'^mo_item::~mo_item\(\)$',
)
ABSTRACT = ABSTRACT + ('user_cbm', 'ctxm_conv', 'pm_call_val', 'pm_call_exc', 'pm_dtor')
MO_TYPES = {'MO': 'mo_item', 'FUTM': 'cocls::future<mo_item>', 'PROMM': 'cocls::promise<mo_item>', 'CBM': CBMQ, 'CBMT': 'c18_cbm', 'CTXM': 'c18_ctxm', 'CONVBM': 'cocls::future_conv_promise_base<mo_item, mo_item>'}
MO_GLOBALS = {'MO_LIVE': '_ZN7mo_item4liveE', 'MO_DEAD': '_ZN7mo_item11dead_valuedE', 'MO_DEAD_TAG': '_ZN7mo_item13last_dead_tagE'}
MO_SPEC = ['C18/c18_spec.h', 'C18/h_c18.c', 'C18/c18_mo_spec.h']
MO_ROOTS = ['mo_move', 'mo_int', 'mo_dtor']
UNITS += [
    unit('cbm_invoke', 'cbm_invoke', uses=('user_cbm', 'cbm_ctor_fn'), extra_defines=['CV_HAS_cbm_invoke_u 1'], extra_roots=['cbm_ctor_fn', 'cbm_dtors'] + MO_ROOTS, extra_types=MO_TYPES, spec=MO_SPEC,
         extra_globals=dict(MO_GLOBALS, VT_CBM='_ZTVN5cocls14future_with_cbI7mo_item7c18_cbmEE')),
    unit('make_promise_mo', 'make_promise_mo', uses=('user_cbm', 'cbm_invoke'), extra_types=MO_TYPES, extra_globals=MO_GLOBALS, spec=MO_SPEC, extra_roots=MO_ROOTS),
    unit('conv_mm_invoke', 'conv_mm_invoke', uses=('ctxm_conv', 'pm_call_val', 'pm_call_exc', 'pm_dtor', 'fc_subscribe'), extra_defines=['CV_HAS_conv_mm_invoke_u 1'], extra_types=MO_TYPES, extra_globals=MO_GLOBALS,
         spec=MO_SPEC, extra_roots=MO_ROOTS),
    unit('conv_mm_ctor', 'conv_mm_ctor', uses=('conv_mm_invoke', 'ctxm_conv', 'pm_call_val', 'pm_call_exc', 'pm_dtor', 'fc_subscribe'), ptypes={'CONVMM': N['conv_mm_ctor'] + '#0'}, extra_types=MO_TYPES, extra_globals=MO_GLOBALS,
         spec=MO_SPEC, extra_roots=MO_ROOTS),
]
CHT = 'std::__n4861::coroutine_handle<void>'
AP = {'ap_aw_load': r'^std::atomic<cocls::awaiter\*>::load\(std::memory_order\) const$', 'ap_aw_xchg': r'^std::atomic<cocls::awaiter\*>::exchange\(',
      'ap_aw_cas': r'^std::atomic<cocls::awaiter\*>::compare_exchange_weak\(cocls::awaiter\*&, cocls::awaiter\*, std::memory_order, std::memory_order\)$',
      'ap_aw_store': r'^std::atomic<cocls::awaiter\*>::store\(cocls::awaiter\*, std::memory_order\)$',
      'ap_fu_load': r'^std::atomic<cocls::future<int>\*>::load\(std::memory_order\) const$', 'ap_fu_xchg': r'^std::atomic<cocls::future<int>\*>::exchange\(',
      'ap_fu_assign': r'^std::atomic<cocls::future<int>\*>::operator=\(cocls::future<int>\*\)$'}
FRAMES = ('CV_FRAME_KINDS X(1, S__ZN5cocls8_details19callback_await_coroINS_15default_storageENS_6futureIiEE13c18_record_fnJR6c18_opEEENS_14with_allocatorIT_NS_5asyncIvEEEERS9_T1_DpT2__Frame) '
          'X(2, S__ZN5cocls8_details19callback_await_coroI17c18_count_storageNS_6futureIiEE13c18_record_fnJR6c18_opEEENS_14with_allocatorIT_NS_5asyncIvEEEERS9_T1_DpT2__Frame)')
D_TYPES = {'CH': CHT, 'DQCH': 'std::deque<%s, std::allocator<%s > >' % (CHT, CHT), 'AWT': 'cocls::awaiter', 'FUT': 'cocls::future<int>',
           'ATOM_AW': 'std::atomic<cocls::awaiter *>', 'ATOM_FU': 'std::atomic<cocls::future<int> *>'}
D_TYPES_L = dict(D_TYPES, FUTL='cocls::future<long>', ATOM_FUL='std::atomic<cocls::future<long> *>')
D_GLOBALS = {'FRAME_KIND': 'g_frame_kind', 'G_REC': 'g_rec', 'G_ST_ALLOCS': 'g_st_allocs', 'G_ST_DEALLOCS': 'g_st_deallocs', 'G_ST_BLOCK': 'g_st_block', 'G_ST_FREED': 'g_st_freed',
             'G_ST_ALLOC_SIZE': 'g_st_alloc_size', 'G_ST_DEALLOC_SIZE': 'g_st_dealloc_size'}
D_BOUNDARY = [r'^std::deque<std::__n4861::coroutine_handle<void>', r'^std::atomic<bool>::wait\(', r'^std::atomic<bool>::notify'] + list(AP.values())
REPLAY = dict(src='c18_drive.cpp', mode='C18', flags=['-I', '/verif/drivers', '-g', '-fsanitize=address,undefined'])
def drive(before, counting):
    what = 'callback_await%s on a future<int>, %s; symbolic outcome (value / exception / promise dropped), symbolic value and error code; single thread, no spurious CAS failure' % (
            '_alloc with a counting storage' if counting else ' (default_storage)', 'resolved before registration' if before else 'resolved after registration (same thread)')
    return dict(name='drive_cbawait_%s_%s' % ('before' if before else 'after', 'counting' if counting else 'default'), driver='c18_drive.cpp',
                roots=[r'^c18_drive$'], names={}, names_opt=dict(AP), types=D_TYPES, globals=D_GLOBALS, boundary=D_BOUNDARY,
                lib=['rt_core.c', 'rt_atomic_seq.c', 'model_dq_ring.c', 'model_heap_frames.c'], spec=['C18/h_drive.c'], harness='h_drive',
                defines=['CV_NO_HEAP_PRIMS 1', 'CV_NO_SPURIOUS_CAS 1', FRAMES, 'DRIVE_cbawait 1', 'DRIVE_BEFORE %d' % before, 'DRIVE_COUNTING %d' % counting],
                unwind=6, object_bits=11, kind='bounded', timeout=600, bounded=what, under_contract=[], replay=REPLAY)
UNITS += [drive(b, c) for c in (0, 1) for b in (1, 0)]
# audit E/D6: the completion throws while it handles the outcome - "runs exactly once per awaited operation" must hold all the same
FRAME_THROW = ('CV_FRAME_KINDS X(3, S__ZN5cocls8_details19callback_await_coroINS_15default_storageENS_6futureIiEE12c18_throw_fnJR6c18_opEEENS_14with_allocatorIT_NS_5asyncIvEEEERS9_T1_DpT2__Frame)')
REPLAY_D6 = dict(src='c18_cb_throw.cpp', mode='D6', flags=['-I', '/verif/drivers', '-g', '-fsanitize=address,undefined'])
def drive_throw(before):
    what = ('callback_await (default_storage) on a future<int> with a completion that may throw (symbolic) while handling the outcome, %s; symbolic outcome (value / exception / promise dropped) '
            'and values; single thread, no spurious CAS failure' % ('resolved before registration' if before else 'resolved after registration (same thread)'))
    return dict(name='drive_cbthrow_%s' % ('before' if before else 'after'), driver='c18_drive.cpp', roots=[r'^c18_drive_cbthrow$'], names={}, names_opt=dict(AP), types=D_TYPES, globals=D_GLOBALS,
                boundary=D_BOUNDARY, lib=['rt_core.c', 'rt_atomic_seq.c', 'model_dq_ring.c', 'model_heap_frames.c'], spec=['C18/h_drive.c'], harness='h_drive',
                defines=['CV_NO_HEAP_PRIMS 1', 'CV_NO_SPURIOUS_CAS 1', FRAME_THROW, 'DRIVE_cbthrow 1', 'DRIVE_BEFORE %d' % before, 'DRIVE_COUNTING 0'],
                unwind=6, object_bits=11, kind='bounded', timeout=600, bounded=what, under_contract=[], replay=REPLAY_D6)
UNITS += [drive_throw(b) for b in (1, 0)]
# audit E/D7 + W5: the operation cannot be started (the awaitable's constructor / the factory throws)
FRAME_CTOR = ('CV_FRAME_KINDS X(4, S__ZN5cocls8_details19callback_await_coroINS_15default_storageENS_6futureIiEE13c18_record_fnJR14c18_failing_opEEENS_14with_allocatorIT_NS_5asyncIvEEEERS9_T1_DpT2__Frame)')
REPLAY_D7 = dict(src='c18_start_throws.cpp', mode='D7', flags=['-I', '/verif/drivers', '-g', '-fsanitize=address,undefined'])
def drive_fail(kind, root, frames, what):
    return dict(name='drive_%s' % kind, driver='c18_drive.cpp', roots=[root], names={}, names_opt=dict(AP, probe=r'^c18_probe$'), types=D_TYPES,
                globals=dict(D_GLOBALS, G_CALLER_SAW='g_caller_saw', G_CALLER_CODE='g_caller_code'), boundary=D_BOUNDARY + [r'^c18_probe$'],
                lib=['rt_core.c', 'rt_atomic_seq.c', 'model_dq_ring.c', 'model_heap_frames.c'], spec=['C18/h_drive.c'], harness='h_drive',
                defines=['CV_NO_HEAP_PRIMS 1', 'CV_NO_SPURIOUS_CAS 1', frames, 'DRIVE_%s 1' % kind, 'DRIVE_BEFORE 0', 'DRIVE_COUNTING 0'],
                unwind=6, object_bits=11, kind='bounded', timeout=600, bounded=what + '; symbolic error code; single thread', under_contract=[], replay=REPLAY_D7)
UNITS += [drive_fail('cbctor', r'^c18_drive_cbctor$', FRAME_CTOR, 'callback_await (default_storage) on a future<int> whose starting function throws inside the awaitable\'s constructor'),
          drive_fail('discard_fail', r'^c18_drive_discard_fail$', 'CV_FRAME_KINDS', 'composition: discard() of a factory that throws')]
def compose(kind, root, what, before=None, counting=None, types=D_TYPES, extra_globals=None):
    nm = 'drive_%s' % kind + ('' if before is None else ('_before' if before else '_after')) + ('' if counting is None else ('_storage' if counting else '_heap'))
    g = dict(D_GLOBALS); g.update(extra_globals or {})
    return dict(name=nm, driver='c18_drive.cpp', roots=[root], names={}, names_opt=dict(AP, probe=r'^c18_probe$'), types=types, globals=g, boundary=D_BOUNDARY + [r'^c18_probe$'],
                lib=['rt_core.c', 'rt_atomic_seq.c', 'model_dq_ring.c', 'model_heap_frames.c'], spec=['C18/h_drive.c'], harness='h_drive',
                defines=['CV_NO_HEAP_PRIMS 1', 'CV_NO_SPURIOUS_CAS 1', 'CV_FRAME_KINDS', 'DRIVE_%s 1' % kind, 'DRIVE_BEFORE %d' % (before or 0), 'DRIVE_COUNTING %d' % (counting or 0)],
                unwind=6, object_bits=11, kind='bounded', timeout=600, under_contract=[], replay=REPLAY,
                bounded=what + ('' if before is None else (', resolved before registration' if before else ', resolved after registration (same thread)')) + '; symbolic outcome (value / exception / promise dropped) and values; single thread')
UNITS += [compose('mp', r'^c18_drive_mp$', 'composition: make_promise(%s) + real promise resolution' % ('storage' if c else 'heap'), counting=c) for c in (0, 1)]
UNITS += [compose('discard', r'^c18_drive_discard$', 'composition: discard() of a real future<int>', before=b) for b in (1, 0)]
UNITS += [compose('cfa', r'^c18_drive_cfa$', 'composition: call_fn_future_awaiter << real future<int>', before=b) for b in (1, 0)]
UNITS += [compose('conv', r'^c18_drive_conv$', 'composition: future_conv<member fn> << real future<int>, converter returns or throws (symbolic)', before=b, types=D_TYPES_L,
                  extra_globals={'G_LREC': 'g_lrec', 'G_CONV_CALLS': 'g_conv_calls'}) for b in (1, 0)]
# ---- bounded drive: MOVE-ONLY payload through the really lowered callback_await_coro (c18_drive_mo)
FRAME_MO = 'CV_FRAME_KINDS X(5, S__ZN5cocls8_details19callback_await_coroINS_15default_storageENS_6futureI7mo_itemEE16c18_record_mo_fnJR9c18_op_moEEENS_14with_allocatorIT_NS_5asyncIvEEEERSA_T1_DpT2__Frame)'
AP_MO = dict(AP, ap_fu_load=r'^std::atomic<cocls::future<mo_item>\*>::load\(std::memory_order\) const$', ap_fu_xchg=r'^std::atomic<cocls::future<mo_item>\*>::exchange\(',
             ap_fu_assign=r'^std::atomic<cocls::future<mo_item>\*>::operator=\(cocls::future<mo_item>\*\)$')
def drive_mo(before, take):
    what = ('callback_await (default_storage) on a future<mo_item> (move-only payload), %s; the completion %s; symbolic outcome (value / exception / promise dropped), symbolic tag and error code; '
            'single thread, no spurious CAS failure' % ('resolved before registration' if before else 'resolved after registration (same thread)', 'moves the value out' if take else 'only reads the value'))
    return dict(name='drive_cbawait_mo_%s_%s' % ('before' if before else 'after', 'take' if take else 'read'), driver='c18_drive.cpp', roots=[r'^c18_drive_mo$'], names={}, names_opt=dict(AP_MO),
                types=dict(D_TYPES, FUT='cocls::future<mo_item>', ATOM_FU='std::atomic<cocls::future<mo_item> *>'),
                globals=dict(D_GLOBALS, G_MREC='g_mrec', MO_LIVE='_ZN7mo_item4liveE', MO_DEAD='_ZN7mo_item11dead_valuedE', MO_DEAD_TAG='_ZN7mo_item13last_dead_tagE'),
                boundary=[r'^std::deque<std::__n4861::coroutine_handle<void>', r'^std::atomic<bool>::wait\(', r'^std::atomic<bool>::notify'] + list(AP_MO.values()),
                lib=['rt_core.c', 'rt_atomic_seq.c', 'model_dq_ring.c', 'model_heap_frames.c'], spec=['C18/h_drive.c'], harness='h_drive',
                defines=['CV_NO_HEAP_PRIMS 1', 'CV_NO_SPURIOUS_CAS 1', FRAME_MO, 'DRIVE_cbawait_mo 1', 'DRIVE_BEFORE %d' % before, 'DRIVE_TAKE %d' % take],
                unwind=6, object_bits=11, kind='bounded', timeout=600, bounded=what, under_contract=[],
                replay=dict(src='c18_mo_drive.cpp', mode='C18MO', flags=['-I', '/verif/drivers', '-g', '-fsanitize=address,undefined']))
UNITS += [drive_mo(b, t) for t in (1, 0) for b in (1, 0)]
# "whether the awaited future was already resolved at registration": every adapter registers through awaiter::subscribe_check_ready and relies on a REFUSED
# registration leaving the awaiter node clean (link cleared) - a re-armed helper (call_fn_future_awaiter / future_conv used for a second operation) that
# still carries the ready marker in its link "succeeds" in registering on an already resolved future and its completion never runs (seeded change C18-3).
# That clause is in the contract of awaiter::subscribe_check_ready (C02: refused <=> node untouched, link NULL); re-run here.
import importlib.util as _ilu18, os as _os18, copy as _copy18
def _c02_18(names):
    s = _ilu18.spec_from_file_location('c18_c02', _os18.path.join(_os18.path.dirname(_os18.path.dirname(_os18.path.abspath(__file__))), 'C02', 'units.py')); m = _ilu18.module_from_spec(s); s.loader.exec_module(m)
    out = []
    for x in m.UNITS:
        if x['name'] in names:
            v = _copy18.deepcopy(x); v['name'] = 'C02_' + x['name']; out.append(v)
    return out
UNITS += _c02_18(['subscribe_check_ready', 'resume'])
META = dict(
    level='proof',
    level_text=('The non-coroutine adapters are verified against contracts taken from the property statement: future_with_cb (constructor; its resume lambda, heap and storage variant), make_promise (both overloads), '
        'future_with_cb::operator<< (the helper\'s second registration route, through the fixed-signature driver wrapper drv_cb_shift with the real operator<< / result_of / resume lambda / destructor inside), '
        'discard (whole function incl. its Awt constructor and the `if(!w) resume()` tail; Awt::fin), call_fn_future_awaiter (constructor, operator<<, wakeup), future_conv_promise_base (operator<<, operator(), '
        'Hlp::operator<<) and the constructors + resume lambdas of five future_conv specialisations (member function, free function, member function with promise; for a void source: member function, member '
        'function with promise). The timing is carried by the abstract callee '
        'future_common::subscribe: it answers with a nondeterministic bool recorded in ghost state - false = already resolved at registration (or resolved by another thread just before), true = subscribed - and, '
        'when it answers true, may let the resolving thread run the awaiter\'s REAL resume function to completion before the registering thread continues (concurrent resolution; anything the adapter touches '
        'afterwards is then a use-after-free). Every unit is verified for BOTH answers and for the operation\'s three outcomes (value / exception / dropped promise), each with a reachability sentinel. '
        'Clauses: the completion (user callback with THE future / owner member function / conversion / destruction of the discarded result) runs exactly once - by the registering thread iff subscribe said false, '
        'by the resolver otherwise, never both, never neither - and sees the operation\'s outcome on a resolved future; future_with_cb calls fn while the object is alive and then releases the block exactly once '
        '(global delete, or the given storage with the same pointer and size); make_promise allocates exactly one block (from the storage if one is given) holding an unresolved future whose only waiter is its own '
        'awaiter and returns the promise armed for exactly that future; discard allocates one block and releases it exactly once in every timing; the future_conv lambdas resolve the OUTER future exactly once with '
        'exactly the converted value, the converter\'s exception, the source\'s exception, or await_canceled_exception for a broken source promise (also for a void source, which has no payload but still has '
        'an outcome), run the converter only for a source that delivered, and never leave the parked promise armed; future_with_cb::operator<< starts the operation once, captures the awaited future in the helper and '
        'either has run the callback exactly once with the outcome and released the block once, or has registered the helper\'s awaiter with that future - the completion is never lost. '
        'callback_await (a coroutine) is covered by bounded drives of the really lowered callback_await_coro - including a completion that throws while it handles the outcome (still exactly one call; its own failure '
        'is not reported to it as the operation\'s outcome) and an operation whose start throws inside the awaitable\'s constructor (the completion runs once in exception state, or the registering caller sees the '
        'exception; never neither); further drives run each non-coroutine adapter end to end on the real promise/future code, and discard() with a factory that throws (caller sees the exception, block released). '
        'MOVE-ONLY PAYLOAD (mo_item of drivers/c09_mo_item.h: deleted copy, tag, per-object moved-from count, global live / died-with-value counters; its REAL special members are translated): units cbm_invoke '
        '(resume lambda of future_with_cb<mo_item>: the completion sees THE value object intact; the value object dies with the helper exactly once - or only its husk if the completion moved the value out, which then carries the tag), '
        'make_promise_mo, conv_mm_invoke (future_conv with a converter mo_item -> mo_item: the converter is handed the source\'s value object itself, once, intact; the outer future receives an object move-constructed from an '
        'intact result carrying exactly the result\'s tag; exactly one new live instance, the temporary is gone, nothing that carried a value died, the source keeps its value) and - bounded - drives drive_cbawait_mo_* of the '
        'really lowered callback_await_coro on a future<mo_item> (callback sees the value object intact, may move it out; afterwards every instance created on the way is destroyed exactly once and exactly one died carrying the value).'),
    level_note=('Trusted: the abstract callee future_common::subscribe and its environment model (its real behaviour under interference = specs/C02; that a subscribed awaiter is resumed exactly once after the '
        'resolution = C01/C02), the outer promise<long> operations as recording stubs in the future_conv lambda units (real behaviour = C01, proved there for promise<int>), user code as recording stubs that do not '
        'throw except where stated (converter; the throwing completion of the drive_cbthrow drives), clang front end, ir2c; DFCC makes vtables nondeterministic, the harness of the resume-lambda units re-establishes the two destructor slots. '
        'Documented preconditions written as requires: an adapter object is not re-armed while a previous operation is pending; the resume function runs only after the awaited future was resolved. '
        'BOUNDED (never counted as discharged): callback_await / callback_await_alloc drives = timing (before / after registration, same thread) x storage (default_storage / counting storage) as units, outcome '
        '(value / exception / dropped promise) and values symbolic; callback_await with a completion that may throw (symbolic) x timing; callback_await / discard with a starting function that throws; composition drives of make_promise, discard, call_fn_future_awaiter, future_conv with symbolic outcome; single thread, std::atomic<T*> read at '
        'member-function level, no spurious CAS failure; timing and storage are concrete per unit because symbolic control makes the lowered state machines fork beyond reach (measured). The drive oracles are '
        'confirmed natively (g++, ASan/UBSan) by replay/c18_drive.cpp, replay/c18_cb_throw.cpp, replay/c18_start_throws.cpp, replay/c18_mo_drive.cpp (move-only drives). Not covered: concurrent resolution of callback_await on another thread beyond the C02 '
        'subscription contract, the factory function itself throwing inside operator<< of future_with_cb / call_fn_future_awaiter / future_conv (result_of\'s catch path turns it into an exception outcome; only '
        'callback_await and discard are driven with a throwing start), future_conv specialisations for void targets / free function with context, value types other than int / long / void source / the move-only mo_item (discard and call_fn_future_awaiter are not instantiated for mo_item: they never touch the value), a throwing '
        'completion of make_promise / call_fn_future_awaiter (their resume functions are noexcept: std::terminate) - a throwing completion of callback_await does NOT terminate: callback_await_coro catches it '
        '(and, after the value was delivered, must not call the completion again - drives drive_cbthrow_*); an exception thrown by the completion in exception state is swallowed by the detached coroutine\'s '
        'unhandled_exception(); await_result<void>; future_with_cb::operator<< on the storage-allocated variant (same function instance, destructor path covered by cb_invoke_storage).'),
    technique='CBMC code contracts via goto-instrument --dfcc on the C translation of clang IR of future.h / future_conv.h with the subscription as an abstract callee that also plays the concurrent resolver; bounded symbolic execution of the really lowered callback_await_coro and of end-to-end adapter scenarios',
    trusted_base=['move-only units: promise<mo_item>::operator()(mo_item&&) as an abstract callee that move-constructs the outer future\'s value once with the real move constructor; the user callback / converter stubs read, optionally move out (callback) or create (converter, real mo_item(int)) value objects (specs/C18/c18_mo_spec.h)',
                  'abstract callee future_common::subscribe incl. the concurrent-resolver step, factory of the awaited future, user callbacks / converters / storage, outer promise<long> operations as recording stubs (specs/C18/c18_spec.h)',
                  'sequential atomic primitives for the adapter-local atomics (lib/rt_atomic_seq.c): adapter objects are touched by one thread at a time, ordered by the subscription protocol (C02)',
                  'exception_ptr reference counting stubs (lib/rt_core.c)',
                  'bounded drives only: concrete ring model of std::deque<coroutine_handle<>> (lib/model_dq_ring.c), typed coroutine frames (lib/model_heap_frames.c), std::atomic<T*> at member-function level (specs/C18/h_drive.c)'],
    assumptions=['a subscribed awaiter is resumed exactly once, after the resolution, by the resolving thread (C01 / C02)', 'promise<long> behaves like the promise<int> verified in C01',
                 'user callbacks of make_promise / call_fn_future_awaiter do not throw (documented: resume functions are noexcept); converters may throw; the completion of callback_await may throw (drive_cbthrow_*)', 'adapter objects are not re-armed while an operation is pending (documented); future_with_cb::operator<< is used on a helper as its constructor left it (no promise handed out)',
                 'bounded drives: one operation per scenario, single thread'],
    explanation='see level_text')
