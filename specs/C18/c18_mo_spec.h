/* C18 - the callback adapters with a MOVE-ONLY payload (drivers/c09_mo_item.h; included after c18_spec.h and h_c18.c).
 * "A completion ... runs exactly once per awaited operation - with the operation's value ... and the helper's heap block is released exactly once
 *  afterwards.  Converters deliver exactly the converted value ... to the outer future."  For an OBJECT this additionally means:
 *   M1  the completion sees THE value object of the operation: its tag, not moved-from
 *   M2  the value object dies with the helper exactly once (not leaked, not destroyed twice) - or, if the completion moved the value out, only its
 *       husk dies and the moved-out object carries the tag (live-instance balance; mo_item::dead_valued counts values that died)
 *   M3  the converter is handed the source's value object itself, once (by reference: it may read or move it out); the outer future receives an object
 *       move-constructed from the converter's result - carrying the result's tag, not moved-from; the temporary is gone afterwards (live + 1 exactly)
 * The real special members of mo_item are translated and run (by the translated library code and by the abstract callees below). */
#define MO_MOVE_CTOR _ZN7mo_itemC2EOS_
#define MO_INT_CTOR  _ZN7mo_itemC2Ei
#define MO_DTOR      _ZN7mo_itemD2Ev
#define F_MO(f)      ((MO *)&(f)->f1)
#define MO_VALUED(o) ((o).moved_cnt == 0 && (o).tag >= 0)
#define MO_COUNTERS  *MO_LIVE, *MO_DEAD, *MO_DEAD_TAG
#define MO_PRE       (*MO_LIVE >= 1 && *MO_LIVE < (1u << 30) && *MO_DEAD < (1u << 30))
static void env_resolve_mo(FUTM *f) {        /* what the winner of the promise does (C01): payload first (an object that carries the operation's value), then the ready marker */
  F_STATE(f) = gh_out_state;
  if (gh_out_state == ST_VALUE) { F_MO(f)->tag = gh_out_val; F_MO(f)->moved_cnt = 0; }
  if (gh_out_state == ST_EXCEPTION) F_EXCP(f) = gh_out_exc;
  *F_SLOT(f) = F_DIS; }

/* ---- future_with_cb<mo_item, c18_cbm>: the resume lambda -------------------------------------------------------------------------------------- */
cv_i1 gh_cbm_consumes; MO gh_cbm_taken; cv_i32 gh_cbm_tag; unsigned gh_cbm_moved;
#ifdef CV_HAS_user_cbm
void user_cbm(CBMT *this_, FUTM *f) { gh_cb_calls++; gh_cb_this = this_; gh_cb_arg = f; gh_cb_state = F_STATE(f); gh_cb_exc = F_EXCP(f);
  gh_cb_ready = (*F_SLOT(f) == F_DIS) ? 1 : 0; gh_cb_dels_at_call = gh_del_calls;
  if (F_STATE(f) == ST_VALUE) { gh_cbm_tag = F_MO(f)->tag; gh_cbm_moved = F_MO(f)->moved_cnt;
    if (gh_cbm_consumes) MO_MOVE_CTOR(&gh_cbm_taken, F_MO(f)); } }       /* the user may move the value out of the future it is handed (future::value() returns a reference) */
#endif
#ifdef CV_HAS_cbm_invoke_u
void cbm_invoke(SP *ret, AWT *me, cv_i8 *ctx)
__CPROVER_requires(cv_exc_pending == 0 && gh_obj != 0 && me == CB_AWT((CBM *)gh_obj) && gh_cb_calls == 0 && gh_del_calls == 0 && __CPROVER_is_fresh(ret, sizeof(*ret)) && gh_cbm_consumes <= 1 && MO_PRE)
__CPROVER_requires(*F_SLOT(CB_FUT((CBM *)gh_obj)) == F_DIS && F_STATE(CB_FUT((CBM *)gh_obj)) == gh_out_state && OUT_PRE && \
                   (gh_out_state == ST_VALUE ==> (gh_out_val >= 0 && F_MO(CB_FUT((CBM *)gh_obj))->tag == gh_out_val && F_MO(CB_FUT((CBM *)gh_obj))->moved_cnt == 0)) && \
                   (gh_out_state == ST_EXCEPTION ==> F_EXCP(CB_FUT((CBM *)gh_obj)) == gh_out_exc))
__CPROVER_assigns(__CPROVER_object_whole(ret), __CPROVER_object_whole(gh_obj), CB_GHOSTS, HEAP_GHOSTS, gh_ep_release, gh_cbm_taken, gh_cbm_tag, gh_cbm_moved, MO_COUNTERS)
__CPROVER_frees(gh_obj)
__CPROVER_ensures(cv_exc_pending == 0 && ret->_count_flag == 0)
__CPROVER_ensures(gh_cb_calls == 1 && gh_cb_this == (void *)&((CBM *)gh_obj)->_fn && gh_cb_arg == (void *)CB_FUT((CBM *)gh_obj))           /* exactly once, with THE future */
__CPROVER_ensures(gh_cb_ready == 1 && gh_cb_state == gh_out_state && (gh_out_state == ST_EXCEPTION ==> gh_cb_exc == gh_out_exc))
__CPROVER_ensures(gh_out_state == ST_VALUE ==> (gh_cbm_tag == gh_out_val && gh_cbm_moved == 0))                                          /* M1: carrying the operation's value object, intact */
__CPROVER_ensures(gh_cb_dels_at_call == 0)                                                                                               /* ... while the helper is still alive */
__CPROVER_ensures(gh_del_calls == 1 && gh_del_last == gh_obj)                                                                            /* released exactly once, afterwards */
__CPROVER_ensures(gh_ep_release == __CPROVER_old(gh_ep_release) + (gh_out_state == ST_EXCEPTION ? 1 : 0))
/* M2: the value object's life ends with the helper - exactly once */
__CPROVER_ensures((gh_out_state == ST_VALUE && !gh_cbm_consumes) ==> (*MO_LIVE == __CPROVER_old(*MO_LIVE) - 1 && *MO_DEAD == __CPROVER_old(*MO_DEAD) + 1 && *MO_DEAD_TAG == gh_out_val))
__CPROVER_ensures((gh_out_state == ST_VALUE && gh_cbm_consumes) ==> (*MO_LIVE == __CPROVER_old(*MO_LIVE) && *MO_DEAD == __CPROVER_old(*MO_DEAD) && gh_cbm_taken.tag == gh_out_val && gh_cbm_taken.moved_cnt == 0))
__CPROVER_ensures(gh_out_state != ST_VALUE ==> (*MO_LIVE == __CPROVER_old(*MO_LIVE) && *MO_DEAD == __CPROVER_old(*MO_DEAD)))                 /* no value: no mo_item is touched */
;
void h_cbm_invoke(void) { MK_EXC(); CBMT fn;
  VT_CBM->f0[2] = (cv_i8 *)_ZN5cocls14future_with_cbI7mo_item7c18_cbmED2Ev; VT_CBM->f0[3] = (cv_i8 *)_ZN5cocls14future_with_cbI7mo_item7c18_cbmED0Ev;
  CBM *o = malloc(sizeof(CBM)); __CPROVER_assume(o != 0); cbm_ctor_fn(o, &fn); gh_obj = o;
  env_resolve_mo(CB_FUT(o)); SP *r; cv_i8 *ctx; cbm_invoke(r, CB_AWT(o), ctx); SENT_OUTCOMES();
  SENT(gh_out_state == ST_VALUE && gh_cbm_consumes, "completion moved the value out"); SENT(gh_out_state == ST_VALUE && !gh_cbm_consumes, "completion left the value: it dies with the helper"); }
#endif
/* make_promise<mo_item>(fn): one heap helper; the returned promise is armed for exactly its future; no mo_item exists yet */
#ifdef CV_HAS_make_promise_mo
cv_i32 gh_tag;
void make_promise_mo(PROMM *ret, CBMT *fn)
__CPROVER_requires(cv_exc_pending == 0 && gh_new_calls == 0 && gh_del_calls == 0 && gh_cb_calls == 0 && __CPROVER_is_fresh(ret, sizeof(*ret)) && __CPROVER_is_fresh(fn, sizeof(*fn)) && gh_tag == fn->tag)
__CPROVER_assigns(__CPROVER_object_whole(ret), HEAP_GHOSTS)
__CPROVER_ensures(cv_exc_pending == 0 && gh_new_calls == 1 && gh_new_size == sizeof(CBM) && gh_del_calls == 0 && gh_cb_calls == 0)
__CPROVER_ensures(P_OWNER(ret) == (void *)CB_FUT((CBM *)gh_new_last))
__CPROVER_ensures(*F_SLOT(CB_FUT((CBM *)gh_new_last)) == (void *)CB_AWT((CBM *)gh_new_last) && F_STATE(CB_FUT((CBM *)gh_new_last)) == ST_NOT_VALUE && CB_AWT((CBM *)gh_new_last)->_next == 0)
__CPROVER_ensures((void *)CB_AWT((CBM *)gh_new_last)->_resume_fn == (void *)cbm_invoke && ((CBM *)gh_new_last)->_fn.tag == gh_tag)
__CPROVER_ensures(*MO_LIVE == __CPROVER_old(*MO_LIVE) && *MO_DEAD == __CPROVER_old(*MO_DEAD))             /* a pending future holds no value object */
;
void h_make_promise_mo(void) { PROMM *r; CBMT *fn; make_promise_mo(r, fn); SENT(1, "after make_promise<mo_item>"); }
#endif

/* ---- future_conv<&c18_ctxm::conv>: mo_item -> mo_item ------------------------------------------------------------------------------------------ */
/* resolution of the OUTER future<mo_item> through promise<mo_item> (abstract callees; C01): the value is move-constructed from the argument, once */
MO gh_orm_val; unsigned gh_orm_src_moved;
static cv_i1 outer_resolve_mo(PROMM *p, int kind, MO *v, void *e) {
  void *o = P_OWNER(p);
  if (o == 0) { gh_pl_unarmed_calls++; return 0; }
  gh_or_calls++; gh_or_kind = kind; gh_or_exc = e; gh_or_target = o; P_OWNER(p) = 0;
  if (v) { gh_orm_src_moved = v->moved_cnt; MO_MOVE_CTOR(&gh_orm_val, v); gh_or_val = gh_orm_val.tag; }      /* future::set: new(&_value) T(std::forward<Args>(args)...) */
  return 1; }
#ifdef CV_HAS_pm_call_val
void pm_call_val(SPB *ret, PROMM *p, MO *v) { ret->value = outer_resolve_mo(p, OR_VALUE, v, 0); ret->base_suspend_point._count_flag = 0; }
#endif
#ifdef CV_HAS_pm_call_exc
void pm_call_exc(SPB *ret, PROMM *p, EPTR *e) { ret->value = outer_resolve_mo(p, OR_EXC, 0, (void *)e->_M_exception_object); ret->base_suspend_point._count_flag = 0; }
#endif
#ifdef CV_HAS_pm_dtor
void pm_dtor(PROMM *p) { if (P_OWNER(p) != 0) outer_resolve_mo(p, OR_DROP, 0, 0); }
#endif
/* the converter (user code): records its argument object, returns a NEW object with the logical tag gh_conv_ret (real mo_item(int)) or throws */
cv_i32 gh_convm_argtag; unsigned gh_convm_argmoved;
#ifdef CV_HAS_ctxm_conv
void ctxm_conv(MO *ret, CTXM *this_, MO *v) { gh_conv_calls++; gh_conv_this = this_; gh_conv_arg = v; gh_convm_argtag = v->tag; gh_convm_argmoved = v->moved_cnt;
  if (gh_conv_throws) { CONV_THROW(); return; }
  MO_INT_CTOR(ret, (cv_i32)gh_conv_ret); }
#endif
#ifdef CV_HAS_conv_mm_invoke_u
void conv_mm_invoke(SP *ret, AWT *me, cv_i8 *ctx)
__CPROVER_requires(CONV_INVOKE_PRE_T(CONVBM, ret, me) && MO_PRE && gh_conv_ret >= 0 && gh_conv_ret < (1 << 30))
__CPROVER_requires(gh_out_state == ST_VALUE ==> (gh_out_val >= 0 && F_MO(CV_FUT((CONVBM *)gh_obj))->tag == gh_out_val && F_MO(CV_FUT((CONVBM *)gh_obj))->moved_cnt == 0))
CONV_INVOKE_ASSIGNS(ret) __CPROVER_assigns(gh_orm_val, gh_orm_src_moved, gh_convm_argtag, gh_convm_argmoved, MO_COUNTERS)
CONV_INVOKE_POST_T(CONVBM, ctx)
/* M3: the converter is handed THE value object of the source, intact */
__CPROVER_ensures(gh_out_state == ST_VALUE ==> (gh_conv_arg == (void *)F_MO(CV_FUT((CONVBM *)gh_obj)) && gh_convm_argtag == gh_out_val && gh_convm_argmoved == 0))
/* ... and the outer future receives exactly the converted value: an object carrying the result's tag, not moved-from, built from an intact result */
__CPROVER_ensures((gh_out_state == ST_VALUE && !gh_conv_throws) ==> (gh_or_kind == OR_VALUE && gh_orm_val.tag == (cv_i32)gh_conv_ret && gh_orm_val.moved_cnt == 0 && gh_orm_src_moved == 0))
/* instance balance: exactly one new object (in the outer future); the converter's temporary is gone; nothing that carried a value died; the source keeps its value */
__CPROVER_ensures((gh_out_state == ST_VALUE && !gh_conv_throws) ==> (*MO_LIVE == __CPROVER_old(*MO_LIVE) + 1 && *MO_DEAD == __CPROVER_old(*MO_DEAD)))
__CPROVER_ensures(!(gh_out_state == ST_VALUE && !gh_conv_throws) ==> (*MO_LIVE == __CPROVER_old(*MO_LIVE) && *MO_DEAD == __CPROVER_old(*MO_DEAD)))
__CPROVER_ensures(gh_out_state == ST_VALUE ==> (F_MO(CV_FUT((CONVBM *)gh_obj))->tag == gh_out_val && F_MO(CV_FUT((CONVBM *)gh_obj))->moved_cnt == 0))
;
void h_conv_mm_invoke(void) { MK_EXC(); CONVBM *o = malloc(sizeof(CONVBM)); __CPROVER_assume(o != 0); gh_obj = o; CTXM *cx = malloc(sizeof(CTXM)); __CPROVER_assume(cx != 0);
  FUTM *outer = malloc(sizeof(FUTM)); __CPROVER_assume(outer != 0); gh_outer = outer; CV_AWT(o)->_handle_addr = (cv_i8 *)cx; CV_AWT(o)->_next = 0;
  P_OWNER(CV_PROM(o)) = outer; env_resolve_mo(CV_FUT(o)); SP *r; conv_mm_invoke(r, CV_AWT(o), (cv_i8 *)cx); SENT_CONV(); }
#endif
/* future_conv<&c18_ctxm::conv>(ctx): resume function = the lambda verified above, context = the converter object; nothing parked, no operation in flight, no value object exists */
#ifdef CV_HAS_conv_mm_ctor
void conv_mm_ctor(CONVMM *this_, CTXM *ctx)
__CPROVER_requires(cv_exc_pending == 0 && __CPROVER_is_fresh(this_, sizeof(*this_))) __CPROVER_assigns(__CPROVER_object_whole(this_))
__CPROVER_ensures(cv_exc_pending == 0 && CONV_CONSTRUCTED((CONVBM *)this_, conv_mm_invoke, ctx));
void h_conv_mm_ctor(void) { CONVMM *o; CTXM *c; conv_mm_ctor(o, c); SENT(1, "after future_conv<mo_item converter>()"); }
#endif
