/* C18 - BOUNDED DRIVE (DESIGN 3.8): the really lowered callback_await_coro (drivers/c18_drive.cpp) on the real future / promise / async<void> /
 * with_allocator / coro_queue code.  Models: std::deque ready queue as a concrete ring, typed coroutine frames, std::atomic<T*> at
 * member-function level (sequential, no spurious CAS failure - the subscription protocol under interference is verified in specs/C02).
 * One unit per shape: outcome (value / exception / dropped promise) x timing (resolved before / after registration) x storage. */
unsigned gh_ap_ops;
#ifdef CV_HAS_ap_aw_load
AWT *ap_aw_load(ATOM_AW *a, cv_i32 mo) { gh_ap_ops++; return (AWT *)a->_M_b._M_p; }
#endif
#ifdef CV_HAS_ap_aw_xchg
AWT *ap_aw_xchg(ATOM_AW *a, AWT *v, cv_i32 mo) { gh_ap_ops++; AWT *old = (AWT *)a->_M_b._M_p; a->_M_b._M_p = v; return old; }
#endif
#ifdef CV_HAS_ap_aw_cas
cv_i1 ap_aw_cas(ATOM_AW *a, AWT **expected, AWT *desired, cv_i32 so, cv_i32 fo) { gh_ap_ops++; AWT *old = (AWT *)a->_M_b._M_p;
  if (old == *expected) { a->_M_b._M_p = desired; return 1; } *expected = old; return 0; }
#endif
#ifdef CV_HAS_ap_aw_store
void ap_aw_store(ATOM_AW *a, AWT *v, cv_i32 mo) { gh_ap_ops++; a->_M_b._M_p = v; }
#endif
#ifdef CV_HAS_ap_fu_load
FUT *ap_fu_load(ATOM_FU *a, cv_i32 mo) { gh_ap_ops++; return (FUT *)a->_M_b._M_p; }
#endif
#ifdef CV_HAS_ap_fu_xchg
FUT *ap_fu_xchg(ATOM_FU *a, FUT *v, cv_i32 mo) { gh_ap_ops++; FUT *old = (FUT *)a->_M_b._M_p; a->_M_b._M_p = v; return old; }
#endif
#ifdef CV_HAS_ap_fu_assign
FUT *ap_fu_assign(ATOM_FU *a, FUT *v) { gh_ap_ops++; a->_M_b._M_p = v; return v; }
#endif
#ifdef CV_HAS_ap_ful_load
FUTL *ap_ful_load(ATOM_FUL *a, cv_i32 mo) { gh_ap_ops++; return (FUTL *)a->_M_b._M_p; }
#endif
#ifdef CV_HAS_ap_ful_xchg
FUTL *ap_ful_xchg(ATOM_FUL *a, FUTL *v, cv_i32 mo) { gh_ap_ops++; FUTL *old = (FUTL *)a->_M_b._M_p; a->_M_b._M_p = v; return old; }
#endif
#ifdef CV_HAS_ap_ful_assign
FUTL *ap_ful_assign(ATOM_FUL *a, FUTL *v) { gh_ap_ops++; a->_M_b._M_p = v; return v; }
#endif
#define REC (G_REC)
/* probe called by the composition drives right after the registration returned */
unsigned gh_pr_calls, gh_pr_allocs, gh_pr_frees; int gh_pr_cb_calls;
#ifdef CV_HAS_probe
void probe(cv_i32 tag) { gh_pr_calls++; gh_pr_allocs = gh_allocs; gh_pr_frees = gh_frees; gh_pr_cb_calls = REC->calls; }
#endif
#define OUTCOME_CHECKS(outcome, v, e) do { \
  if ((outcome) == 0) __CPROVER_assert(REC->has_value == 1 && REC->value == (v) && REC->exc_canceled + REC->exc_error + REC->exc_other == 0, "value outcome: the completion sees exactly the operation's value"); \
  if ((outcome) == 1) __CPROVER_assert(REC->has_value == 0 && REC->exc_error == 1 && REC->exc_code == (e) && REC->exc_canceled + REC->exc_other == 0, "exception outcome: the completion sees exactly the operation's exception"); \
  if ((outcome) == 2) __CPROVER_assert(REC->has_value == 0 && REC->exc_canceled == 1 && REC->exc_error + REC->exc_other == 0, "dropped promise: the completion sees the broken-promise state (await_canceled_exception)"); } while (0)
#ifdef DRIVE_cbawait
void h_drive(void) {
  int in_v = nondet_unsigned(), in_e = nondet_unsigned(), in_outcome = nondet_unsigned(); __CPROVER_assume(in_outcome <= 2);      /* outcome: value / exception / dropped promise (symbolic); in_*: passed to the native replay */
  int v = in_v, e = in_e, outcome = in_outcome;
  int before = DRIVE_BEFORE, counting = DRIVE_COUNTING;          /* concrete per unit: symbolic control forks the lowered state machines beyond reach (measured) */
  unsigned a0 = gh_allocs, f0 = gh_frees;
  c18_drive(outcome, before, counting, v, e);
  __CPROVER_assert(cv_exc_pending == 0, "no exception escapes");
  __CPROVER_assert(REC->calls == 1, "the callback runs exactly once per awaited operation");
  __CPROVER_assert(REC->calls_at_return == (before ? 1 : 0), "already resolved at registration: the callback has run when callback_await returns; otherwise it has not run yet");
  if (outcome == 0) __CPROVER_assert(REC->has_value == 1 && REC->value == v && REC->exc_canceled + REC->exc_error + REC->exc_other == 0, "value outcome: the callback receives exactly the operation's value");
  if (outcome == 1) __CPROVER_assert(REC->has_value == 0 && REC->exc_error == 1 && REC->exc_code == e && REC->exc_canceled + REC->exc_other == 0, "exception outcome: await_result rethrows exactly the operation's exception");
  if (outcome == 2) __CPROVER_assert(REC->has_value == 0 && REC->exc_canceled == 1 && REC->exc_error + REC->exc_other == 0, "dropped promise: await_result rethrows await_canceled_exception");
  __CPROVER_assert(gh_allocs - a0 == 1 && gh_frees - f0 == 1, "exactly one heap block (the coroutine frame) is allocated and it is released exactly once");
  if (counting) __CPROVER_assert(*G_ST_ALLOCS == 1 && *G_ST_DEALLOCS == 1 && *G_ST_FREED == *G_ST_BLOCK && *G_ST_DEALLOC_SIZE == *G_ST_ALLOC_SIZE, "counting storage: one alloc, one dealloc of the same block with the same size");
  else __CPROVER_assert(*G_ST_ALLOCS == 0 && *G_ST_DEALLOCS == 0, "default storage: the counting storage is not involved");
  __CPROVER_assert(0, "SENTINEL reachable");
}
#endif
#ifdef DRIVE_mp
void h_drive(void) {
  int in_v = nondet_unsigned(), in_e = nondet_unsigned(), in_outcome = nondet_unsigned(); __CPROVER_assume(in_outcome <= 2);
  int v = in_v, e = in_e, outcome = in_outcome;
  unsigned a0 = gh_allocs, f0 = gh_frees;
  c18_drive_mp(outcome, DRIVE_COUNTING, v, e);
  __CPROVER_assert(cv_exc_pending == 0 && gh_pr_calls == 1, "no exception escapes");
  __CPROVER_assert(gh_pr_cb_calls == 0 && gh_pr_allocs - a0 == 1 && gh_pr_frees == f0, "make_promise: one block, nothing called or freed before the promise is resolved");
  __CPROVER_assert(REC->calls == 1, "the callback runs exactly once when the promise is resolved / dropped");
  OUTCOME_CHECKS(outcome, v, e);
  __CPROVER_assert(gh_allocs - a0 == 1 && gh_frees - f0 == 1, "the helper block is released exactly once afterwards");
  if (DRIVE_COUNTING) __CPROVER_assert(*G_ST_ALLOCS == 1 && *G_ST_DEALLOCS == 1 && *G_ST_FREED == *G_ST_BLOCK && *G_ST_DEALLOC_SIZE == *G_ST_ALLOC_SIZE, "storage variant: one alloc, one dealloc of the same block with the same size");
  else __CPROVER_assert(*G_ST_ALLOCS == 0 && *G_ST_DEALLOCS == 0, "heap variant: no storage involved");
  __CPROVER_assert(0, "SENTINEL reachable");
}
#endif
#ifdef DRIVE_discard
void h_drive(void) {
  int in_v = nondet_unsigned(), in_e = nondet_unsigned(), in_outcome = nondet_unsigned(); __CPROVER_assume(in_outcome <= 2);
  int v = in_v, e = in_e, outcome = in_outcome;
  unsigned a0 = gh_allocs, f0 = gh_frees;
  c18_drive_discard(outcome, DRIVE_BEFORE, v, e);
  __CPROVER_assert(cv_exc_pending == 0 && gh_pr_calls == 1, "no exception escapes");
  __CPROVER_assert(gh_pr_allocs - a0 == 1 && gh_pr_frees - f0 == (DRIVE_BEFORE ? 1 : 0), "discard: one helper block; released at once iff the future was already resolved at registration");
  __CPROVER_assert(gh_allocs - a0 == 1 && gh_frees - f0 == 1, "discard: the helper block (with the result inside) is released exactly once");
  __CPROVER_assert(0, "SENTINEL reachable");
}
#endif
#ifdef DRIVE_cfa
void h_drive(void) {
  int in_v = nondet_unsigned(), in_e = nondet_unsigned(), in_outcome = nondet_unsigned(); __CPROVER_assume(in_outcome <= 2);
  int v = in_v, e = in_e, outcome = in_outcome;
  unsigned a0 = gh_allocs, f0 = gh_frees;
  c18_drive_cfa(outcome, DRIVE_BEFORE, v, e);
  __CPROVER_assert(cv_exc_pending == 0 && gh_pr_calls == 1, "no exception escapes");
  __CPROVER_assert(gh_pr_cb_calls == (DRIVE_BEFORE ? 1 : 0), "call_fn_future_awaiter: handler already run at return iff the future was resolved at registration");
  __CPROVER_assert(REC->calls == 1, "the member function runs exactly once per operation");
  OUTCOME_CHECKS(outcome, v, e);
  __CPROVER_assert(gh_allocs == a0 && gh_frees == f0, "no heap block involved");
  __CPROVER_assert(0, "SENTINEL reachable");
}
#endif
#ifdef DRIVE_conv
#define LREC (G_LREC)
void h_drive(void) {
  int in_v = nondet_unsigned(), in_e = nondet_unsigned(), add = nondet_unsigned(), in_outcome = nondet_unsigned(), cthrows = nondet_bool(); __CPROVER_assume(in_outcome <= 2);
  int v = in_v, e = in_e, outcome = in_outcome;
  unsigned a0 = gh_allocs, f0 = gh_frees;
  c18_drive_conv(outcome, DRIVE_BEFORE, cthrows, v, e, add);
  __CPROVER_assert(cv_exc_pending == 0 && gh_pr_calls == 1, "no exception escapes");
  __CPROVER_assert(LREC->ready_at_probe == (DRIVE_BEFORE ? 1 : 0), "future_conv: the outer future is resolved at return iff the source was already resolved at registration");
  __CPROVER_assert(*G_CONV_CALLS == (outcome == 0 ? 1 : 0), "the converter runs exactly once iff the source delivered a value");
  if (outcome == 0 && !cthrows) __CPROVER_assert(LREC->has_value == 1 && LREC->value == (long)v + add && LREC->exc_canceled + LREC->exc_error + LREC->exc_other == 0, "the outer future holds exactly the converted value");
  if (outcome == 0 && cthrows) __CPROVER_assert(LREC->has_value == 0 && LREC->exc_error == 1 && LREC->exc_code == v + 1000 && LREC->exc_canceled + LREC->exc_other == 0, "the outer future holds the exception thrown by the converter");
  if (outcome == 1) __CPROVER_assert(LREC->has_value == 0 && LREC->exc_error == 1 && LREC->exc_code == e && LREC->exc_canceled + LREC->exc_other == 0, "the outer future holds the exception of the source");
  if (outcome == 2) __CPROVER_assert(LREC->has_value == 0 && LREC->exc_canceled == 1 && LREC->exc_error + LREC->exc_other == 0, "broken source promise: the outer future holds await_canceled_exception");
  __CPROVER_assert(gh_allocs == a0 && gh_frees == f0, "no heap block involved");
  __CPROVER_assert(0, "SENTINEL reachable");
}
#endif
#ifdef DRIVE_cbthrow
/* audit E/D6 - clause re-derived from the property: "a completion registered through callback_await runs exactly once per awaited operation - with the
 * operation's value, or its exception or broken-promise state".  The statement does not exempt a completion that fails while it handles the outcome:
 * its own failure is not an outcome of the awaited operation and must not be reported to it as one. */
void h_drive(void) {
  int in_v = nondet_unsigned(), in_e = nondet_unsigned(), in_outcome = nondet_unsigned(), in_throws = nondet_bool(); __CPROVER_assume(in_outcome <= 2);
  int v = in_v, e = in_e, outcome = in_outcome, throws = in_throws;
  unsigned a0 = gh_allocs, f0 = gh_frees;
  c18_drive_cbthrow(outcome, DRIVE_BEFORE, throws, v, e);
  __CPROVER_assert(cv_exc_pending == 0, "no exception escapes");
  __CPROVER_assert(REC->calls == 1, "C18-D6: the callback runs exactly once per awaited operation, also when it throws while handling the outcome");
  __CPROVER_assert(DRIVE_BEFORE ? REC->calls_at_return >= 1 : REC->calls_at_return == 0, "already resolved at registration: the callback has run when callback_await returns; otherwise it has not run yet");
  OUTCOME_CHECKS(outcome, v, e);
  __CPROVER_assert(gh_allocs - a0 == 1 && gh_frees - f0 == 1, "exactly one heap block (the coroutine frame) is allocated and it is released exactly once, also when the callback throws");
  __CPROVER_assert(0, "SENTINEL reachable");
}
#endif
#ifdef DRIVE_cbctor
/* audit E/D7 - "a completion registered through callback_await runs exactly once per awaited operation - with the operation's value, or its exception ...":
 * an operation whose start fails has failed; its completion must learn that (exception state), unless the registering caller is told instead (then nothing
 * was registered).  Never neither (the failure vanishes), never both. */
void h_drive(void) {
  int in_e = nondet_unsigned(); int e = in_e;
  unsigned a0 = gh_allocs, f0 = gh_frees;
  c18_drive_cbctor(e);
  __CPROVER_assert(cv_exc_pending == 0, "no exception escapes the drive");
  __CPROVER_assert(REC->calls + *G_CALLER_SAW == 1, "C18-D7: the operation could not be started: the completion runs exactly once (exception state) or the registering caller sees the exception - not neither, not both");
  if (REC->calls == 1) __CPROVER_assert(REC->has_value == 0 && REC->exc_error == 1 && REC->exc_code == e && REC->exc_canceled + REC->exc_other == 0, "the completion sees exactly the exception that prevented the start");
  if (*G_CALLER_SAW == 1) __CPROVER_assert(*G_CALLER_CODE == e, "the caller sees exactly the exception that prevented the start");
  __CPROVER_assert(gh_allocs - a0 == 1 && gh_frees - f0 == 1, "exactly one heap block (the coroutine frame) is allocated and it is released exactly once");
  __CPROVER_assert(0, "SENTINEL reachable");
}
#endif
#ifdef DRIVE_discard_fail
/* audit E/W5 - discard(fn) with a factory that throws: there is no awaited operation, the registering caller must see the exception, and the helper block is
 * released exactly once. */
void h_drive(void) {
  int in_e = nondet_unsigned(); int e = in_e;
  unsigned a0 = gh_allocs, f0 = gh_frees;
  c18_drive_discard_fail(e);
  __CPROVER_assert(cv_exc_pending == 0 && gh_pr_calls == 1, "no exception escapes the drive");
  __CPROVER_assert(*G_CALLER_SAW == 1 && *G_CALLER_CODE == e, "discard: a factory that throws is reported to the registering caller with exactly its exception");
  __CPROVER_assert(gh_allocs - a0 == gh_frees - f0 && gh_allocs - a0 <= 1, "discard: the helper block (if one was allocated) is released exactly once");
  __CPROVER_assert(0, "SENTINEL reachable");
}
#endif
/* MOVE-ONLY payload through callback_await (drivers/c18_drive.cpp, c18_drive_mo): the completion sees THE value object (tag, not moved-from), may move
 * it out; when everything is over every mo_item instance created on the way is gone (source husk, the future's value, the moved-out object) and
 * exactly one of them died carrying the value - the one that held it last. */
#ifdef DRIVE_cbawait_mo
void h_drive(void) {
  int in_v = nondet_unsigned(), in_e = nondet_unsigned(), in_outcome = nondet_unsigned(); __CPROVER_assume(in_outcome <= 2 && in_v >= 0);
  int v = in_v, e = in_e, outcome = in_outcome;
  int before = DRIVE_BEFORE, take = DRIVE_TAKE;
  __CPROVER_assume(*MO_LIVE < (1u << 30) && *MO_DEAD < (1u << 30));
  unsigned a0 = gh_allocs, f0 = gh_frees, l0 = *MO_LIVE, d0 = *MO_DEAD;
  c18_drive_mo(outcome, before, take, v, e);
  __CPROVER_assert(cv_exc_pending == 0, "no exception escapes");
  __CPROVER_assert(G_MREC->calls == 1, "the callback runs exactly once per awaited operation");
  __CPROVER_assert(G_MREC->calls_at_return == (before ? 1 : 0), "already resolved at registration: the callback has run when callback_await returns; otherwise it has not run yet");
  if (outcome == 0) __CPROVER_assert(G_MREC->has_value == 1 && G_MREC->tag == v && G_MREC->moved == 0 && G_MREC->exc_canceled + G_MREC->exc_error + G_MREC->exc_other == 0, "value outcome: the callback receives the operation's value object: its tag, not moved-from");
  if (outcome == 0 && take) __CPROVER_assert(G_MREC->took_tag == v && G_MREC->took_moved == 0, "value outcome: the object the callback moved out carries the value");
  if (outcome == 1) __CPROVER_assert(G_MREC->has_value == 0 && G_MREC->exc_error == 1 && G_MREC->exc_code == e && G_MREC->exc_canceled + G_MREC->exc_other == 0, "exception outcome: await_result rethrows exactly the operation's exception");
  if (outcome == 2) __CPROVER_assert(G_MREC->has_value == 0 && G_MREC->exc_canceled == 1 && G_MREC->exc_error + G_MREC->exc_other == 0, "dropped promise: await_result rethrows await_canceled_exception");
  __CPROVER_assert(gh_allocs - a0 == 1 && gh_frees - f0 == 1, "exactly one heap block (the coroutine frame) is allocated and it is released exactly once");
  __CPROVER_assert(*MO_LIVE == l0, "every value object created on the way is destroyed exactly once (none leaked, none destroyed twice)");
  if (outcome == 0) __CPROVER_assert(*MO_DEAD - d0 == 1 && *MO_DEAD_TAG == v, "value outcome: exactly one object died carrying the value - the one that held it last");
  else __CPROVER_assert(*MO_DEAD == d0, "no value: no value object died");
  __CPROVER_assert(0, "SENTINEL reachable");
}
#endif
