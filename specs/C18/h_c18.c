/* C18 - harnesses of the contract units.  Helper objects are allocated HERE (malloc) and ghost pointers are ASSIGNED; pointer arguments that
 * the function only reads/writes plainly are left uninitialised and shaped by is_fresh.  One SENTINEL per case (must be reachable = FAIL). */
#define SENT(c, txt) do { if (c) __CPROVER_assert(0, "SENTINEL reachable: " txt); } while (0)
#define MK_EXC() do { cv_i8 *eo = __cxa_allocate_exception(8); *(void **)(eo - CV_EXC_HDR) = (void *)TI_AWAIT_CANCELED; gh_out_exc = eo; \
                      cv_i8 *ce = __cxa_allocate_exception(8); *(void **)(ce - CV_EXC_HDR) = (void *)TI_VALUE_NOT_READY; gh_conv_exc = ce; } while (0)
#define SENT_OUTCOMES() SENT(gh_out_state == ST_VALUE, "operation delivered a value"); SENT(gh_out_state == ST_EXCEPTION, "operation delivered an exception"); SENT(gh_out_state == ST_NOT_VALUE, "promise dropped")
#define SENT_TIMING() SENT(gh_sub_result == 0 && gh_fac_ready, "already resolved at registration"); SENT(gh_sub_result == 0 && !gh_fac_ready, "resolved by another thread just before the registration"); \
                      SENT(gh_sub_result == 1 && gh_env_resumes == 0, "registered, resolves later"); SENT(gh_sub_result == 1 && gh_env_resumes == 1, "registered, resolved concurrently before the registering thread continues")
#ifdef CV_HAS_cb_ctor
void h_cb_ctor(void) { CB *o; CBT *fn; cb_ctor(o, fn); SENT(1, "after future_with_cb()"); }
#endif
#ifdef CV_HAS_cb_invoke_u
/* DFCC makes every static nondeterministic at start - also the (constant) vtables.  The harness re-establishes the two destructor slots the
 * virtual `delete _this` dispatches through (Itanium layout: [offset-to-top, RTTI, complete dtor, deleting dtor], vptr = &slot[2]). */
void h_cb_invoke(void) { MK_EXC(); CBT fn;
  VT_CB->f0[2] = (cv_i8 *)_ZN5cocls14future_with_cbIi6c18_cbED2Ev; VT_CB->f0[3] = (cv_i8 *)_ZN5cocls14future_with_cbIi6c18_cbED0Ev;
#ifdef CV_C18_STORAGE
  VT_CBS->f0[2] = (cv_i8 *)_ZN5cocls21custom_allocator_baseI11c18_storageNS_14future_with_cbIi6c18_cbEEED2Ev; VT_CBS->f0[3] = (cv_i8 *)_ZN5cocls21custom_allocator_baseI11c18_storageNS_14future_with_cbIi6c18_cbEEED0Ev;
#endif
#ifdef CV_C18_STORAGE
  CBS *o = malloc(sizeof(CBS)); __CPROVER_assume(o != 0); cbs_ctor_fn(o, &fn); gh_obj = o; gh_obj_size = sizeof(CBS);
#else
  CB *o = malloc(sizeof(CB)); __CPROVER_assume(o != 0); cb_ctor_fn(o, &fn); gh_obj = o; gh_obj_size = sizeof(CB);
#endif
  env_resolve(CB_FUT((CB *)o)); SP *r; cv_i8 *ctx; cb_invoke(r, CB_AWT((CB *)o), ctx); SENT_OUTCOMES(); }
#endif
#ifdef CV_HAS_cb_shift
void h_cb_shift(void) { MK_EXC(); CBT cbf; gh_tag = cbf.tag;
  VT_CB->f0[2] = (cv_i8 *)_ZN5cocls14future_with_cbIi6c18_cbED2Ev; VT_CB->f0[3] = (cv_i8 *)_ZN5cocls14future_with_cbIi6c18_cbED0Ev;
  CB *o = malloc(sizeof(CB)); __CPROVER_assume(o != 0); cb_ctor_fn(o, &cbf); gh_obj = o;
  FAC *fn; cb_shift(o, fn); SENT_OUTCOMES();          /* timing sentinels by the environment's choices (the unchanged operator<< never reaches the subscription) */
  SENT(gh_fac_ready, "already resolved at registration"); SENT(!gh_fac_ready && !gh_sub_ret, "resolved by another thread just before the registration");
  SENT(!gh_fac_ready && gh_sub_ret && !gh_sub_conc, "registered, resolves later"); SENT(!gh_fac_ready && gh_sub_ret && gh_sub_conc, "registered, resolved concurrently before the registering thread continues"); }
#endif
#ifdef CV_HAS_make_promise
void h_make_promise(void) { PROM *r; CBT *fn; make_promise(r, fn); SENT(1, "after make_promise"); }
#endif
#ifdef CV_HAS_make_promise_st
void h_make_promise_st(void) { PROM *r; CBT *fn; STOR *st; make_promise_st(r, fn, st); SENT(1, "after make_promise(storage)"); }
#endif
#ifdef CV_HAS_discard
void h_discard(void) { MK_EXC(); FAC *fn; discard(fn); SENT_TIMING(); SENT_OUTCOMES(); }
#endif
#ifdef CV_HAS_d_fin_u
void h_d_fin(void) { MK_EXC(); DAWT *o = malloc(sizeof(DAWT)); __CPROVER_assume(o != 0); gh_obj = o; env_resolve(D_FUT(o)); SP *r; cv_i8 *ctx; d_fin(r, D_AWT(o), ctx); SENT_OUTCOMES(); }
#endif
#ifdef CV_HAS_cfa_ctor
void h_cfa_ctor(void) { CFA *o; OBJ *ow; cfa_ctor(o, ow); SENT(1, "after call_fn_future_awaiter()"); }
#endif
#define MK_CFA(o) CFA *o = malloc(sizeof(CFA)); __CPROVER_assume(o != 0); gh_obj = o; OBJ *ow = malloc(sizeof(OBJ)); __CPROVER_assume(ow != 0); \
  CFA_AWT(o)->_resume_fn = cfa_wakeup; CFA_AWT(o)->_handle_addr = (cv_i8 *)ow; CFA_AWT(o)->_next = 0
#ifdef CV_HAS_cfa_wakeup_u
void h_cfa_wakeup(void) { MK_EXC(); MK_CFA(o); env_resolve(CFA_FUT(o)); SP *r; cfa_wakeup(r, CFA_AWT(o), (cv_i8 *)ow); SENT_OUTCOMES(); }
#endif
#ifdef CV_HAS_cfa_shift
void h_cfa_shift(void) { MK_EXC(); MK_CFA(o); *F_SLOT(CFA_FUT(o)) = nondet_bool() ? F_INS : F_DIS; F_STATE(CFA_FUT(o)) = ST_NOT_VALUE; FAC *fn; cfa_shift(o, fn); SENT_TIMING(); SENT_OUTCOMES(); }
#endif
#define MK_CONV(o) CONVB *o = malloc(sizeof(CONVB)); __CPROVER_assume(o != 0); gh_obj = o; CTX *cx = malloc(sizeof(CTX)); __CPROVER_assume(cx != 0); \
  FUTL *outer = malloc(sizeof(FUTL)); __CPROVER_assume(outer != 0); gh_outer = outer; CV_AWT(o)->_handle_addr = (cv_i8 *)cx; CV_AWT(o)->_next = 0
#define SENT_CONV() SENT(gh_out_state == ST_VALUE && !gh_conv_throws, "converted value delivered"); SENT(gh_out_state == ST_VALUE && gh_conv_throws, "converter threw"); \
                    SENT(gh_out_state == ST_EXCEPTION, "source threw"); SENT(gh_out_state == ST_NOT_VALUE, "source promise dropped")
#ifdef CV_HAS_conv_m_invoke_u
void h_conv_m_invoke(void) { MK_EXC(); MK_CONV(o); P_OWNER(CV_PROM(o)) = outer; env_resolve(CV_FUT(o)); SP *r; conv_m_invoke(r, CV_AWT(o), (cv_i8 *)cx); SENT_CONV(); }
#endif
#ifdef CV_HAS_conv_f_invoke_u
void h_conv_f_invoke(void) { MK_EXC(); MK_CONV(o); P_OWNER(CV_PROM(o)) = outer; env_resolve(CV_FUT(o)); SP *r; conv_f_invoke(r, CV_AWT(o), (cv_i8 *)0); SENT_CONV(); }
#endif
#ifdef CV_HAS_conv_p_invoke_u
void h_conv_p_invoke(void) { MK_EXC(); MK_CONV(o); P_OWNER(CV_PROM(o)) = outer; env_resolve(CV_FUT(o)); SP *r; conv_p_invoke(r, CV_AWT(o), (cv_i8 *)cx); SENT_CONV();
  SENT(gh_out_state == ST_VALUE && !gh_conv_throws && gh_conv_uses_promise, "converter resolved the outer promise itself"); SENT(gh_out_state == ST_VALUE && !gh_conv_throws && !gh_conv_uses_promise, "converter left the promise alone"); }
#endif
/* void source (audit E/D3): the resolved source future carries a state (and an exception) but no payload */
#define MK_CONV0(o) CONVBV *o = malloc(sizeof(CONVBV)); __CPROVER_assume(o != 0); gh_obj = o; CTX0 *cx = malloc(sizeof(CTX0)); __CPROVER_assume(cx != 0); \
  FUTL *outer = malloc(sizeof(FUTL)); __CPROVER_assume(outer != 0); gh_outer = outer; CV_AWT(o)->_handle_addr = (cv_i8 *)cx; CV_AWT(o)->_next = 0
#define ENV_RESOLVE_V(f) do { F_STATE(f) = gh_out_state; if (gh_out_state == ST_EXCEPTION) F_EXCP(f) = gh_out_exc; *F_SLOT(f) = F_DIS; } while (0)
#ifdef CV_HAS_conv_v_invoke_u
void h_conv_v_invoke(void) { MK_EXC(); MK_CONV0(o); P_OWNER(CV_PROM(o)) = outer; ENV_RESOLVE_V(CV_FUT(o)); SP *r; conv_v_invoke(r, CV_AWT(o), (cv_i8 *)cx); SENT_CONV(); }
#endif
#ifdef CV_HAS_conv_vp_invoke_u
void h_conv_vp_invoke(void) { MK_EXC(); MK_CONV0(o); P_OWNER(CV_PROM(o)) = outer; ENV_RESOLVE_V(CV_FUT(o)); SP *r; conv_vp_invoke(r, CV_AWT(o), (cv_i8 *)cx); SENT_CONV();
  SENT(gh_out_state == ST_VALUE && !gh_conv_throws && gh_conv_uses_promise, "converter resolved the outer promise itself"); SENT(gh_out_state == ST_VALUE && !gh_conv_throws && !gh_conv_uses_promise, "converter left the promise alone"); }
#endif
#ifdef CV_HAS_conv_v_ctor
void h_conv_v_ctor(void) { CONVV *o; CTX0 *c; conv_v_ctor(o, c); SENT(1, "after future_conv<member fn, void source>()"); }
#endif
#ifdef CV_HAS_conv_vp_ctor
void h_conv_vp_ctor(void) { CONVVP *o; CTX0 *c; conv_vp_ctor(o, c); SENT(1, "after future_conv<member fn with promise, void source>()"); }
#endif
#ifdef CV_HAS_conv_m_ctor
void h_conv_m_ctor(void) { CONVM *o; CTX *c; conv_m_ctor(o, c); SENT(1, "after future_conv<member fn>()"); }
#endif
#ifdef CV_HAS_conv_f_ctor
void h_conv_f_ctor(void) { CONVF *o; conv_f_ctor(o); SENT(1, "after future_conv<free fn>()"); }
#endif
#ifdef CV_HAS_conv_p_ctor
void h_conv_p_ctor(void) { CONVP *o; CTX *c; conv_p_ctor(o, c); SENT(1, "after future_conv<member fn with promise>()"); }
#endif
#ifdef CV_HAS_conv_shift
void h_conv_shift(void) { MK_EXC(); MK_CONV(o); CV_AWT(o)->_resume_fn = rs_stub; P_OWNER(CV_PROM(o)) = 0; *F_SLOT(CV_FUT(o)) = nondet_bool() ? F_INS : F_DIS; F_STATE(CV_FUT(o)) = ST_NOT_VALUE;
  FUTL *r; FAC *fn; conv_shift(r, o, fn); SENT_TIMING(); SENT_OUTCOMES(); }
#endif
#ifdef CV_HAS_conv_call
void h_conv_call(void) { MK_CONV(o); P_OWNER(CV_PROM(o)) = 0; PROML *p; conv_call(o, p); SENT(1, "promise parked"); }
#endif
#ifdef CV_HAS_hlp_shift
void h_hlp_shift(void) { MK_EXC(); MK_CONV(o); CV_AWT(o)->_resume_fn = rs_stub; P_OWNER(CV_PROM(o)) = outer; *F_SLOT(CV_FUT(o)) = nondet_bool() ? F_INS : F_DIS; F_STATE(CV_FUT(o)) = ST_NOT_VALUE;
  HLP *h; FAC *fn; hlp_shift(h, fn); SENT_TIMING(); SENT_OUTCOMES(); }
#endif
