void h_probe(void) { __CPROVER_assert(0, "SENTINEL reachable"); }
