/* C18 - contracts on the callback adapters of future.h (future_with_cb / make_promise, discard, call_fn_future_awaiter) and
 * future_conv.h.  Sequential units: each adapter object is touched by one thread at a time (the registering thread up to the
 * subscription, afterwards only the resolving thread inside the awaiter's resume function - ordered by the release CAS / acquire
 * exchange of the subscription protocol, specs/C02).  The link to the other threads is the ABSTRACT CALLEE future_common::subscribe:
 *   - it returns a nondeterministic bool recorded in ghost state (false = the future was already resolved at registration, or another
 *     thread resolved it just before; true = subscribed); its real behaviour under interference is verified in specs/C02;
 *   - when it answers true it may (nondeterministically, gh_sub_conc) let the resolving thread run the awaiter's REAL resume function
 *     to completion before the registering thread continues ("resolves concurrently on another thread"): anything the adapter touches
 *     after a successful subscription is then a use-after-free found by CBMC.
 * The awaited operation's outcome is the triple (gh_out_state, gh_out_val, gh_out_exc): value / exception / broken promise.
 * User code (callback, converter, factory of the awaited future, storage, outer promise's resolution) = recording stubs. */
#define F_SLOT(f)  ((void **)&(f)->base_future_common._awaiter._M_b._M_p)
#define F_STATE(f) ((f)->base_future_common._state)
#define F_VALUE(f) (*(cv_i32 *)&(f)->f1)
#define F_EXCP(f)  (*(void **)&(f)->f1)
#define P_OWNER(p) (*(void **)&(p)->_owner._M_b._M_p)
#define ST_NOT_VALUE 0
#define ST_VALUE 1
#define ST_EXCEPTION 3
#define F_DIS ((void *)AW_DISABLED)
#define F_INS ((void *)AW_INSTANCE)
/* heap primitives (rt_core's are switched off by CV_NO_HEAP_PRIMS): additionally record WHAT was allocated / deleted */
unsigned gh_del_calls; void *gh_del_last; unsigned gh_new_calls; void *gh_new_last; cv_i64 gh_new_size;
cv_i8 *_Znwm(cv_i64 n) { gh_allocs++; gh_new_calls++; cv_i8 *p = malloc(n); __CPROVER_assume(p != 0); gh_new_last = p; gh_new_size = n; return p; }
void _ZdlPv(cv_i8 *p) { if (p) { gh_frees++; gh_del_calls++; gh_del_last = p; } free(p); }
void _ZdlPvm(cv_i8 *p, cv_i64 n) { _ZdlPv(p); }
#define HEAP_GHOSTS gh_allocs, gh_frees, gh_del_calls, gh_del_last, gh_new_calls, gh_new_last, gh_new_size
/* user storage (make_promise with Storage): alloc hands out a fresh block, dealloc releases it; both recorded */
unsigned gh_st_allocs, gh_st_deallocs; void *gh_st_block, *gh_st_freed, *gh_st_this; cv_i64 gh_st_size, gh_st_freed_size;
#ifdef CV_HAS_st_alloc
cv_i8 *st_alloc(STOR *this_, cv_i64 n) { gh_st_allocs++; gh_st_this = this_; gh_st_size = n; cv_i8 *p = malloc(n); __CPROVER_assume(p != 0); gh_st_block = p; return p; }
#endif
#ifdef CV_HAS_st_dealloc
void st_dealloc(cv_i8 *p, cv_i64 n) { gh_st_deallocs++; gh_st_freed = p; gh_st_freed_size = n; free(p); }
#endif
#define ST_GHOSTS gh_st_allocs, gh_st_deallocs, gh_st_block, gh_st_freed, gh_st_this, gh_st_size, gh_st_freed_size

/* ---- the awaited operation (environment) ------------------------------------------------------------------------------------- */
cv_i32 gh_out_state, gh_out_val; void *gh_out_exc;          /* its outcome                                        */
cv_i1 gh_fac_ready;                                          /* the factory returns an already resolved future     */
cv_i1 gh_sub_ret, gh_sub_conc;                               /* what subscribe answers on a pending future / whether the resolver runs at once */
int gh_fac_calls; void *gh_fac_ret, *gh_fac_this;
int gh_sub_calls; void *gh_sub_fut, *gh_sub_awt; cv_i1 gh_sub_result; int gh_env_resumes; unsigned gh_sub_dels_at_call;
#define OUT_PRE ((gh_out_state == ST_NOT_VALUE || gh_out_state == ST_VALUE || gh_out_state == ST_EXCEPTION) && (gh_out_state == ST_EXCEPTION ==> gh_out_exc != 0) && \
                 gh_fac_ready <= 1 && gh_sub_ret <= 1 && gh_sub_conc <= 1 && gh_fac_calls == 0 && gh_sub_calls == 0 && gh_env_resumes == 0)
#define ENV_GHOSTS gh_fac_calls, gh_fac_ret, gh_fac_this, gh_sub_calls, gh_sub_fut, gh_sub_awt, gh_sub_result, gh_env_resumes, gh_sub_dels_at_call
static void env_resolve(FUT *f) {           /* what the winner of the promise does (C01): payload first, then the ready marker */
  F_STATE(f) = gh_out_state;
  if (gh_out_state == ST_VALUE) F_VALUE(f) = gh_out_val;
  if (gh_out_state == ST_EXCEPTION) F_EXCP(f) = gh_out_exc;
  *F_SLOT(f) = F_DIS; }
#ifdef CV_HAS_fac_call
void fac_call(FUT *ret, FAC *this_) {       /* the function passed to discard / operator<<: returns THE awaited future */
  gh_fac_calls++; gh_fac_ret = ret; gh_fac_this = this_;
  *F_SLOT(ret) = 0; F_STATE(ret) = ST_NOT_VALUE; F_EXCP(ret) = 0;       /* pending: a promise exists somewhere in the environment */
  if (gh_fac_ready) env_resolve(ret); }
#endif
#ifdef CV_HAS_fc_subscribe
cv_i1 fc_subscribe(FC *this_, AWT *awt) {
  gh_sub_calls++; gh_sub_fut = this_; gh_sub_awt = awt; gh_sub_dels_at_call = gh_del_calls;
  cv_i1 ready = (*(void **)&this_->_awaiter._M_b._M_p == F_DIS) ? 1 : 0;
  cv_i1 r = ready ? 0 : gh_sub_ret;         /* a resolved future never accepts a waiter; a pending one may have been resolved by another thread just before */
  gh_sub_result = r;
  if (!ready && r == 0) env_resolve((FUT *)this_);
  if (r == 1 && gh_sub_conc) {              /* subscribed, and the resolving thread is faster: resolution + the awaiter's resume function run to completion now */
    env_resolve((FUT *)this_);
    SP tmp; gh_env_resumes++;
    __CPROVER_assert(awt->_resume_fn != 0, "callback adapter subscribed without a resume function");
    awt->_resume_fn(&tmp, awt, awt->_handle_addr); }
  return r; }
#endif
/* blocking wait: must never be reached from a completion path (the future is resolved there) */
#ifdef CV_HAS_ab_wait
void ab_wait(ATOMB *flag, cv_i1 old, cv_i32 order) { __CPROVER_assert(0, "blocking wait on the awaited future inside a completion path (it must be resolved there)"); __CPROVER_assume(0); }
#endif
int gh_sn_calls;
#ifdef CV_HAS_sp_suspend_now
void sp_suspend_now(SP *p) { gh_sn_calls++; p->_count_flag = 0; }
#endif
/* arbitrary inline suspend point returned by user functions */
cv_i32 gh_u_cf; cv_i8 *gh_u_h[3];
#define U_PRE (gh_u_cf == 0 || gh_u_cf == 2 || gh_u_cf == 4 || gh_u_cf == 6)
#define SET_U(ret) ((ret)->_count_flag = gh_u_cf, (ret)->f0.f0._handles[0] = gh_u_h[0], (ret)->f0.f0._handles[1] = gh_u_h[1], (ret)->f0.f0._handles[2] = gh_u_h[2])
#define RET_IS_U(ret) ((ret)->_count_flag == gh_u_cf && (ret)->f0.f0._handles[0] == gh_u_h[0] && (ret)->f0.f0._handles[1] == gh_u_h[1] && (ret)->f0.f0._handles[2] == gh_u_h[2])

/* =================================== future_with_cb / make_promise ============================================================ */
/* the user's completion callback: receives the future itself */
int gh_cb_calls; void *gh_cb_this, *gh_cb_arg; cv_i32 gh_cb_state, gh_cb_val; void *gh_cb_exc; cv_i1 gh_cb_ready; unsigned gh_cb_dels_at_call, gh_cb_stfree_at_call;
#define CB_GHOSTS gh_cb_calls, gh_cb_this, gh_cb_arg, gh_cb_state, gh_cb_val, gh_cb_exc, gh_cb_ready, gh_cb_dels_at_call, gh_cb_stfree_at_call
#ifdef CV_HAS_user_cb
void user_cb(CBT *this_, FUT *f) { gh_cb_calls++; gh_cb_this = this_; gh_cb_arg = f; gh_cb_state = F_STATE(f); gh_cb_val = F_VALUE(f); gh_cb_exc = F_EXCP(f);
  gh_cb_ready = (*F_SLOT(f) == F_DIS) ? 1 : 0; gh_cb_dels_at_call = gh_del_calls; gh_cb_stfree_at_call = gh_st_deallocs; }
#endif
#define CB_FUT(o) (&(o)->base_future)
#define CB_AWT(o) (&(o)->base_awaiter)
/* future_with_cb(fn): an unresolved future whose ONLY waiter is its own awaiter (slot = the awaiter, not a chain), resume function = the lambda */
#define CB_CONSTRUCTED(o, tagv) (*F_SLOT(CB_FUT(o)) == (void *)CB_AWT(o) && F_STATE(CB_FUT(o)) == ST_NOT_VALUE && CB_AWT(o)->_next == 0 && \
   (void *)CB_AWT(o)->_resume_fn == (void *)cb_invoke && (o)->_fn.tag == (tagv))
#ifdef CV_HAS_cb_ctor
cv_i32 gh_tag;
void cb_ctor(CB *this_, CBT *fn)
__CPROVER_requires(cv_exc_pending == 0 && __CPROVER_is_fresh(this_, sizeof(*this_)) && __CPROVER_is_fresh(fn, sizeof(*fn)) && gh_tag == fn->tag)
__CPROVER_assigns(__CPROVER_object_whole(this_))
__CPROVER_ensures(cv_exc_pending == 0 && CB_CONSTRUCTED(this_, gh_tag) && gh_allocs == __CPROVER_old(gh_allocs))
;
#endif
/* the resume function: calls fn exactly once with the (resolved) future while the object is alive, then deletes the object exactly once */
void *gh_obj; cv_i64 gh_obj_size;
#ifdef CV_HAS_cb_invoke_u
void cb_invoke(SP *ret, AWT *me, cv_i8 *ctx)
__CPROVER_requires(cv_exc_pending == 0 && gh_obj != 0 && me == CB_AWT((CB *)gh_obj) && gh_cb_calls == 0 && gh_del_calls == 0 && gh_st_deallocs == 0 && __CPROVER_is_fresh(ret, sizeof(*ret)))
__CPROVER_requires(*F_SLOT(CB_FUT((CB *)gh_obj)) == F_DIS && F_STATE(CB_FUT((CB *)gh_obj)) == gh_out_state && OUT_PRE &&       /* resumed only after the promise resolved the future (C01/C02) */ \
                   (gh_out_state == ST_VALUE ==> F_VALUE(CB_FUT((CB *)gh_obj)) == gh_out_val) && (gh_out_state == ST_EXCEPTION ==> F_EXCP(CB_FUT((CB *)gh_obj)) == gh_out_exc))
__CPROVER_assigns(__CPROVER_object_whole(ret), __CPROVER_object_whole(gh_obj), CB_GHOSTS, HEAP_GHOSTS, ST_GHOSTS, gh_ep_release)
__CPROVER_frees(gh_obj)
__CPROVER_ensures(cv_exc_pending == 0 && ret->_count_flag == 0)
__CPROVER_ensures(gh_cb_calls == 1 && gh_cb_this == (void *)&((CB *)gh_obj)->_fn && gh_cb_arg == (void *)CB_FUT((CB *)gh_obj))           /* exactly once, with THE future */
__CPROVER_ensures(gh_cb_ready == 1 && gh_cb_state == gh_out_state && (gh_out_state == ST_VALUE ==> gh_cb_val == gh_out_val) && (gh_out_state == ST_EXCEPTION ==> gh_cb_exc == gh_out_exc))   /* ... carrying the operation's outcome */
__CPROVER_ensures(gh_cb_dels_at_call == 0 && gh_cb_stfree_at_call == 0)                                                               /* ... while the helper is still alive */
#ifdef CV_C18_STORAGE
__CPROVER_ensures(gh_st_deallocs == 1 && gh_st_freed == gh_obj && gh_st_freed_size == gh_obj_size && gh_del_calls == 0)             /* released exactly once, to ITS storage, with its size */
#else
__CPROVER_ensures(gh_del_calls == 1 && gh_del_last == gh_obj && gh_st_deallocs == 0)                                                  /* released exactly once */
#endif
__CPROVER_ensures(gh_ep_release == __CPROVER_old(gh_ep_release) + (gh_out_state == ST_EXCEPTION ? 1 : 0))                             /* a stored exception is released with it */
;
#endif
/* make_promise(fn): one heap object constructed as above; the returned promise is armed for exactly that future */
#ifdef CV_HAS_make_promise
cv_i32 gh_tag;
void make_promise(PROM *ret, CBT *fn)
__CPROVER_requires(cv_exc_pending == 0 && gh_new_calls == 0 && gh_del_calls == 0 && gh_cb_calls == 0 && __CPROVER_is_fresh(ret, sizeof(*ret)) && __CPROVER_is_fresh(fn, sizeof(*fn)) && gh_tag == fn->tag)
__CPROVER_assigns(__CPROVER_object_whole(ret), HEAP_GHOSTS)
__CPROVER_ensures(cv_exc_pending == 0 && gh_new_calls == 1 && gh_new_size == sizeof(CB) && gh_del_calls == 0 && gh_cb_calls == 0)
__CPROVER_ensures(P_OWNER(ret) == (void *)CB_FUT((CB *)gh_new_last) && CB_CONSTRUCTED((CB *)gh_new_last, gh_tag))
;
#endif
#ifdef CV_HAS_make_promise_st
cv_i32 gh_tag;
void make_promise_st(PROM *ret, CBT *fn, STOR *st)
__CPROVER_requires(cv_exc_pending == 0 && gh_new_calls == 0 && gh_del_calls == 0 && gh_st_allocs == 0 && gh_st_deallocs == 0 && gh_cb_calls == 0)
__CPROVER_requires(__CPROVER_is_fresh(ret, sizeof(*ret)) && __CPROVER_is_fresh(fn, sizeof(*fn)) && __CPROVER_is_fresh(st, sizeof(*st)) && gh_tag == fn->tag)
__CPROVER_assigns(__CPROVER_object_whole(ret), HEAP_GHOSTS, ST_GHOSTS)
__CPROVER_ensures(cv_exc_pending == 0 && gh_new_calls == 0 && gh_st_allocs == 1 && gh_st_this == (void *)st && gh_st_size == sizeof(CBS) && gh_st_deallocs == 0 && gh_cb_calls == 0)   /* the one block comes from the given storage */
__CPROVER_ensures(P_OWNER(ret) == (void *)CB_FUT((CB *)gh_st_block) && CB_CONSTRUCTED((CB *)gh_st_block, gh_tag))
__CPROVER_ensures((void *)((CB *)gh_st_block)->_vptr_future_with_cb == (void *)&VT_CBS->f0[2])        /* destroyed through the storage-aware deleting destructor */
;
#endif

/* future_with_cb::operator<<(factory) (audit E "Adjacent", audit A item 2).  future_with_cb IS the helper object of make_promise (anchor future.h:875-946) and
 * operator<< is its second public registration route: start the operation (the factory returns the awaited future into the helper) and have the helper's
 * callback complete it.  Clause from the property: "A completion registered through ... runs exactly once per awaited operation - with the operation's value,
 * or its exception or broken-promise state - whether the awaited future was already resolved at registration, resolves later ..., or resolves concurrently
 * ..., and the helper's heap or storage block is released exactly once afterwards."  Function under contract = the fixed-signature driver wrapper
 * drv_cb_shift(f, fn) { (*f) << std::move(*fn); } with the real operator<< / result_of / resume lambda / destructors translated into it. */
#ifdef CV_HAS_cb_shift
#define CB_RAN_ONCE_WITH_OUTCOME(o) (gh_cb_calls == 1 && gh_cb_this == (void *)&(o)->_fn && gh_cb_arg == (void *)CB_FUT(o) && gh_cb_ready == 1 && gh_cb_state == gh_out_state && \
   (gh_out_state == ST_VALUE ==> gh_cb_val == gh_out_val) && (gh_out_state == ST_EXCEPTION ==> gh_cb_exc == gh_out_exc) && gh_cb_dels_at_call == 0)
cv_i32 gh_tag;
void cb_shift(CB *f, FAC *fn)
__CPROVER_requires(cv_exc_pending == 0 && OUT_PRE && gh_obj != 0 && f == (CB *)gh_obj && CB_CONSTRUCTED((CB *)gh_obj, gh_tag) && __CPROVER_is_fresh(fn, sizeof(*fn)))     /* a helper as its constructor left it: no promise handed out, nothing pending */
__CPROVER_requires(gh_cb_calls == 0 && gh_del_calls == 0 && gh_new_calls == 0 && gh_st_deallocs == 0 && gh_sn_calls == 0)
__CPROVER_assigns(__CPROVER_object_whole(gh_obj), ENV_GHOSTS, CB_GHOSTS, HEAP_GHOSTS, ST_GHOSTS, gh_ep_release, gh_ep_addref, gh_sn_calls)
__CPROVER_frees(gh_obj)
__CPROVER_ensures(cv_exc_pending == 0 && gh_fac_calls == 1 && gh_fac_this == (void *)fn && gh_fac_ret == (void *)CB_FUT((CB *)gh_obj))                 /* the operation is started once; the awaited future lives in the helper */
__CPROVER_ensures(gh_cb_calls >= 1 || (gh_sub_calls == 1 && gh_sub_result == 1 && gh_sub_fut == gh_fac_ret && gh_sub_awt == (void *)CB_AWT((CB *)gh_obj)))   /* C18-CBSHIFT: the completion has run, or it is registered with the awaited future (never lost) */
__CPROVER_ensures(gh_cb_calls >= 1 ==> (CB_RAN_ONCE_WITH_OUTCOME((CB *)gh_obj) && gh_del_calls == 1 && gh_del_last == gh_obj))                         /* whenever it has run: exactly once, with the outcome, on the live helper; block released once afterwards */
__CPROVER_ensures((gh_sub_calls == 1 && (gh_sub_result == 0 || gh_env_resumes == 1)) ==> gh_cb_calls == 1)                                              /* resolved at registration (run by this thread) / concurrently (run by the resolver, not again by this thread) */
__CPROVER_ensures((gh_sub_calls == 1 && gh_sub_result == 1 && gh_env_resumes == 0) ==> (gh_cb_calls == 0 && gh_del_calls == 0 && (void *)CB_AWT((CB *)gh_obj)->_resume_fn == (void *)cb_invoke && \
                   *F_SLOT(CB_FUT((CB *)gh_obj)) != F_DIS && ((CB *)gh_obj)->_fn.tag == gh_tag))                                                          /* still waiting: the subscribed awaiter will run the callback (cb_invoke unit) */
__CPROVER_ensures(gh_new_calls == 0 && gh_sn_calls == 0 && gh_st_deallocs == 0)
__CPROVER_ensures(gh_del_calls == 1 ==> gh_ep_release == __CPROVER_old(gh_ep_release) + (gh_out_state == ST_EXCEPTION ? 1 : 0))
;
#endif

/* =================================== discard ================================================================================== */
#define D_FUT(o) (&(o)->_fut)
#define D_AWT(o) (&(o)->base_awaiter)
/* completion of discard = the helper (with the future and its result inside) is destroyed.  Exactly once, in every timing. */
#ifdef CV_HAS_discard
void discard(FAC *fn)
__CPROVER_requires(cv_exc_pending == 0 && OUT_PRE && gh_new_calls == 0 && gh_del_calls == 0 && gh_sn_calls == 0 && __CPROVER_is_fresh(fn, sizeof(*fn)))
__CPROVER_assigns(ENV_GHOSTS, HEAP_GHOSTS, gh_ep_release, gh_ep_addref, gh_sn_calls)
__CPROVER_ensures(cv_exc_pending == 0 && gh_fac_calls == 1 && gh_fac_this == (void *)fn && gh_new_calls == 1 && gh_fac_ret == (void *)D_FUT((DAWT *)gh_new_last))        /* the awaited future lives in the one helper object */
__CPROVER_ensures(gh_sub_calls == 1 && gh_sub_fut == gh_fac_ret && gh_sub_awt == (void *)D_AWT((DAWT *)gh_new_last) && gh_sub_dels_at_call == 0)
__CPROVER_ensures(gh_sub_result == 0 ==> (gh_del_calls == 1 && gh_del_last == gh_new_last && gh_env_resumes == 0))       /* already resolved at registration: finished at once, by this thread */
__CPROVER_ensures((gh_sub_result == 1 && gh_env_resumes == 1) ==> (gh_del_calls == 1 && gh_del_last == gh_new_last))      /* resolved concurrently: finished by the resolver, not again by this thread */
__CPROVER_ensures((gh_sub_result == 1 && gh_env_resumes == 0) ==> (gh_del_calls == 0 && (void *)D_AWT((DAWT *)gh_new_last)->_resume_fn == (void *)d_fin && *F_SLOT(D_FUT((DAWT *)gh_new_last)) != F_DIS))   /* still waiting: the subscribed awaiter will run fin */
__CPROVER_ensures(gh_del_calls == 1 ==> gh_ep_release == __CPROVER_old(gh_ep_release) + (gh_out_state == ST_EXCEPTION ? 1 : 0))
__CPROVER_ensures(gh_sn_calls == 0)
;
#endif
#ifdef CV_HAS_d_fin_u
void d_fin(SP *ret, AWT *me, cv_i8 *ctx)
__CPROVER_requires(cv_exc_pending == 0 && gh_obj != 0 && me == D_AWT((DAWT *)gh_obj) && gh_del_calls == 0 && __CPROVER_is_fresh(ret, sizeof(*ret)))
__CPROVER_requires(*F_SLOT(D_FUT((DAWT *)gh_obj)) == F_DIS && F_STATE(D_FUT((DAWT *)gh_obj)) == gh_out_state && OUT_PRE && (gh_out_state == ST_EXCEPTION ==> F_EXCP(D_FUT((DAWT *)gh_obj)) == gh_out_exc))
__CPROVER_assigns(__CPROVER_object_whole(ret), __CPROVER_object_whole(gh_obj), HEAP_GHOSTS, gh_ep_release)
__CPROVER_frees(gh_obj)
__CPROVER_ensures(cv_exc_pending == 0 && ret->_count_flag == 0 && gh_del_calls == 1 && gh_del_last == gh_obj)
__CPROVER_ensures(gh_ep_release == __CPROVER_old(gh_ep_release) + (gh_out_state == ST_EXCEPTION ? 1 : 0))
;
#endif

/* =================================== call_fn_future_awaiter =================================================================== */
int gh_done_calls; void *gh_done_this, *gh_done_arg; cv_i32 gh_done_state, gh_done_val; void *gh_done_exc; cv_i1 gh_done_ready;
#define DONE_GHOSTS gh_done_calls, gh_done_this, gh_done_arg, gh_done_state, gh_done_val, gh_done_exc, gh_done_ready
#ifdef CV_HAS_obj_done
void obj_done(SP *ret, OBJ *this_, FUT *f) { gh_done_calls++; gh_done_this = this_; gh_done_arg = f; gh_done_state = F_STATE(f); gh_done_val = F_VALUE(f); gh_done_exc = F_EXCP(f);
  gh_done_ready = (*F_SLOT(f) == F_DIS) ? 1 : 0; SET_U(ret); }
#endif
#define CFA_FUT(o) (&(o)->_fut)
#define CFA_AWT(o) (&(o)->base_awaiter)
#define DONE_WITH_OUTCOME(a) (gh_done_calls == 1 && gh_done_arg == (void *)CFA_FUT(a) && gh_done_ready == 1 && gh_done_state == gh_out_state && \
   (gh_out_state == ST_VALUE ==> gh_done_val == gh_out_val) && (gh_out_state == ST_EXCEPTION ==> gh_done_exc == gh_out_exc))
#ifdef CV_HAS_cfa_ctor
void cfa_ctor(CFA *this_, OBJ *owner)
__CPROVER_requires(cv_exc_pending == 0 && __CPROVER_is_fresh(this_, sizeof(*this_)))
__CPROVER_assigns(__CPROVER_object_whole(this_))
__CPROVER_ensures(cv_exc_pending == 0 && (void *)CFA_AWT(this_)->_resume_fn == (void *)cfa_wakeup && CFA_AWT(this_)->_handle_addr == (cv_i8 *)owner && CFA_AWT(this_)->_next == 0)
__CPROVER_ensures(*F_SLOT(CFA_FUT(this_)) == F_INS && F_STATE(CFA_FUT(this_)) == ST_NOT_VALUE)       /* no operation in flight */
;
#endif
#ifdef CV_HAS_cfa_wakeup_u
void cfa_wakeup(SP *ret, AWT *me, cv_i8 *ctx)
__CPROVER_requires(cv_exc_pending == 0 && gh_obj != 0 && me == CFA_AWT((CFA *)gh_obj) && gh_done_calls == 0 && U_PRE && __CPROVER_is_fresh(ret, sizeof(*ret)))
__CPROVER_requires(*F_SLOT(CFA_FUT((CFA *)gh_obj)) == F_DIS && F_STATE(CFA_FUT((CFA *)gh_obj)) == gh_out_state && OUT_PRE && \
                   (gh_out_state == ST_VALUE ==> F_VALUE(CFA_FUT((CFA *)gh_obj)) == gh_out_val) && (gh_out_state == ST_EXCEPTION ==> F_EXCP(CFA_FUT((CFA *)gh_obj)) == gh_out_exc))
__CPROVER_assigns(__CPROVER_object_whole(ret), DONE_GHOSTS)
__CPROVER_ensures(cv_exc_pending == 0 && DONE_WITH_OUTCOME((CFA *)gh_obj) && gh_done_this == (void *)ctx && RET_IS_U(ret))    /* the owner's member function, once, with the completed future; its suspend point is passed on */
__CPROVER_ensures(gh_allocs == __CPROVER_old(gh_allocs) && gh_frees == __CPROVER_old(gh_frees))
;
#endif
/* operator<<(xfn): capture the future returned by xfn, register; completion runs exactly once: here (already resolved), by the resolver (later /
 * concurrently), never both */
#ifdef CV_HAS_cfa_shift
/* wakeup's address is taken only by the constructor (not part of this unit): add it to the devirtualised dispatch of awaiter::resume() */
#define CV_ICALL_EXTRA_v_ppp(p, a0, a1, a2) if ((p) == (void *)cfa_wakeup) { cfa_wakeup((SP *)(a0), (AWT *)(a1), (cv_i8 *)(a2)); return; }
void cfa_shift(CFA *this_, FAC *xfn)
__CPROVER_requires(cv_exc_pending == 0 && OUT_PRE && U_PRE && gh_obj == (void *)this_ && gh_done_calls == 0 && gh_sn_calls == 0 && __CPROVER_is_fresh(xfn, sizeof(*xfn)))
__CPROVER_requires((void *)CFA_AWT(this_)->_resume_fn == (void *)cfa_wakeup && CFA_AWT(this_)->_handle_addr != 0 && CFA_AWT(this_)->_next == 0)
__CPROVER_requires((*F_SLOT(CFA_FUT(this_)) == F_INS || *F_SLOT(CFA_FUT(this_)) == F_DIS) && F_STATE(CFA_FUT(this_)) == ST_NOT_VALUE)     /* documented: no pending operation is overwritten */
__CPROVER_assigns(__CPROVER_object_whole(gh_obj), ENV_GHOSTS, DONE_GHOSTS, gh_sn_calls, gh_ep_release, gh_ep_addref)
__CPROVER_ensures(cv_exc_pending == 0 && gh_fac_calls == 1 && gh_fac_this == (void *)xfn && gh_fac_ret == (void *)CFA_FUT(this_))
__CPROVER_ensures(gh_sub_calls == 1 && gh_sub_fut == (void *)CFA_FUT(this_) && gh_sub_awt == (void *)CFA_AWT(this_))
__CPROVER_ensures((gh_sub_result == 0 || gh_env_resumes == 1) ==> (DONE_WITH_OUTCOME(this_) && gh_done_this == (void *)CFA_AWT(this_)->_handle_addr))
__CPROVER_ensures((gh_sub_result == 1 && gh_env_resumes == 0) ==> (gh_done_calls == 0 && *F_SLOT(CFA_FUT(this_)) != F_DIS))
__CPROVER_ensures(gh_sn_calls == ((gh_sub_result == 0 && gh_u_cf != 0) ? 1 : 0))       /* coroutines made ready by the handler are resumed (suspend point of the immediate completion is flushed) */
__CPROVER_ensures(gh_allocs == __CPROVER_old(gh_allocs) && gh_frees == __CPROVER_old(gh_frees))
;
#endif

/* =================================== future_conv ============================================================================== */
/* resolution of the OUTER future through promise<long> (abstract callees; their real behaviour = C01): recorded iff the promise is armed */
enum { OR_NONE = 0, OR_VALUE = 1, OR_EXC = 2, OR_DROP = 3 };
int gh_or_calls, gh_or_kind; cv_i64 gh_or_val; void *gh_or_exc, *gh_or_target; int gh_pl_unarmed_calls;
#define OR_GHOSTS gh_or_calls, gh_or_kind, gh_or_val, gh_or_exc, gh_or_target, gh_pl_unarmed_calls
static cv_i1 outer_resolve(PROML *p, int kind, cv_i64 v, void *e) {
  void *o = P_OWNER(p);
  if (o == 0) { gh_pl_unarmed_calls++; return 0; }
  gh_or_calls++; gh_or_kind = kind; gh_or_val = v; gh_or_exc = e; gh_or_target = o; P_OWNER(p) = 0; return 1; }
#ifdef CV_HAS_pl_call_val
void pl_call_val(SPB *ret, PROML *p, cv_i64 *v) { ret->value = outer_resolve(p, OR_VALUE, *v, 0); ret->base_suspend_point._count_flag = 0; }
#endif
#ifdef CV_HAS_pl_call_exc
void pl_call_exc(SPB *ret, PROML *p, EPTR *e) { ret->value = outer_resolve(p, OR_EXC, 0, (void *)e->_M_exception_object); ret->base_suspend_point._count_flag = 0; }
#endif
#ifdef CV_HAS_pl_dtor
void pl_dtor(PROML *p) { if (P_OWNER(p) != 0) outer_resolve(p, OR_DROP, 0, 0); }      /* an armed promise that dies resolves its future to "no value" */
#endif
/* the converters (user code): record the argument, return the logical value gh_conv_ret or throw gh_conv_exc */
int gh_conv_calls; void *gh_conv_this, *gh_conv_arg; cv_i32 gh_conv_argval; cv_i64 gh_conv_ret; cv_i1 gh_conv_throws; void *gh_conv_exc; void *gh_conv_prom_target; cv_i1 gh_conv_uses_promise;
#define CONV_GHOSTS gh_conv_calls, gh_conv_this, gh_conv_arg, gh_conv_argval, gh_conv_prom_target
#define CONV_THROW() do { cv_exc_pending = 1; cv_exc_obj = gh_conv_exc; cv_exc_tinfo = *(void **)((cv_i8 *)gh_conv_exc - CV_EXC_HDR); } while (0)
#ifdef CV_HAS_ctx_conv
cv_i64 ctx_conv(CTX *this_, cv_i32 *v) { gh_conv_calls++; gh_conv_this = this_; gh_conv_arg = v; gh_conv_argval = *v; if (gh_conv_throws) { CONV_THROW(); return 0; } return gh_conv_ret; }
#endif
#ifdef CV_HAS_conv_free
cv_i64 conv_free(cv_i32 *v) { gh_conv_calls++; gh_conv_this = 0; gh_conv_arg = v; gh_conv_argval = *v; if (gh_conv_throws) { CONV_THROW(); return 0; } return gh_conv_ret; }
#endif
#ifdef CV_HAS_ctx_conv_p
void ctx_conv_p(SP *ret, CTX *this_, cv_i32 *v, PROML *p) { gh_conv_calls++; gh_conv_this = this_; gh_conv_arg = v; gh_conv_argval = *v; gh_conv_prom_target = P_OWNER(p);
  ret->_count_flag = 0;
  if (gh_conv_throws) { CONV_THROW(); return; }
  if (gh_conv_uses_promise) { outer_resolve(p, OR_VALUE, gh_conv_ret, 0); SET_U(ret); } }      /* otherwise the promise is left armed: it resolves to "no value" when the lambda's local dies */
#endif
#define CV_FUT(o)  (&(o)->_fut)
#define CV_PROM(o) (&(o)->_prom)
#define CV_AWT(o)  (&(o)->base_awaiter)
void *gh_outer;           /* the outer future<long> (harness object) */
/* the resume lambda of a future_conv specialisation: source resolved; parked promise armed for the outer future */
/* T = the future_conv_promise_base instance (CONVB: int source, CONVBV: void source - a void source has no payload in the value state) */
#define CONV_INVOKE_PRE_T(T, ret, me) (cv_exc_pending == 0 && gh_obj != 0 && (me) == CV_AWT((T *)gh_obj) && __CPROVER_is_fresh(ret, sizeof(*ret)) && OUT_PRE && U_PRE && \
   *F_SLOT(CV_FUT((T *)gh_obj)) == F_DIS && F_STATE(CV_FUT((T *)gh_obj)) == gh_out_state && \
   (gh_out_state == ST_EXCEPTION ==> F_EXCP(CV_FUT((T *)gh_obj)) == gh_out_exc) && gh_outer != 0 && P_OWNER(CV_PROM((T *)gh_obj)) == gh_outer && \
   cv_caught_n == 0 && gh_or_calls == 0 && gh_pl_unarmed_calls == 0 && gh_conv_calls == 0 && gh_conv_throws <= 1 && gh_conv_uses_promise <= 1 && (gh_conv_throws ==> gh_conv_exc != 0) && gh_wait_reached == 0)
#define CONV_INVOKE_PRE(ret, me) (CONV_INVOKE_PRE_T(CONVB, ret, me) && (gh_out_state == ST_VALUE ==> F_VALUE(CV_FUT((CONVB *)gh_obj)) == gh_out_val))
#define CONV_INVOKE_ASSIGNS(ret) __CPROVER_assigns(__CPROVER_object_whole(ret), __CPROVER_object_whole(gh_obj), OR_GHOSTS, CONV_GHOSTS, ENV_GHOSTS, cv_exc_pending, cv_exc_obj, cv_exc_tinfo, cv_caught_n, __CPROVER_object_whole(cv_caught_obj), __CPROVER_object_whole(cv_caught_ti), gh_ep_addref, gh_ep_release, gh_sn_calls)
/* the outer future is resolved EXACTLY once, with: the converted value / the converter's exception / the source's exception / await_canceled for a broken source promise */
#define CONV_INVOKE_POST_T(T, ctxv) \
__CPROVER_ensures(cv_exc_pending == 0 && gh_or_calls == 1 && gh_or_target == gh_outer && gh_pl_unarmed_calls == 0 && P_OWNER(CV_PROM((T *)gh_obj)) == 0) \
__CPROVER_ensures(gh_out_state == ST_VALUE ==> (gh_conv_calls == 1 && gh_conv_this == (void *)(ctxv))) \
__CPROVER_ensures(gh_out_state != ST_VALUE ==> gh_conv_calls == 0) \
__CPROVER_ensures((gh_out_state == ST_VALUE && gh_conv_throws) ==> (gh_or_kind == OR_EXC && gh_or_exc == gh_conv_exc))                   /* converter's exception */ \
__CPROVER_ensures(gh_out_state == ST_EXCEPTION ==> (gh_or_kind == OR_EXC && gh_or_exc == gh_out_exc))                                  /* source's exception */ \
__CPROVER_ensures(gh_out_state == ST_NOT_VALUE ==> (gh_or_kind == OR_EXC && gh_or_exc != 0 && *(void **)((cv_i8 *)gh_or_exc - CV_EXC_HDR) == (void *)TI_AWAIT_CANCELED))   /* broken promise */ \
__CPROVER_ensures(gh_allocs == __CPROVER_old(gh_allocs) && gh_frees == __CPROVER_old(gh_frees))
#define CONV_INVOKE_POST(ctxv) CONV_INVOKE_POST_T(CONVB, ctxv) \
__CPROVER_ensures(gh_out_state == ST_VALUE ==> (gh_conv_arg == (void *)&F_VALUE(CV_FUT((CONVB *)gh_obj)) && gh_conv_argval == gh_out_val))   /* the converter is handed the source's value */
int gh_wait_reached;
#ifdef CV_HAS_conv_m_invoke_u
void conv_m_invoke(SP *ret, AWT *me, cv_i8 *ctx)
__CPROVER_requires(CONV_INVOKE_PRE(ret, me)) CONV_INVOKE_ASSIGNS(ret) CONV_INVOKE_POST(ctx)
__CPROVER_ensures((gh_out_state == ST_VALUE && !gh_conv_throws) ==> (gh_or_kind == OR_VALUE && gh_or_val == gh_conv_ret))                /* exactly the converted value */
;
#endif
#ifdef CV_HAS_conv_f_invoke_u
void conv_f_invoke(SP *ret, AWT *me, cv_i8 *ctx)
__CPROVER_requires(CONV_INVOKE_PRE(ret, me)) CONV_INVOKE_ASSIGNS(ret) CONV_INVOKE_POST(0)
__CPROVER_ensures((gh_out_state == ST_VALUE && !gh_conv_throws) ==> (gh_or_kind == OR_VALUE && gh_or_val == gh_conv_ret))
;
#endif
#ifdef CV_HAS_conv_p_invoke_u
void conv_p_invoke(SP *ret, AWT *me, cv_i8 *ctx)
__CPROVER_requires(CONV_INVOKE_PRE(ret, me)) CONV_INVOKE_ASSIGNS(ret) CONV_INVOKE_POST(ctx)
__CPROVER_ensures(gh_out_state == ST_VALUE ==> gh_conv_prom_target == gh_outer)                                                          /* the converter is handed THE outer promise */
__CPROVER_ensures((gh_out_state == ST_VALUE && !gh_conv_throws && gh_conv_uses_promise) ==> (gh_or_kind == OR_VALUE && gh_or_val == gh_conv_ret && RET_IS_U(ret)))
__CPROVER_ensures((gh_out_state == ST_VALUE && !gh_conv_throws && !gh_conv_uses_promise) ==> gh_or_kind == OR_DROP)                      /* converter resolved nothing: not left pending for ever */
;
#endif
/* ---- void-source specialisations To (Ctx::*)() and suspend_point<void> (Ctx::*)(promise<To>&) (audit E/D3).  The property does not distinguish them:
 * "Converters deliver exactly the converted value, or the exception thrown by the source or the converter, to the outer future" - a failed source
 * (exception / broken promise) must reach the outer future, the converter runs only for a source that delivered. */
#ifdef CV_HAS_ctx0_conv
cv_i64 ctx0_conv(CTX0 *this_) { gh_conv_calls++; gh_conv_this = this_; gh_conv_arg = 0; if (gh_conv_throws) { CONV_THROW(); return 0; } return gh_conv_ret; }
#endif
#ifdef CV_HAS_ctx0_conv_p
void ctx0_conv_p(SP *ret, CTX0 *this_, PROML *p) { gh_conv_calls++; gh_conv_this = this_; gh_conv_arg = 0; gh_conv_prom_target = P_OWNER(p);
  ret->_count_flag = 0;
  if (gh_conv_throws) { CONV_THROW(); return; }
  if (gh_conv_uses_promise) { outer_resolve(p, OR_VALUE, gh_conv_ret, 0); SET_U(ret); } }
#endif
#ifdef CV_HAS_conv_v_invoke_u
void conv_v_invoke(SP *ret, AWT *me, cv_i8 *ctx)
__CPROVER_requires(CONV_INVOKE_PRE_T(CONVBV, ret, me)) CONV_INVOKE_ASSIGNS(ret)      /* the clauses of CONV_INVOKE_POST_T(CONVBV, ctx), written out so that a failure names its clause */
__CPROVER_ensures(cv_exc_pending == 0 && gh_or_calls == 1 && gh_or_target == gh_outer && gh_pl_unarmed_calls == 0 && P_OWNER(CV_PROM((CONVBV *)gh_obj)) == 0)   /* outer future resolved exactly once */
__CPROVER_ensures(gh_out_state == ST_VALUE ==> (gh_conv_calls == 1 && gh_conv_this == (void *)ctx))
__CPROVER_ensures(gh_out_state != ST_VALUE ==> gh_conv_calls == 0)                                                                       /* C18-D3: a failed source is not converted */
__CPROVER_ensures((gh_out_state == ST_VALUE && gh_conv_throws) ==> (gh_or_kind == OR_EXC && gh_or_exc == gh_conv_exc))                   /* converter's exception */
__CPROVER_ensures(gh_out_state == ST_EXCEPTION ==> (gh_or_kind == OR_EXC && gh_or_exc == gh_out_exc))                                  /* C18-D3: the source's exception reaches the outer future */
__CPROVER_ensures(gh_out_state == ST_NOT_VALUE ==> (gh_or_kind == OR_EXC && gh_or_exc != 0 && *(void **)((cv_i8 *)gh_or_exc - CV_EXC_HDR) == (void *)TI_AWAIT_CANCELED))   /* C18-D3: broken source promise */
__CPROVER_ensures(gh_allocs == __CPROVER_old(gh_allocs) && gh_frees == __CPROVER_old(gh_frees))
__CPROVER_ensures((gh_out_state == ST_VALUE && !gh_conv_throws) ==> (gh_or_kind == OR_VALUE && gh_or_val == gh_conv_ret))                /* exactly the converted value */
;
#endif
#ifdef CV_HAS_conv_vp_invoke_u
void conv_vp_invoke(SP *ret, AWT *me, cv_i8 *ctx)
__CPROVER_requires(CONV_INVOKE_PRE_T(CONVBV, ret, me)) CONV_INVOKE_ASSIGNS(ret)      /* the clauses of CONV_INVOKE_POST_T(CONVBV, ctx), written out so that a failure names its clause */
__CPROVER_ensures(cv_exc_pending == 0 && gh_or_calls == 1 && gh_or_target == gh_outer && gh_pl_unarmed_calls == 0 && P_OWNER(CV_PROM((CONVBV *)gh_obj)) == 0)   /* outer future resolved exactly once */
__CPROVER_ensures(gh_out_state == ST_VALUE ==> (gh_conv_calls == 1 && gh_conv_this == (void *)ctx))
__CPROVER_ensures(gh_out_state != ST_VALUE ==> gh_conv_calls == 0)                                                                       /* C18-D3: a failed source is not converted */
__CPROVER_ensures((gh_out_state == ST_VALUE && gh_conv_throws) ==> (gh_or_kind == OR_EXC && gh_or_exc == gh_conv_exc))                   /* converter's exception */
__CPROVER_ensures(gh_out_state == ST_EXCEPTION ==> (gh_or_kind == OR_EXC && gh_or_exc == gh_out_exc))                                  /* C18-D3: the source's exception reaches the outer future */
__CPROVER_ensures(gh_out_state == ST_NOT_VALUE ==> (gh_or_kind == OR_EXC && gh_or_exc != 0 && *(void **)((cv_i8 *)gh_or_exc - CV_EXC_HDR) == (void *)TI_AWAIT_CANCELED))   /* C18-D3: broken source promise */
__CPROVER_ensures(gh_allocs == __CPROVER_old(gh_allocs) && gh_frees == __CPROVER_old(gh_frees))
__CPROVER_ensures(gh_out_state == ST_VALUE ==> gh_conv_prom_target == gh_outer)                                                          /* the converter is handed THE outer promise */
__CPROVER_ensures((gh_out_state == ST_VALUE && !gh_conv_throws && gh_conv_uses_promise) ==> (gh_or_kind == OR_VALUE && gh_or_val == gh_conv_ret && RET_IS_U(ret)))
__CPROVER_ensures((gh_out_state == ST_VALUE && !gh_conv_throws && !gh_conv_uses_promise) ==> gh_or_kind == OR_DROP)                      /* converter resolved nothing: not left pending for ever */
;
#endif
/* constructors: resume function = the specialisation's lambda, context = the converter object; nothing parked, no operation in flight */
#define CONV_CONSTRUCTED(o, fnv, ctxv) ((void *)CV_AWT(o)->_resume_fn == (void *)(fnv) && CV_AWT(o)->_handle_addr == (cv_i8 *)(ctxv) && CV_AWT(o)->_next == 0 && \
   P_OWNER(CV_PROM(o)) == 0 && *F_SLOT(CV_FUT(o)) == F_INS && F_STATE(CV_FUT(o)) == ST_NOT_VALUE)
#ifdef CV_HAS_conv_m_ctor
void conv_m_ctor(CONVM *this_, CTX *ctx)
__CPROVER_requires(cv_exc_pending == 0 && __CPROVER_is_fresh(this_, sizeof(*this_))) __CPROVER_assigns(__CPROVER_object_whole(this_))
__CPROVER_ensures(cv_exc_pending == 0 && CONV_CONSTRUCTED((CONVB *)this_, conv_m_invoke, ctx));
#endif
#ifdef CV_HAS_conv_f_ctor
void conv_f_ctor(CONVF *this_)
__CPROVER_requires(cv_exc_pending == 0 && __CPROVER_is_fresh(this_, sizeof(*this_))) __CPROVER_assigns(__CPROVER_object_whole(this_))
__CPROVER_ensures(cv_exc_pending == 0 && CONV_CONSTRUCTED((CONVB *)this_, conv_f_invoke, 0));
#endif
#ifdef CV_HAS_conv_p_ctor
void conv_p_ctor(CONVP *this_, CTX *ctx)
__CPROVER_requires(cv_exc_pending == 0 && __CPROVER_is_fresh(this_, sizeof(*this_))) __CPROVER_assigns(__CPROVER_object_whole(this_))
__CPROVER_ensures(cv_exc_pending == 0 && CONV_CONSTRUCTED((CONVB *)this_, conv_p_invoke, ctx));
#endif
#ifdef CV_HAS_conv_v_ctor
void conv_v_ctor(CONVV *this_, CTX0 *ctx)
__CPROVER_requires(cv_exc_pending == 0 && __CPROVER_is_fresh(this_, sizeof(*this_))) __CPROVER_assigns(__CPROVER_object_whole(this_))
__CPROVER_ensures(cv_exc_pending == 0 && CONV_CONSTRUCTED((CONVBV *)this_, conv_v_invoke, ctx));
#endif
#ifdef CV_HAS_conv_vp_ctor
void conv_vp_ctor(CONVVP *this_, CTX0 *ctx)
__CPROVER_requires(cv_exc_pending == 0 && __CPROVER_is_fresh(this_, sizeof(*this_))) __CPROVER_assigns(__CPROVER_object_whole(this_))
__CPROVER_ensures(cv_exc_pending == 0 && CONV_CONSTRUCTED((CONVBV *)this_, conv_vp_invoke, ctx));
#endif
/* registration: operator<<(fn) -> future<To>;  operator()(promise) -> Hlp;  Hlp::operator<<(fn).  The specialisation's resume function is
 * abstract here (recording stub rs_stub installed by the harness, dispatched through the CV_ICALL_EXTRA hook). */
int gh_rs_calls; void *gh_rs_me, *gh_rs_ctx, *gh_rs_prom_target; cv_i1 gh_rs_src_ready; cv_i32 gh_rs_src_state;
#define RS_GHOSTS gh_rs_calls, gh_rs_me, gh_rs_ctx, gh_rs_prom_target, gh_rs_src_ready, gh_rs_src_state
#if defined(CV_HAS_conv_shift) || defined(CV_HAS_hlp_shift)
void rs_stub(SP *ret, AWT *me, cv_i8 *ctx) { gh_rs_calls++; gh_rs_me = me; gh_rs_ctx = ctx; gh_rs_prom_target = P_OWNER(CV_PROM((CONVB *)me));
  gh_rs_src_ready = (*F_SLOT(CV_FUT((CONVB *)me)) == F_DIS) ? 1 : 0; gh_rs_src_state = F_STATE(CV_FUT((CONVB *)me)); SET_U(ret); }
#define CV_ICALL_EXTRA_v_ppp(p, a0, a1, a2) if ((p) == (void *)rs_stub) { rs_stub((SP *)(a0), (AWT *)(a1), (cv_i8 *)(a2)); return; }
#endif
#define CONV_REG_PRE(o) (cv_exc_pending == 0 && OUT_PRE && U_PRE && gh_obj == (void *)(o) && (void *)CV_AWT(o)->_resume_fn == (void *)rs_stub && CV_AWT(o)->_next == 0 && gh_rs_calls == 0 && gh_sn_calls == 0 && \
   (*F_SLOT(CV_FUT(o)) == F_INS || *F_SLOT(CV_FUT(o)) == F_DIS) && F_STATE(CV_FUT(o)) == ST_NOT_VALUE)
/* the conversion (resume function) runs exactly once: here if the source was already resolved, by the resolver otherwise - with the source
 * resolved and the parked promise armed for the outer future at that instant */
#define CONV_REG_POST(o, outer) \
__CPROVER_ensures(gh_fac_calls == 1 && gh_fac_ret == (void *)CV_FUT(o) && gh_sub_calls == 1 && gh_sub_fut == (void *)CV_FUT(o) && gh_sub_awt == (void *)CV_AWT(o)) \
__CPROVER_ensures((gh_sub_result == 0 || gh_env_resumes == 1) ==> (gh_rs_calls == 1 && gh_rs_me == (void *)CV_AWT(o) && gh_rs_ctx == (void *)CV_AWT(o)->_handle_addr && \
                   gh_rs_src_ready == 1 && gh_rs_src_state == gh_out_state && gh_rs_prom_target == (void *)(outer))) \
__CPROVER_ensures((gh_sub_result == 1 && gh_env_resumes == 0) ==> (gh_rs_calls == 0 && P_OWNER(CV_PROM(o)) == (void *)(outer) && *F_SLOT(CV_FUT(o)) != F_DIS)) \
__CPROVER_ensures(gh_allocs == __CPROVER_old(gh_allocs) && gh_frees == __CPROVER_old(gh_frees))
#ifdef CV_HAS_conv_shift
void conv_shift(FUTL *ret, CONVB *this_, FAC *fn)
__CPROVER_requires(CONV_REG_PRE(this_) && P_OWNER(CV_PROM(this_)) == 0 && __CPROVER_is_fresh(ret, sizeof(*ret)) && __CPROVER_is_fresh(fn, sizeof(*fn)))       /* no conversion in flight */
__CPROVER_assigns(__CPROVER_object_whole(ret), __CPROVER_object_whole(gh_obj), ENV_GHOSTS, RS_GHOSTS, gh_sn_calls, gh_ep_release, gh_ep_addref)
__CPROVER_ensures(cv_exc_pending == 0 && *F_SLOT(ret) == 0 && F_STATE(ret) == ST_NOT_VALUE)        /* the returned future is pending on the parked promise (resolved only by the conversion) */
CONV_REG_POST(this_, ret)
;
#endif
#ifdef CV_HAS_conv_call
CONVB *conv_call(CONVB *this_, PROML *prom)
__CPROVER_requires(cv_exc_pending == 0 && gh_obj == (void *)this_ && P_OWNER(CV_PROM(this_)) == 0 && __CPROVER_is_fresh(prom, sizeof(*prom)) && gh_outer == P_OWNER(prom) && gh_or_calls == 0)
__CPROVER_assigns(__CPROVER_object_whole(gh_obj), __CPROVER_object_whole(prom))
__CPROVER_ensures(cv_exc_pending == 0 && __CPROVER_return_value == this_ && P_OWNER(CV_PROM(this_)) == gh_outer && P_OWNER(prom) == 0)      /* the promise is parked (moved, not copied, not resolved) */
;
#endif
#ifdef CV_HAS_hlp_shift
void hlp_shift(HLP *this_, FAC *xfn)
__CPROVER_requires(__CPROVER_is_fresh(this_, sizeof(*this_)) && __CPROVER_is_fresh(xfn, sizeof(*xfn)) && gh_obj != 0 && __CPROVER_pointer_equals(this_->_owner, (CONVB *)gh_obj))
__CPROVER_requires(CONV_REG_PRE((CONVB *)gh_obj) && gh_outer == P_OWNER(CV_PROM((CONVB *)gh_obj)))
__CPROVER_assigns(__CPROVER_object_whole(gh_obj), ENV_GHOSTS, RS_GHOSTS, gh_sn_calls, gh_ep_release, gh_ep_addref)
__CPROVER_ensures(cv_exc_pending == 0)
CONV_REG_POST((CONVB *)gh_obj, gh_outer)
;
#endif
