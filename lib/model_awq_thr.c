/* model_awq_thr.c - assumed contracts on the std containers / promise operations of cocls::queue<thr_item> (C09) where thr_item is the client
 * payload of drivers/c09_thr_item.h whose constructor from int MAY THROW (thr_item::fail, a nondet input).  Same idiom as lib/model_awq_mo.c:
 * the model runs the REAL (translated) constructor thr_item::thr_item(int) wherever the real container / future would run it, so the exception
 * is raised by the real code at the place where the real library would see it:
 *
 *   TQ  std::queue<thr_item>::emplace<int>(int&&)     constructs the new element in place from the argument (real ctor).  If the constructor throws,
 *                                                     the exception propagates and the container is UNCHANGED (strong guarantee of deque::emplace_back).
 *   WQ  std::queue<cocls::promise<thr_item>>          as in model_awq_containers.c / model_awq_mo.c (promise = linear resource, identity = future pointer);
 *                                                     gh_thr.wq_emplaced counts insertions (push must never (re-)insert a waiter)
 *   promise<thr_item>::operator()(int&&)              mirror of the real promise::set_value after fix d66c8bf: claim(); the future's value is constructed from
 *                                                     the argument by the real ctor into gh_thr.deliv; if the constructor throws, the exception is CAUGHT and the
 *                                                     claimed future is resolved with that exception (log PR_EXC, exc = the exception object); result true.
 *   promise<thr_item>::operator()(thr_item&&)         (not used by cocls today; lets a variant that builds the item first fail a postcondition, not the build):
 *                                                     the value is copied into gh_thr.deliv, log PR_VALUE.
 * Needs lib/model_mutex.c, lib/model_awq_promise.c, lib/model_awq_containers.c before this file; type aliases THR, PRT, FUTT, TQ_T, WQT_T.  Trusted base. */
#ifdef CV_MODEL_THR
#define THR_CTOR _ZN8thr_itemC2Ei
struct cv_thr_state { THR deliv; unsigned n_deliv; unsigned n_ctor_caught; void *exc_obj; cv_i32 exc_tag; unsigned wq_emplaced; } gh_thr;
#define THR_STATE gh_thr
#define THR_CLEAN (gh_thr.n_deliv == 0 && gh_thr.n_ctor_caught == 0 && gh_thr.exc_obj == 0 && gh_thr.wq_emplaced == 0)

/* ---------------------------------------------------------------------------------------------- promise<thr_item> */
void _ZN5cocls7promiseI8thr_itemEC2EOS2_(PRT *this_, PRT *other) { PR_OWNER(this_) = PR_OWNER(other); PR_OWNER(other) = 0; }                 /* promise(promise&&) */
void _ZN5cocls7promiseI8thr_itemED2Ev(PRT *this_) { FUTT *f = PR_OWNER(this_); PR_OWNER(this_) = 0; if (f) cv_pr_log(f, PR_DROP, 0, 0); }      /* ~promise(): unresolved = broken promise */
/* promise<thr_item>::operator()(int&&) */
void _ZN5cocls7promiseI8thr_itemEclIJiEEENS_13suspend_pointIbEEDpOT_(SPB *ret, PRT *this_, cv_i32 *v) {
  FUTT *f = PR_OWNER(this_); PR_OWNER(this_) = 0;                       /* claim() */
  if (f) {
    THR_CTOR(&gh_thr.deliv, *v);                                        /* future::set: new(&_value) T(std::forward<Args>(args)...) */
    if (cv_exc_pending) {                                               /* catch (...) { m->set(std::current_exception()); } */
      cv_exc_pending = 0; gh_thr.n_ctor_caught++; gh_thr.exc_obj = cv_exc_obj; gh_thr.exc_tag = *(cv_i32 *)cv_exc_obj;
      cv_pr_log(f, PR_EXC, 0, cv_exc_obj); }
    else { gh_thr.n_deliv++; cv_pr_log(f, PR_VALUE, gh_thr.deliv.tag, 0); } }
  else gh_pr.lost++;                                                    /* empty promise: the value goes nowhere */
  cv_pr_result(ret, f != 0, (void *)f == gh_pr.fresh); }
/* promise<thr_item>::operator()(thr_item&&) */
void _ZN5cocls7promiseI8thr_itemEclIJS1_EEENS_13suspend_pointIbEEDpOT_(SPB *ret, PRT *this_, THR *v) {
  FUTT *f = PR_OWNER(this_); PR_OWNER(this_) = 0;
  if (f) { gh_thr.deliv = *v; gh_thr.n_deliv++; cv_pr_log(f, PR_VALUE, gh_thr.deliv.tag, 0); }
  else gh_pr.lost++;
  cv_pr_result(ret, f != 0, (void *)f == gh_pr.fresh); }

/* ---------------------------------------------------------------------------------------------- TQ  std::queue<thr_item> */
cv_i64 gh_TK;
struct cv_tq_state { cv_i64 head, tail; cv_i32 trk; } gh_tq;          /* trk: the tag of the item at position gh_TK */
THR tq_back_slot;
#define tq_head gh_tq.head
#define tq_tail gh_tq.tail
#define tq_trk  gh_tq.trk
#define TQ_LEN (tq_tail - tq_head)
#define TQ_INV (tq_head <= tq_tail)
#define TQ_STATE gh_tq, tq_back_slot
cv_i1 _ZNKSt5queueI8thr_itemSt5dequeIS0_SaIS0_EEE5emptyEv(TQ_T *d) { Q_TOUCH("std::queue<thr_item>::empty"); return tq_head == tq_tail ? 1 : 0; }
THR *_ZNSt5queueI8thr_itemSt5dequeIS0_SaIS0_EEE7emplaceIJiEEEDcDpOT_(TQ_T *d, cv_i32 *v) { Q_TOUCH("std::queue<thr_item>::emplace");
  THR_CTOR(&tq_back_slot, *v);                                          /* the new element is constructed in place from the argument */
  if (cv_exc_pending) return &tq_back_slot;                             /* the constructor threw: no effect on the container, the exception propagates */
  if (tq_tail == gh_TK) tq_trk = tq_back_slot.tag;
  QM_NOWRAP(tq_tail); tq_tail++; return &tq_back_slot; }
static THR *cv_tq_append(THR *v) { tq_back_slot = *v; if (tq_tail == gh_TK) tq_trk = tq_back_slot.tag; QM_NOWRAP(tq_tail); tq_tail++; return &tq_back_slot; }
THR *_ZNSt5queueI8thr_itemSt5dequeIS0_SaIS0_EEE7emplaceIJS0_EEEDcDpOT_(TQ_T *d, THR *v) { Q_TOUCH("std::queue<thr_item>::emplace"); return cv_tq_append(v); }
void _ZNSt5queueI8thr_itemSt5dequeIS0_SaIS0_EEE4pushEOS0_(TQ_T *d, THR *v) { Q_TOUCH("std::queue<thr_item>::push"); cv_tq_append(v); }

/* ---------------------------------------------------------------------------------------------- WQ  std::queue<promise<thr_item>> */
#ifndef WQ_LEN
cv_i64 gh_WK;
struct cv_wq_state { cv_i64 head, tail; void *trk; cv_i64 slot_pos; cv_i64 dropped_lo, dropped_hi; unsigned dtor_n, trk_drops; } gh_wq;
#define wq_head gh_wq.head
#define wq_tail gh_wq.tail
#define wq_trk  gh_wq.trk
#define wq_slot_pos   gh_wq.slot_pos
#define wq_dropped_lo gh_wq.dropped_lo
#define wq_dropped_hi gh_wq.dropped_hi
#define wq_dtor_n     gh_wq.dtor_n
#define wq_trk_drops  gh_wq.trk_drops
#define WQ_LEN (wq_tail - wq_head)
#define WQ_INV (wq_head <= wq_tail && ((gh_WK >= wq_head && gh_WK < wq_tail) ==> wq_trk != 0))
#define WQ_CLEAN (wq_slot_pos == QM_NOPOS && wq_dtor_n == 0 && wq_trk_drops == 0)
#define WQ_STATE gh_wq, wq_front_slot, wq_back_slot
static void *cv_wq_elem(cv_i64 pos) { void *any = nondet_ptr(); __CPROVER_assume(any != 0); return pos == gh_WK ? wq_trk : any; }
#endif
PRT wq_front_slot, wq_back_slot;
cv_i1 _ZNKSt5queueIN5cocls7promiseI8thr_itemEESt5dequeIS3_SaIS3_EEE5emptyEv(WQT_T *d) { Q_TOUCH("std::queue<promise>::empty"); return wq_head == wq_tail ? 1 : 0; }
PRT *_ZNSt5queueIN5cocls7promiseI8thr_itemEESt5dequeIS3_SaIS3_EEE5frontEv(WQT_T *d) { Q_TOUCH("std::queue<promise>::front");
  __CPROVER_assert(wq_head < wq_tail, "std::queue<promise>::front() on a non-empty queue");
  if (wq_slot_pos != wq_head) { PR_OWNER(&wq_front_slot) = cv_wq_elem(wq_head); wq_slot_pos = wq_head; }
  return &wq_front_slot; }
PRT *_ZNSt5queueIN5cocls7promiseI8thr_itemEESt5dequeIS3_SaIS3_EEE4backEv(WQT_T *d) { Q_TOUCH("std::queue<promise>::back");
  __CPROVER_assert(wq_head < wq_tail, "std::queue<promise>::back() on a non-empty queue");
  PR_OWNER(&wq_back_slot) = cv_wq_elem(wq_tail - 1); return &wq_back_slot; }
void _ZNSt5queueIN5cocls7promiseI8thr_itemEESt5dequeIS3_SaIS3_EEE3popEv(WQT_T *d) { Q_TOUCH("std::queue<promise>::pop");
  __CPROVER_assert(wq_head < wq_tail, "std::queue<promise>::pop() on a non-empty queue");
  void *own = (wq_slot_pos == wq_head) ? (void *)PR_OWNER(&wq_front_slot) : cv_wq_elem(wq_head);
  if (own) cv_pr_log(own, PR_DROP, 0, 0);                               /* the element is destroyed: still owning its future = broken promise */
  wq_slot_pos = QM_NOPOS; QM_NOWRAP(wq_head); wq_head++; }
PRT *_ZNSt5queueIN5cocls7promiseI8thr_itemEESt5dequeIS3_SaIS3_EEE7emplaceIJS3_EEEDcDpOT_(WQT_T *d, PRT *p) { Q_TOUCH("std::queue<promise>::emplace");
  void *own = PR_OWNER(p); PR_OWNER(p) = 0; gh_thr.wq_emplaced++;
  if (wq_tail == gh_WK) { __CPROVER_assert(own != 0, "only a non-empty promise is parked (checked at the arbitrary tracked position)"); wq_trk = own; }
  PR_OWNER(&wq_back_slot) = own; QM_NOWRAP(wq_tail); wq_tail++; return &wq_back_slot; }
#endif
