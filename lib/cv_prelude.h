/* cv_prelude.h - fixed vocabulary of the C text emitted by ir2c (DESIGN.md section 2.2).
 * Everything here is part of the trusted base and is listed in every evidence file. */
#ifndef CV_PRELUDE_H
#define CV_PRELUDE_H
#include <stddef.h>
#include <stdint.h>
#include <stdlib.h>
#include <string.h>
typedef unsigned char cv_i1;   /* LLVM i1: a byte holding 0 or 1 (a havocked _Bool can be neither, see DESIGN 3.1) */
typedef unsigned char cv_i8;
typedef unsigned short cv_i16;
typedef unsigned int cv_i32;
typedef unsigned long cv_i64;
typedef unsigned __int128 cv_i128;
typedef int cv_s32;
typedef long cv_s64;

/* exceptions in flight (DESIGN 2.2 item 3) */
extern int cv_exc_pending;     /* 1 while an exception propagates */
extern void *cv_exc_obj;       /* the exception object            */
extern void *cv_exc_tinfo;     /* its std::type_info              */
cv_i1 cv_exc_match(void *thrown, void *caught);   /* generated per unit from the typeinfo initialisers */
#define CV_PROPAGATE(rv) do { if (cv_exc_pending) return rv; } while (0)

/* undef / poison: a nondeterministic value */
#define CV_UNDEF(T) ({ T cv_undef_value; cv_undef_value; })   /* uninitialised local = nondeterministic in CBMC */
#define CV_ZERO(T) ((T){0})
#define CV_UNREACHABLE() do { __CPROVER_assert(0, "llvm unreachable executed"); __CPROVER_assume(0); } while (0)

/* atomic instructions: operands and *memory orders from the IR* (0 relaxed, 2 acquire, 3 release, 4 acq_rel, 5 seq_cst).
 * A unit may supply protocol-aware implementations (thread-modular units) or link lib/rt_atomic_seq.c (sequential). */
#define CV_DECL_ATOMIC(sfx, T) \
  T cv_atomic_load_##sfx(T *p, int ord); \
  void cv_atomic_store_##sfx(T *p, T v, int ord); \
  cv_i1 cv_cmpxchg_##sfx(T *p, T *expected, T desired, int weak, int so, int fo); \
  T cv_atomic_xchg_##sfx(T *p, T v, int ord); \
  T cv_atomic_add_##sfx(T *p, T v, int ord); \
  T cv_atomic_sub_##sfx(T *p, T v, int ord); \
  T cv_atomic_or_##sfx(T *p, T v, int ord); \
  T cv_atomic_and_##sfx(T *p, T v, int ord);
CV_DECL_ATOMIC(i8, cv_i8)
CV_DECL_ATOMIC(i32, cv_i32)
CV_DECL_ATOMIC(i64, cv_i64)
void cv_fence(int ord);
#define CV_ATOMIC_LOAD_i8(p, o)  cv_atomic_load_i8((cv_i8 *)(p), o)
#define CV_ATOMIC_LOAD_i32(p, o) cv_atomic_load_i32((cv_i32 *)(p), o)
#define CV_ATOMIC_LOAD_i64(p, o) cv_atomic_load_i64((cv_i64 *)(p), o)
#define CV_ATOMIC_LOAD_ptr(p, o) ((void *)cv_atomic_load_i64((cv_i64 *)(p), o))
#define CV_ATOMIC_STORE_i8(p, v, o)  cv_atomic_store_i8((cv_i8 *)(p), v, o)
#define CV_ATOMIC_STORE_i32(p, v, o) cv_atomic_store_i32((cv_i32 *)(p), v, o)
#define CV_ATOMIC_STORE_i64(p, v, o) cv_atomic_store_i64((cv_i64 *)(p), v, o)
#define CV_ATOMIC_STORE_ptr(p, v, o) cv_atomic_store_i64((cv_i64 *)(p), (cv_i64)(v), o)
#define CV_CMPXCHG_i8(p, e, d, w, so, fo)  cv_cmpxchg_i8((cv_i8 *)(p), e, d, w, so, fo)
#define CV_CMPXCHG_i32(p, e, d, w, so, fo) cv_cmpxchg_i32((cv_i32 *)(p), e, d, w, so, fo)
#define CV_CMPXCHG_i64(p, e, d, w, so, fo) cv_cmpxchg_i64((cv_i64 *)(p), e, d, w, so, fo)
#define CV_CMPXCHG_ptr(p, e, d, w, so, fo) cv_cmpxchg_i64((cv_i64 *)(p), (cv_i64 *)(e), (cv_i64)(d), w, so, fo)
#define CV_ATOMIC_RMW_XCHG_i8(p, v, o)  cv_atomic_xchg_i8((cv_i8 *)(p), v, o)
#define CV_ATOMIC_RMW_XCHG_i32(p, v, o) cv_atomic_xchg_i32((cv_i32 *)(p), v, o)
#define CV_ATOMIC_RMW_XCHG_i64(p, v, o) cv_atomic_xchg_i64((cv_i64 *)(p), v, o)
#define CV_ATOMIC_RMW_XCHG_ptr(p, v, o) ((void *)cv_atomic_xchg_i64((cv_i64 *)(p), (cv_i64)(v), o))
#define CV_ATOMIC_RMW_ADD_i8(p, v, o)  cv_atomic_add_i8((cv_i8 *)(p), v, o)
#define CV_ATOMIC_RMW_ADD_i32(p, v, o) cv_atomic_add_i32((cv_i32 *)(p), v, o)
#define CV_ATOMIC_RMW_ADD_i64(p, v, o) cv_atomic_add_i64((cv_i64 *)(p), v, o)
#define CV_ATOMIC_RMW_SUB_i8(p, v, o)  cv_atomic_sub_i8((cv_i8 *)(p), v, o)
#define CV_ATOMIC_RMW_SUB_i32(p, v, o) cv_atomic_sub_i32((cv_i32 *)(p), v, o)
#define CV_ATOMIC_RMW_SUB_i64(p, v, o) cv_atomic_sub_i64((cv_i64 *)(p), v, o)
#define CV_ATOMIC_RMW_OR_i8(p, v, o)   cv_atomic_or_i8((cv_i8 *)(p), v, o)
#define CV_ATOMIC_RMW_OR_i32(p, v, o)  cv_atomic_or_i32((cv_i32 *)(p), v, o)
#define CV_ATOMIC_RMW_AND_i8(p, v, o)  cv_atomic_and_i8((cv_i8 *)(p), v, o)
#define CV_ATOMIC_RMW_AND_i32(p, v, o) cv_atomic_and_i32((cv_i32 *)(p), v, o)
#define CV_ATOMIC_LOAD_p64(p, o) CV_P64_LOAD(p, o)
#define CV_ATOMIC_STORE_p64(p, v, o) CV_P64_STORE(p, v, o)
#define CV_CMPXCHG_p64(p, e, d, w, so, fo) CV_P64_CMPXCHG(p, e, d, w, so, fo)
#define CV_ATOMIC_RMW_XCHG_p64(p, v, o) CV_P64_XCHG(p, v, o)
#define CV_FENCE(o) cv_fence(o)

/* heap accounting ghosts (written only by the heap primitive) */
extern unsigned gh_allocs, gh_frees;

_Bool nondet_bool(void);
unsigned nondet_unsigned(void);
size_t nondet_size_t(void);
void *nondet_ptr(void);
#endif
