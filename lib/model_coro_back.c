/* model_coro_back.c - refinement of model_coro.c (same assumed contracts: the ready queue is an unbounded FIFO, resume() logs and lets the
 * environment act) for code that takes entries back from the TAIL of the ready queue (coro_queue::create_suspend_point).
 *
 * model_coro.c knows the content of the queue at ONE arbitrary position (gh_DK -> dq_trk); back() at any other position returns an
 * arbitrary non-null handle.  That is not enough for "every entry of a segment is taken exactly once": this file adds MULTISET accounting
 * of an arbitrary-but-fixed handle value gh_X over the segment [dq_mark, dq_tail) of the queue:
 *      dq_segX = number of positions p in [dq_mark, dq_tail), p != gh_DK, that hold gh_X         (the tracked position is accounted by dq_trk)
 * back()/pop_back() on a position of the segment pick the value consistently with that count (it may be gh_X only while dq_segX > 0 and
 * must be gh_X when every remaining untracked position holds gh_X) - exactly the behaviours of the concrete sequences with that multiset.
 * Values taken from the back are logged: count dq_nbpop, tracked index gh_BK -> dq_bpop_trk, occurrences of gh_X -> dq_bpopX.
 * operator[] (read without removal): a sequential forward scan of the segment sees the same multiset (dq_scan, dq_scanX).
 * push_back keeps dq_segX up to date.  Units pin dq_mark (== dq_tail at entry) and dq_segX (== 0) in their requires.
 * Requires CV_COUNT_X (gh_X) and the type aliases DQCH / CH.  Trusted base (with model_coro.c). */
#ifndef CV_COUNT_X
#define CV_COUNT_X 1
#endif
#define _ZNSt5dequeINSt7__n486116coroutine_handleIvEESaIS2_EE4backEv cv_dq_back_plain
#define _ZNSt5dequeINSt7__n486116coroutine_handleIvEESaIS2_EE8pop_backEv cv_dq_pop_back_plain
#define _ZNSt5dequeINSt7__n486116coroutine_handleIvEESaIS2_EE9push_backERKS2_ cv_dq_push_back_plain
#define _ZNSt5dequeINSt7__n486116coroutine_handleIvEESaIS2_EE9push_backEOS2_ cv_dq_push_back_rv_plain
#include "model_coro.c"
#undef _ZNSt5dequeINSt7__n486116coroutine_handleIvEESaIS2_EE4backEv
#undef _ZNSt5dequeINSt7__n486116coroutine_handleIvEESaIS2_EE8pop_backEv
#undef _ZNSt5dequeINSt7__n486116coroutine_handleIvEESaIS2_EE9push_backERKS2_
#undef _ZNSt5dequeINSt7__n486116coroutine_handleIvEESaIS2_EE9push_backEOS2_

cv_i64 dq_mark, dq_segX;                              /* segment start; occurrences of gh_X at untracked positions of the segment  */
cv_i64 dq_nbpop; cv_i64 gh_BK; cv_i8 *dq_bpop_trk;    /* entries taken from the back: count, tracked index, value                   */
cv_i64 dq_bpopX;                                      /* ... occurrences of gh_X among them                                          */
cv_i64 dq_back_pos; cv_i8 *dq_back_val;               /* position / value last observed through back() (valid while dq_back_pos == dq_tail - 1) */
#define DQ_IN_SEG(p) ((p) >= dq_mark && (p) < dq_tail)
#define DQ_SEG_UNTRACKED ((dq_tail - dq_mark) - (DQ_IN_SEG(gh_DK) ? 1 : 0))          /* untracked positions of the segment (dq_mark <= dq_tail) */
#define DQ_SEG_TOTALX (dq_segX + ((DQ_IN_SEG(gh_DK) && dq_trk == gh_X) ? 1 : 0))    /* occurrences of gh_X in the whole segment                */
#define DQ_SEG_WF (dq_mark <= dq_tail ==> dq_segX <= DQ_SEG_UNTRACKED)
cv_i64 dq_scan, dq_scanX;                             /* forward scan of the segment through operator[]: next position, occurrences of gh_X seen at untracked positions */
CH dq_index_slot;
#define DQ_UNTRACKED_FROM(p) ((dq_tail - (p)) - ((gh_DK >= (p) && gh_DK < dq_tail) ? 1 : 0))   /* untracked positions in [p, dq_tail) */
#define MODEL_BACK_ASSIGNS dq_mark, dq_segX, dq_nbpop, dq_bpop_trk, dq_bpopX, dq_back_pos, dq_back_val, dq_scan, dq_scanX, dq_index_slot

/* the value stored at the last position (dq_tail - 1), chosen consistently with the model state */
static cv_i8 *cv_dq_value_at_back(void) {
  cv_i64 p = dq_tail - 1;
  if (dq_back_pos == p && dq_back_val != 0) return dq_back_val;             /* already observed: a position holds ONE value */
  if (p == gh_DK) return dq_trk;
  cv_i8 *v = (cv_i8 *)nondet_ptr(); __CPROVER_assume(v != 0);
  if (p >= dq_mark) {
    __CPROVER_assume(v == gh_X ==> dq_segX > 0);
    __CPROVER_assume(v != gh_X ==> dq_segX < DQ_SEG_UNTRACKED);
  }
  return v;
}
CH *_ZNSt5dequeINSt7__n486116coroutine_handleIvEESaIS2_EE4backEv(DQCH *d) {
  __CPROVER_assert(dq_head < dq_tail, "std::deque::back() on a non-empty deque");
  cv_i8 *v = cv_dq_value_at_back();
  dq_back_pos = dq_tail - 1; dq_back_val = v; dq_back_slot._M_fr_ptr = v; return &dq_back_slot; }
void _ZNSt5dequeINSt7__n486116coroutine_handleIvEESaIS2_EE8pop_backEv(DQCH *d) {
  __CPROVER_assert(dq_head < dq_tail, "std::deque::pop_back() on a non-empty deque");
  cv_i8 *v = cv_dq_value_at_back();
  cv_i64 p = dq_tail - 1;
  if (p >= dq_mark && p != gh_DK && v == gh_X) dq_segX--;
  if (dq_nbpop == gh_BK) dq_bpop_trk = v;
  if (v == gh_X) { GH_NOWRAP(dq_bpopX); dq_bpopX++; }
  GH_NOWRAP(dq_nbpop); dq_nbpop++;
  dq_back_pos = 0; dq_back_val = 0;
  dq_tail--; }
void _ZNSt5dequeINSt7__n486116coroutine_handleIvEESaIS2_EE9push_backERKS2_(DQCH *d, CH *h) {
  if (dq_tail >= dq_mark && dq_tail != gh_DK && h->_M_fr_ptr == gh_X) { GH_NOWRAP(dq_segX); dq_segX++; }
  dq_back_pos = 0; dq_back_val = 0;
  cv_dq_push_back_plain(d, h); }
void _ZNSt5dequeINSt7__n486116coroutine_handleIvEESaIS2_EE9push_backEOS2_(DQCH *d, CH *h) {
  _ZNSt5dequeINSt7__n486116coroutine_handleIvEESaIS2_EE9push_backERKS2_(d, h); }

/* operator[](n): read without removal.  A SEQUENTIAL forward scan of the segment (position dq_scan, then dq_scan + 1, ...) sees the segment's
 * multiset: the value may be gh_X only while occurrences remain unseen and must be gh_X when every unseen untracked position holds it.
 * Any other read returns an arbitrary non-null handle (except at the tracked position). */
CH *_ZNSt5dequeINSt7__n486116coroutine_handleIvEESaIS2_EEixEm(DQCH *d, cv_i64 n) {
  __CPROVER_assert(n < dq_tail - dq_head, "std::deque::operator[]: index within size()");
  cv_i64 p = dq_head + n; cv_i8 *v;
  if (p == gh_DK) v = dq_trk;
  else {
    v = (cv_i8 *)nondet_ptr(); __CPROVER_assume(v != 0);
    if (p >= dq_mark && p == dq_scan && dq_scanX <= dq_segX) {
      __CPROVER_assume(v == gh_X ==> dq_segX - dq_scanX > 0);
      __CPROVER_assume(v != gh_X ==> dq_segX - dq_scanX < DQ_UNTRACKED_FROM(p));
      if (v == gh_X) dq_scanX++;
    }
  }
  if (p == dq_scan) { GH_NOWRAP(dq_scan); dq_scan++; }
  dq_index_slot._M_fr_ptr = v; return &dq_index_slot; }

/* environment: ordinary code running on the caller's stack (the functor handed to create_suspend_point) makes coroutines ready - it
 * resolves promises, releases mutexes ... and discards the suspend points, i.e. (coroutine mode, contracts of coro_queue::resume /
 * suspend_point::suspend_now) it APPENDS an arbitrary number of handles to the ready queue and starts none.  Returns the number appended;
 * *cntX = occurrences of gh_X among them. */
#ifndef CV_ENV_MAX_READY
#define CV_ENV_MAX_READY (1ul << 20)
#endif
cv_i64 cv_env_makes_ready(cv_i64 *cntX) {
  cv_i64 na = nondet_size_t(); __CPROVER_assume(na <= CV_ENV_MAX_READY);
  cv_i64 t = dq_tail; int inside = (gh_DK >= t && gh_DK - t < na);
  if (inside) { dq_trk = (cv_i8 *)nondet_ptr(); __CPROVER_assume(dq_trk != 0); }
  cv_i64 c = nondet_size_t(); __CPROVER_assume(c <= na - (inside ? 1 : 0));
  GH_NOWRAP(dq_tail); dq_tail += na;
  if (t >= dq_mark) { GH_NOWRAP(dq_segX); dq_segX += c; }
  dq_back_pos = 0; dq_back_val = 0; dq_scan = t; dq_scanX = 0;
  *cntX = c + ((inside && dq_trk == gh_X) ? 1 : 0);
  return na;
}
