/* rt_core.c - primitives every unit links: exceptions (Itanium ABI protocol over a pending flag), heap, llvm intrinsics.
 * Trusted base. */
int cv_exc_pending; void *cv_exc_obj; void *cv_exc_tinfo;
unsigned gh_allocs, gh_frees;

#ifndef CV_NO_HEAP_PRIMS
cv_i8 *_Znwm(cv_i64 n) { gh_allocs++; cv_i8 *p = malloc(n); __CPROVER_assume(p != 0); return p; }
cv_i8 *_Znam(cv_i64 n) { gh_allocs++; cv_i8 *p = malloc(n); __CPROVER_assume(p != 0); return p; }
void _ZdlPv(cv_i8 *p) { if (p) gh_frees++; free(p); }
void _ZdaPv(cv_i8 *p) { if (p) gh_frees++; free(p); }
void _ZdlPvm(cv_i8 *p, cv_i64 n) { if (p) gh_frees++; free(p); }
void _ZdaPvm(cv_i8 *p, cv_i64 n) { if (p) gh_frees++; free(p); }
#endif

/* exception objects carry their typeinfo in a 16-byte header; caught exceptions form a small stack */
#define CV_EXC_HDR 16
cv_i8 *__cxa_allocate_exception(cv_i64 n) { cv_i8 *p = malloc(n + CV_EXC_HDR); __CPROVER_assume(p != 0); return p + CV_EXC_HDR; }
void __cxa_free_exception(cv_i8 *o) { free(o - CV_EXC_HDR); }
void __cxa_throw(cv_i8 *o, cv_i8 *ti, cv_i8 *d) { *(void **)(o - CV_EXC_HDR) = ti; cv_exc_pending = 1; cv_exc_obj = o; cv_exc_tinfo = ti; }
#define CV_CAUGHT_MAX 4
static void *cv_caught_obj[CV_CAUGHT_MAX]; static void *cv_caught_ti[CV_CAUGHT_MAX]; static int cv_caught_n;
cv_i8 *__cxa_begin_catch(cv_i8 *o) {
  __CPROVER_assert(cv_caught_n < CV_CAUGHT_MAX, "model bound: nesting of catch handlers");
  cv_caught_obj[cv_caught_n] = o; cv_caught_ti[cv_caught_n] = cv_exc_tinfo; cv_caught_n++; cv_exc_pending = 0; return o; }
void __cxa_end_catch(void) { __CPROVER_assert(cv_caught_n > 0, "end_catch without begin_catch"); cv_caught_n--; }
void __cxa_rethrow(void) { __CPROVER_assert(cv_caught_n > 0, "rethrow outside a handler"); cv_exc_pending = 1; cv_exc_obj = cv_caught_obj[cv_caught_n - 1]; cv_exc_tinfo = cv_caught_ti[cv_caught_n - 1]; }
void __clang_call_terminate(cv_i8 *p) { __CPROVER_assert(0, "std::terminate reached"); __CPROVER_assume(0); }
void _ZSt9terminatev(void) { __CPROVER_assert(0, "std::terminate reached"); __CPROVER_assume(0); }
void __cxa_pure_virtual(void) { __CPROVER_assert(0, "pure virtual call"); __CPROVER_assume(0); }
void __cxa_bad_cast(void) { __CPROVER_assert(0, "bad_cast"); __CPROVER_assume(0); }
void __cxa_throw_bad_array_new_length(void) { __CPROVER_assert(0, "bad_array_new_length"); __CPROVER_assume(0); }
cv_i32 __cxa_thread_atexit(void (*f)(cv_i8 *), cv_i8 *o, cv_i8 *d) { return 0; }
cv_i32 __cxa_atexit(void (*f)(cv_i8 *), cv_i8 *o, cv_i8 *d) { return 0; }
cv_i32 __cxa_guard_acquire(cv_i64 *g) { if (*(cv_i8 *)g) return 0; return 1; }
void __cxa_guard_release(cv_i64 *g) { *(cv_i8 *)g = 1; }
void __cxa_guard_abort(cv_i64 *g) {}

/* std::exception_ptr: one pointer to the exception object (libstdc++ layout); reference counts not modelled (objects leak) */
struct cv_exception_ptr { void *obj; };
void _ZSt17current_exceptionv(struct cv_exception_ptr *ret) { ret->obj = cv_caught_n > 0 ? cv_caught_obj[cv_caught_n - 1] : 0; }
void _ZSt17rethrow_exceptionNSt15__exception_ptr13exception_ptrE(struct cv_exception_ptr *ep) {
  __CPROVER_assert(ep->obj != 0, "rethrow_exception(null)");
  cv_exc_pending = 1; cv_exc_obj = ep->obj; cv_exc_tinfo = *(void **)((cv_i8 *)ep->obj - CV_EXC_HDR); }
unsigned gh_ep_addref, gh_ep_release;   /* reference traffic on exception objects (counted, objects themselves never freed) */
void _ZNSt15__exception_ptr13exception_ptr9_M_addrefEv(struct cv_exception_ptr *ep) { gh_ep_addref++; }
void _ZNSt15__exception_ptr13exception_ptr10_M_releaseEv(struct cv_exception_ptr *ep) { gh_ep_release++; }

/* std::exception base-class destructor (libstdc++, external): nothing to do for opaque exception objects */
void _ZNSt9exceptionD2Ev(void *e) {}
void cv_llvm_memset_p0i8_i64(cv_i8 *d, cv_i8 v, cv_i64 n, cv_i1 vol) { memset(d, v, n); }
void cv_llvm_memcpy_p0i8_p0i8_i64(cv_i8 *d, cv_i8 *s, cv_i64 n, cv_i1 vol) { memcpy(d, s, n); }
void cv_llvm_memmove_p0i8_p0i8_i64(cv_i8 *d, cv_i8 *s, cv_i64 n, cv_i1 vol) { memmove(d, s, n); }
void cv_llvm_trap(void) { __CPROVER_assert(0, "llvm.trap"); __CPROVER_assume(0); }
