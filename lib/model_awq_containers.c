/* model_awq_containers.c - assumed contracts on the std containers inside cocls::queue / cocls::limited_queue (C09, C10):
 *
 *   IQ  std::queue<int>                                   the item sequence                 (CV_MODEL_IQ,  type alias IQ_T)
 *   WQ  std::queue<cocls::promise<T>>, T = int | void     the waiting-consumer sequence     (CV_MODEL_WQ_INT: WQI_T, PRI / CV_MODEL_WQ_VOID: WQV_T, PRV)
 *   BQ  std::queue<std::pair<int, cocls::promise<void>>>  the blocked-producer sequence     (CV_MODEL_BQ, type aliases BQ_T, PAIR_T)
 *
 * Each is an unbounded FIFO in the idiom of lib/model_coro.c: ABSOLUTE positions head <= tail (length = tail - head; both only
 * grow, so a position names one element for ever) and the content tracked at ONE arbitrary-but-fixed position (gh_IK / gh_WK /
 * gh_BK - ghost index idiom: what is proved for an arbitrary position holds for every position).  A queue object owns exactly one
 * container of each kind, so the model state is global.
 * Preconditions of the real containers (front()/pop() on a non-empty queue) are obligations on the cocls code.
 * Lock discipline: every access is an obligation "the queue mutex gh_q_mx is held" while gh_q_lock_required is set (constructor
 * and destructor units clear it).
 * Element semantics that matter for promises (a promise is a linear resource, see lib/model_awq_promise.c):
 *   emplace/push(T&&) MOVES the promise in (source emptied);  front() materialises the element ONCE per position in a slot object
 *   (moving out of the reference empties that element);  pop() DESTROYS the element: if it still owns its future this is a broken
 *   promise (logged as PR_DROP);  ~queue() destroys every remaining element (recorded as the dropped range + the tracked one).
 * Needs lib/model_mutex.c and lib/model_awq_promise.c before this file.  Trusted base. */
void *gh_q_mx; int gh_q_lock_required;
#define Q_TOUCH(what) __CPROVER_assert(!gh_q_lock_required || LOCKED(gh_q_mx), what ": guarded container accessed while the queue mutex is not held")
#define QM_NOWRAP(x) __CPROVER_assume((x) < (1ul << 62))           /* ghost positions are mathematical: they never wrap */
#define QM_NOPOS ((cv_i64)-1)

#ifdef CV_MODEL_IQ
cv_i64 gh_IK;
struct cv_iq_state { cv_i64 head, tail; cv_i32 trk; } gh_iq;      /* one object = one assigns target (DFCC cost) */
cv_i32 iq_front_slot, iq_back_slot;                               /* slot objects front() / emplace() return references to */
#define iq_head gh_iq.head
#define iq_tail gh_iq.tail
#define iq_trk  gh_iq.trk
#define IQ_LEN (iq_tail - iq_head)
#define IQ_INV (iq_head <= iq_tail)
#define IQ_STATE gh_iq, iq_front_slot, iq_back_slot
void _ZNSt5queueIiSt5dequeIiSaIiEEEC2IS2_vEEv(IQ_T *d) { Q_TOUCH("std::queue<int>()"); iq_head = iq_tail = 0; }
void _ZNSt5queueIiSt5dequeIiSaIiEEED2Ev(IQ_T *d) { Q_TOUCH("std::queue<int>::~queue"); }
cv_i1 _ZNKSt5queueIiSt5dequeIiSaIiEEE5emptyEv(IQ_T *d) { Q_TOUCH("std::queue<int>::empty"); return iq_head == iq_tail ? 1 : 0; }
cv_i64 _ZNKSt5queueIiSt5dequeIiSaIiEEE4sizeEv(IQ_T *d) { Q_TOUCH("std::queue<int>::size"); return iq_tail - iq_head; }
cv_i32 *_ZNSt5queueIiSt5dequeIiSaIiEEE5frontEv(IQ_T *d) {
  Q_TOUCH("std::queue<int>::front");
  __CPROVER_assert(iq_head < iq_tail, "std::queue<int>::front() on a non-empty queue");
  cv_i32 any = nondet_unsigned(); iq_front_slot = (iq_head == gh_IK) ? iq_trk : any; return &iq_front_slot; }
void _ZNSt5queueIiSt5dequeIiSaIiEEE3popEv(IQ_T *d) {
  Q_TOUCH("std::queue<int>::pop");
  __CPROVER_assert(iq_head < iq_tail, "std::queue<int>::pop() on a non-empty queue");
  QM_NOWRAP(iq_head); iq_head++; }
static cv_i32 *cv_iq_append(cv_i32 *v) { if (iq_tail == gh_IK) iq_trk = *v; iq_back_slot = *v; QM_NOWRAP(iq_tail); iq_tail++; return &iq_back_slot; }
cv_i32 *_ZNSt5queueIiSt5dequeIiSaIiEEE7emplaceIJiEEEDcDpOT_(IQ_T *d, cv_i32 *v) { Q_TOUCH("std::queue<int>::emplace"); return cv_iq_append(v); }
void _ZNSt5queueIiSt5dequeIiSaIiEEE4pushEOi(IQ_T *d, cv_i32 *v) { Q_TOUCH("std::queue<int>::push"); cv_iq_append(v); }
#endif

#if defined(CV_MODEL_WQ_INT) || defined(CV_MODEL_WQ_VOID)
cv_i64 gh_WK;
struct cv_wq_state { cv_i64 head, tail; void *trk;       /* trk: the identity (future pointer) of the promise parked at position gh_WK */
  cv_i64 slot_pos;                                                                     /* the position the front() slot object stands for */
  cv_i64 dropped_lo, dropped_hi; unsigned dtor_n, trk_drops; } gh_wq;                  /* ~queue(): range of positions destroyed (dropped) */
#define wq_head gh_wq.head
#define wq_tail gh_wq.tail
#define wq_trk  gh_wq.trk
#define wq_slot_pos   gh_wq.slot_pos
#define wq_dropped_lo gh_wq.dropped_lo
#define wq_dropped_hi gh_wq.dropped_hi
#define wq_dtor_n     gh_wq.dtor_n
#define wq_trk_drops  gh_wq.trk_drops
#define WQ_LEN (wq_tail - wq_head)
#define WQ_INV (wq_head <= wq_tail && ((gh_WK >= wq_head && gh_WK < wq_tail) ==> wq_trk != 0))      /* only non-empty promises are parked */
#define WQ_CLEAN (wq_slot_pos == QM_NOPOS && wq_dtor_n == 0 && wq_trk_drops == 0)
#define WQ_STATE gh_wq, wq_front_slot, wq_back_slot
static void *cv_wq_elem(cv_i64 pos) { void *any = nondet_ptr(); __CPROVER_assume(any != 0); return pos == gh_WK ? wq_trk : any; }
#define CV_DEF_WQ(WQ, PR, CTOR, DTOR, EMPTY, FRONT, BACK, POP, EMPLACE) \
  PR wq_front_slot, wq_back_slot;      /* slot objects of the real promise type (front() / emplace() return references to them) */ \
  void CTOR(WQ *d) { Q_TOUCH("std::queue<promise>()"); wq_head = wq_tail = 0; wq_slot_pos = QM_NOPOS; }                              \
  void DTOR(WQ *d) { Q_TOUCH("std::queue<promise>::~queue");                                                                         \
    wq_dropped_lo = wq_head; wq_dropped_hi = wq_tail; wq_dtor_n++; if (gh_WK >= wq_head && gh_WK < wq_tail) wq_trk_drops++; }         \
  cv_i1 EMPTY(WQ *d) { Q_TOUCH("std::queue<promise>::empty"); return wq_head == wq_tail ? 1 : 0; }                                   \
  PR *FRONT(WQ *d) { Q_TOUCH("std::queue<promise>::front");                                                                          \
    __CPROVER_assert(wq_head < wq_tail, "std::queue<promise>::front() on a non-empty queue");                                        \
    if (wq_slot_pos != wq_head) { PR_OWNER(&wq_front_slot) = cv_wq_elem(wq_head); wq_slot_pos = wq_head; }                                 \
    return &wq_front_slot; }                                                                                                   \
  PR *BACK(WQ *d) { Q_TOUCH("std::queue<promise>::back");        /* (not used by cocls today; lets a LIFO variant fail a postcondition, not the build) */ \
    __CPROVER_assert(wq_head < wq_tail, "std::queue<promise>::back() on a non-empty queue");                                         \
    PR_OWNER(&wq_back_slot) = cv_wq_elem(wq_tail - 1); return &wq_back_slot; }                                                        \
  void POP(WQ *d) { Q_TOUCH("std::queue<promise>::pop");                                                                             \
    __CPROVER_assert(wq_head < wq_tail, "std::queue<promise>::pop() on a non-empty queue");                                          \
    void *own = (wq_slot_pos == wq_head) ? (void *)PR_OWNER(&wq_front_slot) : cv_wq_elem(wq_head);                                                 \
    if (own) cv_pr_log(own, PR_DROP, 0, 0);        /* the element is destroyed: still owning its future = broken promise */          \
    wq_slot_pos = QM_NOPOS; QM_NOWRAP(wq_head); wq_head++; }                                                                          \
  PR *EMPLACE(WQ *d, PR *p) { Q_TOUCH("std::queue<promise>::emplace");                                                               \
    void *own = PR_OWNER(p); PR_OWNER(p) = 0;                                                                                         \
    if (wq_tail == gh_WK) { __CPROVER_assert(own != 0, "only a non-empty promise is parked (checked at the arbitrary tracked position)"); wq_trk = own; } \
    PR_OWNER(&wq_back_slot) = own; QM_NOWRAP(wq_tail); wq_tail++; return &wq_back_slot; }
#ifdef CV_MODEL_WQ_INT
CV_DEF_WQ(WQI_T, PRI, _ZNSt5queueIN5cocls7promiseIiEESt5dequeIS2_SaIS2_EEEC2IS5_vEEv, _ZNSt5queueIN5cocls7promiseIiEESt5dequeIS2_SaIS2_EEED2Ev,
          _ZNKSt5queueIN5cocls7promiseIiEESt5dequeIS2_SaIS2_EEE5emptyEv, _ZNSt5queueIN5cocls7promiseIiEESt5dequeIS2_SaIS2_EEE5frontEv, _ZNSt5queueIN5cocls7promiseIiEESt5dequeIS2_SaIS2_EEE4backEv,
          _ZNSt5queueIN5cocls7promiseIiEESt5dequeIS2_SaIS2_EEE3popEv, _ZNSt5queueIN5cocls7promiseIiEESt5dequeIS2_SaIS2_EEE7emplaceIJS2_EEEDcDpOT_)
#endif
#ifdef CV_MODEL_WQ_VOID
CV_DEF_WQ(WQV_T, PRV, _ZNSt5queueIN5cocls7promiseIvEESt5dequeIS2_SaIS2_EEEC2IS5_vEEv, _ZNSt5queueIN5cocls7promiseIvEESt5dequeIS2_SaIS2_EEED2Ev,
          _ZNKSt5queueIN5cocls7promiseIvEESt5dequeIS2_SaIS2_EEE5emptyEv, _ZNSt5queueIN5cocls7promiseIvEESt5dequeIS2_SaIS2_EEE5frontEv, _ZNSt5queueIN5cocls7promiseIvEESt5dequeIS2_SaIS2_EEE4backEv,
          _ZNSt5queueIN5cocls7promiseIvEESt5dequeIS2_SaIS2_EEE3popEv, _ZNSt5queueIN5cocls7promiseIvEESt5dequeIS2_SaIS2_EEE7emplaceIJS2_EEEDcDpOT_)
#endif
#endif

#ifdef CV_MODEL_BQ
cv_i64 gh_BK;
struct cv_bq_state { cv_i64 head, tail; cv_i32 trk_item; void *trk_id;   /* trk_*: item and promise identity of the producer blocked at position gh_BK */
  cv_i64 slot_pos;
  cv_i64 dropped_lo, dropped_hi; unsigned dtor_n, trk_drops; } gh_bq;
PAIR_T bq_front_slot;                                       /* slot object front() returns a reference to */
#define bq_head gh_bq.head
#define bq_tail gh_bq.tail
#define bq_trk_item gh_bq.trk_item
#define bq_trk_id   gh_bq.trk_id
#define bq_slot_pos   gh_bq.slot_pos
#define bq_dropped_lo gh_bq.dropped_lo
#define bq_dropped_hi gh_bq.dropped_hi
#define bq_dtor_n     gh_bq.dtor_n
#define bq_trk_drops  gh_bq.trk_drops
#define BQ_LEN (bq_tail - bq_head)
#define BQ_INV (bq_head <= bq_tail && ((gh_BK >= bq_head && gh_BK < bq_tail) ==> bq_trk_id != 0))
#define BQ_CLEAN (bq_slot_pos == QM_NOPOS && bq_dtor_n == 0 && bq_trk_drops == 0)
#define BQ_STATE gh_bq, bq_front_slot
void _ZNSt5queueISt4pairIiN5cocls7promiseIvEEESt5dequeIS4_SaIS4_EEEC2IS7_vEEv(BQ_T *d) { Q_TOUCH("std::queue<pair<item,promise>>()"); bq_head = bq_tail = 0; bq_slot_pos = QM_NOPOS; }
void _ZNSt5queueISt4pairIiN5cocls7promiseIvEEESt5dequeIS4_SaIS4_EEED2Ev(BQ_T *d) { Q_TOUCH("std::queue<pair<item,promise>>::~queue");
  bq_dropped_lo = bq_head; bq_dropped_hi = bq_tail; bq_dtor_n++; if (gh_BK >= bq_head && gh_BK < bq_tail) bq_trk_drops++; }
cv_i1 _ZNKSt5queueISt4pairIiN5cocls7promiseIvEEESt5dequeIS4_SaIS4_EEE5emptyEv(BQ_T *d) { Q_TOUCH("std::queue<pair<item,promise>>::empty"); return bq_head == bq_tail ? 1 : 0; }
PAIR_T *_ZNSt5queueISt4pairIiN5cocls7promiseIvEEESt5dequeIS4_SaIS4_EEE5frontEv(BQ_T *d) { Q_TOUCH("std::queue<pair<item,promise>>::front");
  __CPROVER_assert(bq_head < bq_tail, "std::queue<pair<item,promise>>::front() on a non-empty queue");
  if (bq_slot_pos != bq_head) {
    void *any = nondet_ptr(); __CPROVER_assume(any != 0); cv_i32 anyv = nondet_unsigned();
    bq_front_slot.first = (bq_head == gh_BK) ? bq_trk_item : anyv; PR_OWNER(&bq_front_slot.second) = (bq_head == gh_BK) ? bq_trk_id : any; bq_slot_pos = bq_head; }
  return &bq_front_slot; }
void _ZNSt5queueISt4pairIiN5cocls7promiseIvEEESt5dequeIS4_SaIS4_EEE3popEv(BQ_T *d) { Q_TOUCH("std::queue<pair<item,promise>>::pop");
  __CPROVER_assert(bq_head < bq_tail, "std::queue<pair<item,promise>>::pop() on a non-empty queue");
  void *any = nondet_ptr(); __CPROVER_assume(any != 0);
  void *own = (bq_slot_pos == bq_head) ? (void *)PR_OWNER(&bq_front_slot.second) : ((bq_head == gh_BK) ? bq_trk_id : any);
  if (own) cv_pr_log(own, PR_DROP, 0, 0);          /* the element is destroyed: still owning its future = broken promise */
  bq_slot_pos = QM_NOPOS; QM_NOWRAP(bq_head); bq_head++; }
void _ZNSt5queueISt4pairIiN5cocls7promiseIvEEESt5dequeIS4_SaIS4_EEE4pushEOS4_(BQ_T *d, PAIR_T *p) { Q_TOUCH("std::queue<pair<item,promise>>::push");
  void *own = PR_OWNER(&p->second); PR_OWNER(&p->second) = 0;
  if (bq_tail == gh_BK) { __CPROVER_assert(own != 0, "only a non-empty promise is parked (checked at the arbitrary tracked position)"); bq_trk_item = p->first; bq_trk_id = own; }
  QM_NOWRAP(bq_tail); bq_tail++; }
#endif
