/* model_heap_frames.c - operator new / delete for BOUNDED DRIVES of really lowered coroutines (C13, C14; DESIGN 3.8).
 * Same contract and the same accounting as the heap primitives of lib/rt_core.c (fresh block of at least n bytes, gh_allocs /
 * gh_frees, CBMC's double-free / use-after-free checks) - the unit must define CV_NO_HEAP_PRIMS so that rt_core.c leaves them out.
 * The one difference: a coroutine FRAME is allocated as an object of its frame struct type instead of a byte array.  CBMC keeps
 * struct-typed heap objects field-sensitive, so the resume/destroy pointers and the suspend index stored in a frame stay concrete
 * during symbolic execution and the devirtualised coroutine_handle::resume() dispatches to exactly one lowered function (with
 * byte-array frames every dispatch forks into all candidates and the drive does not terminate - measured).  It also makes the block
 * as large as the TRANSLATED struct (ir2c widens LLVM's i2/i3 suspend index to 64 bits, so that struct can be larger than
 * llvm.coro.size; all accesses go through field names, the promise offset in front of the index is unchanged).
 * Which frame type the next allocation is for is announced by the driver (global g_frame_kind, set immediately before the call of a
 * coroutine function, consumed here); the unit lists its frame types in the X-macro CV_FRAME_KINDS:  X(kind, struct_tag) ...
 * An unannounced allocation is an ordinary byte block.  Requires the global alias FRAME_KIND (-> g_frame_kind).  Trusted base. */
#ifndef CV_NO_HEAP_PRIMS
#error "model_heap_frames.c replaces the heap primitives of rt_core.c: define CV_NO_HEAP_PRIMS in the unit"
#endif
unsigned gh_frames_typed;
static cv_i8 *cv_alloc_block(cv_i64 n) {
  cv_i8 *p = 0; int kind = *FRAME_KIND;
#define X(K, T) if (kind == (K)) { struct T *f = malloc(sizeof(struct T)); \
    __CPROVER_assert(n <= sizeof(struct T), "heap model: announced frame type is at least as large as the requested block"); p = (cv_i8 *)f; gh_frames_typed++; *FRAME_KIND = 0; }
  CV_FRAME_KINDS
#undef X
  if (p == 0) { __CPROVER_assert(kind == 0, "heap model: announced frame kind is listed in CV_FRAME_KINDS"); p = malloc(n); }
  __CPROVER_assume(p != 0); return p; }
cv_i8 *_Znwm(cv_i64 n) { gh_allocs++; return cv_alloc_block(n); }
cv_i8 *_Znam(cv_i64 n) { gh_allocs++; cv_i8 *p = malloc(n); __CPROVER_assume(p != 0); return p; }
void _ZdlPv(cv_i8 *p) { if (p) gh_frees++; free(p); }
void _ZdaPv(cv_i8 *p) { if (p) gh_frees++; free(p); }
void _ZdlPvm(cv_i8 *p, cv_i64 n) { if (p) gh_frees++; free(p); }
void _ZdaPvm(cv_i8 *p, cv_i64 n) { if (p) gh_frees++; free(p); }
