/* model_signal.c - primitives of the C15 units (cocls::signal<T>, src/cocls/signal.h).  Trusted base.  Two parts:
 *
 * (A) PROTOCOL S - atomic instruction primitives for the awaiter chain of a signal's shared state (state::_chain):
 *     a plain LIFO collector WITHOUT ready marker.  Cell values: NULL (empty) or the most recently pushed node.
 *       listener step : push its OWN node by ONE successful compare-exchange with release order (node->_next = the value replaced);
 *                       pushing happens only while the pusher holds a strong reference to the state (lock() succeeded)
 *       emitting step : detach the WHOLE chain by one exchange(NULL) with acquire order.  Only the emitting side may do that:
 *                       the (single - collector is documented as not MT safe) caller of collector::operator(), or the thread
 *                       that runs state::~state (unique: the strong count reaches zero once; nobody can push any more then).
 *     Role of the thread under verification: S_ROLE_EMIT (environment only pushes) or S_ROLE_LISTEN (environment pushes and may
 *     detach at any instant).  Every primitive on the registered cell first lets the environment act (rely), then performs the
 *     operation on the value present at that instant (a weak CAS may fail spuriously), then checks the step against the protocol
 *     (guarantee; assertions = obligations on the cocls code) and updates the ownership ghost of this thread's node:
 *       OWN_ME -> (push) OWN_CHAIN -> (detached by whoever emits) OWN_WALK = handed to the chain walk, resumed exactly once by it.
 *     The chain below the head is opaque (environment heads are arbitrary non-null pointers): "no waiter is cut off" is the
 *     link fact gh_push_next == gh_seen at every push plus "the walk starts at the value detached" (resume_chain_lk's argument).
 *     All other atomic locations: sequential semantics.
 *
 * (B) std::shared_ptr<state> / std::weak_ptr<state> as an explicit control block (DESIGN 3.3).  Boundary: every member of
 *     std::__shared_count<_S_atomic> and std::__weak_count<_S_atomic>; shared_ptr/weak_ptr/__shared_ptr/__weak_ptr themselves stay
 *     translated from libstdc++ (they copy the raw pointer and forward to the counts).  One heap block [cb | pointee] per make_shared;
 *     cb->strong / cb->weak = number of strong / weak handle objects (kept IN the block: a stale control block pointer is a CBMC
 *     use-after-free).  strong reaching 0 runs the REAL translated destructor of the pointee (CV_SG_DISPOSE) exactly once; the
 *     block is freed when both counts are 0.  weak_ptr::lock() succeeds iff strong > 0 at that instant.
 *     Thread-modular part: handles manipulated by the code under verification are "mine" (gh_sg_mine_s / gh_sg_mine_w); while
 *     gh_sg_shared is set, other threads hold handles too and at every primitive they may copy / destroy THEIR handles: the counts
 *     may become anything >= mine (never resurrected from 0).  If the strong count reaches 0 that way, the other thread ran
 *     ~state: current value cleared, chain detached (this thread's subscribed node is handed to that thread's walk).
 * Unit supplies: CV_SG_POINTEE (C type of signal<T>::state), CV_SG_DISPOSE (its translated destructor), type aliases
 * SCNT = std::__shared_count<_S_atomic>, WCNT = std::__weak_count<_S_atomic>, AWT = cocls::awaiter. */

struct cv_sg_cb { cv_i64 strong; cv_i64 weak; };
struct cv_sg_block { struct cv_sg_cb cb; CV_SG_POINTEE obj; };      /* typed view of the one allocation */
struct cv_sg_block *gh_sg_blk;   /* the registered state block: assigned by the harness, or by the make_shared model (never only assumed) */

/* ===================================== (A) protocol S ===================================== */
enum { S_ROLE_LISTEN = 0, S_ROLE_EMIT = 1 };
enum { OWN_NONE = 0, OWN_ME = 1, OWN_CHAIN = 2, OWN_WALK = 3 };
void **gh_S_slot;          /* &state->_chain of the registered state (0: none); accessed as pointer-typed memory      */
int gh_S_role;             /* S_ROLE_*                                                                               */
int gh_S_excl;             /* 1: no other thread can reach the chain                                                 */
void *gh_my_node; int gh_node_own;
void *gh_seen;             /* value observed at this thread's last successful RMW on the cell                        */
int gh_n_slot_rmw;         /* successful RMWs by this thread on the cell                                             */
int gh_n_push, gh_n_detach;/* ... of which pushes / detaching exchanges                                              */
void *gh_detached;         /* the chain this thread detached last                                                    */
void *gh_push_handle, *gh_push_fn, *gh_push_next;   /* plain fields of my node at the instant it was published       */
void *gh_push_seen;        /* the cell value my push replaced                                                        */
unsigned gh_env_pushes, gh_env_detaches;
void *gh_det_curval; cv_i64 gh_det_val;            /* state->_cur_val and the value it points to at the instant of this thread's detaching exchange */
#define CV_S_NODE_SNAPSHOT(n) (gh_push_handle = ((AWT *)(n))->_handle_addr, gh_push_fn = (void *)((AWT *)(n))->_resume_fn, gh_push_next = ((AWT *)(n))->_next)
#define CV_S_ON_DETACH() do { if (gh_sg_blk != 0) { gh_det_curval = (void *)gh_sg_blk->obj._cur_val; gh_det_val = (gh_det_curval != 0 && __CPROVER_r_ok(gh_sg_blk->obj._cur_val, sizeof(*gh_sg_blk->obj._cur_val))) ? (cv_i64)*gh_sg_blk->obj._cur_val : 0; } } while (0)
#ifndef CV_S_AFTER_PUSH
#define CV_S_AFTER_PUSH()
#endif
#define PROTS_GHOSTS gh_my_node, gh_node_own, gh_seen, gh_n_slot_rmw, gh_n_push, gh_n_detach, gh_detached, gh_push_handle, gh_push_fn, gh_push_next, gh_push_seen, gh_env_pushes, gh_env_detaches, gh_det_curval, gh_det_val
#define HAS_REL(o) ((o) == 3 || (o) == 4 || (o) == 5)
#define HAS_ACQ(o) ((o) == 1 || (o) == 2 || (o) == 4 || (o) == 5)

#ifdef CV_SG_SEQ_ATOMICS
/* bounded single-threaded drives: no registered chain, no environment; the unit links sequential atomic primitives (lib/rt_atomic_seq.c)
 * or reads std::atomic<T*> at member-function level instead */
static void protS_env_detach(void) {}
static void protS_env(void) {}
#else
static void protS_env_detach(void) {           /* the emitting thread (not me) detached everything */
  *gh_S_slot = 0; gh_env_detaches++;
  if (gh_node_own == OWN_CHAIN) gh_node_own = OWN_WALK; }
static void protS_env(void) {
  if (gh_S_slot == 0 || gh_S_excl) return;
  if (gh_S_role == S_ROLE_LISTEN && nondet_bool()) protS_env_detach();
  if (nondet_bool()) {                         /* others subscribed: a new opaque head (its chain contains the previous head) */
    void *h = nondet_ptr(); __CPROVER_assume(h != 0 && h != gh_my_node);
    *gh_S_slot = h; gh_env_pushes++; }
}

cv_i64 cv_atomic_load_i64(cv_i64 *p, int ord) {
  if ((void **)p == gh_S_slot) {
    protS_env();
    void *v = *gh_S_slot;
    if (!gh_S_excl && nondet_bool()) v = nondet_ptr();       /* a non-RMW load may be stale */
    return (cv_i64)v; }
  return *p; }
void cv_atomic_store_i64(cv_i64 *p, cv_i64 v, int ord) {
  if ((void **)p == gh_S_slot) {
    __CPROVER_assert(gh_S_excl, "protocol S: plain atomic store to a signal chain other threads can reach (subscribed listeners would be lost)");
    *gh_S_slot = (void *)v; return; }
  *p = v; }
cv_i64 cv_atomic_xchg_i64(cv_i64 *p, cv_i64 v, int ord) {
  if ((void **)p == gh_S_slot) {
    protS_env();
    void *old = *gh_S_slot;
    __CPROVER_assert(v == 0, "protocol S: the only exchange on a signal chain is the detaching exchange(nullptr)");
    __CPROVER_assert(gh_S_role == S_ROLE_EMIT || gh_S_excl, "protocol S: only the emitting side (collector call / ~state) may detach the chain");
    __CPROVER_assert(HAS_ACQ(ord), "protocol S: the detaching exchange must have acquire semantics (the listeners' node fields were published by their release CAS)");
    CV_S_ON_DETACH();
    gh_detached = old; gh_seen = old; gh_n_detach++; gh_n_slot_rmw++;
    if (gh_node_own == OWN_CHAIN) gh_node_own = OWN_WALK;
    *gh_S_slot = (void *)v; return (cv_i64)old; }
  cv_i64 old = *p; *p = v; return old; }
cv_i1 cv_cmpxchg_i64(cv_i64 *p, cv_i64 *expected, cv_i64 desired, int weak, int so, int fo) {
  if ((void **)p == gh_S_slot) {
    protS_env();
    void *cur = *gh_S_slot;
    if (cur == (void *)*expected && !(weak && nondet_bool())) {
      if (gh_my_node == 0) { gh_my_node = (void *)desired; gh_node_own = OWN_ME; }      /* a node created inside the function under verification */
      __CPROVER_assert((void *)desired == gh_my_node && gh_node_own == OWN_ME, "protocol S: a thread may only push an awaiter node it owns, and only once per wait");
      __CPROVER_assert(desired != 0, "protocol S: pushing a null node");
      __CPROVER_assert(HAS_REL(so), "protocol S: the subscribing CAS must have release semantics (it publishes the node's handle / function / link)");
      CV_S_NODE_SNAPSHOT(desired);
      gh_node_own = OWN_CHAIN; gh_seen = cur; gh_push_seen = cur; gh_n_slot_rmw++; gh_n_push++;
      *gh_S_slot = (void *)desired;
      CV_S_AFTER_PUSH();      /* unit hook: from this instant the emitting thread may detach, resume and thereby DESTROY the node's owner */
      return 1; }
    *expected = (cv_i64)cur; return 0; }
  cv_i64 old = *p;
  if (old == *expected && !(weak && nondet_bool())) { *p = desired; return 1; }
  *expected = old; return 0; }
void cv_fence(int ord) {}
cv_i64 cv_atomic_add_i64(cv_i64 *p, cv_i64 v, int ord) { cv_i64 o = *p; *p = o + v; return o; }
cv_i64 cv_atomic_sub_i64(cv_i64 *p, cv_i64 v, int ord) { cv_i64 o = *p; *p = o - v; return o; }
cv_i64 cv_atomic_or_i64(cv_i64 *p, cv_i64 v, int ord) { cv_i64 o = *p; *p = o | v; return o; }
cv_i64 cv_atomic_and_i64(cv_i64 *p, cv_i64 v, int ord) { cv_i64 o = *p; *p = o & v; return o; }
#define CV_DEF_ATOMIC_SEQ(sfx, T) \
  T cv_atomic_load_##sfx(T *p, int ord) { return *p; } \
  void cv_atomic_store_##sfx(T *p, T v, int ord) { *p = v; } \
  cv_i1 cv_cmpxchg_##sfx(T *p, T *expected, T desired, int weak, int so, int fo) { \
    T old = *p; if (old == *expected && !(weak && nondet_bool())) { *p = desired; return 1; } *expected = old; return 0; } \
  T cv_atomic_xchg_##sfx(T *p, T v, int ord) { T old = *p; *p = v; return old; } \
  T cv_atomic_add_##sfx(T *p, T v, int ord) { T old = *p; *p = old + v; return old; } \
  T cv_atomic_sub_##sfx(T *p, T v, int ord) { T old = *p; *p = old - v; return old; } \
  T cv_atomic_or_##sfx(T *p, T v, int ord) { T old = *p; *p = old | v; return old; } \
  T cv_atomic_and_##sfx(T *p, T v, int ord) { T old = *p; *p = old & v; return old; }
CV_DEF_ATOMIC_SEQ(i8, cv_i8)
CV_DEF_ATOMIC_SEQ(i32, cv_i32)
#endif /* CV_SG_SEQ_ATOMICS */

/* ===================================== (B) control block ===================================== */
#define CV_SG_BLOCK_SIZE (sizeof(struct cv_sg_block))
#define CV_SG_CB(cnt)    ((struct cv_sg_cb *)(cnt)->_M_pi)
#define CV_SG_OBJ(cb)    (&((struct cv_sg_block *)(cb))->obj)
#define CV_SG_BIG        (1l << 40)
void CV_SG_DISPOSE(CV_SG_POINTEE *);
unsigned gh_sg_made;          /* control blocks created (make_shared)                               */
unsigned gh_sg_disposed;      /* pointee destructor runs by THIS thread (one per drop-to-zero)       */
unsigned gh_sg_released;      /* control blocks freed by this thread                                */
unsigned gh_sg_env_disposed;  /* the last strong handle was destroyed by another thread             */
cv_i64 gh_sg_mine_s, gh_sg_mine_w;   /* strong / weak handle objects held by the thread under verification */
int gh_sg_shared;             /* 1: other threads hold handles of the same state too                */
int cv_sg_depth;              /* >0 while the pointee destructor runs                               */
unsigned gh_sg_locks; int gh_sg_lock_ok;   /* weak_ptr::lock() calls by this thread / outcome of the first one (1: the state was alive at that instant) */
#define SG_GHOSTS gh_sg_made, gh_sg_disposed, gh_sg_released, gh_sg_env_disposed, gh_sg_mine_s, gh_sg_mine_w, cv_sg_depth, gh_sg_locks, gh_sg_lock_ok, gh_S_role, gh_S_excl, gh_allocs, gh_frees

/* rely: other threads copy / destroy THEIR handles */
static void cv_sg_env(struct cv_sg_cb *cb) {
  if (cv_sg_depth != 0) return;
  protS_env();                /* listeners on other threads push (and the emitting thread detaches) at any instant */
  if (!gh_sg_shared) return;
  if (cb->strong > 0 && nondet_bool()) {
    cv_i64 s; __CPROVER_assume(s >= gh_sg_mine_s && s >= 0 && s < CV_SG_BIG);
    if (s == 0) {             /* the last strong handle went away on another thread: that thread ran ~state */
      CV_SG_OBJ(cb)->_cur_val = 0;
      if (gh_S_slot != 0) protS_env_detach();
      gh_sg_env_disposed++; }
    cb->strong = s; }
  if (nondet_bool()) { cv_i64 w; __CPROVER_assume(w >= gh_sg_mine_w && w >= 0 && w < CV_SG_BIG); cb->weak = w; }
}
static void cv_sg_maybe_free(struct cv_sg_cb *cb) {
  if (cb->strong == 0 && cb->weak == 0) { gh_sg_released++; gh_frees++; free(cb); } }
static void cv_sg_release_strong(struct cv_sg_cb *cb) {
  cv_sg_env(cb);
  __CPROVER_assert(cb->strong >= 1 && gh_sg_mine_s >= 1, "shared_ptr released although this thread holds no strong reference (count would go negative)");
  cb->strong--; gh_sg_mine_s--;
  if (cb->strong == 0) {
    __CPROVER_assert(cv_sg_depth == 0, "model limit: nested drop-to-zero inside a pointee destructor");
    int role = gh_S_role, excl = gh_S_excl;
    cv_sg_depth = 1; gh_sg_disposed++;
    gh_S_role = S_ROLE_EMIT; gh_S_excl = 1;       /* nobody holds a strong reference any more: nobody can push, nobody else emits */
    cb->weak++;                                   /* libstdc++: the strong owners together hold one weak reference, given up only AFTER the pointee
                                                     was destroyed - listeners released by ~state may drop their weak handles meanwhile */
    CV_SG_DISPOSE(CV_SG_OBJ(cb));                 /* the real translated state::~state() */
    cb->weak--;
    gh_S_role = role; gh_S_excl = excl; cv_sg_depth = 0; }
  cv_sg_maybe_free(cb);
}
static void cv_sg_release_weak(struct cv_sg_cb *cb) {
  cv_sg_env(cb);
  __CPROVER_assert(cb->weak >= 1 && gh_sg_mine_w >= 1, "weak_ptr released although this thread holds no weak reference");
  cb->weak--; gh_sg_mine_w--;
  cv_sg_maybe_free(cb);
}
static void cv_sg_add_strong(struct cv_sg_cb *cb) {
  cv_sg_env(cb);
  __CPROVER_assert(cb->strong >= 1, "shared_ptr copied from an owner whose control block has strong count 0 (stale owner)");
  cb->strong++; gh_sg_mine_s++; }
static void cv_sg_add_weak(struct cv_sg_cb *cb) { cv_sg_env(cb); cb->weak++; gh_sg_mine_w++; }

/* ---- std::__shared_count<_S_atomic> */
void _ZNSt14__shared_countILN9__gnu_cxx12_Lock_policyE2EEC2Ev(SCNT *this_) { this_->_M_pi = 0; }
void _ZNSt14__shared_countILN9__gnu_cxx12_Lock_policyE2EEC2ERKS2_(SCNT *this_, SCNT *r) {
  this_->_M_pi = r->_M_pi; if (CV_SG_CB(this_) != 0) cv_sg_add_strong(CV_SG_CB(this_)); }
void _ZNSt14__shared_countILN9__gnu_cxx12_Lock_policyE2EED2Ev(SCNT *this_) { if (CV_SG_CB(this_) != 0) cv_sg_release_strong(CV_SG_CB(this_)); }
SCNT *_ZNSt14__shared_countILN9__gnu_cxx12_Lock_policyE2EEaSERKS2_(SCNT *this_, SCNT *r) {
  struct cv_sg_cb *tmp = CV_SG_CB(r);
  if (tmp != CV_SG_CB(this_)) {
    if (tmp != 0) cv_sg_add_strong(tmp);
    if (CV_SG_CB(this_) != 0) cv_sg_release_strong(CV_SG_CB(this_));
    this_->_M_pi = (void *)tmp; }
  return this_; }
void _ZNSt14__shared_countILN9__gnu_cxx12_Lock_policyE2EE7_M_swapERS2_(SCNT *this_, SCNT *r) { void *t = (void *)r->_M_pi; r->_M_pi = this_->_M_pi; this_->_M_pi = t; }
cv_i64 _ZNKSt14__shared_countILN9__gnu_cxx12_Lock_policyE2EE16_M_get_use_countEv(SCNT *this_) {
  if (CV_SG_CB(this_) == 0) return 0;
  cv_sg_env(CV_SG_CB(this_)); return CV_SG_CB(this_)->strong; }
/* __shared_count(const __weak_count &, std::nothrow_t) - weak_ptr::lock(): takes a strong reference iff the state is alive at this instant */
void _ZNSt14__shared_countILN9__gnu_cxx12_Lock_policyE2EEC2ERKSt12__weak_countILS1_2EESt9nothrow_t(SCNT *this_, WCNT *r) {
  struct cv_sg_cb *cb = (struct cv_sg_cb *)r->_M_pi; this_->_M_pi = 0;
  if (cb != 0) {
    cv_sg_env(cb);
    if (cb->strong > 0) { cb->strong++; gh_sg_mine_s++; this_->_M_pi = (void *)cb; } }
  if (gh_sg_locks == 0) gh_sg_lock_ok = (this_->_M_pi != 0);
  gh_sg_locks++; }
/* ---- std::__weak_count<_S_atomic> */
void _ZNSt12__weak_countILN9__gnu_cxx12_Lock_policyE2EEC2Ev(WCNT *this_) { this_->_M_pi = 0; }
void _ZNSt12__weak_countILN9__gnu_cxx12_Lock_policyE2EEC2ERKSt14__shared_countILS1_2EE(WCNT *this_, SCNT *r) {
  this_->_M_pi = r->_M_pi; if (this_->_M_pi != 0) cv_sg_add_weak((struct cv_sg_cb *)this_->_M_pi); }
void _ZNSt12__weak_countILN9__gnu_cxx12_Lock_policyE2EEC2ERKS2_(WCNT *this_, WCNT *r) {
  this_->_M_pi = r->_M_pi; if (this_->_M_pi != 0) cv_sg_add_weak((struct cv_sg_cb *)this_->_M_pi); }
void _ZNSt12__weak_countILN9__gnu_cxx12_Lock_policyE2EEC2EOS2_(WCNT *this_, WCNT *r) { this_->_M_pi = r->_M_pi; r->_M_pi = 0; }
void _ZNSt12__weak_countILN9__gnu_cxx12_Lock_policyE2EED2Ev(WCNT *this_) { if (this_->_M_pi != 0) cv_sg_release_weak((struct cv_sg_cb *)this_->_M_pi); }
WCNT *_ZNSt12__weak_countILN9__gnu_cxx12_Lock_policyE2EEaSERKSt14__shared_countILS1_2EE(WCNT *this_, SCNT *r) {
  struct cv_sg_cb *tmp = CV_SG_CB(r);
  if (tmp != 0) cv_sg_add_weak(tmp);
  if (this_->_M_pi != 0) cv_sg_release_weak((struct cv_sg_cb *)this_->_M_pi);
  this_->_M_pi = (void *)tmp; return this_; }
WCNT *_ZNSt12__weak_countILN9__gnu_cxx12_Lock_policyE2EEaSERKS2_(WCNT *this_, WCNT *r) {
  struct cv_sg_cb *tmp = (struct cv_sg_cb *)r->_M_pi;
  if (tmp != 0) cv_sg_add_weak(tmp);
  if (this_->_M_pi != 0) cv_sg_release_weak((struct cv_sg_cb *)this_->_M_pi);
  this_->_M_pi = (void *)tmp; return this_; }
WCNT *_ZNSt12__weak_countILN9__gnu_cxx12_Lock_policyE2EEaSEOS2_(WCNT *this_, WCNT *r) {
  if (this_->_M_pi != 0) cv_sg_release_weak((struct cv_sg_cb *)this_->_M_pi);
  this_->_M_pi = r->_M_pi; r->_M_pi = 0; return this_; }
/* allocating constructor __shared_count(T *&p, _Sp_alloc_shared_tag<allocator<void>>): one block, pointee constructed in place by the
 * REAL translated constructor (CONSTRUCT uses `obj`). */
#define CV_SG_DEFINE_MAKE(fn, ALLOC_T, CONSTRUCT) \
  void fn(SCNT *this_, CV_SG_POINTEE **p, ALLOC_T *a) { \
    struct cv_sg_cb *cb = (struct cv_sg_cb *)(struct cv_sg_block *)malloc(sizeof(struct cv_sg_block)); __CPROVER_assume(cb != 0); \
    gh_allocs++; gh_sg_made++; cb->strong = 1; cb->weak = 0; gh_sg_mine_s++; \
    CV_SG_POINTEE *obj = CV_SG_OBJ(cb); CONSTRUCT; \
    /* the new state becomes the registered one; nobody else can reach it yet */ \
    gh_sg_blk = (struct cv_sg_block *)cb; gh_S_slot = (void **)&obj->_chain._M_b._M_p; gh_S_excl = 1; gh_sg_shared = 0; \
    this_->_M_pi = (void *)cb; *p = obj; }
