/* model_pubsub_ctor.c - extension of lib/model_pubsub.c (include it AFTER model_pubsub.c / model_pubsub_dpos.c): the DEFAULT CONSTRUCTORS of the
 * three std containers of cocls::publisher<int>::queue.  Assumed contract: a default-constructed container is EMPTY.
 *   std::vector<subreg_t>()   size 0; no slot cached
 *   std::deque<int>()         size 0; the absolute numbering of the elements (model_pubsub.c (1)) starts here: the first element pushed to the front
 *                             gets id 1 (= "first published value: position 1" of specs/C16/ps_spec.h)
 *   std::vector<awaiter*>()   length 0; the awaiter of interest does not occur
 * Construction is exclusive (nobody else can see the object yet): no lock-discipline obligation.  Trusted base of C16. */
void _ZNSt6vectorIN5cocls9publisherIiE5queue8subreg_tESaIS4_EEC2Ev(RGV *v) { rg_n = 0; rg_other_idx = RG_NONE; }
void _ZNSt5dequeIiSaIiEEC2Ev(DQI *d) { dq_len = 0; dq_front = 0; }
void _ZNSt6vectorIPN5cocls7awaiterESaIS2_EEC2Ev(WBV *v) { WB_LEN(v) = 0; wb_cnt = 0; }
