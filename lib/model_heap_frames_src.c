/* model_heap_frames_src.c - lib/model_heap_frames.c (operator new / delete for BOUNDED DRIVES of really lowered coroutines, typed
 * coroutine frames; see there for the why) PLUS ghost bookkeeping of the frames of SOURCE coroutines, for ORDER obligations of the kind
 * "no source has been destroyed yet when ..." / "when a source is destroyed, ..." (C14: destroying the aggregate waits for the in-flight
 * sources BEFORE any source dies).  Same contract and the same accounting as the heap primitives of lib/rt_core.c (fresh block of at
 * least n bytes, gh_allocs / gh_frees, CBMC's double-free / use-after-free checks) - the unit must define CV_NO_HEAP_PRIMS.
 * Which frame type the next allocation is for is announced by the driver (global g_frame_kind, set immediately before the call of a
 * coroutine function, consumed here); the unit lists its frame types in the X-macro CV_FRAME_KINDS:  X(kind, struct_tag) ...
 * An unannounced allocation is an ordinary byte block.  Requires the global alias FRAME_KIND (-> g_frame_kind).
 * Source frames: the unit defines the predicate  CV_FRAME_IS_SOURCE(K)  on the announced kind (default: none).  A frame of such a kind
 * is remembered when it is allocated (at most CV_SRC_FRAMES_N live at a time: model bound, asserted); when operator delete releases it,
 *   1. the hook  void cv_on_src_frame_destroy(void)  is called FIRST (the unit's spec defines it: obligations that must hold at the
 *      moment a source coroutine is destroyed), then
 *   2. gh_src_frames_destroyed is incremented.
 * gh_src_frames_made counts the remembered allocations.  Harnesses that run several scenarios reset both counters in between.
 * Trusted base. */
#ifndef CV_NO_HEAP_PRIMS
#error "model_heap_frames_src.c replaces the heap primitives of rt_core.c: define CV_NO_HEAP_PRIMS in the unit"
#endif
#ifndef CV_FRAME_IS_SOURCE
#define CV_FRAME_IS_SOURCE(K) 0
#endif
#ifndef CV_SRC_FRAMES_N
#define CV_SRC_FRAMES_N 4
#endif
unsigned gh_frames_typed;
unsigned gh_src_frames_made, gh_src_frames_destroyed;
static void *cv_src_frames[CV_SRC_FRAMES_N];
void cv_on_src_frame_destroy(void);
static void cv_src_frame_note(void *f) {
  int done = 0;
  for (int i = 0; i < CV_SRC_FRAMES_N; i++) if (!done && cv_src_frames[i] == 0) { cv_src_frames[i] = f; done = 1; }
  __CPROVER_assert(done, "model bound: number of live source frames (CV_SRC_FRAMES_N)");
  gh_src_frames_made++; }
static void cv_src_frame_release(void *p) {
  for (int i = 0; i < CV_SRC_FRAMES_N; i++) if (cv_src_frames[i] == p) { cv_src_frames[i] = 0; cv_on_src_frame_destroy(); gh_src_frames_destroyed++; } }
static cv_i8 *cv_alloc_block(cv_i64 n) {
  cv_i8 *p = 0; int kind = *FRAME_KIND;
#define X(K, T) if (kind == (K)) { struct T *f = malloc(sizeof(struct T)); \
    __CPROVER_assert(n <= sizeof(struct T), "heap model: announced frame type is at least as large as the requested block"); p = (cv_i8 *)f; gh_frames_typed++; *FRAME_KIND = 0; \
    __CPROVER_assume(p != 0); if (CV_FRAME_IS_SOURCE(K)) cv_src_frame_note(p); }
  CV_FRAME_KINDS
#undef X
  if (p == 0) { __CPROVER_assert(kind == 0, "heap model: announced frame kind is listed in CV_FRAME_KINDS"); p = malloc(n); }
  __CPROVER_assume(p != 0); return p; }
static void cv_free_block(cv_i8 *p) { if (p) { gh_frees++; cv_src_frame_release(p); } free(p); }
cv_i8 *_Znwm(cv_i64 n) { gh_allocs++; return cv_alloc_block(n); }
cv_i8 *_Znam(cv_i64 n) { gh_allocs++; cv_i8 *p = malloc(n); __CPROVER_assume(p != 0); return p; }
void _ZdlPv(cv_i8 *p) { cv_free_block(p); }
void _ZdaPv(cv_i8 *p) { if (p) gh_frees++; free(p); }
void _ZdlPvm(cv_i8 *p, cv_i64 n) { cv_free_block(p); }
void _ZdaPvm(cv_i8 *p, cv_i64 n) { if (p) gh_frees++; free(p); }
