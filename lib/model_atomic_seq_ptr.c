/* model_atomic_seq_ptr.c - atomic instructions for SEQUENTIAL bounded drives (C13, C14): no interference, memory orders ignored -
 * the same reading as lib/rt_atomic_seq.c (link this file INSTEAD of it), with two differences that only matter to the checker:
 * (1) clang lowers every std::atomic<T*> operation to an i64 instruction on a bitcast address, so the 64-bit primitives are what
 *     touches future::_awaiter, promise::_owner, ... .  They access the cell as a POINTER (void **) and convert the VALUE:
 *     a pointer written into memory through a cv_i64 alias loses its object identity in CBMC and every later dereference forks over
 *     all addressed objects (measured: drives with an awaiter chain do not terminate), whereas (T *)(cv_i64)ptr simplifies back
 *     to ptr.  Integer cells survive the round trip bit for bit (a pointer is 64 bits wide).  add/sub stay integer accesses.
 * (2) compare_exchange_weak does not fail spuriously here: a drive is bounded symbolic execution with unwinding assertions, and a
 *     retry loop around a weak CAS that may fail for ever has no bound.  (Retry loops under spurious failure are verified with loop
 *     contracts in C02 / C07.)
 * Trusted base. */
#define CV_DEF_ATOMIC_SP(sfx, T) \
  T cv_atomic_load_##sfx(T *p, int ord) { return *p; } \
  void cv_atomic_store_##sfx(T *p, T v, int ord) { *p = v; } \
  cv_i1 cv_cmpxchg_##sfx(T *p, T *expected, T desired, int weak, int so, int fo) { \
    T old = *p; if (old == *expected) { *p = desired; return 1; } *expected = old; return 0; } \
  T cv_atomic_xchg_##sfx(T *p, T v, int ord) { T old = *p; *p = v; return old; } \
  T cv_atomic_add_##sfx(T *p, T v, int ord) { T old = *p; *p = old + v; return old; } \
  T cv_atomic_sub_##sfx(T *p, T v, int ord) { T old = *p; *p = old - v; return old; } \
  T cv_atomic_or_##sfx(T *p, T v, int ord) { T old = *p; *p = old | v; return old; } \
  T cv_atomic_and_##sfx(T *p, T v, int ord) { T old = *p; *p = old & v; return old; }
CV_DEF_ATOMIC_SP(i8, cv_i8)
CV_DEF_ATOMIC_SP(i32, cv_i32)
void cv_fence(int ord) {}
cv_i64 cv_atomic_load_i64(cv_i64 *p, int ord) { return (cv_i64)*(void **)p; }
void cv_atomic_store_i64(cv_i64 *p, cv_i64 v, int ord) { *(void **)p = (void *)v; }
cv_i1 cv_cmpxchg_i64(cv_i64 *p, cv_i64 *expected, cv_i64 desired, int weak, int so, int fo) {
  void *old = *(void **)p; if (old == (void *)*expected) { *(void **)p = (void *)desired; return 1; } *expected = (cv_i64)old; return 0; }
cv_i64 cv_atomic_xchg_i64(cv_i64 *p, cv_i64 v, int ord) { void *old = *(void **)p; *(void **)p = (void *)v; return (cv_i64)old; }
cv_i64 cv_atomic_add_i64(cv_i64 *p, cv_i64 v, int ord) { cv_i64 old = *p; *p = old + v; return old; }
cv_i64 cv_atomic_sub_i64(cv_i64 *p, cv_i64 v, int ord) { cv_i64 old = *p; *p = old - v; return old; }
cv_i64 cv_atomic_or_i64(cv_i64 *p, cv_i64 v, int ord) { cv_i64 old = *p; *p = old | v; return old; }
cv_i64 cv_atomic_and_i64(cv_i64 *p, cv_i64 v, int ord) { cv_i64 old = *p; *p = old & v; return old; }
