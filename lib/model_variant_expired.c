/* model_variant_expired.c - assumed contract on a dependency of cocls::scheduler (C12):
 *   std::variant<std::chrono::system_clock::time_point, cocls::promise<void>>  (scheduler::expired), converting constructors only.
 * Layout as produced by clang/libstdc++: payload word at offset 0, index byte at offset 8 (0 = time point, 1 = promise).
 * Constructing from a promise moves it (the model's promise move constructor, lib/model_promise.c); from a time point copies it.
 * Requires types EXPIRED, PROM and lib/model_promise.c included before.  Trusted base. */
#define VAR_IDX(v)  (((cv_i8 *)(v))[8])
#define VAR_TIME(v) (*(cv_s64 *)(v))
#define VAR_OWN(v)  (*(void **)(v))
#ifdef CV_HAS_var_from_promise
void var_from_promise(EXPIRED *v, PROM *p) { _ZN5cocls7promiseIvEC2EOS1_((PROM *)v, p); VAR_IDX(v) = 1; }
#endif
#ifdef CV_HAS_var_from_tp_rv
void var_from_tp_rv(EXPIRED *v, struct S_struct_std__chrono__time_point *t) { VAR_TIME(v) = (cv_s64)t->__d.__r; VAR_IDX(v) = 0; }
#endif
#ifdef CV_HAS_var_from_tp_lv
void var_from_tp_lv(EXPIRED *v, struct S_struct_std__chrono__time_point *t) { VAR_TIME(v) = (cv_s64)t->__d.__r; VAR_IDX(v) = 0; }
#endif
