/* model_coro.c - assumed contracts on dependencies used by the scheduling units (C05, C06 queue members, C02 ...):
 *
 * (1) std::deque<std::coroutine_handle<>> (the per-thread ready queue): an unbounded FIFO.  Abstract state: absolute positions
 *     dq_head <= dq_tail (length = tail - head).  Content is tracked at ONE arbitrary-but-fixed absolute position gh_DK
 *     (ghost index idiom: a fact proved for an arbitrary position holds for all positions).  Preconditions of the real
 *     container (front/pop_front on a non-empty deque) are obligations on the cocls code.
 * (2) coroutine_handle<>::resume(): logs the handle in the sequence of *direct* resumptions made by the code under
 *     verification (count gh_n_resume, content tracked at index gh_RK) and then lets the environment act: while a ready queue
 *     is installed, the resumed coroutine may make others ready (append) and may pause / transfer symmetrically (which
 *     dequeues from the front); it never reorders the queue.
 * Requires the unit to define type aliases DQCH (the deque class) and CH (coroutine_handle<void>). Trusted base. */
cv_i64 dq_head, dq_tail;                 /* absolute positions                                      */
cv_i64 gh_DK; cv_i8 *dq_trk;             /* tracked position and the handle stored there            */
cv_i64 dq_npop; cv_i64 gh_PK; cv_i8 *dq_pop_trk;   /* direct pops by the code: count, tracked index, value */
cv_i64 dq_npush;                         /* direct pushes by the code                               */
cv_i64 gh_n_resume; cv_i64 gh_RK; cv_i8 *gh_res_trk;   /* direct resumptions: count, tracked index, value */
CH dq_front_slot, dq_back_slot;
#ifdef CV_COUNT_X
/* order-free accounting (C06): an arbitrary-but-fixed handle value gh_X; how often the code under verification DIRECTLY pushed it on
 * the ready queue / resumed it.  (A fact proved for an arbitrary value holds for every value: multiset equality without quantifiers.) */
cv_i8 *gh_X; cv_i64 dq_cntX, gh_rescntX;
#define CV_COUNT_X_PUSH(v) do { if ((cv_i8 *)(v) == gh_X) { GH_NOWRAP(dq_cntX); dq_cntX++; } } while (0)
#define CV_COUNT_X_RESUME(v) do { if ((cv_i8 *)(v) == gh_X) { GH_NOWRAP(gh_rescntX); gh_rescntX++; } } while (0)
#else
#define CV_COUNT_X_PUSH(v)
#define CV_COUNT_X_RESUME(v)
#endif
int gh_env_may_dequeue = 1;              /* units may pin this to 0 where the documented protocol excludes it */
#define DQ_WF ((gh_DK >= dq_tail || dq_trk != 0) && dq_head <= dq_tail && dq_tail < (1ul << 40) && dq_npop < (1ul << 40) && dq_npush < (1ul << 40) && gh_n_resume < (1ul << 40))
#define DQ_LEN (dq_tail - dq_head)
#define DQ_INV ((gh_DK >= dq_tail || dq_trk != 0) && dq_head <= dq_tail)   /* inductive part (ghost counters are mathematical: they never wrap) */
#define GH_NOWRAP(x) __CPROVER_assume((x) < (1ul << 62))

void _ZNSt5dequeINSt7__n486116coroutine_handleIvEESaIS2_EEC2Ev(DQCH *d) { dq_head = dq_tail = 0; }
void _ZNSt5dequeINSt7__n486116coroutine_handleIvEESaIS2_EED2Ev(DQCH *d) { }
cv_i1 _ZNKSt5dequeINSt7__n486116coroutine_handleIvEESaIS2_EE5emptyEv(DQCH *d) { return dq_head == dq_tail ? 1 : 0; }
cv_i64 _ZNKSt5dequeINSt7__n486116coroutine_handleIvEESaIS2_EE4sizeEv(DQCH *d) { return dq_tail - dq_head; }
CH *_ZNSt5dequeINSt7__n486116coroutine_handleIvEESaIS2_EE5frontEv(DQCH *d) {
  __CPROVER_assert(dq_head < dq_tail, "std::deque::front() on a non-empty deque");
  cv_i8 *v; __CPROVER_assume(v != 0); dq_front_slot._M_fr_ptr = (dq_head == gh_DK) ? dq_trk : v; return &dq_front_slot; }
CH *_ZNSt5dequeINSt7__n486116coroutine_handleIvEESaIS2_EE4backEv(DQCH *d) {
  __CPROVER_assert(dq_head < dq_tail, "std::deque::back() on a non-empty deque");
  cv_i8 *v; __CPROVER_assume(v != 0); dq_back_slot._M_fr_ptr = (dq_tail - 1 == gh_DK) ? dq_trk : v; return &dq_back_slot; }
void _ZNSt5dequeINSt7__n486116coroutine_handleIvEESaIS2_EE9pop_frontEv(DQCH *d) {
  __CPROVER_assert(dq_head < dq_tail, "std::deque::pop_front() on a non-empty deque");
  if (dq_npop == gh_PK) dq_pop_trk = (dq_head == gh_DK) ? dq_trk : dq_front_slot._M_fr_ptr;
  GH_NOWRAP(dq_npop); GH_NOWRAP(dq_head); dq_npop++; dq_head++; }
void _ZNSt5dequeINSt7__n486116coroutine_handleIvEESaIS2_EE8pop_backEv(DQCH *d) {
  __CPROVER_assert(dq_head < dq_tail, "std::deque::pop_back() on a non-empty deque");
  dq_tail--; }
void _ZNSt5dequeINSt7__n486116coroutine_handleIvEESaIS2_EE9push_backERKS2_(DQCH *d, CH *h) {
  if (dq_tail == gh_DK) { __CPROVER_assert(h->_M_fr_ptr != 0, "only non-empty handles enter the ready queue (checked at the arbitrary tracked position)"); dq_trk = h->_M_fr_ptr; }
  CV_COUNT_X_PUSH(h->_M_fr_ptr);
  GH_NOWRAP(dq_tail); GH_NOWRAP(dq_npush); dq_tail++; dq_npush++; gh_allocs += (nondet_bool() ? 1 : 0); /* a deque may allocate a node on push (C20 finding) */ }
void _ZNSt5dequeINSt7__n486116coroutine_handleIvEESaIS2_EE9push_backEOS2_(DQCH *d, CH *h) {
  _ZNSt5dequeINSt7__n486116coroutine_handleIvEESaIS2_EE9push_backERKS2_(d, h); }
void _ZNSt5dequeINSt7__n486116coroutine_handleIvEESaIS2_EE10push_frontERKS2_(DQCH *d, CH *h) {
  __CPROVER_assert(0, "std::deque::push_front: the ready queue is FIFO (model supports appending only)"); }

/* environment step performed by a running coroutine (see header comment) */
void cv_env_coroutine_runs(void) {
#ifdef CV_QUEUE_INSTANCE_PTR
  if (*(void **)CV_QUEUE_INSTANCE_PTR == 0) return;      /* no queue installed: a resumed coroutine installs and drains its own */
#endif
  if (gh_env_may_dequeue) { cv_i64 np = nondet_size_t(); __CPROVER_assume(np <= dq_tail - dq_head); dq_head += np; }
  cv_i64 na = nondet_size_t(); __CPROVER_assume(na < (1ul << 20));
  if (gh_DK >= dq_tail && gh_DK < dq_tail + na) { dq_trk = (cv_i8 *)nondet_ptr(); __CPROVER_assume(dq_trk != 0); }
  GH_NOWRAP(dq_tail); dq_tail += na;
}
void _ZNKSt7__n486116coroutine_handleIvE6resumeEv(CH *h) {
  if (gh_n_resume == gh_RK) { __CPROVER_assert(h->_M_fr_ptr != 0, "resume() of an empty coroutine handle (checked at the arbitrary tracked index)"); gh_res_trk = h->_M_fr_ptr; }
  CV_COUNT_X_RESUME(h->_M_fr_ptr);
  GH_NOWRAP(gh_n_resume); gh_n_resume++;
  cv_env_coroutine_runs();
}
