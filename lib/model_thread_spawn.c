/* model_thread_spawn.c - assumed contract on std::thread used as "run this closure on a brand-new thread" (cocls::parallel,
 * cocls::parallel_resume in src/cocls/resume.h; property C06).  Trusted base.
 *
 * std::thread::thread(F&&) is an external primitive (libstdc++ header code around pthread_create): it decay-copies (moves) the closure
 * into storage owned by the new thread and runs the copy's operator() EXACTLY ONCE, concurrently with the creator; afterwards the copy is
 * destroyed on the new thread.  The model is a recording stub, split in a generic part (this file) and one constructor stub per closure
 * type (in the spec: it moves the closure with the REAL translated move constructor of the lambda, runs the REAL translated operator() and
 * the real destructor between cv_thread_spawn_begin / cv_thread_spawn_end).  Recorded: number of threads created, the thread object and
 * the closure of the most recent spawn, number of closure bodies run, and how many of the direct resumptions logged by the resume
 * primitive of lib/model_coro.c (gh_n_resume) happened INSIDE a spawned thread (thm.n_resumes) - the rest happened on the caller's stack.
 * Schedule: the body runs inside the constructor call (the earliest schedule the primitive allows: everything the creator does after the
 * constructor then happens AFTER the new thread has finished - a creator that still touches state owned by the resumed coroutines is
 * caught by the `perms` instrumentation of the spec, which asserts "no thread spawned yet" on such accesses).
 * thread_local state: a new thread starts with its own (empty) copy; the spec supplies cv_thread_tls_enter / cv_thread_tls_leave when
 * CV_THREAD_TLS_HOOKS is defined (save / reset / restore of the one global that stands for the creator's thread_local).
 * The std::thread object is one word (the id; 0 = not joinable): detach()/join() need a joinable thread (std::system_error otherwise),
 * ~thread() of a joinable thread is std::terminate - obligations on the cocls code.
 * Requires: type alias THR ('std::thread'); lib/model_coro.c before this file (gh_n_resume). */
struct thr_model {
  cv_i64 n_created;      /* std::thread objects constructed with a closure                                              */
  cv_i64 n_runs;         /* closure bodies executed (each exactly once, to completion)                                   */
  cv_i64 n_detach, n_join;
  cv_i64 n_resumes;      /* direct resumptions (resume primitive) made while a spawned thread's body was executing       */
  cv_i64 res0;           /* gh_n_resume at the start of the running body                                                 */
  cv_i8  in_thread;      /* 1 while the body of a spawned thread executes                                                */
} thm;
THR *gh_thr_obj;         /* the std::thread object of the most recent spawn                                              */
void *gh_thr_closure;    /* the closure object handed to the most recent spawn (the creator's temporary)                 */
#define THR_NOWRAP(x) __CPROVER_assume((x) < (1ul << 40))      /* ghost counters are mathematical: they never wrap */
#define THR_MODEL_ASSIGNS __CPROVER_object_whole(&thm), gh_thr_obj, gh_thr_closure
#define THR_MODEL_PRE (thm.n_created == 0 && thm.n_runs == 0 && thm.n_detach == 0 && thm.n_join == 0 && thm.n_resumes == 0 && thm.in_thread == 0)
#define THR_JOINABLE(t) ((t)->_M_id._M_thread != 0)
#ifdef CV_THREAD_TLS_HOOKS
void cv_thread_tls_enter(void);
void cv_thread_tls_leave(void);
#else
#define cv_thread_tls_enter()
#define cv_thread_tls_leave()
#endif
void cv_thread_spawn_begin(THR *t, void *closure) {
  cv_i64 id = nondet_size_t(); __CPROVER_assume(id != 0);
  t->_M_id._M_thread = id;                                  /* the object now represents a running thread: joinable */
  gh_thr_obj = t; gh_thr_closure = closure;
  THR_NOWRAP(thm.n_created); thm.n_created++;
  cv_thread_tls_enter();
  thm.in_thread = 1; thm.res0 = gh_n_resume;
}
void cv_thread_spawn_end(void) {
  THR_NOWRAP(thm.n_resumes); thm.n_resumes += gh_n_resume - thm.res0;
  thm.in_thread = 0;
  cv_thread_tls_leave();
  THR_NOWRAP(thm.n_runs); thm.n_runs++;
}
void _ZNSt6thread6detachEv(THR *t) {
  __CPROVER_assert(THR_JOINABLE(t), "std::thread::detach() on a joinable thread (std::system_error otherwise)");
  t->_M_id._M_thread = 0; THR_NOWRAP(thm.n_detach); thm.n_detach++; }
void _ZNSt6thread4joinEv(THR *t) {
  __CPROVER_assert(THR_JOINABLE(t), "std::thread::join() on a joinable thread (std::system_error otherwise)");
  t->_M_id._M_thread = 0; THR_NOWRAP(thm.n_join); thm.n_join++; }
void _ZNSt6threadD2Ev(THR *t) {
  __CPROVER_assert(!THR_JOINABLE(t), "a joinable std::thread is destroyed (std::terminate): the spawned thread must be detached or joined first"); }
