/* model_promise.c - abstract boundary for cocls::promise<void> as used by the scheduler (C12).  future.h internals are NOT translated.
 *
 * A promise<void> is one word: the future it may still resolve (_owner; 0 = empty / moved-from / already used).  That pointer is the
 * identity of a pending sleep.  The members used by scheduler.h are operational stubs on that word which record in ghost state how a
 * future was completed:
 *      resolved with a value  |  resolved with exception object X  |  dropped (promise destroyed while still owning the future: the
 *      awaiting party then observes "no value" = await_canceled_exception, property C01)
 * Totals (gh_pr_n_*) and, for ONE arbitrary-but-fixed future gh_W ("watched"), the exact counts - a statement proved for an arbitrary
 * future holds for every future.  The element a promise was most recently moved out of is remembered when the including spec
 * says so through PR_CONTAINER_RECORD(src) (C12: the scheduler vector), so that contracts can speak about "the entry the returned promise came from".
 * Required: type PROM (promise<void>), SPB (suspend_point<bool>); optional macro PR_CONTAINER_RECORD(src).  Trusted base. */
#define PR_OWN(p) (*(void **)&(p)->_owner)
void *gh_W;                                            /* the watched future (arbitrary; logical variable, never assigned) */
struct pr_model {
  unsigned W_dropped, W_val, W_exc; void *W_excobj;    /* how often / how the watched future was completed        */
  unsigned n_dropped, n_val, n_exc;                    /* totals                                                   */
  void *last_own, *last_excobj;                        /* most recent resolution with an exception                 */
  cv_i32 sp_cf; cv_i8 *sp_h0;                          /* the suspend point handed back by the most recent resolution */
  cv_s64 mv_tp; void *mv_own; cv_i8 *mv_id;            /* container element the most recent promise was moved out of (PR_CONTAINER_RECORD) */
} pm;
#define gh_W_dropped pm.W_dropped
#define gh_W_val pm.W_val
#define gh_W_exc pm.W_exc
#define gh_W_excobj pm.W_excobj
#define gh_pr_n_dropped pm.n_dropped
#define gh_pr_n_val pm.n_val
#define gh_pr_n_exc pm.n_exc
#define gh_pr_last_own pm.last_own
#define gh_pr_last_excobj pm.last_excobj
#define gh_pr_sp_cf pm.sp_cf
#define gh_pr_sp_h0 pm.sp_h0
#define gh_mv_tp pm.mv_tp
#define gh_mv_own pm.mv_own
#define gh_mv_id pm.mv_id
#define PR_MODEL_ASSIGNS __CPROVER_object_whole(&pm)
#ifndef PR_CONTAINER_RECORD
#define PR_CONTAINER_RECORD(src)
#endif

void _ZN5cocls7promiseIvEC2Ev(PROM *this_) { PR_OWN(this_) = 0; }
void _ZN5cocls7promiseIvEC2EOS1_(PROM *this_, PROM *other) {
  PR_CONTAINER_RECORD(other);
  void *m = PR_OWN(other); PR_OWN(other) = 0; PR_OWN(this_) = m; }                 /* _owner(other.claim()) */
void _ZN5cocls7promiseIvED2Ev(PROM *this_) {
  void *m = PR_OWN(this_);
  if (m) { gh_pr_n_dropped++; if (m == gh_W) gh_W_dropped++; } }                   /* if (m) m->resolve(): completes without a value */
cv_i1 _ZNK5cocls7promiseIvEcvbEv(PROM *this_) { return PR_OWN(this_) != 0 ? 1 : 0; }
cv_i1 _ZNK5cocls7promiseIvEntEv(PROM *this_) { return PR_OWN(this_) == 0 ? 1 : 0; }

#if defined(CV_HAS_pr_call_exc) || defined(CV_HAS_pr_call_val)
/* the suspend_point<bool> a resolution returns: (coroutines made ready, won). The awaiting coroutine - if any - is in it. */
static void pr_make_result(SPB *ret, void *m) {
  cv_i32 cf = 0; cv_i8 *h = 0;
  if (m && nondet_bool()) { cf = 2; h = (cv_i8 *)nondet_ptr(); __CPROVER_assume(h != 0); }
  ret->base_suspend_point._count_flag = cf; ret->base_suspend_point.f0.f0._handles[0] = h; ret->value = m ? 1 : 0;
  gh_pr_sp_cf = cf; gh_pr_sp_h0 = h; }
#endif
#ifdef CV_HAS_pr_call_exc
/* promise::operator()(std::exception_ptr &) */
void pr_call_exc(SPB *ret, PROM *this_, struct S_class_std____exception_ptr__exception_ptr *e) {
  void *m = PR_OWN(this_); PR_OWN(this_) = 0;                                       /* claim() */
  if (m) { gh_pr_n_exc++; gh_pr_last_own = m; gh_pr_last_excobj = e->_M_exception_object;
           if (m == gh_W) { gh_W_exc++; gh_W_excobj = e->_M_exception_object; } }
  pr_make_result(ret, m); }
#endif
#ifdef CV_HAS_pr_call_val
/* promise::operator()() */
void pr_call_val(SPB *ret, PROM *this_) {
  void *m = PR_OWN(this_); PR_OWN(this_) = 0;
  if (m) { gh_pr_n_val++; if (m == gh_W) gh_W_val++; }
  pr_make_result(ret, m); }
#endif
#ifdef CV_HAS_pr_ctor_future
/* explicit promise(future<void> &) */
void pr_ctor_future(PROM *this_, PR_FUTURE_T *f) { PR_OWN(this_) = (void *)f; }
#endif
