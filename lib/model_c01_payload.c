/* model_c01_payload.c - payload snapshot hooks for the value types of C01 other than int (specs/C01/t_spec.h).
 * Include BEFORE rt_atomic_protF.c.  The protocol-F exchange primitive records the registered future's state tag / value / exception
 * at the instant the slot is swung to the ready marker through the macros CV_F_STATE_AT / CV_F_VALUE_AT / CV_F_EXC_AT.  A unit for a
 * value type with more observable payload than one int (moved-from flag of a move-only type, instance counters of a counted type,
 * live-instance counter of a type with a throwing constructor) defines up to four extra accessors CV_F_AUX0_AT(p) .. CV_F_AUX3_AT(p)
 * (p = address of the slot = address of the future) and CV_F_STATE0_AT(p); they are evaluated at that same instant into
 * gh_aux_at_resolve[0..3].  No protocol logic here: the primitives of rt_atomic_protF.c are used unchanged. */
cv_i64 gh_aux_at_resolve[4];
#ifndef CV_F_AUX0_AT
#define CV_F_AUX0_AT(p) 0
#endif
#ifndef CV_F_AUX1_AT
#define CV_F_AUX1_AT(p) 0
#endif
#ifndef CV_F_AUX2_AT
#define CV_F_AUX2_AT(p) 0
#endif
#ifndef CV_F_AUX3_AT
#define CV_F_AUX3_AT(p) 0
#endif
#ifdef CV_F_STATE0_AT
#define CV_F_STATE_AT(p) (gh_aux_at_resolve[0] = (cv_i64)(CV_F_AUX0_AT(p)), gh_aux_at_resolve[1] = (cv_i64)(CV_F_AUX1_AT(p)), \
                          gh_aux_at_resolve[2] = (cv_i64)(CV_F_AUX2_AT(p)), gh_aux_at_resolve[3] = (cv_i64)(CV_F_AUX3_AT(p)), CV_F_STATE0_AT(p))
#endif
#define C01_AUX_GHOSTS gh_aux_at_resolve[0], gh_aux_at_resolve[1], gh_aux_at_resolve[2], gh_aux_at_resolve[3]
