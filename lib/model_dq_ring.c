/* model_dq_ring.c - std::deque<std::coroutine_handle<>> for BOUNDED DRIVES of really lowered coroutines (DESIGN 3.8):
 * a concrete FIFO ring of DQ_RING_N slots (model bound, asserted).  Unlike lib/model_coro.c there is no resume primitive here:
 * coroutine_handle::resume() stays the translated indirect call into the lowered .resume function.  Assumed contract on a dependency.
 * Requires type aliases DQCH and CH. */
#ifndef DQ_RING_N
#define DQ_RING_N 8
#endif
static cv_i8 *dqr_buf[DQ_RING_N]; static unsigned dqr_head, dqr_tail;    /* absolute positions, slot = pos % N */
unsigned gh_dq_pushes, gh_dq_pops;
void _ZNSt5dequeINSt7__n486116coroutine_handleIvEESaIS2_EEC2Ev(DQCH *d) { dqr_head = dqr_tail = 0; }
void _ZNSt5dequeINSt7__n486116coroutine_handleIvEESaIS2_EED2Ev(DQCH *d) { }
cv_i1 _ZNKSt5dequeINSt7__n486116coroutine_handleIvEESaIS2_EE5emptyEv(DQCH *d) { return dqr_head == dqr_tail ? 1 : 0; }
cv_i64 _ZNKSt5dequeINSt7__n486116coroutine_handleIvEESaIS2_EE4sizeEv(DQCH *d) { return dqr_tail - dqr_head; }
CH *_ZNSt5dequeINSt7__n486116coroutine_handleIvEESaIS2_EE5frontEv(DQCH *d) {
  __CPROVER_assert(dqr_head < dqr_tail, "std::deque::front() on a non-empty deque"); return (CH *)&dqr_buf[dqr_head % DQ_RING_N]; }
CH *_ZNSt5dequeINSt7__n486116coroutine_handleIvEESaIS2_EE4backEv(DQCH *d) {
  __CPROVER_assert(dqr_head < dqr_tail, "std::deque::back() on a non-empty deque"); return (CH *)&dqr_buf[(dqr_tail - 1) % DQ_RING_N]; }
void _ZNSt5dequeINSt7__n486116coroutine_handleIvEESaIS2_EE9pop_frontEv(DQCH *d) {
  __CPROVER_assert(dqr_head < dqr_tail, "std::deque::pop_front() on a non-empty deque"); dqr_head++; gh_dq_pops++; }
void _ZNSt5dequeINSt7__n486116coroutine_handleIvEESaIS2_EE8pop_backEv(DQCH *d) {
  __CPROVER_assert(dqr_head < dqr_tail, "std::deque::pop_back() on a non-empty deque"); dqr_tail--; }
void _ZNSt5dequeINSt7__n486116coroutine_handleIvEESaIS2_EE9push_backERKS2_(DQCH *d, CH *h) {
  __CPROVER_assert(dqr_tail - dqr_head < DQ_RING_N, "model bound: ready queue longer than DQ_RING_N");
  dqr_buf[dqr_tail % DQ_RING_N] = h->_M_fr_ptr; dqr_tail++; gh_dq_pushes++; }
void _ZNSt5dequeINSt7__n486116coroutine_handleIvEESaIS2_EE9push_backEOS2_(DQCH *d, CH *h) {
  _ZNSt5dequeINSt7__n486116coroutine_handleIvEESaIS2_EE9push_backERKS2_(d, h); }
