/* model_vector_char.c - assumed contract on a dependency: std::vector<char> as used by cocls::reusable_buffer_storage
 * (size(), resize(n), data()).  libstdc++ internals are never translated (tools/README.md); the unit lists
 * '^std::vector<char' as boundary and defines the type alias VECC.
 *
 * Abstract state of THE vector of the unit (one instance, identified by vc_self): element array vc_data (one heap block of
 * vc_cap bytes obtained from operator new, or null when vc_cap == 0), vc_size <= vc_cap elements in use.
 *   size()    : vc_size
 *   data()    : vc_data (pointer to the first element; null for a vector that never allocated)
 *   resize(n) : n <= size: size = n, nothing else (no reallocation, pointers stay valid);
 *               size < n <= capacity: size = n, same block;
 *               n > capacity: a new block of an ARBITRARY capacity >= n is obtained from operator new, the old block (if any) is
 *               released through operator delete (both counted by the heap primitive), data() changes.
 *   Element VALUES are not modelled: the bytes of a new block are nondeterministic (the real resize() copies the old elements and
 *   zero-fills the new ones; nothing in the storage property depends on the content - over-approximation).
 *   length_error for n > max_size() is not modelled (callers are verified for n < 2^30).
 * Model precondition (obligation on the caller): the object is the registered vector.  Trusted base. */
VECC *vc_self; cv_i8 *vc_data; cv_i64 vc_size, vc_cap;
unsigned gh_vc_resize_calls;
#define VC_STATE vc_data, vc_size, vc_cap, gh_vc_resize_calls            /* for assigns clauses */
cv_i64 _ZNKSt6vectorIcSaIcEE4sizeEv(VECC *v) {
  __CPROVER_assert(v == vc_self, "std::vector<char> model: the one registered vector");
  return vc_size; }
cv_i8 *_ZNSt6vectorIcSaIcEE4dataEv(VECC *v) {
  __CPROVER_assert(v == vc_self, "std::vector<char> model: the one registered vector");
  return vc_data; }
void _ZNSt6vectorIcSaIcEE6resizeEm(VECC *v, cv_i64 n) {
  __CPROVER_assert(v == vc_self, "std::vector<char> model: the one registered vector");
  gh_vc_resize_calls++;
  if (n > vc_cap) {
    cv_i64 ncap = nondet_size_t(); __CPROVER_assume(ncap >= n && ncap <= 2 * n + 16);   /* growth policy unspecified: any capacity >= n */
    cv_i8 *nb = _Znwm(ncap);
    if (vc_data) _ZdlPv(vc_data);
    vc_data = nb; vc_cap = ncap; }
  vc_size = n; }
