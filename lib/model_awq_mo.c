/* model_awq_mo.c - assumed contracts on the std containers / promise operations of cocls::queue<mo_item> and cocls::limited_queue<mo_item>
 * (C09, C10) where mo_item is the MOVE-ONLY client payload of drivers/c09_mo_item.h.  Same idiom as lib/model_awq_containers.c (absolute
 * positions head <= tail, content tracked at ONE arbitrary-but-fixed position), but the element is an OBJECT with a life cycle, and the
 * model runs the REAL (translated) special members of the element type wherever the real container / future would run them:
 *
 *   MQ  std::queue<mo_item>                               emplace/push(T&&) move-CONSTRUCT the new element from the argument (real move ctor: source
 *                                                         becomes moved-from, live + 1); front() materialises the element once per position in a slot
 *                                                         object (moving out of the reference leaves THAT element moved-from); pop() DESTROYS the front
 *                                                         element (real destructor: live - 1; an element that still carries its value is counted in
 *                                                         mo_item::dead_valued by the destructor itself); ~queue() destroys every remaining element.
 *   WQ  std::queue<cocls::promise<mo_item>>               as CV_DEF_WQ of model_awq_containers.c (promise = linear resource)
 *   BQ  std::queue<std::pair<mo_item, promise<void>>>     blocked producers of limited_queue (CV_MODEL_MO_BQ): pair elements, item part as in MQ
 *   promise<mo_item>::operator()(mo_item&&)               the future's value is move-constructed from the argument, exactly once (real move ctor into
 *                                                         gh_mo.deliv = the object the consumer will see); logged in gh_pr with val = delivered tag
 * Container invariant used when an UNTRACKED element is materialised: elements inside a queue carry their value (moved_cnt == 0, tag >= 0); it is
 * checked where elements enter (gh_mq.bad_in / gh_bq.bad_in count elements that were moved-from when they were put in).
 * Needs lib/model_mutex.c, lib/model_awq_promise.c, lib/model_awq_containers.c (gh_q_mx, Q_TOUCH, QM_*) before this file; type aliases MO, PRM,
 * FUTM, MQ_T, WQM_T (+ MBQ_T, MPAIR_T, PRV, FUTV with CV_MODEL_MO_BQ); globals MO_LIVE, MO_DEAD, MO_DEAD_TAG.  Trusted base. */
#ifdef CV_MODEL_MO
#define MO_MOVE_CTOR _ZN7mo_itemC2EOS_
#define MO_DTOR      _ZN7mo_itemD2Ev
#define MO_VALUED(o) ((o).moved_cnt == 0 && (o).tag >= 0)
static void cv_mo_any(MO *o) { cv_i32 t = nondet_unsigned(); __CPROVER_assume(t >= 0); o->tag = t; o->moved_cnt = 0; }    /* an untracked element: carries SOME value */

/* ---------------------------------------------------------------------------------------------- promise<mo_item> */
struct cv_mo_state { MO deliv; unsigned n_deliv; unsigned src_was_moved; } gh_mo;     /* deliv: the value object constructed inside the future */
void _ZN5cocls7promiseI7mo_itemEC2EOS2_(PRM *this_, PRM *other) { PR_OWNER(this_) = PR_OWNER(other); PR_OWNER(other) = 0; }              /* promise(promise&&) */
void _ZN5cocls7promiseI7mo_itemEC2ERNS_6futureIS1_EE(PRM *this_, FUTM *f) { PR_OWNER(this_) = f; gh_pr.fresh = f; gh_pr.fresh_n++; }      /* promise(future&)   */
void _ZN5cocls7promiseI7mo_itemED2Ev(PRM *this_) { FUTM *f = PR_OWNER(this_); PR_OWNER(this_) = 0; if (f) cv_pr_log(f, PR_DROP, 0, 0); }   /* ~promise(): unresolved = broken promise */
/* promise<mo_item>::operator()(mo_item&&) */
void _ZN5cocls7promiseI7mo_itemEclIJS1_EEENS_13suspend_pointIbEEDpOT_(SPB *ret, PRM *this_, MO *v) {
  FUTM *f = PR_OWNER(this_); PR_OWNER(this_) = 0;
  if (f) { if (v->moved_cnt != 0) gh_mo.src_was_moved++;
    MO_MOVE_CTOR(&gh_mo.deliv, v);                          /* future::set: new(&_value) T(std::forward<Args>(args)...) */
    gh_mo.n_deliv++; cv_pr_log(f, PR_VALUE, gh_mo.deliv.tag, 0); }
  else gh_pr.lost++;                                        /* empty promise: the argument is not touched, the value goes nowhere */
  cv_pr_result(ret, f != 0, (void *)f == gh_pr.fresh); }
#define MO_STATE gh_mo, *MO_LIVE, *MO_DEAD, *MO_DEAD_TAG
#define MO_CLEAN (gh_mo.n_deliv == 0 && gh_mo.src_was_moved == 0 && *MO_LIVE < (1u << 30) && *MO_DEAD < (1u << 30))

/* ---------------------------------------------------------------------------------------------- MQ  std::queue<mo_item> */
cv_i64 gh_MK;
struct cv_mq_state { cv_i64 head, tail; MO trk; cv_i64 slot_pos; cv_i64 dropped_lo, dropped_hi; unsigned dtor_n, trk_drops, bad_in; } gh_mq;
MO mq_front_slot, mq_back_slot;
#define mq_head gh_mq.head
#define mq_tail gh_mq.tail
#define mq_trk  gh_mq.trk
#define mq_slot_pos gh_mq.slot_pos
#define MQ_LEN (mq_tail - mq_head)
#define MQ_INV (mq_head <= mq_tail && ((gh_MK >= mq_head && gh_MK < mq_tail) ==> MO_VALUED(mq_trk)))        /* queued items carry their value */
#define MQ_CLEAN (mq_slot_pos == QM_NOPOS && gh_mq.dtor_n == 0 && gh_mq.trk_drops == 0 && gh_mq.bad_in == 0)
/* a materialised front element that stays in the queue must still be what the queue holds at that position (not moved-from behind the queue's back) */
#define MQ_SYNC ((mq_slot_pos != QM_NOPOS) ==> (mq_slot_pos == mq_head && MO_VALUED(mq_front_slot) && (mq_head == gh_MK ==> mq_front_slot.tag == mq_trk.tag)))
#define MQ_STATE gh_mq, mq_front_slot, mq_back_slot
static void cv_mq_materialise(void) {
  if (mq_slot_pos != mq_head) { MO any; cv_mo_any(&any); if (mq_head == gh_MK) mq_front_slot = mq_trk; else mq_front_slot = any; mq_slot_pos = mq_head; } }
void _ZNSt5queueI7mo_itemSt5dequeIS0_SaIS0_EEEC2IS3_vEEv(MQ_T *d) { Q_TOUCH("std::queue<mo_item>()"); mq_head = mq_tail = 0; mq_slot_pos = QM_NOPOS; }
void _ZNSt5queueI7mo_itemSt5dequeIS0_SaIS0_EEED2Ev(MQ_T *d) { Q_TOUCH("std::queue<mo_item>::~queue");
  /* every remaining element is destroyed by its destructor: live - n; each of them that still carries its value is a dead valued instance */
  cv_i64 n = mq_tail - mq_head; unsigned valued = (unsigned)n;
  if (n > 0 && mq_slot_pos == mq_head && !MO_VALUED(mq_front_slot)) valued--;
  *MO_LIVE -= (unsigned)n; *MO_DEAD += valued; if (valued) { cv_i32 t = nondet_unsigned(); *MO_DEAD_TAG = (n == 1 && mq_head == gh_MK) ? mq_trk.tag : t; }
  gh_mq.dropped_lo = mq_head; gh_mq.dropped_hi = mq_tail; gh_mq.dtor_n++; if (gh_MK >= mq_head && gh_MK < mq_tail) gh_mq.trk_drops++; mq_slot_pos = QM_NOPOS; }
cv_i1 _ZNKSt5queueI7mo_itemSt5dequeIS0_SaIS0_EEE5emptyEv(MQ_T *d) { Q_TOUCH("std::queue<mo_item>::empty"); return mq_head == mq_tail ? 1 : 0; }
cv_i64 _ZNKSt5queueI7mo_itemSt5dequeIS0_SaIS0_EEE4sizeEv(MQ_T *d) { Q_TOUCH("std::queue<mo_item>::size"); return mq_tail - mq_head; }
MO *_ZNSt5queueI7mo_itemSt5dequeIS0_SaIS0_EEE5frontEv(MQ_T *d) { Q_TOUCH("std::queue<mo_item>::front");
  __CPROVER_assert(mq_head < mq_tail, "std::queue<mo_item>::front() on a non-empty queue");
  cv_mq_materialise(); return &mq_front_slot; }
void _ZNSt5queueI7mo_itemSt5dequeIS0_SaIS0_EEE3popEv(MQ_T *d) { Q_TOUCH("std::queue<mo_item>::pop");
  __CPROVER_assert(mq_head < mq_tail, "std::queue<mo_item>::pop() on a non-empty queue");
  cv_mq_materialise(); MO_DTOR(&mq_front_slot);             /* the element is destroyed (its destructor notices a value that dies with it) */
  mq_slot_pos = QM_NOPOS; QM_NOWRAP(mq_head); mq_head++; }
static MO *cv_mq_append(MO *v) {
  if (!MO_VALUED(*v)) gh_mq.bad_in++;                       /* a moved-from object is put into the queue */
  MO_MOVE_CTOR(&mq_back_slot, v);                           /* the new element is move-constructed from the argument */
  if (mq_tail == gh_MK) mq_trk = mq_back_slot;
  QM_NOWRAP(mq_tail); mq_tail++; return &mq_back_slot; }
MO *_ZNSt5queueI7mo_itemSt5dequeIS0_SaIS0_EEE7emplaceIJS0_EEEDcDpOT_(MQ_T *d, MO *v) { Q_TOUCH("std::queue<mo_item>::emplace"); return cv_mq_append(v); }
void _ZNSt5queueI7mo_itemSt5dequeIS0_SaIS0_EEE4pushEOS0_(MQ_T *d, MO *v) { Q_TOUCH("std::queue<mo_item>::push"); cv_mq_append(v); }

/* ---------------------------------------------------------------------------------------------- WQ  std::queue<promise<mo_item>> */
#ifndef WQ_LEN
cv_i64 gh_WK;
struct cv_wq_state { cv_i64 head, tail; void *trk; cv_i64 slot_pos; cv_i64 dropped_lo, dropped_hi; unsigned dtor_n, trk_drops; } gh_wq;
#define wq_head gh_wq.head
#define wq_tail gh_wq.tail
#define wq_trk  gh_wq.trk
#define wq_slot_pos   gh_wq.slot_pos
#define wq_dropped_lo gh_wq.dropped_lo
#define wq_dropped_hi gh_wq.dropped_hi
#define wq_dtor_n     gh_wq.dtor_n
#define wq_trk_drops  gh_wq.trk_drops
#define WQ_LEN (wq_tail - wq_head)
#define WQ_INV (wq_head <= wq_tail && ((gh_WK >= wq_head && gh_WK < wq_tail) ==> wq_trk != 0))
#define WQ_CLEAN (wq_slot_pos == QM_NOPOS && wq_dtor_n == 0 && wq_trk_drops == 0)
#define WQ_STATE gh_wq, wq_front_slot, wq_back_slot
static void *cv_wq_elem(cv_i64 pos) { void *any = nondet_ptr(); __CPROVER_assume(any != 0); return pos == gh_WK ? wq_trk : any; }
#endif
PRM wq_front_slot, wq_back_slot;
void _ZNSt5queueIN5cocls7promiseI7mo_itemEESt5dequeIS3_SaIS3_EEEC2IS6_vEEv(WQM_T *d) { Q_TOUCH("std::queue<promise>()"); wq_head = wq_tail = 0; wq_slot_pos = QM_NOPOS; }
void _ZNSt5queueIN5cocls7promiseI7mo_itemEESt5dequeIS3_SaIS3_EEED2Ev(WQM_T *d) { Q_TOUCH("std::queue<promise>::~queue");
  wq_dropped_lo = wq_head; wq_dropped_hi = wq_tail; wq_dtor_n++; if (gh_WK >= wq_head && gh_WK < wq_tail) wq_trk_drops++; }
cv_i1 _ZNKSt5queueIN5cocls7promiseI7mo_itemEESt5dequeIS3_SaIS3_EEE5emptyEv(WQM_T *d) { Q_TOUCH("std::queue<promise>::empty"); return wq_head == wq_tail ? 1 : 0; }
PRM *_ZNSt5queueIN5cocls7promiseI7mo_itemEESt5dequeIS3_SaIS3_EEE5frontEv(WQM_T *d) { Q_TOUCH("std::queue<promise>::front");
  __CPROVER_assert(wq_head < wq_tail, "std::queue<promise>::front() on a non-empty queue");
  if (wq_slot_pos != wq_head) { PR_OWNER(&wq_front_slot) = cv_wq_elem(wq_head); wq_slot_pos = wq_head; }
  return &wq_front_slot; }
void _ZNSt5queueIN5cocls7promiseI7mo_itemEESt5dequeIS3_SaIS3_EEE3popEv(WQM_T *d) { Q_TOUCH("std::queue<promise>::pop");
  __CPROVER_assert(wq_head < wq_tail, "std::queue<promise>::pop() on a non-empty queue");
  void *own = (wq_slot_pos == wq_head) ? (void *)PR_OWNER(&wq_front_slot) : cv_wq_elem(wq_head);
  if (own) cv_pr_log(own, PR_DROP, 0, 0);
  wq_slot_pos = QM_NOPOS; QM_NOWRAP(wq_head); wq_head++; }
PRM *_ZNSt5queueIN5cocls7promiseI7mo_itemEESt5dequeIS3_SaIS3_EEE7emplaceIJS3_EEEDcDpOT_(WQM_T *d, PRM *p) { Q_TOUCH("std::queue<promise>::emplace");
  void *own = PR_OWNER(p); PR_OWNER(p) = 0;
  if (wq_tail == gh_WK) { __CPROVER_assert(own != 0, "only a non-empty promise is parked (checked at the arbitrary tracked position)"); wq_trk = own; }
  PR_OWNER(&wq_back_slot) = own; QM_NOWRAP(wq_tail); wq_tail++; return &wq_back_slot; }

/* ---------------------------------------------------------------------------------------------- BQ  std::queue<std::pair<mo_item, promise<void>>> */
#ifdef CV_MODEL_MO_BQ
cv_i64 gh_BK;
struct cv_mbq_state { cv_i64 head, tail; MO trk_item; void *trk_id; cv_i64 slot_pos; cv_i64 dropped_lo, dropped_hi; unsigned dtor_n, trk_drops, bad_in; } gh_bq;
MPAIR_T bq_front_slot, bq_back_slot;
#define bq_head gh_bq.head
#define bq_tail gh_bq.tail
#define bq_trk_item gh_bq.trk_item
#define bq_trk_id   gh_bq.trk_id
#define bq_slot_pos   gh_bq.slot_pos
#define bq_dropped_lo gh_bq.dropped_lo
#define bq_dropped_hi gh_bq.dropped_hi
#define bq_dtor_n     gh_bq.dtor_n
#define bq_trk_drops  gh_bq.trk_drops
#define BQ_LEN (bq_tail - bq_head)
#define BQ_INV (bq_head <= bq_tail && ((gh_BK >= bq_head && gh_BK < bq_tail) ==> (bq_trk_id != 0 && MO_VALUED(bq_trk_item))))
#define BQ_CLEAN (bq_slot_pos == QM_NOPOS && bq_dtor_n == 0 && bq_trk_drops == 0 && gh_bq.bad_in == 0)
#define BQ_SYNC ((bq_slot_pos != QM_NOPOS) ==> (bq_slot_pos == bq_head && MO_VALUED(bq_front_slot.first) && PR_OWNER(&bq_front_slot.second) != 0))
#define BQ_STATE gh_bq, bq_front_slot, bq_back_slot
static void cv_bq_materialise(void) {
  if (bq_slot_pos != bq_head) { void *any = nondet_ptr(); __CPROVER_assume(any != 0); MO anyv; cv_mo_any(&anyv);
    if (bq_head == gh_BK) { bq_front_slot.first = bq_trk_item; PR_OWNER(&bq_front_slot.second) = bq_trk_id; }
    else { bq_front_slot.first = anyv; PR_OWNER(&bq_front_slot.second) = any; }
    bq_slot_pos = bq_head; } }
void _ZNSt5queueISt4pairI7mo_itemN5cocls7promiseIvEEESt5dequeIS5_SaIS5_EEEC2IS8_vEEv(MBQ_T *d) { Q_TOUCH("std::queue<pair<item,promise>>()"); bq_head = bq_tail = 0; bq_slot_pos = QM_NOPOS; }
void _ZNSt5queueISt4pairI7mo_itemN5cocls7promiseIvEEESt5dequeIS5_SaIS5_EEED2Ev(MBQ_T *d) { Q_TOUCH("std::queue<pair<item,promise>>::~queue");
  cv_i64 n = bq_tail - bq_head; unsigned valued = (unsigned)n;
  if (n > 0 && bq_slot_pos == bq_head && !MO_VALUED(bq_front_slot.first)) valued--;
  *MO_LIVE -= (unsigned)n; *MO_DEAD += valued; if (valued) { cv_i32 t = nondet_unsigned(); *MO_DEAD_TAG = (n == 1 && bq_head == gh_BK) ? bq_trk_item.tag : t; }
  bq_dropped_lo = bq_head; bq_dropped_hi = bq_tail; bq_dtor_n++; if (gh_BK >= bq_head && gh_BK < bq_tail) bq_trk_drops++; bq_slot_pos = QM_NOPOS; }
cv_i1 _ZNKSt5queueISt4pairI7mo_itemN5cocls7promiseIvEEESt5dequeIS5_SaIS5_EEE5emptyEv(MBQ_T *d) { Q_TOUCH("std::queue<pair<item,promise>>::empty"); return bq_head == bq_tail ? 1 : 0; }
MPAIR_T *_ZNSt5queueISt4pairI7mo_itemN5cocls7promiseIvEEESt5dequeIS5_SaIS5_EEE5frontEv(MBQ_T *d) { Q_TOUCH("std::queue<pair<item,promise>>::front");
  __CPROVER_assert(bq_head < bq_tail, "std::queue<pair<item,promise>>::front() on a non-empty queue");
  cv_bq_materialise(); return &bq_front_slot; }
void _ZNSt5queueISt4pairI7mo_itemN5cocls7promiseIvEEESt5dequeIS5_SaIS5_EEE3popEv(MBQ_T *d) { Q_TOUCH("std::queue<pair<item,promise>>::pop");
  __CPROVER_assert(bq_head < bq_tail, "std::queue<pair<item,promise>>::pop() on a non-empty queue");
  cv_bq_materialise();
  void *own = (void *)PR_OWNER(&bq_front_slot.second); PR_OWNER(&bq_front_slot.second) = 0;
  if (own) cv_pr_log(own, PR_DROP, 0, 0);          /* the element is destroyed: still owning its future = broken promise */
  MO_DTOR(&bq_front_slot.first);                   /* ... and its item with it */
  bq_slot_pos = QM_NOPOS; QM_NOWRAP(bq_head); bq_head++; }
void _ZNSt5queueISt4pairI7mo_itemN5cocls7promiseIvEEESt5dequeIS5_SaIS5_EEE4pushEOS5_(MBQ_T *d, MPAIR_T *p) { Q_TOUCH("std::queue<pair<item,promise>>::push");
  void *own = PR_OWNER(&p->second); PR_OWNER(&p->second) = 0;
  if (!MO_VALUED(p->first)) gh_bq.bad_in++;
  MO_MOVE_CTOR(&bq_back_slot.first, &p->first);    /* pair(pair&&): the item is move-constructed, the promise is moved */
  if (bq_tail == gh_BK) { __CPROVER_assert(own != 0, "only a non-empty promise is parked (checked at the arbitrary tracked position)"); bq_trk_item = bq_back_slot.first; bq_trk_id = own; }
  QM_NOWRAP(bq_tail); bq_tail++; }
#endif
#endif
