/* model_pubsub_dpos.c - extension of lib/model_pubsub.c (include it AFTER model_pubsub.c): the std::deque<int> model additionally
 * records WHICH element the reference handed out by operator[] belongs to.
 *
 *   gh_dq_ref_id = absolute id (dq_front - i) of the element most recently referenced through operator[](i).
 *
 * Under the unit invariant of C16 (ids are stream positions: dq_front == _pos-1) this is the STREAM POSITION of the value a
 * subscriber is handed - the quantity the property "the skipping modes only ever move forward (strictly increasing positions)"
 * speaks about.  Nothing of the model's behaviour changes: the translated code's calls of operator[] are routed through a wrapper
 * that calls the model function of model_pubsub.c (same obligations, same result) and then notes the id.  Trusted base of C16. */
cv_i64 gh_dq_ref_id;
#define DQ_REF_NONE (~0ul)                         /* "no element referenced" (units reset the ghost to this before an operation) */
cv_i32 *ps_dq_index_noting_id(DQI *d, cv_i64 i) {
  cv_i32 *r = _ZNSt5dequeIiSaIiEEixEm(d, i);      /* lib/model_pubsub.c: lock discipline, index in range, value of the tracked id */
  gh_dq_ref_id = dq_front - i;
  return r; }
#define _ZNSt5dequeIiSaIiEEixEm ps_dq_index_noting_id  /* from here on (specs, translated bodies) every call goes through the wrapper */
#undef DQ_MODEL_ASSIGNS
#define DQ_MODEL_ASSIGNS dq_front, dq_len, dq_trk, dq_slot, gh_dq_ref_id
