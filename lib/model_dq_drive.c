/* model_dq_drive.c - std::deque<std::coroutine_handle<>> (the per-thread ready queue of coro_queue.h) for the BOUNDED DRIVES of
 * C13 / C14 (DESIGN 3.8): a concrete FIFO ring of DQD_N slots (model bound, asserted).  Unlike lib/model_coro.c there is NO resume
 * primitive here: coroutine_handle<>::resume() stays the translated indirect call through frame slot 0 into the really lowered
 * .resume function.  Assumed contract on a dependency (std::deque is a FIFO; front/back/pop on a non-empty deque are obligations
 * on the cocls code).  Requires the type aliases DQCH (the deque class) and CH (coroutine_handle<void>).  Trusted base. */
#ifndef DQD_N
#define DQD_N 4
#endif
static cv_i8 *dqd_buf[DQD_N]; static unsigned dqd_head, dqd_tail;    /* absolute positions, slot = pos % N */
unsigned gh_dq_pushes, gh_dq_pops;
void _ZNSt5dequeINSt7__n486116coroutine_handleIvEESaIS2_EEC2Ev(DQCH *d) { dqd_head = dqd_tail = 0; }
void _ZNSt5dequeINSt7__n486116coroutine_handleIvEESaIS2_EED2Ev(DQCH *d) { }
cv_i1 _ZNKSt5dequeINSt7__n486116coroutine_handleIvEESaIS2_EE5emptyEv(DQCH *d) { return dqd_head == dqd_tail ? 1 : 0; }
cv_i64 _ZNKSt5dequeINSt7__n486116coroutine_handleIvEESaIS2_EE4sizeEv(DQCH *d) { return dqd_tail - dqd_head; }
CH *_ZNSt5dequeINSt7__n486116coroutine_handleIvEESaIS2_EE5frontEv(DQCH *d) {
  __CPROVER_assert(dqd_head < dqd_tail, "std::deque::front() on a non-empty deque"); return (CH *)&dqd_buf[dqd_head % DQD_N]; }
CH *_ZNSt5dequeINSt7__n486116coroutine_handleIvEESaIS2_EE4backEv(DQCH *d) {
  __CPROVER_assert(dqd_head < dqd_tail, "std::deque::back() on a non-empty deque"); return (CH *)&dqd_buf[(dqd_tail - 1) % DQD_N]; }
void _ZNSt5dequeINSt7__n486116coroutine_handleIvEESaIS2_EE9pop_frontEv(DQCH *d) {
  __CPROVER_assert(dqd_head < dqd_tail, "std::deque::pop_front() on a non-empty deque"); dqd_head++; gh_dq_pops++; }
void _ZNSt5dequeINSt7__n486116coroutine_handleIvEESaIS2_EE8pop_backEv(DQCH *d) {
  __CPROVER_assert(dqd_head < dqd_tail, "std::deque::pop_back() on a non-empty deque"); dqd_tail--; }
void _ZNSt5dequeINSt7__n486116coroutine_handleIvEESaIS2_EE9push_backERKS2_(DQCH *d, CH *h) {
  __CPROVER_assert(dqd_tail - dqd_head < DQD_N, "model bound: ready queue longer than DQD_N");
  dqd_buf[dqd_tail % DQD_N] = h->_M_fr_ptr; dqd_tail++; gh_dq_pushes++; }
void _ZNSt5dequeINSt7__n486116coroutine_handleIvEESaIS2_EE9push_backEOS2_(DQCH *d, CH *h) {
  _ZNSt5dequeINSt7__n486116coroutine_handleIvEESaIS2_EE9push_backERKS2_(d, h); }
