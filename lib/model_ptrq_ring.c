/* model_ptrq_ring.c - assumed contract on std::queue<T*> (std::deque inside) for the BOUNDED DRIVE of generator_aggregator (C14):
 * a concrete FIFO ring of PQ_N pointers (model bound, asserted); front()/pop() on a non-empty queue are obligations on the cocls code.
 * One queue object per drive (one aggregator), so the state is global.  Lock discipline of cocls::queue (every access under _mx) is
 * checked when lib/model_mutex.c is linked before this file: gh_lock_depth > 0 at every access except construction / destruction.
 * Instantiate with CV_PTRQ(T) under the unit's aliases pq_ctor, pq_dtor, pq_empty, pq_front, pq_pop, pq_emplace, pq_size.  Trusted base. */
#ifndef PQ_N
#define PQ_N 4
#endif
static void *pq_buf[PQ_N]; static unsigned pq_head, pq_tail;
unsigned gh_pq_pushes, gh_pq_pops;
#ifdef LOCKED
#define PQ_TOUCH(what) __CPROVER_assert(gh_lock_depth > 0, what ": the item queue of cocls::queue is accessed with its mutex held")
#else
#define PQ_TOUCH(what)
#endif
#define CV_PTRQ_CTOR(fn, QT)        void fn(QT *q) { pq_head = pq_tail = 0; }
#define CV_PTRQ_DTOR(fn, QT)        void fn(QT *q) { }
#define CV_PTRQ_EMPTY(fn, QT)       cv_i1 fn(QT *q) { PQ_TOUCH("empty()"); return pq_head == pq_tail ? 1 : 0; }
#define CV_PTRQ_SIZE(fn, QT)        cv_i64 fn(QT *q) { PQ_TOUCH("size()"); return pq_tail - pq_head; }
#define CV_PTRQ_FRONT(fn, QT, T)    T **fn(QT *q) { PQ_TOUCH("front()"); __CPROVER_assert(pq_head < pq_tail, "std::queue::front() on a non-empty queue"); return (T **)&pq_buf[pq_head % PQ_N]; }
#define CV_PTRQ_POP(fn, QT)         void fn(QT *q) { PQ_TOUCH("pop()"); __CPROVER_assert(pq_head < pq_tail, "std::queue::pop() on a non-empty queue"); pq_head++; gh_pq_pops++; }
#define CV_PTRQ_EMPLACE(fn, QT, T)  T **fn(QT *q, T **v) { PQ_TOUCH("emplace()"); __CPROVER_assert(pq_tail - pq_head < PQ_N, "model bound: queue longer than PQ_N"); \
    void **s = &pq_buf[pq_tail % PQ_N]; *s = *v; pq_tail++; gh_pq_pushes++; return (T **)s; }
