/* rt_atomic_protF.c - atomic instruction primitives for the thread-modular units of protocol F
 * (future slot + promise owner cell; DESIGN.md 3.3, 3.5, 5/C01-C03).   Trusted base.
 *
 * Every atomic instruction of the translated code arrives here with its operands and the memory orders of the IR.
 * For the two registered locations a primitive does, in this order:
 *   1. environment step (rely): whatever the other threads may do to the two cells under the protocol;
 *   2. the operation itself on the value present at that instant (a weak CAS may also fail spuriously);
 *   3. guarantee check: the transition is one this thread may make with the tokens it holds (assertions = obligations);
 *   4. visibility bookkeeping of the C++ release/acquire fragment (token sets: V_PAYLOAD, V_NODE);
 *   5. ownership bookkeeping of this thread's awaiter node.
 * All other atomic locations get sequential semantics.
 *
 * Protocol F.  cell (promise::_owner): NULL or the future; the right to resolve (token) is IN the cell while it is non-NULL
 * and moves to whoever exchanges it out.  slot (future::_awaiter): INSTANCE = initialised, no promise yet; DISABLED = ready
 * (final); anything else = LIFO chain of waiting awaiters (NULL = empty chain).
 * Invariants: I1 cell != NULL <=> gh_tok == TOK_CELL;  I2 slot == DISABLED => token spent;  I4 DISABLED is final.
 * Rely: others may push nodes while slot is a chain; may exchange the token out of a shared cell; a token holder may write the
 * payload and then swing the slot to DISABLED with release order (its own unit checks that). */
enum { TOK_NONE = 0, TOK_CELL = 1, TOK_ME = 2, TOK_OTHER = 3, TOK_SPENT = 4 };
enum { OWN_NONE = 0, OWN_ME = 1, OWN_CHAIN = 2, OWN_RESOLVER = 3 };
#define V_PAYLOAD 1u      /* state tag + value/exception of the registered future           */
#define V_NODE    2u      /* plain fields of this thread's awaiter node (_next, handle, fn) */
void **gh_F_slot;         /* &fut->_awaiter of the registered future (0: none); cells are accessed as pointer-typed memory */
void **gh_P_cell;         /* &prom->_owner of the registered promise (0: none)              */
void *gh_F_fut;           /* the value a non-NULL cell holds (the future's address)         */
void *gh_INSTANCE, *gh_DISABLED;   /* &awaiter::instance, &awaiter::disabled                */
int gh_tok;               /* where the right to resolve is                                  */
int gh_cell_excl;         /* 1: no other thread can reach the registered promise object     */
int gh_slot_excl;         /* 1: no other thread can reach the registered future yet/anymore */
void *gh_my_node; int gh_node_own;
unsigned gh_view, gh_pending_acq, gh_rel_slot;
void *gh_seen;            /* value observed at this thread's last linearisation point on the slot */
int gh_resolved_by_me;    /* this thread swung the slot to DISABLED                          */
cv_i32 gh_state_at_resolve, gh_value_at_resolve; void *gh_exc_at_resolve; void *gh_chain_at_resolve;
int gh_n_slot_rmw;        /* number of successful RMWs by this thread on the slot            */
unsigned gh_env_claims;   /* number of times another thread took the token out of the cell  */
/* snapshot of my node's plain fields at the instant it is published (unit hook) */
void *gh_push_handle, *gh_push_fn, *gh_push_next;
#ifndef CV_F_NODE_SNAPSHOT
#define CV_F_NODE_SNAPSHOT(n)
#endif
#ifndef CV_F_STATE_AT
#define CV_F_STATE_AT(slot) 0
#define CV_F_VALUE_AT(slot) 0
#define CV_F_EXC_AT(slot) ((void *)0)
#endif
/* memory-order obligations belong to property C03: they are compiled in only for the C03 run of the same units */
#ifdef CV_CHECK_C03
#define C03_ASSERT(c, msg) __CPROVER_assert(c, msg)
#else
#define C03_ASSERT(c, msg)
#endif
/* every ghost the primitives may write (for assigns clauses) */
#define PROTF_GHOSTS gh_push_handle, gh_push_fn, gh_push_next, gh_my_node, gh_tok, gh_view, gh_pending_acq, gh_rel_slot, gh_seen, gh_resolved_by_me, gh_state_at_resolve, gh_value_at_resolve, gh_exc_at_resolve, gh_chain_at_resolve, gh_n_slot_rmw, gh_node_own, gh_env_claims
#define HAS_REL(o) ((o) == 3 || (o) == 4 || (o) == 5)
#define HAS_ACQ(o) ((o) == 1 || (o) == 2 || (o) == 4 || (o) == 5)
#define F_DIS (gh_DISABLED)
#define F_INS (gh_INSTANCE)
/* protocol state is well formed (to be pinned by every contract that uses these primitives) */
#define PROTF_WF (gh_INSTANCE != 0 && gh_DISABLED != 0 && gh_INSTANCE != gh_DISABLED && \
   (gh_P_cell == 0 || ((*gh_P_cell != 0) == (gh_tok == TOK_CELL) && (*gh_P_cell == 0 || *gh_P_cell == gh_F_fut))) && \
   (gh_F_slot == 0 || ((*gh_F_slot == F_DIS) ==> (gh_tok == TOK_SPENT || gh_tok == TOK_NONE))) && \
   (gh_F_slot == 0 || ((*gh_F_slot == F_INS) ==> gh_tok == TOK_NONE)))

static void vis_store(unsigned *rel, int o, int is_rmw) { if (HAS_REL(o)) *rel |= gh_view; else if (!is_rmw) *rel = 0; }
static void vis_load(unsigned rel, int o) { if (HAS_ACQ(o)) gh_view |= rel; else gh_pending_acq |= rel; }

/* ---- rely: one environment step on both cells */
static void protF_env(void) {
  if (gh_P_cell != 0 && !gh_cell_excl && gh_tok == TOK_CELL && nondet_bool()) { *gh_P_cell = 0; gh_tok = TOK_OTHER; gh_env_claims++; }   /* another caller claimed */
  if (gh_F_slot != 0 && !gh_slot_excl) {
    void *cur = *gh_F_slot;
    if (cur != F_DIS && cur != F_INS) {
      if (nondet_bool()) {                                   /* others subscribed: a new opaque head */
        void *h = nondet_ptr(); __CPROVER_assume(h != F_DIS && h != F_INS && h != 0 && h != gh_my_node);
        *gh_F_slot = h; }
      if (gh_tok == TOK_OTHER && nondet_bool()) {            /* the other winner resolved (payload released by its guarantee) */
        *gh_F_slot = F_DIS; gh_tok = TOK_SPENT; gh_rel_slot |= V_PAYLOAD;
        if (gh_node_own == OWN_CHAIN) gh_node_own = OWN_RESOLVER; }
    }
  }
}

cv_i64 cv_atomic_load_i64(cv_i64 *p, int ord) {
  if ((void **)p == gh_P_cell) { protF_env(); return (cv_i64)*gh_P_cell; }
  if ((void **)p == gh_F_slot) {
    protF_env();
    void *v = *gh_F_slot;
    if (!gh_slot_excl && v != F_INS && nondet_bool()) {      /* a non-RMW load may be stale: any earlier chain value */
      void *s = nondet_ptr(); __CPROVER_assume(s != F_DIS && s != F_INS); v = s; }
    if (v == F_DIS) vis_load(gh_rel_slot, ord);
    return (cv_i64)v; }
  return *p; }

void cv_atomic_store_i64(cv_i64 *p, cv_i64 v, int ord) {
  if ((void **)p == gh_P_cell) {
    protF_env();
    __CPROVER_assert(gh_cell_excl, "protocol F: plain atomic store to a promise owner cell other threads can reach (the right to resolve must move by an atomic exchange)");
    if (*gh_P_cell != 0 && v == 0) gh_tok = TOK_ME;          /* exclusive owner empties the cell: it holds the token now */
    if (v != 0) { __CPROVER_assert(gh_tok == TOK_ME || (gh_tok == TOK_CELL && *gh_P_cell != 0), "protocol F: arming a promise cell without holding the right to resolve"); gh_tok = TOK_CELL; }
    *gh_P_cell = (void *)v; return; }
  if ((void **)p == gh_F_slot) {
    protF_env();
    __CPROVER_assert(gh_slot_excl, "protocol F: plain atomic store to a future slot other threads can reach");
    *gh_F_slot = (void *)v; return; }
  *p = v; }

cv_i64 cv_atomic_xchg_i64(cv_i64 *p, cv_i64 v, int ord) {
  if ((void **)p == gh_P_cell) {
    protF_env();
    void *old = *gh_P_cell;
    __CPROVER_assert(v == 0 || gh_cell_excl, "protocol F: exchanging a non-null value into a shared promise cell");
    if (old != 0) gh_tok = TOK_ME;                           /* the token leaves the cell with the exchanger */
    if (v != 0) gh_tok = TOK_CELL;
    *gh_P_cell = (void *)v; return (cv_i64)old; }
  if ((void **)p == gh_F_slot) {
    protF_env();
    void *old = *gh_F_slot; void *vp = (void *)v;
    if (vp == F_DIS) {
      __CPROVER_assert(old != F_DIS, "protocol F: slot swung to the ready marker twice (resolved twice)");
      __CPROVER_assert(gh_tok == TOK_ME || (gh_tok == TOK_CELL && gh_cell_excl), "protocol F: only the holder of the right to resolve may mark the future ready");
      C03_ASSERT(HAS_REL(ord), "C03: the exchange that marks the future ready must have release semantics (payload written before is otherwise never published)");
      C03_ASSERT(HAS_ACQ(ord), "C03: the exchange that detaches the waiters must have acquire semantics (their node fields were published by release CAS)");
      gh_state_at_resolve = CV_F_STATE_AT(p); gh_value_at_resolve = CV_F_VALUE_AT(p); gh_exc_at_resolve = CV_F_EXC_AT(p);
      gh_chain_at_resolve = old;      /* may be INSTANCE (resolved before anybody subscribed): a harmless node with an empty function */
      gh_tok = TOK_SPENT; gh_resolved_by_me = 1; gh_view |= V_PAYLOAD;
      if (gh_node_own == OWN_CHAIN) gh_node_own = OWN_RESOLVER;
    } else {
      __CPROVER_assert(old != F_DIS || gh_slot_excl, "protocol F: the ready marker is final");
      if (old == F_INS && vp == 0) { /* get_promise(): INSTANCE -> empty chain; the caller creates the token */ gh_tok = TOK_ME; }
    }
    vis_store(&gh_rel_slot, ord, 1); vis_load(gh_rel_slot, ord);
    gh_seen = old; gh_n_slot_rmw++;
    *gh_F_slot = vp; return (cv_i64)old; }
  cv_i64 old = *p; *p = v; return old; }

cv_i1 cv_cmpxchg_i64(cv_i64 *p, cv_i64 *expected, cv_i64 desired, int weak, int so, int fo) {
  if ((void **)p == gh_F_slot) {
    protF_env();
    void *cur = *gh_F_slot;
    if (cur == (void *)*expected && !(weak && nondet_bool())) {
      __CPROVER_assert(cur != F_DIS, "protocol F: subscription pushed onto the ready marker (the marker is final)");
      if (gh_my_node == 0) { gh_my_node = (void *)desired; gh_node_own = OWN_ME; }      /* a node created inside the function under verification (e.g. the sync_awaiter of sync()) */
      __CPROVER_assert((void *)desired == gh_my_node && gh_node_own == OWN_ME, "protocol F: a thread may only push an awaiter node it owns (and only once)");
      C03_ASSERT(HAS_REL(so), "C03: the subscribing CAS must have release semantics (publishes the node's fields)");
      vis_store(&gh_rel_slot, so, 1); vis_load(gh_rel_slot, so);
      CV_F_NODE_SNAPSHOT(desired);
      gh_node_own = OWN_CHAIN; gh_seen = cur; gh_n_slot_rmw++;
      *gh_F_slot = (void *)desired; return 1; }
    vis_load(gh_rel_slot, fo);
    *expected = (cv_i64)cur; return 0; }
  if ((void **)p == gh_P_cell) {
    __CPROVER_assert(0, "protocol F: compare-exchange on the promise owner cell is not part of the protocol"); }
  cv_i64 old = *p;
  if (old == *expected && !(weak && nondet_bool())) { *p = desired; return 1; }
  *expected = old; return 0; }

void cv_fence(int ord) { if (HAS_ACQ(ord)) gh_view |= gh_pending_acq; }

cv_i64 cv_atomic_add_i64(cv_i64 *p, cv_i64 v, int ord) { cv_i64 o = *p; *p = o + v; return o; }
cv_i64 cv_atomic_sub_i64(cv_i64 *p, cv_i64 v, int ord) { cv_i64 o = *p; *p = o - v; return o; }
cv_i64 cv_atomic_or_i64(cv_i64 *p, cv_i64 v, int ord) { cv_i64 o = *p; *p = o | v; return o; }
cv_i64 cv_atomic_and_i64(cv_i64 *p, cv_i64 v, int ord) { cv_i64 o = *p; *p = o & v; return o; }
/* other widths: sequential */
#define CV_DEF_ATOMIC_SEQ(sfx, T) \
  T cv_atomic_load_##sfx(T *p, int ord) { return *p; } \
  void cv_atomic_store_##sfx(T *p, T v, int ord) { *p = v; } \
  cv_i1 cv_cmpxchg_##sfx(T *p, T *expected, T desired, int weak, int so, int fo) { \
    T old = *p; if (old == *expected && !(weak && nondet_bool())) { *p = desired; return 1; } *expected = old; return 0; } \
  T cv_atomic_xchg_##sfx(T *p, T v, int ord) { T old = *p; *p = v; return old; } \
  T cv_atomic_add_##sfx(T *p, T v, int ord) { T old = *p; *p = old + v; return old; } \
  T cv_atomic_sub_##sfx(T *p, T v, int ord) { T old = *p; *p = old - v; return old; } \
  T cv_atomic_or_##sfx(T *p, T v, int ord) { T old = *p; *p = old | v; return old; } \
  T cv_atomic_and_##sfx(T *p, T v, int ord) { T old = *p; *p = old & v; return old; }
/* a registered wake-up flag (sync_awaiter::flag): the setter must release, the waiter acquires (C03) */
cv_i8 *gh_W_flag;
cv_i8 cv_atomic_load_i8(cv_i8 *p, int ord) { return *p; }
void cv_atomic_store_i8(cv_i8 *p, cv_i8 v, int ord) {
  if (p == gh_W_flag) { C03_ASSERT(HAS_REL(ord), "C03: the store that wakes a blocked waiter must have release semantics (it carries the result to the waiting thread)"); }
  *p = v; }
cv_i1 cv_cmpxchg_i8(cv_i8 *p, cv_i8 *expected, cv_i8 desired, int weak, int so, int fo) {
  cv_i8 old = *p; if (old == *expected && !(weak && nondet_bool())) { *p = desired; return 1; } *expected = old; return 0; }
cv_i8 cv_atomic_xchg_i8(cv_i8 *p, cv_i8 v, int ord) { cv_i8 old = *p; *p = v; return old; }
cv_i8 cv_atomic_add_i8(cv_i8 *p, cv_i8 v, int ord) { cv_i8 old = *p; *p = old + v; return old; }
cv_i8 cv_atomic_sub_i8(cv_i8 *p, cv_i8 v, int ord) { cv_i8 old = *p; *p = old - v; return old; }
cv_i8 cv_atomic_or_i8(cv_i8 *p, cv_i8 v, int ord) { cv_i8 old = *p; *p = old | v; return old; }
cv_i8 cv_atomic_and_i8(cv_i8 *p, cv_i8 v, int ord) { cv_i8 old = *p; *p = old & v; return old; }
CV_DEF_ATOMIC_SEQ(i32, cv_i32)
