/* model_vec_heap.c - assumed contracts on dependencies of cocls::scheduler (C12):
 *
 *   std::vector<scheduler::SchItem>  +  std::push_heap / std::pop_heap / std::find_if instantiated on it.
 *
 * libstdc++ internals are never translated.  Abstract state: size vm.n (arbitrary, unbounded), vm.heap_len = length of the prefix that
 * is a heap w.r.t. the scheduler's comparator, and an ELEMENT VIEW in slots of the REAL element type (ITEM = scheduler::SchItem as laid
 * out by clang: _tp, _p, _ident):
 *     vm.top   the element at position 0                                   (meaningful iff n > 0)
 *     tracked  an arbitrary-but-fixed ELEMENT of the vector: vm.tin = still inside, vm.tpos = its current position; its content lives in
 *              vm.trk unless the position coincides with a materialised one (VEC_T).  The heap algorithms move it to SOME position of
 *              the result - nothing else is known about where.  What is proved for this element holds for every element ("for all
 *              entries" without a quantifier; every element of a result vector is an element of the argument vector, or the pushed one).
 *     vm.back  the element at position n-1 while vm.bk (between push_back and push_heap, between pop_heap and pop_back)
 *     vm.nw    the element push_heap has just placed, at position vm.lastpos (VEC_NW), while vm.nwin
 *   Any other position is unknown: looking at it yields an arbitrary element.
 *
 *   pop_heap(first,last,comp)  : moves the first element to the back; it is an element e such that comp(e,x) is false for every remaining
 *                                x (evaluated with the REAL translated comparator VEC_COMPARE, at the new first and at the tracked element);
 *                                the new first element is again such an element.
 *   push_heap(first,last,comp) : the last element lands somewhere (vm.lastpos); the first element stays unless the new one becomes first;
 *                                afterwards comp(first element, x) is false for every x (supplied at the tracked and the new element).
 *   find_if(first,last,pred)   : first position whose element satisfies the REAL translated predicate (VEC_FIND_PRED), or last
 *                                ("no earlier element satisfies it" supplied at the first and at the tracked element).
 *
 * Preconditions of the real containers/algorithms are OBLIGATIONS on the cocls code (__CPROVER_assert): operator[] in range,
 * front/back/pop_back on a non-empty vector, heap algorithms on the whole vector, [first,last-1) / [first,last) being a heap built with
 * the same comparator.  Each assert is followed by an assume of the same fact so that one defect yields one failed obligation.
 * begin()/end() are opaque tokens (one-past pointers: dereferencing them fails CBMC's pointer checks); iterating the vector by pointer
 * arithmetic is not supported by this model (scheduler.h does not do it).
 *
 * Required from the including spec (before #include): types ITEM (element) and VECT (the vector class); macros
 *   VEC_GUARD(v)            obligation checked on every access (lock discipline), may be empty
 *   VEC_COMPARE(a,b)        the real translated comparator          VEC_IS_COMPARATOR(fp)  fp is that comparator
 *   VEC_ITEM_MOVE(dst,src)  the real translated SchItem(SchItem&&)  VEC_ITEM_DTOR(x)       the real translated ~SchItem()
 *   VEC_FIND_PRED(cl,x)     the real translated predicate of find_if (only if CV_HAS_vec_find_if)
 * Trusted base. */
#ifndef VEC_MAX_N
#define VEC_MAX_N (1UL << 62)             /* arithmetic bound on size() (the size counter never wraps) */
#endif
struct vec_model {
  cv_i64 n, heap_len;
  ITEM top;
  cv_i1 tin; cv_i64 tpos; ITEM trk;
  cv_i1 bk; ITEM back;
  cv_i1 nwin; cv_i64 lastpos; ITEM nw;
  ITEM scr;                               /* scratch: an unknown position that is being looked at */
} vm;
#define vec_n vm.n
#define vec_heap_len vm.heap_len
#define vec_tin vm.tin
#define vec_tpos vm.tpos
#define vec_lastpos vm.lastpos
unsigned gh_vec_dtor;                     /* number of ~vector() calls */
static char vec_tok_b[1], vec_tok_e[1];
#define VEC_BEGIN ((ITEM *)(vec_tok_b + 1))
#define VEC_END   ((ITEM *)(vec_tok_e + 1))
#define VEC_TOP   (&vm.top)                                                                             /* element 0              */
#define VEC_T     (vm.tpos == 0 ? &vm.top : (vm.bk && vm.tpos == vm.n - 1) ? &vm.back : &vm.trk)        /* the tracked element    */
#define VEC_NW    (vm.lastpos == 0 ? &vm.top : &vm.nw)                                                  /* the element just placed by push_heap */
#define VEC_MODEL_ASSIGNS __CPROVER_object_whole(&vm)
#define VEC_ASSERT(c, msg) do { __CPROVER_assert(c, msg); __CPROVER_assume(c); } while (0)

static ITEM *vec_unknown(void) { ITEM fresh; vm.scr = fresh; return &vm.scr; }
static ITEM *vec_at(cv_i64 i) {
  if (i == 0) return &vm.top;
  if (vm.tin && i == vm.tpos) return VEC_T;
  if (vm.bk && i == vm.n - 1) return &vm.back;
  if (vm.nwin && i == vm.lastpos) return &vm.nw;
  return vec_unknown(); }

void _ZNSt6vectorIN5cocls9scheduler7SchItemESaIS2_EEC2Ev(VECT *v) { vm.n = 0; vm.heap_len = 0; vm.tin = 0; vm.bk = 0; vm.nwin = 0; }
#ifdef VEC_ITEM_DTOR
void _ZNSt6vectorIN5cocls9scheduler7SchItemESaIS2_EED2Ev(VECT *v) {
  /* destroys every element: executed on the arbitrary tracked element (what holds for it holds for all) */
  if (vm.tin) { VEC_ITEM_DTOR(VEC_T); vm.tin = 0; }
  vm.n = 0; vm.heap_len = 0; vm.bk = 0; vm.nwin = 0; gh_vec_dtor++; }
#endif
cv_i1 _ZNKSt6vectorIN5cocls9scheduler7SchItemESaIS2_EE5emptyEv(VECT *v) { VEC_GUARD(v); return vm.n == 0 ? 1 : 0; }
cv_i64 _ZNKSt6vectorIN5cocls9scheduler7SchItemESaIS2_EE4sizeEv(VECT *v) { VEC_GUARD(v); return vm.n; }
ITEM *_ZNSt6vectorIN5cocls9scheduler7SchItemESaIS2_EEixEm(VECT *v, cv_i64 i) {
  VEC_GUARD(v);
  VEC_ASSERT(i < vm.n, "std::vector<SchItem>::operator[]: index within size()");
  return vec_at(i); }
ITEM *_ZNSt6vectorIN5cocls9scheduler7SchItemESaIS2_EE5frontEv(VECT *v) {
  VEC_GUARD(v);
  VEC_ASSERT(vm.n > 0, "std::vector<SchItem>::front() on a non-empty vector");
  return &vm.top; }
ITEM *_ZNSt6vectorIN5cocls9scheduler7SchItemESaIS2_EE4backEv(VECT *v) {
  VEC_GUARD(v);
  VEC_ASSERT(vm.n > 0, "std::vector<SchItem>::back() on a non-empty vector");
  return vec_at(vm.n - 1); }
ITEM *_ZNSt6vectorIN5cocls9scheduler7SchItemESaIS2_EE5beginEv(VECT *v) { VEC_GUARD(v); return vm.n == 0 ? VEC_END : VEC_BEGIN; }
ITEM *_ZNSt6vectorIN5cocls9scheduler7SchItemESaIS2_EE3endEv(VECT *v) { VEC_GUARD(v); return VEC_END; }
#define VEC_WHOLE(first, last) ((last) == VEC_END && (first) == (vm.n == 0 ? VEC_END : VEC_BEGIN))
#ifdef VEC_ITEM_MOVE
void _ZNSt6vectorIN5cocls9scheduler7SchItemESaIS2_EE9push_backEOS2_(VECT *v, ITEM *x) {
  VEC_GUARD(v);
  VEC_ASSERT(vm.n < VEC_MAX_N, "arithmetic bound on the number of scheduled entries");
  VEC_ASSERT(!__CPROVER_same_object(x, &vm), "push_back of an element of the vector itself");
  VEC_ASSERT(!vm.bk, "model bound: at most one element is appended behind the heap prefix at a time");
  vm.nwin = 0;
  if (vm.n == 0) VEC_ITEM_MOVE(&vm.top, x);         /* the real SchItem(SchItem&&): time point and ident copied, promise moved */
  else { VEC_ITEM_MOVE(&vm.back, x); vm.bk = 1; }
  vm.n++; }
#endif
#ifdef VEC_ITEM_DTOR
void _ZNSt6vectorIN5cocls9scheduler7SchItemESaIS2_EE8pop_backEv(VECT *v) {
  VEC_GUARD(v);
  VEC_ASSERT(vm.n > 0, "std::vector<SchItem>::pop_back() on a non-empty vector");
  VEC_ITEM_DTOR(vec_at(vm.n - 1));          /* the real ~SchItem(): a promise that is still live is dropped here */
  if (vm.tin && vm.tpos == vm.n - 1) vm.tin = 0;
  if (vm.nwin && vm.lastpos == vm.n - 1) vm.nwin = 0;
  vm.bk = 0; vm.n--;
  if (vm.heap_len > vm.n) vm.heap_len = vm.n; }
#endif

#ifdef VEC_COMPARE
/* std::pop_heap(first, last, comp) */
void _ZSt8pop_heapIN9__gnu_cxx17__normal_iteratorIPN5cocls9scheduler7SchItemESt6vectorIS4_SaIS4_EEEEPFbRKS4_SB_EEvT_SE_T0_(ITEM *first, ITEM *last, cv_i1 (*comp)(ITEM *, ITEM *)) {
  VEC_GUARD((VECT *)0);
  VEC_ASSERT(VEC_WHOLE(first, last), "std::pop_heap: applied to the whole vector [begin(), end())");
  VEC_ASSERT(vm.n > 0, "std::pop_heap: non-empty range");
  VEC_ASSERT(vm.heap_len == vm.n && !vm.bk, "std::pop_heap: [first,last) is a heap");
  VEC_ASSERT(VEC_IS_COMPARATOR(comp), "std::pop_heap: same comparator as the heap was built with");
  vm.nwin = 0;
  if (vm.n > 1) {
    cv_i1 t_was_top = vm.tin && vm.tpos == 0;
    vm.back = vm.top; vm.bk = 1;                                      /* the first element goes to the back */
    ITEM fresh; cv_i64 t = nondet_size_t();
    if (vm.tin && !t_was_top) {                                       /* every other element is somewhere in front of it */
      __CPROVER_assume(t < vm.n - 1);
      vm.tpos = t;
      if (t == 0) vm.top = vm.trk; else vm.top = fresh;
    } else {
      if (t_was_top) vm.tpos = vm.n - 1;
      vm.top = fresh;
    }
    __CPROVER_assume(!VEC_COMPARE(&vm.back, &vm.top));                /* the moved element is minimal w.r.t. comp among what remains ... */
    if (vm.tin && !t_was_top && vm.tpos != 0) {
      __CPROVER_assume(!VEC_COMPARE(&vm.back, &vm.trk));
      __CPROVER_assume(!VEC_COMPARE(&vm.top, &vm.trk)); }             /* ... and so is the new first element */
  }
  vm.heap_len = vm.n - 1; }

/* std::push_heap(first, last, comp) */
void _ZSt9push_heapIN9__gnu_cxx17__normal_iteratorIPN5cocls9scheduler7SchItemESt6vectorIS4_SaIS4_EEEEPFbRKS4_SB_EEvT_SE_T0_(ITEM *first, ITEM *last, cv_i1 (*comp)(ITEM *, ITEM *)) {
  VEC_GUARD((VECT *)0);
  VEC_ASSERT(VEC_WHOLE(first, last), "std::push_heap: applied to the whole vector [begin(), end())");
  VEC_ASSERT(vm.n > 0, "std::push_heap: non-empty range");
  VEC_ASSERT(vm.heap_len + 1 == vm.n && (vm.bk || vm.n == 1), "std::push_heap: [first,last-1) is a heap and last-1 is the appended element");
  VEC_ASSERT(VEC_IS_COMPARATOR(comp), "std::push_heap: same comparator as the heap was built with");
  if (vm.n == 1) { vm.lastpos = 0; vm.nwin = 1; vm.heap_len = 1; return; }
  cv_i64 q = nondet_size_t(), t = nondet_size_t();
  __CPROVER_assume(q < vm.n);
  vm.bk = 0; vm.lastpos = q; vm.nwin = 1;
  if (q == 0) {                                                       /* the new element becomes the first one: the old first moves down */
    if (vm.tin) { __CPROVER_assume(t >= 1 && t < vm.n); if (vm.tpos == 0) vm.trk = vm.top; vm.tpos = t; }
    vm.top = vm.back;
  } else {                                                            /* the first element stays; elements on the sift path may move down */
    vm.nw = vm.back;
    if (vm.tin && vm.tpos != 0) { __CPROVER_assume(t >= 1 && t < vm.n && t != q); vm.tpos = t; }
    __CPROVER_assume(!VEC_COMPARE(&vm.top, &vm.nw));
  }
  if (vm.tin && vm.tpos != 0) __CPROVER_assume(!VEC_COMPARE(&vm.top, &vm.trk));
  vm.heap_len = vm.n; }
#endif

#ifdef CV_HAS_vec_find_if
/* std::find_if(first, last, pred): the closure (one captured reference) arrives coerced to a pointer */
ITEM *vec_find_if(ITEM *first, ITEM *last, cv_i8 **pred) {
  VEC_GUARD((VECT *)0);
  VEC_ASSERT(VEC_WHOLE(first, last), "std::find_if: applied to the whole vector [begin(), end())");
  cv_i8 **closure = pred;
  cv_i64 r = nondet_size_t(); __CPROVER_assume(r <= vm.n);
  ITEM *f = VEC_END;
  if (r < vm.n) { f = vec_at(r); __CPROVER_assume(VEC_FIND_PRED(&closure, f)); }                            /* found: satisfies the predicate                 */
  if (0 < r) __CPROVER_assume(!VEC_FIND_PRED(&closure, &vm.top));                                          /* nothing before it does: at the first element ... */
  if (vm.tin && vm.tpos < r) __CPROVER_assume(!VEC_FIND_PRED(&closure, VEC_T));                            /* ... and at the tracked element                 */
  return f; }
#endif
