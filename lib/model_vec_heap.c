/* model_vec_heap.c - assumed contracts on dependencies of cocls::scheduler (C12):
 *
 *   std::vector<scheduler::SchItem>  +  std::push_heap / std::pop_heap / std::find_if instantiated on it.
 *
 * libstdc++ internals are never translated.  Abstract state: size vec_n (arbitrary, unbounded) and an ELEMENT VIEW: only the few
 * positions a proof looks at are materialised, each in a slot vec_s[k] of the REAL element type (ITEM = scheduler::SchItem as laid out by
 * clang: _tp, _p, _ident) tagged with the position vec_p[k] it stands for.  A position that is looked at for the first time gets an
 * arbitrary content (nothing is known about it).  vec_heap_len = length of the prefix that is a heap w.r.t. the scheduler's comparator.
 * The heap algorithms permute the vector; they are specified element-wise, quantifier-free:
 *
 *   - gh_G   : an arbitrary-but-fixed POSITION.  Every "for all positions i" fact of an algorithm's postcondition is supplied at i = gh_G
 *              (and at the position of the tracked element), which is all a proof about an arbitrary position may use.
 *   - tracked: an arbitrary-but-fixed ELEMENT (vec_tin = still in the vector, vec_tpos = its current position).  Permutations move it to
 *              some position of the result; nothing else is known about where.  "Nothing is lost or altered" is proved for this element.
 *   Positions 0, gh_G and vec_tpos are always materialised while they are in range (VEC_KNOWN).
 *
 *   pop_heap(first,last,comp)  : moves the first element to the back; it is an element e such that comp(e,x) is false for every remaining
 *                                x (evaluated with the REAL translated comparator VEC_COMPARE); the new first element is again such an element.
 *   push_heap(first,last,comp) : the last element lands somewhere (vec_lastpos); afterwards comp(first element, x) is false for every x.
 *   find_if(first,last,pred)   : first position whose element satisfies the REAL translated predicate (VEC_FIND_PRED), or last.
 *
 * Preconditions of the real containers/algorithms are OBLIGATIONS on the cocls code (__CPROVER_assert): operator[] in range,
 * front/back/pop_back on a non-empty vector, heap algorithms on the whole vector, [first,last-1) / [first,last) being a heap built with
 * the same comparator.  Each assert is followed by an assume of the same fact so that one defect yields one failed obligation.
 * begin()/end() are opaque tokens (one-past pointers: dereferencing them fails CBMC's pointer checks); iterating the vector by pointer
 * arithmetic is not supported by this model (scheduler.h does not do it).
 *
 * Required from the including spec (before #include): types ITEM (element) and VECT (the vector class); macros
 *   VEC_GUARD(v)            obligation checked on every access (lock discipline), may be empty
 *   VEC_COMPARE(a,b)        the real translated comparator          VEC_IS_COMPARATOR(fp)  fp is that comparator
 *   VEC_ITEM_MOVE(dst,src)  the real translated SchItem(SchItem&&)  VEC_ITEM_DTOR(x)       the real translated ~SchItem()
 *   VEC_FIND_PRED(cl,x)     the real translated predicate of find_if (only if CV_HAS_vec_find_if)
 * Trusted base. */
#define VEC_NS 6                          /* slots: first, gh_G, tracked, back, found, landing position of push_heap */
#ifndef VEC_MAX_N
#define VEC_MAX_N (1UL << 62)             /* arithmetic bound on size() (ghost counter never wraps) */
#endif
ITEM vec_s[VEC_NS]; cv_i64 vec_p[VEC_NS]; cv_i1 vec_u[VEC_NS];
cv_i64 vec_n;                             /* size()                                                         */
cv_i64 vec_heap_len;                      /* [0, vec_heap_len) is a heap w.r.t. the scheduler's comparator   */
cv_i64 gh_G;                              /* arbitrary position                                             */
cv_i64 vec_tpos; cv_i1 vec_tin;           /* tracked element: position / still inside                       */
cv_i64 vec_lastpos;                       /* where push_heap put the element that was last                  */
unsigned gh_vec_dtor;                     /* number of ~vector() calls                                      */
static char vec_tok_b[1], vec_tok_e[1];
#define VEC_BEGIN ((ITEM *)(vec_tok_b + 1))
#define VEC_END   ((ITEM *)(vec_tok_e + 1))

/* element view for contracts (pure expressions) */
#define VEC_IS(k, i) (vec_u[k] && vec_p[k] == (i))
#define VEC_HAS(i)   (VEC_IS(0, i) || VEC_IS(1, i) || VEC_IS(2, i) || VEC_IS(3, i) || VEC_IS(4, i) || VEC_IS(5, i))
#define VEC_AT(i)    (VEC_IS(0, i) ? &vec_s[0] : VEC_IS(1, i) ? &vec_s[1] : VEC_IS(2, i) ? &vec_s[2] : VEC_IS(3, i) ? &vec_s[3] : VEC_IS(4, i) ? &vec_s[4] : &vec_s[5])
#define VEC_DIFF(a, b) (!(vec_u[a] && vec_u[b]) || vec_p[a] != vec_p[b])
#define VEC_SLOT_OK(k) (vec_u[k] <= 1 && (vec_u[k] ==> vec_p[k] < vec_n))
#define VEC_SLOTS_WF (VEC_SLOT_OK(0) && VEC_SLOT_OK(1) && VEC_SLOT_OK(2) && VEC_SLOT_OK(3) && VEC_SLOT_OK(4) && VEC_SLOT_OK(5) && \
   VEC_DIFF(0,1) && VEC_DIFF(0,2) && VEC_DIFF(0,3) && VEC_DIFF(0,4) && VEC_DIFF(0,5) && VEC_DIFF(1,2) && VEC_DIFF(1,3) && VEC_DIFF(1,4) && VEC_DIFF(1,5) && \
   VEC_DIFF(2,3) && VEC_DIFF(2,4) && VEC_DIFF(2,5) && VEC_DIFF(3,4) && VEC_DIFF(3,5) && VEC_DIFF(4,5))
#define VEC_KNOWN    ((vec_n > 0 ==> VEC_HAS(0)) && (gh_G < vec_n ==> VEC_HAS(gh_G)) && (vec_tin ==> VEC_HAS(vec_tpos)))
#define VEC_CANON_K(k) (vec_u[k] ==> (vec_p[k] == 0 || vec_p[k] == gh_G || (vec_tin && vec_p[k] == vec_tpos)))
#define VEC_CANON    (VEC_CANON_K(0) && VEC_CANON_K(1) && VEC_CANON_K(2) && VEC_CANON_K(3) && VEC_CANON_K(4) && VEC_CANON_K(5))   /* nothing else is materialised: at most 3 slots in use */
#define VEC_MODEL_ASSIGNS __CPROVER_object_whole(vec_s), __CPROVER_object_whole(vec_p), __CPROVER_object_whole(vec_u), vec_n, vec_heap_len, vec_tpos, vec_tin, vec_lastpos

#define VEC_ASSERT(c, msg) do { __CPROVER_assert(c, msg); __CPROVER_assume(c); } while (0)

/* the slot standing for position i; materialised with arbitrary content when it is looked at for the first time */
static ITEM *vec_get(cv_i64 i) {
  if (VEC_IS(0, i)) return &vec_s[0];
  if (VEC_IS(1, i)) return &vec_s[1];
  if (VEC_IS(2, i)) return &vec_s[2];
  if (VEC_IS(3, i)) return &vec_s[3];
  if (VEC_IS(4, i)) return &vec_s[4];
  if (VEC_IS(5, i)) return &vec_s[5];
  ITEM fresh; int k = !vec_u[0] ? 0 : !vec_u[1] ? 1 : !vec_u[2] ? 2 : !vec_u[3] ? 3 : !vec_u[4] ? 4 : !vec_u[5] ? 5 : -1;
  VEC_ASSERT(k >= 0, "model bound: at most VEC_NS positions of the vector are materialised at a time");
  vec_u[k] = 1; vec_p[k] = i; vec_s[k] = fresh;
  return &vec_s[k]; }
static void vec_forget(cv_i64 i) {
  if (VEC_IS(0, i)) vec_u[0] = 0; if (VEC_IS(1, i)) vec_u[1] = 0; if (VEC_IS(2, i)) vec_u[2] = 0;
  if (VEC_IS(3, i)) vec_u[3] = 0; if (VEC_IS(4, i)) vec_u[4] = 0; if (VEC_IS(5, i)) vec_u[5] = 0; }
static void vec_forget_all(void) { vec_u[0] = 0; vec_u[1] = 0; vec_u[2] = 0; vec_u[3] = 0; vec_u[4] = 0; vec_u[5] = 0; }

void _ZNSt6vectorIN5cocls9scheduler7SchItemESaIS2_EEC2Ev(VECT *v) { vec_n = 0; vec_heap_len = 0; vec_tin = 0; vec_forget_all(); }
#ifdef VEC_ITEM_DTOR
void _ZNSt6vectorIN5cocls9scheduler7SchItemESaIS2_EED2Ev(VECT *v) {
  /* destroys every element: executed on the arbitrary tracked element (what holds for it holds for all) */
  if (vec_tin) { VEC_ITEM_DTOR(vec_get(vec_tpos)); vec_tin = 0; }
  vec_forget_all(); vec_n = 0; vec_heap_len = 0; gh_vec_dtor++; }
#endif
cv_i1 _ZNKSt6vectorIN5cocls9scheduler7SchItemESaIS2_EE5emptyEv(VECT *v) { VEC_GUARD(v); return vec_n == 0 ? 1 : 0; }
cv_i64 _ZNKSt6vectorIN5cocls9scheduler7SchItemESaIS2_EE4sizeEv(VECT *v) { VEC_GUARD(v); return vec_n; }
ITEM *_ZNSt6vectorIN5cocls9scheduler7SchItemESaIS2_EEixEm(VECT *v, cv_i64 i) {
  VEC_GUARD(v);
  VEC_ASSERT(i < vec_n, "std::vector<SchItem>::operator[]: index within size()");
  return vec_get(i); }
ITEM *_ZNSt6vectorIN5cocls9scheduler7SchItemESaIS2_EE5frontEv(VECT *v) {
  VEC_GUARD(v);
  VEC_ASSERT(vec_n > 0, "std::vector<SchItem>::front() on a non-empty vector");
  return vec_get(0); }
ITEM *_ZNSt6vectorIN5cocls9scheduler7SchItemESaIS2_EE4backEv(VECT *v) {
  VEC_GUARD(v);
  VEC_ASSERT(vec_n > 0, "std::vector<SchItem>::back() on a non-empty vector");
  return vec_get(vec_n - 1); }
ITEM *_ZNSt6vectorIN5cocls9scheduler7SchItemESaIS2_EE5beginEv(VECT *v) { VEC_GUARD(v); return vec_n == 0 ? VEC_END : VEC_BEGIN; }
ITEM *_ZNSt6vectorIN5cocls9scheduler7SchItemESaIS2_EE3endEv(VECT *v) { VEC_GUARD(v); return VEC_END; }
#define VEC_WHOLE(first, last) ((last) == VEC_END && (first) == (vec_n == 0 ? VEC_END : VEC_BEGIN))
#ifdef VEC_ITEM_MOVE
void _ZNSt6vectorIN5cocls9scheduler7SchItemESaIS2_EE9push_backEOS2_(VECT *v, ITEM *x) {
  VEC_GUARD(v);
  VEC_ASSERT(vec_n < VEC_MAX_N, "arithmetic bound on the number of scheduled entries");
  VEC_ASSERT(!__CPROVER_same_object(x, vec_s), "push_back of an element of the vector itself");
  VEC_ITEM_MOVE(vec_get(vec_n), x);         /* the real SchItem(SchItem&&): time point and ident copied, promise moved */
  vec_n++; }
#endif
#ifdef VEC_ITEM_DTOR
void _ZNSt6vectorIN5cocls9scheduler7SchItemESaIS2_EE8pop_backEv(VECT *v) {
  VEC_GUARD(v);
  VEC_ASSERT(vec_n > 0, "std::vector<SchItem>::pop_back() on a non-empty vector");
  VEC_ITEM_DTOR(vec_get(vec_n - 1));        /* the real ~SchItem(): a promise that is still live is dropped here */
  vec_forget(vec_n - 1);
  vec_n--;
  if (vec_tin && vec_tpos == vec_n) vec_tin = 0;
  if (vec_heap_len > vec_n) vec_heap_len = vec_n; }
#endif

#ifdef VEC_COMPARE
/* std::pop_heap(first, last, comp) */
void _ZSt8pop_heapIN9__gnu_cxx17__normal_iteratorIPN5cocls9scheduler7SchItemESt6vectorIS4_SaIS4_EEEEPFbRKS4_SB_EEvT_SE_T0_(ITEM *first, ITEM *last, cv_i1 (*comp)(ITEM *, ITEM *)) {
  VEC_GUARD((VECT *)0);
  VEC_ASSERT(VEC_WHOLE(first, last), "std::pop_heap: applied to the whole vector [begin(), end())");
  VEC_ASSERT(vec_n > 0, "std::pop_heap: non-empty range");
  VEC_ASSERT(vec_heap_len == vec_n, "std::pop_heap: [first,last) is a heap");
  VEC_ASSERT(VEC_IS_COMPARATOR(comp), "std::pop_heap: same comparator as the heap was built with");
  ITEM top = *vec_get(0), trk; cv_i64 told = vec_tpos;
  if (vec_tin) trk = *vec_get(vec_tpos);
  vec_forget_all();
  ITEM *back = vec_get(vec_n - 1); *back = top;                      /* the first element goes to the back */
  if (vec_tin) {
    if (told == 0) vec_tpos = vec_n - 1;
    else { cv_i64 t = nondet_size_t(); __CPROVER_assume(t < vec_n - 1); *vec_get(t) = trk; vec_tpos = t; }   /* every other element is somewhere in front of it */
  }
  if (vec_n > 1) {
    ITEM *nt = vec_get(0);
    __CPROVER_assume(!VEC_COMPARE(back, nt));                        /* the moved element is minimal w.r.t. comp among what remains ... */
    if (gh_G < vec_n - 1) { ITEM *g = vec_get(gh_G); __CPROVER_assume(!VEC_COMPARE(back, g)); __CPROVER_assume(!VEC_COMPARE(nt, g)); }   /* ... and so is the new first element */
    if (vec_tin && vec_tpos < vec_n - 1) { ITEM *t = vec_get(vec_tpos); __CPROVER_assume(!VEC_COMPARE(back, t)); __CPROVER_assume(!VEC_COMPARE(nt, t)); }
  }
  vec_heap_len = vec_n - 1; }

/* std::push_heap(first, last, comp) */
void _ZSt9push_heapIN9__gnu_cxx17__normal_iteratorIPN5cocls9scheduler7SchItemESt6vectorIS4_SaIS4_EEEEPFbRKS4_SB_EEvT_SE_T0_(ITEM *first, ITEM *last, cv_i1 (*comp)(ITEM *, ITEM *)) {
  VEC_GUARD((VECT *)0);
  VEC_ASSERT(VEC_WHOLE(first, last), "std::push_heap: applied to the whole vector [begin(), end())");
  VEC_ASSERT(vec_n > 0, "std::push_heap: non-empty range");
  VEC_ASSERT(vec_heap_len + 1 >= vec_n, "std::push_heap: [first,last-1) is a heap");
  VEC_ASSERT(VEC_IS_COMPARATOR(comp), "std::push_heap: same comparator as the heap was built with");
  ITEM nw = *vec_get(vec_n - 1), trk; cv_i64 told = vec_tpos;
  if (vec_tin) trk = *vec_get(vec_tpos);
  vec_forget_all();
  cv_i64 q = nondet_size_t(); __CPROVER_assume(q < vec_n); *vec_get(q) = nw; vec_lastpos = q;   /* the new element lands somewhere */
  if (vec_tin) {
    if (told == vec_n - 1) vec_tpos = q;
    else { cv_i64 t = nondet_size_t(); __CPROVER_assume(t < vec_n && t != q); *vec_get(t) = trk; vec_tpos = t; }
  }
  ITEM *nt = vec_get(0);
  __CPROVER_assume(!VEC_COMPARE(nt, vec_get(q)));
  if (gh_G < vec_n) __CPROVER_assume(!VEC_COMPARE(nt, vec_get(gh_G)));
  if (vec_tin) __CPROVER_assume(!VEC_COMPARE(nt, vec_get(vec_tpos)));
  vec_heap_len = vec_n; }
#endif

#ifdef CV_HAS_vec_find_if
/* std::find_if(first, last, pred): the closure (one captured reference) arrives coerced to a pointer */
ITEM *vec_find_if(ITEM *first, ITEM *last, cv_i8 **pred) {
  VEC_GUARD((VECT *)0);
  VEC_ASSERT(VEC_WHOLE(first, last), "std::find_if: applied to the whole vector [begin(), end())");
  cv_i8 **closure = pred;
  cv_i64 r = nondet_size_t(); __CPROVER_assume(r <= vec_n);
  ITEM *f = VEC_END;
  if (r < vec_n) { f = vec_get(r); __CPROVER_assume(VEC_FIND_PRED(&closure, f)); }                           /* found: satisfies the predicate       */
  if (gh_G < r) __CPROVER_assume(!VEC_FIND_PRED(&closure, vec_get(gh_G)));                                  /* nothing before it does (at gh_G ...) */
  if (vec_tin && vec_tpos < r) __CPROVER_assume(!VEC_FIND_PRED(&closure, vec_get(vec_tpos)));              /* ... and at the tracked element       */
  return f; }
#endif
