/* model_mutex.c - std::mutex / std::condition_variable primitives (DESIGN 3.3 "Blocking and OS").
 * std::mutex::lock/unlock, lock_guard, unique_lock are translated transparently from libstdc++; they bottom out in
 * pthread_mutex_lock/unlock, which ir2c emits as cvx_pthread_mutex_lock/unlock (external C functions get the cvx_ prefix).
 *   lock   : obligation "not already held by this thread" (std::mutex is not recursive: a second lock is a self-deadlock),
 *            then the hook CV_ON_LOCK(m) - a unit defines it to havoc the guarded state subject to its invariant (rely).
 *   unlock : obligation "held", hook CV_ON_UNLOCK(m) (a unit asserts the object invariant there).
 * gh_lock_depth counts the mutexes held; gh_lock_held is the most recently locked one (cocls never nests two different mutexes).
 * A unit that does not care about interference leaves the hooks undefined (sequential reading). Trusted base. */
void *gh_lock_held; int gh_lock_depth; unsigned gh_n_lock, gh_n_unlock;
#ifndef CV_ON_LOCK
#define CV_ON_LOCK(m)
#endif
#ifndef CV_ON_UNLOCK
#define CV_ON_UNLOCK(m)
#endif
cv_i32 cvx_pthread_mutex_lock(struct S_union_pthread_mutex_t *m) {
  __CPROVER_assert(!(gh_lock_depth > 0 && gh_lock_held == (void *)m), "std::mutex locked again by the thread that holds it (self-deadlock)");
  gh_lock_held = m; gh_lock_depth++; gh_n_lock++;
  CV_ON_LOCK(m);
  return 0; }
cv_i32 cvx_pthread_mutex_unlock(struct S_union_pthread_mutex_t *m) {
  __CPROVER_assert(gh_lock_depth > 0 && gh_lock_held == (void *)m, "std::mutex unlocked while not held");
  CV_ON_UNLOCK(m);
  gh_lock_depth--; gh_n_unlock++; if (gh_lock_depth == 0) gh_lock_held = 0;
  return 0; }
cv_i32 cvx_pthread_mutex_trylock(struct S_union_pthread_mutex_t *m) {
  if (gh_lock_depth > 0 && gh_lock_held == (void *)m) return 16 /* EBUSY */;
  if (nondet_bool()) return 16;
  gh_lock_held = m; gh_lock_depth++; gh_n_lock++; CV_ON_LOCK(m); return 0; }
/* lock-discipline helper for contracts: the guarded state may only be touched while LOCKED(m) */
#define LOCKED(m) (gh_lock_depth > 0 && gh_lock_held == (void *)(m))
