/* model_atomic_ptr_api.c - std::atomic<T*> member functions for SEQUENTIAL bounded drives (C13, C14; DESIGN 3.8): one thread, no
 * interference, memory orders ignored - the same reading as lib/rt_atomic_seq.c, but taken at the level of the libstdc++ MEMBER
 * FUNCTIONS (load / exchange / compare_exchange_weak / operator=, made boundaries by the unit) instead of the instructions.
 * Why: clang lowers every atomic operation on a pointer to an i64 instruction between ptrtoint / inttoptr.  CBMC 6.11 does not fold
 * (T *)((cv_i64)&obj + k) back into &obj + k, so an awaiter / future that lives at a non-zero offset of a coroutine frame comes back
 * from the chain as an opaque integer-derived pointer: null tests and the devirtualised resume() stop being decided during symbolic
 * execution and the drive forks without end (measured).  Here the cell is read and written as the pointer it is.
 * compare_exchange_weak does not fail spuriously in a drive (a retry loop around a CAS that may fail for ever has no unwinding
 * bound; retry loops under spurious failure are verified with loop contracts in C02 / C07).
 * Usage: the unit makes the functions boundaries and aliases them (names_opt); for each pointer type it instantiates
 *   CV_ATOMIC_PTR_API(tag, ATOMIC_STRUCT, ELEM_STRUCT)  via the X-macro CV_ATOMIC_PTR_TYPES, with aliases
 *   ap_<tag>_load, ap_<tag>_xchg, ap_<tag>_cas (4-argument compare_exchange_weak), ap_<tag>_assign, ap_<tag>_base_assign.
 * An alias that the unit does not contain is simply not defined (the macros below expand to nothing for it through CV_AP_IF).
 * Trusted base. */
unsigned gh_ap_ops;      /* number of atomic pointer operations performed (reachability of the model) */
#define CV_AP_LOAD(fn, AT, T)   T *fn(AT *a, cv_i32 mo) { gh_ap_ops++; return (T *)a->_M_b._M_p; }
#define CV_AP_XCHG(fn, AT, T)   T *fn(AT *a, T *v, cv_i32 mo) { gh_ap_ops++; T *old = (T *)a->_M_b._M_p; a->_M_b._M_p = v; return old; }
#define CV_AP_CAS(fn, AT, T)    cv_i1 fn(AT *a, T **expected, T *desired, cv_i32 so, cv_i32 fo) { gh_ap_ops++; T *old = (T *)a->_M_b._M_p; \
                                  if (old == *expected) { a->_M_b._M_p = desired; return 1; } *expected = old; return 0; }
#define CV_AP_ASSIGN(fn, AT, T) T *fn(AT *a, T *v) { gh_ap_ops++; a->_M_b._M_p = v; return v; }
#define CV_AP_BASE_ASSIGN(fn, BT, T) T *fn(BT *b, T *v) { gh_ap_ops++; b->_M_p = v; return v; }
