/* model_vec_pool.c - assumed contract on std::vector<T> for the BOUNDED DRIVE of generator_aggregator (C14; DESIGN 3.8).
 * A vector object keeps its libstdc++ representation (three pointers start / finish / end_of_storage, so the translated inline
 * __normal_iterator code works on it unchanged); what is modelled is the STORAGE: element buffers are rows of a static, typed pool
 * (CBMC keeps them field-sensitive: the resume pointers inside GenCallback elements stay concrete) and a buffer never grows.
 *   T()            : empty, no buffer                      vector(vector&&) : steals the buffer, source left empty
 *   reserve(n)     : n <= capacity: nothing; otherwise only on a vector without buffer: attaches a row with capacity n
 *   emplace_back   : constructs the element in place with the REAL translated constructor; a vector without buffer gets a row of full
 *                    model capacity first (std::vector's geometric growth, which MOVES the elements, is not modelled) - pinned element
 *                    types get room for exactly one element, as the real vector does; on a full buffer: element types registered as `pinned` (other objects hold pointers to the elements)
 *                    make this an OBLIGATION on the code - a reallocation would leave those pointers dangling - otherwise a model bound
 *   back/size/begin/end, ~vector : destroys every element in order with the REAL translated destructor, releases the buffer
 * Heap accounting: attaching a row counts as one allocation (gh_allocs), releasing it as one deallocation (gh_frees).
 * Instantiate per element type:  CV_VEC_POOL(tag, VT, T, CAP)  then the CV_VEC_* function macros under the unit's aliases.
 * Trusted base. */
#ifndef CV_VEC_IMPL
#define CV_VEC_IMPL(v) ((v)->base__Vector_base._M_impl.base_allocator)     /* _Vector_impl_data as ir2c names it; f0/f1/f2 = start/finish/end_of_storage */
#endif
#define CV_VS(v) (CV_VEC_IMPL(v).f0)
#define CV_VF(v) (CV_VEC_IMPL(v).f1)
#define CV_VE(v) (CV_VEC_IMPL(v).f2)
unsigned gh_vec_attached, gh_vec_released;
/* two buffers per element type at most (one-dimensional typed arrays: CBMC keeps them field-sensitive) */
#define CV_VEC_POOL(tag, VT, T, CAP) \
  static T cvv_##tag##_pool0[CAP]; static T cvv_##tag##_pool1[CAP]; static unsigned cvv_##tag##_used; \
  static void cvv_##tag##_attach(VT *v, cv_i64 n) { \
    __CPROVER_assert(cvv_##tag##_used < 2, "model bound: number of buffers of this vector type"); __CPROVER_assert(n <= CAP, "model bound: vector capacity"); \
    T *b = cvv_##tag##_used == 0 ? cvv_##tag##_pool0 : cvv_##tag##_pool1; cvv_##tag##_used++; gh_allocs++; gh_vec_attached++; CV_VS(v) = b; CV_VF(v) = b; CV_VE(v) = b + n; }
#define CV_VEC_CTOR(fn, VT)            void fn(VT *v) { CV_VS(v) = 0; CV_VF(v) = 0; CV_VE(v) = 0; }
#define CV_VEC_MOVE(fn, VT)            void fn(VT *v, VT *o) { CV_VS(v) = CV_VS(o); CV_VF(v) = CV_VF(o); CV_VE(v) = CV_VE(o); CV_VS(o) = 0; CV_VF(o) = 0; CV_VE(o) = 0; }
#define CV_VEC_SIZE(fn, VT, T)         cv_i64 fn(VT *v) { return CV_VS(v) == 0 ? 0 : CV_VF(v) - CV_VS(v); }
#define CV_VEC_BEGIN(fn, VT, T)        T *fn(VT *v) { return CV_VS(v); }
#define CV_VEC_END(fn, VT, T)          T *fn(VT *v) { return CV_VF(v); }
#define CV_VEC_BACK(fn, VT, T)         T *fn(VT *v) { __CPROVER_assert(CV_VF(v) != CV_VS(v), "std::vector::back() on a non-empty vector"); return CV_VF(v) - 1; }
#define CV_VEC_RESERVE(fn, VT, T, tag) void fn(VT *v, cv_i64 n) { if (n <= (CV_VS(v) == 0 ? 0 : (cv_i64)(CV_VE(v) - CV_VS(v)))) return; \
    __CPROVER_assert(CV_VS(v) == 0, "model bound: reserve() grows only a vector that has no buffer yet"); cvv_##tag##_attach(v, n); }
#define CV_VEC_DTOR(fn, VT, T, CAP, ELEM_DTOR) void fn(VT *v) { T *b = CV_VS(v); cv_i64 n = b == 0 ? 0 : CV_VF(v) - b;   /* no pointer difference on null pointers */ \
    for (cv_i64 i = 0; i < CAP; i++) if (i < n) ELEM_DTOR(b + i); \
    if (b != 0) { gh_frees++; gh_vec_released++; } CV_VS(v) = 0; CV_VF(v) = 0; CV_VE(v) = 0; }
/* slot for emplace_back: PINNED = 1 for element types whose addresses are registered elsewhere */
#define CV_VEC_SLOT(v, T, CAP, tag, PINNED) ({ if (CV_VS(v) == 0) cvv_##tag##_attach(v, (PINNED) ? 1 : CAP);   /* unreserved: std::vector starts with room for ONE element */ \
    if (PINNED) __CPROVER_assert(CV_VF(v) != CV_VE(v), "emplace_back stays within the reserved capacity (a reallocation would move elements that other objects point to)"); \
    else __CPROVER_assert(CV_VF(v) != CV_VE(v), "model bound: vector capacity"); \
    T *cv_slot = CV_VF(v); CV_VF(v) = cv_slot + 1; cv_slot; })
