/* model_tpool2.c - assumed contracts on the dependencies of cocls::thread_pool (property C11).  Trusted base.
 * Successor of model_tpool.c (kept unchanged for reference); differences, all re-derived from the property statement after the audit (group D):
 *   (a) ORDER of cancellation and join (thr_join): "cancelled observably exactly once ... never forgotten with a waiter left hanging ... join all
 *       workers without deadlock for every timing" - a thread must not block in join() while it still holds swapped-out closures it has not yet
 *       cancelled: the job running on the joined worker may be the waiter of exactly such a closure (pool.run(g).wait() inside a job).
 *   (b) WORKERS TAKEN BY ANOTHER stop() (tm.env_unjoined, rely step): stop() moves the worker list into a local of the FIRST caller; from that
 *       instant until that caller has finished its joins there are live workers that are in nobody else's reach.  The ghost records "such workers
 *       may exist"; contracts of stop() / ~thread_pool state the clause "join ALL workers" over it (tp_spec.h).
 *   (c) THREAD IDENTITY (qi_call): a closure is invoked only by a thread that is marked as worker of this pool (thread-local current-pool pointer).
 *   Obligations (a) belong to C11 only; they are switched off in the re-runs of these units for C03 (CV_CHECK_C03: lock discipline / visibility).
 *
 * The pool-level units (enqueue, worker, stop, destructor, is_stopped, any_enqueued ...) never translate libstdc++ containers, std::thread or
 * the type-erasure machinery of cocls::function<>: they see
 *
 * (1) CLOSURES as linear resources.  A cocls::function<void()> object (QI) is an abstract cell holding a ghost closure id (0 = empty /
 *     moved-from) and a "was invoked" mark.  Its three operations are primitives:
 *        move-construct : the id travels, the source becomes empty (function<> is move-only: an id is never duplicated)
 *        operator()     : OBLIGATIONS  non-empty; not invoked before; the pool mutex is NOT held.  Then the job runs: it may stop (and even
 *                         destroy) the pool it runs on - the thread-local current-pool pointer is then null afterwards.
 *        destructor     : of a non-empty cell = the closure dies.  OBLIGATION the pool mutex is NOT held (a closure's destructor resumes a
 *                         coroutine with "cancelled" / drops a promise / runs destructors of captured user state, all of which may re-enter
 *                         the pool).  Counted separately as "destroyed un-run" (= cancelled) and "destroyed after its run".
 *                         The destruction of a closure runs user code on the destroying thread exactly as its invocation does ("stop() and the
 *                         destructor ... including when invoked from one of the pool's own threads" does not say from which part of the job):
 *                         the captured state may hold the pool (the last std::shared_ptr owner is a capture of the finished job), so the
 *                         DESTRUCTION of a closure may stop and even destroy the pool too - current-pool pointer null / pool dead afterwards
 *                         (tp_user_code_may_stop_pool, shared with operator()).  From then on every use of the pool's mutex / queue / worker
 *                         list / condition variable / exit flag is an error "used after the pool was destroyed" (tq_guard, tv_guard,
 *                         notify / wait, tp_on_lock / tp_on_unlock = every lock() / unlock() of _mx, CV_PERM_TP_EXIT = every plain access of _exit).
 *     ONE arbitrary-but-fixed closure id gh_C is tracked exactly (where it is, how often it was invoked / destroyed); a statement proved for
 *     it holds for every closure.
 * (2) std::queue<function<void()>> as an abstract multiset with a length (C11 makes no ordering claim).  Two queue objects are known: the
 *     pool's member (operations on it require the pool mutex: OBLIGATION) and the one local queue of stop().  front() materialises the head
 *     element in a model cell; pop() destroys that cell (a closure still in it dies there - under the lock, hence an error).
 * (3) std::vector<std::thread> by its three representation pointers (overlay), the elements being real std::thread objects (one word: the id,
 *     0 = not joinable) in a harness-allocated array.  join(): OBLIGATIONS no mutex held, joinable, not the calling thread (self-join
 *     deadlocks); detach(): joinable.  ~vector: no element joinable (std::terminate otherwise) - checked at the tracked index gh_TK.
 * (4) std::condition_variable: wait(lk) requires the lock, releases it, lets the other threads act, re-acquires it (may wake spuriously);
 *     notify_one / notify_all are counted.
 * (5) the RELY of the pool mutex (hook of lib/model_mutex.c): between two critical sections of this thread the other threads execute any
 *     number of complete critical sections of enqueue / worker / stop: the exit flag only ever goes false -> true and from then on the queue
 *     and the worker list are empty (stop swaps both out in the same critical section that sets the flag); otherwise the queue length changes
 *     arbitrarily; the tracked closure may be taken out of the queue by another worker, or be put in by another submitter.
 *
 * Required aliases: types TP QI FB TQ TVEC THR ULK CONDV, global TP_CURRENT (&thread_pool::_current).  Needs lib/model_mutex.c BEFORE it. */
#ifndef TP_GH_NOWRAP
#define TP_GH_NOWRAP(x) __CPROVER_assume((x) < (1ul << 40))      /* ghost counters are mathematical: they never wrap */
#endif
enum { C_ELSEWHERE = 0, C_ARG = 1, C_QUEUED = 2, C_SWAPPED = 3, C_HELD = 4, C_TAKEN = 5, C_GONE = 6 };
TP *gh_pool;                      /* the pool under consideration: allocated and assigned by the harness                     */
cv_i64 gh_C;                      /* the tracked closure id (logical variable, != 0)                                         */
cv_i64 gh_me;                     /* pthread_self() of the thread under consideration (logical variable, != 0)               */
cv_i64 gh_TK;                     /* tracked index into the worker list (logical variable)                                   */
THR *gh_tv;                       /* the worker list's element array (harness-allocated)                                     */
cv_i64 tv_cur_n;                  /* number of elements of the list most recently iterated (set by end())                    */
QI tq_cell;                      /* the materialised head element of the pool queue                                        */
struct tp_model {
  cv_i64 q_len;                   /* |pool._queue|                                                                           */
  cv_i64 lq_len; cv_i8 lq_live;   /* the local queue of stop()                                                               */
  cv_i8 front_valid;              /* tq_cell currently stands for the head element                                          */
  cv_i8 pool_dead;                /* a job destroyed the pool: nothing of *gh_pool may be touched any more                   */
  cv_i8 rely_on;                  /* other threads act between critical sections                                             */
  cv_i8 job_may_stop;             /* a running job (its body AND the destruction of its closure) may stop / destroy the pool */
  cv_i8 stopped_in_dtor;          /* the pool was stopped / destroyed by the DESTRUCTION of a closure on this thread (for the reachability sentinels) */
  cv_i8 c_where; cv_i64 c_invoked, c_unrun, c_ran;            /* tracked closure: place, invocations, destroyed un-run / after run */
  cv_i64 n_push, n_deq, n_invoked, n_unrun, n_ran;            /* totals of this thread                                    */
  cv_i64 n_notify_one, n_notify_all, n_wait, n_cs;            /* notifications, waits, critical sections                  */
  cv_i8 exit_at_lock, exit_at_unlock; cv_i64 len_at_lock, len_at_unlock; cv_i8 thr_empty_at_unlock;   /* snapshots at the last acquisition / release */
  cv_i8 c_where_at_lock; cv_i64 nthr_at_lock;
  cv_i8 env_unjoined;             /* ANOTHER thread's stop() has taken workers out of the list and may not have joined them yet: live workers exist
                                     that this thread can neither see nor wait for (0 while the pool runs: workers leave the list only in the
                                     critical section that sets the exit flag)                                                                  */
} tm;
struct tp_thr_model { cv_i64 n_join, n_detach, t_join, t_detach; } tt;   /* std::thread operations: totals and the tracked element (index gh_TK) */
#define TP_MODEL_ASSIGNS tv_cur_n, __CPROVER_object_whole(&tm), __CPROVER_object_whole(&tt), __CPROVER_object_whole(&tq_cell), gh_lock_held, gh_lock_depth, gh_n_lock, gh_n_unlock
#define POOL_LOCKED LOCKED(&gh_pool->_mx)
#define CUR (*TP_CURRENT)
#define QI_ID(f) ((cv_i64)(void *)(f)->base_function_base._ptr)
#define QI_SET(f, id) ((f)->base_function_base._ptr = (void *)(cv_i64)(id))
#define QI_RAN(f) ((f)->base_function_base.space[0])
struct tv_rep { THR *b, *e, *c; };
#define TV(v) ((struct tv_rep *)(v))
#define TV_N(v) ((cv_i64)(TV(v)->e - TV(v)->b))
/* everything a contract has to pin at entry (DFCC starts with nondeterministic statics) */
#define TP_MODEL_ZERO (tm.lq_len == 0 && tm.lq_live == 0 && tm.front_valid == 0 && tm.pool_dead == 0 && tm.stopped_in_dtor == 0 && tm.c_invoked == 0 && tm.c_unrun == 0 && tm.c_ran == 0 && \
   tm.n_push == 0 && tm.n_deq == 0 && tm.n_invoked == 0 && tm.n_unrun == 0 && tm.n_ran == 0 && tm.n_notify_one == 0 && tm.n_notify_all == 0 && tm.n_wait == 0 && tm.n_cs == 0 && \
   tt.n_join == 0 && tt.n_detach == 0 && tt.t_join == 0 && tt.t_detach == 0 && \
   gh_lock_depth == 0 && gh_lock_held == 0 && gh_n_lock == 0 && gh_n_unlock == 0 && gh_C != 0 && gh_C < (1ul << 32) && gh_me != 0 && tm.env_unjoined <= 1)
/* pool invariant (holds whenever the mutex is free): the flag is a bool; a stopped pool has no queued closure and no worker in its list */
/* the exit flag is read/written through its first byte: works for `bool _exit` and for a rewrite to std::atomic<bool> alike */
#define TP_EXIT(p) (*(cv_i8 *)&(p)->_exit)
/* permission instrumentation (units.py: perms 'cocls::thread_pool._exit'): emitted by ir2c before every plain load/store of the exit flag in the translated code */
#ifndef CV_PERM_TP_EXIT
#define CV_PERM_TP_EXIT(obj) __CPROVER_assert(!((void *)(obj) == (void *)gh_pool && tm.pool_dead), "thread_pool::_exit is used after the pool was destroyed")
#endif
#define TP_INV(p) (TP_EXIT(p) <= 1 && tm.q_len < (1ul << 40) && (TP_EXIT(p) == 0 || (tm.q_len == 0 && TV(&(p)->_threads)->e == TV(&(p)->_threads)->b)) && \
   (tm.c_where != C_QUEUED || tm.q_len >= 1) && (TP_EXIT(p) == 1 || tm.env_unjoined == 0))

/* ---------------------------------------------------------------- closures (cocls::function<void()> as an abstract cell) */
/* user code of a job runs on THIS thread (the closure's body or the destructors of its captures): it may stop the pool it runs on (stop() detaches
 * this worker and resets the thread's current-pool pointer) and then destroy it (~thread_pool, e.g. the job held the last shared_ptr to the pool) */
static void tp_user_code_may_stop_pool(cv_i8 in_dtor) {
  if (tm.job_may_stop && nondet_bool()) { CUR = 0; if (nondet_bool()) tm.pool_dead = 1; if (in_dtor) tm.stopped_in_dtor = 1; } }
static void tp_closure_dies(cv_i64 id, cv_i8 ran) {
  __CPROVER_assert(!(gh_lock_depth > 0), "a closure is destroyed while the pool mutex is held (its destructor resumes a coroutine / drops a promise / runs user destructors that may re-enter the pool)");
  if (ran) { TP_GH_NOWRAP(tm.n_ran); tm.n_ran++; } else { TP_GH_NOWRAP(tm.n_unrun); tm.n_unrun++; }
  if (id == gh_C) {
    __CPROVER_assert(tm.c_where == C_HELD || tm.c_where == C_ARG, "the tracked closure dies in the hands of this thread only while this thread holds it");
    if (tm.c_invoked) tm.c_ran++; else tm.c_unrun++;
    tm.c_where = C_GONE; }
}
#ifdef CV_HAS_qi_move
void qi_move(QI *dst, QI *src) {
  cv_i64 id = QI_ID(src); QI_SET(dst, id); QI_RAN(dst) = QI_RAN(src); QI_SET(src, 0); QI_RAN(src) = 0;
  if (id != 0 && id == gh_C && src == &tq_cell) { __CPROVER_assert(tm.c_where == C_QUEUED, "model: tracked closure at the queue head"); tm.c_where = C_HELD; }
}
#endif
#ifdef CV_HAS_qi_dtor
void qi_dtor(QI *f) {
  cv_i64 id = QI_ID(f);
  if (id != 0) {
    tp_closure_dies(id, QI_RAN(f)); QI_SET(f, 0);
    /* the closure's destructor ran the destructors of the captured user state on this thread: they may have stopped / destroyed the pool */
    tp_user_code_may_stop_pool(1); }
  else QI_SET(f, 0); }
#endif
#ifdef CV_HAS_qi_call
void qi_call(FB *fb) {
  QI *f = (QI *)fb; cv_i64 id = QI_ID(f);
  __CPROVER_assert(id != 0, "an empty function object is invoked (std::bad_function_call would escape the worker thread)");
  __CPROVER_assert(!(gh_lock_depth > 0), "a closure is invoked while the pool mutex is held (the lock must be released around the job)");
  __CPROVER_assert(QI_RAN(f) == 0, "a closure is invoked a second time");
  __CPROVER_assert(CUR == gh_pool, "a closure is invoked by a thread that is not marked as a worker of this pool (executed on one of the pool's worker threads: thread-local current-pool pointer == the pool)");
  QI_RAN(f) = 1; TP_GH_NOWRAP(tm.n_invoked); tm.n_invoked++;
  if (id == gh_C) { __CPROVER_assert(tm.c_invoked == 0 && tm.c_where == C_HELD, "the tracked closure is invoked at most once, by the thread that dequeued it"); tm.c_invoked++; }
  /* the job runs: it may stop the pool it runs on (stop() detaches this worker and resets the thread's current-pool pointer) and then destroy it */
  tp_user_code_may_stop_pool(0);
}
#endif

/* ---------------------------------------------------------------- std::queue<function<void()>> */
static int tq_is_pool(TQ *q) { return (void *)q == (void *)&gh_pool->_queue; }
static void tq_guard(TQ *q) {
  if (tq_is_pool(q)) {
    __CPROVER_assert(!tm.pool_dead, "thread_pool::_queue is used after the pool was destroyed");
    __CPROVER_assert(POOL_LOCKED, "thread_pool::_queue is accessed while the pool mutex is not held"); } }
static void tq_materialise(void) {
  if (tm.front_valid) return;
  cv_i64 v = nondet_size_t(); __CPROVER_assume(v != 0 && v != gh_C && v < (1ul << 32));
  int pick = tm.c_where == C_QUEUED && (tm.q_len == 1 || nondet_bool());
  QI_SET(&tq_cell, pick ? gh_C : v); QI_RAN(&tq_cell) = 0; tm.front_valid = 1; }
#ifdef CV_HAS_tq_ctor
void tq_ctor(TQ *q) { if (tq_is_pool(q)) { tm.q_len = 0; } else { __CPROVER_assert(!tm.lq_live, "model: one local queue at a time"); tm.lq_len = 0; tm.lq_live = 1; } }
#endif
#ifdef CV_HAS_tq_dtor
void tq_dtor(TQ *q) {
  if (tq_is_pool(q)) {                                  /* ~thread_pool: the object is exclusively owned by the destroying thread */
    if (tm.q_len > 0) { __CPROVER_assert(!(gh_lock_depth > 0), "queued closures are destroyed while a mutex is held"); tm.n_unrun += tm.q_len; }
    if (tm.c_where == C_QUEUED) { tm.c_unrun++; tm.c_where = C_GONE; }
    tm.q_len = 0;
  } else {
    __CPROVER_assert(tm.lq_live, "model: destruction of the local queue");
    if (tm.lq_len > 0) { __CPROVER_assert(!(gh_lock_depth > 0), "the swapped-out closures are destroyed (= cancelled) while the pool mutex is held"); tm.n_unrun += tm.lq_len; }
    if (tm.c_where == C_SWAPPED) { tm.c_unrun++; tm.c_where = C_GONE; }
    tm.lq_len = 0; tm.lq_live = 0; } }
#endif
#ifdef CV_HAS_tq_push
void tq_push(TQ *q, QI *fn) {
  tq_guard(q); __CPROVER_assert(tq_is_pool(q), "model: push on the pool queue");
  cv_i64 id = QI_ID(fn);
  __CPROVER_assert(id != 0, "an empty function object enters the task queue");
  QI_SET(fn, 0); QI_RAN(fn) = 0;
  __CPROVER_assume(tm.q_len < (1ul << 40)); tm.q_len++; TP_GH_NOWRAP(tm.n_push); tm.n_push++; tm.front_valid = 0;
  if (id == gh_C) { __CPROVER_assert(tm.c_where == C_ARG || tm.c_where == C_HELD, "model: the tracked closure is pushed by its holder"); tm.c_where = C_QUEUED; } }
#endif
#ifdef CV_HAS_tq_empty
cv_i1 tq_empty(TQ *q) { tq_guard(q); return (tq_is_pool(q) ? tm.q_len : tm.lq_len) == 0 ? 1 : 0; }
#endif
#ifdef CV_HAS_tq_size
cv_i64 tq_size(TQ *q) { tq_guard(q); return tq_is_pool(q) ? tm.q_len : tm.lq_len; }
#endif
#ifdef CV_HAS_tq_front
QI *tq_front(TQ *q) {
  tq_guard(q); __CPROVER_assert(tq_is_pool(q), "model: front on the pool queue");
  __CPROVER_assert(tm.q_len > 0, "std::queue::front() on an empty queue");
  tq_materialise(); return &tq_cell; }
#endif
#ifdef CV_HAS_tq_pop
void tq_pop(TQ *q) {
  tq_guard(q); __CPROVER_assert(tq_is_pool(q), "model: pop on the pool queue");
  __CPROVER_assert(tm.q_len > 0, "std::queue::pop() on an empty queue");
  tq_materialise();
  cv_i64 id = QI_ID(&tq_cell);
  if (id != 0) {                                        /* popped without having been moved out: the closure dies here, un-run, under the lock */
    if (id == gh_C) tm.c_where = C_HELD;
    tp_closure_dies(id, QI_RAN(&tq_cell)); QI_SET(&tq_cell, 0); }
  tm.q_len--; TP_GH_NOWRAP(tm.n_deq); tm.n_deq++; tm.front_valid = 0; }
#endif
#ifdef CV_HAS_tq_swap
void tq_swap(TQ *a, TQ *b) {
  tq_guard(a); tq_guard(b);
  __CPROVER_assert(tq_is_pool(a) != tq_is_pool(b) && tm.lq_live, "model: swap between the pool queue and the local queue");
  cv_i64 t = tm.q_len; tm.q_len = tm.lq_len; tm.lq_len = t; tm.front_valid = 0;
  if (tm.c_where == C_QUEUED) tm.c_where = C_SWAPPED; else if (tm.c_where == C_SWAPPED) tm.c_where = C_QUEUED; }
#endif

#ifdef CV_HAS_tq_move_assign
/* std::queue::operator=(queue&&): the elements the destination held die HERE (un-run, = cancelled), then it takes over the source's */
TQ *tq_move_assign(TQ *dst, TQ *src) {
  tq_guard(dst); tq_guard(src);
  __CPROVER_assert(tq_is_pool(dst) != tq_is_pool(src) && tm.lq_live, "model: move-assignment between the pool queue and the local queue");
  if (tq_is_pool(dst)) {
    if (tm.q_len > 0) { __CPROVER_assert(!(gh_lock_depth > 0), "queued closures are destroyed (= cancelled) while the pool mutex is held"); tm.n_unrun += tm.q_len; }
    if (tm.c_where == C_QUEUED) { tm.c_unrun++; tm.c_where = C_GONE; } else if (tm.c_where == C_SWAPPED) tm.c_where = C_QUEUED;
    tm.q_len = tm.lq_len; tm.lq_len = 0;
  } else {
    if (tm.lq_len > 0) { __CPROVER_assert(!(gh_lock_depth > 0), "the swapped-out closures are destroyed (= cancelled) while the pool mutex is held"); tm.n_unrun += tm.lq_len; }
    if (tm.c_where == C_SWAPPED) { tm.c_unrun++; tm.c_where = C_GONE; } else if (tm.c_where == C_QUEUED) tm.c_where = C_SWAPPED;
    tm.lq_len = tm.q_len; tm.q_len = 0; }
  tm.front_valid = 0; return dst; }
#endif

/* ---------------------------------------------------------------- std::vector<std::thread>, std::thread */
static void tv_guard(TVEC *v) {
#ifdef TP_IN_CTOR      /* during construction _threads belongs to the constructing thread: started workers never touch it, nobody else knows the pool yet */
  return;
#endif
  if ((void *)v == (void *)&gh_pool->_threads) {
    __CPROVER_assert(!tm.pool_dead, "thread_pool::_threads is used after the pool was destroyed");
    __CPROVER_assert(POOL_LOCKED, "thread_pool::_threads is accessed while the pool mutex is not held"); } }
#ifdef CV_HAS_tv_ctor
void tv_ctor(TVEC *v) { TV(v)->b = 0; TV(v)->e = 0; TV(v)->c = 0; }
#endif
#ifdef CV_HAS_tv_swap
void tv_swap(TVEC *a, TVEC *b) { tv_guard(a); tv_guard(b); struct tv_rep t = *TV(a); *TV(a) = *TV(b); *TV(b) = t; }
#endif
#ifdef CV_HAS_tv_begin
THR *tv_begin(TVEC *v) { tv_guard(v); return TV(v)->b; }
#endif
#ifdef CV_HAS_tv_end
THR *tv_end(TVEC *v) { tv_guard(v); tv_cur_n = TV(v)->b == 0 ? 0 : TV_N(v); return TV(v)->e; }
#endif
#ifdef CV_HAS_tv_it_deref
/* iterator dereference: the element the iterator designates, re-anchored on the element array (a loop contract havocs the iterator; a havocked
 * pointer that is merely ASSUMED to lie in the array cannot be dereferenced soundly by CBMC).  OBLIGATION: the iterator is in range. */
THR *tv_it_deref(TVIT *it) {
  __CPROVER_assert(__CPROVER_same_object(it->_M_current, gh_tv) && __CPROVER_POINTER_OFFSET(it->_M_current) % sizeof(THR) == 0, "worker-list iterator designates an element of the list");
  cv_i64 i = __CPROVER_POINTER_OFFSET(it->_M_current) / sizeof(THR);
  __CPROVER_assert(i < tv_cur_n, "worker-list iterator dereferenced in range");
  return &gh_tv[i]; }
#endif
#ifdef CV_HAS_tv_dtor
void tv_dtor(TVEC *v) {                                  /* the element array itself is not released in the model (no heap claim in C11) */
  if (TV(v)->b != 0 && gh_TK < (cv_i64)TV_N(v))
    __CPROVER_assert(TV(v)->b[gh_TK]._M_id._M_thread == 0, "a joinable std::thread is destroyed (std::terminate): every worker must be joined or detached first"); }
#endif
#ifdef CV_HAS_tv_push_back
/* push_back(std::thread&&): the thread (its id) moves to the end of the list; the list's array is the harness-allocated one (capacity tv_cap) */
cv_i64 tv_cap;
void tv_push_back(TVEC *v, THR *t) {
  tv_guard(v);
  if (TV(v)->b == 0) { TV(v)->b = gh_tv; TV(v)->e = gh_tv; TV(v)->c = gh_tv + tv_cap; }
  __CPROVER_assert(TV(v)->b == gh_tv && TV_N(v) < tv_cap, "model bound: capacity of the worker list");
  TV(v)->e->_M_id._M_thread = t->_M_id._M_thread; t->_M_id._M_thread = 0; TV(v)->e = TV(v)->e + 1; }
#endif
#ifdef CV_HAS_thr_ctor
/* std::thread::thread(F&&): starts a new thread running a copy of the callable; the object becomes joinable (fresh non-zero id, not the caller's) */
struct tp_ctor_model { cv_i64 n_started; cv_i8 wrong_this; } tc;
void thr_ctor(THR *t, LAMCTOR *f) {
  cv_i64 id = nondet_size_t(); __CPROVER_assume(id != 0 && id != gh_me);
  t->_M_id._M_thread = id; TP_GH_NOWRAP(tc.n_started); tc.n_started++;
  if (f->this != gh_pool) tc.wrong_this = 1; }
#endif
#ifdef CV_HAS_thr_join
void thr_join(THR *t) {
  __CPROVER_assert(!(gh_lock_depth > 0), "std::thread::join() while holding the pool mutex (the joined worker needs it to leave its loop: deadlock)");
  if (t == &gh_tv[gh_TK]) __CPROVER_assert(t->_M_id._M_thread != 0, "join() of a thread that is not joinable (std::system_error) - checked at the tracked index");
  __CPROVER_assert(t->_M_id._M_thread != gh_me, "a thread joins itself (resource_deadlock_would_occur / self-deadlock)");
#if !defined(CV_CHECK_C03) && !defined(TP_NO_JOIN_ORDER_CHECK)
  /* the job running on the joined worker may be waiting for one of the closures this thread swapped out of the queue (pool.run(g).wait()): their
   * cancellation is what releases it, so it must come BEFORE the join - otherwise the waiter hangs and the join never returns */
  __CPROVER_assert(tm.lq_len == 0 && tm.c_where != C_SWAPPED, "C11-JOIN-ORDER std::thread::join() while swapped-out closures are still un-cancelled (a running job waiting for one of them is never released: stop() deadlocks, the waiter is left hanging) - cancel before the first join");
#endif
  TP_GH_NOWRAP(tt.n_join); tt.n_join++; if (t == &gh_tv[gh_TK]) tt.t_join++;
  t->_M_id._M_thread = 0; }
#endif
#ifdef CV_HAS_thr_detach
void thr_detach(THR *t) {
  __CPROVER_assert(!(gh_lock_depth > 0), "std::thread::detach() while holding the pool mutex (thread management belongs outside the critical section)");
  if (t == &gh_tv[gh_TK]) __CPROVER_assert(t->_M_id._M_thread != 0, "detach() of a thread that is not joinable (std::system_error) - checked at the tracked index");
  TP_GH_NOWRAP(tt.n_detach); tt.n_detach++; if (t == &gh_tv[gh_TK]) tt.t_detach++;
  t->_M_id._M_thread = 0; }
#endif
#ifdef CV_HAS_thr_get_id
cv_i64 thr_get_id(THR *t) { return t->_M_id._M_thread; }      /* std::thread::get_id() const: the id word (0 = not joinable) */
#endif
cv_i64 cvx_pthread_self(void) { return gh_me; }

/* ---------------------------------------------------------------- std::condition_variable */
void _ZNSt18condition_variable10notify_oneEv(CONDV *cv) { __CPROVER_assert(!tm.pool_dead, "thread_pool::_cond used after the pool was destroyed"); TP_GH_NOWRAP(tm.n_notify_one); tm.n_notify_one++; }
void _ZNSt18condition_variable10notify_allEv(CONDV *cv) { __CPROVER_assert(!tm.pool_dead, "thread_pool::_cond used after the pool was destroyed"); TP_GH_NOWRAP(tm.n_notify_all); tm.n_notify_all++; }
void _ZNSt18condition_variable4waitERSt11unique_lockISt5mutexE(CONDV *cv, ULK *lk) {
  __CPROVER_assert(!tm.pool_dead, "thread_pool::_cond used after the pool was destroyed");
  __CPROVER_assert(lk->_M_owns == 1 && LOCKED(lk->_M_device), "condition_variable::wait() without owning the lock");
  TP_GH_NOWRAP(tm.n_wait); tm.n_wait++;
  cvx_pthread_mutex_unlock((struct S_union_pthread_mutex_t *)lk->_M_device);      /* atomically releases the mutex and blocks ...                 */
  cvx_pthread_mutex_lock((struct S_union_pthread_mutex_t *)lk->_M_device); }      /* ... re-acquires it before returning (rely step in the hook) */
void _ZNSt18condition_variableC1Ev(CONDV *cv) { }
void _ZNSt18condition_variableD1Ev(CONDV *cv) { }

/* ---------------------------------------------------------------- rely of the pool mutex, snapshots at acquisition / release */
static void tp_rely(TP *p) {
  if (TP_EXIT(p) == 0 && nondet_bool()) {                 /* some thread ran stop(): flag set, queue and worker list swapped out */
    if (TV(&p->_threads)->e != TV(&p->_threads)->b) tm.env_unjoined = 1;      /* ... into a local of THAT thread, which joins them some time later */
    TP_EXIT(p) = 1; tm.q_len = 0; TV(&p->_threads)->e = TV(&p->_threads)->b;
    if (tm.c_where == C_QUEUED) tm.c_where = C_TAKEN;
  } else if (TP_EXIT(p) == 0) {                           /* submitters pushed, workers popped */
    cv_i64 n = nondet_size_t(); __CPROVER_assume(n < (1ul << 40));
    if (tm.c_where == C_QUEUED && (n == 0 || nondet_bool())) tm.c_where = C_TAKEN;              /* another worker dequeued the tracked closure   */
    else if (tm.c_where == C_ELSEWHERE && n >= 1 && nondet_bool()) tm.c_where = C_QUEUED;       /* another thread submitted the tracked closure  */
    tm.q_len = n; }
  tm.front_valid = 0; }
void tp_on_lock(void *m) {
  __CPROVER_assert(!tm.pool_dead, "the pool mutex is used after the pool was destroyed");
  __CPROVER_assert(m == (void *)&gh_pool->_mx, "model: the mutex acquired is the pool mutex");
  if (tm.rely_on) tp_rely(gh_pool);
  TP_GH_NOWRAP(tm.n_cs); tm.n_cs++;
  tm.exit_at_lock = TP_EXIT(gh_pool); tm.len_at_lock = tm.q_len; tm.c_where_at_lock = tm.c_where;
#ifdef TP_TRACK_THREADS
  tm.nthr_at_lock = TV_N(&gh_pool->_threads);
#endif
}
void tp_on_unlock(void *m) {
  __CPROVER_assert(!tm.pool_dead, "the pool mutex is used after the pool was destroyed");
  __CPROVER_assert(m == (void *)&gh_pool->_mx, "model: the mutex released is the pool mutex");
  __CPROVER_assert(TP_EXIT(gh_pool) <= 1 && (TP_EXIT(gh_pool) == 0 || tm.q_len == 0), "pool invariant at release: a stopped pool holds no queued closure (nothing is accepted after the exit flag is set)");
  __CPROVER_assert(TP_EXIT(gh_pool) == 0 || TV(&gh_pool->_threads)->e == TV(&gh_pool->_threads)->b, "pool invariant at release: a stopped pool has handed its worker list to the stopping thread");
  __CPROVER_assert(tm.exit_at_lock == 0 || TP_EXIT(gh_pool) == 1, "the exit flag is never cleared (stopped threads cannot be restarted)");
  tm.exit_at_unlock = TP_EXIT(gh_pool); tm.len_at_unlock = tm.q_len; tm.thr_empty_at_unlock = TV(&gh_pool->_threads)->e == TV(&gh_pool->_threads)->b; }
