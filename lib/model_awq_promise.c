/* model_awq_promise.c - cocls::promise<T> (and the resolving side of cocls::future<T>) as ABSTRACT BOUNDARY CALLEES for the
 * awaitable-queue units (C09, C10).  queue.h only moves promises around and finally resolves each of them; what a resolution does
 * to the awaiting side (awaiter chain, resumption) is the subject of C01/C02 and is NOT translated here.
 * (lib/model_promise.c is a different, scheduler-oriented model of promise<void>; the two are never linked into the same unit.)
 *
 * A promise object is one word (_owner = the future it will resolve).  The ghost identity of a promise is that future pointer.
 * Every resolution performed by the code under verification is appended to the log gh_pr:
 *     id[i]     which promise (future pointer)          kind[i]  PR_VALUE / PR_EXC / PR_DROP (destroyed unresolved = broken promise)
 *     val[i]    the value (promise<int>)                 exc[i]   the exception object (PR_EXC)
 *     locked[i] was a std::mutex held by this thread at that moment (lock discipline: a parked promise is resolved after unlocking)
 * so a contract can say "exactly one resolution, of promise P, with value v, outside the lock".  gh_pr.lost counts calls on an
 * EMPTY promise (claim() fails: the value is silently discarded).  The log is bounded (PR_LOGMAX per call, checked).
 * Move construction transfers the identity and empties the source (claim()).  promise(future&) creates the promise of the future
 * that is being constructed by this thread (gh_pr.fresh): nobody can await that future yet.  The STATE of a future is abstract in
 * these units: "future F is ready with value v" means "the log contains exactly one entry (F, PR_VALUE, v)"; the future object
 * itself is only written by the real translated constructors (future(Fn&&) leaves it pending, future<void>::set_value() ready).
 * The suspend_point<bool> returned by a resolution carries the coroutines to resume (0..3 unknown handles, none for the fresh
 * future); its destructor (= resumption) is a boundary as well and records whether it ran under a lock.
 * Needs: lib/model_mutex.c before this file; type aliases SPB, EXCP and per instantiation PRI/FUTI (CV_MODEL_PROMISE_INT) and
 * PRV/FUTV (CV_MODEL_PROMISE_VOID); global alias AW_DISABLED (cocls::awaiter::disabled).  Trusted base. */
#define PR_VALUE 1
#define PR_EXC   2
#define PR_DROP  3
#define PR_LOGMAX 4
struct cv_pr_log {
  unsigned n;                    /* resolutions performed                                    */
  void *id[PR_LOGMAX]; int kind[PR_LOGMAX]; cv_i32 val[PR_LOGMAX]; void *exc[PR_LOGMAX]; int locked[PR_LOGMAX];
  unsigned lost;                 /* resolve calls on an empty promise (value discarded)       */
  void *fresh; unsigned fresh_n; /* future under construction / promises created from futures */
  unsigned sp_flush;             /* suspend_point<bool> results destroyed (= awaiting coroutines resumed) */
  unsigned sp_flush_locked;      /* ... of them non-empty while a mutex was held             */
} gh_pr;
#define PR_LOG_CLEAN (gh_pr.n == 0 && gh_pr.lost == 0 && gh_pr.fresh == 0 && gh_pr.fresh_n == 0 && gh_pr.sp_flush == 0 && gh_pr.sp_flush_locked == 0)
#define PR_OWNER(p)   ((p)->_owner._M_b._M_p)
#define FUT_AW(f)     ((f)->base_future_common._awaiter._M_b._M_p)
#define FUT_STATE(f)  ((f)->base_future_common._state)
#define FUT_PAYLOAD(f) ((void *)&(f)->f1)                                              /* the anonymous value/exception union (unnamed field 1) */
#define FUT_ST_NOT_VALUE 0
#define FUT_ST_VALUE     1
#define FUT_ST_EXCEPTION 3
#define FUT_READY(f)   (FUT_AW(f) == AW_DISABLED)
#define FUT_PENDING(f) (FUT_AW(f) == 0 && FUT_STATE(f) == FUT_ST_NOT_VALUE)            /* future(Fn&&): promise outstanding, nothing stored */

static void cv_pr_log(void *id, int kind, cv_i32 v, void *e) {
  __CPROVER_assert(gh_pr.n < PR_LOGMAX, "model bound: at most PR_LOGMAX promise resolutions per call");
  if (gh_pr.n < PR_LOGMAX) {
    gh_pr.id[gh_pr.n] = id; gh_pr.kind[gh_pr.n] = kind; gh_pr.val[gh_pr.n] = v; gh_pr.exc[gh_pr.n] = e; gh_pr.locked[gh_pr.n] = gh_lock_depth > 0 ? 1 : 0; }
  gh_pr.n++;
}
/* the suspend_point<bool> a resolution returns: `claimed` + the awaiting coroutines (unknown; none for the future under construction) */
static void cv_pr_result(SPB *ret, int claimed, int nobody_awaits) {
  cv_i32 k = nondet_unsigned(); __CPROVER_assume(k <= 3);
  if (!claimed || nobody_awaits) k = 0;
  ret->base_suspend_point._count_flag = k << 1;
  ret->value = claimed ? 1 : 0;
}
/* suspend_point<bool>::~suspend_point(): resumes what the suspend point holds */
void _ZN5cocls13suspend_pointIbED2Ev(SPB *sp) {
  gh_pr.sp_flush++;
  if ((sp->base_suspend_point._count_flag >> 1) != 0 && gh_lock_depth > 0) gh_pr.sp_flush_locked++;
  sp->base_suspend_point._count_flag = 0;
}

#define CV_DEF_PROMISE(PR, FUT, MOVE_CTOR, FUT_CTOR, DTOR, SET_EXC) \
  void MOVE_CTOR(PR *this_, PR *other) { PR_OWNER(this_) = PR_OWNER(other); PR_OWNER(other) = 0; }                                   \
  void FUT_CTOR(PR *this_, FUT *f)     { PR_OWNER(this_) = f; gh_pr.fresh = f; gh_pr.fresh_n++; }                                    \
  void DTOR(PR *this_)                 { FUT *f = PR_OWNER(this_); PR_OWNER(this_) = 0;                                             \
    if (f) { cv_pr_log(f, PR_DROP, 0, 0);  } }                             \
  void SET_EXC(SPB *ret, PR *this_, EXCP *e) { FUT *f = PR_OWNER(this_); PR_OWNER(this_) = 0;                                        \
    if (f) { cv_pr_log(f, PR_EXC, 0, e->_M_exception_object); if (e->_M_exception_object) gh_ep_addref++;   /* the future keeps a reference */                                                                        \
      } \
    else gh_pr.lost++;                                                                                                               \
    cv_pr_result(ret, f != 0, (void *)f == gh_pr.fresh); }

#ifdef CV_MODEL_PROMISE_INT
CV_DEF_PROMISE(PRI, FUTI, _ZN5cocls7promiseIiEC2EOS1_, _ZN5cocls7promiseIiEC2ERNS_6futureIiEE, _ZN5cocls7promiseIiED2Ev,
               _ZN5cocls7promiseIiE13set_exceptionENSt15__exception_ptr13exception_ptrE)
/* promise<int>::operator()(int&&) */
void _ZN5cocls7promiseIiEclIJiEEENS_13suspend_pointIbEEDpOT_(SPB *ret, PRI *this_, cv_i32 *v) {
  FUTI *f = PR_OWNER(this_); PR_OWNER(this_) = 0;
  if (f) { cv_pr_log(f, PR_VALUE, *v, 0);
    }
  else gh_pr.lost++;
  cv_pr_result(ret, f != 0, (void *)f == gh_pr.fresh); }
#define FUTI_VALUE(f) (*(cv_i32 *)FUT_PAYLOAD(f))
#endif

#ifdef CV_MODEL_PROMISE_VOID
CV_DEF_PROMISE(PRV, FUTV, _ZN5cocls7promiseIvEC2EOS1_, _ZN5cocls7promiseIvEC2ERNS_6futureIvEE, _ZN5cocls7promiseIvED2Ev,
               _ZN5cocls7promiseIvE13set_exceptionENSt15__exception_ptr13exception_ptrE)
/* promise<void>::operator()() */
void _ZN5cocls7promiseIvEclIJEEENS_13suspend_pointIbEEDpOT_(SPB *ret, PRV *this_) {
  FUTV *f = PR_OWNER(this_); PR_OWNER(this_) = 0;
  if (f) { cv_pr_log(f, PR_VALUE, 0, 0);
    }
  else gh_pr.lost++;
  cv_pr_result(ret, f != 0, (void *)f == gh_pr.fresh); }
#endif
