/* model_pubsub_dtor.c - extension of lib/model_pubsub.c (include it AFTER model_pubsub.c): the DESTRUCTORS of the retained-values deque and of the
 * registration vector of cocls::publisher<int>::queue (the wake-up buffer's destructor is part of model_pubsub.c).  Assumed contract: a destructor
 * releases the container's storage and does nothing else - in particular it resumes nobody (the elements are ints / PODs / raw pointers: no element
 * destructor runs).  Counted, so that "each member is destroyed exactly once" is an obligation of the queue's destructor.  Destruction is exclusive
 * (the last shared_ptr owner runs it): no lock-discipline obligation.  Trusted base of C16. */
cv_i32 gh_dq_dtor, gh_rg_dtor;
#define DTOR_MODEL_ASSIGNS gh_dq_dtor, gh_rg_dtor, dq_len, rg_n, rg_other_idx
void _ZNSt5dequeIiSaIiEED2Ev(DQI *d) { gh_dq_dtor++; dq_len = 0; }
void _ZNSt6vectorIN5cocls9publisherIiE5queue8subreg_tESaIS4_EED2Ev(RGV *v) { gh_rg_dtor++; rg_n = 0; rg_other_idx = RG_NONE; }
