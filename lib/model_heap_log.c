/* model_heap_log.c - heap primitive WITH A LOG of the most recent allocation / release (used by C19, storage policies).
 * Same semantics as the heap primitive of rt_core.c (operator new/delete = malloc/free + gh_allocs/gh_frees; allocation failure
 * assumed away; CBMC's double-free / use-after-free / bounds checks apply), plus three ghosts written only here:
 *     gh_last_new, gh_last_new_sz : the block returned by the most recent operator new and the size that was asked for
 *     gh_last_del                 : the (non-null) block handed to the most recent operator delete
 * so a contract can say "the returned block IS the one block allocated in this call and n bytes were asked for"
 * (gh_allocs == old+1 && ret == gh_last_new && gh_last_new_sz == n) and "exactly ptr was released, once"
 * (gh_frees == old+1 && gh_last_del == ptr) instead of only counting.
 * Use: lib = ['rt_core.c', ..., 'model_heap_log.c'] together with defines = ['CV_NO_HEAP_PRIMS 1'] (rt_core.c then omits its own
 * operator new/delete).  Trusted base. */
#ifndef CV_NO_HEAP_PRIMS
#error "model_heap_log.c replaces the heap primitive of rt_core.c: add 'CV_NO_HEAP_PRIMS 1' to the unit's defines"
#endif
cv_i8 *gh_last_new; cv_i64 gh_last_new_sz; cv_i8 *gh_last_del;
#define CV_HEAPLOG gh_allocs, gh_frees, gh_last_new, gh_last_new_sz, gh_last_del      /* for assigns clauses */
static cv_i8 *cv_heap_new(cv_i64 n) { gh_allocs++; cv_i8 *p = malloc(n); __CPROVER_assume(p != 0); gh_last_new = p; gh_last_new_sz = n; return p; }
static void cv_heap_del(cv_i8 *p) { if (p) { gh_frees++; gh_last_del = p; } free(p); }
cv_i8 *_Znwm(cv_i64 n) { return cv_heap_new(n); }
cv_i8 *_Znam(cv_i64 n) { return cv_heap_new(n); }
void _ZdlPv(cv_i8 *p) { cv_heap_del(p); }
void _ZdaPv(cv_i8 *p) { cv_heap_del(p); }
void _ZdlPvm(cv_i8 *p, cv_i64 n) { cv_heap_del(p); }
void _ZdaPvm(cv_i8 *p, cv_i64 n) { cv_heap_del(p); }
