/* rt_atomic_protM.c - atomic instruction primitives for the thread-modular units of protocol M (cocls::mutex::_requests).
 * Trusted base.  Same structure as rt_atomic_protF.c: environment step (rely), the operation at that instant, guarantee check,
 * release/acquire bookkeeping (obligations labelled C03 are compiled in only for the C03 run), ownership bookkeeping.
 *
 * Cell values: NULL = free; DOORMAN (&awaiter::instance) = held, no pending request; anything else = held, LIFO chain of requests whose
 * bottom is DOORMAN, or NULL below the request that found the mutex free.  Token MXOWN: free <=> cell == NULL.
 * Rely while I hold the token: others only push requests.  While I do not hold it: the cell can be anything (holders come and go).
 * A request node pushed onto a non-NULL value belongs to the holder FROM THAT INSTANT: the holder may detach the chain, relink the
 * node (x->_next = _queue) and resume its owner at any time - modelled by havocking the node's link right at the publishing CAS and by
 * gh_node_own = OWN_HOLDER (contracts forbid looking at the node afterwards by their postconditions). */
enum { MX_NOT_MINE = 0, MX_ME = 1, MX_RELEASED = 2, MX_HANDED = 3 };
enum { OWN_NONE = 0, OWN_ME = 1, OWN_HOLDER = 2 };
void **gh_M_cell; void *gh_DOORMAN; int gh_mx_tok; void *gh_my_node; int gh_node_own; void *gh_seen; int gh_n_cell_rmw;
void *gh_push_next; int gh_acquired_by_push, gh_acquired_by_trylock, gh_released, gh_detached; void *gh_detached_chain;
#define PROTM_GHOSTS gh_mx_tok, gh_my_node, gh_node_own, gh_seen, gh_n_cell_rmw, gh_push_next, gh_acquired_by_push, gh_acquired_by_trylock, gh_released, gh_detached, gh_detached_chain
#ifdef CV_CHECK_C03
#define C03_ASSERT(c, msg) __CPROVER_assert(c, msg)
#else
#define C03_ASSERT(c, msg)
#endif
#ifndef CV_M_NODE_NEXT
#define CV_M_NODE_NEXT(n) (*(void **)(n))      /* awaiter::_next is the first member */
#endif
#define HAS_REL(o) ((o) == 3 || (o) == 4 || (o) == 5)
#define HAS_ACQ(o) ((o) == 1 || (o) == 2 || (o) == 4 || (o) == 5)
/* invariant of the protocol as seen by one thread */
#define PROTM_WF (gh_DOORMAN != 0 && gh_M_cell != 0 && (gh_mx_tok == MX_ME ==> *gh_M_cell != 0))

static void protM_env(void) {
  if (gh_mx_tok == MX_ME) {                       /* others may only push requests on top */
    if (nondet_bool()) { void *h = nondet_ptr(); __CPROVER_assume(h != 0 && h != gh_DOORMAN && h != gh_my_node); *gh_M_cell = h; }
  } else {                                        /* somebody else (or nobody) holds it: any protocol value */
    void *h = nondet_ptr(); __CPROVER_assume(gh_my_node == 0 || h != gh_my_node || gh_node_own == OWN_HOLDER); *gh_M_cell = h; }
}
cv_i64 cv_atomic_load_i64(cv_i64 *p, int ord) {
  if ((void **)p == gh_M_cell) { protM_env(); return (cv_i64)*gh_M_cell; }
  return *p; }
void cv_atomic_store_i64(cv_i64 *p, cv_i64 v, int ord) {
  if ((void **)p == gh_M_cell) {
    protM_env();
    __CPROVER_assert(0, "protocol M: plain atomic store to the request cell (a request pushed concurrently would be lost / the mutex left ownerless)");
    *gh_M_cell = (void *)v; return; }
  *p = v; }
cv_i1 cv_cmpxchg_i64(cv_i64 *p, cv_i64 *expected, cv_i64 desired, int weak, int so, int fo) {
  if ((void **)p == gh_M_cell) {
    protM_env();
    void *cur = *gh_M_cell; void *d = (void *)desired;
    if (cur == (void *)*expected && !(weak && nondet_bool())) {
      if (cur == 0 && d == gh_DOORMAN) {                                   /* try-lock */
        __CPROVER_assert(gh_mx_tok != MX_ME, "protocol M: try-lock by the current owner");
        C03_ASSERT(HAS_ACQ(so), "C03: acquiring the mutex by try-lock CAS needs acquire semantics (critical-section data of the previous owner)");
        gh_mx_tok = MX_ME; gh_acquired_by_trylock++;
      } else if (d == gh_my_node && d != 0) {                              /* push my request */
        __CPROVER_assert(gh_node_own == OWN_ME, "protocol M: a request node may be pushed only by its owner, once");
        C03_ASSERT(HAS_REL(so), "C03: the CAS that publishes a request must have release semantics (node fields)");
        gh_push_next = CV_M_NODE_NEXT(d);
        if (cur == 0) { gh_mx_tok = MX_ME; gh_acquired_by_push++; }        /* found it free: I own the mutex, the node stays mine */
        else { gh_node_own = OWN_HOLDER; CV_M_NODE_NEXT(d) = nondet_ptr(); }   /* held: the node is the holder's from this instant */
      } else if (cur == gh_DOORMAN && d == 0) {                            /* release */
        __CPROVER_assert(gh_mx_tok == MX_ME, "protocol M: only the owner may release the mutex");
        C03_ASSERT(HAS_REL(so), "C03: releasing the mutex needs release semantics (critical-section data)");
        gh_mx_tok = MX_RELEASED; gh_released++;
      } else {
        __CPROVER_assert(0, "protocol M: compare-exchange transition not allowed by the protocol"); }
      gh_seen = cur; gh_n_cell_rmw++;
      *gh_M_cell = d; return 1; }
    *expected = (cv_i64)cur; return 0; }
  cv_i64 old = *p;
  if (old == *expected && !(weak && nondet_bool())) { *p = desired; return 1; }
  *expected = old; return 0; }
cv_i64 cv_atomic_xchg_i64(cv_i64 *p, cv_i64 v, int ord) {
  if ((void **)p == gh_M_cell) {
    protM_env();
    void *old = *gh_M_cell;
    __CPROVER_assert((void *)v == gh_DOORMAN, "protocol M: the request cell is only ever exchanged with the doorman");
    __CPROVER_assert(gh_mx_tok == MX_ME, "protocol M: only the owner may detach the request chain");
    C03_ASSERT(HAS_ACQ(ord), "C03: detaching the request chain needs acquire semantics (node links; critical-section data when the mutex was found free)");
    gh_detached++; gh_detached_chain = old; gh_seen = old; gh_n_cell_rmw++;
    *gh_M_cell = (void *)v; return (cv_i64)old; }
  cv_i64 old = *p; *p = v; return old; }
void cv_fence(int ord) {}
cv_i64 cv_atomic_add_i64(cv_i64 *p, cv_i64 v, int ord) { cv_i64 o = *p; *p = o + v; return o; }
cv_i64 cv_atomic_sub_i64(cv_i64 *p, cv_i64 v, int ord) { cv_i64 o = *p; *p = o - v; return o; }
cv_i64 cv_atomic_or_i64(cv_i64 *p, cv_i64 v, int ord) { cv_i64 o = *p; *p = o | v; return o; }
cv_i64 cv_atomic_and_i64(cv_i64 *p, cv_i64 v, int ord) { cv_i64 o = *p; *p = o & v; return o; }
#define CV_DEF_ATOMIC_SEQ(sfx, T) \
  T cv_atomic_load_##sfx(T *p, int ord) { return *p; } \
  void cv_atomic_store_##sfx(T *p, T v, int ord) { *p = v; } \
  cv_i1 cv_cmpxchg_##sfx(T *p, T *expected, T desired, int weak, int so, int fo) { \
    T old = *p; if (old == *expected && !(weak && nondet_bool())) { *p = desired; return 1; } *expected = old; return 0; } \
  T cv_atomic_xchg_##sfx(T *p, T v, int ord) { T old = *p; *p = v; return old; } \
  T cv_atomic_add_##sfx(T *p, T v, int ord) { T old = *p; *p = old + v; return old; } \
  T cv_atomic_sub_##sfx(T *p, T v, int ord) { T old = *p; *p = old - v; return old; } \
  T cv_atomic_or_##sfx(T *p, T v, int ord) { T old = *p; *p = old | v; return old; } \
  T cv_atomic_and_##sfx(T *p, T v, int ord) { T old = *p; *p = old & v; return old; }
CV_DEF_ATOMIC_SEQ(i8, cv_i8)
CV_DEF_ATOMIC_SEQ(i32, cv_i32)
