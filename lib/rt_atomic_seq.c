/* rt_atomic_seq.c - atomic instructions for *sequential* units: no interference, orders ignored.
 * Thread-modular units do not link this file; they supply protocol primitives (DESIGN 3.3). */
/* bounded drives of single-threaded scenarios define CV_NO_SPURIOUS_CAS: a spurious failure of a weak CAS only adds a retry */
#ifdef CV_NO_SPURIOUS_CAS
#define CV_SPURIOUS(weak) 0
#else
#define CV_SPURIOUS(weak) ((weak) && nondet_bool())
#endif
#define CV_DEF_ATOMIC(sfx, T) \
  T cv_atomic_load_##sfx(T *p, int ord) { return *p; } \
  void cv_atomic_store_##sfx(T *p, T v, int ord) { *p = v; } \
  cv_i1 cv_cmpxchg_##sfx(T *p, T *expected, T desired, int weak, int so, int fo) { \
    T old = *p; if (old == *expected && !CV_SPURIOUS(weak)) { *p = desired; return 1; } *expected = old; return 0; } \
  T cv_atomic_xchg_##sfx(T *p, T v, int ord) { T old = *p; *p = v; return old; } \
  T cv_atomic_add_##sfx(T *p, T v, int ord) { T old = *p; *p = old + v; return old; } \
  T cv_atomic_sub_##sfx(T *p, T v, int ord) { T old = *p; *p = old - v; return old; } \
  T cv_atomic_or_##sfx(T *p, T v, int ord) { T old = *p; *p = old | v; return old; } \
  T cv_atomic_and_##sfx(T *p, T v, int ord) { T old = *p; *p = old & v; return old; }
CV_DEF_ATOMIC(i8, cv_i8)
CV_DEF_ATOMIC(i32, cv_i32)
CV_DEF_ATOMIC(i64, cv_i64)
/* 64-bit atomics that ir2c recognised as views of pointer-typed memory (bitcast T** -> i64*, libstdc++'s atomic<T*>): the cell is accessed
 * as a pointer so that symbolic execution keeps concrete pointer values instead of opaque integers */
cv_i64 cv_p64_load(void **p, int ord) { return (cv_i64)*p; }
void cv_p64_store(void **p, cv_i64 v, int ord) { *p = (void *)v; }
cv_i1 cv_p64_cmpxchg(void **p, cv_i64 *expected, cv_i64 desired, int weak, int so, int fo) {
  void *old = *p; if (old == (void *)*expected && !CV_SPURIOUS(weak)) { *p = (void *)desired; return 1; } *expected = (cv_i64)old; return 0; }
cv_i64 cv_p64_xchg(void **p, cv_i64 v, int ord) { void *old = *p; *p = (void *)v; return (cv_i64)old; }
#define CV_P64_LOAD(p, o) cv_p64_load((void **)(p), o)
#define CV_P64_STORE(p, v, o) cv_p64_store((void **)(p), v, o)
#define CV_P64_CMPXCHG(p, e, d, w, so, fo) cv_p64_cmpxchg((void **)(p), e, d, w, so, fo)
#define CV_P64_XCHG(p, v, o) cv_p64_xchg((void **)(p), v, o)
void cv_fence(int ord) {}
