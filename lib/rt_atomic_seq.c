/* rt_atomic_seq.c - atomic instructions for *sequential* units: no interference, orders ignored.
 * Thread-modular units do not link this file; they supply protocol primitives (DESIGN 3.3). */
#define CV_DEF_ATOMIC(sfx, T) \
  T cv_atomic_load_##sfx(T *p, int ord) { return *p; } \
  void cv_atomic_store_##sfx(T *p, T v, int ord) { *p = v; } \
  cv_i1 cv_cmpxchg_##sfx(T *p, T *expected, T desired, int weak, int so, int fo) { \
    T old = *p; if (old == *expected && !(weak && nondet_bool())) { *p = desired; return 1; } *expected = old; return 0; } \
  T cv_atomic_xchg_##sfx(T *p, T v, int ord) { T old = *p; *p = v; return old; } \
  T cv_atomic_add_##sfx(T *p, T v, int ord) { T old = *p; *p = old + v; return old; } \
  T cv_atomic_sub_##sfx(T *p, T v, int ord) { T old = *p; *p = old - v; return old; } \
  T cv_atomic_or_##sfx(T *p, T v, int ord) { T old = *p; *p = old | v; return old; } \
  T cv_atomic_and_##sfx(T *p, T v, int ord) { T old = *p; *p = old & v; return old; }
CV_DEF_ATOMIC(i8, cv_i8)
CV_DEF_ATOMIC(i32, cv_i32)
CV_DEF_ATOMIC(i64, cv_i64)
void cv_fence(int ord) {}
