/* model_vec_heap_moves.c - variant of model_vec_heap_concrete.c whose heap algorithms move the elements EXACTLY as libstdc++ 12 does
 * (bits/stl_heap.h: push_heap / __push_heap / pop_heap / __pop_heap / __adjust_heap), i.e. through the REAL translated
 * SchItem(SchItem&&), SchItem::operator=(SchItem&&) and ~SchItem() (macros VEC_ITEM_MOVE, VEC_ITEM_MOVE_ASSIGN, VEC_ITEM_DTOR) instead of plain
 * structure copies: a move that loses, duplicates or drops the promise of an entry shows up in the drive ("no promise is dropped inside
 * the scheduler", reference table of the sleeps).  promise<void>::operator=(promise&&), which the real SchItem::operator= calls, is supplied by the
 * including spec as proved in unit pr_move_assign (the overwritten promise, if live, is dropped = completed without a value; the source is
 * emptied).  Required macros in addition: VEC_ITEM_MOVE_ASSIGN.  The rest of the text below is that of
 * model_vec_heap_concrete.c:
 * BOUNDED, concrete counterpart of model_vec_heap.c for drives of cocls::scheduler (C12):
 * std::vector<scheduler::SchItem> as a real array of capacity CVEC_CAP and textbook binary-heap implementations of std::push_heap /
 * std::pop_heap (sift up / sift down with the comparator that is passed in, i.e. the REAL translated compare_item) and a linear
 * std::find_if with the REAL translated predicate.  Any correct implementation of the standard's contracts will do for a drive; this one
 * is used to cross-check the abstract model and the per-function contracts on short concrete histories.  Elements are moved by plain
 * structure copies (a promise is one owner word); the REAL SchItem(SchItem&&) / ~SchItem() run in push_back / pop_back / ~vector.
 * Same precondition obligations as the abstract model.  Required macros: VEC_GUARD, VEC_ITEM_MOVE, VEC_ITEM_DTOR, VEC_FIND_PRED. */
#ifndef CVEC_CAP
#define CVEC_CAP 3
#endif
#define CVEC_LEVELS 2                    /* depth of a binary heap with at most CVEC_CAP <= 3 elements (loops are bounded by constants for the symbolic executor) */
#if CVEC_CAP > 3
#error "raise CVEC_LEVELS together with CVEC_CAP"
#endif
ITEM cvec_a[CVEC_CAP + 1]; cv_i64 cvec_n; unsigned gh_vec_dtor;
#define VEC_ASSERT(c, msg) do { __CPROVER_assert(c, msg); __CPROVER_assume(c); } while (0)
void _ZNSt6vectorIN5cocls9scheduler7SchItemESaIS2_EEC2Ev(VECT *v) { cvec_n = 0; }
void _ZNSt6vectorIN5cocls9scheduler7SchItemESaIS2_EED2Ev(VECT *v) { for (int i = 0; i < CVEC_CAP; i++) if (i < cvec_n) VEC_ITEM_DTOR(&cvec_a[i]); cvec_n = 0; gh_vec_dtor++; }
cv_i1 _ZNKSt6vectorIN5cocls9scheduler7SchItemESaIS2_EE5emptyEv(VECT *v) { VEC_GUARD(v); return cvec_n == 0 ? 1 : 0; }
cv_i64 _ZNKSt6vectorIN5cocls9scheduler7SchItemESaIS2_EE4sizeEv(VECT *v) { VEC_GUARD(v); return cvec_n; }
ITEM *_ZNSt6vectorIN5cocls9scheduler7SchItemESaIS2_EEixEm(VECT *v, cv_i64 i) {
  VEC_GUARD(v); VEC_ASSERT(i < cvec_n, "std::vector<SchItem>::operator[]: index within size()"); return &cvec_a[i]; }
ITEM *_ZNSt6vectorIN5cocls9scheduler7SchItemESaIS2_EE5beginEv(VECT *v) { VEC_GUARD(v); return &cvec_a[0]; }
ITEM *_ZNSt6vectorIN5cocls9scheduler7SchItemESaIS2_EE3endEv(VECT *v) { VEC_GUARD(v); return &cvec_a[cvec_n]; }
void _ZNSt6vectorIN5cocls9scheduler7SchItemESaIS2_EE9push_backEOS2_(VECT *v, ITEM *x) {
  VEC_GUARD(v); VEC_ASSERT(cvec_n < CVEC_CAP, "drive bound: capacity of the concrete vector"); VEC_ITEM_MOVE(&cvec_a[cvec_n], x); cvec_n++; }
void _ZNSt6vectorIN5cocls9scheduler7SchItemESaIS2_EE8pop_backEv(VECT *v) {
  VEC_GUARD(v); VEC_ASSERT(cvec_n > 0, "std::vector<SchItem>::pop_back() on a non-empty vector"); cvec_n--; VEC_ITEM_DTOR(&cvec_a[cvec_n]); }
#define CVEC_WHOLE(first, last) ((first) == &cvec_a[0] && (last) == &cvec_a[cvec_n])
#ifndef VEC_ITEM_MOVE_ASSIGN
#error "model_vec_heap_moves.c needs VEC_ITEM_MOVE_ASSIGN(dst, src) = the real translated SchItem::operator=(SchItem&&)"
#endif
/* std::__push_heap(first, holeIndex, topIndex, value, comp) */
static void cvec_push_heap_(cv_i64 hole, cv_i64 top, ITEM *value, cv_i1 (*comp)(ITEM *, ITEM *)) {
  for (int lvl = 0; lvl < CVEC_LEVELS; lvl++) { if (!(hole > top)) break; cv_i64 parent = (hole - 1) / 2; if (!comp(&cvec_a[parent], value)) break;
    VEC_ITEM_MOVE_ASSIGN(&cvec_a[hole], &cvec_a[parent]); hole = parent; }
  VEC_ITEM_MOVE_ASSIGN(&cvec_a[hole], value); }
void _ZSt9push_heapIN9__gnu_cxx17__normal_iteratorIPN5cocls9scheduler7SchItemESt6vectorIS4_SaIS4_EEEEPFbRKS4_SB_EEvT_SE_T0_(ITEM *first, ITEM *last, cv_i1 (*comp)(ITEM *, ITEM *)) {
  VEC_GUARD((VECT *)0);
  VEC_ASSERT(CVEC_WHOLE(first, last) && cvec_n > 0, "std::push_heap: applied to the whole non-empty vector");
  ITEM value; VEC_ITEM_MOVE(&value, &cvec_a[cvec_n - 1]);                   /* _ValueType __value = std::move(*(__last - 1)); */
  cvec_push_heap_(cvec_n - 1, 0, &value, comp);
  VEC_ITEM_DTOR(&value); }
/* std::__adjust_heap(first, holeIndex, len, value, comp) */
static void cvec_adjust_heap_(cv_i64 hole, cv_i64 len, ITEM *value, cv_i1 (*comp)(ITEM *, ITEM *)) {
  cv_i64 top = hole, child = hole;
  for (int lvl = 0; lvl < CVEC_LEVELS; lvl++) { if (!(child < (len - 1) / 2)) break; child = 2 * (child + 1); if (comp(&cvec_a[child], &cvec_a[child - 1])) child--;
    VEC_ITEM_MOVE_ASSIGN(&cvec_a[hole], &cvec_a[child]); hole = child; }
  if ((len & 1) == 0 && child == (len - 2) / 2) { child = 2 * (child + 1); VEC_ITEM_MOVE_ASSIGN(&cvec_a[hole], &cvec_a[child - 1]); hole = child - 1; }
  cvec_push_heap_(hole, top, value, comp); }
void _ZSt8pop_heapIN9__gnu_cxx17__normal_iteratorIPN5cocls9scheduler7SchItemESt6vectorIS4_SaIS4_EEEEPFbRKS4_SB_EEvT_SE_T0_(ITEM *first, ITEM *last, cv_i1 (*comp)(ITEM *, ITEM *)) {
  VEC_GUARD((VECT *)0);
  VEC_ASSERT(CVEC_WHOLE(first, last) && cvec_n > 0, "std::pop_heap: applied to the whole non-empty vector");
  if (cvec_n < 2) return;
  cv_i64 len = cvec_n - 1;                                                    /* --__last; std::__pop_heap(__first, __last, __last, __cmp) */
  ITEM value; VEC_ITEM_MOVE(&value, &cvec_a[len]);                            /* _ValueType __value = std::move(*__result); */
  VEC_ITEM_MOVE_ASSIGN(&cvec_a[len], &cvec_a[0]);                             /* *__result = std::move(*__first); */
  cvec_adjust_heap_(0, len, &value, comp);
  VEC_ITEM_DTOR(&value); }
#ifdef CV_HAS_vec_find_if
ITEM *vec_find_if(ITEM *first, ITEM *last, cv_i8 **pred) {
  VEC_GUARD((VECT *)0);
  VEC_ASSERT(CVEC_WHOLE(first, last), "std::find_if: applied to the whole vector [begin(), end())");
  cv_i8 **closure = pred;
  for (int i = 0; i < CVEC_CAP; i++) if (i < cvec_n && VEC_FIND_PRED(&closure, &cvec_a[i])) return &cvec_a[i];
  return &cvec_a[cvec_n]; }
#endif
