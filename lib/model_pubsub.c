/* model_pubsub.c - assumed contracts on the std containers used by cocls::publisher<int>::queue (publisher.h) and the abstract
 * awaiter::resume() callee.  Trusted base of C16.  Requires the type aliases (units.py `types`):
 *   QT (publisher<int>::queue)  SUBREG (queue::subreg_t)  RGV (std::vector<subreg_t>)  RGIT (its __normal_iterator)
 *   DQI (std::deque<int>)  WBV (std::vector<awaiter*>)  WBIT (its __normal_iterator)  AWT (cocls::awaiter)  SPT (suspend_point<void>)
 * and lib/model_mutex.c (LOCKED).  The guarded containers are members of a queue object: its address is derived from theirs.
 *
 * (1) std::deque<int> _q - the retained values, most recent first.  Abstract state: a WINDOW over an absolute numbering of the
 *     pushed elements: dq_front = absolute id of element [0], dq_len = size; element [i] has id dq_front - i; push_front gives
 *     the new element id dq_front+1; resize(n) (n <= size) drops the ids <= dq_front - n.  Content is tracked for ONE
 *     arbitrary-but-fixed absolute id gh_P (ghost index idiom): dq_trk.  Reads of other ids return an arbitrary value.
 *     (The unit's invariant identifies ids with stream positions: dq_front == _pos-1, so dq_trk is "gh_stream[gh_P]".)
 * (2) std::vector<subreg_t> _regs - size rg_n; content tracked for ONE arbitrary-but-fixed index gh_RH in the real object rg_trk;
 *     a reference to any other slot i is a reference to the scratch object rg_other (rg_other_idx == i); when a slot other than
 *     the one referenced last is referenced, rg_other is havocked and then constrained by the unit's hook PS_ON_REG_OTHER(i)
 *     (instances of the unit's invariant for "every other slot"); RG_NONE in rg_other_idx = no slot cached (units pin this at
 *     entry and after every rely step).  Iterators are position-encoded pointers that are never dereferenced by translated code (operator*, ->, ++, ==
 *     are part of the model).  Limitation (trusted): the code never holds references to two different untracked slots at once.
 * (3) std::vector<awaiter*> (the wake-up buffer, its moved-to local copy): per-object length kept in the object's first word;
 *     content abstracted w.r.t. ONE arbitrary-but-fixed awaiter gh_AW: how often it was pushed since clear() (wb_cnt) and the
 *     index of its first occurrence (wb_idx).  Exact for "== gh_AW" while wb_cnt <= 1; wb_cnt >= 2 = nothing known.  The
 *     abstraction follows the content through the move constructor; a swap makes it "unknown" until the next clear().
 * (4) awaiter::resume(): abstract callee - counts resumptions (all: gh_n_res, of gh_AW: gh_n_res_AW), obligation "not while the
 *     queue mutex is held", returns an empty suspend point; hook PS_ON_RESUME(a) lets a unit add environment steps.
 * Preconditions of the real containers (operator[] in range, ...) are obligations (__CPROVER_assert) on the cocls code; every access
 * to a guarded container additionally carries the lock-discipline obligation "queue mutex held" (DESIGN 3.4) unless
 * PS_NO_LOCKCHK is defined by the unit. */
QT *ps_q;                                         /* the queue object of the unit, for the unit's hooks.  ASSIGNED by the harness
                                                     (CBMC cannot dereference a pointer it only knows through an assumed equality) */
#define PS_Q_OF(member, p) ((QT *)((cv_i8 *)(p) - __builtin_offsetof(QT, member)))
#ifndef PS_NO_LOCKCHK
#define PS_LOCKCHK(member, p, what) __CPROVER_assert(LOCKED(&PS_Q_OF(member, p)->_mx), what ": queue mutex held (lock discipline)")
#else
#define PS_LOCKCHK(member, p, what)
#endif
#ifndef PS_ON_REG_OTHER
#define PS_ON_REG_OTHER(i)
#endif
#ifndef PS_ON_RESUME
#define PS_ON_RESUME(a)
#endif
#define PS_BIG (1ul << 40)

/* ---------------------------------------------------------------- (1) std::deque<int> */
cv_i64 dq_front, dq_len;                          /* absolute id of element [0]; size                                  */
cv_i64 gh_P; cv_i32 dq_trk;                       /* tracked absolute id and the value stored under it                 */
cv_i32 dq_slot;                                   /* storage a returned reference points to                            */
#define DQ_INWIN(a) ((a) <= dq_front && dq_front - (a) < dq_len)          /* id a is currently retained                 */
#define DQ_MODEL_ASSIGNS dq_front, dq_len, dq_trk, dq_slot
cv_i64 _ZNKSt5dequeIiSaIiEE4sizeEv(DQI *d) { PS_LOCKCHK(_q, d, "std::deque<int>::size()"); return dq_len; }
static void ps_dq_push_front(cv_i32 v) {
  __CPROVER_assume(dq_front < (1ul << 62) && dq_len < (1ul << 62));       /* ghost numbering is mathematical        */
  dq_front++; dq_len++; if (dq_front == gh_P) dq_trk = v; }
void _ZNSt5dequeIiSaIiEE10push_frontERKi(DQI *d, cv_i32 *v) { PS_LOCKCHK(_q, d, "std::deque<int>::push_front"); ps_dq_push_front(*v); }
void _ZNSt5dequeIiSaIiEE10push_frontEOi(DQI *d, cv_i32 *v) { PS_LOCKCHK(_q, d, "std::deque<int>::push_front"); ps_dq_push_front(*v); }
cv_i32 *_ZNSt5dequeIiSaIiEEixEm(DQI *d, cv_i64 i) {
  PS_LOCKCHK(_q, d, "std::deque<int>::operator[]");
  __CPROVER_assert(i < dq_len, "std::deque<int>::operator[]: index in range");
  cv_i32 other; dq_slot = (dq_front - i == gh_P) ? dq_trk : other; return &dq_slot; }
void _ZNSt5dequeIiSaIiEE6resizeEm(DQI *d, cv_i64 n) {
  PS_LOCKCHK(_q, d, "std::deque<int>::resize");
  __CPROVER_assert(n <= dq_len, "model precondition: std::deque<int>::resize never grows the deque (growing would insert value-initialised items into the stream)");
  if (n < dq_len) dq_len = n; }
/* std::copy(first, last, std::front_inserter(_q)) == push_front(first[0]), push_front(first[1]), ...  (assumed contract) */
DQI *_ZSt4copyIPKiSt21front_insert_iteratorISt5dequeIiSaIiEEEET0_T_S8_S7_(cv_i32 *first, cv_i32 *last, DQI *d) {
  PS_LOCKCHK(_q, d, "std::copy -> std::deque<int>::push_front");
  __CPROVER_assert(__CPROVER_same_object(first, last) && __CPROVER_POINTER_OFFSET(first) <= __CPROVER_POINTER_OFFSET(last), "std::copy: [first,last) is a valid range");
  cv_i64 n = (cv_i64)(last - first);
  __CPROVER_assume(dq_front < (1ul << 62) && dq_len < (1ul << 62) && n < (1ul << 61));
  if (gh_P > dq_front && gh_P - dq_front <= n) dq_trk = first[gh_P - dq_front - 1];
  dq_front += n; dq_len += n; return d; }

/* ---------------------------------------------------------------- (2') std::vector<subreg_t>, array-backed variant (PS_ARRAY_REGS)
 * for BOUNDED units that need every slot at once (free-list shape): at most PS_ARRAY_REGS slots, all real. */
#ifdef PS_ARRAY_REGS
cv_i64 rg_n; SUBREG ar_slots[PS_ARRAY_REGS];
cv_i64 gh_RH; SUBREG rg_trk, rg_other; cv_i64 rg_other_idx;     /* unused here (kept so that the shared spec text compiles) */
#define RG_NONE (~0ul)
#define RG_MODEL_ASSIGNS rg_n, rg_trk, rg_other, rg_other_idx
#define PS_ENC(T, i) ((T *)(((i) + 1) << 6))
#define PS_DEC(p) ((((cv_i64)(p)) >> 6) - 1)
cv_i64 _ZNKSt6vectorIN5cocls9publisherIiE5queue8subreg_tESaIS4_EE4sizeEv(RGV *v) { PS_LOCKCHK(_regs, v, "registrations: size()"); return rg_n; }
SUBREG *_ZNSt6vectorIN5cocls9publisherIiE5queue8subreg_tESaIS4_EEixEm(RGV *v, cv_i64 i) {
  PS_LOCKCHK(_regs, v, "registrations: operator[]");
  __CPROVER_assert(i < rg_n, "std::vector<subreg_t>::operator[]: index in range");
  return &ar_slots[i]; }
void _ZNSt6vectorIN5cocls9publisherIiE5queue8subreg_tESaIS4_EE9push_backEOS4_(RGV *v, SUBREG *x) {
  PS_LOCKCHK(_regs, v, "registrations: push_back");
  __CPROVER_assert(rg_n < PS_ARRAY_REGS, "model bound: number of registration slots");
  ar_slots[rg_n] = *x; rg_n++; }
#else
/* ---------------------------------------------------------------- (2) std::vector<subreg_t> */
cv_i64 rg_n;                                      /* size                                                              */
cv_i64 gh_RH; SUBREG rg_trk;                      /* tracked index and the slot stored there (meaningful iff gh_RH < rg_n) */
SUBREG rg_other; cv_i64 rg_other_idx;             /* the untracked slot most recently referenced                       */
#define RG_NONE (~0ul)
#define RG_MODEL_ASSIGNS rg_n, rg_trk, rg_other, rg_other_idx
#define PS_ENC(T, i) ((T *)(((i) + 1) << 6))      /* position-encoded iterator (never dereferenced)                    */
#define PS_DEC(p) ((((cv_i64)(p)) >> 6) - 1)
static SUBREG *ps_reg_ref(cv_i64 i) {
  if (i == gh_RH) return &rg_trk;
  if (rg_other_idx != i) {                        /* a different slot than the one referenced last: arbitrary content ...   */
    SUBREG nd; __CPROVER_assume(nd._used <= 1 && nd._kicked <= 1); rg_other = nd; rg_other_idx = i;
    PS_ON_REG_OTHER(i);                           /* ... satisfying the unit's invariant for "every other slot"            */
  }                                               /* the same slot again: it still holds what the code left there          */
  return &rg_other; }
cv_i64 _ZNKSt6vectorIN5cocls9publisherIiE5queue8subreg_tESaIS4_EE4sizeEv(RGV *v) { PS_LOCKCHK(_regs, v, "registrations: size()"); return rg_n; }
SUBREG *_ZNSt6vectorIN5cocls9publisherIiE5queue8subreg_tESaIS4_EEixEm(RGV *v, cv_i64 i) {
  PS_LOCKCHK(_regs, v, "registrations: operator[]");
  __CPROVER_assert(i < rg_n, "std::vector<subreg_t>::operator[]: index in range");
  return ps_reg_ref(i); }
void _ZNSt6vectorIN5cocls9publisherIiE5queue8subreg_tESaIS4_EE9push_backEOS4_(RGV *v, SUBREG *x) {
  PS_LOCKCHK(_regs, v, "registrations: push_back");
  __CPROVER_assume(rg_n < PS_BIG);                /* memory is finite                                                  */
  if (rg_n == gh_RH) rg_trk = *x;
  rg_n++; gh_allocs += (nondet_bool() ? 1 : 0); }
SUBREG *_ZNSt6vectorIN5cocls9publisherIiE5queue8subreg_tESaIS4_EE5beginEv(RGV *v) { PS_LOCKCHK(_regs, v, "registrations: begin()"); return PS_ENC(SUBREG, 0); }
SUBREG *_ZNSt6vectorIN5cocls9publisherIiE5queue8subreg_tESaIS4_EE3endEv(RGV *v) { PS_LOCKCHK(_regs, v, "registrations: end()"); return PS_ENC(SUBREG, rg_n); }
cv_i1 _ZN9__gnu_cxxeqIPN5cocls9publisherIiE5queue8subreg_tESt6vectorIS5_SaIS5_EEEEbRKNS_17__normal_iteratorIT_T0_EESF_(RGIT *a, RGIT *b) {
  return a->_M_current == b->_M_current ? 1 : 0; }
SUBREG *_ZNK9__gnu_cxx17__normal_iteratorIPN5cocls9publisherIiE5queue8subreg_tESt6vectorIS5_SaIS5_EEEdeEv(RGIT *it) {
  __CPROVER_assert(gh_lock_depth > 0, "registrations: iterator dereference: queue mutex held (lock discipline)");
  __CPROVER_assert(PS_DEC(it->_M_current) < rg_n, "std::vector<subreg_t>::iterator dereferenced in range");
  return ps_reg_ref(PS_DEC(it->_M_current)); }
SUBREG *_ZNK9__gnu_cxx17__normal_iteratorIPN5cocls9publisherIiE5queue8subreg_tESt6vectorIS5_SaIS5_EEEptEv(RGIT *it) {
  __CPROVER_assert(gh_lock_depth > 0, "registrations: iterator dereference: queue mutex held (lock discipline)");
  __CPROVER_assert(PS_DEC(it->_M_current) < rg_n, "std::vector<subreg_t>::iterator dereferenced in range");
  return ps_reg_ref(PS_DEC(it->_M_current)); }
RGIT *_ZN9__gnu_cxx17__normal_iteratorIPN5cocls9publisherIiE5queue8subreg_tESt6vectorIS5_SaIS5_EEEppEv(RGIT *it) {
  it->_M_current = PS_ENC(SUBREG, PS_DEC(it->_M_current) + 1); return it; }

#endif
/* ---------------------------------------------------------------- (3) std::vector<awaiter*> */
AWT *gh_AW;                                       /* the awaiter of interest (arbitrary but fixed, non-null)           */
cv_i64 wb_cnt, wb_idx;                            /* occurrences of gh_AW pushed since clear(); index of the first one */
AWT *wb_slot;
#define WB_LEN(v) (*(cv_i64 *)(v))
#define WB_MODEL_ASSIGNS wb_cnt, wb_idx, wb_slot
void _ZNSt6vectorIPN5cocls7awaiterESaIS2_EE5clearEv(WBV *v) { PS_LOCKCHK(_wakeup_buffer, v, "wake-up buffer: clear()"); WB_LEN(v) = 0; wb_cnt = 0; }
void _ZNSt6vectorIPN5cocls7awaiterESaIS2_EE9push_backERKS2_(WBV *v, AWT **x) {
  PS_LOCKCHK(_wakeup_buffer, v, "wake-up buffer: push_back");
  __CPROVER_assume(WB_LEN(v) < PS_BIG);
  __CPROVER_assert(*x != 0, "only non-null awaiters enter the wake-up buffer");
  if (*x == gh_AW) { if (wb_cnt == 0) wb_idx = WB_LEN(v); wb_cnt++; }
  WB_LEN(v)++; gh_allocs += (nondet_bool() ? 1 : 0); }
void _ZNSt6vectorIPN5cocls7awaiterESaIS2_EEC2EOS4_(WBV *dst, WBV *src) { WB_LEN(dst) = WB_LEN(src); WB_LEN(src) = 0; }
void _ZNSt6vectorIPN5cocls7awaiterESaIS2_EED2Ev(WBV *v) { }
void _ZSt4swapIPN5cocls7awaiterESaIS2_EEvRSt6vectorIT_T0_ES8_(WBV *a, WBV *b) {
  cv_i64 t = WB_LEN(a); WB_LEN(a) = WB_LEN(b); WB_LEN(b) = t;
  wb_cnt = 2; }                                   /* content abstraction no longer tied to one vector: "unknown" until the next clear() */
/* iterating the MEMBER buffer (not a moved-out local copy) needs the queue mutex like every other access to it */
#ifdef PS_LOCKCHECK_WB_ITER
#define PS_WB_ITER_CHK(v, what) do { if (ps_q != 0 && (void *)(v) == (void *)&ps_q->_wakeup_buffer) __CPROVER_assert(gh_lock_depth > 0, what ": queue mutex held (lock discipline)"); } while (0)
#else
#define PS_WB_ITER_CHK(v, what)
#endif
AWT **_ZNSt6vectorIPN5cocls7awaiterESaIS2_EE5beginEv(WBV *v) { PS_WB_ITER_CHK(v, "wake-up buffer (member): begin()"); return PS_ENC(AWT *, 0); }
AWT **_ZNSt6vectorIPN5cocls7awaiterESaIS2_EE3endEv(WBV *v) { PS_WB_ITER_CHK(v, "wake-up buffer (member): end()"); return PS_ENC(AWT *, WB_LEN(v)); }
cv_i1 _ZN9__gnu_cxxeqIPPN5cocls7awaiterESt6vectorIS3_SaIS3_EEEEbRKNS_17__normal_iteratorIT_T0_EESD_(WBIT *a, WBIT *b) {
  return a->_M_current == b->_M_current ? 1 : 0; }
AWT **_ZNK9__gnu_cxx17__normal_iteratorIPPN5cocls7awaiterESt6vectorIS3_SaIS3_EEEdeEv(WBIT *it) {
  cv_i64 k = PS_DEC(it->_M_current); AWT *v;
  if (wb_cnt >= 1 && k == wb_idx) v = gh_AW;
  else { v = (AWT *)nondet_ptr(); __CPROVER_assume(v != 0); if (wb_cnt <= 1) __CPROVER_assume(v != gh_AW); }
  wb_slot = v; return &wb_slot; }
WBIT *_ZN9__gnu_cxx17__normal_iteratorIPPN5cocls7awaiterESt6vectorIS3_SaIS3_EEEppEv(WBIT *it) {
  it->_M_current = PS_ENC(AWT *, PS_DEC(it->_M_current) + 1); return it; }

/* ---------------------------------------------------------------- (4) awaiter::resume() and the returned suspend point */
cv_i64 gh_n_res, gh_n_res_AW, gh_n_sp_dtor;
#define RES_MODEL_ASSIGNS gh_n_res, gh_n_res_AW, gh_n_sp_dtor
void _ZN5cocls7awaiter6resumeEv(SPT *ret, AWT *a) {
  __CPROVER_assert(a != 0, "awaiter::resume() on a non-null awaiter");
  __CPROVER_assert(gh_lock_depth == 0, "awaiter resumed OUTSIDE the queue lock");
  __CPROVER_assume(gh_n_res < (1ul << 62));
  gh_n_res++; if (a == gh_AW) gh_n_res_AW++;
  ret->_count_flag = 0;                            /* coroutines made ready by the resumed party are C05/C06 territory  */
  PS_ON_RESUME(a); }
void _ZN5cocls13suspend_pointIvED2Ev(SPT *sp) { gh_n_sp_dtor++; }
