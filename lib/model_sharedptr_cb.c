/* model_sharedptr_cb.c - std::shared_ptr as an explicit control block (DESIGN 3.3 "std containers and smart pointers").
 *
 * Boundary: every member of std::__shared_count<_S_atomic> (the reference-count handle inside std::shared_ptr / __shared_ptr).
 * std::shared_ptr<T> / std::__shared_ptr<T> themselves (copy, assignment, swap, destructor, operator bool, get) stay
 * TRANSLATED from libstdc++: they only copy the raw pointer and forward to __shared_count.  libstdc++'s _Sp_counted_base
 * (atomic counters, __gthread_active_p dispatch, virtual _M_dispose/_M_destroy, weak count) is replaced by:
 *
 *     one heap block per make_shared:  [ struct cv_sp_cb | pointee ]      (one allocation, as std::make_shared does)
 *     cb->strong = number of shared_ptr objects that own the block (the "ghost strong count", kept IN the block so that
 *     any use of a stale control-block pointer is a CBMC use-after-free failure).
 *     copy            : strong++            (obligation: the source still owns, strong >= 1)
 *     destroy / reset : strong--            (obligation: strong >= 1 - the count never goes negative)
 *     drop to zero    : runs the REAL translated destructor of the pointee (CV_SP_DISPOSE) exactly once, then frees the block
 *                       (gh_frees++; double release / access after release = CBMC double-free / deallocated-object failure).
 * Counter overflow, weak_ptr, custom deleters, aliasing constructors are not modelled (cocls does not use them here).
 * Sequential semantics: the counter updates are atomic RMWs in libstdc++; their thread-safety is libstdc++'s, not cocls'.
 *
 * Unit supplies (units.py `defines`):  CV_SP_POINTEE  C type of the pointee,  CV_SP_DISPOSE  its translated destructor,
 * and a type alias SCNT = std::__shared_count<__gnu_cxx::_S_atomic> (the spelling of the debug info).
 * Allocating constructors (one per make_shared<T>(args...) instantiation) are defined by the spec with CV_SP_DEFINE_MAKE.
 * operator-> / operator* on an EMPTY shared_ptr are obligations: use CV_SP_DEFINE_ACCESS in the spec for each instantiation.
 * Trusted base. */
struct cv_sp_cb { cv_i64 strong; cv_i64 reserved; };
struct cv_sp_block { struct cv_sp_cb hdr; CV_SP_POINTEE obj; };     /* typed view of the one allocation */
#define CV_SP_HDR        (sizeof(struct cv_sp_cb))
#define CV_SP_BLOCK_SIZE (sizeof(struct cv_sp_block))
#define CV_SP_CB(cnt)    ((struct cv_sp_cb *)(cnt)->_M_pi)
#define CV_SP_OBJ(cb)    (&((struct cv_sp_block *)(cb))->obj)
#define CV_SP_STRONG(cb) (((struct cv_sp_block *)(cb))->hdr.strong)      /* access through the block's own type (no byte-level reinterpretation) */
void CV_SP_DISPOSE(CV_SP_POINTEE *);

unsigned gh_sp_made;       /* control blocks created (make_shared calls)                          */
unsigned gh_sp_disposed;   /* pointee destructor runs (one per drop-to-zero)                      */
unsigned gh_sp_released;   /* control blocks freed                                               */
void *gh_sp_last_released; /* the most recently freed block (never dereferenced; identity only)   */
int cv_sp_depth;           /* >0 while a pointee destructor runs (a nested drop-to-zero is a model limit, reported as obligation) */

static void cv_sp_add_ref(struct cv_sp_cb *cb) {
  __CPROVER_assert(CV_SP_STRONG(cb) >= 1, "shared_ptr copied from an owner whose control block has strong count 0 (resurrection / stale owner)");
  CV_SP_STRONG(cb)++;
}
static void cv_sp_release(struct cv_sp_cb *cb) {
  __CPROVER_assert(CV_SP_STRONG(cb) >= 1, "shared_ptr released although the strong count is already 0 (count would go negative)");
  CV_SP_STRONG(cb)--;
  if (cv_sp_depth != 0) {
    /* a shared_ptr member of the pointee is destroyed while the pointee's destructor runs: it may give up a reference, but a
     * second drop-to-zero from inside a destructor is outside the model (and keeps the call graph free of real recursion) */
    __CPROVER_assert(CV_SP_STRONG(cb) != 0, "model limit: a pointee destructor drops the last reference of another control block");
    return;
  }
  if (CV_SP_STRONG(cb) == 0) {
    cv_sp_depth = 1;
    gh_sp_disposed++;
    CV_SP_DISPOSE(CV_SP_OBJ(cb));                 /* the real translated ~T() */
    cv_sp_depth = 0;
    gh_sp_released++; gh_frees++; gh_sp_last_released = cb;
    free(cb);
  }
}
static struct cv_sp_cb *cv_sp_alloc(void) {
  struct cv_sp_cb *cb = (struct cv_sp_cb *)(struct cv_sp_block *)malloc(sizeof(struct cv_sp_block)); __CPROVER_assume(cb != 0);
  gh_allocs++; gh_sp_made++;
  CV_SP_STRONG(cb) = 1; ((struct cv_sp_block *)cb)->hdr.reserved = 0;
  return cb;
}
/* __shared_count() */
void _ZNSt14__shared_countILN9__gnu_cxx12_Lock_policyE2EEC2Ev(SCNT *this_) { this_->_M_pi = 0; }
/* __shared_count(const __shared_count &) */
void _ZNSt14__shared_countILN9__gnu_cxx12_Lock_policyE2EEC2ERKS2_(SCNT *this_, SCNT *r) {
  this_->_M_pi = r->_M_pi;
  if (CV_SP_CB(this_) != 0) cv_sp_add_ref(CV_SP_CB(this_));
}
/* ~__shared_count() */
void _ZNSt14__shared_countILN9__gnu_cxx12_Lock_policyE2EED2Ev(SCNT *this_) {
  if (CV_SP_CB(this_) != 0) cv_sp_release(CV_SP_CB(this_));
}
/* operator=(const __shared_count &) - libstdc++ order: add the new reference first, then release the old one */
SCNT *_ZNSt14__shared_countILN9__gnu_cxx12_Lock_policyE2EEaSERKS2_(SCNT *this_, SCNT *r) {
  struct cv_sp_cb *tmp = CV_SP_CB(r);
  if (tmp != CV_SP_CB(this_)) {
    if (tmp != 0) cv_sp_add_ref(tmp);
    if (CV_SP_CB(this_) != 0) cv_sp_release(CV_SP_CB(this_));
    this_->_M_pi = (void *)tmp;
  }
  return this_;
}
/* _M_swap(__shared_count &) */
void _ZNSt14__shared_countILN9__gnu_cxx12_Lock_policyE2EE7_M_swapERS2_(SCNT *this_, SCNT *r) {
  void *t = (void *)r->_M_pi; r->_M_pi = this_->_M_pi; this_->_M_pi = t;
}
/* _M_get_use_count() */
cv_i64 _ZNKSt14__shared_countILN9__gnu_cxx12_Lock_policyE2EE16_M_get_use_countEv(SCNT *this_) {
  return CV_SP_CB(this_) != 0 ? CV_SP_STRONG(CV_SP_CB(this_)) : 0;
}

/* allocating constructor __shared_count(T *&p, _Sp_alloc_shared_tag<allocator<void>>, Args&&...):
 *   CV_SP_DEFINE_MAKE(mangled name, (extra parameter declarations with leading comma), construct-expression using `obj`)
 * one block, pointee constructed in place by the REAL translated constructor; a throwing constructor releases the block. */
#define CV_SP_DEFINE_MAKE(fn, ALLOC_T, PARAMS, CONSTRUCT) \
  void fn(SCNT *this_, CV_SP_POINTEE **p, ALLOC_T *a PARAMS) { \
    struct cv_sp_cb *cb = cv_sp_alloc(); CV_SP_POINTEE *obj = CV_SP_OBJ(cb); \
    CONSTRUCT; \
    if (cv_exc_pending) { gh_frees++; free(cb); return; } \
    this_->_M_pi = (void *)cb; *p = obj; }
/* operator-> / operator* of __shared_ptr_access<T>: precondition "not empty" (libstdc++: __glibcxx_assert(_M_get() != nullptr)).
 * The violated precondition is the reported obligation; like the other fatal primitives (std::terminate, llvm.trap in rt_core.c)
 * the path ends there - what a null dereference does next is undefined and would only produce a cascade of follow-up failures.
 * Define CV_SP_CONTINUE_AFTER_EMPTY_DEREF to keep executing with the null pointer instead. */
#ifdef CV_SP_CONTINUE_AFTER_EMPTY_DEREF
#define CV_SP_STOP(c)
#else
#define CV_SP_STOP(c) __CPROVER_assume(c)
#endif
#define CV_SP_DEFINE_ACCESS(fn, ACCESS_T, SHARED_PTR_T, what) \
  CV_SP_POINTEE *fn(ACCESS_T *this_) { \
    CV_SP_POINTEE *p = (CV_SP_POINTEE *)((SHARED_PTR_T *)this_)->_M_ptr; \
    __CPROVER_assert(p != 0, what " on an empty std::shared_ptr (null pointer dereference)"); \
    CV_SP_STOP(p != 0); \
    return p; }
