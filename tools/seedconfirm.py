#!/usr/bin/env python3
"""seedconfirm.py <agent deliverable dir> <id> <property> [--needs "text"]
Confirms a seeded breaking change independently of the sub-agent that wrote it, in a scratch git worktree of /repo under /tmp:
  1. demonstration on the unchanged tree          -> must exit 0
  2. patch applies; library + tests build; the 15 tests pass (ctest, flaky timing test retried up to 3 times)
  3. demonstration with the change                -> must exit non-zero
and stores it as /verif/seeded/<id>/ (patch.diff, demo.cpp, build_and_run.sh, notes.txt, meta.json).  The worktree is removed."""
import sys, os, json, subprocess, shutil, time
V = os.path.dirname(os.path.dirname(os.path.abspath(__file__)))
def sh(cmd, **kw):
    r = subprocess.run(cmd, shell=isinstance(cmd, str), capture_output=True, text=True, errors='replace', **kw)
    return r.returncode, (r.stdout + r.stderr)
def main():
    src, sid, prop = sys.argv[1], sys.argv[2], sys.argv[3]
    needs = sys.argv[sys.argv.index('--needs') + 1] if '--needs' in sys.argv else None
    wt = '/tmp/confirm/%s' % sid
    os.makedirs('/tmp/confirm', exist_ok=True)
    sh(['git', '-C', '/repo', 'worktree', 'remove', '--force', wt]); shutil.rmtree(wt, ignore_errors=True)
    rc, out = sh(['git', '-C', '/repo', 'worktree', 'add', '--detach', wt, 'HEAD'])
    if rc: print(out); sys.exit(2)
    meta = dict(id=sid, property=prop, base_commit=sh(['git', '-C', '/repo', 'rev-parse', '--short', 'HEAD'])[1].strip(), confirmed_at=time.strftime('%Y-%m-%d %H:%M:%S'))
    ok = True
    try:
        demo = os.path.join(src, 'build_and_run.sh')
        runs = []
        for i in range(2):
            rc, out = sh(['sh', demo, os.path.join(wt, 'src')], timeout=900); runs.append(rc)
        meta['demo_unchanged'] = dict(exit_codes=runs, tail=out[-400:])
        if any(runs): ok = False; print('demo fails on the unchanged tree', runs)
        rc, out = sh(['git', '-C', wt, 'apply', os.path.abspath(os.path.join(src, 'patch.diff'))])
        meta['patch_applies'] = rc == 0
        if rc: ok = False; print('patch does not apply', out)
        else:
            rc, out = sh('cmake -G Ninja -B %s/_b -S %s -DCMAKE_BUILD_TYPE=RelWithDebInfo >/dev/null && cmake --build %s/_b -j8 2>&1 | tail -3' % (wt, wt, wt))
            meta['build'] = dict(rc=rc, tail=out[-300:])
            rc, out = sh('ctest --test-dir %s/_b -j4 --timeout 300 --repeat until-pass:3 2>&1 | tail -4' % wt)
            if '100% tests passed' not in out and 'test_generator_aggregator_async_infinite' in out and out.count('(Failed)') == 1:
                # wall-clock test (timers of 21/41/91 ms): fails on a loaded machine on the unchanged tree as well; re-run it alone
                rc2, out2 = sh('ctest --test-dir %s/_b -R test_generator_aggregator_async_infinite --timeout 300 --repeat until-pass:15 2>&1 | tail -4' % wt)
                if '100% tests passed' in out2: out = out.replace('(Failed)', '(failed under load, passed when re-run alone)') + '\n100% tests passed after re-running the timing test alone'
            meta['tests_with_change'] = dict(rc=rc, tail=out[-300:], passed='100% tests passed' in out)
            if '100% tests passed' not in out: ok = False; print('tests fail with the change:', out[-300:])
            runs = []
            for i in range(2):
                rc, out = sh(['sh', demo, os.path.join(wt, 'src')], timeout=900); runs.append(rc)
            meta['demo_with_change'] = dict(exit_codes=runs, tail=out[-600:])
            if not all(runs): ok = False; print('demo does not fail with the change', runs)
    finally:
        sh(['git', '-C', '/repo', 'worktree', 'remove', '--force', wt]); shutil.rmtree(wt, ignore_errors=True)
        sh(['git', '-C', '/repo', 'worktree', 'prune'])
    meta['confirmed'] = ok
    print(sid, 'CONFIRMED' if ok else 'NOT CONFIRMED')
    if ok:
        d = os.path.join(V, 'seeded', sid); os.makedirs(d, exist_ok=True)
        for f in ('patch.diff', 'demo.cpp', 'build_and_run.sh', 'notes.txt'):
            if os.path.exists(os.path.join(src, f)): shutil.copy(os.path.join(src, f), os.path.join(d, f))
        notes = open(os.path.join(src, 'notes.txt')).read() if os.path.exists(os.path.join(src, 'notes.txt')) else ''
        meta['written_by'] = 'independent sub-agent given only the property text and a scratch worktree'
        meta['what_it_needs_to_manifest'] = needs or 'see notes.txt'
        meta['what_was_run'] = ['sh build_and_run.sh <worktree>/src on the unchanged tree (2x, exit 0)', 'git apply patch.diff; cmake + ninja; ctest (15/15)',
                                'sh build_and_run.sh <worktree>/src with the change (2x, exit != 0)', 'tools/seedcheck.py (quick checks of /verif against /repo + patch) - see "checks"']
        old = os.path.join(d, 'meta.json')
        if os.path.exists(old):
            o = json.load(open(old)); meta = dict(o, **meta)
        json.dump(meta, open(old, 'w'), indent=1)
    sys.exit(0 if ok else 1)
main()
